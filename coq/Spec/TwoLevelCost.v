(* Specification vocabulary for the two-level optimizers (C18): what a valid multi-output two-level form is and what
   it costs under the documented gate model.  Independent of the 0-1 programmes.  No proofs. *)
From Coq Require Import List NArith ZArith Arith Bool.
From V Require Import Model.Kernels Model.TwoLevel Spec.Bfun.
Import ListNotations.
Open Scope N_scope.

(* a proper product term over n variables: masks below 2^n, no variable in both polarities *)
Definition cube_good (n : nat) (c : cube) : bool :=
  (cpos c <? 2 ^ N.of_nat n) && (cneg c <? 2 ^ N.of_nat n) && (N.land (cpos c) (cneg c) =? 0).
Definition ecube_good (n : nat) (e : ecube) : bool := evars e <? 2 ^ N.of_nat n.

Definition sem_or (cs : list cube) (m : N) : bool := existsb (fun c => cube_value c m) cs.
Definition sem_xor (cs : list cube) (m : N) : bool := fold_left (fun r c => xorb r (cube_value c m)) cs false.
Definition sem_soes (es : list ecube) (m : N) : bool := existsb (fun e => ecube_value e m) es.

Definition dom (n : nat) : list N := map N.of_nat (seq 0 (Nat.pow 2 n)).

(* keep the last occurrence of every element *)
Fixpoint dedupb {A} (eqb : A -> A -> bool) (l : list A) : list A :=
  match l with
  | [] => []
  | x :: r => if existsb (eqb x) r then dedupb eqb r else x :: dedupb eqb r
  end.
Definition nodupb {A} (eqb : A -> A -> bool) (l : list A) : bool := Nat.eqb (length (dedupb eqb l)) (length l).

Definition sum_gates (cs : list cube) : Z := fold_right (fun c a => (Z.of_N (cube_num_gates c) + a)%Z) 0%Z cs.
Definition sum_egates (es : list ecube) : Z := fold_right (fun e a => (Z.of_N (ecube_num_gates e) + a)%Z) 0%Z es.
(* one gate per extra term of an output *)
Definition extra (k : nat) : Z := Z.of_nat (k - 1).

(* ---- SOP: one cube list per function *)
Definition sop_solution_ok (n : nat) (fs : list (list N)) (sol : list (list cube)) : bool :=
  Nat.eqb (length sol) (length fs) &&
  forallb (fun fc : list N * list cube =>
             forallb (cube_good n) (snd fc) && nodupb cube_eqb (snd fc) &&
             forallb (fun m => Bool.eqb (sem_or (snd fc) m) (val (fst fc) m)) (dom n))
          (combine fs sol).
(* AND gates of the distinct cubes used (shared between outputs) + one OR gate per extra cube in each output *)
Definition sop_cost (and_cost or_cost : Z) (sol : list (list cube)) : Z :=
  (and_cost * sum_gates (dedupb cube_eqb (concat sol)) +
   or_cost * fold_right (fun c a => extra (length c) + a) 0 sol)%Z.

(* ---- SOPES: cubes and exclusive cubes, OR-ed together *)
Definition sopes_solution_ok (n : nat) (fs : list (list N)) (sol : list (list cube * list ecube)) : bool :=
  Nat.eqb (length sol) (length fs) &&
  forallb (fun fc : list N * (list cube * list ecube) =>
             let '(f, (cs, es)) := fc in
             forallb (cube_good n) cs && nodupb cube_eqb cs &&
             forallb (ecube_good n) es && nodupb ecube_eqb es &&
             forallb (fun m => Bool.eqb (sem_or cs m || sem_soes es m) (val f m)) (dom n))
          (combine fs sol).
Definition sopes_cost (and_cost xor_cost or_cost : Z) (sol : list (list cube * list ecube)) : Z :=
  (and_cost * sum_gates (dedupb cube_eqb (concat (map fst sol))) +
   xor_cost * sum_egates (dedupb ecube_eqb (concat (map snd sol))) +
   or_cost * fold_right (fun ce a => extra (length (fst ce) + length (snd ce)) + a) 0 sol)%Z.

(* ---- ESOP: one cube list per function, XOR-ed *)
Definition esop_solution_ok (n : nat) (fs : list (list N)) (sol : list (list cube)) : bool :=
  Nat.eqb (length sol) (length fs) &&
  forallb (fun fc : list N * list cube =>
             forallb (cube_good n) (snd fc) && nodupb cube_eqb (snd fc) &&
             forallb (fun m => Bool.eqb (sem_xor (snd fc) m) (val (fst fc) m)) (dom n))
          (combine fs sol).
Definition esop_cost (and_cost xor_cost : Z) (sol : list (list cube)) : Z :=
  (and_cost * sum_gates (dedupb cube_eqb (concat sol)) +
   xor_cost * fold_right (fun c a => extra (length c) + a) 0 sol)%Z.
