(* The reader for the text printed by Cube, Ecube, Sop, Esop and Soes (property C16).
   A string is a list of bytes ([list N]).  Reading is done in two steps:

     lex  : bytes  -> tokens        "x12" / "!x12" literals, "0", "1", " ^ ", " | "
     eval : tokens -> assignment -> value

   Grammar (loosest binding first):
     expr   ::= xterm  (" | " xterm)*          OR
     xterm  ::= factor (" ^ " factor)*         XOR
     factor ::= atom atom*                     AND by juxtaposition
     atom   ::= "0" | "1" | "x" index | "!x" index          ("!" complements the variable it precedes)
     index  ::= a non-empty maximal run of decimal digits

   The value of variable [i] under the assignment [m] is bit [i] of [m].
   No proofs in this file. *)
From Coq Require Import List NArith Bool.
Import ListNotations.
Open Scope N_scope.

Inductive token : Type :=
| TZero                          (* 0 *)
| TOne                           (* 1 *)
| TLit (neg : bool) (idx : N)    (* x<idx>  or  !x<idx> *)
| TXor                           (* " ^ " *)
| TOr.                           (* " | " *)

(* ------------------------------------------------------------------ bytes to tokens *)
(* '0' = 48 ... '9' = 57 *)
Definition is_digit (b : N) : bool := (48 <=? b) && (b <=? 57).

(* the decimal value of the maximal run of digits at the head of [s], continued from [acc];
   returns the value and the bytes after the run *)
Fixpoint read_num (acc : N) (s : list N) : N * list N :=
  match s with
  | b :: r => if is_digit b then read_num (10 * acc + (b - 48)) r else (acc, s)
  | [] => (acc, [])
  end.

(* a variable index: the run of digits must not be empty *)
Definition read_index (s : list N) : option (N * list N) :=
  match s with
  | b :: _ => if is_digit b then Some (read_num 0 s) else None
  | [] => None
  end.

(* remove the prefix [p] from [s] *)
Fixpoint strip (p s : list N) : option (list N) :=
  match p, s with
  | [], _ => Some s
  | a :: p', b :: s' => if a =? b then strip p' s' else None
  | _ :: _, [] => None
  end.

(* the fixed text [p] stands for the token [t] *)
Definition keyword (p : list N) (t : token) (s : list N) : option (token * list N) :=
  match strip p s with
  | Some rest => Some (t, rest)
  | None => None
  end.

(* the text [p] followed by an index is a literal *)
Definition literal (p : list N) (neg : bool) (s : list N) : option (token * list N) :=
  match strip p s with
  | Some r => match read_index r with
              | Some (i, rest) => Some (TLit neg i, rest)
              | None => None
              end
  | None => None
  end.

Definition orelse {A} (a b : option A) : option A := match a with Some _ => a | None => b end.
Infix "<|>" := orelse (at level 51, left associativity).

(* the first token of [s] and the bytes after it; the six alternatives start differently, so their order
   is irrelevant.  'x' = 120, '!' = 33, ' ' = 32, '^' = 94, '|' = 124 *)
Definition next_token (s : list N) : option (token * list N) :=
      keyword [48] TZero s                (* "0"   *)
  <|> keyword [49] TOne s                 (* "1"   *)
  <|> literal [120] false s               (* "x"   index *)
  <|> literal [33; 120] true s            (* "!x"  index *)
  <|> keyword [32; 94; 32] TXor s         (* " ^ " *)
  <|> keyword [32; 124; 32] TOr s.        (* " | " *)

(* every token takes at least one byte: [length s] rounds are enough *)
Fixpoint lex_fuel (fuel : nat) (s : list N) : option (list token) :=
  match s, fuel with
  | [], _ => Some []
  | _ :: _, O => None
  | _ :: _, S f => match next_token s with
                   | Some (t, rest) => option_map (cons t) (lex_fuel f rest)
                   | None => None
                   end
  end.

Definition lex (s : list N) : option (list token) := lex_fuel (length s) s.

(* ------------------------------------------------------------------ tokens to value *)
Definition is_or (t : token) : bool := match t with TOr => true | _ => false end.
Definition is_xor (t : token) : bool := match t with TXor => true | _ => false end.

(* cut a token list at every separator (the separators are dropped): n separators give n + 1 parts *)
Fixpoint split (is_sep : token -> bool) (ts : list token) : list (list token) :=
  match ts with
  | [] => [[]]
  | t :: r => if is_sep t then [] :: split is_sep r
              else match split is_sep r with
                   | part :: parts => (t :: part) :: parts
                   | [] => [[t]]
                   end
  end.

(* combine the values of the parts with [op]; a part without a value spoils the whole *)
Fixpoint combine_with (op : bool -> bool -> bool) (unit : bool) (l : list (option bool)) : option bool :=
  match l with
  | [] => Some unit
  | Some b :: r => option_map (op b) (combine_with op unit r)
  | None :: _ => None
  end.

Definition eval_atom (m : N) (t : token) : option bool :=
  match t with
  | TZero => Some false
  | TOne => Some true
  | TLit neg i => Some (xorb neg (N.testbit m i))
  | TXor | TOr => None
  end.

(* AND of one or more atoms *)
Definition eval_factor (m : N) (ts : list token) : option bool :=
  match ts with
  | [] => None
  | _ :: _ => combine_with andb true (map (eval_atom m) ts)
  end.

(* XOR of the factors between the " ^ " *)
Definition eval_xterm (m : N) (ts : list token) : option bool :=
  combine_with xorb false (map (eval_factor m) (split is_xor ts)).

(* OR of the xterms between the " | " *)
Definition eval (ts : list token) (m : N) : option bool :=
  combine_with orb false (map (eval_xterm m) (split is_or ts)).

(* the variable indices of the literals, in order of appearance *)
Definition lit_indices (ts : list token) : list N :=
  flat_map (fun t => match t with TLit _ i => [i] | _ => [] end) ts.
