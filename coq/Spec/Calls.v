(* Histories of public API calls (vocabulary of property C02). Definitions only.

   A term of type [call] is a finite history of calls of the public API of Lut / LutN that ends in a truth table:
   one constructor per public function that yields a truth table; the table-valued arguments of a function are
   themselves histories. [run] evaluates a history with the functions of Model/Api.v (Model/TwoLevel.v for the
   conversions from two-level forms); [args_ok] is the "valid arguments" condition of C02.

   Conventions
   - the copying, in-place and operator forms of one Rust method are the same model function (Model/Api.v), so
     they are one constructor here;
   - methods shared by Lut and LutN have one constructor (the D_ function); where the LutN code differs from the
     Lut code there is a second constructor (prefix cS_) evaluated with the S_ function;
   - a method that returns an Option<table> (from_hex_string, TryFrom<Lut> for LutN, Iterator::next) yields a
     table only when the result is Some: [run] maps None to [PanicAlways] (see [some_or_panic]); this choice is
     immaterial, the theorems of C02 speak about histories with [run c = Ok l] only;
   - methods that return a tuple (cofactors, the three canonizations) have one constructor per table component. *)
From Coq Require Import List NArith Arith Bool.
From V Require Import Base.Res Model.Kernels Model.Canon Model.TwoLevel Model.Api Spec.Bfun.
Import ListNotations.
Open Scope N_scope.
Open Scope res_scope.

Inductive call : Type :=
(* constructors *)
| c_zero (n : nat)
| c_one (n : nat)
| c_nth_var (n : nat) (v : N)
| c_parity (n : nat)
| c_majority (n : nat)
| c_threshold (n : nat) (k : N)
| c_equals (n : nat) (k : N)
| c_symmetric (n : nat) (count_values : N)
| c_default
| c_random (n : nat) (stream : list N)            (* stream = the successive outputs of the generator *)
| c_from_blocks (n : nat) (blocks : list N)       (* Lut::from_blocks *)
| cS_from_blocks (n : nat) (blocks : list N)      (* LutN::from_blocks *)
| c_from_hex_string (n : nat) (s : list N)        (* the string as a list of bytes *)
| cS_from_int (n : nat) (v : N)                   (* From<u8/u16/u32/u64> for Lut3/Lut4/Lut5/Lut6 *)
| c_iter_item (n k : nat)                         (* item number k (from 0) of Lut::all_functions(n) *)
(* conversions *)
| c_to_dyn (c : call)                             (* From<LutN> for Lut *)
| cS_try_from (n : nat) (c : call)                (* TryFrom<Lut> for LutN *)
| c_from_sop (s : sop)
| c_from_esop (s : esop)
| c_from_soes (s : soes)
(* operators *)
| c_not (a : call)
| c_and (a b : call)
| c_or (a b : call)
| c_xor (a b : call)
(* variable transforms, cofactoring *)
| c_flip (a : call) (ind : N)
| c_swap (a : call) (i j : N)
| c_swap_adjacent (a : call) (ind : N)
| c_cofactor0 (a : call) (ind : N)                (* cofactors(ind).0 *)
| c_cofactor1 (a : call) (ind : N)                (* cofactors(ind).1 *)
| c_from_cofactors (c0 c1 : call) (ind : N)       (* Lut::from_cofactors *)
| cS_from_cofactors (c0 c1 : call) (ind : N)      (* LutN::from_cofactors *)
(* in-place mutators *)
| c_set_bit (a : call) (m : N)
| c_unset_bit (a : call) (m : N)
| c_set_value (a : call) (m : N) (v : bool)
(* canonization: the representative *)
| c_p_canon (a : call)
| c_n_canon (a : call)
| c_npn_canon (a : call).

(* Option-valued methods: the history continues only with Some *)
Definition some_or_panic {A} (r : res (option A)) : res A :=
  let* o := r in match o with Some a => Ok a | None => PanicAlways end.

(* the all_functions iterator: state after k calls to next(), and the item returned by call number k
   (the same definitions as [iter_after] / [iter_item] of Proofs/Order.v, repeated here so that this file depends
   on the model only; Proofs/Invariant.v proves [nth_item = iter_item]) *)
Fixpoint iter_steps (k : nat) (st : iter_state) : res iter_state :=
  match k with
  | O => Ok st
  | S k' => let* st' := iter_steps k' st in let* r := iter_next st' in Ok (snd r)
  end.
Definition nth_item (n k : nat) : res (option lut) :=
  let* st0 := D_all_functions n in let* st := iter_steps k st0 in let* r := iter_next st in Ok (fst r).

Fixpoint run (c : call) : res lut :=
  match c with
  | c_zero n => D_zero n
  | c_one n => D_one n
  | c_nth_var n v => D_nth_var n v
  | c_parity n => D_parity n
  | c_majority n => D_majority n
  | c_threshold n k => D_threshold n k
  | c_equals n k => D_equals n k
  | c_symmetric n cv => D_symmetric n cv
  | c_default => D_default
  | c_random n stream => Ok (D_random n stream)
  | c_from_blocks n blocks => D_from_blocks n blocks
  | cS_from_blocks n blocks => S_from_blocks n blocks
  | c_from_hex_string n s => some_or_panic (D_from_hex_string n s)
  | cS_from_int n v => S_from_int n v
  | c_iter_item n k => some_or_panic (nth_item n k)
  | c_to_dyn a => let* l := run a in D_from_static l
  | cS_try_from n a => let* l := run a in some_or_panic (S_try_from n l)
  | c_from_sop s => Ok (mkLut (snv s) (sop_to_lut s))
  | c_from_esop s => Ok (mkLut (env s) (esop_to_lut s))
  | c_from_soes s => Ok (mkLut (onv s) (soes_to_lut s))
  | c_not a => let* l := run a in D_not l
  | c_and a b => let* x := run a in let* y := run b in D_and x y
  | c_or a b => let* x := run a in let* y := run b in D_or x y
  | c_xor a b => let* x := run a in let* y := run b in D_xor x y
  | c_flip a ind => let* l := run a in D_flip l ind
  | c_swap a i j => let* l := run a in D_swap l i j
  | c_swap_adjacent a ind => let* l := run a in D_swap_adjacent l ind
  | c_cofactor0 a ind => let* l := run a in let* p := D_cofactors l ind in Ok (fst p)
  | c_cofactor1 a ind => let* l := run a in let* p := D_cofactors l ind in Ok (snd p)
  | c_from_cofactors a b ind => let* x := run a in let* y := run b in D_from_cofactors x y ind
  | cS_from_cofactors a b ind => let* x := run a in let* y := run b in S_from_cofactors x y ind
  | c_set_bit a m => let* l := run a in D_set_bit l m
  | c_unset_bit a m => let* l := run a in D_unset_bit l m
  | c_set_value a m v => let* l := run a in D_set_value l m v
  | c_p_canon a => let* l := run a in let* r := D_p_canonization l in Ok (fst r)
  | c_n_canon a => let* l := run a in let* r := D_n_canonization l in Ok (fst r)
  | c_npn_canon a => let* l := run a in let* r := D_npn_canonization l in Ok (fst (fst r))
  end.

(* the number of variables of the table a history yields, read off the history (for LutN: the type parameter N) *)
Fixpoint call_nv (c : call) : nat :=
  match c with
  | c_zero n | c_one n | c_nth_var n _ | c_parity n | c_majority n | c_threshold n _ | c_equals n _
  | c_symmetric n _ | c_random n _ | c_from_blocks n _ | cS_from_blocks n _ | c_from_hex_string n _
  | cS_from_int n _ | c_iter_item n _ | cS_try_from n _ => n
  | c_default => 0%nat
  | c_from_sop s => snv s
  | c_from_esop s => env s
  | c_from_soes s => onv s
  | c_to_dyn a | c_not a | c_and a _ | c_or a _ | c_xor a _ | c_flip a _ | c_swap a _ _ | c_swap_adjacent a _
  | c_cofactor0 a _ | c_cofactor1 a _ | c_from_cofactors a _ _ | cS_from_cofactors a _ _
  | c_set_bit a _ | c_unset_bit a _ | c_set_value a _ _ | c_p_canon a | c_n_canon a | c_npn_canon a => call_nv a
  end.

(* "valid arguments". Only what the model does not check by itself:
   - from_blocks is restricted to well-formed blocks (right number of blocks, no bit at a position >= 2^n);
   - random: the generator produces at least one output per block;
   - From<uN> for LutN exists for N = 3..6 and the argument is a uN with 2^N bits;
   - LutN::from_cofactors: the two cofactors have the same type LutN (the Rust type checker enforces it; the
     Lut form checks it at run time with an assert!, so no condition is needed there).
   No condition on the number of variables, on variable indices, bit positions, count masks, thresholds, strings,
   or on the sizes of the operands of a binary operator: whenever such an argument is out of range the model
   panics, which [run c = Ok l] excludes. *)
Fixpoint args_ok (c : call) : Prop :=
  match c with
  | c_random n stream => (table_size n <= length stream)%nat
  | c_from_blocks n blocks | cS_from_blocks n blocks => wfb n blocks = true
  | cS_from_int n v => (3 <= n <= 6)%nat /\ v < 2 ^ 2 ^ N.of_nat n
  | cS_from_cofactors a b _ => args_ok a /\ args_ok b /\ call_nv a = call_nv b
  | c_and a b | c_or a b | c_xor a b | c_from_cofactors a b _ => args_ok a /\ args_ok b
  | c_to_dyn a | cS_try_from _ a | c_not a | c_flip a _ | c_swap a _ _ | c_swap_adjacent a _
  | c_cofactor0 a _ | c_cofactor1 a _ | c_set_bit a _ | c_unset_bit a _ | c_set_value a _ _
  | c_p_canon a | c_n_canon a | c_npn_canon a => args_ok a
  | _ => True
  end.

(* the histories a history is made of: itself and, recursively, its table-valued arguments
   ("every intermediate and final value") *)
Fixpoint subcalls (c : call) : list call :=
  c :: match c with
       | c_and a b | c_or a b | c_xor a b | c_from_cofactors a b _ | cS_from_cofactors a b _ =>
           subcalls a ++ subcalls b
       | c_to_dyn a | cS_try_from _ a | c_not a | c_flip a _ | c_swap a _ _ | c_swap_adjacent a _
       | c_cofactor0 a _ | c_cofactor1 a _ | c_set_bit a _ | c_unset_bit a _ | c_set_value a _ _
       | c_p_canon a | c_n_canon a | c_npn_canon a => subcalls a
       | _ => []
       end.
