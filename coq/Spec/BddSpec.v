(* Specification of bdd_complexity (C07): the number of internal nodes of the shared reduced ordered BDD with
   complemented edges of a list of functions, variable n-1 at the root and variable 0 at the bottom, literals
   not counted.  Standard characterisation: the nodes labelled x_l are the DISTINCT sub-functions obtained by
   fixing the variables above x_l, that depend on x_l; with complemented edges a function and its complement
   share one node.
   Executable Gallina, no proofs: [bdd_nodes] can be run by vm_compute and extracted as a checker. *)
From Coq Require Import List NArith Arith Bool.
From V Require Import Spec.Bfun.
Import ListNotations.
Open Scope N_scope.

(* the numbers 0, 1, ..., 2^k - 1 : all assignments of k variables *)
Definition assignments (k : nat) : list N := map N.of_nat (seq 0 (2 ^ k)).

(* the sub-function of table t at level l selected by the values a of the variables x_(l+1) .. x_(n-1):
   a function of the l+1 variables x_0 .. x_l, whose top variable is x_l *)
Definition sub (t : list N) (l : nat) (a : N) : N -> bool :=
  fun m' => val t (m' + a * 2 ^ N.of_nat (l + 1)).

(* one representative per complement pair (complemented edges): the one that is false on assignment 0 *)
Definition norm (g : N -> bool) : N -> bool :=
  if g 0 then (fun m' => negb (g m')) else g.

(* g depends on x_l: its two cofactors differ somewhere *)
Definition depends (l : nat) (g : N -> bool) : bool :=
  existsb (fun m' => xorb (g m') (g (m' + 2 ^ N.of_nat l))) (assignments l).

(* g is the literal x_l or its complement *)
Definition is_literal (l : nat) (g : N -> bool) : bool :=
  forallb (fun m' => negb (g m') && g (m' + 2 ^ N.of_nat l)) (assignments l) ||
  forallb (fun m' => g m' && negb (g (m' + 2 ^ N.of_nat l))) (assignments l).

(* the number whose binary digits, least significant first, are bs *)
Fixpoint of_bits (bs : list bool) : N :=
  match bs with
  | [] => 0
  | b :: r => N.b2n b + 2 * of_bits r
  end.

(* truth-table number of a function g of k variables: bit m' is g m'   (sum over m' < 2^k of g m' * 2^m') *)
Definition ttnum (k : nat) (g : N -> bool) : N := of_bits (map g (assignments k)).

(* all normalised sub-functions at level l of the listed tables *)
Definition level_subs (n : nat) (ts : list (list N)) (l : nat) : list (N -> bool) :=
  flat_map (fun t => map (fun a => norm (sub t l a)) (assignments (n - 1 - l))) ts.

(* the BDD nodes labelled x_l (with repetitions), each given by its truth-table number *)
Definition level_nodes (n : nat) (ts : list (list N)) (l : nat) : list N :=
  map (ttnum (l + 1))
      (filter (fun g => depends l g && negb (is_literal l g)) (level_subs n ts l)).

(* number of distinct nodes labelled x_l *)
Definition level_count (n : nat) (ts : list (list N)) (l : nat) : nat :=
  length (nodup N.eq_dec (level_nodes n ts l)).

Definition bdd_nodes (n : nat) (ts : list (list N)) : nat :=
  list_sum (map (level_count n ts) (seq 0 n)).
