(* Specification vocabulary for canonization (C04, C05): the action of an input permutation and an input/output
   complementation mask on a function, certificates, and the sequences of certificates visited by the three walks.
   No proofs. *)
From Coq Require Import List NArith Arith Bool Permutation.
From V Require Import Model.Kernels Spec.Bfun.
Import ListNotations.
Open Scope N_scope.

Definition identity (n : nat) : list N := map N.of_nat (seq 0 n).

(* perm is a permutation of 0..n *)
Definition is_perm (n : nat) (perm : list N) : Prop := Permutation perm (identity n).

(* the input assignment x of the original function that corresponds to input assignment y of the transformed one:
   x[perm[i]] = y[i] xor mask[i]   for all i < n *)
Definition xin (n : nat) (perm : list N) (mask y : N) : N :=
  fold_left (fun x i => if xorb (N.testbit y (N.of_nat i)) (N.testbit mask (N.of_nat i))
                        then setbit x (nthN perm i) else x)
            (seq 0 n) 0.

(* g(y) = f(x) xor mask[n] *)
Definition act (n : nat) (perm : list N) (mask : N) (f : N -> bool) (y : N) : bool :=
  xorb (f (xin n perm mask y)) (N.testbit mask (N.of_nat n)).

(* (perm, mask) is a valid certificate that c is the transform of f *)
Definition cert_ok (n : nat) (f c : N -> bool) (perm : list N) (mask : N) : Prop :=
  is_perm n perm /\ mask < 2 ^ (N.of_nat n + 1) /\ forall y, y < 2 ^ N.of_nat n -> c y = act n perm mask f y.

(* executable form, for the witness checker *)
Definition is_permb (n : nat) (perm : list N) : bool :=
  Nat.eqb (length perm) n && forallb (fun i => existsb (fun p => p =? N.of_nat i) perm) (seq 0 n).
Definition cert_okb (n : nat) (f c : N -> bool) (perm : list N) (mask : N) : bool :=
  is_permb n perm && (mask <? 2 ^ (N.of_nat n + 1)) &&
  forallb (fun y => Bool.eqb (c y) (act n perm mask f y)) (map N.of_nat (seq 0 (Nat.pow 2 n))).

(* ---- the certificates visited by the walks, index by index (mirrors the *_res functions of canonization.rs) *)
Definition swap_entries (p : list N) (s : N) : list N :=
  let i := N.to_nat s in upd (upd p i (nthN p (i + 1))) (i + 1) (nthN p i).

(* permutation after each swap of the sequence *)
Fixpoint perms_after (p : list N) (swaps : list N) : list (list N) :=
  match swaps with
  | [] => []
  | s :: r => let p' := swap_entries p s in p' :: perms_after p' r
  end.
Definition p_certs (n : nat) (swaps : list N) : list (list N * N) :=
  map (fun p => (p, 0)) (perms_after (identity n) swaps).

(* masks after each of the two complementations that follow each flip *)
Fixpoint masks_after (n : nat) (cur : N) (flips : list N) : list N :=
  match flips with
  | [] => []
  | f :: r => let c1 := N.lxor (N.lxor cur (2 ^ f)) (2 ^ N.of_nat n) in
              let c2 := N.lxor c1 (2 ^ N.of_nat n) in
              c1 :: c2 :: masks_after n c2 r
  end.
Definition n_certs (n : nat) (flips : list N) : list (list N * N) :=
  map (fun m => (identity n, m)) (masks_after n 0 flips).

(* NPN: for each swap, the whole flip cycle *)
Definition npn_certs (n : nat) (swaps flips : list N) : list (list N * N) :=
  flat_map (fun p => map (fun m => (p, m)) (masks_after n 0 flips)) (perms_after (identity n) swaps).

(* side conditions on the sequences, all decidable *)
Definition swaps_valid (n : nat) (swaps : list N) : bool := forallb (fun s => s + 1 <? N.of_nat n) swaps.
Definition flips_valid (n : nat) (flips : list N) : bool := forallb (fun f => f <? N.of_nat n) flips.
Definition list_N_eqb (a b : list N) : bool := if list_eq_dec N.eq_dec a b then true else false.
(* closed walks: the last certificate is the identity transformation *)
Definition swaps_closed (n : nat) (swaps : list N) : bool :=
  list_N_eqb (last (perms_after (identity n) swaps) (identity n)) (identity n).
Definition flips_closed (n : nat) (flips : list N) : bool :=
  last (masks_after n 0 flips) 0 =? 0.
