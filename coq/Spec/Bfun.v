(* Specification vocabulary: the value of a table on an assignment, well-formedness, bit surgery on assignments.
   Independent of masks and kernels so that it can be read in minutes. *)
From Coq Require Import List NArith Arith Bool.
From V Require Import Model.Kernels.
Import ListNotations.
Open Scope N_scope.

(* value of the function stored in table t on assignment m (bit i of m is the value of x_i) *)
Definition val (t : list N) (m : N) : bool :=
  N.testbit (nthN t (N.to_nat (m / 64))) (m mod 64).

(* number of meaningful bits in one word: 2^min(n,6) *)
Definition word_bits (n : nat) : N := 2 ^ N.of_nat (Nat.min n 6).

(* max(1, 2^n/64) blocks and no bit at a position >= 2^n *)
Definition wf (n : nat) (t : list N) : Prop :=
  length t = table_size n /\ Forall (fun w => w < 2 ^ word_bits n) t.

Definition wfb (n : nat) (t : list N) : bool :=
  Nat.eqb (length t) (table_size n) && forallb (fun w => w <? 2 ^ word_bits n) t.

(* pointwise equality on the domain *)
Definition feq (n : nat) (f g : N -> bool) : Prop := forall m, m < 2 ^ N.of_nat n -> f m = g m.

Definition flipbit (m : N) (i : N) : N := N.lxor m (2 ^ i).
Definition setbit (m : N) (i : N) : N := N.lor m (2 ^ i).
Definition clearbit (m : N) (i : N) : N := N.ldiff m (2 ^ i).
Definition swapbits (m : N) (i j : N) : N :=
  if Bool.eqb (N.testbit m i) (N.testbit m j) then m else flipbit (flipbit m i) j.
