(* A constructive shared reduced ordered BDD with complemented edges (C07): the textbook construction
   (Shannon expansion, [mk] with the two reduction rules, one unique table threaded through all the listed
   functions), variable n-1 at the root and variable 0 at the bottom.
   A node is identified by its canonical expansion (hash-consing view: two nodes are the same node iff they have
   the same label and the same two edges), so the unique table is a duplicate-free list of nodes and the
   sharing of the DAG is exactly "one entry per distinct node".
   Executable Gallina, definitions only: everything can be run by vm_compute.
   Proofs/BddBuildProofs.v proves that the number of non-literal nodes of the unique table is
   [BddSpec.bdd_nodes]. *)
From Coq Require Import List NArith Arith Bool.
From V Require Import Spec.Bfun.
Import ListNotations.
Open Scope N_scope.

(* [Zero] is the single terminal (constant false; constant true is the complemented edge to it).
   [Node v lc lo hc hi]: decision node on x_v, low edge (taken when x_v = 0) to [lo] with complement bit [lc],
   high edge (x_v = 1) to [hi] with complement bit [hc]. *)
Inductive bdd : Type :=
| Zero : bdd
| Node : nat -> bool -> bdd -> bool -> bdd -> bdd.

(* an edge: complement bit and target *)
Definition edge : Type := (bool * bdd)%type.

Fixpoint bdd_eqb (x y : bdd) : bool :=
  match x, y with
  | Zero, Zero => true
  | Node v lc lo hc hi, Node v' lc' lo' hc' hi' =>
      Nat.eqb v v' && Bool.eqb lc lc' && bdd_eqb lo lo' && Bool.eqb hc hc' && bdd_eqb hi hi'
  | _, _ => false
  end.

Definition edge_eqb (e f : edge) : bool := Bool.eqb (fst e) (fst f) && bdd_eqb (snd e) (snd f).

(* the Boolean function denoted by a node / an edge (bit i of the assignment m is the value of x_i) *)
Fixpoint bdd_fun (b : bdd) (m : N) : bool :=
  match b with
  | Zero => false
  | Node v lc lo hc hi =>
      if N.testbit m (N.of_nat v) then xorb hc (bdd_fun hi m) else xorb lc (bdd_fun lo m)
  end.

Definition edge_fun (e : edge) (m : N) : bool := xorb (fst e) (bdd_fun (snd e) m).

(* the canonical form of complement-edge ROBDDs, as a checkable predicate: labels strictly decrease along every
   path and are below k (ordered), the low edge is regular, the two edges of a node differ (reduced) *)
Fixpoint canonb (k : nat) (b : bdd) : bool :=
  match b with
  | Zero => true
  | Node v lc lo hc hi =>
      Nat.ltb v k && negb lc && canonb v lo && canonb v hi && negb (edge_eqb (lc, lo) (hc, hi))
  end.

(* the nodes reachable from a node, itself included *)
Fixpoint subnodes (b : bdd) : list bdd :=
  match b with
  | Zero => []
  | Node v lc lo hc hi => b :: subnodes lo ++ subnodes hi
  end.

(* the unique table: the list of the nodes created so far, without duplicates *)
Definition utable : Type := list bdd.

(* make the node "if x_v then hi else lo":
   - both edges equal: no node, the edge itself (elimination rule);
   - otherwise push the complement bit of the low edge to the incoming edge, so that the low edge is regular
     (the node then denotes a function that is false on the all-zero assignment), and look the node up in the
     unique table, adding it when it is new (sharing rule). *)
Definition mk (u : utable) (v : nat) (lo hi : edge) : utable * edge :=
  if edge_eqb lo hi then (u, lo)
  else
    let c := fst lo in
    let nd := Node v false (snd lo) (xorb c (fst hi)) (snd hi) in
    (if existsb (bdd_eqb nd) u then u else u ++ [nd], (c, nd)).

(* the edge for the sub-function of table t on the k low variables x_0 .. x_(k-1), the variables x_k, x_(k+1), ..
   being fixed to the binary digits of a:   m' |-> val t (m' + a * 2^k)   (for k = l+1 this is [BddSpec.sub t l a]).
   Shannon expansion on the top variable x_(k-1); a single bit of the table at the bottom. *)
Fixpoint build (t : list N) (k : nat) (a : N) (u : utable) : utable * edge :=
  match k with
  | O => (u, (val t a, Zero))
  | S l =>
      let (u1, e0) := build t l (2 * a) u in
      let (u2, e1) := build t l (2 * a + 1) u1 in
      mk u2 l e0 e1
  end.

(* all the listed functions, one unique table *)
Fixpoint build_list (n : nat) (ts : list (list N)) (u : utable) : utable * list edge :=
  match ts with
  | [] => (u, [])
  | t :: r =>
      let (u1, e) := build t n 0 u in
      let (u2, es) := build_list n r u1 in
      (u2, e :: es)
  end.

Definition shared_bdd (n : nat) (ts : list (list N)) : utable * list edge := build_list n ts [].

(* the node denoting the literal x_v (its complement is the complemented edge to the same node) *)
Definition is_literal_node (b : bdd) : bool :=
  match b with
  | Node _ false Zero true Zero => true
  | _ => false
  end.

Definition count_nonliteral (u : utable) : nat := length (filter (fun b => negb (is_literal_node b)) u).

(* the number of internal nodes of the shared BDD, literals not counted *)
Definition bdd_size (n : nat) (ts : list (list N)) : nat := count_nonliteral (fst (shared_bdd n ts)).
