(* Extraction of the executable model (and of the specification-level checkers) to OCaml.
   Only ExtrOcamlBasic is used: bool, option, unit, list, prod, sumbool, sumor map to OCaml's own types;
   N, positive, nat, comparison stay the extracted inductives. *)
Require Extraction.
Require Import ExtrOcamlBasic.
From Coq Require Import List NArith.
From V Require Import Spec.Bfun Spec.Transform Spec.BddSpec Spec.TwoLevelCost Checkers.Check.
From V Require Import Base.Res Gen.Tables Model.Kernels Model.Canon Model.Decomp Model.Bdd Model.TwoLevel Model.Api Model.Mip.
Extraction Language OCaml.
Set Extraction KeepSingleton.
Extraction "model.ml"
  (* tables, for the translator cross-check *)
  VAR_MASK NUM_VARS_MASK COUNT_MASKS SWAP_INPUT_MASKS FLIPS SWAPS PARITY_COUNT_VALUES
  (* spec and checkers *)
  val wfb identity cert_okb bdd_nodes
  chk_table spec_not spec_and spec_or spec_xor spec_flip spec_swap spec_cof0 spec_cof1 spec_from_cof
  spec_zero spec_one spec_nth_var spec_symmetric spec_equals spec_threshold spec_parity spec_majority spec_set
  bigN chk_cmp chk_next chk_eq chk_cert chk_minimal chk_below chk_ecube_eq chk_cube_eq spec_top spec_pos_unate spec_neg_unate decomp_eqb chk_bdd
  cube_good sem_or sem_xor sem_soes irredundantb chk_sop_result chk_esop_result chk_esop_from_lut chk_sop_from_lut dom
  (* api *)
  mkLut lut_new table_size num_bits num_blocks
  D_one D_zero D_nth_var D_parity D_majority D_threshold D_equals D_symmetric D_default D_random
  D_get_bit D_set_bit D_unset_bit D_set_value
  D_not D_and D_or D_xor D_flip D_swap D_swap_adjacent D_cofactors D_from_cofactors S_from_cofactors
  D_from_blocks S_from_blocks D_p_canonization D_n_canonization D_npn_canonization
  D_top_decomposition D_is_pos_unate D_is_neg_unate is_trivial is_and_type is_xor_type is_simple_gate
  D_bdd_complexity S_bdd_complexity D_all_functions iter_next next_inplace
  D_eq D_cmp S_cmp D_hash_input S_hash_input
  D_to_hex_string D_to_bin_string D_display D_lowerhex D_binary D_from_hex_string
  S_try_from D_from_static S_from_int S_to_int
  swaps_for flips_for
  (* two-level *)
  cube_one cube_zero cube_is_zero cube_is_one cube_is_constant cube_nth_var cube_nth_var_inv cube_minterm
  cube_value cube_from_vars cube_from_mask cube_num_lits cube_num_gates cube_pos_vars cube_neg_vars
  cube_and cube_intersects cube_implies cube_implies_lut cube_all cube_eqb cube_cmp cube_display
  ecube_one ecube_zero ecube_is_zero ecube_is_one ecube_nth_var ecube_nth_var_inv ecube_value ecube_from_vars
  ecube_num_lits ecube_num_gates ecube_vars ecube_implies_lut ecube_all ecube_not ecube_xor ecube_eqb ecube_cmp
  ecube_display
  sop_zero sop_one sop_num_cubes sop_num_lits sop_is_zero sop_is_one sop_from_cubes sop_value sop_or sop_and
  sop_not sop_from_lut sop_to_lut sop_display
  esop_zero esop_one esop_num_cubes esop_num_lits esop_is_zero esop_is_one esop_from_cubes esop_value esop_xor
  esop_not esop_from_lut esop_to_lut esop_display
  soes_zero soes_one soes_num_cubes soes_num_lits soes_is_zero soes_is_one soes_from_cubes soes_value soes_or
  soes_to_lut soes_display
  spec_to_hex spec_to_bin spec_fmt bytes_eqb chk_from_hex
  spec_cube_value spec_ecube_value cube_within ecube_within chk_cube_value chk_cube_and chk_cube_intersects chk_cube_implies
  chk_cube_implies_lut chk_ecube_value chk_ecube_xor chk_ecube_not spec_soes_value chk_soes_or chk_text sample_assignments
  spec_sop_value spec_esop_value
  (* mip programmes (C18) *)
  sop_program esop_program program_canon chk_sop_opt chk_sopes_opt chk_esop_opt sop_cost sopes_cost esop_cost
  sop_solution_ok sopes_solution_ok esop_solution_ok.
