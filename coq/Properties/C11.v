(* C11 - the named constructors build the functions they are named after (the result is well-formed and its
   value on every assignment m < 2^n is the defining predicate), and single-bit access reads/writes exactly the
   addressed value. Statements only; proofs are in Proofs/Constructors.v. *)
From Coq Require Import List NArith Arith Bool.
From V Require Proofs.ExprsTie3.  (* whole-word regimes, fill_symmetric, text widths: regenerated from the Rust source, equal the model's *)
From V Require Proofs.ExprsTie.   (* the kernels' word-level expressions, regenerated from the Rust source, equal the model's *)
From V Require Import Checkers.Check Proofs.CheckSound.   (* the extracted checkers and their soundness proofs, pinned at the end of this file *)
From V Require Import Base.Res Gen.Tables Model.Kernels Model.Api Spec.Bfun Proofs.Constructors.
Import ListNotations.
Open Scope N_scope.

(* ---- 1. constants (every n) *)
Theorem C11_zero_sem : forall n,
  exists l, D_zero n = Ok l /\ nv l = n /\ wf n (tbl l) /\ forall m, val (tbl l) m = false.
Proof. exact zero_sem. Qed.

Theorem C11_one_sem : forall n,
  exists l, D_one n = Ok l /\ nv l = n /\ wf n (tbl l) /\
            forall m, m < 2 ^ N.of_nat n -> val (tbl l) m = true.
Proof. exact one_sem. Qed.

(* ---- 2. projections (every n) *)
Theorem C11_nth_var_sem : forall n v, v < N.of_nat n ->
  exists l, D_nth_var n v = Ok l /\ nv l = n /\ wf n (tbl l) /\
            forall m, m < 2 ^ N.of_nat n -> val (tbl l) m = N.testbit m v.
Proof. exact nth_var_sem. Qed.

Theorem C11_nth_var_guard : forall n v, N.of_nat n <= v -> D_nth_var n v = PanicAlways.
Proof. exact nth_var_guard. Qed.

(* ---- 3. symmetric functions (n < 64: the word index count plus 6 must stay below usize::BITS) *)
Theorem C11_popcount_le : forall n m, m < 2 ^ N.of_nat n -> popcount m <= N.of_nat n.
Proof. exact popcount_le_n. Qed.

Theorem C11_count_mask_spec : forall c p, (c < 7)%nat -> p < 64 ->
  N.testbit (nthN COUNT_MASKS c) p = (popcount p =? N.of_nat c).
Proof. exact count_mask_spec. Qed.

Theorem C11_symmetric_sem : forall n cv, (n < 64)%nat -> cv < 2 ^ 64 ->
  exists l, D_symmetric n cv = Ok l /\ nv l = n /\ wf n (tbl l) /\
            forall m, m < 2 ^ N.of_nat n -> val (tbl l) m = N.testbit cv (popcount m).
Proof. exact symmetric_sem. Qed.

(* ---- 4. equals, threshold (every k), parity, majority *)
Theorem C11_equals_sem : forall n k, (n < 64)%nat ->
  exists l, D_equals n k = Ok l /\ nv l = n /\ wf n (tbl l) /\
            forall m, m < 2 ^ N.of_nat n -> val (tbl l) m = (popcount m =? k).
Proof. exact equals_sem. Qed.

Theorem C11_threshold_sem : forall n k, (n < 64)%nat ->
  exists l, D_threshold n k = Ok l /\ nv l = n /\ wf n (tbl l) /\
            forall m, m < 2 ^ N.of_nat n -> val (tbl l) m = (k <=? popcount m).
Proof. exact threshold_sem. Qed.

Theorem C11_parity_sem : forall n, (n < 64)%nat ->
  exists l, D_parity n = Ok l /\ nv l = n /\ wf n (tbl l) /\
            forall m, m < 2 ^ N.of_nat n -> val (tbl l) m = N.odd (popcount m).
Proof. exact parity_sem. Qed.

Theorem C11_majority_threshold : forall n, D_majority n = D_threshold n (N.of_nat ((n + 1) / 2)).
Proof. exact majority_threshold. Qed.

Theorem C11_majority_sem : forall n, (n < 64)%nat ->
  exists l, D_majority n = Ok l /\ nv l = n /\ wf n (tbl l) /\
            forall m, m < 2 ^ N.of_nat n -> val (tbl l) m = (N.of_nat ((n + 1) / 2) <=? popcount m).
Proof. exact majority_sem. Qed.

(* ---- 5. default *)
Theorem C11_default : D_default = D_zero 0.
Proof. exact default_zero. Qed.

(* ---- 6. single-bit access *)
Theorem C11_get_bit : forall l m, wf (nv l) (tbl l) -> m < 2 ^ N.of_nat (nv l) ->
  D_get_bit l m = Ok (val (tbl l) m).
Proof. exact D_get_bit_sem. Qed.

Theorem C11_set_bit : forall l m, wf (nv l) (tbl l) -> m < 2 ^ N.of_nat (nv l) ->
  exists l', D_set_bit l m = Ok l' /\ nv l' = nv l /\ wf (nv l') (tbl l') /\
             forall m', val (tbl l') m' = if m' =? m then true else val (tbl l) m'.
Proof. exact D_set_bit_sem. Qed.

Theorem C11_unset_bit : forall l m, wf (nv l) (tbl l) -> m < 2 ^ N.of_nat (nv l) ->
  exists l', D_unset_bit l m = Ok l' /\ nv l' = nv l /\ wf (nv l') (tbl l') /\
             forall m', val (tbl l') m' = if m' =? m then false else val (tbl l) m'.
Proof. exact D_unset_bit_sem. Qed.

Theorem C11_set_value : forall l m v, wf (nv l) (tbl l) -> m < 2 ^ N.of_nat (nv l) ->
  exists l', D_set_value l m v = Ok l' /\ nv l' = nv l /\ wf (nv l') (tbl l') /\
             forall m', val (tbl l') m' = if m' =? m then v else val (tbl l) m'.
Proof. exact D_set_value_sem. Qed.

Theorem C11_bit_guard : forall l m v, 2 ^ N.of_nat (nv l) <= m ->
  D_get_bit l m = PanicAlways /\ D_set_bit l m = PanicAlways /\ D_unset_bit l m = PanicAlways /\
  D_set_value l m v = PanicAlways.
Proof. exact D_bit_guard. Qed.

(* the statements are about non-trivial instances: 3-input majority is 0xe8, parity 0x96, x6 of 7 variables
   fills the upper word; bit access on a two-word table *)
Example C11_nonvacuous_constructors :
  D_majority 3 = Ok (mkLut 3 [0xe8]) /\ D_parity 3 = Ok (mkLut 3 [0x96]) /\
  D_equals 3 1 = Ok (mkLut 3 [0x16]) /\ D_equals 3 70 = Ok (mkLut 3 [0]) /\
  D_threshold 3 4 = Ok (mkLut 3 [0]) /\ D_symmetric 7 5 = Ok (mkLut 7 [0x1011601161669; 0x100010116]) /\
  D_nth_var 7 6 = Ok (mkLut 7 [0; 0xffffffffffffffff]) /\ D_one 2 = Ok (mkLut 2 [0xf]).
Proof. repeat split; vm_compute; reflexivity. Qed.

Example C11_nonvacuous_bits :
  wf 7 [0; 2] /\ D_get_bit (mkLut 7 [0; 2]) 65 = Ok true /\
  D_set_bit (mkLut 7 [0; 2]) 3 = Ok (mkLut 7 [8; 2]) /\ D_unset_bit (mkLut 7 [0; 2]) 65 = Ok (mkLut 7 [0; 0]) /\
  D_set_bit (mkLut 7 [0; 2]) 128 = PanicAlways.
Proof. repeat split; try (apply Proofs.Wf.wfb_wf); vm_compute; reflexivity. Qed.

Print Assumptions C11_zero_sem.
Print Assumptions C11_one_sem.
Print Assumptions C11_nth_var_sem.
Print Assumptions C11_nth_var_guard.
Print Assumptions C11_popcount_le.
Print Assumptions C11_count_mask_spec.
Print Assumptions C11_symmetric_sem.
Print Assumptions C11_equals_sem.
Print Assumptions C11_threshold_sem.
Print Assumptions C11_parity_sem.
Print Assumptions C11_majority_threshold.
Print Assumptions C11_majority_sem.
Print Assumptions C11_default.
Print Assumptions C11_get_bit.
Print Assumptions C11_set_bit.
Print Assumptions C11_unset_bit.
Print Assumptions C11_set_value.
Print Assumptions C11_bit_guard.


(* ---- soundness of the extracted checkers that decide this property's statement on the implementation's results *)
Theorem C11_checker_table_iff : forall n t f,
  chk_table n t f = true <-> wf n t /\ forall m, m < 2 ^ N.of_nat n -> val t m = f m.
Proof. exact CheckSound.chk_table_iff. Qed.

Theorem C11_checker_table_unique : forall n t t' f,
  chk_table n t f = true -> chk_table n t' f = true -> t' = t.
Proof. exact CheckSound.chk_table_unique. Qed.

Theorem C11_checker_zero_model : forall n r,
  D_zero n = Ok r -> nv r = n /\ chk_table n (tbl r) spec_zero = true.
Proof. exact CheckSound.chk_zero_model. Qed.

Theorem C11_checker_one_model : forall n r,
  D_one n = Ok r -> nv r = n /\ chk_table n (tbl r) spec_one = true.
Proof. exact CheckSound.chk_one_model. Qed.

Theorem C11_checker_nth_var_model : forall n v r,
  v < N.of_nat n -> D_nth_var n v = Ok r ->
  nv r = n /\ chk_table n (tbl r) (spec_nth_var v) = true.
Proof. exact CheckSound.chk_nth_var_model. Qed.

Theorem C11_checker_symmetric_model : forall n cv r,
  (n < 64)%nat -> cv < 2 ^ 64 -> D_symmetric n cv = Ok r ->
  nv r = n /\ chk_table n (tbl r) (spec_symmetric cv) = true.
Proof. exact CheckSound.chk_symmetric_model. Qed.

Theorem C11_checker_equals_model : forall n k r,
  (n < 64)%nat -> D_equals n k = Ok r ->
  nv r = n /\ chk_table n (tbl r) (spec_equals k) = true.
Proof. exact CheckSound.chk_equals_model. Qed.

Theorem C11_checker_threshold_model : forall n k r,
  (n < 64)%nat -> D_threshold n k = Ok r ->
  nv r = n /\ chk_table n (tbl r) (spec_threshold k) = true.
Proof. exact CheckSound.chk_threshold_model. Qed.

Theorem C11_checker_parity_model : forall n r,
  (n < 64)%nat -> D_parity n = Ok r ->
  nv r = n /\ chk_table n (tbl r) spec_parity = true.
Proof. exact CheckSound.chk_parity_model. Qed.

Theorem C11_checker_majority_model : forall n r,
  (n < 64)%nat -> D_majority n = Ok r ->
  nv r = n /\ chk_table n (tbl r) (spec_majority n) = true.
Proof. exact CheckSound.chk_majority_model. Qed.

Theorem C11_checker_set_model : forall l m0 v r,
  wf (nv l) (tbl l) -> m0 < 2 ^ N.of_nat (nv l) -> D_set_value l m0 v = Ok r ->
  nv r = nv l /\ chk_table (nv l) (tbl r) (spec_set (tbl l) m0 v) = true.
Proof. exact CheckSound.chk_set_model. Qed.

Theorem C11_checker_set_bit_model : forall l m0 r,
  wf (nv l) (tbl l) -> m0 < 2 ^ N.of_nat (nv l) -> D_set_bit l m0 = Ok r ->
  nv r = nv l /\ chk_table (nv l) (tbl r) (spec_set (tbl l) m0 true) = true.
Proof. exact CheckSound.chk_set_bit_model. Qed.

Theorem C11_checker_unset_bit_model : forall l m0 r,
  wf (nv l) (tbl l) -> m0 < 2 ^ N.of_nat (nv l) -> D_unset_bit l m0 = Ok r ->
  nv r = nv l /\ chk_table (nv l) (tbl r) (spec_set (tbl l) m0 false) = true.
Proof. exact CheckSound.chk_unset_bit_model. Qed.

Print Assumptions C11_checker_table_iff.
Print Assumptions C11_checker_table_unique.
Print Assumptions C11_checker_zero_model.
Print Assumptions C11_checker_one_model.
Print Assumptions C11_checker_nth_var_model.
Print Assumptions C11_checker_symmetric_model.
Print Assumptions C11_checker_equals_model.
Print Assumptions C11_checker_threshold_model.
Print Assumptions C11_checker_parity_model.
Print Assumptions C11_checker_majority_model.
Print Assumptions C11_checker_set_model.
Print Assumptions C11_checker_set_bit_model.
Print Assumptions C11_checker_unset_bit_model.
