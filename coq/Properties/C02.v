(* C02 - well-formedness is an inductive invariant of the whole public API; equality, hashing and ordering are
   extensional.
   A history of public API calls is a term of type [call] (Spec/Calls.v): one constructor per public function that
   yields a truth table, table-valued arguments being histories themselves; [run] evaluates it with the model,
   [args_ok] is the "valid arguments" condition (from_blocks restricted to well-formed blocks, a generator stream
   with one output per block, uN arguments in range for From<uN>, equal LutN types for LutN::from_cofactors),
   [call_nv] the number of variables announced by the history, [subcalls] the histories a history is made of.
   Quantifier: every history, of any length and shape, for Lut and LutN; every intermediate and final value.
   Statements only; proofs are in Proofs/Invariant.v. *)
From Coq Require Import List NArith Arith Bool Lia.
From V Require Proofs.ExprsTie3.  (* whole-word regimes, fill_symmetric, text widths: regenerated from the Rust source, equal the model's *)
From V Require Proofs.ExprsTie.   (* the kernels' word-level expressions, regenerated from the Rust source, equal the model's *)
From V Require Import Checkers.Check Proofs.CheckSound.   (* the extracted checkers and their soundness proofs, pinned at the end of this file *)
From V Require Import Base.Res Model.Kernels Model.Canon Model.TwoLevel Model.Api Spec.Bfun Spec.Calls
  Proofs.Order Proofs.Invariant.
From V Require Import Proofs.Routes.   (* the construction routes of the generators, pinned at the end of this file *)
Import ListNotations.
Open Scope N_scope.

(* ---- 1. the invariant: every value obtained through the API is well-formed *)
Theorem C02_invariant : forall c l, args_ok c -> run c = Ok l -> wf (nv l) (tbl l).
Proof. exact run_wf. Qed.

(* ... and has the number of variables announced by the history (for LutN: the type parameter) *)
Theorem C02_nv : forall c l, args_ok c -> run c = Ok l -> nv l = call_nv c.
Proof. exact run_nv. Qed.

(* every intermediate value: each history that c is made of ran to a well-formed value *)
Theorem C02_intermediate : forall c l, args_ok c -> run c = Ok l ->
  forall c', In c' (subcalls c) -> exists l', run c' = Ok l' /\ nv l' = call_nv c' /\ wf (nv l') (tbl l').
Proof. exact subcalls_wf. Qed.

(* the iterator items of Spec/Calls.v are those of C08 *)
Theorem C02_nth_item : forall n k, nth_item n k = iter_item n k.
Proof. exact nth_item_iter_item. Qed.

(* ---- 2. "equivalently": the exported block view has exactly max(1, 2^n/64) blocks (of 64 bits) and no bit set
        at a position >= 2^n ([big t] = the blocks read as one number, block 0 least significant) *)
Theorem C02_blocks : forall n t,
  wf n t <->
  (length t = Nat.max 1 (2 ^ n / 64)%nat /\ Forall (fun w => w < 2 ^ 64) t /\
   forall p, 2 ^ N.of_nat n <= p -> N.testbit (big t) p = false).
Proof. exact wf_blocks. Qed.

(* ---- 3. extensionality: well-formed tables are equal iff they agree on every input assignment *)
Theorem C02_ext : forall n a b, wf n a -> wf n b ->
  (a = b <-> forall m, m < 2 ^ N.of_nat n -> val a m = val b m).
Proof. exact wf_ext. Qed.

(* Lut: ==, the input of the derived Hash, and cmp == Ordering::Equal *)
Theorem C02_eq_hash_cmp : forall c1 c2 a b, args_ok c1 -> args_ok c2 -> run c1 = Ok a -> run c2 = Ok b ->
  let sem_eq := nv a = nv b /\ forall m, m < 2 ^ N.of_nat (nv a) -> val (tbl a) m = val (tbl b) m in
  (D_eq a b = true <-> sem_eq) /\ (D_hash_input a = D_hash_input b <-> sem_eq) /\ (D_cmp a b = Ok Eq <-> sem_eq).
Proof. exact run_eq_hash_cmp. Qed.

(* LutN: both values have the same type LutN (the histories announce the same number of variables) *)
Theorem C02_eq_hash_cmp_static : forall c1 c2 a b, args_ok c1 -> args_ok c2 -> call_nv c1 = call_nv c2 ->
  run c1 = Ok a -> run c2 = Ok b ->
  let sem_eq := forall m, m < 2 ^ N.of_nat (nv a) -> val (tbl a) m = val (tbl b) m in
  nv a = nv b /\
  (D_eq a b = true <-> sem_eq) /\ (S_hash_input a = S_hash_input b <-> sem_eq) /\ (S_cmp a b = Ok Eq <-> sem_eq).
Proof. exact run_eq_hash_cmp_static. Qed.

(* ---- 4. the canonization walks keep the current and the best table well-formed, for any sequence of swaps and
        flips and any n (what C02_invariant uses for p_/n_/npn_canonization) *)
Theorem C02_p_walk : forall n sw t best bi ind t' best' bi' ind',
  fold_left (p_step n) sw (Ok (t, best, bi, ind)) = Ok (t', best', bi', ind') ->
  wf n t -> wf n best -> wf n t' /\ wf n best'.
Proof. exact p_walk_wf. Qed.

Theorem C02_n_walk : forall n fl t best bi ind t' best' bi' ind',
  fold_left (n_step n) fl (Ok (t, best, bi, ind)) = Ok (t', best', bi', ind') ->
  wf n t -> wf n best -> wf n t' /\ wf n best'.
Proof. exact n_walk_wf. Qed.

Theorem C02_npn_walk : forall n fl sw t best bi ind t' best' bi' ind',
  fold_left (npn_step n fl) sw (Ok (t, best, bi, ind)) = Ok (t', best', bi', ind') ->
  wf n t -> wf n best -> wf n t' /\ wf n best'.
Proof. exact npn_walk_wf. Qed.

Theorem C02_p_canon_wf : forall n t best perm, wf n t -> p_canonization n t = Ok (best, perm) -> wf n best.
Proof. exact p_canon_okwf. Qed.

Theorem C02_n_canon_wf : forall n t best mask, wf n t -> n_canonization n t = Ok (best, mask) -> wf n best.
Proof. exact n_canon_okwf. Qed.

Theorem C02_npn_canon_wf : forall n t best perm mask,
  wf n t -> npn_canonization n t = Ok (best, perm, mask) -> wf n best.
Proof. exact npn_canon_okwf. Qed.

(* ---- the hypotheses are satisfiable by non-trivial instances *)
(* a history of 12 calls over 7 variables (two blocks per table), continued by 3 more *)
Example C02_nonvacuous :
  let h7 :=
    c_to_dyn (c_n_canon (c_and (c_majority 7)
      (c_not (c_cofactor1 (c_swap (c_set_bit (c_flip (c_xor (c_nth_var 7 6)
         (c_from_blocks 7 [0xdeadbeef; 0x0123456789abcdef])) 3) 64) 2 6) 0)))) in
  let h7' := c_p_canon (c_or h7 (c_random 7 [0x1111111111111111; 0xfedcba9876543210; 5])) in
  args_ok h7 /\ length (subcalls h7) = 12%nat /\ call_nv h7 = 7%nat /\
  run h7 = Ok (mkLut 7 [0x0107030f107c70fc; 0x000101070014107c]) /\
  args_ok h7' /\ run h7' = Ok (mkLut 7 [0xabae134cff5dffdd; 0x8888899fa1a0b3ff]).
Proof. vm_compute. repeat split; lia. Qed.

(* three variables: 56 unused high bits in the block; LutN constructors, an Option-valued parser, the iterator,
   a two-level form, NPN canonization; the values of all 10 histories it is made of *)
Example C02_nonvacuous_3 :
  let h3 :=
    c_npn_canon (cS_from_cofactors
       (c_or (c_not (cS_from_int 3 0xe8)) (c_from_hex_string 3 [49; 98]))
       (cS_try_from 3 (c_xor (c_iter_item 3 77) (c_from_sop (mkSop 3 [mkCube 1 4; mkCube 2 0])))) 1) in
  args_ok h3 /\ length (subcalls h3) = 10%nat /\ call_nv h3 = 3%nat /\
  run h3 = Ok (mkLut 3 [0x1e]) /\
  map run (subcalls h3) =
    map (fun w => Ok (mkLut 3 [w])) [0x1e; 0x93; 0x1f; 0x17; 0xe8; 0x1b; 0x83; 0x83; 0x4d; 0xce].
Proof. vm_compute. repeat split; lia. Qed.

(* two different histories of the same function (De Morgan, with unused high bits) compare equal, hash equal and
   are Ordering::Equal; a third one differs on an assignment and compares different *)
Example C02_nonvacuous_eq :
  let a := c_not (c_and (cS_from_int 3 0xe8) (c_nth_var 3 1)) in
  let b := c_or (c_not (c_from_hex_string 3 [101; 56])) (c_not (c_nth_var 3 1)) in
  let c := c_set_bit b 3 in
  args_ok a /\ args_ok b /\ args_ok c /\ a <> b /\
  (exists la lb lc, run a = Ok la /\ run b = Ok lb /\ run c = Ok lc /\
     D_eq la lb = true /\ D_hash_input la = D_hash_input lb /\ D_cmp la lb = Ok Eq /\ S_cmp la lb = Ok Eq /\
     tbl la = [0x37] /\
     D_eq la lc = false /\ D_cmp la lc = Ok Lt /\ val (tbl la) 3 = false /\ val (tbl lc) 3 = true).
Proof.
  cbv zeta. split; [|split; [|split; [|split]]].
  - vm_compute. repeat split; lia.
  - vm_compute. repeat split.
  - vm_compute. repeat split.
  - discriminate.
  - eexists; eexists; eexists. vm_compute. repeat split.
Qed.

Print Assumptions C02_invariant.
Print Assumptions C02_nv.
Print Assumptions C02_intermediate.
Print Assumptions C02_nth_item.
Print Assumptions C02_blocks.
Print Assumptions C02_ext.
Print Assumptions C02_eq_hash_cmp.
Print Assumptions C02_eq_hash_cmp_static.
Print Assumptions C02_p_walk.
Print Assumptions C02_n_walk.
Print Assumptions C02_npn_walk.
Print Assumptions C02_p_canon_wf.
Print Assumptions C02_n_canon_wf.
Print Assumptions C02_npn_canon_wf.


(* ---- soundness of the extracted checkers that decide this property's statement on the implementation's results *)
Theorem C02_checker_eq_iff : forall na a nb b r,
  chk_eq na a nb b r = true <-> (r = true <-> na = nb /\ forall m, m < 2 ^ N.of_nat na -> val a m = val b m).
Proof. exact CheckSound.chk_eq_iff. Qed.

Theorem C02_checker_eq_sound : forall na a nb b r,
  wf na a -> wf nb b ->
  (chk_eq na a nb b r = true <-> D_eq (mkLut na a) (mkLut nb b) = r).
Proof. exact CheckSound.chk_eq_sound. Qed.

Theorem C02_checker_cmp_sound : forall na a nb b c,
  wf na a -> wf nb b ->
  (chk_cmp na a nb b c = true <-> D_cmp (mkLut na a) (mkLut nb b) = Ok c).
Proof. exact CheckSound.chk_cmp_sound. Qed.

Print Assumptions C02_checker_eq_iff.
Print Assumptions C02_checker_eq_sound.
Print Assumptions C02_checker_cmp_sound.


(* ---- construction routes: every route of the generators denotes the table it was asked for *)
(* [route] (Proofs/Routes.v) mirrors the routes through which the generators build the operand "function of table t"
   (plain constructor; complement of a route-built complement; hex text round trip; Shannon recomposition of the
   value's own cofactors or of two route-built cofactor tables; flip / swap / swap_adjacent of a route-built
   transformed table; r ^ (t ^ r), (t | r) & (t | !r), (t & r) | (t & !r) with route-built operands; the other type
   and back; assignment by assignment from zero / one), operands being routes themselves, to any depth; [build] runs
   a route with the model; [route_ok] says that the indices drawn are in range and the random table is well-formed.
   Quantifier: every route of any depth, every n, every well-formed table, for Lut and LutN. *)
Theorem C02_route_sound : forall r n t, wf n t -> route_ok r n -> build r n t = Ok (mkLut n t).
Proof. exact route_sound. Qed.

(* a chain of depth 2 below the top on 3-input majority (recomposition of the complement of a flipped operand and of
   an AND of a text-parsed and a swapped operand), and a route that uses every constructor; the operands are other
   tables than the one asked for *)
Example C02_route_nonvacuous :
  let r := RShannon false 1 (RNot (RFlip 2 (RPlain false))) (RBin BAnd [0x5a] (RHex false) (RSwap 0 2 (RPlain false))) in
  let r_all :=
    RShannon true 2
      (RBin BXor [0xc5] (RNot (RSwapAdj 1 (RAssign true true)))
                        (RBin BOr [0x3c] (RShannonOf false 0) (ROther true)))
      (RFlip 1 (RSwap 0 2 (RBin BAnd [0x99] (RHex true) (RAssign false false)))) in
  wf 3 [0xe8] /\ route_ok r 3 /\ build r 3 [0xe8] = Ok (mkLut 3 [0xe8]) /\
  route_ok r_all 3 /\ build r_all 3 [0xe8] = Ok (mkLut 3 [0xe8]) /\
  cof_table 3 [0xe8] 1 false = [0xa0] /\ not_table 3 [0xa0] = [0x5f] /\ flip_table 3 [0x5f] 2 = [0xf5].
Proof. exact route_example. Qed.

Print Assumptions C02_route_sound.
