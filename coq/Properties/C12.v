(* C12 - cube algebra: cube_value is the literal semantics, and every cube operation is exact for it.
   Statements only; proofs are in Proofs/CubeProofs.v (definitions c32, canon, sat are there too):
     c32 c   := cpos c < 2^32 /\ cneg c < 2^32
     canon c := N.land (cpos c) (cneg c) = 0 \/ c = cube_zero
     sat c m := forall v, v < 32 -> (testbit (cpos c) v = true -> testbit m v = true) /\
                                    (testbit (cneg c) v = true -> testbit m v = false) *)
From Coq Require Import List NArith Bool Sorting.Sorted.
From V Require Proofs.ExprsTie2.   (* expressions of cube.rs / ecube.rs / bdd.rs / canonization.rs, regenerated from the Rust source, equal the model's *)
From V Require Proofs.ExprsTie4.   (* the bodies of sop.rs / esop.rs / soes.rs (and the remaining functions of cube.rs / ecube.rs), regenerated from the Rust source, equal the model's *)
From V Require Import Checkers.Check Proofs.CheckSoundCube Proofs.CheckSoundEq.   (* the extracted checkers and their soundness proofs, pinned at the end of this file *)
From V Require Import Base.Res Model.Kernels Model.TwoLevel Spec.Bfun Proofs.CubeProofs.
Import ListNotations.
Open Scope N_scope.

(* 1. value = literal semantics *)
Theorem C12_value_sem : forall c m, c32 c -> (cube_value c m = true <-> sat c m).
Proof. exact value_sem. Qed.

(* 2. constants *)
Theorem C12_value_zero : forall m, cube_value cube_zero m = false.
Proof. exact value_zero. Qed.

Theorem C12_value_one : forall m, cube_value cube_one m = true.
Proof. exact value_one. Qed.

(* 3. conjunction *)
Theorem C12_and_sem : forall a b m, c32 a -> c32 b ->
  cube_value (cube_and a b) m = cube_value a m && cube_value b m.
Proof. exact and_sem. Qed.

Theorem C12_and_canon : forall a b, c32 a -> c32 b -> canon (cube_and a b) /\ c32 (cube_and a b).
Proof. exact and_canon. Qed.

Theorem C12_and_zero : forall a b,
  (exists v, v < 32 /\ (N.testbit (cpos a) v = true \/ N.testbit (cpos b) v = true) /\
                       (N.testbit (cneg a) v = true \/ N.testbit (cneg b) v = true)) ->
  cube_and a b = cube_zero.
Proof. exact and_zero_lits. Qed.

(* 4. equality of canonical cubes is semantic equality *)
Theorem C12_eq_semantic : forall a b, c32 a -> c32 b -> canon a -> canon b ->
  (a = b <-> forall m, m < 2 ^ 32 -> cube_value a m = cube_value b m).
Proof. exact eq_semantic. Qed.

(* 5. implication *)
Theorem C12_implies_sem : forall a b, c32 a -> c32 b -> canon a -> canon b ->
  (cube_implies a b = true <->
   forall m, m < 2 ^ 32 -> cube_value a m = true -> cube_value b m = true).
Proof. exact implies_sem. Qed.

(* 6. intersection *)
Theorem C12_intersects_sem : forall a b, c32 a -> c32 b -> canon a -> canon b ->
  (cube_intersects a b = true <->
   exists m, m < 2 ^ 32 /\ cube_value a m = true /\ cube_value b m = true).
Proof. exact intersects_sem. Qed.

(* 7. implication of a truth table *)
Theorem C12_implies_lut_sem : forall c n t,
  cube_implies_lut c n t = true <->
  forall m, m < 2 ^ N.of_nat n -> cube_value c m = true -> val t m = true.
Proof. exact implies_lut_sem. Qed.

(* 8. minterms *)
Theorem C12_minterm_sem : forall num_vars k m, num_vars <= 32 -> m < 2 ^ num_vars ->
  (cube_value (cube_minterm num_vars k) m = true <-> m = (k mod 2 ^ 32) mod 2 ^ num_vars).
Proof. exact minterm_sem. Qed.

Theorem C12_minterm_canon : forall num_vars k,
  canon (cube_minterm num_vars k) /\ c32 (cube_minterm num_vars k) /\
  forall v, num_vars <= v -> N.testbit (cpos (cube_minterm num_vars k)) v = false /\
                             N.testbit (cneg (cube_minterm num_vars k)) v = false.
Proof. exact minterm_canon. Qed.

(* 9. constructors *)
Theorem C12_nth_var : forall v, v < 32 ->
  exists c, cube_nth_var v = Ok c /\ c = mkCube (2 ^ v) 0 /\ forall m, cube_value c m = N.testbit m v.
Proof. exact nth_var_sem. Qed.

Theorem C12_nth_var_inv : forall v, v < 32 ->
  exists c, cube_nth_var_inv v = Ok c /\ c = mkCube 0 (2 ^ v) /\ forall m, cube_value c m = negb (N.testbit m v).
Proof. exact nth_var_inv_sem. Qed.

Theorem C12_nth_var_panic : forall v, 32 <= v ->
  cube_nth_var v = PanicDebug /\ cube_nth_var_inv v = PanicDebug.
Proof. exact nth_var_panic. Qed.

Theorem C12_from_mask_canon : forall p q, canon (cube_from_mask p q).
Proof. exact from_mask_canon. Qed.

Theorem C12_from_mask : forall p q, p < 2 ^ 32 -> q < 2 ^ 32 ->
  canon (cube_from_mask p q) /\ c32 (cube_from_mask p q) /\
  (N.land p q = 0 -> cube_from_mask p q = mkCube p q) /\
  (N.land p q <> 0 -> cube_from_mask p q = cube_zero) /\
  forall m, cube_value (cube_from_mask p q) m = cube_value (mkCube p q) m.
Proof. exact from_mask_sem. Qed.

Theorem C12_from_vars : forall pv nv,
  (forall v, In v pv -> v < 32) -> (forall v, In v nv -> v < 32) ->
  exists c, cube_from_vars pv nv = Ok c /\ canon c /\ c32 c /\
    forall m, cube_value c m = forallb (fun v => N.testbit m v) pv && forallb (fun v => negb (N.testbit m v)) nv.
Proof. exact from_vars_sem. Qed.

Theorem C12_from_vars_panic : forall pv nv,
  (exists v, In v (pv ++ nv) /\ 32 <= v) -> cube_from_vars pv nv = PanicDebug.
Proof. exact from_vars_panic. Qed.

(* 10. counts and variable lists *)
Theorem C12_num_lits : forall c, canon c -> c32 c -> c <> cube_zero ->
  cube_num_lits c = popcount (cpos c) + popcount (cneg c).
Proof. exact num_lits_sem. Qed.

Theorem C12_num_lits_zero : cube_num_lits cube_zero = 0.
Proof. exact num_lits_zero. Qed.

Theorem C12_num_gates : forall c, cube_num_gates c = cube_num_lits c - 1.
Proof. exact num_gates_sem. Qed.

Theorem C12_pos_vars : forall c,
  (forall v, In v (cube_pos_vars c) <-> v < 32 /\ N.testbit (cpos c) v = true) /\
  StronglySorted N.lt (cube_pos_vars c).
Proof. exact pos_vars_sem. Qed.

Theorem C12_neg_vars : forall c,
  (forall v, In v (cube_neg_vars c) <-> v < 32 /\ N.testbit (cneg c) v = true) /\
  StronglySorted N.lt (cube_neg_vars c).
Proof. exact neg_vars_sem. Qed.

(* 11. enumeration of all cubes *)
Theorem C12_all_complete : forall vars, vars <= 31 ->
  exists l, cube_all vars = Ok l /\ NoDup l /\
    forall c, In c l <-> (cpos c < 2 ^ vars /\ cneg c < 2 ^ vars /\ N.land (cpos c) (cneg c) = 0).
Proof. exact all_complete. Qed.

Theorem C12_all_count : forall vars, vars <= 6 ->
  exists l, cube_all vars = Ok l /\ length l = N.to_nat (3 ^ vars).
Proof. exact all_count. Qed.

(* 12. every constructor returns canonical 32-bit cubes *)
Theorem C12_reachable_canon :
  (canon cube_one /\ c32 cube_one) /\
  (canon cube_zero /\ c32 cube_zero) /\
  (forall v c, cube_nth_var v = Ok c -> canon c /\ c32 c) /\
  (forall v c, cube_nth_var_inv v = Ok c -> canon c /\ c32 c) /\
  (forall nv k, canon (cube_minterm nv k) /\ c32 (cube_minterm nv k)) /\
  (forall pv nv c, cube_from_vars pv nv = Ok c -> canon c /\ c32 c) /\
  (forall p q, p < 2 ^ 32 -> q < 2 ^ 32 -> canon (cube_from_mask p q) /\ c32 (cube_from_mask p q)) /\
  (forall a b, c32 a -> c32 b -> canon (cube_and a b) /\ c32 (cube_and a b)).
Proof. exact reachable_canon. Qed.

(* the hypotheses are satisfiable by non-trivial instances: x0 & x2 & !x1 and x0 & !x3 are canonical 32-bit
   cubes, neither constant, they intersect, neither implies the other, and their conjunction is not zero *)
Example C12_nonvacuous_cubes :
  let a := mkCube 5 2 in let b := mkCube 1 8 in
  c32 a /\ c32 b /\ canon a /\ canon b /\ a <> cube_zero /\ b <> cube_zero /\
  cube_value a 5 = true /\ cube_value a 7 = false /\ cube_intersects a b = true /\
  cube_implies a b = false /\ cube_implies (cube_and a b) b = true /\ cube_and a b = mkCube 5 10.
Proof.
  cbv zeta. repeat split; try (left; reflexivity); try discriminate.
Qed.

(* a contradictory conjunction (x0 & !x0), and the reason for c32: a literal above bit 31 makes the value false *)
Example C12_nonvacuous_and_zero :
  (exists v, v < 32 /\ (N.testbit (cpos (mkCube 1 0)) v = true \/ N.testbit (cpos (mkCube 0 1)) v = true) /\
                       (N.testbit (cneg (mkCube 1 0)) v = true \/ N.testbit (cneg (mkCube 0 1)) v = true)) /\
  cube_value (mkCube (2 ^ 32) 0) 0 = false /\ sat (mkCube (2 ^ 32) 0) 0.
Proof.
  split; [exists 0; repeat split; auto|]. split; [reflexivity|].
  intros v Hv. cbn [cpos cneg]. rewrite N.bits_0. split; [|discriminate].
  rewrite N.pow2_bits_eqb. intros E. apply N.eqb_eq in E. subst v. discriminate Hv.
Qed.

(* minterm 5 on 3 variables, a 3-variable table implied by x0 & x1, from_vars on in-range variables *)
Example C12_nonvacuous_misc :
  (3 <= 32 /\ 5 < 2 ^ 3 /\ cube_value (cube_minterm 3 5) 5 = true /\ cube_minterm 3 5 = mkCube 5 2) /\
  cube_implies_lut (mkCube 3 0) 3 [0xe8] = true /\ cube_implies_lut (mkCube 1 0) 3 [0xe8] = false /\
  cube_from_vars [0; 2] [1] = Ok (mkCube 5 2) /\ cube_from_vars [0; 32] [1] = PanicDebug /\
  cube_from_vars [0] [0] = Ok cube_zero /\
  cube_pos_vars (mkCube 5 2) = [0; 2] /\ cube_num_lits (mkCube 5 2) = 3 /\ cube_num_gates (mkCube 5 2) = 2.
Proof. vm_compute. repeat split; discriminate. Qed.

Print Assumptions C12_value_sem.
Print Assumptions C12_value_zero.
Print Assumptions C12_value_one.
Print Assumptions C12_and_sem.
Print Assumptions C12_and_canon.
Print Assumptions C12_and_zero.
Print Assumptions C12_eq_semantic.
Print Assumptions C12_implies_sem.
Print Assumptions C12_intersects_sem.
Print Assumptions C12_implies_lut_sem.
Print Assumptions C12_minterm_sem.
Print Assumptions C12_minterm_canon.
Print Assumptions C12_nth_var.
Print Assumptions C12_nth_var_inv.
Print Assumptions C12_nth_var_panic.
Print Assumptions C12_from_mask_canon.
Print Assumptions C12_from_mask.
Print Assumptions C12_from_vars.
Print Assumptions C12_from_vars_panic.
Print Assumptions C12_num_lits.
Print Assumptions C12_num_lits_zero.
Print Assumptions C12_num_gates.
Print Assumptions C12_pos_vars.
Print Assumptions C12_neg_vars.
Print Assumptions C12_all_complete.
Print Assumptions C12_all_count.
Print Assumptions C12_reachable_canon.


(* ---- soundness of the extracted checkers that decide this property's statement on the implementation's results *)
Theorem C12_checker_spec_cube_value_eq : forall c m,
  c32 c -> spec_cube_value c m = cube_value c m.
Proof. exact CheckSoundCube.spec_cube_value_eq. Qed.

Theorem C12_checker_cube_value_iff : forall c m r,
  c32 c -> (chk_cube_value c m r = true <-> r = cube_value c m).
Proof. exact CheckSoundCube.chk_cube_value_iff. Qed.

Theorem C12_checker_cube_within_iff : forall k c,
  cube_within k c = true <-> (cpos c < 2 ^ N.of_nat k /\ cneg c < 2 ^ N.of_nat k) \/ c = cube_zero.
Proof. exact CheckSoundCube.cube_within_iff. Qed.

Theorem C12_checker_cube_and_iff : forall k a b r,
  (k <= 32)%nat -> cube_within k a = true -> cube_within k b = true ->
  (chk_cube_and k a b r = true <-> r = cube_and a b).
Proof. exact CheckSoundCube.chk_cube_and_iff. Qed.

Theorem C12_checker_cube_and_unique : forall k a b r,
  (k <= 32)%nat -> cube_within k a = true -> cube_within k b = true ->
  chk_cube_and k a b r = true -> r = cube_and a b.
Proof. exact CheckSoundCube.chk_cube_and_unique. Qed.

Theorem C12_checker_cube_intersects_iff : forall k a b r,
  (k <= 32)%nat -> cube_within k a = true -> cube_within k b = true ->
  (chk_cube_intersects k a b r = true <-> r = cube_intersects a b).
Proof. exact CheckSoundCube.chk_cube_intersects_iff. Qed.

Theorem C12_checker_cube_intersects_sem : forall k a b r,
  (k <= 32)%nat -> cube_within k a = true -> cube_within k b = true ->
  (chk_cube_intersects k a b r = true <->
   (r = true <-> exists m, m < 2 ^ 32 /\ cube_value a m = true /\ cube_value b m = true)).
Proof. exact CheckSoundCube.chk_cube_intersects_sem. Qed.

Theorem C12_checker_cube_implies_iff : forall k a b r,
  (k <= 32)%nat -> cube_within k a = true -> cube_within k b = true ->
  canon a -> canon b -> (chk_cube_implies k a b r = true <-> r = cube_implies a b).
Proof. exact CheckSoundCube.chk_cube_implies_iff. Qed.

Theorem C12_checker_cube_implies_sem : forall k a b r,
  (k <= 32)%nat -> cube_within k a = true -> cube_within k b = true ->
  (chk_cube_implies k a b r = true <->
   (r = true <-> forall m, m < 2 ^ 32 -> cube_value a m = true -> cube_value b m = true)).
Proof. exact CheckSoundCube.chk_cube_implies_sem. Qed.

Theorem C12_checker_cube_implies_lut_iff : forall n c t r,
  c32 c ->
  (chk_cube_implies_lut n c t r = true <-> r = cube_implies_lut c n t).
Proof. exact CheckSoundCube.chk_cube_implies_lut_iff. Qed.

Theorem C12_checker_text_cube : forall c ms w,
  c32 c -> chk_text (cube_display c) (spec_cube_value c) ms w = true.
Proof. exact CheckSoundCube.chk_text_cube. Qed.

Print Assumptions C12_checker_spec_cube_value_eq.
Print Assumptions C12_checker_cube_value_iff.
Print Assumptions C12_checker_cube_within_iff.
Print Assumptions C12_checker_cube_and_iff.
Print Assumptions C12_checker_cube_and_unique.
Print Assumptions C12_checker_cube_intersects_iff.
Print Assumptions C12_checker_cube_intersects_sem.
Print Assumptions C12_checker_cube_implies_iff.
Print Assumptions C12_checker_cube_implies_sem.
Print Assumptions C12_checker_cube_implies_lut_iff.
Print Assumptions C12_checker_text_cube.

(* ---- every contradictory result is the one canonical zero cube, so cube equality is semantic equality: the checker of
   "a == b holds exactly when a and b evaluate alike on every assignment" (masks within 32 bits; the structural
   equality of the model passes on canonical cubes) *)
Theorem C12_checker_cube_sem_eqb_iff : forall a b,
  c32 a -> c32 b -> (cube_sem_eqb a b = true <-> forall m, cube_value a m = cube_value b m).
Proof. exact CheckSoundEq.cube_sem_eqb_iff. Qed.

Theorem C12_checker_cube_sem_eqb_iff_32 : forall a b,
  c32 a -> c32 b -> (cube_sem_eqb a b = true <-> forall m, m < 2 ^ 32 -> cube_value a m = cube_value b m).
Proof. exact CheckSoundEq.cube_sem_eqb_iff_32. Qed.

Theorem C12_checker_cube_sem_eqb_normalize : forall a b,
  cube_sem_eqb a b = cube_eqb (cube_normalize a) (cube_normalize b).
Proof. exact CheckSoundEq.cube_sem_eqb_normalize. Qed.

Theorem C12_checker_cube_eq_iff : forall a b r,
  c32 a -> c32 b -> (chk_cube_eq a b r = true <-> (r = true <-> forall m, cube_value a m = cube_value b m)).
Proof. exact CheckSoundEq.chk_cube_eq_iff. Qed.

Theorem C12_checker_cube_eq_iff_32 : forall a b r,
  c32 a -> c32 b ->
  (chk_cube_eq a b r = true <-> (r = true <-> forall m, m < 2 ^ 32 -> cube_value a m = cube_value b m)).
Proof. exact CheckSoundEq.chk_cube_eq_iff_32. Qed.

Theorem C12_checker_cube_eq_within : forall k a b r,
  (k <= 32)%nat -> cube_within k a = true -> cube_within k b = true ->
  (chk_cube_eq a b r = true <-> (r = true <-> forall m, cube_value a m = cube_value b m)).
Proof. exact CheckSoundEq.chk_cube_eq_within. Qed.

Theorem C12_checker_cube_eq_model : forall a b,
  c32 a -> c32 b -> canon a -> canon b -> chk_cube_eq a b (cube_eqb a b) = true.
Proof. exact CheckSoundEq.chk_cube_eq_model. Qed.

Example C12_checker_cube_sem_eqb_needs_c32 :
  cube_sem_eqb (mkCube (2 ^ 32) 0) cube_zero = false /\
  (forall m, cube_value (mkCube (2 ^ 32) 0) m = cube_value cube_zero m).
Proof. exact CheckSoundEq.cube_sem_eqb_needs_c32. Qed.

Example C12_checker_cube_eq_model_needs_canon :
  c32 (mkCube 1 1) /\ chk_cube_eq (mkCube 1 1) cube_zero (cube_eqb (mkCube 1 1) cube_zero) = false.
Proof. exact CheckSoundEq.chk_cube_eq_model_needs_canon. Qed.

Print Assumptions C12_checker_cube_sem_eqb_iff.
Print Assumptions C12_checker_cube_sem_eqb_iff_32.
Print Assumptions C12_checker_cube_sem_eqb_normalize.
Print Assumptions C12_checker_cube_eq_iff.
Print Assumptions C12_checker_cube_eq_iff_32.
Print Assumptions C12_checker_cube_eq_within.
Print Assumptions C12_checker_cube_eq_model.
