(* C07 - bdd_complexity returns the number of internal nodes of the shared reduced ordered BDD with complemented
   edges (variable n-1 at the root, variable 0 at the bottom, literals not counted), as specified by
   Spec/BddSpec.v; hence it is independent of list order, of duplicates and of complementing a listed function,
   and it is 0 for the empty list.
   Statements only; proofs are in Proofs/BddProofs.v. *)
From Coq Require Import List NArith Arith Bool Permutation.
From V Require Proofs.ExprsTie2.   (* expressions of cube.rs / ecube.rs / bdd.rs / canonization.rs, regenerated from the Rust source, equal the model's *)
From V Require Import Checkers.Check Proofs.CheckSoundDecomp.   (* the extracted checkers and their soundness proofs, pinned at the end of this file *)
From V Require Import Base.Res Model.Kernels Model.Bdd Model.Api Spec.Bfun Spec.BddSpec Proofs.BddProofs.
Import ListNotations.
Open Scope N_scope.

(* ---------------------------------------------------------------- what the executable specification means *)

(* bit m of the truth-table number is the value of the function on assignment m *)
Theorem C07_ttnum_bits : forall k g p,
  N.testbit (ttnum k g) p = if p <? 2 ^ N.of_nat k then g p else false.
Proof. exact ttnum_spec. Qed.

(* distinct numbers <-> distinct sub-functions *)
Theorem C07_ttnum_distinct : forall k g g',
  ttnum k g = ttnum k g' <-> forall m, m < 2 ^ N.of_nat k -> g m = g' m.
Proof. exact ttnum_eq_iff. Qed.

Theorem C07_norm_meaning : forall g m, norm g m = xorb (g m) (g 0).
Proof. exact norm_spec. Qed.

Theorem C07_depends_meaning : forall l g,
  depends l g = true <-> exists m, m < 2 ^ N.of_nat l /\ g m <> g (m + 2 ^ N.of_nat l).
Proof. exact depends_true. Qed.

Theorem C07_is_literal_meaning : forall l g,
  is_literal l g = true <->
  (forall m, m < 2 ^ N.of_nat l -> g m = false /\ g (m + 2 ^ N.of_nat l) = true) \/
  (forall m, m < 2 ^ N.of_nat l -> g m = true /\ g (m + 2 ^ N.of_nat l) = false).
Proof. exact is_literal_true. Qed.

(* the nodes labelled x_l: normalised sub-functions of a listed table that depend on x_l and are not a literal *)
Theorem C07_nodes_meaning : forall n ts l x,
  In x (level_nodes n ts l) <->
  exists t a, In t ts /\ a < 2 ^ N.of_nat (n - 1 - l) /\
              x = ttnum (l + 1) (norm (sub t l a)) /\
              depends l (norm (sub t l a)) && negb (is_literal l (norm (sub t l a))) = true.
Proof. exact level_nodes_In. Qed.

(* ---------------------------------------------------------------- the code computes the specification *)

(* main theorem, all n *)
Theorem C07_count : forall n ts,
  Forall (wf n) ts -> table_complexity n (concat ts) = Ok (bdd_nodes n ts).
Proof. exact table_complexity_spec. Qed.

(* per level, inside one word (levels 1..5) ... *)
Theorem C07_level_small : forall n ts l,
  Forall (wf n) ts -> (1 <= l)%nat -> (l <= 5)%nat -> (l < n)%nat ->
  level_complexity (concat ts) l = Ok (level_count n ts l).
Proof. exact level_complexity_spec. Qed.

(* ... and on groups of words (levels >= 6) *)
Theorem C07_level_large : forall n ts l,
  Forall (wf n) ts -> (6 <= l)%nat -> (l < n)%nat ->
  large_level_complexity (concat ts) l = Ok (level_count n ts l).
Proof. exact large_level_complexity_spec. Qed.

(* the windows gathered from one table at a small level are the non-zero normalised sub-function numbers
   (the zero windows coming from the unused high bits when n < 6 are the constant-false function) *)
Theorem C07_windows_small : forall n t l x,
  wf n t -> (l <= 5)%nat -> (l < n)%nat ->
  In x (flat_map (word_windows l (N.shiftl 1 (N.of_nat (l + 1))) (low_mask (N.shiftl 1 (N.of_nat (l + 1))))
                               (2 ^ (5 - l))) t) <->
  x <> 0 /\ exists a, a < 2 ^ N.of_nat (n - 1 - l) /\ x = ttnum (l + 1) (norm (sub t l a)).
Proof. exact small_windows_In. Qed.

(* the two retain closures are the two semantic conditions *)
Theorem C07_keep_small : forall l g, (l <= 5)%nat ->
  keep_small l (ttnum (l + 1) g) = depends l g && negb (is_literal l g).
Proof. exact keep_small_spec. Qed.

Theorem C07_keep_large : forall l c,
  (6 <= l)%nat -> length c = (2 ^ (l - 5))%nat -> Forall (fun w => w < 2 ^ 64) c ->
  keep_large (2 ^ (l - 6)) c = depends l (val c) && negb (is_literal l (val c)).
Proof. exact keep_large_spec. Qed.

(* ---------------------------------------------------------------- API forms *)

Theorem C07_api_D : forall l0 luts,
  Forall (fun l => nv l = nv l0 /\ wf (nv l) (tbl l)) (l0 :: luts) ->
  D_bdd_complexity (l0 :: luts) = Ok (bdd_nodes (nv l0) (map tbl (l0 :: luts))).
Proof. exact D_bdd_complexity_spec. Qed.

Theorem C07_api_D_empty : D_bdd_complexity [] = Ok 0%nat.
Proof. exact D_bdd_complexity_empty. Qed.

Theorem C07_api_D_size_guard : forall l0 luts,
  (exists l, In l luts /\ nv l <> nv l0) -> D_bdd_complexity (l0 :: luts) = PanicAlways.
Proof. exact D_bdd_complexity_size_guard. Qed.

Theorem C07_api_S : forall n luts,
  Forall (fun l => wf n (tbl l)) luts -> S_bdd_complexity n luts = Ok (bdd_nodes n (map tbl luts)).
Proof. exact S_bdd_complexity_spec. Qed.

(* ---------------------------------------------------------------- corollaries on the specification *)

Theorem C07_same_set : forall n ts ts',
  (forall t, In t ts <-> In t ts') -> bdd_nodes n ts = bdd_nodes n ts'.
Proof. exact bdd_nodes_same_set. Qed.

Theorem C07_perm_invariant : forall n ts ts', Permutation ts ts' -> bdd_nodes n ts = bdd_nodes n ts'.
Proof. exact bdd_perm_invariant. Qed.

Theorem C07_dup_invariant : forall n t ts, bdd_nodes n (t :: t :: ts) = bdd_nodes n (t :: ts).
Proof. exact bdd_dup_invariant. Qed.

Theorem C07_dup_present : forall n t ts, In t ts -> bdd_nodes n (t :: ts) = bdd_nodes n ts.
Proof. exact bdd_dup_present. Qed.

Theorem C07_complement_invariant : forall n t ts,
  wf n t -> bdd_nodes n (not_inplace n t :: ts) = bdd_nodes n (t :: ts).
Proof. exact bdd_complement_invariant. Qed.

Theorem C07_complement_any : forall n t ts1 ts2,
  wf n t -> bdd_nodes n (ts1 ++ not_inplace n t :: ts2) = bdd_nodes n (ts1 ++ t :: ts2).
Proof. exact bdd_complement_any. Qed.

Theorem C07_empty : forall n, bdd_nodes n [] = 0%nat.
Proof. exact bdd_empty. Qed.

Theorem C07_level0 : forall n ts, level_nodes n ts 0 = [].
Proof. exact bdd_level0. Qed.

(* ---------------------------------------------------------------- the same corollaries on the code *)

Theorem C07_code_perm : forall n ts ts',
  Forall (wf n) ts -> Permutation ts ts' ->
  table_complexity n (concat ts') = table_complexity n (concat ts).
Proof. exact table_complexity_perm. Qed.

Theorem C07_code_dup : forall n t ts,
  Forall (wf n) ts -> In t ts ->
  table_complexity n (concat (t :: ts)) = table_complexity n (concat ts).
Proof. exact table_complexity_dup. Qed.

Theorem C07_code_complement : forall n t ts1 ts2,
  Forall (wf n) (ts1 ++ t :: ts2) ->
  table_complexity n (concat (ts1 ++ not_inplace n t :: ts2)) = table_complexity n (concat (ts1 ++ t :: ts2)).
Proof. exact table_complexity_complement. Qed.

(* the hypotheses are satisfiable by non-trivial instances and the specification is not trivially 0:
   three 7-variable tables (both regimes: levels 1..5 and level 6), parity of 3 variables has 2 nodes,
   majority of 3 variables has 3 *)
Example C07_nonvacuous :
  Forall (wf 7) [[0xdeadbeef12345678; 0x123456789abcdef0]; [0xdeadbeef12345678; 0xffffffff00000000];
                 [0; 0xffffffffffffffff]] /\
  bdd_nodes 7 [[0xdeadbeef12345678; 0x123456789abcdef0]; [0xdeadbeef12345678; 0xffffffff00000000];
               [0; 0xffffffffffffffff]] = 28%nat /\
  wf 3 [0x96] /\ bdd_nodes 3 [[0x96]] = 2%nat /\ wf 3 [0xe8] /\ bdd_nodes 3 [[0xe8]] = 3%nat.
Proof.
  split; [repeat constructor; apply Proofs.Wf.wfb_wf; vm_compute; reflexivity|].
  split; [vm_compute; reflexivity|].
  split; [apply Proofs.Wf.wfb_wf; vm_compute; reflexivity|].
  split; [vm_compute; reflexivity|].
  split; [apply Proofs.Wf.wfb_wf; vm_compute; reflexivity|vm_compute; reflexivity].
Qed.

Example C07_api_nonvacuous :
  Forall (fun l => nv l = 3%nat /\ wf (nv l) (tbl l)) [mkLut 3 [0x96]; mkLut 3 [0xe8]] /\
  D_bdd_complexity [mkLut 3 [0x96]; mkLut 3 [0xe8]] = Ok 5%nat /\
  D_bdd_complexity [mkLut 3 [0x96]; mkLut 2 [0x6]] = PanicAlways.
Proof.
  split; [repeat constructor; apply Proofs.Wf.wfb_wf; vm_compute; reflexivity|].
  split; vm_compute; reflexivity.
Qed.

Print Assumptions C07_ttnum_bits.
Print Assumptions C07_ttnum_distinct.
Print Assumptions C07_norm_meaning.
Print Assumptions C07_depends_meaning.
Print Assumptions C07_is_literal_meaning.
Print Assumptions C07_nodes_meaning.
Print Assumptions C07_count.
Print Assumptions C07_level_small.
Print Assumptions C07_level_large.
Print Assumptions C07_windows_small.
Print Assumptions C07_keep_small.
Print Assumptions C07_keep_large.
Print Assumptions C07_api_D.
Print Assumptions C07_api_D_empty.
Print Assumptions C07_api_D_size_guard.
Print Assumptions C07_api_S.
Print Assumptions C07_same_set.
Print Assumptions C07_perm_invariant.
Print Assumptions C07_dup_invariant.
Print Assumptions C07_dup_present.
Print Assumptions C07_complement_invariant.
Print Assumptions C07_complement_any.
Print Assumptions C07_empty.
Print Assumptions C07_level0.
Print Assumptions C07_code_perm.
Print Assumptions C07_code_dup.
Print Assumptions C07_code_complement.


(* ================================================================ the specification is the node count of a BDD
   that is actually constructed (Spec/BddBuild.v): Shannon expansion with variable n-1 at the root, [mk] with the
   elimination rule and the sharing rule, low edges regular (complemented edges), ONE unique table threaded
   through all the listed functions.  Proofs are in Proofs/BddBuildProofs.v. *)
From V Require Import Spec.BddBuild Proofs.BddBuildProofs.

(* ---------------------------------------------------------------- 1. semantics of the construction *)

(* one root edge per listed function, denoting that function *)
Theorem C07_build_semantics : forall n ts,
  length (snd (shared_bdd n ts)) = length ts /\
  forall i t e, nth_error ts i = Some t -> nth_error (snd (shared_bdd n ts)) i = Some e ->
    forall m, m < 2 ^ N.of_nat n -> edge_fun e m = val t m.
Proof. exact shared_bdd_semantics. Qed.

(* whatever the unique table already contains *)
Theorem C07_build_semantics_one : forall t n u m,
  m < 2 ^ N.of_nat n -> edge_fun (snd (build t n 0 u)) m = val t m.
Proof. exact build_semantics. Qed.

(* ---------------------------------------------------------------- 2. reduced, ordered, complemented edges *)

(* every node of the unique table: label below n, low edge regular, both children canonical with smaller
   labels, the two edges differ *)
Theorem C07_build_canonical : forall n ts b,
  In b (fst (shared_bdd n ts)) ->
  exists v lo hc hi, b = Node v false lo hc hi /\ (v < n)%nat /\
                     canonb v lo = true /\ canonb v hi = true /\ (false, lo) <> (hc, hi).
Proof. exact shared_bdd_canonical_b. Qed.

Theorem C07_build_canonb : forall n ts, forallb (canonb n) (fst (shared_bdd n ts)) = true.
Proof. exact shared_bdd_canonb. Qed.

Theorem C07_build_roots_canonical : forall n ts e,
  In e (snd (shared_bdd n ts)) -> canonb n (snd e) = true.
Proof. exact shared_bdd_roots_canonb. Qed.

(* ROBDD canonicity: canonical edges denote the same function iff they are the same edge *)
Theorem C07_canonicity : forall k (e1 e2 : edge),
  canonb k (snd e1) = true -> canonb k (snd e2) = true ->
  ((forall m, m < 2 ^ N.of_nat k -> edge_fun e1 m = edge_fun e2 m) <-> e1 = e2).
Proof. exact canonicity_b. Qed.

(* the unique table: no duplicate entry, no two entries with the same function or with complementary
   functions, every entry depends on its label variable, and exactly the nodes reachable from the roots *)
Theorem C07_build_nodup : forall n ts, NoDup (fst (shared_bdd n ts)).
Proof. exact shared_bdd_nodup. Qed.

Theorem C07_build_unique : forall n ts b1 b2,
  In b1 (fst (shared_bdd n ts)) -> In b2 (fst (shared_bdd n ts)) ->
  (forall m, m < 2 ^ N.of_nat n -> bdd_fun b1 m = bdd_fun b2 m) -> b1 = b2.
Proof. exact shared_bdd_unique. Qed.

Theorem C07_build_no_complement : forall n ts b1 b2,
  In b1 (fst (shared_bdd n ts)) -> In b2 (fst (shared_bdd n ts)) ->
  ~ (forall m, m < 2 ^ N.of_nat n -> bdd_fun b1 m = negb (bdd_fun b2 m)).
Proof. exact shared_bdd_no_complement. Qed.

Theorem C07_build_depends : forall n ts v lc lo hc hi,
  In (Node v lc lo hc hi) (fst (shared_bdd n ts)) -> depends v (bdd_fun (Node v lc lo hc hi)) = true.
Proof. exact shared_bdd_depends. Qed.

Theorem C07_build_reachable : forall n ts b,
  In b (fst (shared_bdd n ts)) <-> exists e, In e (snd (shared_bdd n ts)) /\ In b (subnodes (snd e)).
Proof. exact shared_bdd_reachable. Qed.

(* the table is closed under children: every node can refer to its children by their position in the table *)
Theorem C07_build_closed : forall n ts v lc lo hc hi,
  In (Node v lc lo hc hi) (fst (shared_bdd n ts)) ->
  (lo = Zero \/ In lo (fst (shared_bdd n ts))) /\ (hi = Zero \/ In hi (fst (shared_bdd n ts))).
Proof. exact shared_bdd_closed. Qed.

(* the nodes that are not counted: a canonical node has both edges to the terminal iff it denotes x_v *)
Theorem C07_literal_node_meaning : forall k v lc lo hc hi,
  canonb k (Node v lc lo hc hi) = true ->
  is_literal_node (Node v lc lo hc hi) = is_literal v (bdd_fun (Node v lc lo hc hi)).
Proof. exact literal_node_meaning. Qed.

(* ---------------------------------------------------------------- 3. the count *)

(* the number of non-literal nodes of the shared BDD is the specification (no hypothesis on the tables) *)
Theorem C07_build_count : forall n ts, count_nonliteral (fst (shared_bdd n ts)) = bdd_nodes n ts.
Proof. exact count_nonliteral_spec. Qed.

(* per level: the non-literal nodes labelled x_l are as many as the distinct level-l sub-function numbers *)
Theorem C07_build_level : forall n ts l, (l < n)%nat ->
  length (filter (fun b => bvar b =? l)%nat
                 (filter (fun b => negb (is_literal_node b)) (fst (shared_bdd n ts)))) = level_count n ts l.
Proof. exact level_bijection. Qed.

(* ---------------------------------------------------------------- 4. the code counts the nodes of that BDD *)

Theorem C07_build_model : forall n ts,
  Forall (wf n) ts -> table_complexity n (concat ts) = Ok (count_nonliteral (fst (shared_bdd n ts))).
Proof. exact table_complexity_build. Qed.

Theorem C07_build_api_D : forall l0 luts,
  Forall (fun l => nv l = nv l0 /\ wf (nv l) (tbl l)) (l0 :: luts) ->
  D_bdd_complexity (l0 :: luts) = Ok (bdd_size (nv l0) (map tbl (l0 :: luts))).
Proof. exact D_bdd_complexity_build. Qed.

Theorem C07_build_api_S : forall n luts,
  Forall (fun l => wf n (tbl l)) luts -> S_bdd_complexity n luts = Ok (bdd_size n (map tbl luts)).
Proof. exact S_bdd_complexity_build. Qed.

(* majority, parity and complemented majority of 3 variables share one BDD: 6 nodes, one of them the literal
   x_0; the complemented duplicate adds no node (its root is the complemented edge to the majority node);
   the construction, the specification and the model of the code agree on 5 *)
Example C07_build_nonvacuous :
  Forall (wf 3) [[0xe8]; [0x96]; [0x17]] /\
  length (fst (shared_bdd 3 [[0xe8]; [0x96]; [0x17]])) = 6%nat /\
  count_nonliteral (fst (shared_bdd 3 [[0xe8]; [0x96]; [0x17]])) = 5%nat /\
  bdd_nodes 3 [[0xe8]; [0x96]; [0x17]] = 5%nat /\
  table_complexity 3 (concat [[0xe8]; [0x96]; [0x17]]) = Ok 5%nat /\
  fst (shared_bdd 3 [[0xe8]; [0x96]; [0x17]]) = fst (shared_bdd 3 [[0xe8]; [0x96]]) /\
  (exists b, snd (shared_bdd 3 [[0xe8]; [0x96]; [0x17]]) = [(false, b); (false, Node 2 false
     (Node 1 false (Node 0 false Zero true Zero) true (Node 0 false Zero true Zero)) true
     (Node 1 false (Node 0 false Zero true Zero) true (Node 0 false Zero true Zero))); (true, b)]).
Proof.
  split; [repeat constructor; apply Proofs.Wf.wfb_wf; vm_compute; reflexivity|].
  split; [vm_compute; reflexivity|].
  split; [vm_compute; reflexivity|].
  split; [vm_compute; reflexivity|].
  split; [vm_compute; reflexivity|].
  split; [vm_compute; reflexivity|].
  eexists. vm_compute. reflexivity.
Qed.

Print Assumptions C07_build_semantics.
Print Assumptions C07_build_semantics_one.
Print Assumptions C07_build_canonical.
Print Assumptions C07_build_canonb.
Print Assumptions C07_build_roots_canonical.
Print Assumptions C07_canonicity.
Print Assumptions C07_build_nodup.
Print Assumptions C07_build_unique.
Print Assumptions C07_build_no_complement.
Print Assumptions C07_build_depends.
Print Assumptions C07_build_reachable.
Print Assumptions C07_build_closed.
Print Assumptions C07_literal_node_meaning.
Print Assumptions C07_build_count.
Print Assumptions C07_build_level.
Print Assumptions C07_build_model.
Print Assumptions C07_build_api_D.
Print Assumptions C07_build_api_S.


(* ---- soundness of the extracted checkers that decide this property's statement on the implementation's results *)
Theorem C07_checker_bdd_iff : forall n ts count,
  chk_bdd n ts count = true <-> count = bdd_nodes n ts.
Proof. exact CheckSoundDecomp.chk_bdd_iff. Qed.

Theorem C07_checker_bdd_sound : forall n ts count,
  Forall (wf n) ts ->
  (chk_bdd n ts count = true <-> table_complexity n (concat ts) = Ok count).
Proof. exact CheckSoundDecomp.chk_bdd_sound. Qed.

Theorem C07_checker_bdd_model : forall n ts,
  Forall (wf n) ts ->
  exists count, table_complexity n (concat ts) = Ok count /\ chk_bdd n ts count = true.
Proof. exact CheckSoundDecomp.chk_bdd_model. Qed.

Theorem C07_checker_bdd_sound_D : forall l0 luts count,
  Forall (fun l => nv l = nv l0 /\ wf (nv l) (tbl l)) (l0 :: luts) ->
  (chk_bdd (nv l0) (map tbl (l0 :: luts)) count = true <-> D_bdd_complexity (l0 :: luts) = Ok count).
Proof. exact CheckSoundDecomp.chk_bdd_sound_D. Qed.

Theorem C07_checker_bdd_sound_D_empty : forall n count,
  chk_bdd n [] count = true <-> D_bdd_complexity [] = Ok count.
Proof. exact CheckSoundDecomp.chk_bdd_sound_D_empty. Qed.

Theorem C07_checker_bdd_sound_S : forall n luts count,
  Forall (fun l => wf n (tbl l)) luts ->
  (chk_bdd n (map tbl luts) count = true <-> S_bdd_complexity n luts = Ok count).
Proof. exact CheckSoundDecomp.chk_bdd_sound_S. Qed.

Print Assumptions C07_checker_bdd_iff.
Print Assumptions C07_checker_bdd_sound.
Print Assumptions C07_checker_bdd_model.
Print Assumptions C07_checker_bdd_sound_D.
Print Assumptions C07_checker_bdd_sound_D_empty.
Print Assumptions C07_checker_bdd_sound_S.
