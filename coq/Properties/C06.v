(* C06 - cofactor predicates and top decomposition (src/decomposition.rs).
   With c0 t v m = val t (clearbit m v) and c1 t v m = val t (setbit m v) the two cofactors of the function stored
   in t for variable v (definitions at the top of Proofs/DecompProofs.v, together with
     Indep n t v := forall m < 2^n, c0 t v m = c1 t v m      Xr    n t v := forall m < 2^n, c0 t v m = negb (c1 t v m)
     Zero0 n t v := forall m < 2^n, c0 t v m = false          One0  n t v := forall m < 2^n, c0 t v m = true
     Zero1 n t v := forall m < 2^n, c1 t v m = false          One1  n t v := forall m < 2^n, c1 t v m = true
     PosUnate n t v := forall m < 2^n, c0 t v m = true -> c1 t v m = true      NegUnate: c1 -> c0),
   for every n, every well-formed table (symbolic) and every v < n, in both storage regimes (v <= 5 and v >= 6).
   Statements only; proofs are in Proofs/DecompProofs.v. *)
From Coq Require Import List NArith Bool.
From V Require Proofs.ExprsTie3.  (* whole-word regimes, fill_symmetric, text widths: regenerated from the Rust source, equal the model's *)
From V Require Proofs.ExprsTie.   (* the kernels' word-level expressions, regenerated from the Rust source, equal the model's *)
From V Require Import Checkers.Check Proofs.CheckSoundDecomp.   (* the extracted checkers and their soundness proofs, pinned at the end of this file *)
From V Require Import Base.Res Model.Kernels Model.Decomp Model.Api Spec.Bfun Proofs.ApiTransforms Proofs.DecompProofs.
Import ListNotations.
Open Scope N_scope.

(* ---- 1. the generic helper: for a word operation that acts bit by bit (bit function opb) the helper returns
        "opb (c0 m) (c1 m) holds on every assignment" *)
Theorem C06_helper : forall (op : N -> N -> N) (opb : bool -> bool -> bool),
  (forall x y p, x < 2 ^ 64 -> y < 2 ^ 64 -> p < 64 -> N.testbit (op x y) p = opb (N.testbit x p) (N.testbit y p)) ->
  forall n t v, wf n t -> v < N.of_nat n ->
  exists b, input_property_helper n t v op = Ok b /\
            (b = true <-> forall m, m < 2 ^ N.of_nat n -> opb (c0 t v m) (c1 t v m) = true).
Proof. exact helper_sem. Qed.

(* ---- 2. the eight predicates *)
Theorem C06_input_independent : forall n t v, wf n t -> v < N.of_nat n ->
  exists b, input_independent n t v = Ok b /\
            (b = true <-> forall m, m < 2 ^ N.of_nat n -> c0 t v m = c1 t v m).
Proof. exact input_independent_sem. Qed.

Theorem C06_input_and : forall n t v, wf n t -> v < N.of_nat n ->
  exists b, input_and n t v = Ok b /\ (b = true <-> forall m, m < 2 ^ N.of_nat n -> c0 t v m = false).
Proof. exact input_and_sem. Qed.

Theorem C06_input_or : forall n t v, wf n t -> v < N.of_nat n ->
  exists b, input_or n t v = Ok b /\ (b = true <-> forall m, m < 2 ^ N.of_nat n -> c1 t v m = true).
Proof. exact input_or_sem. Qed.

Theorem C06_input_nand : forall n t v, wf n t -> v < N.of_nat n ->
  exists b, input_nand n t v = Ok b /\ (b = true <-> forall m, m < 2 ^ N.of_nat n -> c0 t v m = true).
Proof. exact input_nand_sem. Qed.

Theorem C06_input_nor : forall n t v, wf n t -> v < N.of_nat n ->
  exists b, input_nor n t v = Ok b /\ (b = true <-> forall m, m < 2 ^ N.of_nat n -> c1 t v m = false).
Proof. exact input_nor_sem. Qed.

Theorem C06_input_xor : forall n t v, wf n t -> v < N.of_nat n ->
  exists b, input_xor n t v = Ok b /\
            (b = true <-> forall m, m < 2 ^ N.of_nat n -> c0 t v m = negb (c1 t v m)).
Proof. exact input_xor_sem. Qed.

(* is_pos_unate: c0 <= c1 pointwise; is_neg_unate: c1 <= c0 pointwise *)
Theorem C06_input_pos_unate : forall n t v, wf n t -> v < N.of_nat n ->
  exists b, input_pos_unate n t v = Ok b /\
            (b = true <-> forall m, m < 2 ^ N.of_nat n -> c0 t v m = true -> c1 t v m = true).
Proof. exact input_pos_unate_sem. Qed.

Theorem C06_input_neg_unate : forall n t v, wf n t -> v < N.of_nat n ->
  exists b, input_neg_unate n t v = Ok b /\
            (b = true <-> forall m, m < 2 ^ N.of_nat n -> c1 t v m = true -> c0 t v m = true).
Proof. exact input_neg_unate_sem. Qed.

(* ---- 3. top_decomposition: the priority chain Independent, Identity, Negation, And, Or, Le, Lt, Xor, None *)
Theorem C06_top : forall n t v, wf n t -> v < N.of_nat n ->
  exists d, top_decomposition n t v = Ok d /\
    (d = DIndependent <-> Indep n t v) /\
    (d = DIdentity <-> ~ Indep n t v /\ (Zero0 n t v /\ One1 n t v)) /\
    (d = DNegation <-> ~ Indep n t v /\ ~ (Zero0 n t v /\ One1 n t v) /\ (One0 n t v /\ Zero1 n t v)) /\
    (d = DAnd <-> ~ Indep n t v /\ ~ (Zero0 n t v /\ One1 n t v) /\ ~ (One0 n t v /\ Zero1 n t v) /\ Zero0 n t v) /\
    (d = DOr <-> ~ Indep n t v /\ ~ (Zero0 n t v /\ One1 n t v) /\ ~ (One0 n t v /\ Zero1 n t v) /\
                 ~ Zero0 n t v /\ One1 n t v) /\
    (d = DLe <-> ~ Indep n t v /\ ~ (Zero0 n t v /\ One1 n t v) /\ ~ (One0 n t v /\ Zero1 n t v) /\
                 ~ Zero0 n t v /\ ~ One1 n t v /\ One0 n t v) /\
    (d = DLt <-> ~ Indep n t v /\ ~ (Zero0 n t v /\ One1 n t v) /\ ~ (One0 n t v /\ Zero1 n t v) /\
                 ~ Zero0 n t v /\ ~ One1 n t v /\ ~ One0 n t v /\ Zero1 n t v) /\
    (d = DXor <-> ~ Indep n t v /\ ~ (Zero0 n t v /\ One1 n t v) /\ ~ (One0 n t v /\ Zero1 n t v) /\
                  ~ Zero0 n t v /\ ~ One1 n t v /\ ~ One0 n t v /\ ~ Zero1 n t v /\ Xr n t v) /\
    (d = DNone <-> ~ Indep n t v /\ ~ (Zero0 n t v /\ One1 n t v) /\ ~ (One0 n t v /\ Zero1 n t v) /\
                   ~ Zero0 n t v /\ ~ One1 n t v /\ ~ One0 n t v /\ ~ Zero1 n t v /\ ~ Xr n t v).
Proof. exact top_sem. Qed.

(* what the classes say about the function itself *)
Theorem C06_top_independent_fun : forall n t v, wf n t -> v < N.of_nat n ->
  top_decomposition n t v = Ok DIndependent ->
  forall m, m < 2 ^ N.of_nat n -> val t (flipbit m v) = val t m.
Proof. exact top_independent_fun. Qed.

Theorem C06_top_identity_fun : forall n t v, wf n t -> v < N.of_nat n ->
  top_decomposition n t v = Ok DIdentity ->
  forall m, m < 2 ^ N.of_nat n -> val t m = N.testbit m v.
Proof. exact top_identity_fun. Qed.

Theorem C06_top_negation_fun : forall n t v, wf n t -> v < N.of_nat n ->
  top_decomposition n t v = Ok DNegation ->
  forall m, m < 2 ^ N.of_nat n -> val t m = negb (N.testbit m v).
Proof. exact top_negation_fun. Qed.

Theorem C06_top_gate_fun : forall n t v d, wf n t -> v < N.of_nat n -> top_decomposition n t v = Ok d ->
  forall m, m < 2 ^ N.of_nat n ->
    match d with
    | DAnd => val t m = N.testbit m v && c1 t v m
    | DOr => val t m = N.testbit m v || c0 t v m
    | DLe => val t m = negb (N.testbit m v) || c1 t v m
    | DLt => val t m = negb (N.testbit m v) && c0 t v m
    | DXor => val t m = xorb (N.testbit m v) (c0 t v m)
    | _ => True
    end.
Proof. exact top_gate_fun. Qed.

(* ---- 4. API layer (Lut::top_decomposition, is_pos_unate, is_neg_unate) and the always-on guards *)
Theorem C06_api_top : forall l v, lwf l -> v < N.of_nat (nv l) ->
  exists d, D_top_decomposition l v = Ok d /\
    (d = DIndependent <-> Indep (nv l) (tbl l) v) /\
    (d = DIdentity <-> ~ Indep (nv l) (tbl l) v /\ (Zero0 (nv l) (tbl l) v /\ One1 (nv l) (tbl l) v)) /\
    (d = DNegation <-> ~ Indep (nv l) (tbl l) v /\ ~ (Zero0 (nv l) (tbl l) v /\ One1 (nv l) (tbl l) v) /\
                       (One0 (nv l) (tbl l) v /\ Zero1 (nv l) (tbl l) v)) /\
    (d = DAnd <-> ~ Indep (nv l) (tbl l) v /\ ~ (Zero0 (nv l) (tbl l) v /\ One1 (nv l) (tbl l) v) /\
                  ~ (One0 (nv l) (tbl l) v /\ Zero1 (nv l) (tbl l) v) /\ Zero0 (nv l) (tbl l) v) /\
    (d = DOr <-> ~ Indep (nv l) (tbl l) v /\ ~ (Zero0 (nv l) (tbl l) v /\ One1 (nv l) (tbl l) v) /\
                 ~ (One0 (nv l) (tbl l) v /\ Zero1 (nv l) (tbl l) v) /\
                 ~ Zero0 (nv l) (tbl l) v /\ One1 (nv l) (tbl l) v) /\
    (d = DLe <-> ~ Indep (nv l) (tbl l) v /\ ~ (Zero0 (nv l) (tbl l) v /\ One1 (nv l) (tbl l) v) /\
                 ~ (One0 (nv l) (tbl l) v /\ Zero1 (nv l) (tbl l) v) /\
                 ~ Zero0 (nv l) (tbl l) v /\ ~ One1 (nv l) (tbl l) v /\ One0 (nv l) (tbl l) v) /\
    (d = DLt <-> ~ Indep (nv l) (tbl l) v /\ ~ (Zero0 (nv l) (tbl l) v /\ One1 (nv l) (tbl l) v) /\
                 ~ (One0 (nv l) (tbl l) v /\ Zero1 (nv l) (tbl l) v) /\
                 ~ Zero0 (nv l) (tbl l) v /\ ~ One1 (nv l) (tbl l) v /\ ~ One0 (nv l) (tbl l) v /\
                 Zero1 (nv l) (tbl l) v) /\
    (d = DXor <-> ~ Indep (nv l) (tbl l) v /\ ~ (Zero0 (nv l) (tbl l) v /\ One1 (nv l) (tbl l) v) /\
                  ~ (One0 (nv l) (tbl l) v /\ Zero1 (nv l) (tbl l) v) /\
                  ~ Zero0 (nv l) (tbl l) v /\ ~ One1 (nv l) (tbl l) v /\ ~ One0 (nv l) (tbl l) v /\
                  ~ Zero1 (nv l) (tbl l) v /\ Xr (nv l) (tbl l) v) /\
    (d = DNone <-> ~ Indep (nv l) (tbl l) v /\ ~ (Zero0 (nv l) (tbl l) v /\ One1 (nv l) (tbl l) v) /\
                   ~ (One0 (nv l) (tbl l) v /\ Zero1 (nv l) (tbl l) v) /\
                   ~ Zero0 (nv l) (tbl l) v /\ ~ One1 (nv l) (tbl l) v /\ ~ One0 (nv l) (tbl l) v /\
                   ~ Zero1 (nv l) (tbl l) v /\ ~ Xr (nv l) (tbl l) v).
Proof. exact D_top_decomposition_sem. Qed.

Theorem C06_api_pos_unate : forall l v, lwf l -> v < N.of_nat (nv l) ->
  exists b, D_is_pos_unate l v = Ok b /\
            (b = true <-> forall m, m < 2 ^ N.of_nat (nv l) -> c0 (tbl l) v m = true -> c1 (tbl l) v m = true).
Proof. exact D_is_pos_unate_sem. Qed.

Theorem C06_api_neg_unate : forall l v, lwf l -> v < N.of_nat (nv l) ->
  exists b, D_is_neg_unate l v = Ok b /\
            (b = true <-> forall m, m < 2 ^ N.of_nat (nv l) -> c1 (tbl l) v m = true -> c0 (tbl l) v m = true).
Proof. exact D_is_neg_unate_sem. Qed.

(* assert!(ind < num_vars) and assert!(table.len() == table_size(num_vars)) fire in every build profile *)
Theorem C06_api_ind_guard : forall l v, N.of_nat (nv l) <= v ->
  D_top_decomposition l v = PanicAlways /\ D_is_pos_unate l v = PanicAlways /\ D_is_neg_unate l v = PanicAlways.
Proof. exact D_decomp_ind_guard. Qed.

Theorem C06_api_len_guard : forall l v, length (tbl l) <> table_size (nv l) ->
  D_top_decomposition l v = PanicAlways /\ D_is_pos_unate l v = PanicAlways /\ D_is_neg_unate l v = PanicAlways.
Proof. exact D_decomp_len_guard. Qed.

Theorem C06_kernel_guards : forall n t v, N.of_nat n <= v \/ length t <> table_size n ->
  input_independent n t v = PanicAlways /\ input_and n t v = PanicAlways /\ input_or n t v = PanicAlways /\
  input_nand n t v = PanicAlways /\ input_nor n t v = PanicAlways /\ input_xor n t v = PanicAlways /\
  input_pos_unate n t v = PanicAlways /\ input_neg_unate n t v = PanicAlways /\
  top_decomposition n t v = PanicAlways.
Proof. exact kernel_guards. Qed.

(* ---- 5. the classifiers of DecompositionType *)
Theorem C06_is_trivial : forall d, is_trivial d = true <-> d = DIndependent \/ d = DIdentity \/ d = DNegation.
Proof. exact is_trivial_iff. Qed.

Theorem C06_is_and_type : forall d, is_and_type d = true <-> d = DAnd \/ d = DOr \/ d = DLe \/ d = DLt.
Proof. exact is_and_type_iff. Qed.

Theorem C06_is_xor_type : forall d, is_xor_type d = true <-> d = DXor.
Proof. exact is_xor_type_iff. Qed.

Theorem C06_is_simple_gate : forall d, is_simple_gate d = is_and_type d || is_xor_type d.
Proof. exact is_simple_gate_split. Qed.

Theorem C06_classes_partition : forall d,
  (d = DNone /\ is_trivial d = false /\ is_and_type d = false /\ is_xor_type d = false) \/
  (d <> DNone /\ is_trivial d = true /\ is_and_type d = false /\ is_xor_type d = false) \/
  (d <> DNone /\ is_trivial d = false /\ is_and_type d = true /\ is_xor_type d = false) \/
  (d <> DNone /\ is_trivial d = false /\ is_and_type d = false /\ is_xor_type d = true).
Proof. exact classes_partition. Qed.

(* the classifiers applied to the result of top_decomposition *)
Theorem C06_top_classes : forall n t v, wf n t -> v < N.of_nat n ->
  exists d, top_decomposition n t v = Ok d /\
    let T := Indep n t v \/ (Zero0 n t v /\ One1 n t v) \/ (One0 n t v /\ Zero1 n t v) in
    let G := Zero0 n t v \/ One1 n t v \/ One0 n t v \/ Zero1 n t v in
    (is_trivial d = true <-> T) /\
    (is_and_type d = true <-> ~ T /\ G) /\
    (is_xor_type d = true <-> ~ T /\ ~ G /\ Xr n t v).
Proof. exact top_classes. Qed.

(* ---- non-vacuity *)
(* the bitwise hypothesis of C06_helper holds for the eight closures of the crate *)
Example C06_nonvacuous_ops :
  bitwise64 op_independent Bool.eqb /\ bitwise64 op_and (fun a _ => negb a) /\ bitwise64 op_or (fun _ b => b) /\
  bitwise64 op_nand (fun a _ => a) /\ bitwise64 op_nor (fun _ b => negb b) /\ bitwise64 op_xor xorb /\
  bitwise64 op_pos_unate (fun a b => negb a || b) /\ bitwise64 op_neg_unate (fun a b => negb b || a).
Proof.
  exact (conj op_independent_bitwise (conj op_and_bitwise (conj op_or_bitwise (conj op_nand_bitwise
        (conj op_nor_bitwise (conj op_xor_bitwise (conj op_pos_unate_bitwise op_neg_unate_bitwise))))))).
Qed.

(* every class is reached, in-word regime (3 variables, v = 0 or 1) *)
Example C06_nonvacuous_low :
  wf 3 [0x96] /\ wf 3 [0xe8] /\
  top_decomposition 3 [0xaa] 1 = Ok DIndependent /\ top_decomposition 3 [0xaa] 0 = Ok DIdentity /\
  top_decomposition 3 [0x55] 0 = Ok DNegation /\ top_decomposition 3 [0x88] 0 = Ok DAnd /\
  top_decomposition 3 [0xee] 0 = Ok DOr /\ top_decomposition 3 [0x77] 0 = Ok DLe /\
  top_decomposition 3 [0x11] 0 = Ok DLt /\ top_decomposition 3 [0x96] 0 = Ok DXor /\
  top_decomposition 3 [0xe8] 0 = Ok DNone /\
  input_pos_unate 3 [0xe8] 0 = Ok true /\ input_neg_unate 3 [0xe8] 0 = Ok false.
Proof.
  split; [apply Proofs.Wf.wfb_wf; vm_compute; reflexivity|].
  split; [apply Proofs.Wf.wfb_wf; vm_compute; reflexivity|].
  repeat split; vm_compute; reflexivity.
Qed.

(* cross-word regime (7 and 8 variables, v = 6 or 7) *)
Example C06_nonvacuous_high :
  wf 7 [0xdeadbeef; 0x0123456789abcdef] /\
  top_decomposition 7 [0xdeadbeef; 0x0123456789abcdef] 6 = Ok DNone /\
  top_decomposition 7 [0; 0x0123456789abcdef] 6 = Ok DAnd /\
  top_decomposition 7 [0; 0xffffffffffffffff] 6 = Ok DIdentity /\
  top_decomposition 7 [0x0123456789abcdef; 0xfedcba9876543210] 6 = Ok DXor /\
  top_decomposition 8 [0x0123456789abcdef; 0xfedcba9876543210; 0x0123456789abcdef; 0xfedcba9876543210] 7
    = Ok DIndependent /\
  top_decomposition 8 [0x0123456789abcdef; 0xfedcba9876543210; 0x0123456789abcdef; 0xfedcba9876543210] 6
    = Ok DXor.
Proof.
  split; [apply Proofs.Wf.wfb_wf; vm_compute; reflexivity|].
  repeat split; vm_compute; reflexivity.
Qed.

(* API layer and guards: index = num_vars, and a table of the wrong length *)
Example C06_nonvacuous_api :
  lwf (mkLut 7 [0; 0x0123456789abcdef]) /\
  D_top_decomposition (mkLut 7 [0; 0x0123456789abcdef]) 6 = Ok DAnd /\
  D_is_pos_unate (mkLut 7 [0; 0x0123456789abcdef]) 6 = Ok true /\
  D_is_neg_unate (mkLut 7 [0; 0x0123456789abcdef]) 6 = Ok false /\
  D_top_decomposition (mkLut 3 [0xaa]) 3 = PanicAlways /\
  D_is_pos_unate (mkLut 3 [0xaa; 0]) 1 = PanicAlways.
Proof.
  split; [apply Proofs.Wf.wfb_wf; vm_compute; reflexivity|].
  repeat split; vm_compute; reflexivity.
Qed.

Print Assumptions C06_helper.
Print Assumptions C06_input_independent.
Print Assumptions C06_input_and.
Print Assumptions C06_input_or.
Print Assumptions C06_input_nand.
Print Assumptions C06_input_nor.
Print Assumptions C06_input_xor.
Print Assumptions C06_input_pos_unate.
Print Assumptions C06_input_neg_unate.
Print Assumptions C06_top.
Print Assumptions C06_top_independent_fun.
Print Assumptions C06_top_identity_fun.
Print Assumptions C06_top_negation_fun.
Print Assumptions C06_top_gate_fun.
Print Assumptions C06_api_top.
Print Assumptions C06_api_pos_unate.
Print Assumptions C06_api_neg_unate.
Print Assumptions C06_api_ind_guard.
Print Assumptions C06_api_len_guard.
Print Assumptions C06_kernel_guards.
Print Assumptions C06_is_trivial.
Print Assumptions C06_is_and_type.
Print Assumptions C06_is_xor_type.
Print Assumptions C06_is_simple_gate.
Print Assumptions C06_classes_partition.
Print Assumptions C06_top_classes.


(* ---- soundness of the extracted checkers that decide this property's statement on the implementation's results *)
Theorem C06_checker_spec_top_iff_explicit : forall n t v d,
  spec_top n t v = d <->
    (d = DIndependent <-> Indep n t v) /\
    (d = DIdentity <-> ~ Indep n t v /\ (Zero0 n t v /\ One1 n t v)) /\
    (d = DNegation <-> ~ Indep n t v /\ ~ (Zero0 n t v /\ One1 n t v) /\ (One0 n t v /\ Zero1 n t v)) /\
    (d = DAnd <-> ~ Indep n t v /\ ~ (Zero0 n t v /\ One1 n t v) /\ ~ (One0 n t v /\ Zero1 n t v) /\ Zero0 n t v) /\
    (d = DOr <-> ~ Indep n t v /\ ~ (Zero0 n t v /\ One1 n t v) /\ ~ (One0 n t v /\ Zero1 n t v) /\
                 ~ Zero0 n t v /\ One1 n t v) /\
    (d = DLe <-> ~ Indep n t v /\ ~ (Zero0 n t v /\ One1 n t v) /\ ~ (One0 n t v /\ Zero1 n t v) /\
                 ~ Zero0 n t v /\ ~ One1 n t v /\ One0 n t v) /\
    (d = DLt <-> ~ Indep n t v /\ ~ (Zero0 n t v /\ One1 n t v) /\ ~ (One0 n t v /\ Zero1 n t v) /\
                 ~ Zero0 n t v /\ ~ One1 n t v /\ ~ One0 n t v /\ Zero1 n t v) /\
    (d = DXor <-> ~ Indep n t v /\ ~ (Zero0 n t v /\ One1 n t v) /\ ~ (One0 n t v /\ Zero1 n t v) /\
                  ~ Zero0 n t v /\ ~ One1 n t v /\ ~ One0 n t v /\ ~ Zero1 n t v /\ Xr n t v) /\
    (d = DNone <-> ~ Indep n t v /\ ~ (Zero0 n t v /\ One1 n t v) /\ ~ (One0 n t v /\ Zero1 n t v) /\
                   ~ Zero0 n t v /\ ~ One1 n t v /\ ~ One0 n t v /\ ~ Zero1 n t v /\ ~ Xr n t v).
Proof. exact CheckSoundDecomp.spec_top_iff_explicit. Qed.

Theorem C06_checker_spec_top_sound : forall n t v,
  wf n t -> v < N.of_nat n -> top_decomposition n t v = Ok (spec_top n t v).
Proof. exact CheckSoundDecomp.spec_top_sound. Qed.

Theorem C06_checker_spec_top_complete : forall n t v d,
  wf n t -> v < N.of_nat n ->
  (top_decomposition n t v = Ok d <-> spec_top n t v = d).
Proof. exact CheckSoundDecomp.spec_top_complete. Qed.

Theorem C06_checker_D_spec_top_sound : forall l v,
  lwf l -> v < N.of_nat (nv l) ->
  D_top_decomposition l v = Ok (spec_top (nv l) (tbl l) v).
Proof. exact CheckSoundDecomp.D_spec_top_sound. Qed.

Theorem C06_checker_D_spec_top_complete : forall l v d,
  lwf l -> v < N.of_nat (nv l) ->
  (D_top_decomposition l v = Ok d <-> spec_top (nv l) (tbl l) v = d).
Proof. exact CheckSoundDecomp.D_spec_top_complete. Qed.

Theorem C06_checker_decomp_eqb_iff : forall a b,
  decomp_eqb a b = true <-> a = b.
Proof. exact CheckSoundDecomp.decomp_eqb_iff. Qed.

Theorem C06_checker_decomp_check_model : forall n t v d,
  wf n t -> v < N.of_nat n ->
  (decomp_eqb d (spec_top n t v) = true <-> top_decomposition n t v = Ok d).
Proof. exact CheckSoundDecomp.decomp_check_model. Qed.

Theorem C06_checker_spec_pos_unate_iff : forall n t v,
  spec_pos_unate n t v = true <-> forall m, m < 2 ^ N.of_nat n -> c0 t v m = true -> c1 t v m = true.
Proof. exact CheckSoundDecomp.spec_pos_unate_iff. Qed.

Theorem C06_checker_spec_neg_unate_iff : forall n t v,
  spec_neg_unate n t v = true <-> forall m, m < 2 ^ N.of_nat n -> c1 t v m = true -> c0 t v m = true.
Proof. exact CheckSoundDecomp.spec_neg_unate_iff. Qed.

Theorem C06_checker_spec_pos_unate_sound : forall n t v,
  wf n t -> v < N.of_nat n ->
  input_pos_unate n t v = Ok (spec_pos_unate n t v).
Proof. exact CheckSoundDecomp.spec_pos_unate_sound. Qed.

Theorem C06_checker_spec_neg_unate_sound : forall n t v,
  wf n t -> v < N.of_nat n ->
  input_neg_unate n t v = Ok (spec_neg_unate n t v).
Proof. exact CheckSoundDecomp.spec_neg_unate_sound. Qed.

Theorem C06_checker_spec_pos_unate_complete : forall n t v b,
  wf n t -> v < N.of_nat n ->
  (input_pos_unate n t v = Ok b <-> spec_pos_unate n t v = b).
Proof. exact CheckSoundDecomp.spec_pos_unate_complete. Qed.

Theorem C06_checker_spec_neg_unate_complete : forall n t v b,
  wf n t -> v < N.of_nat n ->
  (input_neg_unate n t v = Ok b <-> spec_neg_unate n t v = b).
Proof. exact CheckSoundDecomp.spec_neg_unate_complete. Qed.

Theorem C06_checker_D_spec_pos_unate_sound : forall l v,
  lwf l -> v < N.of_nat (nv l) ->
  D_is_pos_unate l v = Ok (spec_pos_unate (nv l) (tbl l) v).
Proof. exact CheckSoundDecomp.D_spec_pos_unate_sound. Qed.

Theorem C06_checker_D_spec_neg_unate_sound : forall l v,
  lwf l -> v < N.of_nat (nv l) ->
  D_is_neg_unate l v = Ok (spec_neg_unate (nv l) (tbl l) v).
Proof. exact CheckSoundDecomp.D_spec_neg_unate_sound. Qed.

Print Assumptions C06_checker_spec_top_iff_explicit.
Print Assumptions C06_checker_spec_top_sound.
Print Assumptions C06_checker_spec_top_complete.
Print Assumptions C06_checker_D_spec_top_sound.
Print Assumptions C06_checker_D_spec_top_complete.
Print Assumptions C06_checker_decomp_eqb_iff.
Print Assumptions C06_checker_decomp_check_model.
Print Assumptions C06_checker_spec_pos_unate_iff.
Print Assumptions C06_checker_spec_neg_unate_iff.
Print Assumptions C06_checker_spec_pos_unate_sound.
Print Assumptions C06_checker_spec_neg_unate_sound.
Print Assumptions C06_checker_spec_pos_unate_complete.
Print Assumptions C06_checker_spec_neg_unate_complete.
Print Assumptions C06_checker_D_spec_pos_unate_sound.
Print Assumptions C06_checker_D_spec_neg_unate_sound.
