(* C04 - canonical representatives: for every n <= 8 and every well-formed table (symbolic) the three canonizations
   terminate without panic and return the minimum of the orbit of the argument under the respective group
   (P: input permutations, N: input/output complementations, NPN: both), in the library's own order
   (cmp = numeric order of the table read as one number, `big`, see C08).
   The orbit is described with the specification vocabulary of Spec/Transform.v: c' is in the orbit of t when
   c'(y) = act n perm' mask' t (y) on the domain for some permutation perm' and some mask' < 2^(n+1).
   Consequences stated with the equivalence relations equivP / equivN / equivNPN of Proofs/ActGroup.v (f ~ g when g is
   a transform of f; reflexive, symmetric, transitive by the group laws): canonization is idempotent and two tables
   have the same representative exactly when their functions are equivalent.
   Statements only; proofs are in Proofs/CanonWalk.v (walk invariant), Proofs/Coverage.v (the walks visit the
   whole group) and Proofs/CanonOrbit.v (idempotence, same representative). *)
From Coq Require Import List NArith Bool.
From V Require Proofs.ExprsTie2.   (* expressions of cube.rs / ecube.rs / bdd.rs / canonization.rs, regenerated from the Rust source, equal the model's *)
From V Require Proofs.GrayAll Proofs.CanonAllN.
From V Require Proofs.SjtAll Proofs.CanonNpnAll.
From V Require Import Checkers.Check Proofs.CheckSound Proofs.CheckSoundCanon Proofs.CheckSoundCanonSample.   (* the extracted checkers and their soundness proofs, pinned at the end of this file *)
From V Require Import Base.Res Model.Kernels Model.Canon Spec.Bfun Spec.Transform Proofs.Order Proofs.ActGroup
  Proofs.CanonWalk Proofs.CanonOrbit.
Import ListNotations.
Open Scope N_scope.

Theorem C04_npn_min : forall n t, (n <= 8)%nat -> wf n t ->
  exists c perm mask, npn_canonization n t = Ok (c, perm, mask) /\
    forall perm' mask' c', is_perm n perm' -> mask' < 2 ^ (N.of_nat n + 1) -> wf n c' ->
      (forall y, y < 2 ^ N.of_nat n -> val c' y = act n perm' mask' (val t) y) -> big c <= big c'.
Proof. exact npn_min. Qed.

Theorem C04_p_min : forall n t, (n <= 8)%nat -> wf n t ->
  exists c perm, p_canonization n t = Ok (c, perm) /\
    forall perm' c', is_perm n perm' -> wf n c' ->
      (forall y, y < 2 ^ N.of_nat n -> val c' y = act n perm' 0 (val t) y) -> big c <= big c'.
Proof. exact p_min. Qed.

Theorem C04_n_min : forall n t, (n <= 8)%nat -> wf n t ->
  exists c mask, n_canonization n t = Ok (c, mask) /\
    forall mask' c', mask' < 2 ^ (N.of_nat n + 1) -> wf n c' ->
      (forall y, y < 2 ^ N.of_nat n -> val c' y = act n (identity n) mask' (val t) y) -> big c <= big c'.
Proof. exact n_min. Qed.

(* the same with the library comparison *)
Theorem C04_npn_cmp : forall n t, (n <= 8)%nat -> wf n t ->
  exists c perm mask, npn_canonization n t = Ok (c, perm, mask) /\
    forall perm' mask' c', is_perm n perm' -> mask' < 2 ^ (N.of_nat n + 1) -> wf n c' ->
      (forall y, y < 2 ^ N.of_nat n -> val c' y = act n perm' mask' (val t) y) -> cmp c c' = Ok Lt \/ c = c'.
Proof. exact npn_min_cmp. Qed.

Theorem C04_p_cmp : forall n t, (n <= 8)%nat -> wf n t ->
  exists c perm, p_canonization n t = Ok (c, perm) /\
    forall perm' c', is_perm n perm' -> wf n c' ->
      (forall y, y < 2 ^ N.of_nat n -> val c' y = act n perm' 0 (val t) y) -> cmp c c' = Ok Lt \/ c = c'.
Proof. exact p_min_cmp. Qed.

Theorem C04_n_cmp : forall n t, (n <= 8)%nat -> wf n t ->
  exists c mask, n_canonization n t = Ok (c, mask) /\
    forall mask' c', mask' < 2 ^ (N.of_nat n + 1) -> wf n c' ->
      (forall y, y < 2 ^ N.of_nat n -> val c' y = act n (identity n) mask' (val t) y) -> cmp c c' = Ok Lt \/ c = c'.
Proof. exact n_min_cmp. Qed.

(* canonizing the representative returns it unchanged *)
Theorem C04_npn_idempotent : forall n t, (n <= 8)%nat -> wf n t ->
  exists c perm mask perm' mask',
    npn_canonization n t = Ok (c, perm, mask) /\ npn_canonization n c = Ok (c, perm', mask').
Proof. exact npn_idempotent. Qed.

Theorem C04_p_idempotent : forall n t, (n <= 8)%nat -> wf n t ->
  exists c perm perm', p_canonization n t = Ok (c, perm) /\ p_canonization n c = Ok (c, perm').
Proof. exact p_idempotent. Qed.

Theorem C04_n_idempotent : forall n t, (n <= 8)%nat -> wf n t ->
  exists c mask mask', n_canonization n t = Ok (c, mask) /\ n_canonization n c = Ok (c, mask').
Proof. exact n_idempotent. Qed.

(* same representative <-> same class *)
Theorem C04_npn_same_rep_iff : forall n t1 t2, (n <= 8)%nat -> wf n t1 -> wf n t2 ->
  exists c1 p1 m1 c2 p2 m2,
    npn_canonization n t1 = Ok (c1, p1, m1) /\ npn_canonization n t2 = Ok (c2, p2, m2) /\
    (c1 = c2 <-> equivNPN n (val t1) (val t2)).
Proof. exact npn_same_rep_iff. Qed.

Theorem C04_p_same_rep_iff : forall n t1 t2, (n <= 8)%nat -> wf n t1 -> wf n t2 ->
  exists c1 p1 c2 p2,
    p_canonization n t1 = Ok (c1, p1) /\ p_canonization n t2 = Ok (c2, p2) /\
    (c1 = c2 <-> equivP n (val t1) (val t2)).
Proof. exact p_same_rep_iff. Qed.

Theorem C04_n_same_rep_iff : forall n t1 t2, (n <= 8)%nat -> wf n t1 -> wf n t2 ->
  exists c1 m1 c2 m2,
    n_canonization n t1 = Ok (c1, m1) /\ n_canonization n t2 = Ok (c2, m2) /\
    (c1 = c2 <-> equivN n (val t1) (val t2)).
Proof. exact n_same_rep_iff. Qed.

(* non-vacuity: 0xe8 (majority) is in the NPN orbit of 0xd4 (certificate checked by the executable checker); both
   have the representative 0x17, which is strictly below them in the library order and is its own representative;
   0xd4 and 0xe8 are not P-equivalent and their P representatives differ *)
Example C04_nonvacuous :
  wf 3 [0xd4] /\ wf 3 [0xe8] /\ cert_okb 3 (val [0xd4]) (val [0xe8]) [0; 1; 2] 1 = true /\
  npn_canonization 3 [0xd4] = Ok ([0x17], [1; 0; 2], 10) /\
  npn_canonization 3 [0xe8] = Ok ([0x17], [1; 0; 2], 7) /\
  cmp [0x17] [0xe8] = Ok Lt /\ cmp [0x17] [0xd4] = Ok Lt /\
  npn_canonization 3 [0x17] = Ok ([0x17], [0; 1; 2], 0) /\
  p_canonization 3 [0xd4] = Ok ([0x8e], [1; 2; 0]) /\ p_canonization 3 [0xe8] = Ok ([0xe8], [0; 1; 2]) /\
  n_canonization 3 [0xd4] = Ok ([0x17], 9).
Proof.
  split; [apply Proofs.Wf.wfb_wf; vm_compute; reflexivity|].
  split; [apply Proofs.Wf.wfb_wf; vm_compute; reflexivity|].
  repeat (split; [vm_compute; reflexivity|]). vm_compute; reflexivity.
Qed.

Print Assumptions C04_npn_min.
Print Assumptions C04_p_min.
Print Assumptions C04_n_min.
Print Assumptions C04_npn_cmp.
Print Assumptions C04_p_cmp.
Print Assumptions C04_n_cmp.
Print Assumptions C04_npn_idempotent.
Print Assumptions C04_p_idempotent.
Print Assumptions C04_n_idempotent.
Print Assumptions C04_npn_same_rep_iff.
Print Assumptions C04_p_same_rep_iff.
Print Assumptions C04_n_same_rep_iff.

(* ---- N canonization for every n <= 31 (see Properties/C05.v, C05_n_general) *)
Theorem C04_n_min_general : forall n t, (n <= 31)%nat -> wf n t ->
  exists c mask, n_canonization n t = Ok (c, mask) /\
    forall mask' c', mask' < 2 ^ (N.of_nat n + 1) -> wf n c' ->
      (forall y, y < 2 ^ N.of_nat n -> val c' y = act n (identity n) mask' (val t) y) -> big c <= big c'.
Proof. exact V.Proofs.CanonAllN.C04_n_min_general. Qed.
Theorem C04_n_same_rep_iff_general : forall n t1 t2, (n <= 31)%nat -> wf n t1 -> wf n t2 ->
  exists c1 m1 c2 m2, n_canonization n t1 = Ok (c1, m1) /\ n_canonization n t2 = Ok (c2, m2) /\
    (c1 = c2 <-> equivN n (val t1) (val t2)).
Proof. exact V.Proofs.CanonAllN.C04_n_same_rep_iff_general. Qed.
Print Assumptions C04_n_min_general.
Print Assumptions C04_n_same_rep_iff_general.


(* ---- P and NPN canonization beyond the property bound, by PROOFS that the generated walks cover the whole group
        (Proofs/SjtAll.v: the Steinhaus-Johnson-Trotter swap sequence is a closed walk through all n! permutations, any
        n >= 2; Proofs/GrayAll.v: the Gray flip sequence, any n >= 1), not by computation.
        P: every n below the usize bound. NPN: every n <= 31 (the limit is the u32 certificate mask);
        proofs in Proofs/SjtAll.v and Proofs/CanonNpnAll.v *)
Theorem C04_p_min_general : forall n t, N.of_nat n < 2 ^ 64 -> wf n t ->
  exists c perm, p_canonization n t = Ok (c, perm) /\
    forall perm' c', is_perm n perm' -> wf n c' ->
      (forall y, y < 2 ^ N.of_nat n -> val c' y = act n perm' 0 (val t) y) -> big c <= big c'.
Proof. exact V.Proofs.SjtAll.p_min_general. Qed.
Theorem C04_p_same_rep_iff_general : forall n t1 t2, N.of_nat n < 2 ^ 64 -> wf n t1 -> wf n t2 ->
  exists c1 p1 c2 p2,
    p_canonization n t1 = Ok (c1, p1) /\ p_canonization n t2 = Ok (c2, p2) /\
    (c1 = c2 <-> equivP n (val t1) (val t2)).
Proof. exact V.Proofs.SjtAll.p_same_rep_iff_general. Qed.
Theorem C04_npn_min_general : forall n t, (n <= 31)%nat -> wf n t ->
  exists c perm mask, npn_canonization n t = Ok (c, perm, mask) /\
    forall perm' mask' c', is_perm n perm' -> mask' < 2 ^ (N.of_nat n + 1) -> wf n c' ->
      (forall y, y < 2 ^ N.of_nat n -> val c' y = act n perm' mask' (val t) y) -> big c <= big c'.
Proof. exact V.Proofs.CanonNpnAll.C04_npn_min_general. Qed.
Theorem C04_npn_idempotent_general : forall n t, (n <= 31)%nat -> wf n t ->
  exists c perm mask perm' mask',
    npn_canonization n t = Ok (c, perm, mask) /\ npn_canonization n c = Ok (c, perm', mask').
Proof. exact V.Proofs.CanonNpnAll.C04_npn_idempotent_general. Qed.
Theorem C04_npn_same_rep_iff_general : forall n t1 t2, (n <= 31)%nat -> wf n t1 -> wf n t2 ->
  exists c1 p1 m1 c2 p2 m2,
    npn_canonization n t1 = Ok (c1, p1, m1) /\ npn_canonization n t2 = Ok (c2, p2, m2) /\
    (c1 = c2 <-> equivNPN n (val t1) (val t2)).
Proof. exact V.Proofs.CanonNpnAll.C04_npn_same_rep_iff_general. Qed.
(* the coverage facts behind them: the generated swap sequence is valid, closed and visits every permutation *)
Theorem C04_sjt_general : forall n, (2 <= n)%nat ->
  exists sw, generate_swaps n true = Ok sw /\ swaps_valid n sw = true /\ swaps_closed n sw = true /\ sw <> [] /\
             forall p, is_perm n p -> In p (perms_after (identity n) sw).
Proof. exact V.Proofs.SjtAll.sjt_general. Qed.
Theorem C04_coverage_P_general : forall n, (2 <= n)%nat ->
  exists sw, swaps_for n = Ok sw /\ swaps_valid n sw = true /\ swaps_closed n sw = true /\ sw <> [] /\
             forall p, is_perm n p -> In (p, 0) (p_certs n sw).
Proof. exact V.Proofs.SjtAll.coverage_P_general. Qed.
Print Assumptions C04_p_min_general.
Print Assumptions C04_p_same_rep_iff_general.
Print Assumptions C04_npn_min_general.
Print Assumptions C04_npn_idempotent_general.
Print Assumptions C04_npn_same_rep_iff_general.
Print Assumptions C04_sjt_general.
Print Assumptions C04_coverage_P_general.


(* ---- soundness of the extracted checkers that decide this property's statement on the implementation's results *)
Theorem C04_checker_is_permb_iff : forall n p,
  is_permb n p = true <-> is_perm n p.
Proof. exact CheckSoundCanon.is_permb_iff. Qed.

Theorem C04_checker_cert_iff : forall n f c perm mask,
  chk_cert n f c perm mask = true <-> wf n c /\ cert_ok n (val f) (val c) perm mask.
Proof. exact CheckSoundCanon.chk_cert_iff. Qed.

Theorem C04_checker_act_num_big : forall n perm mask f c',
  wf n c' ->
  (forall y, y < 2 ^ N.of_nat n -> val c' y = act n perm mask (val f) y) -> act_num n perm mask f = big c'.
Proof. exact CheckSoundCanon.act_num_big. Qed.

Theorem C04_checker_minimal_iff : forall g n f c,
  chk_minimal g n f c = true <->
  forall perm' mask', in_group g n perm' mask' -> bigN c <= act_num n perm' mask' f.
Proof. exact CheckSoundCanon.chk_minimal_iff. Qed.

Theorem C04_checker_minimal_spec : forall g n f c,
  chk_minimal g n f c = true <->
  forall perm' mask' c', in_group g n perm' mask' -> wf n c' ->
    (forall y, y < 2 ^ N.of_nat n -> val c' y = act n perm' mask' (val f) y) -> big c <= big c'.
Proof. exact CheckSoundCanon.chk_minimal_spec. Qed.

Theorem C04_checker_minimal_p_model : forall n t c perm,
  (n <= 8)%nat -> wf n t ->
  p_canonization n t = Ok (c, perm) -> chk_minimal 0 n t c = true.
Proof. exact CheckSoundCanon.chk_minimal_p_model. Qed.

Theorem C04_checker_minimal_n_model : forall n t c mask,
  (n <= 8)%nat -> wf n t ->
  n_canonization n t = Ok (c, mask) -> chk_minimal 1 n t c = true.
Proof. exact CheckSoundCanon.chk_minimal_n_model. Qed.

Theorem C04_checker_minimal_npn_model : forall n t c perm mask,
  (n <= 8)%nat -> wf n t ->
  npn_canonization n t = Ok (c, perm, mask) -> chk_minimal 2 n t c = true.
Proof. exact CheckSoundCanon.chk_minimal_npn_model. Qed.

Theorem C04_checker_canon_unique : forall g n f c1 p1 m1 c2 p2 m2,
  in_group g n p1 m1 -> chk_cert n f c1 p1 m1 = true -> chk_minimal g n f c1 = true ->
  in_group g n p2 m2 -> chk_cert n f c2 p2 m2 = true -> chk_minimal g n f c2 = true ->
  c1 = c2.
Proof. exact CheckSoundCanon.chk_canon_unique. Qed.

Theorem C04_checker_canon_npn_is_model : forall n t c perm mask c' perm' mask',
  (n <= 8)%nat -> wf n t ->
  npn_canonization n t = Ok (c, perm, mask) ->
  is_perm n perm' -> mask' < 2 ^ (N.of_nat n + 1) ->
  chk_cert n t c' perm' mask' = true -> chk_minimal 2 n t c' = true -> c' = c.
Proof. exact CheckSoundCanon.chk_canon_npn_is_model. Qed.

Theorem C04_checker_in_groupb_iff : forall g n perm mask,
  in_groupb g n perm mask = true <-> in_group g n perm mask.
Proof. exact CheckSoundCanonSample.in_groupb_iff. Qed.

Theorem C04_checker_below_iff : forall g n f c elems,
  chk_below g n f c elems = true <->
  forall perm' mask', In (perm', mask') elems -> in_group g n perm' mask' -> bigN c <= act_num n perm' mask' f.
Proof. exact CheckSoundCanonSample.chk_below_iff. Qed.

Theorem C04_checker_minimal_below : forall g n f c elems,
  chk_minimal g n f c = true -> chk_below g n f c elems = true.
Proof. exact CheckSoundCanonSample.chk_minimal_below. Qed.

Theorem C04_checker_below_complete : forall g n f c elems,
  (forall p m, in_group g n p m -> In (p, m) elems) -> chk_below g n f c elems = true -> chk_minimal g n f c = true.
Proof. exact CheckSoundCanonSample.chk_below_complete. Qed.

Theorem C04_checker_below_p_model : forall n t c perm elems,
  (n <= 8)%nat -> wf n t ->
  p_canonization n t = Ok (c, perm) -> chk_below 0 n t c elems = true.
Proof. exact CheckSoundCanonSample.chk_below_p_model. Qed.

Theorem C04_checker_below_n_model : forall n t c mask elems,
  (n <= 8)%nat -> wf n t ->
  n_canonization n t = Ok (c, mask) -> chk_below 1 n t c elems = true.
Proof. exact CheckSoundCanonSample.chk_below_n_model. Qed.

Theorem C04_checker_below_npn_model : forall n t c perm mask elems,
  (n <= 8)%nat -> wf n t ->
  npn_canonization n t = Ok (c, perm, mask) -> chk_below 2 n t c elems = true.
Proof. exact CheckSoundCanonSample.chk_below_npn_model. Qed.

Theorem C04_checker_below_reject : forall g n f c elems,
  chk_below g n f c elems = false ->
  exists perm' mask', in_group g n perm' mask' /\ act_num n perm' mask' f < bigN c.
Proof. exact CheckSoundCanonSample.chk_below_reject. Qed.

Print Assumptions C04_checker_is_permb_iff.
Print Assumptions C04_checker_cert_iff.
Print Assumptions C04_checker_act_num_big.
Print Assumptions C04_checker_minimal_iff.
Print Assumptions C04_checker_minimal_spec.
Print Assumptions C04_checker_minimal_p_model.
Print Assumptions C04_checker_minimal_n_model.
Print Assumptions C04_checker_minimal_npn_model.
Print Assumptions C04_checker_canon_unique.
Print Assumptions C04_checker_canon_npn_is_model.
Print Assumptions C04_checker_in_groupb_iff.
Print Assumptions C04_checker_below_iff.
Print Assumptions C04_checker_minimal_below.
Print Assumptions C04_checker_below_complete.
Print Assumptions C04_checker_below_p_model.
Print Assumptions C04_checker_below_n_model.
Print Assumptions C04_checker_below_npn_model.
Print Assumptions C04_checker_below_reject.
