(* C09 - text forms are exact and fixed-width, and parsing accepts exactly the well-formed input.
   Strings are byte lists. Statements only; proofs are in Proofs/Text.v.
   Vocabulary (Proofs/Text.v):
     total_hex_width n  = hex_str_size n * table_size n          number of hexadecimal digits of a Lut n
     big t              = fold_right (fun w acc => w + 2^64 * acc) 0 t   the table as one number, word 0 lowest
     hexnum s           = parse_hex s 0                          value of a hexadecimal string (None: not hex digits)
     hex_chunk n s i    = s[i*hex_str_size n .. (i+1)*hex_str_size n]    (C09_hex_chunk_slice)
     chunk_values n s   = values of the table_size n chunks, from the left
     nibble t p         = table bits 4p .. 4p+3 as a number *)
From Coq Require Import List NArith Arith Bool.
From V Require Proofs.ExprsTie3.  (* whole-word regimes, fill_symmetric, text widths: regenerated from the Rust source, equal the model's *)
From V Require Import Checkers.Check Proofs.CheckSoundText.   (* the extracted checkers and their soundness proofs, pinned at the end of this file *)
From V Require Import Base.Res Model.Kernels Model.Api Spec.Bfun Proofs.Text.
Import ListNotations.
Open Scope N_scope.

(* ---------------------------------------------------------------- 1. digits *)
Theorem C09_digits_spec : forall base x, 2 <= base -> x < 2 ^ 64 ->
  digits base x <> [] /\
  Forall (fun d => d < base) (digits base x) /\
  (x = 0 -> digits base x = [0]) /\
  (x <> 0 -> hd 0 (digits base x) <> 0) /\
  fold_left (fun acc d => acc * base + d) (digits base x) 0 = x /\
  (length (digits base x) <= 64)%nat /\
  (forall extra, digits_fuel (64 + extra) base x [] = digits base x).
Proof. exact digits_spec. Qed.

(* ---------------------------------------------------------------- 2. one padded word *)
Theorem C09_pad_radix_width : forall base width x,
  2 <= base -> x < 2 ^ 64 -> x < base ^ N.of_nat width -> (1 <= width)%nat ->
  length (pad_radix base width x) = width.
Proof. exact pad_radix_width. Qed.

Theorem C09_pad_radix_min_width : forall base width x, (width <= length (pad_radix base width x))%nat.
Proof. exact pad_radix_length_ge. Qed.

Theorem C09_pad_radix_wider : forall base width x,
  2 <= base -> x < 2 ^ 64 -> base ^ N.of_nat width <= x -> (width < length (pad_radix base width x))%nat.
Proof. exact pad_radix_wider. Qed.

Theorem C09_pad_radix_chars : forall base width x, 2 <= base -> x < 2 ^ 64 ->
  Forall (fun c => exists d, d < base /\ c = digit_char d) (pad_radix base width x).
Proof. exact pad_radix_chars. Qed.

Theorem C09_pad_radix_digit : forall base width x k,
  2 <= base -> x < 2 ^ 64 -> x < base ^ N.of_nat width -> (k < width)%nat ->
  nth k (pad_radix base width x) 0 = digit_char (x / base ^ N.of_nat (width - 1 - k) mod base).
Proof. exact pad_radix_nth. Qed.

Theorem C09_pad_radix_value : forall width x, x < 2 ^ 64 -> parse_hex (pad_radix 16 width x) 0 = Some x.
Proof. exact pad_radix_value. Qed.

Theorem C09_hexval_digit_char : forall d, d < 16 -> hexval (digit_char d) = Some d.
Proof. exact hexval_digit_char. Qed.

(* ---------------------------------------------------------------- 3. fixed width *)
Theorem C09_to_hex_width : forall n t, wf n t -> length (to_hex n t) = total_hex_width n.
Proof. exact to_hex_width. Qed.

Theorem C09_total_hex_width : forall n, total_hex_width n = (Nat.max 1 (2 ^ n / 4))%nat.
Proof. exact total_hex_width_eq. Qed.

Theorem C09_to_bin_width : forall n t, wf n t -> length (to_bin n t) = (2 ^ n)%nat.
Proof. exact to_bin_width. Qed.

(* ---------------------------------------------------------------- 4. characters *)
Theorem C09_to_hex_chars : forall n t, wf n t ->
  Forall (fun c => 48 <= c <= 57 \/ 97 <= c <= 102) (to_hex n t).
Proof. exact to_hex_chars. Qed.

Theorem C09_to_bin_chars : forall n t, wf n t -> Forall (fun c => c = 48 \/ c = 49) (to_bin n t).
Proof. exact to_bin_chars. Qed.

(* ---------------------------------------------------------------- 5. the binary form is exact *)
Theorem C09_to_bin_bits : forall n t k, wf n t -> (k < 2 ^ n)%nat ->
  nth k (to_bin n t) 0 = 48 + (if val t (N.of_nat (2 ^ n - 1 - k)) then 1 else 0).
Proof. exact to_bin_bits. Qed.

(* ---------------------------------------------------------------- 6. the hexadecimal form is exact *)
Theorem C09_to_hex_digits : forall n t k, wf n t -> (k < total_hex_width n)%nat ->
  nth k (to_hex n t) 0 =
  digit_char (let p := N.of_nat (total_hex_width n - 1 - k) in
              N.b2n (val t (4 * p)) + 2 * N.b2n (val t (4 * p + 1)) +
              4 * N.b2n (val t (4 * p + 2)) + 8 * N.b2n (val t (4 * p + 3))).
Proof. exact to_hex_digits. Qed.

(* both forms are the positional notation of the table read as one number *)
Theorem C09_big_testbit : forall t m, Forall (fun w => w < 2 ^ 64) t -> N.testbit (big t) m = val t m.
Proof. exact big_testbit. Qed.

Theorem C09_to_hex_digits_big : forall n t k, wf n t -> (k < total_hex_width n)%nat ->
  nth k (to_hex n t) 0 = digit_char (big t / 16 ^ N.of_nat (total_hex_width n - 1 - k) mod 16).
Proof. exact to_hex_digits_big. Qed.

Theorem C09_to_bin_bits_big : forall n t k, wf n t -> (k < 2 ^ n)%nat ->
  nth k (to_bin n t) 0 = digit_char (big t / 2 ^ N.of_nat (2 ^ n - 1 - k) mod 2).
Proof. exact to_bin_bits_big. Qed.

Theorem C09_to_hex_value : forall n t, wf n t -> hexnum (to_hex n t) = Some (big t).
Proof. exact to_hex_value. Qed.

(* ---------------------------------------------------------------- 7. Display, LowerHex, Binary *)
Theorem C09_display : forall l,
  D_display l =
  [76; 117; 116] ++ map digit_char (digits 10 (N.of_nat (nv l))) ++ [40] ++ D_to_hex_string l ++ [41].
Proof. exact display_eq. Qed.

Theorem C09_lowerhex : forall l, D_lowerhex l = D_display l.
Proof. exact lowerhex_eq. Qed.

Theorem C09_binary : forall l,
  D_binary l =
  [76; 117; 116] ++ map digit_char (digits 10 (N.of_nat (nv l))) ++ [40] ++ D_to_bin_string l ++ [41].
Proof. exact binary_eq. Qed.

Theorem C09_decimal : forall x, x < 2 ^ 64 ->
  Forall (fun c => 48 <= c <= 57) (map digit_char (digits 10 x)) /\
  fold_left (fun acc c => acc * 10 + (c - 48)) (map digit_char (digits 10 x)) 0 = x /\
  (x <> 0 -> hd 0 (map digit_char (digits 10 x)) <> 48) /\
  (x = 0 -> map digit_char (digits 10 x) = [48]).
Proof. exact decimal_spec. Qed.

(* ---------------------------------------------------------------- 8. parsing never panics *)
Theorem C09_from_hex_total : forall n s, exists r, D_from_hex_string n s = Ok r.
Proof. exact from_hex_total. Qed.

(* ---------------------------------------------------------------- 9. parsing accepts exactly the well-formed input *)
Theorem C09_is_hex_digit : forall b,
  is_hex_digit b = true <-> (48 <= b <= 57 \/ 97 <= b <= 102 \/ 65 <= b <= 70).
Proof. exact is_hex_digit_iff. Qed.

Theorem C09_from_hex_accepts : forall n s,
  (exists l, D_from_hex_string n s = Ok (Some l)) <->
  length s = total_hex_width n /\
  Forall (fun b => is_hex_digit b = true) s /\
  Forall (fun v => v < 2 ^ word_bits n) (chunk_values n s).
Proof. exact from_hex_accepts. Qed.

Theorem C09_from_hex_rejects : forall n s,
  D_from_hex_string n s = Ok None <->
  ~ (length s = total_hex_width n /\
     Forall (fun b => is_hex_digit b = true) s /\
     Forall (fun v => v < 2 ^ word_bits n) (chunk_values n s)).
Proof. exact from_hex_rejects. Qed.

(* with at least 2 variables the third condition always holds *)
Theorem C09_from_hex_accepts_large : forall n s, (2 <= n)%nat ->
  ((exists l, D_from_hex_string n s = Ok (Some l)) <->
   length s = total_hex_width n /\ Forall (fun b => is_hex_digit b = true) s).
Proof. exact from_hex_accepts_large. Qed.

(* below 2 variables: one digit, whose value is below 2^(2^n) *)
Theorem C09_from_hex_accepts_small : forall n s, (n < 2)%nat ->
  ((exists l, D_from_hex_string n s = Ok (Some l)) <->
   exists b d, s = [b] /\ hexval b = Some d /\ d < 2 ^ 2 ^ N.of_nat n).
Proof. exact from_hex_accepts_small. Qed.

Theorem C09_from_hex_accepted : forall n s l, D_from_hex_string n s = Ok (Some l) ->
  (length s = total_hex_width n /\
   Forall (fun b => is_hex_digit b = true) s /\
   Forall (fun v => v < 2 ^ word_bits n) (chunk_values n s)) /\
  nv l = n /\ wf n (tbl l) /\ tbl l = rev (chunk_values n s).
Proof. exact from_hex_accepted. Qed.

(* ---------------------------------------------------------------- 10. the accepted table denotes the string *)
Theorem C09_hex_chunk_slice : forall n s i, (i < table_size n)%nat ->
  hex_chunk n s i = firstn (hex_str_size n) (skipn (i * hex_str_size n) s).
Proof. exact hex_chunk_slice. Qed.

Theorem C09_from_hex_value : forall n s l i,
  D_from_hex_string n s = Ok (Some l) -> (i < table_size n)%nat ->
  parse_hex (hex_chunk n s i) 0 = Some (nthN (tbl l) (table_size n - 1 - i)).
Proof. exact from_hex_value. Qed.

Theorem C09_from_hex_big : forall n s l,
  D_from_hex_string n s = Ok (Some l) -> parse_hex s 0 = Some (big (tbl l)).
Proof. exact from_hex_big. Qed.

Theorem C09_hexval_upper : forall b, 65 <= b <= 70 -> hexval b = hexval (b + 32) /\ hexval b = Some (b - 55).
Proof. exact hexval_upper. Qed.

(* ---------------------------------------------------------------- 11. printing then parsing is the identity *)
Theorem C09_roundtrip : forall n t, wf n t -> D_from_hex_string n (to_hex n t) = Ok (Some (mkLut n t)).
Proof. exact from_hex_to_hex. Qed.

Theorem C09_api_roundtrip : forall l, wf (nv l) (tbl l) ->
  D_from_hex_string (nv l) (D_to_hex_string l) = Ok (Some l).
Proof. exact api_roundtrip. Qed.

(* ---------------------------------------------------------------- 12. rejections *)
Theorem C09_rejects_char : forall n s b, In b s -> is_hex_digit b = false -> D_from_hex_string n s = Ok None.
Proof. exact from_hex_rejects_char. Qed.

(* '+' '-' ' ' 'g' 'x' 'G' '/' ':' '@' '`' and every non-ASCII byte *)
Theorem C09_not_hex_digits :
  is_hex_digit 43 = false /\ is_hex_digit 45 = false /\ is_hex_digit 32 = false /\
  is_hex_digit 103 = false /\ is_hex_digit 120 = false /\ is_hex_digit 71 = false /\
  is_hex_digit 47 = false /\ is_hex_digit 58 = false /\ is_hex_digit 64 = false /\ is_hex_digit 96 = false /\
  forall b, 128 <= b -> is_hex_digit b = false.
Proof. exact not_hex_digit_examples. Qed.

Theorem C09_rejects_length : forall n s, length s <> total_hex_width n -> D_from_hex_string n s = Ok None.
Proof. exact from_hex_rejects_length. Qed.

(* ---------------------------------------------------------------- the hypotheses are satisfiable *)
(* printing: a 7-variable table with two distinct words, a 3-variable and a 1-variable table *)
Example C09_nonvacuous_print :
  wf 7 [0xdeadbeef; 0x0123456789abcdef] /\ wf 3 [0xe8] /\ wf 1 [2] /\
  to_hex 7 [0xdeadbeef; 0x0123456789abcdef] =
    [48; 49; 50; 51; 52; 53; 54; 55; 56; 57; 97; 98; 99; 100; 101; 102;
     48; 48; 48; 48; 48; 48; 48; 48; 100; 101; 97; 100; 98; 101; 101; 102] /\
  to_hex 3 [0xe8] = [101; 56] /\ to_bin 3 [0xe8] = [49; 49; 49; 48; 49; 48; 48; 48] /\
  to_hex 1 [2] = [50] /\ to_bin 1 [2] = [49; 48] /\
  D_display (mkLut 3 [0xe8]) = [76; 117; 116; 51; 40; 101; 56; 41] /\
  D_binary (mkLut 1 [2]) = [76; 117; 116; 49; 40; 49; 48; 41] /\
  digits 10 10 = [1; 0] /\ pad_radix 16 1 255 = [102; 102].
Proof.
  split; [apply Proofs.Wf.wfb_wf; vm_compute; reflexivity|].
  split; [apply Proofs.Wf.wfb_wf; vm_compute; reflexivity|].
  split; [apply Proofs.Wf.wfb_wf; vm_compute; reflexivity|].
  vm_compute. repeat split.
Qed.

(* parsing: "E8" and "e8" are accepted for 3 variables, "3" for 1 variable; "4" does not fit 1 variable,
   "+8" and a 3-character string are rejected for 3 variables *)
Example C09_nonvacuous_parse :
  D_from_hex_string 3 [69; 56] = Ok (Some (mkLut 3 [0xe8])) /\
  D_from_hex_string 3 [101; 56] = Ok (Some (mkLut 3 [0xe8])) /\
  D_from_hex_string 1 [51] = Ok (Some (mkLut 1 [3])) /\
  D_from_hex_string 1 [52] = Ok None /\
  D_from_hex_string 3 [43; 56] = Ok None /\
  D_from_hex_string 3 [48; 101; 56] = Ok None /\
  D_from_hex_string 7 (to_hex 7 [0xdeadbeef; 0x0123456789abcdef]) =
    Ok (Some (mkLut 7 [0xdeadbeef; 0x0123456789abcdef])) /\
  chunk_values 7 (to_hex 7 [0xdeadbeef; 0x0123456789abcdef]) = [0x0123456789abcdef; 0xdeadbeef].
Proof. vm_compute. repeat split. Qed.

Print Assumptions C09_digits_spec.
Print Assumptions C09_pad_radix_width.
Print Assumptions C09_pad_radix_min_width.
Print Assumptions C09_pad_radix_wider.
Print Assumptions C09_pad_radix_chars.
Print Assumptions C09_pad_radix_digit.
Print Assumptions C09_pad_radix_value.
Print Assumptions C09_hexval_digit_char.
Print Assumptions C09_to_hex_width.
Print Assumptions C09_total_hex_width.
Print Assumptions C09_to_bin_width.
Print Assumptions C09_to_hex_chars.
Print Assumptions C09_to_bin_chars.
Print Assumptions C09_to_bin_bits.
Print Assumptions C09_to_hex_digits.
Print Assumptions C09_big_testbit.
Print Assumptions C09_to_hex_digits_big.
Print Assumptions C09_to_bin_bits_big.
Print Assumptions C09_to_hex_value.
Print Assumptions C09_display.
Print Assumptions C09_lowerhex.
Print Assumptions C09_binary.
Print Assumptions C09_decimal.
Print Assumptions C09_from_hex_total.
Print Assumptions C09_is_hex_digit.
Print Assumptions C09_from_hex_accepts.
Print Assumptions C09_from_hex_rejects.
Print Assumptions C09_from_hex_accepts_large.
Print Assumptions C09_from_hex_accepts_small.
Print Assumptions C09_from_hex_accepted.
Print Assumptions C09_hex_chunk_slice.
Print Assumptions C09_from_hex_value.
Print Assumptions C09_from_hex_big.
Print Assumptions C09_hexval_upper.
Print Assumptions C09_roundtrip.
Print Assumptions C09_api_roundtrip.
Print Assumptions C09_rejects_char.
Print Assumptions C09_not_hex_digits.
Print Assumptions C09_rejects_length.


(* ---- soundness of the extracted checkers that decide this property's statement on the implementation's results *)
Theorem C09_checker_bytes_eqb_iff : forall a b,
  bytes_eqb a b = true <-> a = b.
Proof. exact CheckSoundText.bytes_eqb_iff. Qed.

Theorem C09_checker_spec_to_hex_eq : forall n t,
  wf n t -> spec_to_hex n t = to_hex n t.
Proof. exact CheckSoundText.spec_to_hex_eq. Qed.

Theorem C09_checker_spec_to_bin_eq : forall n t,
  wf n t -> spec_to_bin n t = to_bin n t.
Proof. exact CheckSoundText.spec_to_bin_eq. Qed.

Theorem C09_checker_spec_fmt_eq : forall n body,
  (n < 100)%nat -> spec_fmt n body = fmt_wrap n body.
Proof. exact CheckSoundText.spec_fmt_eq. Qed.

Theorem C09_checker_spec_display_eq : forall l,
  (nv l < 100)%nat -> wf (nv l) (tbl l) ->
  spec_fmt (nv l) (spec_to_hex (nv l) (tbl l)) = D_display l /\
  spec_fmt (nv l) (spec_to_hex (nv l) (tbl l)) = D_lowerhex l /\
  spec_fmt (nv l) (spec_to_bin (nv l) (tbl l)) = D_binary l /\
  spec_to_hex (nv l) (tbl l) = D_to_hex_string l /\
  spec_to_bin (nv l) (tbl l) = D_to_bin_string l.
Proof. exact CheckSoundText.spec_display_eq. Qed.

Theorem C09_checker_spec_parse_hex_some : forall n s v,
  spec_parse_hex n s = Some v <-> exists l, D_from_hex_string n s = Ok (Some l) /\ Order.big (tbl l) = v.
Proof. exact CheckSoundText.spec_parse_hex_some. Qed.

Theorem C09_checker_spec_parse_hex_none : forall n s,
  spec_parse_hex n s = None <-> D_from_hex_string n s = Ok None.
Proof. exact CheckSoundText.spec_parse_hex_none. Qed.

Theorem C09_checker_from_hex_sound : forall n s res,
  chk_from_hex n s res = true <-> D_from_hex_string n s = Ok (option_map (mkLut n) res).
Proof. exact CheckSoundText.chk_from_hex_sound. Qed.

Theorem C09_checker_from_hex_wellformed : forall n s,
  (chk_from_hex n s None = true <-> ~ hex_wellformed n s) /\
  (forall t, chk_from_hex n s (Some t) = true -> hex_wellformed n s /\ wf n t /\ hexnum s = Some (Text.big t)).
Proof. exact CheckSoundText.chk_from_hex_wellformed. Qed.

Theorem C09_checker_from_hex_roundtrip : forall n t,
  wf n t -> chk_from_hex n (spec_to_hex n t) (Some t) = true.
Proof. exact CheckSoundText.chk_from_hex_roundtrip. Qed.

Print Assumptions C09_checker_bytes_eqb_iff.
Print Assumptions C09_checker_spec_to_hex_eq.
Print Assumptions C09_checker_spec_to_bin_eq.
Print Assumptions C09_checker_spec_fmt_eq.
Print Assumptions C09_checker_spec_display_eq.
Print Assumptions C09_checker_spec_parse_hex_some.
Print Assumptions C09_checker_spec_parse_hex_none.
Print Assumptions C09_checker_from_hex_sound.
Print Assumptions C09_checker_from_hex_wellformed.
Print Assumptions C09_checker_from_hex_roundtrip.
