(* C03 - variable transforms: flip, swap, cofactors and Shannon recomposition are exact.
   For every n, every well-formed table (symbolic) and every index < n, in all three storage regimes.
   Statements only; proofs are in Proofs/Transforms.v (kernels) and Proofs/ApiTransforms.v (API layer). *)
From Coq Require Import List NArith Bool.
From V Require Proofs.ExprsTie3.  (* whole-word regimes, fill_symmetric, text widths: regenerated from the Rust source, equal the model's *)
From V Require Proofs.ExprsTie.   (* the kernels' word-level expressions, regenerated from the Rust source, equal the model's *)
From V Require Import Checkers.Check Proofs.CheckSound.   (* the extracted checkers and their soundness proofs, pinned at the end of this file *)
From V Require Import Base.Res Model.Kernels Model.Api Spec.Bfun Proofs.Transforms Proofs.ApiTransforms.
Import ListNotations.
Open Scope N_scope.

(* ---- kernels (shared by Lut and LutN) *)
Theorem C03_flip : forall n t ind, wf n t -> ind < N.of_nat n ->
  exists t', flip_inplace n t ind = Ok t' /\ wf n t' /\
             forall m, m < 2 ^ N.of_nat n -> val t' m = val t (flipbit m ind).
Proof. exact flip_sem. Qed.

Theorem C03_swap : forall n t ind1 ind2, wf n t -> ind1 < N.of_nat n -> ind2 < N.of_nat n ->
  exists t', swap_inplace n t ind1 ind2 = Ok t' /\ wf n t' /\
             forall m, m < 2 ^ N.of_nat n -> val t' m = val t (swapbits m ind1 ind2).
Proof. exact swap_sem. Qed.

Theorem C03_swap_adjacent : forall n t ind, N.of_nat n < 2 ^ 64 -> wf n t -> ind + 1 < N.of_nat n ->
  exists t', swap_adjacent_inplace n t ind = Ok t' /\ wf n t' /\
             forall m, m < 2 ^ N.of_nat n -> val t' m = val t (swapbits m ind (ind + 1)).
Proof. exact swap_adjacent_sem. Qed.

Theorem C03_cofactor0 : forall n t ind, wf n t -> ind < N.of_nat n ->
  exists t', cofactor0_inplace n t ind = Ok t' /\ wf n t' /\
             forall m, m < 2 ^ N.of_nat n -> val t' m = val t (clearbit m ind).
Proof. exact cofactor0_sem. Qed.

Theorem C03_cofactor1 : forall n t ind, wf n t -> ind < N.of_nat n ->
  exists t', cofactor1_inplace n t ind = Ok t' /\ wf n t' /\
             forall m, m < 2 ^ N.of_nat n -> val t' m = val t (setbit m ind).
Proof. exact cofactor1_sem. Qed.

Theorem C03_from_cofactors : forall n t t0 t1 ind, wf n t -> wf n t0 -> wf n t1 -> ind < N.of_nat n ->
  exists t', from_cofactors_inplace n t t0 t1 ind = Ok t' /\ wf n t' /\
             forall m, m < 2 ^ N.of_nat n -> val t' m = if N.testbit m ind then val t1 m else val t0 m.
Proof. exact from_cofactors_sem. Qed.

(* ---- API layer: copying and in-place forms of the Rust API are the same model function *)
Theorem C03_api_flip : forall l ind, lwf l -> ind < N.of_nat (nv l) ->
  exists l', D_flip l ind = Ok l' /\ nv l' = nv l /\ lwf l' /\
             forall m, m < 2 ^ N.of_nat (nv l) -> val (tbl l') m = val (tbl l) (flipbit m ind).
Proof. exact D_flip_sem. Qed.

Theorem C03_api_swap : forall l i j, lwf l -> i < N.of_nat (nv l) -> j < N.of_nat (nv l) ->
  exists l', D_swap l i j = Ok l' /\ nv l' = nv l /\ lwf l' /\
             forall m, m < 2 ^ N.of_nat (nv l) -> val (tbl l') m = val (tbl l) (swapbits m i j).
Proof. exact D_swap_sem. Qed.

Theorem C03_api_swap_adjacent : forall l ind, N.of_nat (nv l) < 2 ^ 64 -> lwf l -> ind + 1 < N.of_nat (nv l) ->
  exists l', D_swap_adjacent l ind = Ok l' /\ nv l' = nv l /\ lwf l' /\
             forall m, m < 2 ^ N.of_nat (nv l) -> val (tbl l') m = val (tbl l) (swapbits m ind (ind + 1)).
Proof. exact D_swap_adjacent_sem. Qed.

Theorem C03_api_cofactors : forall l ind, lwf l -> ind < N.of_nat (nv l) ->
  exists c0 c1, D_cofactors l ind = Ok (c0, c1) /\ nv c0 = nv l /\ nv c1 = nv l /\ lwf c0 /\ lwf c1 /\
    (forall m, m < 2 ^ N.of_nat (nv l) -> val (tbl c0) m = val (tbl l) (clearbit m ind)) /\
    (forall m, m < 2 ^ N.of_nat (nv l) -> val (tbl c1) m = val (tbl l) (setbit m ind)) /\
    (forall m, m < 2 ^ N.of_nat (nv l) -> val (tbl c0) (flipbit m ind) = val (tbl c0) m) /\
    (forall m, m < 2 ^ N.of_nat (nv l) -> val (tbl c1) (flipbit m ind) = val (tbl c1) m).
Proof. exact D_cofactors_sem. Qed.

Theorem C03_api_from_cofactors : forall c0 c1 ind, lwf c0 -> lwf c1 -> nv c0 = nv c1 -> ind < N.of_nat (nv c0) ->
  exists l, D_from_cofactors c0 c1 ind = Ok l /\ nv l = nv c0 /\ lwf l /\
            forall m, m < 2 ^ N.of_nat (nv c0) -> val (tbl l) m = if N.testbit m ind then val (tbl c1) m else val (tbl c0) m.
Proof. exact D_from_cofactors_sem. Qed.

Theorem C03_api_from_cofactors_static : forall c0 c1 ind, lwf c0 -> lwf c1 -> nv c0 = nv c1 -> ind < N.of_nat (nv c0) ->
  exists l, S_from_cofactors c0 c1 ind = Ok l /\ nv l = nv c0 /\ lwf l /\
            forall m, m < 2 ^ N.of_nat (nv c0) -> val (tbl l) m = if N.testbit m ind then val (tbl c1) m else val (tbl c0) m.
Proof. exact S_from_cofactors_sem. Qed.

(* from_cofactors(cofactors(f, i), i) = f *)
Theorem C03_shannon : forall l ind c0 c1, lwf l -> ind < N.of_nat (nv l) -> D_cofactors l ind = Ok (c0, c1) ->
  D_from_cofactors c0 c1 ind = Ok l.
Proof. exact D_shannon. Qed.

(* non-vacuity: a 7-variable table with distinct words, indices in all three regimes *)
Example C03_nonvacuous :
  lwf (mkLut 7 [0xdeadbeef; 0x0123456789abcdef]) /\
  D_swap (mkLut 7 [0xdeadbeef; 0x0123456789abcdef]) 6 2 = Ok (mkLut 7 [1166520748118761215; 9077982692559854]) /\
  D_flip (mkLut 7 [0xdeadbeef; 0x0123456789abcdef]) 6 = Ok (mkLut 7 [0x0123456789abcdef; 0xdeadbeef]).
Proof. split; [apply Proofs.Wf.wfb_wf; vm_compute; reflexivity|]. split; vm_compute; reflexivity. Qed.

Print Assumptions C03_flip.
Print Assumptions C03_swap.
Print Assumptions C03_swap_adjacent.
Print Assumptions C03_cofactor0.
Print Assumptions C03_cofactor1.
Print Assumptions C03_from_cofactors.
Print Assumptions C03_api_flip.
Print Assumptions C03_api_swap.
Print Assumptions C03_api_swap_adjacent.
Print Assumptions C03_api_cofactors.
Print Assumptions C03_api_from_cofactors.
Print Assumptions C03_api_from_cofactors_static.
Print Assumptions C03_shannon.


(* ---- soundness of the extracted checkers that decide this property's statement on the implementation's results *)
Theorem C03_checker_table_iff : forall n t f,
  chk_table n t f = true <-> wf n t /\ forall m, m < 2 ^ N.of_nat n -> val t m = f m.
Proof. exact CheckSound.chk_table_iff. Qed.

Theorem C03_checker_table_unique : forall n t t' f,
  chk_table n t f = true -> chk_table n t' f = true -> t' = t.
Proof. exact CheckSound.chk_table_unique. Qed.

Theorem C03_checker_flip_model : forall l i r,
  lwf l -> i < N.of_nat (nv l) -> D_flip l i = Ok r ->
  nv r = nv l /\ chk_table (nv l) (tbl r) (spec_flip (tbl l) i) = true.
Proof. exact CheckSound.chk_flip_model. Qed.

Theorem C03_checker_swap_model : forall l i j r,
  lwf l -> i < N.of_nat (nv l) -> j < N.of_nat (nv l) -> D_swap l i j = Ok r ->
  nv r = nv l /\ chk_table (nv l) (tbl r) (spec_swap (tbl l) i j) = true.
Proof. exact CheckSound.chk_swap_model. Qed.

Theorem C03_checker_swap_adjacent_model : forall l i r,
  N.of_nat (nv l) < 2 ^ 64 -> lwf l -> i + 1 < N.of_nat (nv l) ->
  D_swap_adjacent l i = Ok r ->
  nv r = nv l /\ chk_table (nv l) (tbl r) (spec_swap (tbl l) i (i + 1)) = true.
Proof. exact CheckSound.chk_swap_adjacent_model. Qed.

Theorem C03_checker_cofactors_model : forall l i c0 c1,
  lwf l -> i < N.of_nat (nv l) -> D_cofactors l i = Ok (c0, c1) ->
  nv c0 = nv l /\ nv c1 = nv l /\
  chk_table (nv l) (tbl c0) (spec_cof0 (tbl l) i) = true /\ chk_table (nv l) (tbl c1) (spec_cof1 (tbl l) i) = true.
Proof. exact CheckSound.chk_cofactors_model. Qed.

Theorem C03_checker_from_cofactors_model : forall c0 c1 i r,
  lwf c0 -> lwf c1 -> nv c0 = nv c1 -> i < N.of_nat (nv c0) ->
  D_from_cofactors c0 c1 i = Ok r ->
  nv r = nv c0 /\ chk_table (nv c0) (tbl r) (spec_from_cof (tbl c0) (tbl c1) i) = true.
Proof. exact CheckSound.chk_from_cofactors_model. Qed.

Theorem C03_checker_from_cofactors_static_model : forall c0 c1 i r,
  lwf c0 -> lwf c1 -> nv c0 = nv c1 -> i < N.of_nat (nv c0) ->
  S_from_cofactors c0 c1 i = Ok r ->
  nv r = nv c0 /\ chk_table (nv c0) (tbl r) (spec_from_cof (tbl c0) (tbl c1) i) = true.
Proof. exact CheckSound.chk_from_cofactors_static_model. Qed.

Theorem C03_checker_flip_kernel : forall n t i t',
  wf n t -> i < N.of_nat n -> flip_inplace n t i = Ok t' ->
  chk_table n t' (spec_flip t i) = true.
Proof. exact CheckSound.chk_flip_kernel. Qed.

Theorem C03_checker_swap_kernel : forall n t i j t',
  wf n t -> i < N.of_nat n -> j < N.of_nat n -> swap_inplace n t i j = Ok t' ->
  chk_table n t' (spec_swap t i j) = true.
Proof. exact CheckSound.chk_swap_kernel. Qed.

Theorem C03_checker_cofactor0_kernel : forall n t i t',
  wf n t -> i < N.of_nat n -> cofactor0_inplace n t i = Ok t' ->
  chk_table n t' (spec_cof0 t i) = true.
Proof. exact CheckSound.chk_cofactor0_kernel. Qed.

Theorem C03_checker_cofactor1_kernel : forall n t i t',
  wf n t -> i < N.of_nat n -> cofactor1_inplace n t i = Ok t' ->
  chk_table n t' (spec_cof1 t i) = true.
Proof. exact CheckSound.chk_cofactor1_kernel. Qed.

Theorem C03_checker_from_cofactors_kernel : forall n t t0 t1 i t',
  wf n t -> wf n t0 -> wf n t1 -> i < N.of_nat n ->
  from_cofactors_inplace n t t0 t1 i = Ok t' -> chk_table n t' (spec_from_cof t0 t1 i) = true.
Proof. exact CheckSound.chk_from_cofactors_kernel. Qed.

Print Assumptions C03_checker_table_iff.
Print Assumptions C03_checker_table_unique.
Print Assumptions C03_checker_flip_model.
Print Assumptions C03_checker_swap_model.
Print Assumptions C03_checker_swap_adjacent_model.
Print Assumptions C03_checker_cofactors_model.
Print Assumptions C03_checker_from_cofactors_model.
Print Assumptions C03_checker_from_cofactors_static_model.
Print Assumptions C03_checker_flip_kernel.
Print Assumptions C03_checker_swap_kernel.
Print Assumptions C03_checker_cofactor0_kernel.
Print Assumptions C03_checker_cofactor1_kernel.
Print Assumptions C03_checker_from_cofactors_kernel.
