(* C14 - Sop operations preserve meaning and return containment-irredundant covers.
   Statements only; proofs and the vocabulary (c32, good, sem, irredundant) are in Proofs/SopProofs.v:
     c32 c          := cpos c < 2^32 /\ cneg c < 2^32
     good c         := c32 c /\ N.land (cpos c) (cneg c) = 0
     sem cs m       := existsb (fun c => cube_value c m) cs
     irredundant cs := no zero cube, NoDup, strictly increasing for cube_cmp, and no cube implies another one *)
From Coq Require Import List NArith Bool Sorted.
From V Require Import Spec.TwoLevelCost Checkers.Check Proofs.CheckSoundTwoLevel Proofs.CheckSoundCube.   (* the extracted checkers and their soundness proofs, pinned at the end of this file *)
From V Require Proofs.ExprsTie4.   (* the bodies of sop.rs / esop.rs / soes.rs (and the remaining functions of cube.rs / ecube.rs), regenerated from the Rust source, equal the model's *)
From V Require Import Proofs.Order.
From V Require Import Base.Res Model.Kernels Model.TwoLevel Spec.Bfun Proofs.SopProofs.
Import ListNotations.
Open Scope N_scope.

(* ---- value and simplify *)
Theorem C14_value_sem : forall s m, sop_value s m = sem (scubes s) m.
Proof. exact value_sem. Qed.

Theorem C14_simplify_sem : forall cs, Forall c32 cs -> forall m, sem (sop_simplify cs) m = sem cs m.
Proof. exact simplify_sem. Qed.

Theorem C14_simplify_irredundant : forall cs, Forall c32 cs -> irredundant (sop_simplify cs).
Proof. exact simplify_irredundant. Qed.

(* stronger: irredundancy needs no hypothesis *)
Theorem C14_simplify_irredundant_gen : forall cs, irredundant (sop_simplify cs).
Proof. exact simplify_irredundant_gen. Qed.

Theorem C14_simplify_good : forall cs, Forall c32 cs -> Forall good (sop_simplify cs).
Proof. exact simplify_good. Qed.

(* ---- or, and, not *)
Theorem C14_or_sem : forall a b, snv a = snv b -> Forall c32 (scubes a) -> Forall c32 (scubes b) ->
  exists r, sop_or a b = Ok r /\ snv r = snv a /\ irredundant (scubes r) /\
            forall m, sop_value r m = sop_value a m || sop_value b m.
Proof. exact or_sem. Qed.

Theorem C14_or_mismatch : forall a b, snv a <> snv b -> sop_or a b = PanicAlways.
Proof. exact or_mismatch. Qed.

Theorem C14_and_sem : forall a b, snv a = snv b -> Forall c32 (scubes a) -> Forall c32 (scubes b) ->
  exists r, sop_and a b = Ok r /\ snv r = snv a /\ irredundant (scubes r) /\
            forall m, sop_value r m = sop_value a m && sop_value b m.
Proof. exact and_sem. Qed.

Theorem C14_and_mismatch : forall a b, snv a <> snv b -> sop_and a b = PanicAlways.
Proof. exact and_mismatch. Qed.

Theorem C14_not_sem : forall s, Forall good (scubes s) ->
  exists r, sop_not s = Ok r /\ snv r = snv s /\ irredundant (scubes r) /\
            forall m, m < 2 ^ 32 -> sop_value r m = negb (sop_value s m).
Proof. exact not_sem. Qed.

(* stronger: c32 cubes (possibly contradictory) and every assignment, with goodness of the result *)
Theorem C14_not_sem_gen : forall s, Forall c32 (scubes s) ->
  exists r, sop_not s = Ok r /\ snv r = snv s /\ irredundant (scubes r) /\ Forall good (scubes r) /\
            forall m, sop_value r m = negb (sop_value s m).
Proof. exact not_full. Qed.

(* ---- results are good: the operations compose to any nesting depth *)
Theorem C14_or_good : forall a b r, snv a = snv b -> Forall c32 (scubes a) -> Forall c32 (scubes b) ->
  sop_or a b = Ok r -> Forall good (scubes r).
Proof. exact or_good. Qed.

Theorem C14_and_good : forall a b r, snv a = snv b -> Forall c32 (scubes a) -> Forall c32 (scubes b) ->
  sop_and a b = Ok r -> Forall good (scubes r).
Proof. exact and_good. Qed.

Theorem C14_not_good : forall s r, Forall c32 (scubes s) -> sop_not s = Ok r -> Forall good (scubes r).
Proof. exact not_good. Qed.

Theorem C14_good_c32 : forall cs, Forall good cs -> Forall c32 cs.
Proof. exact Forall_good_c32. Qed.

(* ---- constants *)
Theorem C14_is_zero_exact : forall n cs, irredundant cs -> Forall c32 cs ->
  (sop_is_zero (mkSop n cs) = true <-> forall m, m < 2 ^ 32 -> sem cs m = false).
Proof. exact is_zero_exact. Qed.

Theorem C14_is_one_sound : forall s, sop_is_one s = true -> forall m, sop_value s m = true.
Proof. exact is_one_sound. Qed.

(* ---- conversion from and to truth tables *)
Theorem C14_from_lut_cubes : forall n t,
  scubes (sop_from_lut n t) = map (cube_minterm (N.of_nat n)) (filter (fun m => val t m) (assignments n)).
Proof. exact from_lut_cubes. Qed.

Theorem C14_from_lut_value : forall n t m, (n <= 32)%nat -> m < 2 ^ N.of_nat n ->
  sop_value (sop_from_lut n t) m = val t m.
Proof. exact from_lut_value. Qed.

Theorem C14_from_lut_good : forall n t, (n <= 32)%nat -> Forall good (scubes (sop_from_lut n t)).
Proof. exact from_lut_good. Qed.

Theorem C14_to_lut_sem : forall s,
  wf (snv s) (sop_to_lut s) /\ forall m, m < 2 ^ N.of_nat (snv s) -> val (sop_to_lut s) m = sop_value s m.
Proof. exact to_lut_sem. Qed.

(* the extensionality of well-formed tables is a premise here (proved elsewhere, to be instantiated) *)
Theorem C14_roundtrip :
  (forall n a b, wf n a -> wf n b -> (forall m, m < 2 ^ N.of_nat n -> val a m = val b m) -> a = b) ->
  forall n t, (n <= 32)%nat -> wf n t -> sop_to_lut (sop_from_lut n t) = t.
Proof. exact roundtrip. Qed.

(* the hypotheses are satisfiable by non-trivial instances *)
(* simplify / or / and: c32 covers with a contradictory cube, a duplicate and implied cubes *)
Example C14_nonvacuous_ops :
  let a := mkSop 3 [mkCube 1 2; mkCube 1 0; mkCube 3 3; mkCube 4 2; mkCube 1 2; mkCube 5 2] in
  let b := mkSop 3 [mkCube 2 1; mkCube 0 4] in
  snv a = snv b /\ Forall c32 (scubes a) /\ Forall c32 (scubes b) /\
  sop_simplify (scubes a) = [mkCube 1 0; mkCube 4 2] /\
  sop_or a b = Ok (mkSop 3 [mkCube 0 4; mkCube 1 0; mkCube 2 1; mkCube 4 2]) /\
  sop_and a b = Ok (mkSop 3 [mkCube 1 4]).
Proof.
  cbv zeta. split; [reflexivity|]. split; [repeat (constructor; [split; reflexivity|]); constructor|].
  split; [repeat (constructor; [split; reflexivity|]); constructor|].
  split; [vm_compute; reflexivity|]. split; vm_compute; reflexivity.
Qed.

(* not: a good cover with three cubes *)
Example C14_nonvacuous_not :
  Forall good [mkCube 1 2; mkCube 4 2; mkCube 0 5] /\
  sop_not (mkSop 3 [mkCube 1 2; mkCube 4 2; mkCube 0 5]) = Ok (mkSop 3 [mkCube 3 0; mkCube 6 0]).
Proof.
  split; [repeat (constructor; [split; [split; reflexivity|reflexivity]|]); constructor|].
  vm_compute. reflexivity.
Qed.

(* is_zero: an irredundant c32 cover with several cubes *)
Example C14_nonvacuous_zero :
  irredundant [mkCube 0 4; mkCube 1 0; mkCube 2 1; mkCube 4 2] /\
  Forall c32 [mkCube 0 4; mkCube 1 0; mkCube 2 1; mkCube 4 2].
Proof.
  split; [|repeat (constructor; [split; reflexivity|]); constructor].
  assert (E : sop_simplify [mkCube 1 2; mkCube 1 0; mkCube 3 3; mkCube 4 2; mkCube 2 1; mkCube 0 4] =
              [mkCube 0 4; mkCube 1 0; mkCube 2 1; mkCube 4 2]) by (vm_compute; reflexivity).
  rewrite <- E. apply simplify_irredundant_gen.
Qed.

(* tables: the majority function on three variables *)
Example C14_nonvacuous_lut :
  (3 <= 32)%nat /\ wf 3 [0xe8] /\ sop_to_lut (sop_from_lut 3 [0xe8]) = [0xe8] /\
  scubes (sop_from_lut 3 [0xe8]) = [mkCube 3 4; mkCube 5 2; mkCube 6 1; mkCube 7 0].
Proof.
  split; [repeat constructor|]. split; [apply Proofs.Wf.wfb_wf; vm_compute; reflexivity|].
  split; vm_compute; reflexivity.
Qed.

(* the extensionality premise of C14_roundtrip discharged with Proofs/Order.v (wf_ext) *)
Theorem C14_roundtrip_closed : forall n t, (n <= 32)%nat -> wf n t -> sop_to_lut (sop_from_lut n t) = t.
Proof. exact (C14_roundtrip (fun n a b Ha Hb H => proj2 (wf_ext n a b Ha Hb) H)). Qed.

Print Assumptions C14_value_sem.
Print Assumptions C14_simplify_sem.
Print Assumptions C14_simplify_irredundant.
Print Assumptions C14_simplify_irredundant_gen.
Print Assumptions C14_simplify_good.
Print Assumptions C14_or_sem.
Print Assumptions C14_or_mismatch.
Print Assumptions C14_and_sem.
Print Assumptions C14_and_mismatch.
Print Assumptions C14_not_sem.
Print Assumptions C14_not_sem_gen.
Print Assumptions C14_or_good.
Print Assumptions C14_and_good.
Print Assumptions C14_not_good.
Print Assumptions C14_good_c32.
Print Assumptions C14_is_zero_exact.
Print Assumptions C14_is_one_sound.
Print Assumptions C14_from_lut_cubes.
Print Assumptions C14_from_lut_value.
Print Assumptions C14_from_lut_good.
Print Assumptions C14_to_lut_sem.
Print Assumptions C14_roundtrip.
Print Assumptions C14_roundtrip_closed.


(* ---- soundness of the extracted checkers that decide this property's statement on the implementation's results *)
Theorem C14_checker_strictly_sorted_iff : forall cs,
  strictly_sorted cs = true <-> StronglySorted (fun a b => cube_cmp a b = Lt) cs.
Proof. exact CheckSoundTwoLevel.strictly_sorted_iff. Qed.

Theorem C14_checker_irredundantb_iff : forall n cs,
  irredundantb n cs = true <-> Forall (fun c => cube_good n c = true) cs /\ SopProofs.irredundant cs.
Proof. exact CheckSoundTwoLevel.irredundantb_iff. Qed.

Theorem C14_checker_sop_result_iff : forall n r f,
  chk_sop_result n r f = true <->
  irredundantb n r = true /\ forall m, m < 2 ^ N.of_nat n -> sem_or r m = f m.
Proof. exact CheckSoundTwoLevel.chk_sop_result_iff. Qed.

Theorem C14_checker_sop_result_spec : forall n r f,
  chk_sop_result n r f = true <->
  Forall (fun c => cube_good n c = true) r /\ SopProofs.irredundant r /\
  forall m, m < 2 ^ N.of_nat n -> SopProofs.sem r m = f m.
Proof. exact CheckSoundTwoLevel.chk_sop_result_spec. Qed.

Theorem C14_checker_sop_or_model : forall a b r,
  snv a = snv b ->
  Forall SopProofs.c32 (scubes a) -> Forall SopProofs.c32 (scubes b) ->
  Forall (cube_below (snv a)) (scubes a) -> Forall (cube_below (snv a)) (scubes b) ->
  sop_or a b = Ok r ->
  snv r = snv a /\ chk_sop_result (snv a) (scubes r) (fun m => sop_value a m || sop_value b m) = true.
Proof. exact CheckSoundTwoLevel.chk_sop_or_model. Qed.

Theorem C14_checker_sop_and_model : forall a b r,
  snv a = snv b ->
  Forall SopProofs.c32 (scubes a) -> Forall SopProofs.c32 (scubes b) ->
  Forall (cube_below (snv a)) (scubes a) -> Forall (cube_below (snv a)) (scubes b) ->
  sop_and a b = Ok r ->
  snv r = snv a /\ chk_sop_result (snv a) (scubes r) (fun m => sop_value a m && sop_value b m) = true.
Proof. exact CheckSoundTwoLevel.chk_sop_and_model. Qed.

Theorem C14_checker_sop_not_model : forall s r,
  Forall SopProofs.c32 (scubes s) -> Forall (cube_below (snv s)) (scubes s) ->
  sop_not s = Ok r ->
  snv r = snv s /\ chk_sop_result (snv s) (scubes r) (fun m => negb (sop_value s m)) = true.
Proof. exact CheckSoundTwoLevel.chk_sop_not_model. Qed.

Theorem C14_checker_sop_from_lut_iff : forall n t r,
  (n <= 32)%nat ->
  (chk_sop_from_lut n t r = true <-> r = scubes (sop_from_lut n t)).
Proof. exact CheckSoundTwoLevel.chk_sop_from_lut_iff. Qed.

Theorem C14_checker_sop_from_lut_sound : forall n t r,
  (n <= 32)%nat -> chk_sop_from_lut n t r = true ->
  Forall SopProofs.good r /\ forall m, m < 2 ^ N.of_nat n -> sem_or r m = val t m.
Proof. exact CheckSoundTwoLevel.chk_sop_from_lut_sound. Qed.

Theorem C14_checker_spec_sop_value_model : forall s m,
  Forall CubeProofs.c32 (scubes s) -> spec_sop_value (scubes s) m = sop_value s m.
Proof. exact CheckSoundCube.spec_sop_value_model. Qed.

Theorem C14_checker_text_sop : forall s ms,
  Forall CubeProofs.c32 (scubes s) ->
  chk_text (sop_display s) (spec_sop_value (scubes s)) ms false = true.
Proof. exact CheckSoundCube.chk_text_sop. Qed.

Print Assumptions C14_checker_strictly_sorted_iff.
Print Assumptions C14_checker_irredundantb_iff.
Print Assumptions C14_checker_sop_result_iff.
Print Assumptions C14_checker_sop_result_spec.
Print Assumptions C14_checker_sop_or_model.
Print Assumptions C14_checker_sop_and_model.
Print Assumptions C14_checker_sop_not_model.
Print Assumptions C14_checker_sop_from_lut_iff.
Print Assumptions C14_checker_sop_from_lut_sound.
Print Assumptions C14_checker_spec_sop_value_model.
Print Assumptions C14_checker_text_sop.
