(* C01 - logical operators are exact pointwise Boolean operations.
   Statements only; proofs are in Proofs/Logic.v. *)
From Coq Require Import List NArith Bool.
From V Require Import Base.Res Model.Kernels Model.Api Spec.Bfun Proofs.Logic.
Import ListNotations.
Open Scope N_scope.

Theorem C01_and : forall n a b, wf n a -> wf n b ->
  exists c, and_inplace a b = Ok c /\ wf n c /\ forall m, val c m = val a m && val b m.
Proof. exact and_sem. Qed.

Theorem C01_or : forall n a b, wf n a -> wf n b ->
  exists c, or_inplace a b = Ok c /\ wf n c /\ forall m, val c m = val a m || val b m.
Proof. exact or_sem. Qed.

Theorem C01_xor : forall n a b, wf n a -> wf n b ->
  exists c, xor_inplace a b = Ok c /\ wf n c /\ forall m, val c m = xorb (val a m) (val b m).
Proof. exact xor_sem. Qed.

Theorem C01_not : forall n a, wf n a ->
  wf n (not_inplace n a) /\
  (forall m, m < 2 ^ N.of_nat n -> val (not_inplace n a) m = negb (val a m)) /\
  (forall m, 2 ^ N.of_nat n <= m -> val (not_inplace n a) m = false).
Proof. exact not_sem. Qed.

Theorem C01_api_and : forall a b, wf (nv a) (tbl a) -> wf (nv b) (tbl b) -> nv a = nv b ->
  exists c, D_and a b = Ok c /\ nv c = nv a /\ wf (nv c) (tbl c) /\
            forall m, val (tbl c) m = val (tbl a) m && val (tbl b) m.
Proof. exact D_and_sem. Qed.

Theorem C01_api_or : forall a b, wf (nv a) (tbl a) -> wf (nv b) (tbl b) -> nv a = nv b ->
  exists c, D_or a b = Ok c /\ nv c = nv a /\ wf (nv c) (tbl c) /\
            forall m, val (tbl c) m = val (tbl a) m || val (tbl b) m.
Proof. exact D_or_sem. Qed.

Theorem C01_api_xor : forall a b, wf (nv a) (tbl a) -> wf (nv b) (tbl b) -> nv a = nv b ->
  exists c, D_xor a b = Ok c /\ nv c = nv a /\ wf (nv c) (tbl c) /\
            forall m, val (tbl c) m = xorb (val (tbl a) m) (val (tbl b) m).
Proof. exact D_xor_sem. Qed.

Theorem C01_api_not : forall a, wf (nv a) (tbl a) ->
  exists c, D_not a = Ok c /\ nv c = nv a /\ wf (nv c) (tbl c) /\
            forall m, m < 2 ^ N.of_nat (nv a) -> val (tbl c) m = negb (val (tbl a) m).
Proof. exact D_not_sem. Qed.

Theorem C01_size_guard : forall a b, nv a <> nv b ->
  D_and a b = PanicAlways /\ D_or a b = PanicAlways /\ D_xor a b = PanicAlways.
Proof. exact D_binop_size_guard. Qed.

(* the hypotheses are satisfiable by a non-trivial instance: a 7-variable table with two distinct words *)
Example C01_nonvacuous : wf 7 [0xdeadbeef; 0x0123456789abcdef] /\ wf 3 [0xe8].
Proof. split; apply Proofs.Wf.wfb_wf; vm_compute; reflexivity. Qed.

Print Assumptions C01_and.
Print Assumptions C01_or.
Print Assumptions C01_xor.
Print Assumptions C01_not.
Print Assumptions C01_api_and.
Print Assumptions C01_api_or.
Print Assumptions C01_api_xor.
Print Assumptions C01_api_not.
Print Assumptions C01_size_guard.
