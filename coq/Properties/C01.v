(* C01 - logical operators are exact pointwise Boolean operations.
   Statements only; proofs are in Proofs/Logic.v. *)
From Coq Require Import List NArith Bool.
From V Require Proofs.ExprsTie.   (* the kernels' word-level expressions, regenerated from the Rust source, equal the model's *)
From V Require Import Checkers.Check Proofs.CheckSound.   (* the extracted checkers and their soundness proofs, pinned at the end of this file *)
From V Require Import Base.Res Model.Kernels Model.Api Spec.Bfun Proofs.Logic.
Import ListNotations.
Open Scope N_scope.

Theorem C01_and : forall n a b, wf n a -> wf n b ->
  exists c, and_inplace a b = Ok c /\ wf n c /\ forall m, val c m = val a m && val b m.
Proof. exact and_sem. Qed.

Theorem C01_or : forall n a b, wf n a -> wf n b ->
  exists c, or_inplace a b = Ok c /\ wf n c /\ forall m, val c m = val a m || val b m.
Proof. exact or_sem. Qed.

Theorem C01_xor : forall n a b, wf n a -> wf n b ->
  exists c, xor_inplace a b = Ok c /\ wf n c /\ forall m, val c m = xorb (val a m) (val b m).
Proof. exact xor_sem. Qed.

Theorem C01_not : forall n a, wf n a ->
  wf n (not_inplace n a) /\
  (forall m, m < 2 ^ N.of_nat n -> val (not_inplace n a) m = negb (val a m)) /\
  (forall m, 2 ^ N.of_nat n <= m -> val (not_inplace n a) m = false).
Proof. exact not_sem. Qed.

Theorem C01_api_and : forall a b, wf (nv a) (tbl a) -> wf (nv b) (tbl b) -> nv a = nv b ->
  exists c, D_and a b = Ok c /\ nv c = nv a /\ wf (nv c) (tbl c) /\
            forall m, val (tbl c) m = val (tbl a) m && val (tbl b) m.
Proof. exact D_and_sem. Qed.

Theorem C01_api_or : forall a b, wf (nv a) (tbl a) -> wf (nv b) (tbl b) -> nv a = nv b ->
  exists c, D_or a b = Ok c /\ nv c = nv a /\ wf (nv c) (tbl c) /\
            forall m, val (tbl c) m = val (tbl a) m || val (tbl b) m.
Proof. exact D_or_sem. Qed.

Theorem C01_api_xor : forall a b, wf (nv a) (tbl a) -> wf (nv b) (tbl b) -> nv a = nv b ->
  exists c, D_xor a b = Ok c /\ nv c = nv a /\ wf (nv c) (tbl c) /\
            forall m, val (tbl c) m = xorb (val (tbl a) m) (val (tbl b) m).
Proof. exact D_xor_sem. Qed.

Theorem C01_api_not : forall a, wf (nv a) (tbl a) ->
  exists c, D_not a = Ok c /\ nv c = nv a /\ wf (nv c) (tbl c) /\
            forall m, m < 2 ^ N.of_nat (nv a) -> val (tbl c) m = negb (val (tbl a) m).
Proof. exact D_not_sem. Qed.

Theorem C01_size_guard : forall a b, nv a <> nv b ->
  D_and a b = PanicAlways /\ D_or a b = PanicAlways /\ D_xor a b = PanicAlways.
Proof. exact D_binop_size_guard. Qed.

(* the hypotheses are satisfiable by a non-trivial instance: a 7-variable table with two distinct words *)
Example C01_nonvacuous : wf 7 [0xdeadbeef; 0x0123456789abcdef] /\ wf 3 [0xe8].
Proof. split; apply Proofs.Wf.wfb_wf; vm_compute; reflexivity. Qed.

Print Assumptions C01_and.
Print Assumptions C01_or.
Print Assumptions C01_xor.
Print Assumptions C01_not.
Print Assumptions C01_api_and.
Print Assumptions C01_api_or.
Print Assumptions C01_api_xor.
Print Assumptions C01_api_not.
Print Assumptions C01_size_guard.


(* ---- the operator surface, on the data REGENERATED FROM THE RUST SOURCE on every run (Gen/Surface.v: trait impls;
        Gen/Guards.v: the ordered syntactic events of every body).  Definitions, pinned tables' proofs and negative
        examples are in Proofs/Surface10.v.
        required_forms T = for OP in BitAnd, BitOr, BitXor:  OP<T> for T, OP<&T> for T, OP<T> for &T, OP<&T> for &T,
                           OPAssign<T> for T, OPAssign<&T> for T;  Not for T, Not for &T      (20 forms per type)
        must_reach fs fuel [] f k = some event of the body of f leads to `Call k`: directly, or through a compound
                           assignment `&= |= ^=` ALL of whose candidate impls (OPAssign<T> / OPAssign<&T> of the same
                           type, the ones already on the call stack excepted, at least one) must-reach k, or through the
                           inherent method of the same type that it calls
        may_reach          the over-approximation (any event, any candidate; out of fuel counts as reached)
        reached fs f     = the kernels among and_inplace, or_inplace, xor_inplace, not_inplace that f may-reach *)
From Coq Require Import String.
From V Require Import Gen.Guards Gen.Surface Proofs.Guards17 Proofs.Surface10.
Open Scope nat_scope.
Open Scope string_scope.

(* every syntactic form of & | ^ ! (and of &= |= ^=) exists for Lut and for StaticLut, with exactly its one method *)
Theorem C01_forms_complete :
  forallb (fun T => forallb (form_present trait_impls T) (required_forms T)) ["Lut"; "StaticLut"] = true.
Proof. exact s10_forms_complete. Qed.

(* and there is no other logical-operator impl for these types: no stray generic argument, no duplicate *)
Theorem C01_forms_exact :
  forallb (fun T =>
    forallb (fun fm => existsb (form_eqb fm) (required_forms T)) (logic_impls_of trait_impls T) &&
    Nat.eqb (List.length (logic_impls_of trait_impls T)) (List.length (required_forms T))) ["Lut"; "StaticLut"] = true.
Proof. exact s10_forms_exact. Qed.

Theorem C01_forms_count :
  map (fun T => (T, List.length (required_forms T), List.length (logic_impls_of trait_impls T))) ["Lut"; "StaticLut"] =
  [("Lut", 20, 20); ("StaticLut", 20, 20)].
Proof. exact s10_forms_count. Qed.

Theorem C01_forms_table :
  logic_impls_of trait_impls "Lut" =
  [ ("Not", "&Lut", "not"); ("Not", "Lut", "not");
    ("BitAndAssign<&Lut>", "Lut", "bitand_assign"); ("BitAndAssign<Lut>", "Lut", "bitand_assign");
    ("BitAnd<Lut>", "Lut", "bitand"); ("BitAnd<Lut>", "&Lut", "bitand");
    ("BitAnd<&Lut>", "&Lut", "bitand"); ("BitAnd<&Lut>", "Lut", "bitand");
    ("BitOrAssign<&Lut>", "Lut", "bitor_assign"); ("BitOrAssign<Lut>", "Lut", "bitor_assign");
    ("BitOr<Lut>", "Lut", "bitor"); ("BitOr<Lut>", "&Lut", "bitor");
    ("BitOr<&Lut>", "&Lut", "bitor"); ("BitOr<&Lut>", "Lut", "bitor");
    ("BitXorAssign<&Lut>", "Lut", "bitxor_assign"); ("BitXorAssign<Lut>", "Lut", "bitxor_assign");
    ("BitXor<Lut>", "Lut", "bitxor"); ("BitXor<Lut>", "&Lut", "bitxor");
    ("BitXor<&Lut>", "&Lut", "bitxor"); ("BitXor<&Lut>", "Lut", "bitxor") ] /\
  logic_impls_of trait_impls "StaticLut" =
  [ ("Not", "StaticLut", "not"); ("Not", "&StaticLut", "not");
    ("BitAndAssign<StaticLut>", "StaticLut", "bitand_assign"); ("BitAndAssign<&StaticLut>", "StaticLut", "bitand_assign");
    ("BitAnd<StaticLut>", "StaticLut", "bitand"); ("BitAnd<&StaticLut>", "StaticLut", "bitand");
    ("BitAnd<StaticLut>", "&StaticLut", "bitand"); ("BitAnd<&StaticLut>", "&StaticLut", "bitand");
    ("BitOrAssign<StaticLut>", "StaticLut", "bitor_assign"); ("BitOrAssign<&StaticLut>", "StaticLut", "bitor_assign");
    ("BitOr<StaticLut>", "StaticLut", "bitor"); ("BitOr<&StaticLut>", "StaticLut", "bitor");
    ("BitOr<StaticLut>", "&StaticLut", "bitor"); ("BitOr<&StaticLut>", "&StaticLut", "bitor");
    ("BitXorAssign<StaticLut>", "StaticLut", "bitxor_assign"); ("BitXorAssign<&StaticLut>", "StaticLut", "bitxor_assign");
    ("BitXor<StaticLut>", "StaticLut", "bitxor"); ("BitXor<&StaticLut>", "StaticLut", "bitxor");
    ("BitXor<StaticLut>", "&StaticLut", "bitxor"); ("BitXor<&StaticLut>", "&StaticLut", "bitxor") ].
Proof. exact s10_forms_table. Qed.

(* the two generated files agree: each required form has exactly one body in Gen.Guards.functions; 40 bodies *)
Theorem C01_forms_have_bodies :
  forallb (fun T => forallb (fun fm => Nat.eqb (List.length (form_body functions fm)) 1) (required_forms T))
          ["Lut"; "StaticLut"] = true /\
  List.length (filter is_logic_impl functions) = 40.
Proof. exact s10_forms_have_bodies. Qed.

(* every one of the 40 bodies forwards to the kernel of ITS operator and can reach no other logical kernel *)
Theorem C01_operators_forward : operators_forward functions = true.
Proof. exact s10_operators_forward. Qed.

Theorem C01_operator_forwards_spec : forall f, In f functions -> is_logic_impl f = true ->
  exists k, kernel_of_trait (fi_trait f) = Some k /\
            must_reach functions reach_fuel [] f k = true /\
            (forall k', In k' logic_kernels -> may_reach functions reach_fuel [] f k' = true -> k' = k).
Proof. exact s10_operator_forwards_spec. Qed.

Theorem C01_operator_table :
  map (fun f => (fi_trait f, fi_impl f, reached functions f)) (filter is_logic_impl functions) =
  [ ("Not", "&Lut", ["not_inplace"]); ("Not", "Lut", ["not_inplace"]);
    ("BitAndAssign<&Lut>", "Lut", ["and_inplace"]); ("BitAndAssign<Lut>", "Lut", ["and_inplace"]);
    ("BitAnd<Lut>", "Lut", ["and_inplace"]); ("BitAnd<Lut>", "&Lut", ["and_inplace"]);
    ("BitAnd<&Lut>", "&Lut", ["and_inplace"]); ("BitAnd<&Lut>", "Lut", ["and_inplace"]);
    ("BitOrAssign<&Lut>", "Lut", ["or_inplace"]); ("BitOrAssign<Lut>", "Lut", ["or_inplace"]);
    ("BitOr<Lut>", "Lut", ["or_inplace"]); ("BitOr<Lut>", "&Lut", ["or_inplace"]);
    ("BitOr<&Lut>", "&Lut", ["or_inplace"]); ("BitOr<&Lut>", "Lut", ["or_inplace"]);
    ("BitXorAssign<&Lut>", "Lut", ["xor_inplace"]); ("BitXorAssign<Lut>", "Lut", ["xor_inplace"]);
    ("BitXor<Lut>", "Lut", ["xor_inplace"]); ("BitXor<Lut>", "&Lut", ["xor_inplace"]);
    ("BitXor<&Lut>", "&Lut", ["xor_inplace"]); ("BitXor<&Lut>", "Lut", ["xor_inplace"]);
    ("Not", "StaticLut", ["not_inplace"]); ("Not", "&StaticLut", ["not_inplace"]);
    ("BitAndAssign<StaticLut>", "StaticLut", ["and_inplace"]); ("BitAndAssign<&StaticLut>", "StaticLut", ["and_inplace"]);
    ("BitAnd<StaticLut>", "StaticLut", ["and_inplace"]); ("BitAnd<&StaticLut>", "StaticLut", ["and_inplace"]);
    ("BitAnd<StaticLut>", "&StaticLut", ["and_inplace"]); ("BitAnd<&StaticLut>", "&StaticLut", ["and_inplace"]);
    ("BitOrAssign<StaticLut>", "StaticLut", ["or_inplace"]); ("BitOrAssign<&StaticLut>", "StaticLut", ["or_inplace"]);
    ("BitOr<StaticLut>", "StaticLut", ["or_inplace"]); ("BitOr<&StaticLut>", "StaticLut", ["or_inplace"]);
    ("BitOr<StaticLut>", "&StaticLut", ["or_inplace"]); ("BitOr<&StaticLut>", "&StaticLut", ["or_inplace"]);
    ("BitXorAssign<StaticLut>", "StaticLut", ["xor_inplace"]); ("BitXorAssign<&StaticLut>", "StaticLut", ["xor_inplace"]);
    ("BitXor<StaticLut>", "StaticLut", ["xor_inplace"]); ("BitXor<&StaticLut>", "StaticLut", ["xor_inplace"]);
    ("BitXor<StaticLut>", "&StaticLut", ["xor_inplace"]); ("BitXor<&StaticLut>", "&StaticLut", ["xor_inplace"]) ].
Proof. exact s10_operator_table. Qed.

(* the named methods and / or / xor / not and their _inplace forms, of both types, are public and do the same *)
Theorem C01_named_methods_forward : named_methods_forward functions = true.
Proof. exact s10_named_methods_forward. Qed.

Theorem C01_named_table :
  flat_map (fun T => map (fun mk =>
     (T, fst mk, match find_method functions T (fst mk) with Some f => reached functions f | None => ["<missing>"] end))
     named_logic_methods) ["Lut"; "StaticLut"] =
  [ ("Lut", "and", ["and_inplace"]); ("Lut", "or", ["or_inplace"]); ("Lut", "xor", ["xor_inplace"]);
    ("Lut", "not", ["not_inplace"]); ("Lut", "and_inplace", ["and_inplace"]); ("Lut", "or_inplace", ["or_inplace"]);
    ("Lut", "xor_inplace", ["xor_inplace"]); ("Lut", "not_inplace", ["not_inplace"]);
    ("StaticLut", "and", ["and_inplace"]); ("StaticLut", "or", ["or_inplace"]); ("StaticLut", "xor", ["xor_inplace"]);
    ("StaticLut", "not", ["not_inplace"]); ("StaticLut", "and_inplace", ["and_inplace"]);
    ("StaticLut", "or_inplace", ["or_inplace"]); ("StaticLut", "xor_inplace", ["xor_inplace"]);
    ("StaticLut", "not_inplace", ["not_inplace"]) ].
Proof. exact s10_named_table. Qed.

(* the four kernels are free functions of operations.rs and each applies the operator it is named after
   (and_inplace: only `&=`, or_inplace: only `|=`, xor_inplace: only `^=`, not_inplace: none of them);
   C01_and / C01_or / C01_xor / C01_not above are about these four functions *)
Theorem C01_kernels_use_their_symbol : kernels_use_their_symbol functions = true.
Proof. exact s10_kernels_use_their_symbol. Qed.

(* the predicates discriminate: `&a | &b` written with `&=`, and `Lut::not` without its kernel, are rejected *)
Example C01_surface_predicates_discriminate :
  (let fs := edit "&Lut" "BitOr<&Lut>" "bitor" (with_events [Method "clone"; OpAssign "&="]) functions in
   operators_forward fs = false /\ operators_failing fs = [("BitOr<&Lut>", "&Lut")]) /\
  forms_complete (drop_impl "BitXor<&StaticLut>" "StaticLut" trait_impls) = false.
Proof. exact (conj neg_or_uses_and (proj1 neg_form_missing)). Qed.

Print Assumptions C01_forms_complete.
Print Assumptions C01_forms_exact.
Print Assumptions C01_forms_count.
Print Assumptions C01_forms_table.
Print Assumptions C01_forms_have_bodies.
Print Assumptions C01_operators_forward.
Print Assumptions C01_operator_forwards_spec.
Print Assumptions C01_operator_table.
Print Assumptions C01_named_methods_forward.
Print Assumptions C01_named_table.
Print Assumptions C01_kernels_use_their_symbol.


(* ---- soundness of the extracted checkers that decide this property's statement on the implementation's results *)
Open Scope N_scope.
Theorem C01_checker_table_iff : forall n t f,
  chk_table n t f = true <-> wf n t /\ forall m, m < 2 ^ N.of_nat n -> val t m = f m.
Proof. exact CheckSound.chk_table_iff. Qed.

Theorem C01_checker_table_false : forall n t f,
  chk_table n t f = false <-> ~ (wf n t /\ forall m, m < 2 ^ N.of_nat n -> val t m = f m).
Proof. exact CheckSound.chk_table_false. Qed.

Theorem C01_checker_table_unique : forall n t t' f,
  chk_table n t f = true -> chk_table n t' f = true -> t' = t.
Proof. exact CheckSound.chk_table_unique. Qed.

Theorem C01_checker_and_model : forall a b r,
  wf (nv a) (tbl a) -> wf (nv b) (tbl b) -> nv a = nv b -> D_and a b = Ok r ->
  nv r = nv a /\ chk_table (nv a) (tbl r) (spec_and (tbl a) (tbl b)) = true.
Proof. exact CheckSound.chk_and_model. Qed.

Theorem C01_checker_or_model : forall a b r,
  wf (nv a) (tbl a) -> wf (nv b) (tbl b) -> nv a = nv b -> D_or a b = Ok r ->
  nv r = nv a /\ chk_table (nv a) (tbl r) (spec_or (tbl a) (tbl b)) = true.
Proof. exact CheckSound.chk_or_model. Qed.

Theorem C01_checker_xor_model : forall a b r,
  wf (nv a) (tbl a) -> wf (nv b) (tbl b) -> nv a = nv b -> D_xor a b = Ok r ->
  nv r = nv a /\ chk_table (nv a) (tbl r) (spec_xor (tbl a) (tbl b)) = true.
Proof. exact CheckSound.chk_xor_model. Qed.

Theorem C01_checker_not_model : forall a r,
  wf (nv a) (tbl a) -> D_not a = Ok r ->
  nv r = nv a /\ chk_table (nv a) (tbl r) (spec_not (tbl a)) = true.
Proof. exact CheckSound.chk_not_model. Qed.

Theorem C01_checker_and_kernel : forall n a b c,
  wf n a -> wf n b -> and_inplace a b = Ok c -> chk_table n c (spec_and a b) = true.
Proof. exact CheckSound.chk_and_kernel. Qed.

Theorem C01_checker_or_kernel : forall n a b c,
  wf n a -> wf n b -> or_inplace a b = Ok c -> chk_table n c (spec_or a b) = true.
Proof. exact CheckSound.chk_or_kernel. Qed.

Theorem C01_checker_xor_kernel : forall n a b c,
  wf n a -> wf n b -> xor_inplace a b = Ok c -> chk_table n c (spec_xor a b) = true.
Proof. exact CheckSound.chk_xor_kernel. Qed.

Theorem C01_checker_not_kernel : forall n a,
  wf n a -> chk_table n (not_inplace n a) (spec_not a) = true.
Proof. exact CheckSound.chk_not_kernel. Qed.

Print Assumptions C01_checker_table_iff.
Print Assumptions C01_checker_table_false.
Print Assumptions C01_checker_table_unique.
Print Assumptions C01_checker_and_model.
Print Assumptions C01_checker_or_model.
Print Assumptions C01_checker_xor_model.
Print Assumptions C01_checker_not_model.
Print Assumptions C01_checker_and_kernel.
Print Assumptions C01_checker_or_kernel.
Print Assumptions C01_checker_xor_kernel.
Print Assumptions C01_checker_not_kernel.
