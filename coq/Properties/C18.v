(* C18 - the 0-1 programmes built by the MIP two-level optimizers (optimize_sop_mip, optimize_esop_mip,
   optimize_sopes_mip) are ADEQUATE.
   The numerical solver is a parameter [solver : program -> option (nat -> Q)] of the model (Model/Mip.v); what is
   proved is volute's own logic:
     1. the programme is built without panic on every instance of the stated size, and its candidate cubes are
        characterised;
     2. decoding is sound for ANY feasible point (no hypothesis on the solver): the decoded forms are valid
        (proper duplicate-free cubes, denoting each function on every assignment) and their cost is at most the
        objective (objective in half units, hence the factor 2);
     3. encoding is complete: every valid two-level solution is a feasible point whose objective is its cost;
     4. whatever the solver returns, an Ok result is a valid solution;
     5. if the solver returns an optimum of the programme it is given, the result exists, is valid and of minimum
        cost among all valid solutions (Spec/TwoLevelCost.v).
   The hypothesis [solver_optimal] of Model/Mip.v ranges over ALL programmes, including unbounded ones, and is
   satisfied by no solver (C18_solver_optimal_unsatisfiable); the optimality theorems therefore assume
   [solver_optimal_on solver p] (Proofs/MipBase.v: the same two clauses, for the single programme [p] that is
   built), which is shown satisfiable by a concrete solver on a concrete programme in the Examples.
   For optimize_sopes_mip (xor_cost >= 1) exclusive cubes with fewer than two literals are not candidates (they
   are representable as cubes at no greater cost), so statement 3 is an inequality: every valid solution has a
   feasible point whose objective is AT MOST its cost; statements 1, 2, 4, 5 are as for SOP.
   Statements only; proofs are in Proofs/MipBase.v, MipCore.v, MipSop.v, MipEsop.v, MipGen.v, MipSopes.v. *)
From Coq Require Import List NArith ZArith QArith Arith Bool Lia Lqa.
From V Require Import Checkers.Check Proofs.CheckSoundTwoLevel.   (* the extracted checkers and their soundness proofs, pinned at the end of this file *)
From V Require Import Base.Res Model.Kernels Model.TwoLevel Model.Api Model.Mip Spec.Bfun Spec.TwoLevelCost.
From V Require Import Proofs.MipBase Proofs.MipSop Proofs.MipEsop Proofs.MipSopes.
Import ListNotations.
Open Scope nat_scope.

(* ---- the global solver hypothesis of Model/Mip.v cannot be met *)
Theorem C18_solver_optimal_unsatisfiable : forall solver, ~ solver_optimal solver.
Proof. exact solver_optimal_unsatisfiable. Qed.

(* ---- SOP (optimize_sop_mip: xor_cost = -1, no exclusive cubes) *)
Theorem C18_sop_program_ok : forall n fs and_cost or_cost,
  n <= 31 -> Forall (fun f => nv f = n) fs -> (1 <= and_cost)%Z -> (1 <= or_cost)%Z ->
  (2 * Z.of_nat n * and_cost <= i32_max)%Z ->
  exists p cubes, sop_program fs and_cost (-1) or_cost = Ok (p, cubes, []) /\ NoDup cubes /\
    forall c, In c cubes <-> (cube_good n c = true /\ exists f, In f fs /\ cube_implies_lut c n (tbl f) = true).
Proof. exact sop_program_ok_final. Qed.

Theorem C18_sop_decode_sound : forall n fs and_cost or_cost p cubes x,
  Forall (fun f => nv f = n) fs -> sop_program fs and_cost (-1) or_cost = Ok (p, cubes, []) -> feasible p x ->
  let sol := map (fun j => fst (sop_decode_fn fs cubes [] x j)) (seq 0 (length fs)) in
  sop_solution_ok n (map tbl fs) sol = true /\
  (inject_Z (2 * sop_cost and_cost or_cost sol) <= eval2 x (pobj p))%Q.
Proof. exact sop_decode_sound_final. Qed.

Theorem C18_sop_encode_complete : forall n fs and_cost or_cost p cubes sol,
  Forall (fun f => nv f = n) fs -> sop_program fs and_cost (-1) or_cost = Ok (p, cubes, []) ->
  sop_solution_ok n (map tbl fs) sol = true ->
  exists x, feasible p x /\ (eval2 x (pobj p) == inject_Z (2 * sop_cost and_cost or_cost sol))%Q.
Proof. exact sop_encode_complete_final. Qed.

Theorem C18_sop_valid : forall solver fs and_cost or_cost r,
  optimize_sop_mip solver fs and_cost or_cost = Ok r ->
  forall n, Forall (fun f => nv f = n) fs ->
  sop_solution_ok n (map tbl fs) (map scubes r) = true /\ Forall2 (fun s f => snv s = nv f) r fs.
Proof. exact sop_valid. Qed.

Theorem C18_sop_optimal : forall solver n fs and_cost or_cost,
  n <= 31 -> Forall (fun f => nv f = n /\ wf n (tbl f)) fs -> (1 <= and_cost)%Z -> (1 <= or_cost)%Z ->
  (2 * Z.of_nat n * and_cost <= i32_max)%Z ->
  exists p cubes, sop_program fs and_cost (-1) or_cost = Ok (p, cubes, []) /\
  (solver_optimal_on solver p ->
   exists r, optimize_sop_mip solver fs and_cost or_cost = Ok r /\
             sop_solution_ok n (map tbl fs) (map scubes r) = true /\
             forall sol, sop_solution_ok n (map tbl fs) sol = true ->
                         (sop_cost and_cost or_cost (map scubes r) <= sop_cost and_cost or_cost sol)%Z).
Proof. exact sop_optimal_final. Qed.

(* the instance hypotheses are met by a two-output instance (x0 xor x1, x0 and x1); the solver hypothesis is met,
   for the programme of the function x0 (variables: cube_used[x0], cube_used_in_fn[x0][0], num_or[0]), by the
   constant solver returning the point (1, 1, 0) *)
Example C18_sop_nonvacuous :
  (2 <= 31 /\ Forall (fun f => nv f = 2 /\ wf 2 (tbl f)) [mkLut 2 [6%N]; mkLut 2 [8%N]] /\
   (2 * Z.of_nat 2 * 1 <= i32_max)%Z) /\
  exists p cubes, sop_program [mkLut 1 [2%N]] 1 (-1) 1 = Ok (p, cubes, []) /\
    solver_optimal_on (fun _ => Some (fun v => if v <? 2 then 1%Q else 0%Q)) p.
Proof.
  split.
  - split; [repeat constructor|]. split; [|vm_compute; discriminate].
    repeat constructor; apply Proofs.Wf.wfb_wf; vm_compute; reflexivity.
  - eexists. eexists. split; [vm_compute; reflexivity|].
    split; [|discriminate]. intros x E. inversion E; subst x. clear E. split.
    + split.
      * intros i k H. do 3 (destruct i as [|i]; [inversion H; subst k; cbn;
          first [left; reflexivity | right; reflexivity | (unfold Qle; cbn; lia)]|]). destruct i; discriminate.
      * repeat constructor; unfold constr_ok; cbn [crel cexpr]; vm_compute; first [reflexivity | discriminate].
    + intros y [Hk _]. assert (H2 : (0 <= y 2%nat)%Q) by (apply (Hk 2 VNonNeg); reflexivity).
      unfold eval2. cbn [pobj lcoef lconst fold_right fst snd Nat.ltb Nat.leb]. cbn.
      change (inject_Z 0) with 0%Q. change (inject_Z 2) with (2 # 1)%Q. Lqa.lra.
Qed.

(* ---- ESOP (optimize_esop_mip) *)
Theorem C18_esop_program_ok : forall n fs and_cost xor_cost,
  n <= 31 -> Forall (fun f => nv f = n) fs -> (1 <= and_cost)%Z -> (1 <= xor_cost)%Z ->
  (2 * Z.of_nat n * and_cost <= i32_max)%Z ->
  exists p cubes, esop_program fs and_cost xor_cost = Ok (p, cubes) /\ NoDup cubes /\
    forall c, In c cubes <-> cube_good (esop_num_vars fs) c = true.
Proof. exact esop_program_ok_final. Qed.

Theorem C18_esop_decode_sound : forall n fs and_cost xor_cost p cubes x,
  Forall (fun f => nv f = n) fs -> esop_program fs and_cost xor_cost = Ok (p, cubes) -> feasible p x ->
  let sol := map (esop_decode_fn fs cubes x) (seq 0 (length fs)) in
  esop_solution_ok n (map tbl fs) sol = true /\
  (inject_Z (2 * esop_cost and_cost xor_cost sol) <= eval2 x (pobj p))%Q.
Proof. exact esop_decode_sound_final. Qed.

Theorem C18_esop_encode_complete : forall n fs and_cost xor_cost p cubes sol,
  Forall (fun f => nv f = n) fs -> esop_program fs and_cost xor_cost = Ok (p, cubes) ->
  esop_solution_ok n (map tbl fs) sol = true ->
  exists x, feasible p x /\ (eval2 x (pobj p) == inject_Z (2 * esop_cost and_cost xor_cost sol))%Q.
Proof. exact esop_encode_complete_final. Qed.

Theorem C18_esop_valid : forall solver fs and_cost xor_cost r,
  optimize_esop_mip solver fs and_cost xor_cost = Ok r ->
  forall n, Forall (fun f => nv f = n) fs ->
  esop_solution_ok n (map tbl fs) (map ecubes r) = true /\ Forall2 (fun e f => env e = nv f) r fs.
Proof. exact esop_valid. Qed.

Theorem C18_esop_optimal : forall solver n fs and_cost xor_cost,
  n <= 31 -> Forall (fun f => nv f = n /\ wf n (tbl f)) fs -> (1 <= and_cost)%Z -> (1 <= xor_cost)%Z ->
  (2 * Z.of_nat n * and_cost <= i32_max)%Z ->
  exists p cubes, esop_program fs and_cost xor_cost = Ok (p, cubes) /\
  (solver_optimal_on solver p ->
   exists r, optimize_esop_mip solver fs and_cost xor_cost = Ok r /\
             esop_solution_ok n (map tbl fs) (map ecubes r) = true /\
             forall sol, esop_solution_ok n (map tbl fs) sol = true ->
                         (esop_cost and_cost xor_cost (map ecubes r) <= esop_cost and_cost xor_cost sol)%Z).
Proof. exact esop_optimal_final. Qed.

(* the programme of the function x0 has the candidates [1; !x0; x0], variables cube_used (0-2), cube_used_in_fn
   (3-5), num_xor (6) and four integer variables (7-10); the constant solver returns the point using the cube x0 *)
Example C18_esop_nonvacuous :
  (2 <= 31 /\ Forall (fun f => nv f = 2 /\ wf 2 (tbl f)) [mkLut 2 [6%N]; mkLut 2 [8%N]] /\
   (2 * Z.of_nat 2 * 1 <= i32_max)%Z) /\
  exists p cubes, esop_program [mkLut 1 [2%N]] 1 1 = Ok (p, cubes) /\
    solver_optimal_on (fun _ => Some (fun v => match v with
                                               | 2 | 5 => 1%Q
                                               | 8 | 9 | 10 => inject_Z (-1)
                                               | _ => 0%Q
                                               end)) p.
Proof.
  split.
  - split; [repeat constructor|]. split; [|vm_compute; discriminate].
    repeat constructor; apply Proofs.Wf.wfb_wf; vm_compute; reflexivity.
  - eexists. eexists. split; [vm_compute; reflexivity|].
    split; [|discriminate]. intros x E. inversion E; subst x. clear E. split.
    + split.
      * intros i k H. do 11 (destruct i as [|i]; [inversion H; subst k; cbn;
          first [left; reflexivity | right; reflexivity | (unfold Qle; cbn; lia)
                | (exists 0%Z; reflexivity) | (exists (-1)%Z; reflexivity)]|]). destruct i; discriminate.
      * repeat constructor; unfold constr_ok; cbn [crel cexpr]; vm_compute; first [reflexivity | discriminate].
    + intros y [Hk _]. assert (H6 : (0 <= y 6%nat)%Q) by (apply (Hk 6 VNonNeg); reflexivity).
      unfold eval2. cbn [pobj lcoef lconst fold_right fst snd]. cbn.
      change (inject_Z 0) with 0%Q. change (inject_Z 2) with (2 # 1)%Q. Lqa.lra.
Qed.

(* ---- SOPES (optimize_sopes_mip: xor_cost >= 1) *)
Theorem C18_sopes_program_ok : forall n fs and_cost xor_cost or_cost,
  n <= 31 -> Forall (fun f => nv f = n) fs -> (1 <= and_cost)%Z -> (1 <= xor_cost)%Z -> (1 <= or_cost)%Z ->
  (2 * Z.of_nat n * and_cost <= i32_max)%Z -> (Z.of_nat n * xor_cost <= i32_max)%Z ->
  exists p cubes ecs, sop_program fs and_cost xor_cost or_cost = Ok (p, cubes, ecs) /\
    (NoDup cubes /\
     forall c, In c cubes <-> (cube_good n c = true /\ exists f, In f fs /\ cube_implies_lut c n (tbl f) = true)) /\
    (NoDup ecs /\
     forall e, In e ecs <-> (ecube_good n e = true /\ (2 <= ecube_num_lits e)%N /\
                             exists f, In f fs /\ ecube_implies_lut e n (tbl f) = true)).
Proof. exact sopes_program_ok_final. Qed.

Theorem C18_sopes_decode_sound : forall n fs and_cost xor_cost or_cost p cubes ecs x,
  Forall (fun f => nv f = n) fs -> (1 <= xor_cost)%Z ->
  sop_program fs and_cost xor_cost or_cost = Ok (p, cubes, ecs) -> feasible p x ->
  let sol := map (sop_decode_fn fs cubes ecs x) (seq 0 (length fs)) in
  sopes_solution_ok n (map tbl fs) sol = true /\
  (inject_Z (2 * sopes_cost and_cost xor_cost or_cost sol) <= eval2 x (pobj p))%Q.
Proof. exact sopes_decode_sound_final. Qed.

Theorem C18_sopes_encode : forall n fs and_cost xor_cost or_cost p cubes ecs sol, n <= 31 ->
  Forall (fun f => nv f = n) fs -> (1 <= xor_cost)%Z ->
  sop_program fs and_cost xor_cost or_cost = Ok (p, cubes, ecs) ->
  sopes_solution_ok n (map tbl fs) sol = true ->
  exists x, feasible p x /\ (eval2 x (pobj p) <= inject_Z (2 * sopes_cost and_cost xor_cost or_cost sol))%Q.
Proof. exact sopes_encode_final. Qed.

Theorem C18_sopes_valid : forall solver fs and_cost xor_cost or_cost r, (1 <= xor_cost)%Z ->
  optimize_sopes_mip solver fs and_cost xor_cost or_cost = Ok r ->
  forall n, Forall (fun f => nv f = n) fs ->
  sopes_solution_ok n (map tbl fs) (map (fun so => (scubes (fst so), ocubes (snd so))) r) = true /\
  Forall2 (fun so f => snv (fst so) = nv f /\ onv (snd so) = nv f) r fs.
Proof. exact sopes_valid_final. Qed.

Theorem C18_sopes_optimal : forall solver n fs and_cost xor_cost or_cost,
  n <= 31 -> Forall (fun f => nv f = n /\ wf n (tbl f)) fs ->
  (1 <= and_cost)%Z -> (1 <= xor_cost)%Z -> (1 <= or_cost)%Z ->
  (2 * Z.of_nat n * and_cost <= i32_max)%Z -> (Z.of_nat n * xor_cost <= i32_max)%Z ->
  exists p cubes ecs, sop_program fs and_cost xor_cost or_cost = Ok (p, cubes, ecs) /\
  (solver_optimal_on solver p ->
   exists r, optimize_sopes_mip solver fs and_cost xor_cost or_cost = Ok r /\
             sopes_solution_ok n (map tbl fs) (map (fun so => (scubes (fst so), ocubes (snd so))) r) = true /\
             forall sol, sopes_solution_ok n (map tbl fs) sol = true ->
                         (sopes_cost and_cost xor_cost or_cost (map (fun so => (scubes (fst so), ocubes (snd so))) r) <=
                          sopes_cost and_cost xor_cost or_cost sol)%Z).
Proof. exact sopes_optimal_final. Qed.

(* the programme of the function x0 xor x1 (unit costs) has the cube candidates [x0 !x1; !x0 x1], the exclusive-cube
   candidate [x0 ^ x1], variables cube_used (0-1), ecube_used (2), cube_used_in_fn (3-4), ecube_used_in_fn (5),
   num_or (6); the constant solver returns the point using the exclusive cube alone (objective 2 half units = one
   XOR gate), which is optimal: every feasible point satisfies x0 + x2 >= x3 + x5 >= 1 *)
Example C18_sopes_nonvacuous :
  (2 <= 31 /\ Forall (fun f => nv f = 2 /\ wf 2 (tbl f)) [mkLut 2 [6%N]; mkLut 2 [8%N]] /\
   (2 * Z.of_nat 2 * 1 <= i32_max)%Z /\ (Z.of_nat 2 * 1 <= i32_max)%Z) /\
  exists p cubes ecs, sop_program [mkLut 2 [6%N]] 1 1 1 = Ok (p, cubes, ecs) /\
    solver_optimal_on (fun _ => Some (fun v => match v with 2 | 5 => 1%Q | _ => 0%Q end)) p.
Proof.
  split.
  - split; [repeat constructor|]. split; [|split; vm_compute; discriminate].
    repeat constructor; apply Proofs.Wf.wfb_wf; vm_compute; reflexivity.
  - eexists. eexists. eexists. split; [vm_compute; reflexivity|].
    split; [|discriminate]. intros x E. inversion E; subst x. clear E. split.
    + split.
      * intros i k H. do 7 (destruct i as [|i]; [inversion H; subst k; cbn;
          first [left; reflexivity | right; reflexivity | (unfold Qle; cbn; lia)]|]). destruct i; discriminate.
      * repeat constructor; unfold constr_ok; cbn [crel cexpr]; vm_compute; first [reflexivity | discriminate].
    + intros y [Hk Hc]. cbn [pconstrs] in Hc.
      assert (H1 : (0 <= y 1%nat)%Q).
      { destruct (Hk 1%nat VBinary eq_refl) as [E|E]; rewrite E; unfold Qle; cbn; lia. }
      assert (H6 : (0 <= y 6%nat)%Q) by (apply (Hk 6 VNonNeg); reflexivity).
      repeat match goal with H : Forall _ (_ :: _) |- _ => inversion H; clear H; subst end.
      unfold constr_ok, eval2 in *. cbn [crel cexpr pobj lcoef lconst fold_right fst snd] in *.
      repeat match goal with H : context [inject_Z ?z] |- _ => progress change (inject_Z z) with (z # 1)%Q in H end.
      repeat match goal with |- context [inject_Z ?z] => progress change (inject_Z z) with (z # 1)%Q end.
      Lqa.lra.
Qed.

Print Assumptions C18_solver_optimal_unsatisfiable.
Print Assumptions C18_sop_program_ok.
Print Assumptions C18_sop_decode_sound.
Print Assumptions C18_sop_encode_complete.
Print Assumptions C18_sop_valid.
Print Assumptions C18_sop_optimal.
Print Assumptions C18_esop_program_ok.
Print Assumptions C18_esop_decode_sound.
Print Assumptions C18_esop_encode_complete.
Print Assumptions C18_esop_valid.
Print Assumptions C18_esop_optimal.
Print Assumptions C18_sopes_program_ok.
Print Assumptions C18_sopes_decode_sound.
Print Assumptions C18_sopes_encode.
Print Assumptions C18_sopes_valid.
Print Assumptions C18_sopes_optimal.


(* ---- soundness of the extracted checkers that decide this property's statement on the implementation's results *)
Open Scope N_scope.
Theorem C18_checker_sop_solution_ok_iff : forall n fs sol,
  sop_solution_ok n fs sol = true <-> Forall2 (sop_cover_ok n) fs sol.
Proof. exact CheckSoundTwoLevel.sop_solution_ok_iff. Qed.

Theorem C18_checker_esop_solution_ok_iff : forall n fs sol,
  esop_solution_ok n fs sol = true <-> Forall2 (esop_cover_ok n) fs sol.
Proof. exact CheckSoundTwoLevel.esop_solution_ok_iff. Qed.

Theorem C18_checker_sopes_solution_ok_iff : forall n fs sol,
  sopes_solution_ok n fs sol = true <-> Forall2 (sopes_cover_ok n) fs sol.
Proof. exact CheckSoundTwoLevel.sopes_solution_ok_iff. Qed.

Theorem C18_checker_sop_opt_iff : forall n fs ac oc ret w,
  chk_sop_opt n fs ac oc ret w = true <->
  sop_solution_ok n fs ret = true /\
  match w with
  | None => True
  | Some w' => sop_solution_ok n fs w' = true -> (sop_cost ac oc ret <= sop_cost ac oc w')%Z
  end.
Proof. exact CheckSoundTwoLevel.chk_sop_opt_iff. Qed.

Theorem C18_checker_esop_opt_iff : forall n fs ac xc ret w,
  chk_esop_opt n fs ac xc ret w = true <->
  esop_solution_ok n fs ret = true /\
  match w with
  | None => True
  | Some w' => esop_solution_ok n fs w' = true -> (esop_cost ac xc ret <= esop_cost ac xc w')%Z
  end.
Proof. exact CheckSoundTwoLevel.chk_esop_opt_iff. Qed.

Theorem C18_checker_sopes_opt_iff : forall n fs ac xc oc ret w,
  chk_sopes_opt n fs ac xc oc ret w = true <->
  sopes_solution_ok n fs ret = true /\
  match w with
  | None => True
  | Some w' => sopes_solution_ok n fs w' = true -> (sopes_cost ac xc oc ret <= sopes_cost ac xc oc w')%Z
  end.
Proof. exact CheckSoundTwoLevel.chk_sopes_opt_iff. Qed.

Theorem C18_checker_sop_opt_spec : forall n fs ac oc ret w,
  chk_sop_opt n fs ac oc ret w = true <->
  Forall2 (sop_cover_ok n) fs ret /\
  match w with
  | None => True
  | Some w' => Forall2 (sop_cover_ok n) fs w' -> (sop_cost ac oc ret <= sop_cost ac oc w')%Z
  end.
Proof. exact CheckSoundTwoLevel.chk_sop_opt_spec. Qed.

Theorem C18_checker_esop_opt_spec : forall n fs ac xc ret w,
  chk_esop_opt n fs ac xc ret w = true <->
  Forall2 (esop_cover_ok n) fs ret /\
  match w with
  | None => True
  | Some w' => Forall2 (esop_cover_ok n) fs w' -> (esop_cost ac xc ret <= esop_cost ac xc w')%Z
  end.
Proof. exact CheckSoundTwoLevel.chk_esop_opt_spec. Qed.

Theorem C18_checker_sopes_opt_spec : forall n fs ac xc oc ret w,
  chk_sopes_opt n fs ac xc oc ret w = true <->
  Forall2 (sopes_cover_ok n) fs ret /\
  match w with
  | None => True
  | Some w' => Forall2 (sopes_cover_ok n) fs w' -> (sopes_cost ac xc oc ret <= sopes_cost ac xc oc w')%Z
  end.
Proof. exact CheckSoundTwoLevel.chk_sopes_opt_spec. Qed.

Print Assumptions C18_checker_sop_solution_ok_iff.
Print Assumptions C18_checker_esop_solution_ok_iff.
Print Assumptions C18_checker_sopes_solution_ok_iff.
Print Assumptions C18_checker_sop_opt_iff.
Print Assumptions C18_checker_esop_opt_iff.
Print Assumptions C18_checker_sopes_opt_iff.
Print Assumptions C18_checker_sop_opt_spec.
Print Assumptions C18_checker_esop_opt_spec.
Print Assumptions C18_checker_sopes_opt_spec.
