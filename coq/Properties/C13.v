(* C13 - Ecube (xor of variables, optionally complemented) and Soes (sum of Ecubes) semantics.
   Statements only; proofs are in Proofs/EcubeProofs.v and Proofs/Tabulate.v. parity_of is defined in
   Proofs/EcubeProofs.v:
     parity_of vars m := fold_right (fun v acc => xorb (testbit vars v && testbit m v) acc) false [0; ...; 31] *)
From Coq Require Import List NArith Bool.
From V Require Proofs.ExprsTie2.   (* expressions of cube.rs / ecube.rs / bdd.rs / canonization.rs, regenerated from the Rust source, equal the model's *)
From V Require Proofs.ExprsTie4.   (* the bodies of sop.rs / esop.rs / soes.rs (and the remaining functions of cube.rs / ecube.rs), regenerated from the Rust source, equal the model's *)
From V Require Import Spec.TwoLevelCost Checkers.Check Proofs.CheckSoundCube Proofs.CheckSoundEq.   (* the extracted checkers and their soundness proofs, pinned at the end of this file *)
From V Require Import Base.Res Model.Kernels Model.TwoLevel Spec.Bfun Proofs.Tabulate Proofs.EcubeProofs.
Import ListNotations.
Open Scope N_scope.

(* 1. value *)
Theorem C13_ecube_value_def : forall e m,
  ecube_value e m = xorb (N.odd (popcount (N.land (evars e) (m mod 2 ^ 32)))) (exnor e).
Proof. exact ecube_value_def. Qed.

Theorem C13_ecube_value_sem : forall e m,
  ecube_value e m = xorb (parity_of (evars e) m) (exnor e).
Proof. exact ecube_value_sem. Qed.

Theorem C13_popcount_lxor : forall a b,
  N.odd (popcount (N.lxor a b)) = xorb (N.odd (popcount a)) (N.odd (popcount b)).
Proof. exact odd_pop_lxor. Qed.

(* 2. xor / not *)
Theorem C13_ecube_xor_sem : forall a b m,
  ecube_value (ecube_xor a b) m = xorb (ecube_value a m) (ecube_value b m).
Proof. exact ecube_xor_sem. Qed.

Theorem C13_ecube_not_sem : forall e m, ecube_value (ecube_not e) m = negb (ecube_value e m).
Proof. exact ecube_not_sem. Qed.

(* 3. equality is semantic *)
Theorem C13_ecube_eq_semantic : forall a b, evars a < 2 ^ 32 -> evars b < 2 ^ 32 ->
  (a = b <-> forall m, m < 2 ^ 32 -> ecube_value a m = ecube_value b m).
Proof. exact ecube_eq_semantic. Qed.

(* 4. enumeration *)
Theorem C13_ecube_all_complete : forall vars, vars <= 31 ->
  exists l, ecube_all vars = Ok l /\ NoDup l /\ length l = (2 * Nat.pow 2 (N.to_nat vars))%nat /\
    forall e, In e l <-> evars e < 2 ^ vars.
Proof. exact ecube_all_complete. Qed.

(* 5. Soes *)
Theorem C13_soes_value_sem : forall s m,
  soes_value s m = existsb (fun e => ecube_value e m) (ocubes s).
Proof. exact soes_value_sem. Qed.

Theorem C13_soes_or_sem : forall a b, onv a = onv b ->
  exists r, soes_or a b = Ok r /\ onv r = onv a /\ ocubes r = ocubes a ++ ocubes b /\
            forall m, soes_value r m = soes_value a m || soes_value b m.
Proof. exact soes_or_sem. Qed.

Theorem C13_soes_or_mismatch : forall a b, onv a <> onv b -> soes_or a b = PanicAlways.
Proof. exact soes_or_mismatch. Qed.

(* 6. conversion to a truth table, an instance of the general fact about tabulate *)
Theorem C13_tabulate_sem : forall n f,
  wf n (tabulate n f) /\ forall m, m < 2 ^ N.of_nat n -> val (tabulate n f) m = f m.
Proof. exact tabulate_sem. Qed.

Theorem C13_soes_to_lut_sem : forall s,
  wf (onv s) (soes_to_lut s) /\
  forall m, m < 2 ^ N.of_nat (onv s) -> val (soes_to_lut s) m = soes_value s m.
Proof. exact soes_to_lut_sem. Qed.

(* 7. constant tests *)
Theorem C13_soes_is_zero_sound : forall s, soes_is_zero s = true -> forall m, soes_value s m = false.
Proof. exact soes_is_zero_sound. Qed.

Theorem C13_soes_is_one_sound : forall s, soes_is_one s = true -> forall m, soes_value s m = true.
Proof. exact soes_is_one_sound. Qed.

(* non-trivial instances: x0 ^ x2 and !(x1 ^ x2) are distinct 32-bit Ecubes with different values; a Soes over
   3 variables made of both tabulates to the expected 8-bit table; the constant tests fire on real inputs *)
Example C13_nonvacuous_ecube :
  let a := mkEcube 5 false in let b := mkEcube 6 true in
  evars a < 2 ^ 32 /\ evars b < 2 ^ 32 /\ a <> b /\
  ecube_value a 1 = true /\ ecube_value a 5 = false /\ ecube_value b 0 = true /\ ecube_value b 2 = false /\
  ecube_xor a b = mkEcube 3 true /\ parity_of 5 4 = true /\
  ecube_all 1 = Ok [mkEcube 0 false; mkEcube 0 true; mkEcube 1 false; mkEcube 1 true].
Proof. vm_compute. repeat split; discriminate. Qed.

Example C13_nonvacuous_soes :
  let s := mkSoes 3 [mkEcube 5 false; mkEcube 6 true] in
  onv s = onv (soes_one 3) /\ soes_to_lut s = [0xdb] /\ soes_value s 2 = false /\ soes_value s 3 = true /\
  soes_is_zero (soes_zero 3) = true /\ soes_is_one (soes_one 3) = true /\ soes_is_one s = false /\
  onv s <> onv (soes_zero 4) /\ soes_or s (soes_zero 4) = PanicAlways.
Proof. vm_compute. repeat split; discriminate. Qed.

Print Assumptions C13_ecube_value_def.
Print Assumptions C13_ecube_value_sem.
Print Assumptions C13_popcount_lxor.
Print Assumptions C13_ecube_xor_sem.
Print Assumptions C13_ecube_not_sem.
Print Assumptions C13_ecube_eq_semantic.
Print Assumptions C13_ecube_all_complete.
Print Assumptions C13_soes_value_sem.
Print Assumptions C13_soes_or_sem.
Print Assumptions C13_soes_or_mismatch.
Print Assumptions C13_tabulate_sem.
Print Assumptions C13_soes_to_lut_sem.
Print Assumptions C13_soes_is_zero_sound.
Print Assumptions C13_soes_is_one_sound.


(* ---- soundness of the extracted checkers that decide this property's statement on the implementation's results *)
Theorem C13_checker_spec_ecube_value_eq : forall e m,
  spec_ecube_value e m = ecube_value e m.
Proof. exact CheckSoundCube.spec_ecube_value_eq. Qed.

Theorem C13_checker_ecube_value_iff : forall e m r,
  chk_ecube_value e m r = true <-> r = ecube_value e m.
Proof. exact CheckSoundCube.chk_ecube_value_iff. Qed.

Theorem C13_checker_ecube_within_iff : forall k e,
  ecube_within k e = true <-> evars e < 2 ^ N.of_nat k.
Proof. exact CheckSoundCube.ecube_within_iff. Qed.

Theorem C13_checker_ecube_xor_iff : forall k a b r,
  (k <= 32)%nat -> ecube_within k a = true -> ecube_within k b = true ->
  (chk_ecube_xor k a b r = true <-> r = ecube_xor a b).
Proof. exact CheckSoundCube.chk_ecube_xor_iff. Qed.

Theorem C13_checker_ecube_not_iff : forall k a r,
  (k <= 32)%nat -> ecube_within k a = true ->
  (chk_ecube_not k a r = true <-> r = ecube_not a).
Proof. exact CheckSoundCube.chk_ecube_not_iff. Qed.

Theorem C13_checker_spec_soes_value_eq : forall es m,
  spec_soes_value es m = sem_soes es m.
Proof. exact CheckSoundCube.spec_soes_value_eq. Qed.

Theorem C13_checker_spec_soes_value_model : forall s m,
  spec_soes_value (ocubes s) m = soes_value s m.
Proof. exact CheckSoundCube.spec_soes_value_model. Qed.

Theorem C13_checker_soes_or_iff : forall n a b r,
  chk_soes_or n a b r = true <-> forall m, m < 2 ^ N.of_nat n -> sem_soes r m = sem_soes a m || sem_soes b m.
Proof. exact CheckSoundCube.chk_soes_or_iff. Qed.

Theorem C13_checker_soes_or_value_iff : forall n a b r,
  chk_soes_or n (ocubes a) (ocubes b) (ocubes r) = true <->
  forall m, m < 2 ^ N.of_nat n -> soes_value r m = soes_value a m || soes_value b m.
Proof. exact CheckSoundCube.chk_soes_or_value_iff. Qed.

Theorem C13_checker_soes_or_model : forall n a b r,
  soes_or a b = Ok r -> chk_soes_or n (ocubes a) (ocubes b) (ocubes r) = true.
Proof. exact CheckSoundCube.chk_soes_or_model. Qed.

Theorem C13_checker_text_ecube : forall e ms w,
  evars e < 2 ^ 32 -> chk_text (ecube_display e) (spec_ecube_value e) ms w = true.
Proof. exact CheckSoundCube.chk_text_ecube. Qed.

Print Assumptions C13_checker_spec_ecube_value_eq.
Print Assumptions C13_checker_ecube_value_iff.
Print Assumptions C13_checker_ecube_within_iff.
Print Assumptions C13_checker_ecube_xor_iff.
Print Assumptions C13_checker_ecube_not_iff.
Print Assumptions C13_checker_spec_soes_value_eq.
Print Assumptions C13_checker_spec_soes_value_model.
Print Assumptions C13_checker_soes_or_iff.
Print Assumptions C13_checker_soes_or_value_iff.
Print Assumptions C13_checker_soes_or_model.
Print Assumptions C13_checker_text_ecube.

(* ---- equality is semantic equality: the checker of "a == b holds exactly when a and b evaluate alike on every
   assignment" (no side condition; the structural equality of the model passes when the masks are within 32 bits) *)
Theorem C13_checker_ecube_sem_eqb_iff : forall a b,
  ecube_sem_eqb a b = true <-> forall m, ecube_value a m = ecube_value b m.
Proof. exact CheckSoundEq.ecube_sem_eqb_iff. Qed.

Theorem C13_checker_ecube_sem_eqb_iff_32 : forall a b,
  ecube_sem_eqb a b = true <-> forall m, m < 2 ^ 32 -> ecube_value a m = ecube_value b m.
Proof. exact CheckSoundEq.ecube_sem_eqb_iff_32. Qed.

Theorem C13_checker_ecube_sem_eqb_eq : forall a b,
  evars a < 2 ^ 32 -> evars b < 2 ^ 32 -> (ecube_sem_eqb a b = true <-> a = b).
Proof. exact CheckSoundEq.ecube_sem_eqb_eq. Qed.

Theorem C13_checker_ecube_eq_iff : forall a b r,
  chk_ecube_eq a b r = true <-> (r = true <-> forall m, ecube_value a m = ecube_value b m).
Proof. exact CheckSoundEq.chk_ecube_eq_iff. Qed.

Theorem C13_checker_ecube_eq_iff_32 : forall a b r,
  chk_ecube_eq a b r = true <-> (r = true <-> forall m, m < 2 ^ 32 -> ecube_value a m = ecube_value b m).
Proof. exact CheckSoundEq.chk_ecube_eq_iff_32. Qed.

Theorem C13_checker_ecube_eq_model : forall a b,
  evars a < 2 ^ 32 -> evars b < 2 ^ 32 -> chk_ecube_eq a b (ecube_eqb a b) = true.
Proof. exact CheckSoundEq.chk_ecube_eq_model. Qed.

Example C13_checker_ecube_eq_model_needs_bound :
  chk_ecube_eq (mkEcube (2 ^ 32) false) (mkEcube 0 false) (ecube_eqb (mkEcube (2 ^ 32) false) (mkEcube 0 false)) = false.
Proof. exact CheckSoundEq.chk_ecube_eq_model_needs_bound. Qed.

Print Assumptions C13_checker_ecube_sem_eqb_iff.
Print Assumptions C13_checker_ecube_sem_eqb_iff_32.
Print Assumptions C13_checker_ecube_sem_eqb_eq.
Print Assumptions C13_checker_ecube_eq_iff.
Print Assumptions C13_checker_ecube_eq_iff_32.
Print Assumptions C13_checker_ecube_eq_model.
