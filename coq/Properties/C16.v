(* C16 - the text printed for a Cube, Ecube, Sop, Esop or Soes, read with the grammar of Spec/Grammar.v
   (x<i> variable, ! complement, juxtaposition AND, " ^ " XOR, " | " OR binding loosest, 0 and 1 constants),
   evaluates on every assignment to the value the object itself returns; variables appear in increasing index
   order; distinct (canonical) cubes print distinct text.
   u32 masks are [N] below 2^32.  Statements only; proofs are in Proofs/DisplayProofs.v. *)
From Coq Require Import List NArith Bool Sorted.
From V Require Import Spec.TwoLevelCost Checkers.Check Proofs.CheckSoundCube.   (* the extracted checkers and their soundness proofs, pinned at the end of this file *)
From V Require Proofs.ExprsTie4.   (* the bodies of sop.rs / esop.rs / soes.rs (and the remaining functions of cube.rs / ecube.rs), regenerated from the Rust source, equal the model's *)
From V Require Import Base.Res Model.Kernels Model.TwoLevel Spec.Grammar Proofs.DisplayProofs.
Import ListNotations.
Open Scope N_scope.

(* ---- the printed text evaluates to the value of the object (any assignment m) *)
Theorem C16_cube : forall c m, cpos c < 2 ^ 32 -> cneg c < 2 ^ 32 ->
  exists ts, lex (cube_display c) = Some ts /\ eval ts m = Some (cube_value c m).
Proof. exact display_cube. Qed.

Theorem C16_ecube : forall e m, evars e < 2 ^ 32 ->
  exists ts, lex (ecube_display e) = Some ts /\ eval ts m = Some (ecube_value e m).
Proof. exact display_ecube. Qed.

Theorem C16_sop : forall s m, Forall (fun c => cpos c < 2 ^ 32 /\ cneg c < 2 ^ 32) (scubes s) ->
  exists ts, lex (sop_display s) = Some ts /\ eval ts m = Some (sop_value s m).
Proof. exact display_sop. Qed.

Theorem C16_esop : forall s m, Forall (fun c => cpos c < 2 ^ 32 /\ cneg c < 2 ^ 32) (ecubes s) ->
  exists ts, lex (esop_display s) = Some ts /\ eval ts m = Some (esop_value s m).
Proof. exact display_esop. Qed.

Theorem C16_soes : forall s m, Forall (fun e => evars e < 2 ^ 32) (ocubes s) ->
  exists ts, lex (soes_display s) = Some ts /\ eval ts m = Some (soes_value s m).
Proof. exact display_soes. Qed.

Example C16_value_nonvacuous :
  let c1 := mkCube 0x1001 0x80 in let c2 := mkCube 0x80000000 0x81 in let c3 := mkCube 0 0x80001000 in
  let e1 := mkEcube 0x80001001 true in let e2 := mkEcube 0x1080 false in
  Forall (fun c => cpos c < 2 ^ 32 /\ cneg c < 2 ^ 32) [c1; c2; c3; cube_one; cube_zero] /\
  Forall (fun e => evars e < 2 ^ 32) [e1; e2] /\
  (* "x0!x7x12 | !x0!x7x31 | !x12!x31" *)
  sop_display (mkSop 32 [c1; c2; c3]) =
    [120; 48; 33; 120; 55; 120; 49; 50; 32; 124; 32; 33; 120; 48; 33; 120; 55; 120; 51; 49; 32; 124; 32;
     33; 120; 49; 50; 33; 120; 51; 49] /\
  (* "1 ^ x0 ^ x12 ^ x31 | x7 ^ x12" *)
  lex (soes_display (mkSoes 32 [e1; e2])) =
    Some [TOne; TXor; TLit false 0; TXor; TLit false 12; TXor; TLit false 31; TOr; TLit false 7; TXor; TLit false 12].
Proof.
  cbv zeta. split; [|split; [|split]].
  - repeat (constructor; [split; vm_compute; reflexivity|]). constructor.
  - repeat (constructor; [vm_compute; reflexivity|]). constructor.
  - vm_compute. reflexivity.
  - vm_compute. reflexivity.
Qed.

(* ---- variables appear in strictly increasing index order (inside every cube of a sum) *)
Theorem C16_cube_increasing : forall c,
  exists ts, lex (cube_display c) = Some ts /\ StronglySorted N.lt (lit_indices ts).
Proof. exact cube_display_increasing. Qed.

Theorem C16_ecube_increasing : forall e,
  exists ts, lex (ecube_display e) = Some ts /\ StronglySorted N.lt (lit_indices ts).
Proof. exact ecube_display_increasing. Qed.

Theorem C16_sop_increasing : forall s,
  exists ts, lex (sop_display s) = Some ts /\
             Forall (fun part => StronglySorted N.lt (lit_indices part)) (split is_or ts).
Proof. exact sop_display_increasing. Qed.

Theorem C16_esop_increasing : forall s,
  exists ts, lex (esop_display s) = Some ts /\
             Forall (fun part => StronglySorted N.lt (lit_indices part)) (split is_xor ts).
Proof. exact esop_display_increasing. Qed.

Theorem C16_soes_increasing : forall s,
  exists ts, lex (soes_display s) = Some ts /\
             Forall (fun part => StronglySorted N.lt (lit_indices part)) (split is_or ts).
Proof. exact soes_display_increasing. Qed.

Example C16_increasing_nonvacuous :
  exists ts, lex (cube_display (mkCube 0x80001001 0x80)) = Some ts /\ lit_indices ts = [0; 7; 12; 31].
Proof. eexists. split; vm_compute; reflexivity. Qed.

(* ---- distinct cubes print distinct text.  A cube is canonical when no variable is in both masks, or it is
        Cube::zero() (every other contradictory cube also prints "0") *)
Theorem C16_cube_injective : forall a b,
  cpos a < 2 ^ 32 -> cneg a < 2 ^ 32 -> (N.land (cpos a) (cneg a) = 0 \/ a = cube_zero) ->
  cpos b < 2 ^ 32 -> cneg b < 2 ^ 32 -> (N.land (cpos b) (cneg b) = 0 \/ b = cube_zero) ->
  cube_display a = cube_display b -> a = b.
Proof. exact cube_display_inj. Qed.

Theorem C16_ecube_injective : forall a b,
  evars a < 2 ^ 32 -> evars b < 2 ^ 32 -> ecube_display a = ecube_display b -> a = b.
Proof. exact ecube_display_inj. Qed.

Example C16_injective_nonvacuous :
  let a := mkCube 0x1001 0x80000080 in
  cpos a < 2 ^ 32 /\ cneg a < 2 ^ 32 /\ (N.land (cpos a) (cneg a) = 0 \/ a = cube_zero) /\
  cpos cube_zero < 2 ^ 32 /\ cneg cube_zero < 2 ^ 32 /\
  (* the canonicity hypothesis is needed: two different contradictory cubes both print "0" *)
  cube_display (mkCube 1 1) = cube_display (mkCube 3 1).
Proof. cbv zeta. repeat split; try (left; vm_compute; reflexivity); vm_compute; reflexivity. Qed.

Print Assumptions C16_cube.
Print Assumptions C16_ecube.
Print Assumptions C16_sop.
Print Assumptions C16_esop.
Print Assumptions C16_soes.
Print Assumptions C16_cube_increasing.
Print Assumptions C16_ecube_increasing.
Print Assumptions C16_sop_increasing.
Print Assumptions C16_esop_increasing.
Print Assumptions C16_soes_increasing.
Print Assumptions C16_cube_injective.
Print Assumptions C16_ecube_injective.


(* ---- soundness of the extracted checkers that decide this property's statement on the implementation's results *)
Theorem C16_checker_text_iff : forall bytes f ms w,
  chk_text bytes f ms w = true <-> exists ts, lex bytes = Some ts /\ text_ok ts f ms w.
Proof. exact CheckSoundCube.chk_text_iff. Qed.

Theorem C16_checker_text_false_iff : forall bytes f ms w,
  chk_text bytes f ms w = false <->
  lex bytes = None \/
  exists ts, lex bytes = Some ts /\ ((exists m, In m ms /\ eval ts m <> Some (f m)) \/ ~ indices_ok ts w).
Proof. exact CheckSoundCube.chk_text_false_iff. Qed.

Theorem C16_checker_text_cube : forall c ms w,
  CubeProofs.c32 c -> chk_text (cube_display c) (spec_cube_value c) ms w = true.
Proof. exact CheckSoundCube.chk_text_cube. Qed.

Theorem C16_checker_text_ecube : forall e ms w,
  evars e < 2 ^ 32 -> chk_text (ecube_display e) (spec_ecube_value e) ms w = true.
Proof. exact CheckSoundCube.chk_text_ecube. Qed.

Theorem C16_checker_text_sop : forall s ms,
  Forall CubeProofs.c32 (scubes s) ->
  chk_text (sop_display s) (spec_sop_value (scubes s)) ms false = true.
Proof. exact CheckSoundCube.chk_text_sop. Qed.

Theorem C16_checker_text_esop : forall s ms,
  Forall CubeProofs.c32 (ecubes s) ->
  chk_text (esop_display s) (spec_esop_value (ecubes s)) ms false = true.
Proof. exact CheckSoundCube.chk_text_esop. Qed.

Theorem C16_checker_text_soes : forall s ms,
  Forall (fun e => evars e < 2 ^ 32) (ocubes s) ->
  chk_text (soes_display s) (spec_soes_value (ocubes s)) ms false = true.
Proof. exact CheckSoundCube.chk_text_soes. Qed.

Theorem C16_checker_soes_or_iff : forall n a b r,
  chk_soes_or n a b r = true <-> forall m, m < 2 ^ N.of_nat n -> sem_soes r m = sem_soes a m || sem_soes b m.
Proof. exact CheckSoundCube.chk_soes_or_iff. Qed.

Theorem C16_checker_soes_or_model : forall n a b r,
  soes_or a b = Ok r -> chk_soes_or n (ocubes a) (ocubes b) (ocubes r) = true.
Proof. exact CheckSoundCube.chk_soes_or_model. Qed.

Print Assumptions C16_checker_text_iff.
Print Assumptions C16_checker_text_false_iff.
Print Assumptions C16_checker_text_cube.
Print Assumptions C16_checker_text_ecube.
Print Assumptions C16_checker_text_sop.
Print Assumptions C16_checker_text_esop.
Print Assumptions C16_checker_text_soes.
Print Assumptions C16_checker_soes_or_iff.
Print Assumptions C16_checker_soes_or_model.
