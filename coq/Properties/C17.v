(* C17 - invalid indices and size mismatches panic identically in every build profile.
   Part A (source): Gen/Guards.v lists, for every fn of lut.rs / static_lut.rs / the kernel files, the guard-relevant
     events of its body in source order (regenerated from /repo/src on every run).  A decidable predicate
     (Proofs/Guards17.v) says that every index / assignment / table / slice parameter of every public method of Lut
     and StaticLut is protected by an always-on assertion standing before any profile-sensitive kernel call; it is
     proved by computation on the generated list.
   Part B (model): res A ::= Ok a | PanicAlways | PanicDebug, PanicAlways = assert! / slice indexing /
     clone_from_slice (every profile), PanicDebug = debug_assert! / overflow / over-wide shift (dev profile only).
     For every index-taking API call: invalid argument ==> PanicAlways; no argument at all ==> PanicDebug (so a
     release build and a dev build agree); valid argument ==> Ok.  For every n (not only 0..=8); indices are arbitrary
     N (a usize is < 2^64); lwf l = the table of l is well formed (the invariant of the Rust type).
   Statements only; proofs are in Proofs/Guards17.v and Proofs/Profile17.v. *)
From Coq Require Import List NArith Bool String.
From V Require Import Base.Res Gen.Guards Model.Kernels Model.Decomp Model.Bdd Model.Api Spec.Bfun Proofs.ApiTransforms
  Proofs.Guards17 Proofs.Profile17.
Import ListNotations.

(* ================================================================== Part A: the source *)
Section PartA.
Open Scope nat_scope.
Open Scope string_scope.

(* coverage: every parameter of every public method of impl Lut / impl StaticLut is classified (receiver, variable
   index, assignment index, other table, table list, block slice, or free); an unclassified usize parameter makes
   this fail *)
Theorem C17_params_classified :
  forallb (fun f => forallb (fun p => negb (pclass_eqb (classify_param (fst p) (snd p)) PUnknown)) (params_of f))
          (api_methods functions) = true.
Proof. exact g17_params_classified. Qed.

(* the (name, type) pairs that occur, with their class *)
Theorem C17_param_table :
  map (fun p => (fst p, snd p, classify_param (fst p) (snd p)))
      (nodup string_pair_dec (flat_map params_of (api_methods functions))) =
  [("rhs", "&Lut", POtherTable); ("num_vars", "usize", PFree); ("var", "usize", PVarIndex); ("k", "usize", PFree);
   ("count_values", "usize", PFree); ("value", "bool", PFree); ("mask", "usize", PAssignIndex);
   ("rhs", "&Self", POtherTable); ("ind1", "usize", PVarIndex); ("ind2", "usize", PVarIndex);
   ("&mut self", "", PReceiver); ("c0", "&Self", POtherTable); ("c1", "&Self", POtherTable);
   ("blocks", "&[u64]", PBlockSlice); ("ind", "usize", PVarIndex); ("luts", "&[Self]", PTableList);
   ("&self", "", PReceiver); ("s", "&str", PFree)].
Proof. exact g17_param_table. Qed.

(* the usize parameter names of the public methods *)
Theorem C17_usize_names :
  nodup string_dec (map fst (filter (fun p => snd p =? "usize") (flat_map params_of (api_methods functions)))) =
  ["num_vars"; "var"; "k"; "count_values"; "mask"; "ind1"; "ind2"; "ind"].
Proof. exact g17_usize_names. Qed.

(* check_var / check_bit / check_lut of both impls: exactly one assert! / assert_eq! with the expected text, no
   debug_assert! *)
Theorem C17_helpers_always_on : helpers_always_on functions = true.
Proof. exact g17_helpers_always_on. Qed.

(* THE guard theorem: every variable index, assignment index, other table, table list and block slice parameter of
   every public method is protected by an always-on assertion evaluated before the first profile-sensitive kernel
   call - directly, by forwarding to a guarded method of the same impl, or (top_decomposition, is_pos_unate,
   is_neg_unate) by a kernel that asserts in every profile *)
Theorem C17_every_index_guarded : forallb (method_guarded functions) (filter is_api_method functions) = true.
Proof. exact g17_every_index_guarded. Qed.

(* no debug_assert! / debug_assert_eq! anywhere in lut.rs and static_lut.rs *)
Theorem C17_no_debug_guard_in_api : no_debug_in_api_files functions = true.
Proof. exact g17_no_debug_guard_in_api. Qed.

(* the operator trait impls of Lut and &Lut (&, |, ^, &=, |=, ^= in every by-value / by-reference form) reach the
   BitXxxAssign<&Lut> impl, which asserts equal num_vars *)
Theorem C17_operators_guarded : operators_guarded functions = true.
Proof. exact g17_operators_guarded. Qed.

(* not vacuous *)
Theorem C17_api_method_count :
  List.length (api_methods functions) = 92 /\ List.length (filter takes_checked_arg (api_methods functions)) = 50.
Proof. exact g17_api_method_count. Qed.

(* the pinned table: what protects each method (own guards, forwarding, always-asserting kernels) *)
Theorem C17_guard_table :
  map (fun f => (fi_impl f, fi_name f, guard_route functions f)) (filter takes_checked_arg (api_methods functions)) =
  [ ("Lut", "nth_var", [Assert "var < num_vars"]);
    ("Lut", "value", [Method "get_bit"]);
    ("Lut", "get_bit", [CheckBit "mask"]);
    ("Lut", "set_value", [Method "set_bit"; Method "unset_bit"]);
    ("Lut", "set_bit", [CheckBit "mask"]);
    ("Lut", "unset_bit", [CheckBit "mask"]);
    ("Lut", "and_inplace", [CheckLut "rhs"]);
    ("Lut", "or_inplace", [CheckLut "rhs"]);
    ("Lut", "xor_inplace", [CheckLut "rhs"]);
    ("Lut", "flip_inplace", [CheckVar "ind"]);
    ("Lut", "swap_inplace", [CheckVar "ind1"; CheckVar "ind2"]);
    ("Lut", "swap_adjacent_inplace", [CheckVar "ind"; CheckVar "ind + 1"]);
    ("Lut", "and", [Method "and_inplace"]);
    ("Lut", "or", [Method "or_inplace"]);
    ("Lut", "xor", [Method "xor_inplace"]);
    ("Lut", "flip", [Method "flip_inplace"]);
    ("Lut", "swap", [Method "swap_inplace"]);
    ("Lut", "swap_adjacent", [Method "swap_adjacent_inplace"]);
    ("Lut", "cofactors", [CheckVar "ind"]);
    ("Lut", "from_cofactors", [AssertEq "c0.num_vars, c1.num_vars"; CheckVar "ind"]);
    ("Lut", "from_blocks", [Assert "blocks.len() == ret.num_blocks()"; CloneFromSlice "blocks"]);
    ("Lut", "top_decomposition", [Call "top_decomposition"]);
    ("Lut", "is_pos_unate", [Call "input_pos_unate"]);
    ("Lut", "is_neg_unate", [Call "input_neg_unate"]);
    ("Lut", "bdd_complexity", [AssertEq "lut.num_vars(), num_vars"]);
    ("StaticLut", "nth_var", [Assert "var < N"]);
    ("StaticLut", "value", [Method "get_bit"]);
    ("StaticLut", "get_bit", [CheckBit "mask"]);
    ("StaticLut", "set_value", [Method "set_bit"; Method "unset_bit"]);
    ("StaticLut", "set_bit", [CheckBit "mask"]);
    ("StaticLut", "unset_bit", [CheckBit "mask"]);
    ("StaticLut", "and_inplace", [CheckLut "rhs"]);
    ("StaticLut", "or_inplace", [CheckLut "rhs"]);
    ("StaticLut", "xor_inplace", [CheckLut "rhs"]);
    ("StaticLut", "flip_inplace", [CheckVar "ind"]);
    ("StaticLut", "swap_inplace", [CheckVar "ind1"; CheckVar "ind2"]);
    ("StaticLut", "swap_adjacent_inplace", [CheckVar "ind"; CheckVar "ind + 1"]);
    ("StaticLut", "and", [Method "and_inplace"]);
    ("StaticLut", "or", [Method "or_inplace"]);
    ("StaticLut", "xor", [Method "xor_inplace"]);
    ("StaticLut", "flip", [Method "flip_inplace"]);
    ("StaticLut", "swap", [Method "swap_inplace"]);
    ("StaticLut", "swap_adjacent", [Method "swap_adjacent_inplace"]);
    ("StaticLut", "cofactors", [CheckVar "ind"]);
    ("StaticLut", "from_cofactors", [CheckVar "ind"]);
    ("StaticLut", "from_blocks", [CloneFromSlice "blocks"]);
    ("StaticLut", "top_decomposition", [Call "top_decomposition"]);
    ("StaticLut", "is_pos_unate", [Call "input_pos_unate"]);
    ("StaticLut", "is_neg_unate", [Call "input_neg_unate"]);
    ("StaticLut", "bdd_complexity", []) ].
Proof. exact g17_guard_table. Qed.

(* the free functions that assert their index in every profile *)
Theorem C17_kernels_always_on :
  map fi_name (filter (fun g => (fi_impl g =? "") && kernel_asserts functions fuel0 (fi_name g)) functions) =
  ["input_property_helper"; "input_independent"; "input_and"; "input_or"; "input_nand"; "input_nor"; "input_xor";
   "input_pos_unate"; "input_neg_unate"; "top_decomposition"] /\
  option_map guard_events (find_free functions "input_property_helper") =
  Some [Assert "table.len() == table_size(num_vars)"; Assert "ind < num_vars"].
Proof. exact g17_kernels_always_on. Qed.

(* the kernels whose own checks are debug-only: the calls in front of which the wrappers' guards stand *)
Theorem C17_profile_sensitive_kernels :
  nodup string_dec
    (flat_map (fun f => flat_map (fun e => match e with
                                           | Call c => if debug_reach functions fuel0 c then [c] else []
                                           | _ => [] end) (fi_events f))
              (filter takes_checked_arg (api_methods functions))) =
  ["fill_nth_var"; "get_bit"; "set_bit"; "unset_bit"; "and_inplace"; "or_inplace"; "xor_inplace"; "flip_inplace";
   "swap_inplace"; "swap_adjacent_inplace"; "cofactor0_inplace"; "cofactor1_inplace"; "from_cofactors_inplace"].
Proof. exact g17_profile_sensitive_kernels. Qed.

(* the predicate can fail: check_var deleted from Lut::flip_inplace; assert! -> debug_assert! in check_var;
   input_property_helper with a debug_assert! on the index (more in Proofs/Guards17.v, the Examples named neg_...) *)
Example C17_predicate_is_honest :
  failing (edit "Lut" "" "flip_inplace" (with_events [Call "flip_inplace"; Method "as_mut"]) functions)
    = [("Lut", "flip_inplace"); ("Lut", "flip")] /\
  failing (edit "StaticLut" "" "cofactors"
             (with_events [Call "cofactor0_inplace"; Method "num_vars"; Method "as_mut";
                           Call "cofactor1_inplace"; Method "num_vars"; Method "as_mut"]) functions)
    = [("StaticLut", "cofactors")] /\
  failing (edit "Lut" "" "check_var" (with_events [DebugAssert "ind < self.num_vars()"; Method "num_vars"]) functions)
    = [("Lut", "flip_inplace"); ("Lut", "swap_inplace"); ("Lut", "swap_adjacent_inplace"); ("Lut", "flip");
       ("Lut", "swap"); ("Lut", "swap_adjacent"); ("Lut", "cofactors"); ("Lut", "from_cofactors")] /\
  failing (edit "" "" "input_property_helper"
             (with_events [Assert "table.len() == table_size(num_vars)"; Method "len"; Call "table_size";
                           DebugAssert "ind < num_vars"; Call "num_vars_mask"; OpAssign "&="; Method "len";
                           OpAssign "&="]) functions)
    = [("Lut", "top_decomposition"); ("Lut", "is_pos_unate"); ("Lut", "is_neg_unate");
       ("StaticLut", "top_decomposition"); ("StaticLut", "is_pos_unate"); ("StaticLut", "is_neg_unate")] /\
  failing functions = [].
Proof. vm_compute. repeat split; reflexivity. Qed.
End PartA.

(* ================================================================== Part B: the model *)
Open Scope N_scope.

(* ---- value / get_bit, set_bit, unset_bit, set_value: an assignment index *)
Theorem C17_get_bit_invalid : forall l m, 2 ^ N.of_nat (nv l) <= m -> D_get_bit l m = PanicAlways.
Proof. exact get_bit_invalid. Qed.
Theorem C17_value_invalid : forall l m, 2 ^ N.of_nat (nv l) <= m -> D_value l m = PanicAlways.
Proof. exact value_invalid. Qed.
Theorem C17_get_bit_valid : forall l m, lwf l -> m < 2 ^ N.of_nat (nv l) -> exists r, D_get_bit l m = Ok r.
Proof. exact get_bit_valid. Qed.
Theorem C17_get_bit_no_debug : forall l m, D_get_bit l m <> PanicDebug.
Proof. exact get_bit_no_debug. Qed.

Theorem C17_set_bit_invalid : forall l m, 2 ^ N.of_nat (nv l) <= m -> D_set_bit l m = PanicAlways.
Proof. exact set_bit_invalid. Qed.
Theorem C17_set_bit_valid : forall l m, lwf l -> m < 2 ^ N.of_nat (nv l) -> exists r, D_set_bit l m = Ok r.
Proof. exact set_bit_valid. Qed.
Theorem C17_set_bit_no_debug : forall l m, D_set_bit l m <> PanicDebug.
Proof. exact set_bit_no_debug. Qed.

Theorem C17_unset_bit_invalid : forall l m, 2 ^ N.of_nat (nv l) <= m -> D_unset_bit l m = PanicAlways.
Proof. exact unset_bit_invalid. Qed.
Theorem C17_unset_bit_valid : forall l m, lwf l -> m < 2 ^ N.of_nat (nv l) -> exists r, D_unset_bit l m = Ok r.
Proof. exact unset_bit_valid. Qed.
Theorem C17_unset_bit_no_debug : forall l m, D_unset_bit l m <> PanicDebug.
Proof. exact unset_bit_no_debug. Qed.

Theorem C17_set_value_invalid : forall l m v, 2 ^ N.of_nat (nv l) <= m -> D_set_value l m v = PanicAlways.
Proof. exact set_value_invalid. Qed.
Theorem C17_set_value_valid : forall l m v, lwf l -> m < 2 ^ N.of_nat (nv l) -> exists r, D_set_value l m v = Ok r.
Proof. exact set_value_valid. Qed.
Theorem C17_set_value_no_debug : forall l m v, D_set_value l m v <> PanicDebug.
Proof. exact set_value_no_debug. Qed.

(* ---- flip, swap, swap_adjacent, cofactors, from_cofactors: variable indices *)
Theorem C17_flip_invalid : forall l ind, N.of_nat (nv l) <= ind -> D_flip l ind = PanicAlways.
Proof. exact flip_invalid. Qed.
Theorem C17_flip_valid : forall l ind, lwf l -> ind < N.of_nat (nv l) -> exists r, D_flip l ind = Ok r.
Proof. exact flip_valid. Qed.
Theorem C17_flip_no_debug : forall l ind, lwf l -> D_flip l ind <> PanicDebug.
Proof. exact flip_no_debug. Qed.

Theorem C17_swap_invalid : forall l i j, N.of_nat (nv l) <= i \/ N.of_nat (nv l) <= j -> D_swap l i j = PanicAlways.
Proof. exact swap_invalid. Qed.
Theorem C17_swap_valid : forall l i j, lwf l -> i < N.of_nat (nv l) -> j < N.of_nat (nv l) ->
  exists r, D_swap l i j = Ok r.
Proof. exact swap_valid. Qed.
Theorem C17_swap_no_debug : forall l i j, lwf l -> D_swap l i j <> PanicDebug.
Proof. exact swap_no_debug. Qed.

(* swap_adjacent(ind) uses ind and ind + 1: ind = num_vars - 1 is invalid.  check_var(ind) fires before ind + 1 is
   computed, so ind = usize::MAX is a PanicAlways and not an overflow (num_vars < 2^64: it is a usize) *)
Theorem C17_swap_adjacent_invalid : forall l ind, N.of_nat (nv l) <= ind + 1 -> D_swap_adjacent l ind = PanicAlways.
Proof. exact swap_adjacent_invalid. Qed.
Theorem C17_swap_adjacent_valid : forall l ind, N.of_nat (nv l) < 2 ^ 64 -> lwf l -> ind + 1 < N.of_nat (nv l) ->
  exists r, D_swap_adjacent l ind = Ok r.
Proof. exact swap_adjacent_valid. Qed.
Theorem C17_swap_adjacent_no_debug : forall l ind, N.of_nat (nv l) < 2 ^ 64 -> lwf l ->
  D_swap_adjacent l ind <> PanicDebug.
Proof. exact swap_adjacent_no_debug. Qed.
Theorem C17_swap_adjacent_usize_max : forall l,
  D_swap_adjacent l 0xffffffffffffffff = PanicAlways \/ 2 ^ 64 <= N.of_nat (nv l).
Proof. exact swap_adjacent_usize_max. Qed.

Theorem C17_cofactors_invalid : forall l ind, N.of_nat (nv l) <= ind -> D_cofactors l ind = PanicAlways.
Proof. exact cofactors_invalid. Qed.
Theorem C17_cofactors_valid : forall l ind, lwf l -> ind < N.of_nat (nv l) -> exists r, D_cofactors l ind = Ok r.
Proof. exact cofactors_valid. Qed.
Theorem C17_cofactors_no_debug : forall l ind, lwf l -> D_cofactors l ind <> PanicDebug.
Proof. exact cofactors_no_debug. Qed.

Theorem C17_from_cofactors_invalid : forall c0 c1 ind, nv c0 <> nv c1 \/ N.of_nat (nv c0) <= ind ->
  D_from_cofactors c0 c1 ind = PanicAlways.
Proof. exact from_cofactors_invalid. Qed.
Theorem C17_from_cofactors_valid : forall c0 c1 ind, lwf c0 -> lwf c1 -> nv c0 = nv c1 -> ind < N.of_nat (nv c0) ->
  exists r, D_from_cofactors c0 c1 ind = Ok r.
Proof. exact from_cofactors_valid. Qed.
Theorem C17_from_cofactors_no_debug : forall c0 c1 ind, lwf c0 -> lwf c1 -> D_from_cofactors c0 c1 ind <> PanicDebug.
Proof. exact from_cofactors_no_debug. Qed.

(* LutN::from_cofactors: c0 and c1 have the same N by typing *)
Theorem C17_from_cofactors_static_invalid : forall c0 c1 ind, N.of_nat (nv c0) <= ind ->
  S_from_cofactors c0 c1 ind = PanicAlways.
Proof. exact S_from_cofactors_invalid. Qed.
Theorem C17_from_cofactors_static_valid : forall c0 c1 ind, lwf c0 -> lwf c1 -> nv c0 = nv c1 ->
  ind < N.of_nat (nv c0) -> exists r, S_from_cofactors c0 c1 ind = Ok r.
Proof. exact S_from_cofactors_valid. Qed.
Theorem C17_from_cofactors_static_no_debug : forall c0 c1 ind, lwf c0 -> lwf c1 -> nv c0 = nv c1 ->
  S_from_cofactors c0 c1 ind <> PanicDebug.
Proof. exact S_from_cofactors_no_debug. Qed.

(* ---- and, or, xor (every syntactic form forwards to these): a second table *)
Theorem C17_and_invalid : forall a b, nv a <> nv b -> D_and a b = PanicAlways.
Proof. exact and_invalid. Qed.
Theorem C17_and_valid : forall a b, lwf a -> lwf b -> nv a = nv b -> exists r, D_and a b = Ok r.
Proof. exact and_valid. Qed.
Theorem C17_and_no_debug : forall a b, lwf a -> lwf b -> D_and a b <> PanicDebug.
Proof. exact and_no_debug. Qed.

Theorem C17_or_invalid : forall a b, nv a <> nv b -> D_or a b = PanicAlways.
Proof. exact or_invalid. Qed.
Theorem C17_or_valid : forall a b, lwf a -> lwf b -> nv a = nv b -> exists r, D_or a b = Ok r.
Proof. exact or_valid. Qed.
Theorem C17_or_no_debug : forall a b, lwf a -> lwf b -> D_or a b <> PanicDebug.
Proof. exact or_no_debug. Qed.

Theorem C17_xor_invalid : forall a b, nv a <> nv b -> D_xor a b = PanicAlways.
Proof. exact xor_invalid. Qed.
Theorem C17_xor_valid : forall a b, lwf a -> lwf b -> nv a = nv b -> exists r, D_xor a b = Ok r.
Proof. exact xor_valid. Qed.
Theorem C17_xor_no_debug : forall a b, lwf a -> lwf b -> D_xor a b <> PanicDebug.
Proof. exact xor_no_debug. Qed.

(* ---- from_blocks (Lut and LutN): a block slice *)
Theorem C17_from_blocks_invalid : forall n blocks, List.length blocks <> table_size n -> D_from_blocks n blocks = PanicAlways.
Proof. exact from_blocks_invalid. Qed.
Theorem C17_from_blocks_valid : forall n blocks, List.length blocks = table_size n -> exists r, D_from_blocks n blocks = Ok r.
Proof. exact from_blocks_valid. Qed.
Theorem C17_from_blocks_no_debug : forall n blocks, D_from_blocks n blocks <> PanicDebug.
Proof. exact from_blocks_no_debug. Qed.

Theorem C17_from_blocks_static_invalid : forall n blocks, List.length blocks <> table_size n ->
  S_from_blocks n blocks = PanicAlways.
Proof. exact S_from_blocks_invalid. Qed.
Theorem C17_from_blocks_static_valid : forall n blocks, List.length blocks = table_size n ->
  exists r, S_from_blocks n blocks = Ok r.
Proof. exact S_from_blocks_valid. Qed.
Theorem C17_from_blocks_static_no_debug : forall n blocks, S_from_blocks n blocks <> PanicDebug.
Proof. exact S_from_blocks_no_debug. Qed.

(* ---- nth_var *)
Theorem C17_nth_var_invalid : forall n v, N.of_nat n <= v -> D_nth_var n v = PanicAlways.
Proof. exact nth_var_invalid. Qed.
Theorem C17_nth_var_valid : forall n v, v < N.of_nat n -> exists r, D_nth_var n v = Ok r.
Proof. exact nth_var_valid. Qed.
Theorem C17_nth_var_no_debug : forall n v, D_nth_var n v <> PanicDebug.
Proof. exact nth_var_no_debug. Qed.

(* ---- top_decomposition, is_pos_unate, is_neg_unate: guarded by the kernel's assert!; no PanicDebug for any table *)
Theorem C17_top_decomposition_invalid : forall l v, N.of_nat (nv l) <= v -> D_top_decomposition l v = PanicAlways.
Proof. exact top_decomposition_invalid. Qed.
Theorem C17_top_decomposition_valid : forall l v, lwf l -> v < N.of_nat (nv l) ->
  exists r, D_top_decomposition l v = Ok r.
Proof. exact top_decomposition_valid. Qed.
Theorem C17_top_decomposition_no_debug : forall l v, D_top_decomposition l v <> PanicDebug.
Proof. exact top_decomposition_no_debug. Qed.

Theorem C17_is_pos_unate_invalid : forall l v, N.of_nat (nv l) <= v -> D_is_pos_unate l v = PanicAlways.
Proof. exact is_pos_unate_invalid. Qed.
Theorem C17_is_pos_unate_valid : forall l v, lwf l -> v < N.of_nat (nv l) -> exists r, D_is_pos_unate l v = Ok r.
Proof. exact is_pos_unate_valid. Qed.
Theorem C17_is_pos_unate_no_debug : forall l v, D_is_pos_unate l v <> PanicDebug.
Proof. exact is_pos_unate_no_debug. Qed.

Theorem C17_is_neg_unate_invalid : forall l v, N.of_nat (nv l) <= v -> D_is_neg_unate l v = PanicAlways.
Proof. exact is_neg_unate_invalid. Qed.
Theorem C17_is_neg_unate_valid : forall l v, lwf l -> v < N.of_nat (nv l) -> exists r, D_is_neg_unate l v = Ok r.
Proof. exact is_neg_unate_valid. Qed.
Theorem C17_is_neg_unate_no_debug : forall l v, D_is_neg_unate l v <> PanicDebug.
Proof. exact is_neg_unate_no_debug. Qed.

(* ---- bdd_complexity: a list of tables; same_nv (l0 :: r) = every table of r has the num_vars of l0 *)
Theorem C17_bdd_complexity_invalid : forall luts, ~ same_nv luts -> D_bdd_complexity luts = PanicAlways.
Proof. exact bdd_complexity_invalid. Qed.
Theorem C17_bdd_complexity_valid : forall luts, Forall lwf luts -> same_nv luts ->
  exists r, D_bdd_complexity luts = Ok r.
Proof. exact bdd_complexity_valid. Qed.
Theorem C17_bdd_complexity_no_debug : forall luts, D_bdd_complexity luts <> PanicDebug.
Proof. exact bdd_complexity_no_debug. Qed.
Theorem C17_bdd_complexity_static_no_debug : forall n luts, S_bdd_complexity n luts <> PanicDebug.
Proof. exact S_bdd_complexity_no_debug. Qed.

(* ---- cmp: tables of different sizes are ordered by size - a value, never a panic *)
Theorem C17_cmp_different_nv : forall a b, nv a <> nv b -> D_cmp a b = Ok (Nat.compare (nv a) (nv b)).
Proof. exact cmp_different_nv. Qed.
Theorem C17_cmp_valid : forall a b, lwf a -> lwf b -> exists r, D_cmp a b = Ok r.
Proof. exact cmp_valid. Qed.
Theorem C17_cmp_no_debug : forall a b, lwf a -> lwf b -> D_cmp a b <> PanicDebug.
Proof. exact cmp_no_debug. Qed.

(* ---- count arguments: every k / count_values is valid; the successor and the iterator never panic *)
Theorem C17_threshold_ok : forall n k, (n < 64)%nat -> exists r, D_threshold n k = Ok r.
Proof. exact threshold_ok. Qed.
Theorem C17_equals_ok : forall n k, (n < 64)%nat -> exists r, D_equals n k = Ok r.
Proof. exact equals_ok. Qed.
Theorem C17_symmetric_ok : forall n cv, (n < 64)%nat -> cv < 2 ^ 64 -> exists r, D_symmetric n cv = Ok r.
Proof. exact symmetric_ok. Qed.
Theorem C17_next_inplace_ok : forall n t, wf n t -> exists r, next_inplace n t = Ok r.
Proof. exact next_inplace_ok. Qed.
Theorem C17_iter_next_ok : forall l ok, lwf l -> exists r, iter_next (l, ok) = Ok r.
Proof. exact iter_next_ok. Qed.

(* ---- summary over the enumeration of the index-taking calls (Proofs/Profile17.v):
   icall  : IGetBit l m | ISetBit l m | IUnsetBit l m | ISetValue l m v | IFlip l i | ISwap l i j | ISwapAdjacent l i |
            ICofactors l i | IFromCofactors c0 c1 i | ISFromCofactors c0 c1 i | IAnd a b | IOr a b | IXor a b |
            IFromBlocks n blocks | ISFromBlocks n blocks | INthVar n v | ITopDecomposition l i | IIsPosUnate l i |
            IIsNegUnate l i | IBddComplexity luts | ICmp a b
   irun c   = the result of the call with the value forgotten (res unit)
   ivalid c = assignment < 2^num_vars / index < num_vars (swap_adjacent: index + 1) / equal num_vars /
              length = table_size / True for cmp
   iwf c    = every Lut operand is well formed; swap_adjacent: num_vars < 2^64; LutN::from_cofactors: same N *)
Theorem C17_profile_independent : forall c, iwf c -> irun c <> PanicDebug.
Proof. exact profile_independent. Qed.
Theorem C17_invalid_panics : forall c, iwf c -> ~ ivalid c -> irun c = PanicAlways.
Proof. exact invalid_panics. Qed.
Theorem C17_valid_ok : forall c, iwf c -> ivalid c -> irun c = Ok tt.
Proof. exact valid_ok. Qed.
Theorem C17_outcome : forall c, iwf c -> (ivalid c /\ irun c = Ok tt) \/ (~ ivalid c /\ irun c = PanicAlways).
Proof. exact outcome. Qed.

(* ---- non-vacuity: 7-variable tables (two words), in-range and out-of-range arguments incl. usize::MAX *)
Example C17_nonvacuous :
  let t7 := mkLut 7 [0xdeadbeef; 0x0123456789abcdef] in
  let u7 := mkLut 7 [0x0123456789abcdef; 0xfedcba9876543210] in
  let t3 := mkLut 3 [0xe8] in
  lwf t7 /\ lwf u7 /\ lwf t3 /\
  map irun [IFlip t7 6; ISwap t7 6 2; ISwapAdjacent t7 5; IGetBit t7 127; ISetValue t7 127 false; ICofactors t7 6;
            IFromCofactors t7 u7 6; ISFromCofactors t7 u7 6; IAnd t7 u7; IFromBlocks 7 [1; 2]; ISFromBlocks 7 [1; 2];
            INthVar 7 6; ITopDecomposition t7 6; IIsPosUnate t7 6; IBddComplexity [t7; u7]; ICmp t7 t3]
    = repeat (Ok tt) 16 /\
  map irun [IFlip t7 7; IFlip t7 77; IFlip t7 0xffffffffffffffff; ISwap t7 2 7; ISwapAdjacent t7 6;
            ISwapAdjacent t7 0xffffffffffffffff; IGetBit t7 128; ISetValue t7 128 false; ICofactors t7 7;
            IFromCofactors t7 u7 7; IFromCofactors t7 t3 1; ISFromCofactors t7 u7 9; IAnd t7 t3; IXor t3 t7;
            IFromBlocks 7 [1]; ISFromBlocks 7 [1; 2; 3]; INthVar 7 7; ITopDecomposition t7 7; IIsPosUnate t7 70;
            IBddComplexity [t7; t3]]
    = repeat PanicAlways 20.
Proof.
  cbv zeta. split; [apply Proofs.Wf.wfb_wf; vm_compute; reflexivity|].
  split; [apply Proofs.Wf.wfb_wf; vm_compute; reflexivity|].
  split; [apply Proofs.Wf.wfb_wf; vm_compute; reflexivity|].
  split; vm_compute; reflexivity.
Qed.

(* the distinction is not vacuous either: the KERNELS called without the wrappers' guards do panic debug-only on the
   same invalid arguments (a release build would go on with garbage) - this is what the always-on guards prevent *)
Example C17_kernels_alone_are_profile_sensitive :
  swap_adjacent_inplace 7 [0xdeadbeef; 0x0123456789abcdef] 0xffffffffffffffff = PanicDebug /\
  flip_inplace 7 [0xdeadbeef; 0x0123456789abcdef] 7 = PanicDebug /\
  cofactor0_inplace 3 [0xe8] 5 = PanicDebug /\
  from_cofactors_inplace 3 [0] [0xe8] [0xe8] 3 = PanicDebug /\
  get_bit 7 [0xdeadbeef; 0x0123456789abcdef] 128 = PanicDebug /\
  and_inplace [0xdeadbeef; 0x0123456789abcdef] [0xe8] = PanicDebug.
Proof. repeat split; vm_compute; reflexivity. Qed.

Print Assumptions C17_params_classified.
Print Assumptions C17_param_table.
Print Assumptions C17_usize_names.
Print Assumptions C17_helpers_always_on.
Print Assumptions C17_every_index_guarded.
Print Assumptions C17_no_debug_guard_in_api.
Print Assumptions C17_operators_guarded.
Print Assumptions C17_api_method_count.
Print Assumptions C17_guard_table.
Print Assumptions C17_kernels_always_on.
Print Assumptions C17_profile_sensitive_kernels.
Print Assumptions C17_get_bit_invalid.
Print Assumptions C17_value_invalid.
Print Assumptions C17_get_bit_valid.
Print Assumptions C17_get_bit_no_debug.
Print Assumptions C17_set_bit_invalid.
Print Assumptions C17_set_bit_valid.
Print Assumptions C17_set_bit_no_debug.
Print Assumptions C17_unset_bit_invalid.
Print Assumptions C17_unset_bit_valid.
Print Assumptions C17_unset_bit_no_debug.
Print Assumptions C17_set_value_invalid.
Print Assumptions C17_set_value_valid.
Print Assumptions C17_set_value_no_debug.
Print Assumptions C17_flip_invalid.
Print Assumptions C17_flip_valid.
Print Assumptions C17_flip_no_debug.
Print Assumptions C17_swap_invalid.
Print Assumptions C17_swap_valid.
Print Assumptions C17_swap_no_debug.
Print Assumptions C17_swap_adjacent_invalid.
Print Assumptions C17_swap_adjacent_valid.
Print Assumptions C17_swap_adjacent_no_debug.
Print Assumptions C17_swap_adjacent_usize_max.
Print Assumptions C17_cofactors_invalid.
Print Assumptions C17_cofactors_valid.
Print Assumptions C17_cofactors_no_debug.
Print Assumptions C17_from_cofactors_invalid.
Print Assumptions C17_from_cofactors_valid.
Print Assumptions C17_from_cofactors_no_debug.
Print Assumptions C17_from_cofactors_static_invalid.
Print Assumptions C17_from_cofactors_static_valid.
Print Assumptions C17_from_cofactors_static_no_debug.
Print Assumptions C17_and_invalid.
Print Assumptions C17_and_valid.
Print Assumptions C17_and_no_debug.
Print Assumptions C17_or_invalid.
Print Assumptions C17_or_valid.
Print Assumptions C17_or_no_debug.
Print Assumptions C17_xor_invalid.
Print Assumptions C17_xor_valid.
Print Assumptions C17_xor_no_debug.
Print Assumptions C17_from_blocks_invalid.
Print Assumptions C17_from_blocks_valid.
Print Assumptions C17_from_blocks_no_debug.
Print Assumptions C17_from_blocks_static_invalid.
Print Assumptions C17_from_blocks_static_valid.
Print Assumptions C17_from_blocks_static_no_debug.
Print Assumptions C17_nth_var_invalid.
Print Assumptions C17_nth_var_valid.
Print Assumptions C17_nth_var_no_debug.
Print Assumptions C17_top_decomposition_invalid.
Print Assumptions C17_top_decomposition_valid.
Print Assumptions C17_top_decomposition_no_debug.
Print Assumptions C17_is_pos_unate_invalid.
Print Assumptions C17_is_pos_unate_valid.
Print Assumptions C17_is_pos_unate_no_debug.
Print Assumptions C17_is_neg_unate_invalid.
Print Assumptions C17_is_neg_unate_valid.
Print Assumptions C17_is_neg_unate_no_debug.
Print Assumptions C17_bdd_complexity_invalid.
Print Assumptions C17_bdd_complexity_valid.
Print Assumptions C17_bdd_complexity_no_debug.
Print Assumptions C17_bdd_complexity_static_no_debug.
Print Assumptions C17_cmp_different_nv.
Print Assumptions C17_cmp_valid.
Print Assumptions C17_cmp_no_debug.
Print Assumptions C17_threshold_ok.
Print Assumptions C17_equals_ok.
Print Assumptions C17_symmetric_ok.
Print Assumptions C17_next_inplace_ok.
Print Assumptions C17_iter_next_ok.
Print Assumptions C17_profile_independent.
Print Assumptions C17_invalid_panics.
Print Assumptions C17_valid_ok.
Print Assumptions C17_outcome.
