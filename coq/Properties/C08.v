(* C08 - the order on truth tables is the numeric order of the table read as one number (word 0 least
   significant, bit m = value on assignment m); the successor is +1 modulo 2^(2^n); all_functions enumerates
   every function of n variables exactly once, in increasing order, then stops.
   Statements only; proofs are in Proofs/Order.v (which also defines [big], [iter_after], [iter_item]). *)
From Coq Require Import List NArith Bool.
From V Require Proofs.ExprsTie3.  (* whole-word regimes, fill_symmetric, text widths: regenerated from the Rust source, equal the model's *)
From V Require Proofs.ExprsTie.   (* the kernels' word-level expressions, regenerated from the Rust source, equal the model's *)
From V Require Import Checkers.Check Proofs.CheckSound.   (* the extracted checkers and their soundness proofs, pinned at the end of this file *)
From V Require Import Base.Res Model.Kernels Model.Api Spec.Bfun Proofs.Order.
From V Require Import Proofs.ApiTransforms Proofs.HexOrder.
Import ListNotations.
Open Scope N_scope.

(* ---- 1. the kernel comparison is the comparison of the numbers *)
Theorem C08_cmp_big : forall a b, length a = length b ->
  Forall (fun w => w < 2 ^ 64) a -> Forall (fun w => w < 2 ^ 64) b ->
  cmp a b = Ok (big a ?= big b).
Proof. exact cmp_big. Qed.

(* ---- 2. the number: bit m is the value on assignment m; it is below 2^(2^n) *)
Theorem C08_big_val : forall n t, wf n t -> forall m, N.testbit (big t) m = val t m.
Proof. exact big_val. Qed.

Theorem C08_big_lt : forall n t, wf n t -> big t < 2 ^ (2 ^ N.of_nat n).
Proof. exact big_lt. Qed.

Theorem C08_big_inj : forall n a b, wf n a -> wf n b -> big a = big b -> a = b.
Proof. exact wf_big_inj. Qed.

(* ---- 3. the API order and equality *)
Theorem C08_api_cmp : forall a b, wf (nv a) (tbl a) -> wf (nv b) (tbl b) ->
  (nv a <> nv b -> D_cmp a b = Ok (Nat.compare (nv a) (nv b))) /\
  (nv a = nv b -> D_cmp a b = Ok (big (tbl a) ?= big (tbl b))).
Proof. exact D_cmp_sem. Qed.

Theorem C08_api_cmp_total : forall a b, wf (nv a) (tbl a) -> wf (nv b) (tbl b) -> exists c, D_cmp a b = Ok c.
Proof. exact D_cmp_total. Qed.

Theorem C08_api_cmp_eq : forall a b, wf (nv a) (tbl a) -> wf (nv b) (tbl b) ->
  (D_cmp a b = Ok Eq <-> nv a = nv b /\ tbl a = tbl b).
Proof. exact D_cmp_eq. Qed.

Theorem C08_api_cmp_antisym : forall a b, wf (nv a) (tbl a) -> wf (nv b) (tbl b) ->
  (D_cmp a b = Ok Lt <-> D_cmp b a = Ok Gt).
Proof. exact D_cmp_antisym. Qed.

Theorem C08_api_cmp_trans : forall a b c, wf (nv a) (tbl a) -> wf (nv b) (tbl b) -> wf (nv c) (tbl c) ->
  D_cmp a b = Ok Lt -> D_cmp b c = Ok Lt -> D_cmp a c = Ok Lt.
Proof. exact D_cmp_trans. Qed.

Theorem C08_api_eq : forall a b, D_eq a b = true <-> nv a = nv b /\ tbl a = tbl b.
Proof. exact D_eq_sem. Qed.

Theorem C08_ext : forall n a b, wf n a -> wf n b ->
  (a = b <-> forall m, m < 2 ^ N.of_nat n -> val a m = val b m).
Proof. exact wf_ext. Qed.

Theorem C08_api_ext : forall a b, wf (nv a) (tbl a) -> wf (nv b) (tbl b) -> nv a = nv b ->
  (tbl a = tbl b <-> forall m, m < 2 ^ N.of_nat (nv a) -> val (tbl a) m = val (tbl b) m).
Proof. exact D_ext. Qed.

(* ---- 4. the successor kernel *)
Theorem C08_next_sem : forall n t, wf n t ->
  exists t' ok, next_inplace n t = Ok (t', ok) /\ wf n t' /\
                big t' = (big t + 1) mod 2 ^ (2 ^ N.of_nat n) /\ ok = negb (big t' =? 0).
Proof. exact next_sem. Qed.

(* ---- 5. the iterator: call number k (from 0) on all_functions(n) *)
Theorem C08_iter_some : forall n k, N.of_nat k < 2 ^ (2 ^ N.of_nat n) ->
  exists l, iter_item n k = Ok (Some l) /\ nv l = n /\ wf n (tbl l) /\ big (tbl l) = N.of_nat k.
Proof. exact iter_item_some. Qed.

Theorem C08_iter_none : forall n k, 2 ^ (2 ^ N.of_nat n) <= N.of_nat k -> iter_item n k = Ok None.
Proof. exact iter_item_none. Qed.

Theorem C08_iter_complete : forall n t, wf n t -> iter_item n (N.to_nat (big t)) = Ok (Some (mkLut n t)).
Proof. exact iter_complete. Qed.

Theorem C08_iter_unique : forall n k1 k2 l,
  iter_item n k1 = Ok (Some l) -> iter_item n k2 = Ok (Some l) -> k1 = k2.
Proof. exact iter_unique. Qed.

(* the hypotheses are satisfiable by non-trivial instances, and the definitions compute what they should *)
Example C08_nonvacuous_order :
  wf 7 [5; 1] /\ wf 7 [0; 2] /\ wf 3 [0xe8] /\
  big [5; 1] = 2 ^ 64 + 5 /\
  D_cmp (mkLut 7 [5; 1]) (mkLut 7 [0; 2]) = Ok Lt /\ D_cmp (mkLut 7 [5; 1]) (mkLut 3 [0xe8]) = Ok Gt.
Proof. repeat split; try (apply Proofs.Wf.wfb_wf); vm_compute; reflexivity. Qed.

Example C08_nonvacuous_next :
  wf 7 [0xffffffffffffffff; 0] /\ next_inplace 7 [0xffffffffffffffff; 0] = Ok ([0; 1], true) /\
  wf 3 [0xff] /\ next_inplace 3 [0xff] = Ok ([0], false).
Proof. repeat split; try (apply Proofs.Wf.wfb_wf); vm_compute; reflexivity. Qed.

Example C08_nonvacuous_iter :
  iter_item 2 5 = Ok (Some (mkLut 2 [5])) /\ iter_item 2 15 = Ok (Some (mkLut 2 [15])) /\
  iter_item 2 16 = Ok None /\ iter_item 2 40 = Ok None.
Proof. repeat split; vm_compute; reflexivity. Qed.

Print Assumptions C08_cmp_big.
Print Assumptions C08_big_val.
Print Assumptions C08_big_lt.
Print Assumptions C08_big_inj.
Print Assumptions C08_api_cmp.
Print Assumptions C08_api_cmp_total.
Print Assumptions C08_api_cmp_eq.
Print Assumptions C08_api_cmp_antisym.
Print Assumptions C08_api_cmp_trans.
Print Assumptions C08_api_eq.
Print Assumptions C08_ext.
Print Assumptions C08_api_ext.
Print Assumptions C08_next_sem.
Print Assumptions C08_iter_some.
Print Assumptions C08_iter_none.
Print Assumptions C08_iter_complete.
Print Assumptions C08_iter_unique.


(* ---- 6. the order matches the lexicographic order of the fixed-width hexadecimal (and binary) strings.
   Needs, in the header of this file:   From V Require Import Proofs.ApiTransforms Proofs.HexOrder.
   (Proofs/HexOrder.v depends on Proofs/Text.v: in _CoqProject this file must come after Proofs/HexOrder.v.)
   [bytes_compare] (Proofs/HexOrder.v) is the lexicographic comparison of byte strings - what Rust's Ord on
   `str`/`String` does; the printed forms are ASCII, so bytes are characters:
     Fixpoint bytes_compare (a b : list N) : comparison :=
       match a, b with
       | [], [] => Eq | [], _ => Lt | _, [] => Gt
       | x :: a', y :: b' => match x ?= y with Eq => bytes_compare a' b' | c => c end
       end.
   [lwf l] (Proofs/ApiTransforms.v) is [wf (nv l) (tbl l)]. *)
Theorem C08_bytes_compare_def :
  bytes_compare [] [] = Eq /\
  (forall y b, bytes_compare [] (y :: b) = Lt) /\
  (forall x a, bytes_compare (x :: a) [] = Gt) /\
  (forall x a y b, bytes_compare (x :: a) (y :: b) = match x ?= y with Eq => bytes_compare a b | c => c end).
Proof. exact bytes_compare_def. Qed.

Theorem C08_cmp_hex : forall n a b, wf n a -> wf n b ->
  cmp a b = Ok (bytes_compare (to_hex n a) (to_hex n b)).
Proof. exact cmp_hex. Qed.

Theorem C08_cmp_bin : forall n a b, wf n a -> wf n b ->
  cmp a b = Ok (bytes_compare (to_bin n a) (to_bin n b)).
Proof. exact cmp_bin. Qed.

Theorem C08_cmp_hex_api : forall a b, lwf a -> lwf b -> nv a = nv b ->
  D_cmp a b = Ok (bytes_compare (D_to_hex_string a) (D_to_hex_string b)).
Proof. exact cmp_hex_api. Qed.

Theorem C08_cmp_bin_api : forall a b, lwf a -> lwf b -> nv a = nv b ->
  D_cmp a b = Ok (bytes_compare (D_to_bin_string a) (D_to_bin_string b)).
Proof. exact cmp_bin_api. Qed.

(* the strings are equal iff the tables are equal: printing is injective on well-formed tables *)
Theorem C08_to_hex_inj : forall n a b, wf n a -> wf n b -> to_hex n a = to_hex n b -> a = b.
Proof. exact to_hex_inj. Qed.

Theorem C08_to_bin_inj : forall n a b, wf n a -> wf n b -> to_bin n a = to_bin n b -> a = b.
Proof. exact to_bin_inj. Qed.

(* non-trivial instances: two-word tables (n = 7); a letter digit against a decimal digit (n = 3: "e8" > "9f") *)
Example C08_nonvacuous_hexorder :
  wf 7 [5; 1] /\ wf 7 [0; 2] /\ wf 3 [0xe8] /\ wf 3 [0x9f] /\
  to_hex 3 [0xe8] = [101; 56] /\ to_hex 3 [0x9f] = [57; 102] /\
  cmp [0xe8] [0x9f] = Ok Gt /\ bytes_compare (to_hex 3 [0xe8]) (to_hex 3 [0x9f]) = Gt /\
  bytes_compare (to_bin 3 [0xe8]) (to_bin 3 [0x9f]) = Gt /\
  cmp [5; 1] [0; 2] = Ok Lt /\ bytes_compare (to_hex 7 [5; 1]) (to_hex 7 [0; 2]) = Lt /\
  bytes_compare (to_bin 7 [5; 1]) (to_bin 7 [0; 2]) = Lt /\
  lwf (mkLut 7 [5; 1]) /\ lwf (mkLut 7 [0; 2]) /\
  D_cmp (mkLut 7 [5; 1]) (mkLut 7 [0; 2]) = Ok Lt /\
  bytes_compare (D_to_hex_string (mkLut 7 [5; 1])) (D_to_hex_string (mkLut 7 [0; 2])) = Lt.
Proof. repeat split; try (apply Proofs.Wf.wfb_wf); vm_compute; reflexivity. Qed.

Print Assumptions C08_bytes_compare_def.
Print Assumptions C08_cmp_hex.
Print Assumptions C08_cmp_bin.
Print Assumptions C08_cmp_hex_api.
Print Assumptions C08_cmp_bin_api.
Print Assumptions C08_to_hex_inj.
Print Assumptions C08_to_bin_inj.


(* ---- soundness of the extracted checkers that decide this property's statement on the implementation's results *)
Theorem C08_checker_bigN_big : forall t,
  bigN t = big t.
Proof. exact CheckSound.bigN_big. Qed.

Theorem C08_checker_cmp_sound : forall na a nb b c,
  wf na a -> wf nb b ->
  (chk_cmp na a nb b c = true <-> D_cmp (mkLut na a) (mkLut nb b) = Ok c).
Proof. exact CheckSound.chk_cmp_sound. Qed.

Theorem C08_checker_next_iff : forall n a a' ok,
  chk_next n a a' ok = true <->
  wf n a' /\ big a' = (big a + 1) mod 2 ^ (2 ^ N.of_nat n) /\ ok = negb (big a' =? 0).
Proof. exact CheckSound.chk_next_iff. Qed.

Theorem C08_checker_next_sound : forall n a a' ok,
  wf n a ->
  (chk_next n a a' ok = true <-> next_inplace n a = Ok (a', ok)).
Proof. exact CheckSound.chk_next_sound. Qed.

Theorem C08_checker_eq_iff : forall na a nb b r,
  chk_eq na a nb b r = true <-> (r = true <-> na = nb /\ forall m, m < 2 ^ N.of_nat na -> val a m = val b m).
Proof. exact CheckSound.chk_eq_iff. Qed.

Theorem C08_checker_eq_sound : forall na a nb b r,
  wf na a -> wf nb b ->
  (chk_eq na a nb b r = true <-> D_eq (mkLut na a) (mkLut nb b) = r).
Proof. exact CheckSound.chk_eq_sound. Qed.

Print Assumptions C08_checker_bigN_big.
Print Assumptions C08_checker_cmp_sound.
Print Assumptions C08_checker_next_iff.
Print Assumptions C08_checker_next_sound.
Print Assumptions C08_checker_eq_iff.
Print Assumptions C08_checker_eq_sound.
