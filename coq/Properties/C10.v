(* C10 - converting LutN to Lut and back is the identity, conversion from Lut to LutN fails exactly when the
   variable counts differ, and the u8/u16/u32/u64 conversions of Lut3..Lut6 are bit-exact bijections
   (bit m of the integer is f(m)).
   A LutN value is modelled as a [lut] record (nv = N, tbl) whose table has table_size N words; the Rust type
   StaticLut<N, T> guarantees this for the 13 exported aliases (first group, proved from the generated list).
   Statements only; proofs are in Proofs/ConvProofs.v. *)
From Coq Require Import String List NArith Arith Bool.
From V Require Proofs.Agreement.
From V Require Import Base.Res Gen.Surface Model.Kernels Model.Api Spec.Bfun Proofs.ConvProofs.
Import ListNotations.
Open Scope N_scope.

(* ---- the exported aliases are LutN = StaticLut<N, table_size N> for N = 0..12 *)
Theorem C10_aliases_ok : forallb (fun '(name, n, t) => Nat.eqb t (table_size n)) aliases = true.
Proof. exact aliases_ok. Qed.

Theorem C10_aliases_vars : map (fun '(name, n, t) => n) aliases = seq 0 13.
Proof. exact aliases_vars. Qed.

Theorem C10_aliases_names :
  map (fun '(name, n, t) => name) aliases =
  ["Lut0"; "Lut1"; "Lut2"; "Lut3"; "Lut4"; "Lut5"; "Lut6"; "Lut7"; "Lut8"; "Lut9"; "Lut10"; "Lut11"; "Lut12"]%string.
Proof. exact aliases_names. Qed.

Theorem C10_alias_size : forall name n t, In (name, n, t) aliases -> t = table_size n /\ (n <= 12)%nat.
Proof. exact alias_size. Qed.

(* ---- 1. From<LutN> for Lut *)
Theorem C10_to_dyn : forall l, wf (nv l) (tbl l) -> D_from_static l = Ok l.
Proof. exact to_dyn. Qed.

Theorem C10_to_dyn_exact : forall l,
  (length (tbl l) = table_size (nv l) -> D_from_static l = Ok l) /\
  (length (tbl l) <> table_size (nv l) -> D_from_static l = PanicAlways).
Proof. exact to_dyn_exact. Qed.

(* ---- 2. TryFrom<Lut> for LutN : Err(()) exactly when the variable counts differ *)
Theorem C10_try_from_none : forall n l, S_try_from n l = Ok None <-> nv l <> n.
Proof. exact try_from_none. Qed.

Theorem C10_try_from_some : forall n l, nv l = n -> length (tbl l) = table_size n ->
  S_try_from n l = Ok (Some l).
Proof. exact try_from_some. Qed.

Theorem C10_try_from_panic : forall n l, nv l = n -> length (tbl l) <> table_size n ->
  S_try_from n l = PanicAlways.
Proof. exact try_from_panic. Qed.

Theorem C10_roundtrip : forall l d, wf (nv l) (tbl l) ->
  D_from_static l = Ok d -> S_try_from (nv l) d = Ok (Some l).
Proof. exact roundtrip. Qed.

Theorem C10_roundtrip_len : forall l d, length (tbl l) = table_size (nv l) ->
  D_from_static l = Ok d -> S_try_from (nv l) d = Ok (Some l).
Proof. exact roundtrip_len. Qed.

Theorem C10_roundtrip_back : forall n d s, S_try_from n d = Ok (Some s) ->
  s = d /\ nv d = n /\ D_from_static s = Ok d.
Proof. exact roundtrip_back. Qed.

(* ---- 3. from_blocks *)
Theorem C10_D_from_blocks_ok : forall n blocks, length blocks = table_size n ->
  D_from_blocks n blocks = Ok (mkLut n blocks).
Proof. exact D_from_blocks_ok. Qed.

Theorem C10_D_from_blocks_panic : forall n blocks, length blocks <> table_size n ->
  D_from_blocks n blocks = PanicAlways.
Proof. exact D_from_blocks_panic. Qed.

Theorem C10_S_from_blocks_ok : forall n blocks, length blocks = table_size n ->
  S_from_blocks n blocks = Ok (mkLut n blocks).
Proof. exact S_from_blocks_ok. Qed.

Theorem C10_S_from_blocks_panic : forall n blocks, length blocks <> table_size n ->
  S_from_blocks n blocks = PanicAlways.
Proof. exact S_from_blocks_panic. Qed.

Theorem C10_from_blocks_wf : forall n blocks, wf n blocks ->
  exists l, D_from_blocks n blocks = Ok l /\ S_from_blocks n blocks = Ok l /\
            nv l = n /\ tbl l = blocks /\ wf (nv l) (tbl l).
Proof. exact from_blocks_wf. Qed.

(* ---- 4. integers: int_pairs = [(3, 8); (4, 16); (5, 32); (6, 64)] *)
Theorem C10_int_pairs_def : int_pairs = [(3%nat, 8); (4%nat, 16); (5%nat, 32); (6%nat, 64)].
Proof. exact int_pairs_def. Qed.

Theorem C10_from_int : forall n w v, In (n, w) int_pairs -> v < 2 ^ w ->
  exists l, S_from_int n v = Ok l /\ l = mkLut n [v] /\ wf n (tbl l) /\ S_to_int n l = v /\
            forall m, m < 2 ^ N.of_nat n -> val (tbl l) m = N.testbit v m.
Proof. exact from_int_sem. Qed.

Theorem C10_to_int : forall n w l, In (n, w) int_pairs -> wf n (tbl l) -> nv l = n ->
  S_to_int n l < 2 ^ w /\ S_from_int n (S_to_int n l) = Ok l /\
  forall m, m < 2 ^ N.of_nat n -> N.testbit (S_to_int n l) m = val (tbl l) m.
Proof. exact to_int_sem. Qed.

(* the `as uN` truncation: bits above the integer width are dropped *)
Theorem C10_to_int_mod : forall n w l, In (n, w) int_pairs -> hd 0 (tbl l) < 2 ^ 64 ->
  S_to_int n l = hd 0 (tbl l) mod 2 ^ w.
Proof. exact to_int_mod. Qed.

(* ---- 5. accessors *)
Theorem C10_num_bits : forall l, num_bits l = 2 ^ N.of_nat (nv l).
Proof. exact num_bits_pow. Qed.

Theorem C10_num_blocks : forall l,
  num_blocks l = table_size (nv l) /\ num_blocks l = Nat.max 1 (2 ^ nv l / 64)%nat.
Proof. exact num_blocks_closed. Qed.

Theorem C10_table_size_closed : forall n, table_size n = Nat.max 1 (2 ^ n / 64)%nat.
Proof. exact table_size_closed. Qed.

(* ---- 6. equality and hashing are structural, hence extensional on well-formed values *)
Theorem C10_eq_iff : forall a b, D_eq a b = true <-> a = b.
Proof. exact D_eq_iff. Qed.

Theorem C10_hash_iff : forall a b, D_hash_input a = D_hash_input b <-> a = b.
Proof. exact D_hash_iff. Qed.

Theorem C10_static_hash_iff : forall a b, S_hash_input a = S_hash_input b <-> tbl a = tbl b.
Proof. exact S_hash_iff. Qed.

Theorem C10_eq_hash : forall a b, D_eq a b = true -> D_hash_input a = D_hash_input b.
Proof. exact D_eq_hash. Qed.

Theorem C10_eq_ext : forall a b, wf (nv a) (tbl a) -> wf (nv b) (tbl b) -> nv a = nv b ->
  (D_eq a b = true <-> forall m, m < 2 ^ N.of_nat (nv a) -> val (tbl a) m = val (tbl b) m).
Proof. exact D_eq_ext. Qed.

(* the hypotheses are satisfiable by non-trivial instances *)
Example C10_nonvacuous_conv :
  wf 7 [0xdeadbeef; 0x0123456789abcdef] /\
  D_from_static (mkLut 7 [0xdeadbeef; 0x0123456789abcdef]) = Ok (mkLut 7 [0xdeadbeef; 0x0123456789abcdef]) /\
  S_try_from 7 (mkLut 7 [0xdeadbeef; 0x0123456789abcdef]) = Ok (Some (mkLut 7 [0xdeadbeef; 0x0123456789abcdef])) /\
  S_try_from 6 (mkLut 7 [0xdeadbeef; 0x0123456789abcdef]) = Ok None /\
  D_from_blocks 7 [1] = PanicAlways.
Proof.
  split; [apply Proofs.Wf.wfb_wf; vm_compute; reflexivity|]. repeat split; vm_compute; reflexivity.
Qed.

Example C10_nonvacuous_int :
  In (3%nat, 8) int_pairs /\ 0xe8 < 2 ^ 8 /\ S_from_int 3 0xe8 = Ok (mkLut 3 [0xe8]) /\
  S_to_int 3 (mkLut 3 [0xe8]) = 0xe8 /\ wf 3 [0xe8] /\
  In (5%nat, 32) int_pairs /\ wf 5 [0xdeadbeef] /\ S_to_int 5 (mkLut 5 [0xdeadbeef]) = 0xdeadbeef /\
  S_to_int 4 (mkLut 4 [0xdeadbeefdeadbee8]) = 0xbee8.
Proof.
  split; [left; reflexivity|]. split; [vm_compute; reflexivity|]. split; [vm_compute; reflexivity|].
  split; [vm_compute; reflexivity|]. split; [apply Proofs.Wf.wfb_wf; vm_compute; reflexivity|].
  split; [right; right; left; reflexivity|]. split; [apply Proofs.Wf.wfb_wf; vm_compute; reflexivity|].
  split; vm_compute; reflexivity.
Qed.

Example C10_nonvacuous_eq :
  D_eq (mkLut 3 [0xe8]) (mkLut 3 [0xe8]) = true /\ D_eq (mkLut 3 [0xe8]) (mkLut 3 [0x17]) = false /\
  D_eq (mkLut 3 [0xe8]) (mkLut 4 [0xe8]) = false /\
  D_hash_input (mkLut 3 [0xe8]) <> D_hash_input (mkLut 4 [0xe8]) /\
  S_hash_input (mkLut 3 [0xe8]) = S_hash_input (mkLut 4 [0xe8]).
Proof.
  split; [vm_compute; reflexivity|]. split; [vm_compute; reflexivity|]. split; [vm_compute; reflexivity|].
  split; [intros H; discriminate H|reflexivity].
Qed.

(* ---- the LutN-specific model functions agree with the Lut ones on everything the Rust types admit *)
Theorem C10_from_cofactors_agree : forall c0 c1 ind, nv c0 = nv c1 -> S_from_cofactors c0 c1 ind = D_from_cofactors c0 c1 ind.
Proof. exact Proofs.Agreement.from_cofactors_agree. Qed.
Theorem C10_cmp_agree : forall a b, nv a = nv b -> S_cmp a b = D_cmp a b.
Proof. exact Proofs.Agreement.cmp_agree. Qed.
Theorem C10_from_blocks_agree : forall n blocks, S_from_blocks n blocks = D_from_blocks n blocks.
Proof. exact Proofs.Agreement.from_blocks_agree. Qed.
Theorem C10_bdd_agree : forall n l0 luts, Forall (fun l => nv l = n) (l0 :: luts) ->
  S_bdd_complexity n (l0 :: luts) = D_bdd_complexity (l0 :: luts).
Proof. exact Proofs.Agreement.bdd_agree. Qed.
Theorem C10_bdd_agree_empty : forall n, S_bdd_complexity n nil = D_bdd_complexity nil.
Proof. exact Proofs.Agreement.bdd_agree_empty. Qed.

Print Assumptions C10_aliases_ok.
Print Assumptions C10_aliases_vars.
Print Assumptions C10_aliases_names.
Print Assumptions C10_alias_size.
Print Assumptions C10_to_dyn.
Print Assumptions C10_to_dyn_exact.
Print Assumptions C10_try_from_none.
Print Assumptions C10_try_from_some.
Print Assumptions C10_try_from_panic.
Print Assumptions C10_roundtrip.
Print Assumptions C10_roundtrip_len.
Print Assumptions C10_roundtrip_back.
Print Assumptions C10_D_from_blocks_ok.
Print Assumptions C10_D_from_blocks_panic.
Print Assumptions C10_S_from_blocks_ok.
Print Assumptions C10_S_from_blocks_panic.
Print Assumptions C10_from_blocks_wf.
Print Assumptions C10_int_pairs_def.
Print Assumptions C10_from_int.
Print Assumptions C10_to_int.
Print Assumptions C10_to_int_mod.
Print Assumptions C10_num_bits.
Print Assumptions C10_num_blocks.
Print Assumptions C10_table_size_closed.
Print Assumptions C10_eq_iff.
Print Assumptions C10_hash_iff.
Print Assumptions C10_static_hash_iff.
Print Assumptions C10_eq_hash.
Print Assumptions C10_eq_ext.
Print Assumptions C10_from_cofactors_agree.
Print Assumptions C10_cmp_agree.
Print Assumptions C10_from_blocks_agree.
Print Assumptions C10_bdd_agree.
Print Assumptions C10_bdd_agree_empty.
