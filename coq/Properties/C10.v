(* C10 - converting LutN to Lut and back is the identity, conversion from Lut to LutN fails exactly when the
   variable counts differ, and the u8/u16/u32/u64 conversions of Lut3..Lut6 are bit-exact bijections
   (bit m of the integer is f(m)).
   A LutN value is modelled as a [lut] record (nv = N, tbl) whose table has table_size N words; the Rust type
   StaticLut<N, T> guarantees this for the 13 exported aliases (first group, proved from the generated list).
   Statements only; proofs are in Proofs/ConvProofs.v. *)
From Coq Require Import String List NArith Arith Bool.
From V Require Proofs.Agreement.
From V Require Import Checkers.Check Proofs.CheckSound.   (* the extracted checkers and their soundness proofs, pinned at the end of this file *)
From V Require Import Base.Res Gen.Surface Model.Kernels Model.Api Spec.Bfun Proofs.ConvProofs.
Import ListNotations.
Open Scope N_scope.

(* ---- the exported aliases are LutN = StaticLut<N, table_size N> for N = 0..12 *)
Theorem C10_aliases_ok : forallb (fun '(name, n, t) => Nat.eqb t (table_size n)) aliases = true.
Proof. exact aliases_ok. Qed.

Theorem C10_aliases_vars : map (fun '(name, n, t) => n) aliases = seq 0 13.
Proof. exact aliases_vars. Qed.

Theorem C10_aliases_names :
  map (fun '(name, n, t) => name) aliases =
  ["Lut0"; "Lut1"; "Lut2"; "Lut3"; "Lut4"; "Lut5"; "Lut6"; "Lut7"; "Lut8"; "Lut9"; "Lut10"; "Lut11"; "Lut12"]%string.
Proof. exact aliases_names. Qed.

Theorem C10_alias_size : forall name n t, In (name, n, t) aliases -> t = table_size n /\ (n <= 12)%nat.
Proof. exact alias_size. Qed.

(* ---- 1. From<LutN> for Lut *)
Theorem C10_to_dyn : forall l, wf (nv l) (tbl l) -> D_from_static l = Ok l.
Proof. exact to_dyn. Qed.

Theorem C10_to_dyn_exact : forall l,
  (length (tbl l) = table_size (nv l) -> D_from_static l = Ok l) /\
  (length (tbl l) <> table_size (nv l) -> D_from_static l = PanicAlways).
Proof. exact to_dyn_exact. Qed.

(* ---- 2. TryFrom<Lut> for LutN : Err(()) exactly when the variable counts differ *)
Theorem C10_try_from_none : forall n l, S_try_from n l = Ok None <-> nv l <> n.
Proof. exact try_from_none. Qed.

Theorem C10_try_from_some : forall n l, nv l = n -> length (tbl l) = table_size n ->
  S_try_from n l = Ok (Some l).
Proof. exact try_from_some. Qed.

Theorem C10_try_from_panic : forall n l, nv l = n -> length (tbl l) <> table_size n ->
  S_try_from n l = PanicAlways.
Proof. exact try_from_panic. Qed.

Theorem C10_roundtrip : forall l d, wf (nv l) (tbl l) ->
  D_from_static l = Ok d -> S_try_from (nv l) d = Ok (Some l).
Proof. exact roundtrip. Qed.

Theorem C10_roundtrip_len : forall l d, length (tbl l) = table_size (nv l) ->
  D_from_static l = Ok d -> S_try_from (nv l) d = Ok (Some l).
Proof. exact roundtrip_len. Qed.

Theorem C10_roundtrip_back : forall n d s, S_try_from n d = Ok (Some s) ->
  s = d /\ nv d = n /\ D_from_static s = Ok d.
Proof. exact roundtrip_back. Qed.

(* ---- 3. from_blocks *)
Theorem C10_D_from_blocks_ok : forall n blocks, length blocks = table_size n ->
  D_from_blocks n blocks = Ok (mkLut n blocks).
Proof. exact D_from_blocks_ok. Qed.

Theorem C10_D_from_blocks_panic : forall n blocks, length blocks <> table_size n ->
  D_from_blocks n blocks = PanicAlways.
Proof. exact D_from_blocks_panic. Qed.

Theorem C10_S_from_blocks_ok : forall n blocks, length blocks = table_size n ->
  S_from_blocks n blocks = Ok (mkLut n blocks).
Proof. exact S_from_blocks_ok. Qed.

Theorem C10_S_from_blocks_panic : forall n blocks, length blocks <> table_size n ->
  S_from_blocks n blocks = PanicAlways.
Proof. exact S_from_blocks_panic. Qed.

Theorem C10_from_blocks_wf : forall n blocks, wf n blocks ->
  exists l, D_from_blocks n blocks = Ok l /\ S_from_blocks n blocks = Ok l /\
            nv l = n /\ tbl l = blocks /\ wf (nv l) (tbl l).
Proof. exact from_blocks_wf. Qed.

(* ---- 4. integers: int_pairs = [(3, 8); (4, 16); (5, 32); (6, 64)] *)
Theorem C10_int_pairs_def : int_pairs = [(3%nat, 8); (4%nat, 16); (5%nat, 32); (6%nat, 64)].
Proof. exact int_pairs_def. Qed.

Theorem C10_from_int : forall n w v, In (n, w) int_pairs -> v < 2 ^ w ->
  exists l, S_from_int n v = Ok l /\ l = mkLut n [v] /\ wf n (tbl l) /\ S_to_int n l = v /\
            forall m, m < 2 ^ N.of_nat n -> val (tbl l) m = N.testbit v m.
Proof. exact from_int_sem. Qed.

Theorem C10_to_int : forall n w l, In (n, w) int_pairs -> wf n (tbl l) -> nv l = n ->
  S_to_int n l < 2 ^ w /\ S_from_int n (S_to_int n l) = Ok l /\
  forall m, m < 2 ^ N.of_nat n -> N.testbit (S_to_int n l) m = val (tbl l) m.
Proof. exact to_int_sem. Qed.

(* the `as uN` truncation: bits above the integer width are dropped *)
Theorem C10_to_int_mod : forall n w l, In (n, w) int_pairs -> hd 0 (tbl l) < 2 ^ 64 ->
  S_to_int n l = hd 0 (tbl l) mod 2 ^ w.
Proof. exact to_int_mod. Qed.

(* ---- 5. accessors *)
Theorem C10_num_bits : forall l, num_bits l = 2 ^ N.of_nat (nv l).
Proof. exact num_bits_pow. Qed.

Theorem C10_num_blocks : forall l,
  num_blocks l = table_size (nv l) /\ num_blocks l = Nat.max 1 (2 ^ nv l / 64)%nat.
Proof. exact num_blocks_closed. Qed.

Theorem C10_table_size_closed : forall n, table_size n = Nat.max 1 (2 ^ n / 64)%nat.
Proof. exact table_size_closed. Qed.

(* ---- 6. equality and hashing are structural, hence extensional on well-formed values *)
Theorem C10_eq_iff : forall a b, D_eq a b = true <-> a = b.
Proof. exact D_eq_iff. Qed.

Theorem C10_hash_iff : forall a b, D_hash_input a = D_hash_input b <-> a = b.
Proof. exact D_hash_iff. Qed.

Theorem C10_static_hash_iff : forall a b, S_hash_input a = S_hash_input b <-> tbl a = tbl b.
Proof. exact S_hash_iff. Qed.

Theorem C10_eq_hash : forall a b, D_eq a b = true -> D_hash_input a = D_hash_input b.
Proof. exact D_eq_hash. Qed.

Theorem C10_eq_ext : forall a b, wf (nv a) (tbl a) -> wf (nv b) (tbl b) -> nv a = nv b ->
  (D_eq a b = true <-> forall m, m < 2 ^ N.of_nat (nv a) -> val (tbl a) m = val (tbl b) m).
Proof. exact D_eq_ext. Qed.

(* the hypotheses are satisfiable by non-trivial instances *)
Example C10_nonvacuous_conv :
  wf 7 [0xdeadbeef; 0x0123456789abcdef] /\
  D_from_static (mkLut 7 [0xdeadbeef; 0x0123456789abcdef]) = Ok (mkLut 7 [0xdeadbeef; 0x0123456789abcdef]) /\
  S_try_from 7 (mkLut 7 [0xdeadbeef; 0x0123456789abcdef]) = Ok (Some (mkLut 7 [0xdeadbeef; 0x0123456789abcdef])) /\
  S_try_from 6 (mkLut 7 [0xdeadbeef; 0x0123456789abcdef]) = Ok None /\
  D_from_blocks 7 [1] = PanicAlways.
Proof.
  split; [apply Proofs.Wf.wfb_wf; vm_compute; reflexivity|]. repeat split; vm_compute; reflexivity.
Qed.

Example C10_nonvacuous_int :
  In (3%nat, 8) int_pairs /\ 0xe8 < 2 ^ 8 /\ S_from_int 3 0xe8 = Ok (mkLut 3 [0xe8]) /\
  S_to_int 3 (mkLut 3 [0xe8]) = 0xe8 /\ wf 3 [0xe8] /\
  In (5%nat, 32) int_pairs /\ wf 5 [0xdeadbeef] /\ S_to_int 5 (mkLut 5 [0xdeadbeef]) = 0xdeadbeef /\
  S_to_int 4 (mkLut 4 [0xdeadbeefdeadbee8]) = 0xbee8.
Proof.
  split; [left; reflexivity|]. split; [vm_compute; reflexivity|]. split; [vm_compute; reflexivity|].
  split; [vm_compute; reflexivity|]. split; [apply Proofs.Wf.wfb_wf; vm_compute; reflexivity|].
  split; [right; right; left; reflexivity|]. split; [apply Proofs.Wf.wfb_wf; vm_compute; reflexivity|].
  split; vm_compute; reflexivity.
Qed.

Example C10_nonvacuous_eq :
  D_eq (mkLut 3 [0xe8]) (mkLut 3 [0xe8]) = true /\ D_eq (mkLut 3 [0xe8]) (mkLut 3 [0x17]) = false /\
  D_eq (mkLut 3 [0xe8]) (mkLut 4 [0xe8]) = false /\
  D_hash_input (mkLut 3 [0xe8]) <> D_hash_input (mkLut 4 [0xe8]) /\
  S_hash_input (mkLut 3 [0xe8]) = S_hash_input (mkLut 4 [0xe8]).
Proof.
  split; [vm_compute; reflexivity|]. split; [vm_compute; reflexivity|]. split; [vm_compute; reflexivity|].
  split; [intros H; discriminate H|reflexivity].
Qed.

(* ---- the LutN-specific model functions agree with the Lut ones on everything the Rust types admit *)
Theorem C10_from_cofactors_agree : forall c0 c1 ind, nv c0 = nv c1 -> S_from_cofactors c0 c1 ind = D_from_cofactors c0 c1 ind.
Proof. exact Proofs.Agreement.from_cofactors_agree. Qed.
Theorem C10_cmp_agree : forall a b, nv a = nv b -> S_cmp a b = D_cmp a b.
Proof. exact Proofs.Agreement.cmp_agree. Qed.
Theorem C10_from_blocks_agree : forall n blocks, S_from_blocks n blocks = D_from_blocks n blocks.
Proof. exact Proofs.Agreement.from_blocks_agree. Qed.
Theorem C10_bdd_agree : forall n l0 luts, Forall (fun l => nv l = n) (l0 :: luts) ->
  S_bdd_complexity n (l0 :: luts) = D_bdd_complexity (l0 :: luts).
Proof. exact Proofs.Agreement.bdd_agree. Qed.
Theorem C10_bdd_agree_empty : forall n, S_bdd_complexity n nil = D_bdd_complexity nil.
Proof. exact Proofs.Agreement.bdd_agree_empty. Qed.

Print Assumptions C10_aliases_ok.
Print Assumptions C10_aliases_vars.
Print Assumptions C10_aliases_names.
Print Assumptions C10_alias_size.
Print Assumptions C10_to_dyn.
Print Assumptions C10_to_dyn_exact.
Print Assumptions C10_try_from_none.
Print Assumptions C10_try_from_some.
Print Assumptions C10_try_from_panic.
Print Assumptions C10_roundtrip.
Print Assumptions C10_roundtrip_len.
Print Assumptions C10_roundtrip_back.
Print Assumptions C10_D_from_blocks_ok.
Print Assumptions C10_D_from_blocks_panic.
Print Assumptions C10_S_from_blocks_ok.
Print Assumptions C10_S_from_blocks_panic.
Print Assumptions C10_from_blocks_wf.
Print Assumptions C10_int_pairs_def.
Print Assumptions C10_from_int.
Print Assumptions C10_to_int.
Print Assumptions C10_to_int_mod.
Print Assumptions C10_num_bits.
Print Assumptions C10_num_blocks.
Print Assumptions C10_table_size_closed.
Print Assumptions C10_eq_iff.
Print Assumptions C10_hash_iff.
Print Assumptions C10_static_hash_iff.
Print Assumptions C10_eq_hash.
Print Assumptions C10_eq_ext.
Print Assumptions C10_from_cofactors_agree.
Print Assumptions C10_cmp_agree.
Print Assumptions C10_from_blocks_agree.
Print Assumptions C10_bdd_agree.
Print Assumptions C10_bdd_agree_empty.


(* ---- Lut and StaticLut side by side, on the data REGENERATED FROM THE RUST SOURCE on every run (Gen/Guards.v: every
        fn of impl Lut / impl StaticLut with the ordered syntactic events of its body; Gen/Surface.v: trait impls,
        derives).  Definitions, proofs and negative examples are in Proofs/Surface10.v.
        pub_methods fs T        = names of the public inherent methods of impl T
        kernel_row fs deep m    = (m, kernels of Lut::m, kernels of StaticLut::m) where the kernels of a body are its
                                  calls of free functions of operations.rs / decomposition.rs / bdd.rs /
                                  canonization.rs, in order, after following `.g(..)` forwards inside the same impl
                                  (deep = true: also `Self::g(..)` / `Lut::g(..)` calls of functions of the same impl) *)
From Coq Require Import String.
From V Require Import Gen.Guards Gen.Surface Proofs.Guards17 Proofs.Surface10.
Open Scope nat_scope.
Open Scope string_scope.

(* (a) the same public methods *)
Theorem C10_common_methods :
  filter (fun m => mem m (pub_methods functions "StaticLut")) (pub_methods functions "Lut") =
  ["num_vars"; "num_bits"; "num_blocks"; "one"; "zero"; "nth_var"; "parity"; "majority"; "threshold"; "equals";
   "symmetric"; "random"; "value"; "get_bit"; "set_value"; "set_bit"; "unset_bit"; "not_inplace"; "and_inplace";
   "or_inplace"; "xor_inplace"; "flip_inplace"; "swap_inplace"; "swap_adjacent_inplace"; "not"; "and"; "or"; "xor";
   "flip"; "swap"; "swap_adjacent"; "cofactors"; "from_cofactors"; "blocks"; "from_blocks"; "p_canonization";
   "n_canonization"; "npn_canonization"; "top_decomposition"; "is_pos_unate"; "is_neg_unate"; "all_functions";
   "bdd_complexity"; "to_hex_string"; "to_bin_string"; "from_hex_string"].
Proof. exact s10_common_methods. Qed.

(* nothing on one side only *)
Theorem C10_lut_only :
  filter (fun m => negb (mem m (pub_methods functions "StaticLut"))) (pub_methods functions "Lut") = [].
Proof. exact s10_lut_only. Qed.

Theorem C10_static_only :
  filter (fun m => negb (mem m (pub_methods functions "Lut"))) (pub_methods functions "StaticLut") = [].
Proof. exact s10_static_only. Qed.

Theorem C10_method_names_unique :
  forallb (fun T => Nat.eqb (List.length (nodup string_dec (pub_methods functions T)))
                            (List.length (pub_methods functions T))) ["Lut"; "StaticLut"] = true /\
  map (fun T => List.length (pub_methods functions T)) ["Lut"; "StaticLut"] = [46; 46].
Proof. exact s10_method_names_unique. Qed.

(* (b) through the same kernels, in the same order.  The two exceptions are about storage, not about the function:
       zero        Lut::zero(n) = Lut::new(n) + kernel fill_zero; StaticLut::zero() = Self::default() = [0; T]
       from_blocks Lut asserts blocks.len() == ret.num_blocks() (-> table_size); StaticLut has T in its type and
                   relies on clone_from_slice alone (see C10_from_blocks_agree) *)
Theorem C10_same_kernels :
  forallb (fun m => mem m ["zero"; "from_blocks"] || same_kernels functions false m) (common_methods functions) = true.
Proof. exact s10_same_kernels. Qed.

Theorem C10_kernel_differences :
  filter (fun r => negb (same_kernels_upto [] r)) (map (kernel_row functions false) (common_methods functions)) =
  [("zero", ["fill_zero"], []); ("from_blocks", ["table_size"], [])].
Proof. exact s10_kernel_differences. Qed.

(* following the associated-function calls too: no exception at all once the allocation of the boxed table
   (table_size) and its clearing (fill_zero) - which StaticLut gets from its type - are set aside *)
Theorem C10_same_kernels_deep :
  forallb (fun m => same_kernels_upto ["table_size"; "fill_zero"] (kernel_row functions true m))
          (common_methods functions) = true.
Proof. exact s10_same_kernels_deep. Qed.

Theorem C10_kernel_table :
  map (kernel_row functions false) (common_methods functions) =
  [ ("num_vars", [], []); ("num_bits", [], []); ("num_blocks", ["table_size"], ["table_size"]);
    ("one", ["fill_one"], ["fill_one"]); ("zero", ["fill_zero"], []);
    ("nth_var", ["fill_nth_var"], ["fill_nth_var"]); ("parity", ["fill_parity"], ["fill_parity"]);
    ("majority", ["fill_majority"], ["fill_majority"]); ("threshold", ["fill_threshold"], ["fill_threshold"]);
    ("equals", ["fill_equals"], ["fill_equals"]); ("symmetric", ["fill_symmetric"], ["fill_symmetric"]);
    ("random", ["fill_random"], ["fill_random"]); ("value", ["get_bit"], ["get_bit"]);
    ("get_bit", ["get_bit"], ["get_bit"]); ("set_value", ["set_bit"; "unset_bit"], ["set_bit"; "unset_bit"]);
    ("set_bit", ["set_bit"], ["set_bit"]); ("unset_bit", ["unset_bit"], ["unset_bit"]);
    ("not_inplace", ["not_inplace"], ["not_inplace"]); ("and_inplace", ["and_inplace"], ["and_inplace"]);
    ("or_inplace", ["or_inplace"], ["or_inplace"]); ("xor_inplace", ["xor_inplace"], ["xor_inplace"]);
    ("flip_inplace", ["flip_inplace"], ["flip_inplace"]); ("swap_inplace", ["swap_inplace"], ["swap_inplace"]);
    ("swap_adjacent_inplace", ["swap_adjacent_inplace"], ["swap_adjacent_inplace"]);
    ("not", ["not_inplace"], ["not_inplace"]); ("and", ["and_inplace"], ["and_inplace"]);
    ("or", ["or_inplace"], ["or_inplace"]); ("xor", ["xor_inplace"], ["xor_inplace"]);
    ("flip", ["flip_inplace"], ["flip_inplace"]); ("swap", ["swap_inplace"], ["swap_inplace"]);
    ("swap_adjacent", ["swap_adjacent_inplace"], ["swap_adjacent_inplace"]);
    ("cofactors", ["cofactor0_inplace"; "cofactor1_inplace"], ["cofactor0_inplace"; "cofactor1_inplace"]);
    ("from_cofactors", ["from_cofactors_inplace"], ["from_cofactors_inplace"]); ("blocks", [], []);
    ("from_blocks", ["table_size"], []); ("p_canonization", ["p_canonization"], ["p_canonization"]);
    ("n_canonization", ["n_canonization"], ["n_canonization"]);
    ("npn_canonization", ["npn_canonization"], ["npn_canonization"]);
    ("top_decomposition", ["top_decomposition"], ["top_decomposition"]);
    ("is_pos_unate", ["input_pos_unate"], ["input_pos_unate"]);
    ("is_neg_unate", ["input_neg_unate"], ["input_neg_unate"]); ("all_functions", [], []);
    ("bdd_complexity", ["table_complexity"], ["table_complexity"]); ("to_hex_string", ["to_hex"], ["to_hex"]);
    ("to_bin_string", ["to_bin"], ["to_bin"]); ("from_hex_string", ["fill_hex"], ["fill_hex"]) ].
Proof. exact s10_kernel_table. Qed.

(* (c) the trait impls that are not logical operators (those are C01_operators_forward): Default, Ord, PartialOrd
       (through Ord::cmp), Display, LowerHex, Binary, and Iterator::next of the two iterator types *)
Theorem C10_same_kernels_traits :
  forallb (same_trait_kernels functions false []) trait_pairs = true /\
  forallb (same_trait_kernels functions true ["table_size"; "fill_zero"]) trait_pairs = true.
Proof. exact s10_same_kernels_traits. Qed.

Theorem C10_trait_kernel_table :
  map (trait_row functions false) trait_pairs =
  [ ("Default", [[]], [[]]); ("Ord", [["cmp"]], [["cmp"]]); ("PartialOrd", [["cmp"]], [["cmp"]]);
    ("fmt::Display", [["fmt_hex"]], [["fmt_hex"]]); ("fmt::LowerHex", [["fmt_hex"]], [["fmt_hex"]]);
    ("fmt::Binary", [["fmt_bin"]], [["fmt_bin"]]); ("Iterator", [["next_inplace"]], [["next_inplace"]]) ] /\
  trait_row functions true ("Default", "Lut", "StaticLut") = ("Default", [["table_size"; "fill_zero"]], [[]]).
Proof. exact s10_trait_kernel_table. Qed.

(* the same parameters: those of Lut::m without `num_vars` (the const generic N of StaticLut), `&Lut` = `&Self`;
   the methods of Lut that take num_vars are exactly the constructors *)
Theorem C10_same_signatures : forallb (same_signature functions) (common_methods functions) = true.
Proof. exact s10_same_signatures. Qed.

Theorem C10_num_vars_methods :
  filter (fun m => match find_method functions "Lut" m with
                   | Some a => mem "num_vars" (map fst (params_of a)) | None => false end) (common_methods functions) =
  ["one"; "zero"; "nth_var"; "parity"; "majority"; "threshold"; "equals"; "symmetric"; "random"; "from_blocks";
   "all_functions"; "from_hex_string"].
Proof. exact s10_num_vars_methods. Qed.

(* the same traits: the 27 trait impls of lut.rs are the 27 of static_lut.rs with StaticLut renamed to Lut, the
   conversions set aside (pinned below); the derives differ by Copy *)
Theorem C10_same_traits :
  same_set (impl_names "src/lut.rs" trait_impls) (impl_names "src/static_lut.rs" trait_impls) = true /\
  List.length (impl_names "src/lut.rs" trait_impls) = 27 /\
  List.length (impl_names "src/static_lut.rs" trait_impls) = 27.
Proof. exact s10_same_traits. Qed.

Theorem C10_conversions :
  flat_map (fun '(f, tr, ty, fns) => if mem f ["src/lut.rs"; "src/static_lut.rs"] && is_conversion tr
                                     then [(tr, ty)] else []) trait_impls =
  [("TryFrom<Lut>", "StaticLut"); ("From<StaticLut>", "Lut"); ("From<u8>", "Lut3"); ("From<u16>", "Lut4");
   ("From<u32>", "Lut5"); ("From<u64>", "Lut6"); ("From<Lut3>", "u8"); ("From<Lut4>", "u16"); ("From<Lut5>", "u32");
   ("From<Lut6>", "u64")].
Proof. exact s10_conversions. Qed.

Theorem C10_derives :
  derives_of "Lut" = ["Debug"; "Clone"; "Hash"; "PartialEq"; "Eq"] /\
  derives_of "StaticLut" = ["Debug"; "Clone"; "Copy"; "Hash"; "PartialEq"; "Eq"] /\
  filter (fun d => negb (mem d (derives_of "Lut"))) (derives_of "StaticLut") = ["Copy"] /\
  filter (fun d => negb (mem d (derives_of "StaticLut"))) (derives_of "Lut") = [].
Proof. exact s10_derives. Qed.

(* coverage of the model: every public inherent method of the two impls has a row in the table
   `modelled : list (method name * function of Model/Api.v)` of Proofs/Surface10.v (the right-hand names are anchored
   to the constants of Model/Api.v by `modelled_anchor`).  A new public method in the Rust source breaks this Qed. *)
Theorem C10_every_public_method_modelled :
  forallb (fun name => existsb (String.eqb name) (map fst modelled))
          (pub_methods functions "Lut" ++ pub_methods functions "StaticLut") = true.
Proof. exact s10_every_public_method_modelled_app. Qed.

Theorem C10_modelled_table :
  modelled =
  [ ("num_vars", "nv"); ("num_bits", "num_bits"); ("num_blocks", "num_blocks");
    ("one", "D_one"); ("zero", "D_zero"); ("nth_var", "D_nth_var"); ("parity", "D_parity");
    ("majority", "D_majority"); ("threshold", "D_threshold"); ("equals", "D_equals"); ("symmetric", "D_symmetric");
    ("random", "D_random");
    ("value", "D_value"); ("get_bit", "D_get_bit"); ("set_value", "D_set_value"); ("set_bit", "D_set_bit");
    ("unset_bit", "D_unset_bit");
    ("not_inplace", "D_not"); ("and_inplace", "D_and"); ("or_inplace", "D_or"); ("xor_inplace", "D_xor");
    ("flip_inplace", "D_flip"); ("swap_inplace", "D_swap"); ("swap_adjacent_inplace", "D_swap_adjacent");
    ("not", "D_not"); ("and", "D_and"); ("or", "D_or"); ("xor", "D_xor");
    ("flip", "D_flip"); ("swap", "D_swap"); ("swap_adjacent", "D_swap_adjacent");
    ("cofactors", "D_cofactors"); ("from_cofactors", "D_from_cofactors");
    ("blocks", "tbl"); ("from_blocks", "D_from_blocks");
    ("p_canonization", "D_p_canonization"); ("n_canonization", "D_n_canonization");
    ("npn_canonization", "D_npn_canonization");
    ("top_decomposition", "D_top_decomposition"); ("is_pos_unate", "D_is_pos_unate");
    ("is_neg_unate", "D_is_neg_unate");
    ("all_functions", "D_all_functions"); ("bdd_complexity", "D_bdd_complexity");
    ("to_hex_string", "D_to_hex_string"); ("to_bin_string", "D_to_bin_string");
    ("from_hex_string", "D_from_hex_string") ] /\
  modelled_static_variant =
  [ ("from_cofactors", "S_from_cofactors"); ("from_blocks", "S_from_blocks"); ("bdd_complexity", "S_bdd_complexity") ].
Proof. exact s10_modelled_table. Qed.

(* no stale row, no duplicate, 46 rows, none "(not modelled ...)"; the S_ variants are common methods *)
Theorem C10_modelled_exact :
  forallb (fun name => mem name (all_public_methods functions)) (map fst modelled) = true /\
  List.length (nodup string_dec (map fst modelled)) = List.length modelled /\
  List.length modelled = 46 /\
  filter (fun r => prefix "(not modelled" (snd r)) modelled = [] /\
  forallb (fun r => mem (fst r) (common_methods functions)) modelled_static_variant = true.
Proof. exact s10_modelled_exact. Qed.

(* the same for every trait impl of lut.rs / static_lut.rs and every derive of the two types; the only entry
   without a model counterpart is the derived Debug *)
Theorem C10_every_trait_impl_modelled :
  every_trait_impl_modelled trait_impls = true /\
  forallb (fun T => forallb (fun d => mem d (map fst modelled_derives)) (derives_of T)) ["Lut"; "StaticLut"] = true /\
  map fst (filter (fun r => prefix "(not modelled" (snd r)) (modelled_traits ++ modelled_derives)) = ["Debug"].
Proof. exact s10_every_trait_impl_modelled. Qed.

(* the predicates discriminate: a kernel exchanged on one side, a method made public, a new trait impl *)
Example C10_surface_predicates_discriminate :
  (let fs := edit "StaticLut" "" "flip_inplace" (with_events [CheckVar "ind"; Call "swap_inplace"; Method "as_mut"]) functions in
   filter (fun m => negb (mem m kernel_exceptions || same_kernels fs false m)) (common_methods fs) = ["flip_inplace"; "flip"]) /\
  every_public_method_modelled (edit "Lut" "" "check_var" (with_pub true) functions) = false /\
  every_trait_impl_modelled (("src/lut.rs", "Shl<usize>", "Lut", ["shl"]) :: trait_impls) = false.
Proof. exact (conj neg_other_kernel (conj (proj1 neg_new_public_method) (proj1 neg_new_trait_impl))). Qed.

Print Assumptions C10_common_methods.
Print Assumptions C10_lut_only.
Print Assumptions C10_static_only.
Print Assumptions C10_method_names_unique.
Print Assumptions C10_same_kernels.
Print Assumptions C10_kernel_differences.
Print Assumptions C10_same_kernels_deep.
Print Assumptions C10_kernel_table.
Print Assumptions C10_same_kernels_traits.
Print Assumptions C10_trait_kernel_table.
Print Assumptions C10_same_signatures.
Print Assumptions C10_num_vars_methods.
Print Assumptions C10_same_traits.
Print Assumptions C10_conversions.
Print Assumptions C10_derives.
Print Assumptions C10_every_public_method_modelled.
Print Assumptions C10_modelled_table.
Print Assumptions C10_modelled_exact.
Print Assumptions C10_every_trait_impl_modelled.


(* ---- soundness of the extracted checkers that decide this property's statement on the implementation's results *)
Open Scope N_scope.
Theorem C10_checker_table_iff : forall n t f,
  chk_table n t f = true <-> wf n t /\ forall m, m < 2 ^ N.of_nat n -> val t m = f m.
Proof. exact CheckSound.chk_table_iff. Qed.

Theorem C10_checker_table_unique : forall n t t' f,
  chk_table n t f = true -> chk_table n t' f = true -> t' = t.
Proof. exact CheckSound.chk_table_unique. Qed.

Print Assumptions C10_checker_table_iff.
Print Assumptions C10_checker_table_unique.
