(* C15 - Lut to Esop conversion yields the unique positive-polarity Reed-Muller form; ^ and ! on Esops are XOR
   and complement of the denoted functions; is_zero / is_one hold only for the respective constants.
   Statements only; proofs are in Proofs/EsopProofs.v.  Vocabulary (defined in Proofs/EsopProofs.v):
     subset s m : bool  := N.land s m =? s                 s is a sub-assignment of m
     pcube s    : cube  := mkCube s 0                       the all-positive cube on the variable set s
     esem cs m  : bool  := fold_left (fun r c => xorb r (cube_value c m)) cs false
     anf f n s  : bool  := fold_left xorb (map f (filter (fun k => subset k s) (assignments n))) false
                                                            XOR of f over all assignments (< 2^n) contained in s
     xsum g l   : bool  := fold_right (fun x r => xorb (g x) r) false l
   Bound used throughout for the conversion: n <= 32 (the width of a Cube mask). *)
From Coq Require Import List NArith Bool Sorted.
From V Require Import Spec.TwoLevelCost Checkers.Check Proofs.CheckSoundTwoLevel Proofs.CheckSoundCube.   (* the extracted checkers and their soundness proofs, pinned at the end of this file *)
From V Require Proofs.ExprsTie4.   (* the bodies of sop.rs / esop.rs / soes.rs (and the remaining functions of cube.rs / ecube.rs), regenerated from the Rust source, equal the model's *)
From V Require Import Proofs.Order.
From V Require Import Base.Res Model.Kernels Model.TwoLevel Spec.Bfun Proofs.EsopProofs.
Import ListNotations.
Open Scope N_scope.

(* ---- 1. denotation *)
Theorem C15_value_sem : forall s m, esop_value s m = esem (ecubes s) m.
Proof. exact esop_value_esem. Qed.

Theorem C15_pcube_value : forall s m, s < 2 ^ 32 -> cube_value (pcube s) m = subset s (m mod 2 ^ 32).
Proof. exact cube_value_pcube. Qed.

(* ---- 2. only positive literals, variables below n, strictly increasing (each cube once) *)
Theorem C15_positive : forall n t, (n <= 32)%nat -> wf n t ->
  exists ss, ecubes (esop_from_lut n t) = map pcube ss /\
             Forall (fun s => s < 2 ^ N.of_nat n) ss /\ StronglySorted N.lt ss.
Proof. exact esop_from_lut_positive. Qed.

Theorem C15_nodup : forall n t, (n <= 32)%nat -> wf n t -> NoDup (ecubes (esop_from_lut n t)).
Proof. exact esop_from_lut_NoDup. Qed.

Theorem C15_env : forall n t, env (esop_from_lut n t) = n.
Proof. exact esop_from_lut_env. Qed.

(* ---- 3. the form denotes the function *)
Theorem C15_roundtrip_sem : forall n t, (n <= 32)%nat -> wf n t ->
  forall m, m < 2 ^ N.of_nat n -> esop_value (esop_from_lut n t) m = val t m.
Proof. exact esop_from_lut_value. Qed.

(* ---- 4. converting back gives the table (modulo extensionality of well-formed tables, proved elsewhere) *)
Theorem C15_roundtrip :
  (forall n a b, wf n a -> wf n b -> (forall m, m < 2 ^ (N.of_nat n) -> val a m = val b m) -> a = b) ->
  forall n t, (n <= 32)%nat -> wf n t -> esop_to_lut (esop_from_lut n t) = t.
Proof. exact esop_roundtrip. Qed.

(* ---- 5. uniqueness *)
Theorem C15_positive_form_unique : forall n ss1 ss2, (n <= 32)%nat ->
  StronglySorted N.lt ss1 -> StronglySorted N.lt ss2 ->
  Forall (fun s => s < 2 ^ N.of_nat n) ss1 -> Forall (fun s => s < 2 ^ N.of_nat n) ss2 ->
  (forall m, m < 2 ^ N.of_nat n -> esem (map pcube ss1) m = esem (map pcube ss2) m) -> ss1 = ss2.
Proof. exact positive_form_unique. Qed.

Theorem C15_canonical : forall n t ss, (n <= 32)%nat -> wf n t ->
  StronglySorted N.lt ss -> Forall (fun s => s < 2 ^ N.of_nat n) ss ->
  (forall m, m < 2 ^ N.of_nat n -> esem (map pcube ss) m = val t m) ->
  ecubes (esop_from_lut n t) = map pcube ss.
Proof. exact esop_from_lut_canonical. Qed.

Theorem C15_equal_functions : forall n t1 t2, (n <= 32)%nat -> wf n t1 -> wf n t2 ->
  (forall m, m < 2 ^ N.of_nat n -> val t1 m = val t2 m) -> esop_from_lut n t1 = esop_from_lut n t2.
Proof. exact esop_from_lut_ext. Qed.

(* ---- 6. coefficient exactness *)
Theorem C15_anf : forall n t s, (n <= 32)%nat -> wf n t -> s < 2 ^ N.of_nat n ->
  (In (pcube s) (ecubes (esop_from_lut n t)) <-> anf (val t) n s = true).
Proof. exact esop_from_lut_anf. Qed.

Theorem C15_closed_form : forall n t, (n <= 32)%nat -> wf n t ->
  esop_from_lut n t = mkEsop n (map pcube (filter (anf (val t) n) (assignments n))).
Proof. exact esop_from_lut_closed_form. Qed.

Theorem C15_anf_inversion : forall n (f : N -> bool) m, (n <= 32)%nat -> m < 2 ^ N.of_nat n ->
  xsum (fun s => subset s m && anf f n s) (assignments n) = f m.
Proof. exact anf_inversion_fun. Qed.

(* ---- 7. operators *)
Theorem C15_xor_sem : forall a b, env a = env b ->
  exists r, esop_xor a b = Ok r /\ env r = env a /\
            forall m, esop_value r m = xorb (esop_value a m) (esop_value b m).
Proof. exact esop_xor_sem. Qed.

Theorem C15_xor_mismatch : forall a b, env a <> env b -> esop_xor a b = PanicAlways.
Proof. exact esop_xor_mismatch. Qed.

Theorem C15_not_sem : forall s m, esop_value (esop_not s) m = negb (esop_value s m).
Proof. exact esop_not_sem. Qed.

Theorem C15_not_env : forall s, env (esop_not s) = env s.
Proof. exact esop_not_env. Qed.

Theorem C15_is_zero_sound : forall s, esop_is_zero s = true -> forall m, esop_value s m = false.
Proof. exact esop_is_zero_sound. Qed.

Theorem C15_is_one_sound : forall s, esop_is_one s = true -> forall m, esop_value s m = true.
Proof. exact esop_is_one_sound. Qed.

Theorem C15_to_lut_sem : forall s,
  wf (env s) (esop_to_lut s) /\
  forall m, m < 2 ^ N.of_nat (env s) -> val (esop_to_lut s) m = esop_value s m.
Proof. exact esop_to_lut_sem. Qed.

(* the hypotheses are satisfiable by non-trivial instances *)
(* conversion: the 3-input majority 0xe8 = x0x1 ^ x0x2 ^ x1x2, and a 7-variable table with two distinct words *)
Example C15_nonvacuous_conversion :
  wf 3 [0xe8] /\ wf 7 [0xdeadbeef; 0x0123456789abcdef] /\
  esop_from_lut 3 [0xe8] = mkEsop 3 [pcube 3; pcube 5; pcube 6] /\
  StronglySorted N.lt [3; 5; 6] /\
  map (anf (val [0xe8]) 3) [0; 1; 2; 3; 4; 5; 6; 7] = [false; false; false; true; false; true; true; false] /\
  esop_to_lut (esop_from_lut 7 [0xdeadbeef; 0x0123456789abcdef]) = [0xdeadbeef; 0x0123456789abcdef].
Proof.
  split; [apply Proofs.Wf.wfb_wf; vm_compute; reflexivity|].
  split; [apply Proofs.Wf.wfb_wf; vm_compute; reflexivity|].
  split; [vm_compute; reflexivity|].
  split; [repeat constructor|].
  split; vm_compute; reflexivity.
Qed.

(* operators: matching and mismatching variable counts, a form recognised by is_one, one recognised by is_zero *)
Example C15_nonvacuous_operators :
  env (mkEsop 3 [pcube 3; mkCube 1 4]) = env (mkEsop 3 [pcube 5]) /\
  env (mkEsop 3 [pcube 3]) <> env (mkEsop 4 [pcube 3]) /\
  esop_is_one (esop_one 3) = true /\ esop_is_zero (esop_zero 3) = true /\
  esop_is_one (esop_not (esop_zero 3)) = true.
Proof. repeat split; try reflexivity. cbn [env]. discriminate. Qed.

(* the extensionality premise of C15_roundtrip discharged with Proofs/Order.v (wf_ext) *)
Theorem C15_roundtrip_closed : forall n t, (n <= 32)%nat -> wf n t -> esop_to_lut (esop_from_lut n t) = t.
Proof. exact (C15_roundtrip (fun n a b Ha Hb H => proj2 (wf_ext n a b Ha Hb) H)). Qed.

Print Assumptions C15_value_sem.
Print Assumptions C15_pcube_value.
Print Assumptions C15_positive.
Print Assumptions C15_nodup.
Print Assumptions C15_env.
Print Assumptions C15_roundtrip_sem.
Print Assumptions C15_roundtrip.
Print Assumptions C15_positive_form_unique.
Print Assumptions C15_canonical.
Print Assumptions C15_equal_functions.
Print Assumptions C15_anf.
Print Assumptions C15_closed_form.
Print Assumptions C15_anf_inversion.
Print Assumptions C15_xor_sem.
Print Assumptions C15_xor_mismatch.
Print Assumptions C15_not_sem.
Print Assumptions C15_not_env.
Print Assumptions C15_is_zero_sound.
Print Assumptions C15_is_one_sound.
Print Assumptions C15_to_lut_sem.
Print Assumptions C15_roundtrip_closed.


(* ---- soundness of the extracted checkers that decide this property's statement on the implementation's results *)
Theorem C15_checker_esop_result_iff : forall n r f,
  chk_esop_result n r f = true <-> forall m, m < 2 ^ N.of_nat n -> sem_xor r m = f m.
Proof. exact CheckSoundTwoLevel.chk_esop_result_iff. Qed.

Theorem C15_checker_esop_result_spec : forall n r f,
  chk_esop_result n r f = true <-> forall m, m < 2 ^ N.of_nat n -> EsopProofs.esem r m = f m.
Proof. exact CheckSoundTwoLevel.chk_esop_result_spec. Qed.

Theorem C15_checker_esop_xor_model : forall a b r,
  env a = env b -> esop_xor a b = Ok r ->
  env r = env a /\ chk_esop_result (env a) (ecubes r) (fun m => xorb (esop_value a m) (esop_value b m)) = true.
Proof. exact CheckSoundTwoLevel.chk_esop_xor_model. Qed.

Theorem C15_checker_esop_not_model : forall s,
  env (esop_not s) = env s /\
  chk_esop_result (env s) (ecubes (esop_not s)) (fun m => negb (esop_value s m)) = true.
Proof. exact CheckSoundTwoLevel.chk_esop_not_model. Qed.

Theorem C15_checker_increasing_iff : forall l,
  increasing l = true <-> StronglySorted N.lt l.
Proof. exact CheckSoundTwoLevel.increasing_iff. Qed.

Theorem C15_checker_esop_from_lut_iff : forall n t r,
  chk_esop_from_lut n t r = true <->
  Forall (fun c => cneg c = 0 /\ cpos c < 2 ^ N.of_nat n) r /\
  StronglySorted N.lt (map cpos r) /\
  forall m, m < 2 ^ N.of_nat n -> sem_xor r m = val t m.
Proof. exact CheckSoundTwoLevel.chk_esop_from_lut_iff. Qed.

Theorem C15_checker_esop_from_lut_spec : forall n t r,
  chk_esop_from_lut n t r = true <->
  exists ss, r = map EsopProofs.pcube ss /\ Forall (fun s => s < 2 ^ N.of_nat n) ss /\ StronglySorted N.lt ss /\
             forall m, m < 2 ^ N.of_nat n -> EsopProofs.esem (map EsopProofs.pcube ss) m = val t m.
Proof. exact CheckSoundTwoLevel.chk_esop_from_lut_spec. Qed.

Theorem C15_checker_esop_from_lut_model : forall n t,
  (n <= 32)%nat -> wf n t ->
  chk_esop_from_lut n t (ecubes (esop_from_lut n t)) = true.
Proof. exact CheckSoundTwoLevel.chk_esop_from_lut_model. Qed.

Theorem C15_checker_esop_from_lut_sound : forall n t r,
  (n <= 32)%nat -> wf n t ->
  (chk_esop_from_lut n t r = true <-> r = ecubes (esop_from_lut n t)).
Proof. exact CheckSoundTwoLevel.chk_esop_from_lut_sound. Qed.

Theorem C15_checker_spec_esop_value_model : forall s m,
  Forall CubeProofs.c32 (ecubes s) -> spec_esop_value (ecubes s) m = esop_value s m.
Proof. exact CheckSoundCube.spec_esop_value_model. Qed.

Theorem C15_checker_text_esop : forall s ms,
  Forall CubeProofs.c32 (ecubes s) ->
  chk_text (esop_display s) (spec_esop_value (ecubes s)) ms false = true.
Proof. exact CheckSoundCube.chk_text_esop. Qed.

Print Assumptions C15_checker_esop_result_iff.
Print Assumptions C15_checker_esop_result_spec.
Print Assumptions C15_checker_esop_xor_model.
Print Assumptions C15_checker_esop_not_model.
Print Assumptions C15_checker_increasing_iff.
Print Assumptions C15_checker_esop_from_lut_iff.
Print Assumptions C15_checker_esop_from_lut_spec.
Print Assumptions C15_checker_esop_from_lut_model.
Print Assumptions C15_checker_esop_from_lut_sound.
Print Assumptions C15_checker_spec_esop_value_model.
Print Assumptions C15_checker_text_esop.
