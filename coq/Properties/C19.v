(* C19 - random() yields well-formed, non-degenerate, call-independent functions.
   The generator is an external oracle: the model takes the stream of its outputs (one u64 per table word,
   arbitrary values) as an explicit list.  Statements only; proofs are in Proofs/RandomProofs.v. *)
From Coq Require Import List NArith Bool.
From V Require Import Base.Res Model.Kernels Model.Api Spec.Bfun Proofs.RandomProofs.
Import ListNotations.
Open Scope N_scope.

(* ---- 1. well-formed whatever the generator returns *)
Theorem C19_random_wf : forall n stream, (table_size n <= length stream)%nat ->
  wf n (tbl (D_random n stream)) /\ nv (D_random n stream) = n.
Proof. exact random_wf. Qed.

(* ---- 2. the value on assignment m is bit (m mod 64) of generator word (m / 64): distinct assignments read
        distinct generator bits, and nothing but generator bits *)
Theorem C19_random_bits : forall n stream m, (table_size n <= length stream)%nat -> m < 2 ^ N.of_nat n ->
  val (tbl (D_random n stream)) m = N.testbit (nth (N.to_nat (m / 64)) stream 0) (m mod 64).
Proof. exact random_bits. Qed.

Theorem C19_position_inj : forall m1 m2, m1 / 64 = m2 / 64 -> m1 mod 64 = m2 mod 64 -> m1 = m2.
Proof. exact position_inj. Qed.

Theorem C19_position_bit_lt : forall m, m mod 64 < 64.
Proof. exact position_bit_lt. Qed.

(* ---- 3. masking is uniform: w |-> (w & mask, w >> word_bits) is a bijection
        [0, 2^64) -> [0, 2^word_bits) x [0, 2^(64 - word_bits)) *)
Theorem C19_split_bounds : forall n w, w < 2 ^ 64 ->
  N.land (wrap64 w) (num_vars_mask n) < 2 ^ word_bits n /\
  N.shiftr w (word_bits n) < 2 ^ (64 - word_bits n).
Proof. exact split_bounds. Qed.

Theorem C19_split_reconstruct : forall n w,
  w = N.land w (num_vars_mask n) + 2 ^ word_bits n * N.shiftr w (word_bits n).
Proof. exact split_reconstruct. Qed.

Theorem C19_split_injective : forall n w1 w2,
  N.land w1 (num_vars_mask n) = N.land w2 (num_vars_mask n) ->
  N.shiftr w1 (word_bits n) = N.shiftr w2 (word_bits n) -> w1 = w2.
Proof. exact split_injective. Qed.

Theorem C19_split_surjective : forall n lo hi, lo < 2 ^ word_bits n -> hi < 2 ^ (64 - word_bits n) ->
  lo + 2 ^ word_bits n * hi < 2 ^ 64 /\
  N.land (wrap64 (lo + 2 ^ word_bits n * hi)) (num_vars_mask n) = lo /\
  N.shiftr (lo + 2 ^ word_bits n * hi) (word_bits n) = hi.
Proof. exact split_surjective. Qed.

(* every well-formed table is reachable: feed the table itself as the stream *)
Theorem C19_random_reaches : forall n t, wf n t -> D_random n t = mkLut n t.
Proof. exact random_reaches. Qed.

(* ---- 4. non-degeneracy and independence transfer from the generator to the functions *)
Theorem C19_random_eq_iff : forall n s1 s2, (table_size n <= length s1)%nat -> (table_size n <= length s2)%nat ->
  (D_random n s1 = D_random n s2 <->
   forall m, m < 2 ^ N.of_nat n ->
     N.testbit (nth (N.to_nat (m / 64)) s1 0) (m mod 64) = N.testbit (nth (N.to_nat (m / 64)) s2 0) (m mod 64)).
Proof. exact random_eq_iff. Qed.

Theorem C19_random_value_transfer : forall n ss m (b : bool),
  Forall (fun s => (table_size n <= length s)%nat) ss -> m < 2 ^ N.of_nat n ->
  ((exists s, In s ss /\ N.testbit (nth (N.to_nat (m / 64)) s 0) (m mod 64) = b) <->
   (exists d, In d (map (D_random n) ss) /\ val (tbl d) m = b)).
Proof. exact random_value_transfer. Qed.

Theorem C19_nondegenerate_transfer : forall n ss m,
  Forall (fun s => (table_size n <= length s)%nat) ss -> m < 2 ^ N.of_nat n ->
  existsb (fun s => N.testbit (nth (N.to_nat (m / 64)) s 0) (m mod 64)) ss = true ->
  existsb (fun s => negb (N.testbit (nth (N.to_nat (m / 64)) s 0) (m mod 64))) ss = true ->
  existsb (fun d => val (tbl d) m) (map (D_random n) ss) = true /\
  existsb (fun d => negb (val (tbl d) m)) (map (D_random n) ss) = true.
Proof. exact random_nondegenerate. Qed.

(* masked n s = the table_size n first words of s, each masked with num_vars_mask n *)
Theorem C19_masked_def : forall n s,
  masked n s = map (fun r => N.land (wrap64 r) (num_vars_mask n)) (firstn (table_size n) s).
Proof. exact masked_def. Qed.

Theorem C19_distinct_transfer : forall n ss, NoDup (map (masked n) ss) -> NoDup (map (D_random n) ss).
Proof. exact random_distinct. Qed.

Theorem C19_distinct_bits : forall n s1 s2 m,
  (table_size n <= length s1)%nat -> (table_size n <= length s2)%nat -> m < 2 ^ N.of_nat n ->
  N.testbit (nth (N.to_nat (m / 64)) s1 0) (m mod 64) <> N.testbit (nth (N.to_nat (m / 64)) s2 0) (m mod 64) ->
  D_random n s1 <> D_random n s2.
Proof. exact random_distinct_bits. Qed.

(* the hypotheses are satisfiable by non-trivial instances: a 7-variable draw from a stream that is longer than
   needed, a 3-variable draw whose generator word has junk above bit 8 (masked away), two draws that differ *)
Example C19_nonvacuous :
  D_random 7 [0xdeadbeefdeadbeef; 0x0123456789abcdef; 0x55] = mkLut 7 [0xdeadbeefdeadbeef; 0x0123456789abcdef] /\
  (table_size 7 <= length ([0xdeadbeefdeadbeef; 0x0123456789abcdef; 0x55]%N))%nat /\
  D_random 3 [0xdeadbeefdeadbee8] = mkLut 3 [0xe8] /\
  existsb (fun s => N.testbit (nth (N.to_nat (5 / 64)) s 0) (5 mod 64)) [[0xdeadbeefdeadbee8]; [0x17]] = true /\
  existsb (fun s => negb (N.testbit (nth (N.to_nat (5 / 64)) s 0) (5 mod 64))) [[0xdeadbeefdeadbee8]; [0x17]] = true /\
  NoDup (map (masked 3) [[0xdeadbeefdeadbee8]; [0x17]]).
Proof.
  split; [vm_compute; reflexivity|]. split; [vm_compute; repeat constructor|].
  split; [vm_compute; reflexivity|]. split; [vm_compute; reflexivity|]. split; [vm_compute; reflexivity|].
  vm_compute. constructor; [intros [H|[]]; discriminate H|]. constructor; [intros []|constructor].
Qed.

Print Assumptions C19_random_wf.
Print Assumptions C19_random_bits.
Print Assumptions C19_position_inj.
Print Assumptions C19_position_bit_lt.
Print Assumptions C19_split_bounds.
Print Assumptions C19_split_reconstruct.
Print Assumptions C19_split_injective.
Print Assumptions C19_split_surjective.
Print Assumptions C19_random_reaches.
Print Assumptions C19_random_eq_iff.
Print Assumptions C19_random_value_transfer.
Print Assumptions C19_nondegenerate_transfer.
Print Assumptions C19_masked_def.
Print Assumptions C19_distinct_transfer.
Print Assumptions C19_distinct_bits.
