(* C05 - canonization certificates: the permutation / complementation mask returned by p_canonization,
   n_canonization and npn_canonization maps the argument to the returned representative, for every n <= 8 and every
   well-formed table (symbolic); already-canonical inputs included (that is where the pinned code failed).
   cert_ok n f c perm mask  :=  perm is a permutation of 0..n-1, mask < 2^(n+1) and
                                 c(y) = f(x) xor mask[n]  with  x[perm[i]] = y[i] xor mask[i]   (Spec/Transform.v).
   Statements only; proofs are in Proofs/CanonWalk.v. *)
From Coq Require Import List NArith Bool.
From V Require Proofs.ExprsTie2.   (* expressions of cube.rs / ecube.rs / bdd.rs / canonization.rs, regenerated from the Rust source, equal the model's *)
From V Require Proofs.GrayAll Proofs.CanonAllN.
From V Require Proofs.SjtAll Proofs.CanonNpnAll.
From V Require Import Checkers.Check Proofs.CheckSound Proofs.CheckSoundCanon.   (* the extracted checkers and their soundness proofs, pinned at the end of this file *)
From V Require Import Base.Res Model.Kernels Model.Canon Spec.Bfun Spec.Transform Proofs.CanonWalk.
Import ListNotations.
Open Scope N_scope.

Theorem C05_npn : forall n t, (n <= 8)%nat -> wf n t ->
  exists c perm mask, npn_canonization n t = Ok (c, perm, mask) /\ wf n c /\ cert_ok n (val t) (val c) perm mask.
Proof. exact npn_cert. Qed.

Theorem C05_p : forall n t, (n <= 8)%nat -> wf n t ->
  exists c perm, p_canonization n t = Ok (c, perm) /\ wf n c /\ cert_ok n (val t) (val c) perm 0.
Proof. exact p_cert. Qed.

Theorem C05_n : forall n t, (n <= 8)%nat -> wf n t ->
  exists c mask, n_canonization n t = Ok (c, mask) /\ wf n c /\ cert_ok n (val t) (val c) (identity n) mask.
Proof. exact n_cert. Qed.

(* already-canonical inputs: the returned certificate fixes the table *)
Theorem C05_already_canonical : forall n t perm mask, (n <= 8)%nat -> wf n t ->
  npn_canonization n t = Ok (t, perm, mask) -> cert_ok n (val t) (val t) perm mask.
Proof. exact npn_already_canonical. Qed.

Theorem C05_already_canonical_p : forall n t perm, (n <= 8)%nat -> wf n t ->
  p_canonization n t = Ok (t, perm) -> cert_ok n (val t) (val t) perm 0.
Proof. exact p_already_canonical. Qed.

Theorem C05_already_canonical_n : forall n t mask, (n <= 8)%nat -> wf n t ->
  n_canonization n t = Ok (t, mask) -> cert_ok n (val t) (val t) (identity n) mask.
Proof. exact n_already_canonical. Qed.

(* non-vacuity: a non-canonical 3-variable table, its three representatives with non-trivial certificates checked
   by the executable certificate checker, and an already-canonical input *)
Example C05_nonvacuous :
  wf 3 [0xd4] /\
  npn_canonization 3 [0xd4] = Ok ([23], [1; 0; 2], 10) /\ cert_okb 3 (val [0xd4]) (val [23]) [1; 0; 2] 10 = true /\
  p_canonization 3 [0xd4] = Ok ([142], [1; 2; 0]) /\ cert_okb 3 (val [0xd4]) (val [142]) [1; 2; 0] 0 = true /\
  n_canonization 3 [0xd4] = Ok ([23], 9) /\ cert_okb 3 (val [0xd4]) (val [23]) [0; 1; 2] 9 = true /\
  wf 3 [23] /\ npn_canonization 3 [23] = Ok ([23], [0; 1; 2], 0) /\
  cert_okb 3 (val [23]) (val [23]) [0; 1; 2] 0 = true.
Proof.
  split; [apply Proofs.Wf.wfb_wf; vm_compute; reflexivity|].
  repeat (split; [vm_compute; reflexivity|]).
  split; [apply Proofs.Wf.wfb_wf; vm_compute; reflexivity|].
  split; vm_compute; reflexivity.
Qed.

Print Assumptions C05_npn.
Print Assumptions C05_p.
Print Assumptions C05_n.
Print Assumptions C05_already_canonical.
Print Assumptions C05_already_canonical_p.
Print Assumptions C05_already_canonical_n.

(* ---- N canonization beyond the property bound: for every n <= 31 (the limit is the u32 certificate mask), by a
        PROOF that the Gray-code flip sequence is a closed walk through all 2^(n+1) complementations (Proofs/GrayAll.v),
        not by computation *)
Theorem C05_n_general : forall n t, (n <= 31)%nat -> wf n t ->
  exists c mask, n_canonization n t = Ok (c, mask) /\ wf n c /\ cert_ok n (val t) (val c) (identity n) mask.
Proof. exact V.Proofs.CanonAllN.C05_n_general. Qed.
Theorem C05_gray_flips_general : forall n, (1 <= n)%nat ->
  let fl := generate_gray_flips n true in
  flips_valid n fl = true /\ flips_closed n fl = true /\ fl <> [] /\
  forall m, m < 2 ^ (N.of_nat n + 1) -> In m (masks_after n 0 fl).
Proof. exact V.Proofs.GrayAll.gray_flips_general. Qed.
Print Assumptions C05_n_general.
Print Assumptions C05_gray_flips_general.


(* ---- P and NPN canonization beyond the property bound (P: every n below the usize bound; NPN: every n <= 31, the
        limit is the u32 certificate mask), by PROOFS that the swap walk visits every permutation (Proofs/SjtAll.v) and
        the flip walk every complementation (Proofs/GrayAll.v); proofs in Proofs/SjtAll.v and Proofs/CanonNpnAll.v *)
Theorem C05_p_general : forall n t, N.of_nat n < 2 ^ 64 -> wf n t ->
  exists c perm, p_canonization n t = Ok (c, perm) /\ wf n c /\ cert_ok n (val t) (val c) perm 0.
Proof. exact V.Proofs.SjtAll.p_cert_general. Qed.
Theorem C05_npn_general : forall n t, (n <= 31)%nat -> wf n t ->
  exists c perm mask, npn_canonization n t = Ok (c, perm, mask) /\ wf n c /\ cert_ok n (val t) (val c) perm mask.
Proof. exact V.Proofs.CanonNpnAll.C05_npn_general. Qed.
Theorem C05_already_canonical_npn_general : forall n t perm mask, (n <= 31)%nat -> wf n t ->
  npn_canonization n t = Ok (t, perm, mask) -> cert_ok n (val t) (val t) perm mask.
Proof. exact V.Proofs.CanonNpnAll.C05_already_canonical_npn_general. Qed.
Print Assumptions C05_p_general.
Print Assumptions C05_npn_general.
Print Assumptions C05_already_canonical_npn_general.


(* ---- soundness of the extracted checkers that decide this property's statement on the implementation's results *)
Theorem C05_checker_is_permb_iff : forall n p,
  is_permb n p = true <-> is_perm n p.
Proof. exact CheckSoundCanon.is_permb_iff. Qed.

Theorem C05_checker_cert_okb_iff : forall n f c perm mask,
  cert_okb n f c perm mask = true <-> cert_ok n f c perm mask.
Proof. exact CheckSoundCanon.cert_okb_iff. Qed.

Theorem C05_checker_cert_iff : forall n f c perm mask,
  chk_cert n f c perm mask = true <-> wf n c /\ cert_ok n (val f) (val c) perm mask.
Proof. exact CheckSoundCanon.chk_cert_iff. Qed.

Theorem C05_checker_cert_p_model : forall n t c perm,
  (n <= 8)%nat -> wf n t ->
  p_canonization n t = Ok (c, perm) -> chk_cert n t c perm 0 = true.
Proof. exact CheckSoundCanon.chk_cert_p_model. Qed.

Theorem C05_checker_cert_n_model : forall n t c mask,
  (n <= 8)%nat -> wf n t ->
  n_canonization n t = Ok (c, mask) -> chk_cert n t c (identity n) mask = true.
Proof. exact CheckSoundCanon.chk_cert_n_model. Qed.

Theorem C05_checker_cert_npn_model : forall n t c perm mask,
  (n <= 8)%nat -> wf n t ->
  npn_canonization n t = Ok (c, perm, mask) -> chk_cert n t c perm mask = true.
Proof. exact CheckSoundCanon.chk_cert_npn_model. Qed.

Theorem C05_checker_cert_unique : forall n f c1 c2 perm mask,
  chk_cert n f c1 perm mask = true -> chk_cert n f c2 perm mask = true -> c1 = c2.
Proof. exact CheckSoundCanon.chk_cert_unique. Qed.

Print Assumptions C05_checker_is_permb_iff.
Print Assumptions C05_checker_cert_okb_iff.
Print Assumptions C05_checker_cert_iff.
Print Assumptions C05_checker_cert_p_model.
Print Assumptions C05_checker_cert_n_model.
Print Assumptions C05_checker_cert_npn_model.
Print Assumptions C05_checker_cert_unique.
