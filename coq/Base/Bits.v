(* Bit-level facts about N used throughout the proofs. *)
From Coq Require Import List NArith Arith Bool Lia.
From V Require Import Model.Kernels.
Import ListNotations.
Open Scope N_scope.

Arguments N.add : simpl never.
Arguments N.sub : simpl never.
Arguments N.mul : simpl never.
Arguments N.shiftl : simpl never.
Arguments N.shiftr : simpl never.
Arguments N.land : simpl never.
Arguments N.lor : simpl never.
Arguments N.lxor : simpl never.
Arguments N.testbit : simpl never.
Arguments N.pow : simpl never.
Arguments N.div : simpl never.
Arguments N.modulo : simpl never.

Lemma ones64_ones : ones64 = N.ones 64.
Proof. reflexivity. Qed.

Lemma ones64_succ : ones64 + 1 = 2 ^ 64.
Proof. reflexivity. Qed.

Lemma testbit_lt_pow2 x k p : x < 2 ^ k -> k <= p -> N.testbit x p = false.
Proof.
  intros Hx Hp. destruct (N.eq_dec x 0) as [->|Hz]; [apply N.bits_0|].
  apply N.bits_above_log2. apply N.log2_lt_pow2 in Hx; lia.
Qed.

Lemma lt_pow2_of_bits x k : (forall p, k <= p -> N.testbit x p = false) -> x < 2 ^ k.
Proof.
  intros H. destruct (N.eq_dec x 0) as [->|Hz]; [apply N.neq_0_lt_0, N.pow_nonzero; lia|].
  apply N.log2_lt_pow2; [lia|].
  destruct (N.lt_ge_cases (N.log2 x) k) as [L|L]; [exact L|].
  pose proof (N.bit_log2 x Hz) as Hb. rewrite (H _ L) in Hb. discriminate.
Qed.

Lemma ones64_spec p : N.testbit ones64 p = (p <? 64).
Proof.
  rewrite ones64_ones. destruct (N.ltb_spec p 64).
  - apply N.ones_spec_low; assumption.
  - apply N.ones_spec_high; assumption.
Qed.

Lemma wrap64_spec x p : N.testbit (wrap64 x) p = N.testbit x p && (p <? 64).
Proof. unfold wrap64. rewrite N.land_spec, ones64_spec. reflexivity. Qed.

Lemma wrap64_lt x : wrap64 x < 2 ^ 64.
Proof.
  apply lt_pow2_of_bits. intros p Hp. rewrite wrap64_spec.
  destruct (N.ltb_spec p 64); [lia|apply andb_false_r].
Qed.

Lemma wrap64_small x : x < 2 ^ 64 -> wrap64 x = x.
Proof.
  intros Hx. apply N.bits_inj. intro p. rewrite wrap64_spec.
  destruct (N.ltb_spec p 64); [apply andb_true_r|].
  rewrite (testbit_lt_pow2 x 64 p) by assumption. reflexivity.
Qed.

Lemma wrap64_mod x : wrap64 x = x mod 2 ^ 64.
Proof. unfold wrap64. rewrite ones64_ones. apply N.land_ones. Qed.

Lemma not64_spec x p : N.testbit (not64 x) p = xorb (N.testbit x p) (p <? 64).
Proof. unfold not64. rewrite N.lxor_spec, ones64_spec. reflexivity. Qed.

Lemma not64_spec_low x p : p < 64 -> N.testbit (not64 x) p = negb (N.testbit x p).
Proof.
  intros Hp. rewrite not64_spec. destruct (N.ltb_spec p 64); [|lia].
  destruct (N.testbit x p); reflexivity.
Qed.

Lemma not64_lt x : x < 2 ^ 64 -> not64 x < 2 ^ 64.
Proof.
  intros Hx. apply lt_pow2_of_bits. intros p Hp. rewrite not64_spec.
  rewrite (testbit_lt_pow2 x 64 p) by assumption.
  destruct (N.ltb_spec p 64); [lia|reflexivity].
Qed.

Lemma shl64_spec x s p :
  N.testbit (shl64 x s) p = (p <? 64) && (s <=? p) && N.testbit x (p - s).
Proof.
  unfold shl64. rewrite wrap64_spec.
  destruct (N.leb_spec s p).
  - rewrite N.shiftl_spec_high' by assumption. rewrite andb_true_r. apply andb_comm.
  - rewrite N.shiftl_spec_low by assumption. rewrite andb_false_r. reflexivity.
Qed.

Lemma shl64_lt x s : shl64 x s < 2 ^ 64.
Proof. apply wrap64_lt. Qed.

Lemma land_lt_l x y k : x < 2 ^ k -> N.land x y < 2 ^ k.
Proof.
  intros Hx. apply lt_pow2_of_bits. intros p Hp. rewrite N.land_spec.
  rewrite (testbit_lt_pow2 x k p) by assumption. reflexivity.
Qed.

Lemma land_lt_r x y k : y < 2 ^ k -> N.land x y < 2 ^ k.
Proof. rewrite N.land_comm. apply land_lt_l. Qed.

Lemma lor_lt x y k : x < 2 ^ k -> y < 2 ^ k -> N.lor x y < 2 ^ k.
Proof.
  intros Hx Hy. apply lt_pow2_of_bits. intros p Hp. rewrite N.lor_spec.
  rewrite (testbit_lt_pow2 x k p), (testbit_lt_pow2 y k p) by assumption. reflexivity.
Qed.

Lemma lxor_lt x y k : x < 2 ^ k -> y < 2 ^ k -> N.lxor x y < 2 ^ k.
Proof.
  intros Hx Hy. apply lt_pow2_of_bits. intros p Hp. rewrite N.lxor_spec.
  rewrite (testbit_lt_pow2 x k p), (testbit_lt_pow2 y k p) by assumption. reflexivity.
Qed.

Lemma shiftr_lt x s k : x < 2 ^ k -> N.shiftr x s < 2 ^ k.
Proof.
  intros Hx. apply lt_pow2_of_bits. intros p Hp. rewrite N.shiftr_spec'.
  apply (testbit_lt_pow2 x k); [assumption|lia].
Qed.

(* disjoint words add without carry *)
Lemma add_disjoint x y : N.land x y = 0 -> x + y = N.lor x y.
Proof.
  intros H. rewrite N.add_nocarry_lxor by exact H. apply N.lxor_lor. exact H.
Qed.

(* list helpers *)
Lemma nthN_map2 f (a b : list N) k :
  f 0 0 = 0 -> length a = length b -> nthN (map2 f a b) k = f (nthN a k) (nthN b k).
Proof.
  intros Hf. revert b k. induction a as [|x a IH]; intros [|y b] k Hl; simpl in Hl; try discriminate.
  - unfold nthN. destruct k; simpl; symmetry; exact Hf.
  - unfold nthN in *. destruct k; simpl; [reflexivity|]. apply IH. lia.
Qed.

Lemma map2_length {A B C} (f : A -> B -> C) a b : length a = length b -> length (map2 f a b) = length a.
Proof.
  revert b. induction a as [|x a IH]; intros [|y b] Hl; simpl in *; try discriminate; auto.
Qed.

Lemma Forall_map2 (P : N -> Prop) f (a b : list N) :
  length a = length b -> (forall x y, In x a -> In y b -> P (f x y)) -> Forall P (map2 f a b).
Proof.
  revert b. induction a as [|x a IH]; intros [|y b] Hl H; simpl in *; try discriminate; constructor.
  - apply H; auto.
  - apply IH; [lia|]. intros; apply H; auto.
Qed.

Lemma nthN_map f (a : list N) k : f 0 = 0 -> nthN (map f a) k = f (nthN a k).
Proof.
  intros Hf. unfold nthN. revert k. induction a as [|x a IH]; intros [|k]; simpl; auto.
Qed.

Lemma nthN_overflow (a : list N) k : (length a <= k)%nat -> nthN a k = 0.
Proof. intros. unfold nthN. apply nth_overflow. assumption. Qed.

Lemma nthN_In (a : list N) k : (k < length a)%nat -> In (nthN a k) a.
Proof. intros. unfold nthN. apply nth_In. assumption. Qed.
