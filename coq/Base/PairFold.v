(* Generic lemma for the sequential in-place loops of the cross-word regimes:
       for i in 0..len { if P i { (t[i], t[s i]) = g (t[i], t[s i]) } }
   Under "s maps P into not-P, injectively, inside the table" the sequential loop equals the parallel reading of
   the ORIGINAL table. The hypothesis s_lt is exactly "no index is out of bounds". *)
From Coq Require Import List Arith Lia Bool.
From V Require Import Model.Kernels.
Import ListNotations.

Section PairFold.
Variable A : Type.
Variable d : A.

Lemma upd_length (l : list A) i x : length (upd l i x) = length l.
Proof. revert i; induction l; destruct i; simpl; auto. Qed.

Lemma nth_upd (l : list A) i j x :
  i < length l -> nth j (upd l i x) d = if Nat.eqb j i then x else nth j l d.
Proof.
  revert i j; induction l as [|y r IH]; intros i j Hi; simpl in *; [lia|].
  destruct i, j; simpl; auto. apply IH. lia.
Qed.

Variable P : nat -> bool.
Variable s : nat -> nat.
Variable g : A -> A -> A * A.

Definition pstep (t : list A) (i : nat) : list A :=
  if P i then let '(a, b) := g (nth i t d) (nth (s i) t d) in upd (upd t i a) (s i) b else t.

Variable len : nat.
Hypothesis s_lt : forall i, i < len -> P i = true -> s i < len.
Hypothesis s_notP : forall i, i < len -> P i = true -> P (s i) = false.
Hypothesis s_inj : forall i j, i < len -> j < len -> P i = true -> P j = true -> s i = s j -> i = j.

Definition pspec (t t' : list A) (upto : nat) : Prop :=
  length t' = len /\
  forall k, k < len ->
    (P k = true -> k < upto -> nth k t' d = fst (g (nth k t d) (nth (s k) t d)) /\
                               nth (s k) t' d = snd (g (nth k t d) (nth (s k) t d))) /\
    (P k = true -> upto <= k -> nth k t' d = nth k t d /\ nth (s k) t' d = nth (s k) t d) /\
    (P k = false -> (forall i, i < len -> P i = true -> s i <> k) -> nth k t' d = nth k t d).

Lemma loop_spec t : length t = len ->
  forall n, n <= len -> pspec t (fold_left pstep (seq 0 n) t) n.
Proof.
  intros Hlen n. induction n as [|n IH]; intros Hn.
  - simpl. split; [assumption|]. intros k Hk. repeat split; intros; try lia; reflexivity.
  - rewrite seq_S, fold_left_app. simpl. specialize (IH ltac:(lia)).
    set (t' := fold_left pstep (seq 0 n) t) in *. destruct IH as [L IH].
    unfold pstep. destruct (P n) eqn:Pn.
    + destruct (IH n ltac:(lia)) as (_ & Hun & _). destruct (Hun Pn ltac:(lia)) as [E1 E2].
      rewrite E1, E2. destruct (g (nth n t d) (nth (s n) t d)) as [a b] eqn:G.
      assert (Hs : s n < len) by (apply s_lt; [lia|assumption]).
      assert (Hne : s n <> n) by (intro E; pose proof (s_notP n ltac:(lia) Pn) as X; rewrite E in X; congruence).
      split; [rewrite !upd_length; assumption|].
      intros k Hk. destruct (IH k Hk) as (I1 & I2 & I3).
      assert (RW : forall j, nth j (upd (upd t' n a) (s n) b) d =
                     if Nat.eqb j (s n) then b else if Nat.eqb j n then a else nth j t' d).
      { intro j. rewrite nth_upd by (rewrite upd_length; lia). destruct (Nat.eqb j (s n)); [reflexivity|].
        apply nth_upd. lia. }
      split; [|split].
      * intros Pk Hlt. rewrite !RW.
        destruct (Nat.eqb_spec k n) as [->|Hkn].
        -- destruct (Nat.eqb_spec n (s n)); [lia|]. rewrite G. simpl.
           rewrite !Nat.eqb_refl. split; reflexivity.
        -- destruct (Nat.eqb_spec k (s n)) as [E|_];
             [rewrite E in Pk; rewrite (s_notP n) in Pk by (assumption || lia); discriminate|].
           destruct (Nat.eqb_spec (s k) (s n)) as [E|_]; [apply s_inj in E; try assumption; lia|].
           destruct (Nat.eqb_spec (s k) n) as [E|_]; [pose proof (s_notP k Hk Pk) as X; rewrite E in X; congruence|].
           apply I1; [assumption|lia].
      * intros Pk Hge. rewrite !RW.
        destruct (Nat.eqb_spec k (s n)) as [E|_];
          [rewrite E in Pk; rewrite (s_notP n) in Pk by (assumption || lia); discriminate|].
        destruct (Nat.eqb_spec k n); [lia|].
        destruct (Nat.eqb_spec (s k) (s n)) as [E|_]; [apply s_inj in E; try assumption; lia|].
        destruct (Nat.eqb_spec (s k) n) as [E|_]; [pose proof (s_notP k Hk Pk) as X; rewrite E in X; congruence|].
        apply I2; [assumption|lia].
      * intros Pk Hno. rewrite RW.
        destruct (Nat.eqb_spec k (s n)) as [E|_]; [exfalso; apply (Hno n); auto; lia|].
        destruct (Nat.eqb_spec k n) as [E|_]; [congruence|]. apply I3; assumption.
    + split; [assumption|]. intros k Hk. destruct (IH k Hk) as (I1 & I2 & I3).
      split; [|split].
      * intros Pk Hlt. assert (k <> n) by congruence. apply I1; [assumption|lia].
      * intros Pk Hge. apply I2; [assumption|lia].
      * intros Pk Hno. apply I3; assumption.
Qed.

(* the whole loop: every index is either a P index, the image of one, or untouched *)
Corollary loop_full t : length t = len ->
  let t' := fold_left pstep (seq 0 len) t in
  length t' = len /\
  (forall k, k < len -> P k = true ->
     nth k t' d = fst (g (nth k t d) (nth (s k) t d)) /\ nth (s k) t' d = snd (g (nth k t d) (nth (s k) t d))) /\
  (forall k, k < len -> P k = false -> (forall i, i < len -> P i = true -> s i <> k) -> nth k t' d = nth k t d).
Proof.
  intros Hlen. destruct (loop_spec t Hlen len (le_n _)) as [L H]. cbv zeta. split; [exact L|]. split.
  - intros k Hk Pk. destruct (H k Hk) as (I1 & _ & _). apply I1; assumption.
  - intros k Hk Pk Hno. destruct (H k Hk) as (_ & _ & I3). apply I3; assumption.
Qed.
End PairFold.
