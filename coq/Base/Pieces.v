(* Masked-shift pieces: a 64-bit word computed as a checked sum (or an or) of pieces
       (input_k & M) >> s      or      ((input_k & M) << s) mod 2^64
   is characterised bit by bit from a finite side condition over the 64 positions that is decided by vm_compute
   on the concrete masks and shifts, while the input words stay symbolic. The side condition says: at every
   position at most one piece is active, and the active piece reads the position the specification names.
   Consequences proved once: the checked additions never overflow (no carry), the result is < 2^64, and
   bit q of the result = bit (src q) of the named input. *)
From Coq Require Import List NArith Arith Bool Lia.
From V Require Import Base.Res Model.Kernels Base.Bits.
Import ListNotations.
Open Scope N_scope.

Record piece := mkPiece { p_in : nat; p_mask : N; p_shift : N; p_left : bool }.

Definition eval_piece (env : list N) (d : piece) : N :=
  let x := N.land (nthN env (p_in d)) (p_mask d) in
  if p_left d then shl64 x (p_shift d) else N.shiftr x (p_shift d).

(* input-independent part: is the piece active at position q, and which input position does it read *)
Definition piece_cond (d : piece) (q : N) : bool :=
  if p_left d then (p_shift d <=? q) && N.testbit (p_mask d) (q - p_shift d)
  else N.testbit (p_mask d) (q + p_shift d).
Definition piece_src (d : piece) (q : N) : N :=
  if p_left d then q - p_shift d else q + p_shift d.

Definition piece_bit (env : list N) (d : piece) (q : N) : bool :=
  piece_cond d q && N.testbit (nthN env (p_in d)) (piece_src d q).

Definition env_ok (env : list N) : Prop := forall k, nthN env k < 2 ^ 64.

Lemma eval_piece_lt env d : env_ok env -> eval_piece env d < 2 ^ 64.
Proof.
  intros He. unfold eval_piece. destruct (p_left d).
  - apply shl64_lt.
  - apply shiftr_lt. apply land_lt_l. apply He.
Qed.

Lemma eval_piece_spec env d q :
  N.testbit (eval_piece env d) q = (if p_left d then q <? 64 else true) && piece_bit env d q.
Proof.
  unfold eval_piece, piece_bit, piece_cond, piece_src. destruct (p_left d).
  - rewrite shl64_spec, N.land_spec.
    destruct (q <? 64), (p_shift d <=? q); cbn [andb]; try reflexivity.
    apply andb_comm.
  - rewrite N.shiftr_spec', N.land_spec. cbn [andb]. apply andb_comm.
Qed.

Definition active (ds : list piece) (q : N) : list piece := filter (fun d => piece_cond d q) ds.

Definition bits_of (env : list N) (ds : list piece) (q : N) : bool := existsb (fun d => piece_bit env d q) ds.

Lemma bits_of_active env ds q :
  bits_of env ds q = existsb (fun d => N.testbit (nthN env (p_in d)) (piece_src d q)) (active ds q).
Proof.
  unfold bits_of, active, piece_bit. induction ds as [|d ds IH]; [reflexivity|].
  cbn [existsb filter]. destruct (piece_cond d q); cbn [existsb andb]; rewrite IH; reflexivity.
Qed.

Lemma active_app a b q : active (a ++ b) q = active a q ++ active b q.
Proof. unfold active. apply filter_app. Qed.

(* the target: which input word and which position of it each output position must read *)
Definition target := N -> option (nat * N).

Definition check_pos (ds : list piece) (tgt : target) (q : N) : bool :=
  match active ds q, tgt q with
  | [], None => true
  | [d], Some (ix, p) => Nat.eqb (p_in d) ix && (piece_src d q =? p)
  | _, _ => false
  end.

Definition positions64 : list N := map N.of_nat (seq 0 64).

Lemma in_positions64 q : q < 64 -> In q positions64.
Proof.
  intros Hq. unfold positions64. apply in_map_iff. exists (N.to_nat q). split; [lia|].
  apply in_seq. lia.
Qed.

Definition check_pieces (ds : list piece) (tgt : target) : bool := forallb (check_pos ds tgt) positions64.

Definition read (env : list N) (tgt : target) (q : N) : bool :=
  match tgt q with Some (ix, p) => N.testbit (nthN env ix) p | None => false end.

Lemma check_pos_ok ds tgt q : check_pieces ds tgt = true -> q < 64 -> check_pos ds tgt q = true.
Proof.
  intros H Hq. unfold check_pieces in H. rewrite forallb_forall in H. apply H. apply in_positions64. exact Hq.
Qed.

Lemma check_active_le1 ds tgt q : check_pos ds tgt q = true -> (length (active ds q) <= 1)%nat.
Proof.
  unfold check_pos. destruct (active ds q) as [|d [|d' r]]; simpl; intros H; try lia.
Qed.

Lemma check_read env ds tgt q : check_pos ds tgt q = true -> bits_of env ds q = read env tgt q.
Proof.
  intros H. rewrite bits_of_active. unfold check_pos in H. unfold read.
  destruct (active ds q) as [|d [|d' r]]; destruct (tgt q) as [[ix p]|]; try discriminate; cbn [existsb].
  - reflexivity.
  - apply andb_true_iff in H. destruct H as [H1 H2]. apply Nat.eqb_eq in H1. apply N.eqb_eq in H2.
    rewrite H1, H2. apply orb_false_r.
Qed.

(* two disjoint sub-lists of a checked list never both have a bit at q *)
Lemma disjoint_split env a b tgt q :
  check_pos (a ++ b) tgt q = true -> bits_of env a q && bits_of env b q = false.
Proof.
  intros H. apply check_active_le1 in H. rewrite active_app, app_length in H.
  rewrite !bits_of_active.
  destruct (active a q) as [|x xs]; [reflexivity|].
  destruct (active b q) as [|y ys]; [apply andb_false_r|].
  simpl in H. lia.
Qed.

(* ------------------------------------------------------------------ checked sums *)
Fixpoint add64_from (acc : N) (l : list N) : res N :=
  match l with
  | [] => Ok acc
  | x :: r => bind (add64 acc x) (fun s => add64_from s r)
  end.

Lemma add64_disjoint a b : a < 2 ^ 64 -> b < 2 ^ 64 -> N.land a b = 0 -> add64 a b = Ok (N.lor a b).
Proof.
  intros Ha Hb Hd. unfold add64. rewrite (add_disjoint a b Hd).
  assert (H : N.lor a b < 2 ^ 64) by (apply lor_lt; assumption).
  assert (E : (N.lor a b <=? ones64) = true).
  { apply N.leb_le. pose proof ones64_succ. lia. }
  rewrite E. reflexivity.
Qed.

Lemma add64_from_spec env tgt (todo done : list piece) acc :
  env_ok env ->
  (forall q, q < 64 -> check_pos (done ++ todo) tgt q = true) ->
  acc < 2 ^ 64 ->
  (forall q, q < 64 -> N.testbit acc q = bits_of env done q) ->
  exists r, add64_from acc (map (eval_piece env) todo) = Ok r /\ r < 2 ^ 64 /\
            forall q, q < 64 -> N.testbit r q = bits_of env (done ++ todo) q.
Proof.
  intros He. revert done acc. induction todo as [|d todo IH]; intros done acc Hc Hacc Hbits.
  - exists acc. rewrite app_nil_r. cbn [map add64_from]. auto.
  - cbn [map add64_from].
    assert (Hd : eval_piece env d < 2 ^ 64) by (apply eval_piece_lt; exact He).
    assert (Hdis : N.land acc (eval_piece env d) = 0).
    { apply N.bits_inj_0. intro q. rewrite N.land_spec.
      destruct (N.lt_ge_cases q 64) as [Hq|Hq].
      - rewrite Hbits by exact Hq. rewrite eval_piece_spec.
        specialize (Hc q Hq). replace (done ++ d :: todo) with (done ++ [d] ++ todo) in Hc by reflexivity.
        rewrite app_assoc in Hc.
        assert (X : check_pos ((done ++ [d]) ++ todo) tgt q = true) by exact Hc.
        pose proof (check_active_le1 _ _ _ X) as L. rewrite !active_app, !app_length in L.
        rewrite bits_of_active.
        destruct (active done q) as [|x xs] eqn:E1; [reflexivity|].
        destruct (piece_cond d q) eqn:Ec.
        * exfalso. assert (A : active [d] q = [d]) by (unfold active; cbn [filter]; rewrite Ec; reflexivity).
          rewrite A in L. simpl in L. lia.
        * unfold piece_bit. rewrite Ec. cbn [andb]. rewrite andb_false_r. apply andb_false_r.
      - rewrite (testbit_lt_pow2 acc 64 q) by assumption. reflexivity. }
    rewrite (add64_disjoint _ _ Hacc Hd Hdis). cbn [bind].
    destruct (IH (done ++ [d]) (N.lor acc (eval_piece env d))) as [r [R1 [R2 R3]]].
    + intros q Hq. rewrite <- app_assoc. exact (Hc q Hq).
    + apply lor_lt; assumption.
    + intros q Hq. rewrite N.lor_spec, Hbits by exact Hq. rewrite eval_piece_spec.
      unfold bits_of. rewrite existsb_app. cbn [existsb]. rewrite orb_false_r.
      assert (Hq' : (q <? 64) = true) by (apply N.ltb_lt; exact Hq).
      destruct (p_left d); rewrite ?Hq'; reflexivity.
    + exists r. split; [exact R1|]. split; [exact R2|].
      intros q Hq. rewrite R3 by exact Hq. rewrite <- app_assoc. reflexivity.
Qed.

(* the checked sum of a checked piece list: no overflow, < 2^64, and every bit reads its target *)
Theorem pieces_sum env d ds tgt :
  env_ok env -> check_pieces (d :: ds) tgt = true ->
  exists r, add64_from (eval_piece env d) (map (eval_piece env) ds) = Ok r /\ r < 2 ^ 64 /\
            forall q, q < 64 -> N.testbit r q = read env tgt q.
Proof.
  intros He Hc.
  destruct (add64_from_spec env tgt ds [d] (eval_piece env d) He) as [r [R1 [R2 R3]]].
  - intros q Hq. apply check_pos_ok; assumption.
  - apply eval_piece_lt; exact He.
  - intros q Hq. rewrite eval_piece_spec. unfold bits_of. cbn [existsb]. rewrite orb_false_r.
    assert (Hq' : (q <? 64) = true) by (apply N.ltb_lt; exact Hq).
    destruct (p_left d); rewrite ?Hq'; reflexivity.
  - exists r. split; [exact R1|]. split; [exact R2|].
    intros q Hq. rewrite R3 by exact Hq. apply check_read. apply check_pos_ok; assumption.
Qed.

(* the same for pieces combined with | instead of + (no disjointness needed, but the check gives it anyway) *)
Theorem pieces_lor env ds tgt :
  env_ok env -> check_pieces ds tgt = true ->
  let r := fold_left (fun acc d => N.lor acc (eval_piece env d)) ds 0 in
  r < 2 ^ 64 /\ forall q, q < 64 -> N.testbit r q = read env tgt q.
Proof.
  intros He Hc.
  assert (G : forall (todo : list piece) acc, acc < 2 ^ 64 ->
            let r := fold_left (fun acc d => N.lor acc (eval_piece env d)) todo acc in
            r < 2 ^ 64 /\ forall q, q < 64 -> N.testbit r q = N.testbit acc q || bits_of env todo q).
  { induction todo as [|d todo IH]; intros acc Hacc; cbn [fold_left].
    - split; [exact Hacc|]. intros q _. unfold bits_of. cbn [existsb]. symmetry. apply orb_false_r.
    - destruct (IH (N.lor acc (eval_piece env d))) as [I1 I2].
      + apply lor_lt; [exact Hacc|apply eval_piece_lt; exact He].
      + split; [exact I1|]. intros q Hq. rewrite I2 by exact Hq. rewrite N.lor_spec, eval_piece_spec.
        unfold bits_of. cbn [existsb].
        assert (Hq' : (q <? 64) = true) by (apply N.ltb_lt; exact Hq).
        destruct (p_left d); rewrite ?Hq'; cbn [andb]; rewrite orb_assoc; reflexivity. }
  destruct (G ds 0) as [G1 G2]; [apply N.neq_0_lt_0, N.pow_nonzero; lia|].
  split; [exact G1|]. intros q Hq. rewrite G2 by exact Hq. rewrite N.bits_0. cbn [orb].
  apply check_read. apply check_pos_ok; assumption.
Qed.
