(* Result of a modelled Rust call, with the reason for a panic recorded:
   PanicAlways  - assert!, slice indexing, clone_from_slice, unwrap, panic!()  (every build profile)
   PanicDebug   - debug_assert!, arithmetic overflow, shift >= width           (dev profile only) *)
Inductive res (A : Type) : Type :=
| Ok (a : A)
| PanicAlways
| PanicDebug.
Arguments Ok {A} a.
Arguments PanicAlways {A}.
Arguments PanicDebug {A}.

Definition bind {A B} (x : res A) (f : A -> res B) : res B :=
  match x with
  | Ok a => f a
  | PanicAlways => PanicAlways
  | PanicDebug => PanicDebug
  end.

Declare Scope res_scope.
Delimit Scope res_scope with res.
Notation "'let*' x ':=' c1 'in' c2" := (bind c1 (fun x => c2))
  (at level 200, x pattern, c1 at level 100, c2 at level 200, right associativity) : res_scope.
Notation "c1 ;; c2" := (bind c1 (fun _ => c2))
  (at level 100, c2 at level 200, right associativity) : res_scope.

(* assert!(b) *)
Definition always (b : bool) : res unit := if b then Ok tt else PanicAlways.
(* debug_assert!(b), or an overflow / shift-width check *)
Definition dbg (b : bool) : res unit := if b then Ok tt else PanicDebug.

Definition is_ok {A} (r : res A) : bool := match r with Ok _ => true | _ => false end.

Lemma bind_ok {A B} (x : res A) (f : A -> res B) b :
  bind x f = Ok b -> exists a, x = Ok a /\ f a = Ok b.
Proof. destruct x; simpl; intros H; try discriminate. eauto. Qed.

Lemma always_ok b : always b = Ok tt <-> b = true.
Proof. destruct b; simpl; split; intros; congruence. Qed.
Lemma dbg_ok b : dbg b = Ok tt <-> b = true.
Proof. destruct b; simpl; split; intros; congruence. Qed.
