(* Executable specification-level checkers (no proofs here; soundness lemmas are in Proofs/CheckSound.v).
   Each function decides, directly from the specification vocabulary (val, flipbit, popcount, act, bdd_nodes, ...),
   whether a result OBSERVED ON THE IMPLEMENTATION satisfies the property's statement for the given arguments.
   They never call the kernels of the model. Extracted and run by the driver on every disagreement between model and
   implementation, and on every line after a proof has broken. *)
From Coq Require Import List NArith ZArith Arith Bool.
From V Require Import Model.Kernels Model.TwoLevel Model.Decomp Spec.Bfun Spec.Transform Spec.BddSpec Spec.TwoLevelCost Spec.Grammar.
Import ListNotations.
Open Scope N_scope.

(* dom, cube_good, sem_or, sem_xor, sem_soes come from Spec/TwoLevelCost.v *)

(* the table t is well formed and denotes f on the domain *)
Definition chk_table (n : nat) (t : list N) (f : N -> bool) : bool :=
  wfb n t && forallb (fun m => Bool.eqb (val t m) (f m)) (dom n).

(* ---- C01 *)
Definition spec_not (a : list N) (m : N) : bool := negb (val a m).
Definition spec_and (a b : list N) (m : N) : bool := val a m && val b m.
Definition spec_or (a b : list N) (m : N) : bool := val a m || val b m.
Definition spec_xor (a b : list N) (m : N) : bool := xorb (val a m) (val b m).

(* ---- C03 *)
Definition spec_flip (a : list N) (i : N) (m : N) : bool := val a (flipbit m i).
Definition spec_swap (a : list N) (i j : N) (m : N) : bool := val a (swapbits m i j).
Definition spec_cof0 (a : list N) (i : N) (m : N) : bool := val a (clearbit m i).
Definition spec_cof1 (a : list N) (i : N) (m : N) : bool := val a (setbit m i).
Definition spec_from_cof (c0 c1 : list N) (i : N) (m : N) : bool := if N.testbit m i then val c1 m else val c0 m.

(* ---- C11 *)
Definition spec_zero (m : N) : bool := false.
Definition spec_one (m : N) : bool := true.
Definition spec_nth_var (v : N) (m : N) : bool := N.testbit m v.
Definition spec_symmetric (cv : N) (m : N) : bool := N.testbit cv (popcount m).
Definition spec_equals (k : N) (m : N) : bool := popcount m =? k.
Definition spec_threshold (k : N) (m : N) : bool := k <=? popcount m.
Definition spec_parity (m : N) : bool := N.odd (popcount m).
Definition spec_majority (n : nat) (m : N) : bool := N.of_nat ((n + 1) / 2) <=? popcount m.
Definition spec_set (a : list N) (m0 : N) (v : bool) (m : N) : bool := if m =? m0 then v else val a m.

(* ---- C08: the table as one number, numeric order, successor *)
Fixpoint bigN (t : list N) : N := match t with [] => 0 | w :: r => w + 2 ^ 64 * bigN r end.
Definition chk_cmp (na : nat) (a : list N) (nb : nat) (b : list N) (c : comparison) : bool :=
  match (if Nat.eqb na nb then bigN a ?= bigN b else Nat.compare na nb), c with
  | Lt, Lt | Eq, Eq | Gt, Gt => true
  | _, _ => false
  end.
Definition chk_next (n : nat) (a a' : list N) (ok : bool) : bool :=
  wfb n a' && (bigN a' =? (bigN a + 1) mod 2 ^ (2 ^ N.of_nat n)) && Bool.eqb ok (negb (bigN a' =? 0)).
(* extensional equality of two well-formed tables *)
Definition chk_eq (na : nat) (a : list N) (nb : nat) (b : list N) (r : bool) : bool :=
  Bool.eqb r (Nat.eqb na nb && forallb (fun m => Bool.eqb (val a m) (val b m)) (dom na)).

(* ---- C04 / C05 *)
Definition chk_cert (n : nat) (f c : list N) (perm : list N) (mask : N) : bool :=
  wfb n c && cert_okb n (val f) (val c) perm mask.

(* all permutations of a list, by insertion at every position *)
Fixpoint insert_all {A} (x : A) (l : list A) : list (list A) :=
  match l with
  | [] => [[x]]
  | y :: r => (x :: l) :: map (fun z => y :: z) (insert_all x r)
  end.
Fixpoint perms {A} (l : list A) : list (list A) :=
  match l with
  | [] => [[]]
  | x :: r => flat_map (insert_all x) (perms r)
  end.
(* number of the transformed function *)
Definition act_num (n : nat) (perm : list N) (mask : N) (f : list N) : N :=
  fold_left (fun acc y => if act n perm mask (val f) y then N.lor acc (2 ^ y) else acc) (dom n) 0.
(* no element of the group gives a smaller table than c (groups: 0 = P, 1 = N, 2 = NPN) *)
Definition chk_minimal (group : nat) (n : nat) (f c : list N) : bool :=
  let ps := match group with 1%nat => [identity n] | _ => perms (identity n) end in
  let ms := match group with 0%nat => [0] | _ => map N.of_nat (seq 0 (Nat.pow 2 (n + 1))) end in
  let cn := bigN c in
  forallb (fun p => forallb (fun mk => cn <=? act_num n p mk f) ms) ps.

(* ---- C06 *)
Definition spec_top (n : nat) (t : list N) (v : N) : DecompositionType :=
  let c0 m := val t (clearbit m v) in
  let c1 m := val t (setbit m v) in
  let all (p : N -> bool) := forallb p (dom n) in
  let indep := all (fun m => Bool.eqb (c0 m) (c1 m)) in
  let z0 := all (fun m => negb (c0 m)) in
  let o0 := all c0 in
  let z1 := all (fun m => negb (c1 m)) in
  let o1 := all c1 in
  let xr := all (fun m => Bool.eqb (c0 m) (negb (c1 m))) in
  if indep then DIndependent else if z0 && o1 then DIdentity else if o0 && z1 then DNegation
  else if z0 then DAnd else if o1 then DOr else if o0 then DLe else if z1 then DLt else if xr then DXor else DNone.
Definition spec_pos_unate (n : nat) (t : list N) (v : N) : bool :=
  forallb (fun m => implb (val t (clearbit m v)) (val t (setbit m v))) (dom n).
Definition spec_neg_unate (n : nat) (t : list N) (v : N) : bool :=
  forallb (fun m => implb (val t (setbit m v)) (val t (clearbit m v))) (dom n).
Definition decomp_eqb (a b : DecompositionType) : bool :=
  match a, b with
  | DNone, DNone | DIndependent, DIndependent | DIdentity, DIdentity | DNegation, DNegation | DAnd, DAnd
  | DOr, DOr | DLe, DLe | DLt, DLt | DXor, DXor => true
  | _, _ => false
  end.

(* ---- C07 *)
Definition chk_bdd (n : nat) (ts : list (list N)) (count : nat) : bool := Nat.eqb count (bdd_nodes n ts).

(* ---- C12 .. C15: two-level forms, checked by exhaustive evaluation over the 2^n assignments *)

Fixpoint strictly_sorted (l : list cube) : bool :=
  match l with
  | a :: ((b :: _) as r) => match cube_cmp a b with Lt => strictly_sorted r | _ => false end
  | _ => true
  end.
Definition irredundantb (n : nat) (cs : list cube) : bool :=
  forallb (cube_good n) cs && strictly_sorted cs &&
  forallb (fun c => forallb (fun o => cube_eqb c o || negb (cube_implies c o)) cs) cs.
(* result r of a Sop operation whose meaning must be f *)
Definition chk_sop_result (n : nat) (r : list cube) (f : N -> bool) : bool :=
  irredundantb n r && forallb (fun m => Bool.eqb (sem_or r m) (f m)) (dom n).
Definition chk_esop_result (n : nat) (r : list cube) (f : N -> bool) : bool :=
  forallb (fun m => Bool.eqb (sem_xor r m) (f m)) (dom n).
(* Lut -> Esop: all-positive cubes, strictly increasing, denoting the function *)
Fixpoint increasing (l : list N) : bool :=
  match l with
  | a :: ((b :: _) as r) => (a <? b) && increasing r
  | _ => true
  end.
Definition chk_esop_from_lut (n : nat) (t : list N) (r : list cube) : bool :=
  forallb (fun c => (cneg c =? 0) && (cpos c <? 2 ^ N.of_nat n)) r && increasing (map cpos r) &&
  forallb (fun m => Bool.eqb (sem_xor r m) (val t m)) (dom n).
Fixpoint list_eqb {A} (eqb : A -> A -> bool) (a b : list A) : bool :=
  match a, b with
  | [], [] => true
  | x :: a', y :: b' => eqb x y && list_eqb eqb a' b'
  | _, _ => false
  end.
(* Lut -> Sop: the minterm cover in increasing assignment order *)
Definition chk_sop_from_lut (n : nat) (t : list N) (r : list cube) : bool :=
  list_eqb cube_eqb r (map (fun m => mkCube m (N.lxor m (N.ones (N.of_nat n)))) (filter (val t) (dom n))).

(* ---- C18: the returned forms are valid, and no valid form offered as a witness is cheaper *)
Definition chk_sop_opt (n : nat) (fs : list (list N)) (and_cost or_cost : Z) (ret : list (list cube))
           (witness : option (list (list cube))) : bool :=
  sop_solution_ok n fs ret &&
  match witness with
  | None => true
  | Some w => negb (sop_solution_ok n fs w) || Z.leb (sop_cost and_cost or_cost ret) (sop_cost and_cost or_cost w)
  end.
Definition chk_sopes_opt (n : nat) (fs : list (list N)) (and_cost xor_cost or_cost : Z)
           (ret : list (list cube * list ecube)) (witness : option (list (list cube * list ecube))) : bool :=
  sopes_solution_ok n fs ret &&
  match witness with
  | None => true
  | Some w => negb (sopes_solution_ok n fs w) ||
              Z.leb (sopes_cost and_cost xor_cost or_cost ret) (sopes_cost and_cost xor_cost or_cost w)
  end.
Definition chk_esop_opt (n : nat) (fs : list (list N)) (and_cost xor_cost : Z) (ret : list (list cube))
           (witness : option (list (list cube))) : bool :=
  esop_solution_ok n fs ret &&
  match witness with
  | None => true
  | Some w => negb (esop_solution_ok n fs w) || Z.leb (esop_cost and_cost xor_cost ret) (esop_cost and_cost xor_cost w)
  end.

(* ---- C09: text forms, directly from the property text (no kernel of the model is used).
   Hex: max(1, 2^n/4) digits, most significant first, digit k (from the right) = bits 4k..4k+3 of the function;
   binary: 2^n digits, most significant first. *)
Definition spec_hex_width (n : nat) : nat := Nat.max 1 (Nat.pow 2 n / 4).
Definition spec_digit_char (d : N) : N := if d <? 10 then 48 + d else 87 + d.
Definition spec_nibble (t : list N) (k : nat) : N :=
  fold_left (fun acc j => if val t (N.of_nat (4 * k + j)) then acc + 2 ^ N.of_nat j else acc) (seq 0 4) 0.
Definition spec_to_hex (n : nat) (t : list N) : list N :=
  map (fun k => spec_digit_char (spec_nibble t k)) (rev (seq 0 (spec_hex_width n))).
Definition spec_to_bin (n : nat) (t : list N) : list N :=
  map (fun k => if val t (N.of_nat k) then 49 else 48) (rev (seq 0 (Nat.pow 2 n))).
(* decimal of a small number (n < 100 is all that occurs) *)
Definition spec_dec (n : nat) : list N :=
  let x := N.of_nat n in if x <? 10 then [48 + x] else [48 + x / 10; 48 + x mod 10].
Definition spec_fmt (n : nat) (body : list N) : list N := [76; 117; 116] ++ spec_dec n ++ [40] ++ body ++ [41].
Definition bytes_eqb (a b : list N) : bool := list_eqb N.eqb a b.

(* parsing: Some v = must be accepted and denote the number v; None = must be rejected *)
Definition spec_hexval (b : N) : option N :=
  if (48 <=? b) && (b <=? 57) then Some (b - 48)
  else if (97 <=? b) && (b <=? 102) then Some (b - 87)
  else if (65 <=? b) && (b <=? 70) then Some (b - 55)
  else None.
Definition spec_parse_hex (n : nat) (s : list N) : option N :=
  if negb (Nat.eqb (length s) (spec_hex_width n)) then None
  else
    match fold_left (fun (acc : option N) b => match acc, spec_hexval b with
                                               | Some a, Some d => Some (16 * a + d)
                                               | _, _ => None end) s (Some 0) with
    | Some v => if v <? 2 ^ (2 ^ N.of_nat n) then Some v else None
    | None => None
    end.
(* result of from_hex_string: res = None (Err) or Some table *)
Definition chk_from_hex (n : nat) (s : list N) (res : option (list N)) : bool :=
  match spec_parse_hex n s, res with
  | None, None => true
  | Some v, Some t => wfb n t && (bigN t =? v)
  | _, _ => false
  end.

(* ---- C12 / C13 / C16: cubes, exclusive cubes and printed text, from the property text.
   A cube is read by its literals (no use of the model's cube_value / cube_and / ...). *)
Definition vars32 : list N := map N.of_nat (seq 0 32).
Definition spec_cube_value (c : cube) (m : N) : bool :=
  forallb (fun v => implb (N.testbit (cpos c) v) (N.testbit m v) && implb (N.testbit (cneg c) v) (negb (N.testbit m v))) vars32.
Definition spec_ecube_value (e : ecube) (m : N) : bool :=
  fold_left (fun acc v => xorb acc (N.testbit (evars e) v && N.testbit m v)) vars32 (exnor e).
(* every variable of the cube is below k, or the cube is the canonical zero *)
Definition cube_within (k : nat) (c : cube) : bool :=
  ((cpos c <? 2 ^ N.of_nat k) && (cneg c <? 2 ^ N.of_nat k)) || cube_eqb c cube_zero.
Definition ecube_within (k : nat) (e : ecube) : bool := evars e <? 2 ^ N.of_nat k.

Definition chk_cube_value (c : cube) (m : N) (r : bool) : bool := Bool.eqb r (spec_cube_value c m).
(* AND: the conjunction; the canonical zero cube when the operands conflict *)
Definition chk_cube_and (k : nat) (a b r : cube) : bool :=
  if existsb (fun m => spec_cube_value a m && spec_cube_value b m) (dom k)
  then cube_within k r && forallb (fun m => Bool.eqb (spec_cube_value r m) (spec_cube_value a m && spec_cube_value b m)) (dom k)
  else cube_eqb r cube_zero.
Definition chk_cube_intersects (k : nat) (a b : cube) (r : bool) : bool :=
  Bool.eqb r (existsb (fun m => spec_cube_value a m && spec_cube_value b m) (dom k)).
Definition chk_cube_implies (k : nat) (a b : cube) (r : bool) : bool :=
  Bool.eqb r (forallb (fun m => implb (spec_cube_value a m) (spec_cube_value b m)) (dom k)).
Definition chk_cube_implies_lut (n : nat) (c : cube) (t : list N) (r : bool) : bool :=
  Bool.eqb r (forallb (fun m => implb (spec_cube_value c m) (val t m)) (dom n)).
Definition chk_ecube_value (e : ecube) (m : N) (r : bool) : bool := Bool.eqb r (spec_ecube_value e m).
Definition chk_ecube_xor (k : nat) (a b r : ecube) : bool :=
  ecube_within k r && forallb (fun m => Bool.eqb (spec_ecube_value r m) (xorb (spec_ecube_value a m) (spec_ecube_value b m))) (dom k).
Definition chk_ecube_not (k : nat) (a r : ecube) : bool :=
  ecube_within k r && forallb (fun m => Bool.eqb (spec_ecube_value r m) (negb (spec_ecube_value a m))) (dom k).
Definition spec_soes_value (es : list ecube) (m : N) : bool := existsb (fun e => spec_ecube_value e m) es.
Definition chk_soes_or (n : nat) (a b r : list ecube) : bool :=
  forallb (fun m => Bool.eqb (spec_soes_value r m) (spec_soes_value a m || spec_soes_value b m)) (dom n).

(* printed text: it must lex, evaluate (by the reader of Spec/Grammar.v) to the object's value on every assignment of the
   given list, and list its literals in strictly increasing index order inside every product (inside the whole text for
   an exclusive cube) *)
Definition is_sep (t : token) : bool := is_or t || is_xor t.
Definition chk_text (bytes : list N) (f : N -> bool) (ms : list N) (whole_increasing : bool) : bool :=
  match lex bytes with
  | Some ts =>
      forallb (fun m => match eval ts m with Some b => Bool.eqb b (f m) | None => false end) ms &&
      (if whole_increasing then increasing (lit_indices ts)
       else forallb (fun part => increasing (lit_indices part)) (split is_sep ts))
  | None => false
  end.
(* assignments used when the variables reach beyond a dozen: zero, all ones, every single variable set, every single
   variable cleared (a sample, documented as such) *)
Definition sample_assignments : list N :=
  [0; N.ones 32] ++ map (fun v => 2 ^ v) vars32 ++ map (fun v => N.lxor (N.ones 32) (2 ^ v)) vars32.
Definition spec_sop_value (cs : list cube) (m : N) : bool := existsb (fun c => spec_cube_value c m) cs.
Definition spec_esop_value (cs : list cube) (m : N) : bool := fold_left (fun r c => xorb r (spec_cube_value c m)) cs false.

(* ---- C04 / C05 beyond the sizes where the whole group can be enumerated: the representative must not be above the
   image of the input by any element of the group that the caller lists (elements outside the group are skipped, so
   the check is sound whatever the list) *)
Definition in_groupb (g n : nat) (perm : list N) (mask : N) : bool :=
  match g with
  | 0%nat => is_permb n perm && (mask =? 0)
  | 1%nat => list_eqb N.eqb perm (identity n) && (mask <? 2 ^ (N.of_nat n + 1))
  | _ => is_permb n perm && (mask <? 2 ^ (N.of_nat n + 1))
  end.
Definition chk_below (g n : nat) (f c : list N) (elems : list (list N * N)) : bool :=
  let cn := bigN c in
  forallb (fun pm => implb (in_groupb g n (fst pm) (snd pm)) (cn <=? act_num n (fst pm) (snd pm) f)) elems.

(* ---- C13 / C12: equality is semantic equality.
   Exclusive cubes: two terms of 32 variables denote the same function exactly when they agree on the assignment zero
   (the complement flag) and on the 32 assignments with a single variable set (the membership of that variable). *)
Definition ecube_sem_eqb (a b : ecube) : bool :=
  forallb (fun m => Bool.eqb (spec_ecube_value a m) (spec_ecube_value b m)) (0 :: map (fun v => 2 ^ v) vars32).
Definition chk_ecube_eq (a b : ecube) (r : bool) : bool := Bool.eqb r (ecube_sem_eqb a b).
(* Cubes (masks within 32 bits), without enumerating assignments: a cube is contradictory exactly when some variable is
   in both masks; two cubes denote the same function exactly when both are contradictory, or neither is and they have
   the same positive and the same negative literals. *)
Definition cube_contradictory (c : cube) : bool := negb (N.land (cpos c) (cneg c) =? 0).
Definition cube_sem_eqb (a b : cube) : bool :=
  if cube_contradictory a then cube_contradictory b
  else negb (cube_contradictory b) && ((cpos a =? cpos b) && (cneg a =? cneg b)).
Definition chk_cube_eq (a b : cube) (r : bool) : bool := Bool.eqb r (cube_sem_eqb a b).
