(* Gallina mirror of the public API of /repo/src/lut.rs (dynamic Lut, prefix D_) and of
   /repo/src/static_lut.rs (LutN = StaticLut<N, table_size N>, prefix S_ where it differs from Lut).
   A LutN value is modelled as the pair (N, table); the Rust type system guarantees that two LutN operands have the
   same N and that the table has table_size N words. Repaired code where marked. *)
From Coq Require Import List NArith Arith Bool.
From V Require Import Base.Res Gen.Tables Model.Kernels Model.Canon Model.Decomp Model.Bdd.
Import ListNotations.
Open Scope N_scope.
Open Scope res_scope.

Record lut := mkLut { nv : nat; tbl : list N }.

Definition lut_new (n : nat) : lut := mkLut n (repeat 0 (table_size n)).
Definition num_bits (l : lut) : N := N.shiftl 1 (N.of_nat (nv l)).
Definition num_blocks (l : lut) : nat := table_size (nv l).

Definition check_var (l : lut) (ind : N) : res unit := always (ind <? N.of_nat (nv l)).
Definition check_lut (a b : lut) : res unit := always (Nat.eqb (nv a) (nv b)).
Definition check_bit (l : lut) (ind : N) : res unit := always (ind <? num_bits l).

Definition with_tbl (l : lut) (r : res (list N)) : res lut := let* t := r in Ok (mkLut (nv l) t).

(* ------------------------------------------------------------------ constructors *)
Definition D_one (n : nat) : res lut := with_tbl (lut_new n) (fill_one n (tbl (lut_new n))).
Definition D_zero (n : nat) : res lut := with_tbl (lut_new n) (fill_zero n (tbl (lut_new n))).
Definition D_nth_var (n : nat) (v : N) : res lut :=
  always (v <? N.of_nat n) ;; with_tbl (lut_new n) (fill_nth_var n (tbl (lut_new n)) v).
Definition D_parity (n : nat) : res lut := with_tbl (lut_new n) (fill_parity n (tbl (lut_new n))).
Definition D_majority (n : nat) : res lut := with_tbl (lut_new n) (fill_majority n (tbl (lut_new n))).
Definition D_threshold (n : nat) (k : N) : res lut := with_tbl (lut_new n) (fill_threshold n (tbl (lut_new n)) k).
Definition D_equals (n : nat) (k : N) : res lut := with_tbl (lut_new n) (fill_equals n (tbl (lut_new n)) k).
Definition D_symmetric (n : nat) (cv : N) : res lut := with_tbl (lut_new n) (fill_symmetric n (tbl (lut_new n)) cv).
Definition D_default : res lut := D_zero 0.
Definition D_random (n : nat) (stream : list N) : lut := mkLut n (fill_random n (tbl (lut_new n)) stream).

(* ------------------------------------------------------------------ bits *)
Definition D_get_bit (l : lut) (m : N) : res bool := check_bit l m ;; get_bit (nv l) (tbl l) m.
Definition D_value := D_get_bit.
Definition D_set_bit (l : lut) (m : N) : res lut := check_bit l m ;; with_tbl l (set_bit (nv l) (tbl l) m).
Definition D_unset_bit (l : lut) (m : N) : res lut := check_bit l m ;; with_tbl l (unset_bit (nv l) (tbl l) m).
Definition D_set_value (l : lut) (m : N) (v : bool) : res lut := if v then D_set_bit l m else D_unset_bit l m.

(* ------------------------------------------------------------------ logic (every syntactic form forwards here) *)
Definition D_not (l : lut) : res lut := Ok (mkLut (nv l) (not_inplace (nv l) (tbl l))).
Definition D_and (a b : lut) : res lut := check_lut a b ;; with_tbl a (and_inplace (tbl a) (tbl b)).
Definition D_or (a b : lut) : res lut := check_lut a b ;; with_tbl a (or_inplace (tbl a) (tbl b)).
Definition D_xor (a b : lut) : res lut := check_lut a b ;; with_tbl a (xor_inplace (tbl a) (tbl b)).

(* ------------------------------------------------------------------ transforms *)
Definition D_flip (l : lut) (ind : N) : res lut :=
  check_var l ind ;; with_tbl l (flip_inplace (nv l) (tbl l) ind).
Definition D_swap (l : lut) (i j : N) : res lut :=
  check_var l i ;; check_var l j ;; with_tbl l (swap_inplace (nv l) (tbl l) i j).
(* check_var(ind + 1): the addition is evaluated after check_var(ind) succeeded *)
Definition D_swap_adjacent (l : lut) (ind : N) : res lut :=
  check_var l ind ;; check_var l (ind + 1) ;; with_tbl l (swap_adjacent_inplace (nv l) (tbl l) ind).

(* repaired: check_var(ind) first (pinned code: only the kernels' debug_assert) *)
Definition D_cofactors (l : lut) (ind : N) : res (lut * lut) :=
  check_var l ind ;;
  let* c0 := with_tbl l (cofactor0_inplace (nv l) (tbl l) ind) in
  let* c1 := with_tbl l (cofactor1_inplace (nv l) (tbl l) ind) in
  Ok (c0, c1).

(* repaired: assert!(ind < num_vars) *)
Definition D_from_cofactors (c0 c1 : lut) (ind : N) : res lut :=
  always (Nat.eqb (nv c0) (nv c1)) ;;
  always (ind <? N.of_nat (nv c0)) ;;
  with_tbl c0 (from_cofactors_inplace (nv c0) (tbl (lut_new (nv c0))) (tbl c0) (tbl c1) ind).
Definition S_from_cofactors (c0 c1 : lut) (ind : N) : res lut :=
  always (ind <? N.of_nat (nv c0)) ;;
  with_tbl c0 (from_cofactors_inplace (nv c0) (tbl (lut_new (nv c0))) (tbl c0) (tbl c1) ind).

Definition D_from_blocks (n : nat) (blocks : list N) : res lut :=
  let* z := D_zero n in
  always (Nat.eqb (length blocks) (num_blocks z)) ;;
  Ok (mkLut n blocks).
(* clone_from_slice panics (always) on a length mismatch *)
Definition S_from_blocks (n : nat) (blocks : list N) : res lut :=
  always (Nat.eqb (length blocks) (table_size n)) ;; Ok (mkLut n blocks).

(* ------------------------------------------------------------------ canonization *)
Definition D_p_canonization (l : lut) : res (lut * list N) :=
  let* (best, perm) := p_canonization (nv l) (tbl l) in Ok (mkLut (nv l) best, perm).
Definition D_n_canonization (l : lut) : res (lut * N) :=
  let* (best, mask) := n_canonization (nv l) (tbl l) in Ok (mkLut (nv l) best, mask).
Definition D_npn_canonization (l : lut) : res (lut * list N * N) :=
  let* (best, perm, mask) := npn_canonization (nv l) (tbl l) in Ok (mkLut (nv l) best, perm, mask).

(* ------------------------------------------------------------------ analysis *)
Definition D_top_decomposition (l : lut) (ind : N) := top_decomposition (nv l) (tbl l) ind.
Definition D_is_pos_unate (l : lut) (ind : N) := input_pos_unate (nv l) (tbl l) ind.
Definition D_is_neg_unate (l : lut) (ind : N) := input_neg_unate (nv l) (tbl l) ind.

Definition D_bdd_complexity (luts : list lut) : res nat :=
  match luts with
  | [] => Ok O
  | l0 :: _ =>
      always (forallb (fun l => Nat.eqb (nv l) (nv l0)) luts) ;;
      table_complexity (nv l0) (flat_map tbl luts)
  end.
Definition S_bdd_complexity (n : nat) (luts : list lut) : res nat :=
  table_complexity n (flat_map tbl luts).

(* ------------------------------------------------------------------ iterator *)
Definition iter_state := (lut * bool)%type.
Definition D_all_functions (n : nat) : res iter_state := let* z := D_zero n in Ok (z, true).
Definition iter_next (st : iter_state) : res (option lut * iter_state) :=
  let (l, ok) := st in
  if negb ok then Ok (None, st)
  else
    let* (t', ok') := next_inplace (nv l) (tbl l) in
    Ok (Some l, (mkLut (nv l) t', ok')).

(* ------------------------------------------------------------------ order, equality, hash *)
(* derived PartialEq on (num_vars, table) *)
Definition D_eq (a b : lut) : bool :=
  Nat.eqb (nv a) (nv b) && (if list_eq_dec N.eq_dec (tbl a) (tbl b) then true else false).
Definition D_cmp (a b : lut) : res comparison :=
  if negb (Nat.eqb (nv a) (nv b)) then Ok (Nat.compare (nv a) (nv b)) else cmp (tbl a) (tbl b).
Definition S_cmp (a b : lut) : res comparison := cmp (tbl a) (tbl b).
(* what derived Hash feeds to the hasher: the fields in order (the slice is hashed with its length) *)
Definition D_hash_input (l : lut) : N * nat * list N := (N.of_nat (nv l), length (tbl l), tbl l).
Definition S_hash_input (l : lut) : nat * list N := (length (tbl l), tbl l).

(* ------------------------------------------------------------------ text *)
Definition D_to_hex_string (l : lut) : list N := to_hex (nv l) (tbl l).
Definition D_to_bin_string (l : lut) : list N := to_bin (nv l) (tbl l).
Definition D_display (l : lut) : list N := fmt_hex (nv l) (tbl l).
Definition D_lowerhex (l : lut) : list N := fmt_hex (nv l) (tbl l).
Definition D_binary (l : lut) : list N := fmt_bin (nv l) (tbl l).
Definition D_from_hex_string (n : nat) (s : list N) : res (option lut) :=
  let* z := D_zero n in
  let* r := fill_hex n (tbl z) s in
  Ok (match r with Some t => Some (mkLut n t) | None => None end).

(* ------------------------------------------------------------------ conversions *)
(* TryFrom<Lut> for LutN *)
Definition S_try_from (n : nat) (l : lut) : res (option lut) :=
  if negb (Nat.eqb (nv l) n) then Ok None
  else let* r := S_from_blocks n (tbl l) in Ok (Some r).
(* From<LutN> for Lut *)
Definition D_from_static (l : lut) : res lut := D_from_blocks (nv l) (tbl l).

(* From<u8/u16/u32/u64> for Lut3..Lut6 and back; w = 8, 16, 32, 64 *)
Definition S_from_int (n : nat) (v : N) : res lut := S_from_blocks n [v].
Definition S_to_int (n : nat) (l : lut) : N :=
  let w := hd 0 (tbl l) in
  if Nat.eqb n 6 then w
  else N.land (N.land w (not64 (var_mask n))) (N.ones (N.shiftl 1 (N.of_nat n))).
