(* Gallina mirror of /repo/src/decomposition.rs *)
From Coq Require Import List NArith Arith Bool.
From V Require Import Base.Res Gen.Tables Model.Kernels.
Import ListNotations.
Open Scope N_scope.
Open Scope res_scope.

(* both guards are assert! (always on) *)
Definition input_property_helper (n : nat) (t : list N) (ind : N) (op : N -> N -> N) : res bool :=
  always (Nat.eqb (length t) (table_size n)) ;;
  always (ind <? N.of_nat n) ;;
  let mask := num_vars_mask n in
  let i := N.to_nat ind in
  if Nat.leb i 5 then
    let shift := N.shiftl 1 ind in
    let m1 := var_mask i in
    let m0 := not64 m1 in
    Ok (fold_left (fun (ret : bool) (w : N) =>
                     let c1 := N.lor (N.shiftr (N.land w m1) shift) (N.land w m1) in
                     let c0 := N.lor (shl64 (N.land w m0) shift) (N.land w m0) in
                     ret && (N.land (not64 (op c0 c1)) mask =? 0)) t true)
  else
    let stride := Nat.pow 2 (i - 6) in
    Ok (fold_left (fun (ret : bool) (k : nat) =>
                     if N.land (N.of_nat k) (N.of_nat stride) =? 0 then
                       let c0 := nthN t k in
                       let c1 := nthN t (k + stride) in
                       ret && (N.land (not64 (op c0 c1)) mask =? 0)
                     else ret) (seq 0 (length t)) true).

Definition op_independent (c0 c1 : N) := not64 (N.lxor c0 c1).
Definition op_and (c0 c1 : N) := not64 c0.
Definition op_or (c0 c1 : N) := c1.
Definition op_nand (c0 c1 : N) := c0.
Definition op_nor (c0 c1 : N) := not64 c1.
Definition op_xor (c0 c1 : N) := N.lxor c0 c1.
Definition op_pos_unate (c0 c1 : N) := N.lor (not64 c0) c1.
Definition op_neg_unate (c0 c1 : N) := N.lor (not64 c1) c0.

Definition input_independent n t ind := input_property_helper n t ind op_independent.
Definition input_and n t ind := input_property_helper n t ind op_and.
Definition input_or n t ind := input_property_helper n t ind op_or.
Definition input_nand n t ind := input_property_helper n t ind op_nand.
Definition input_nor n t ind := input_property_helper n t ind op_nor.
Definition input_xor n t ind := input_property_helper n t ind op_xor.
Definition input_pos_unate n t ind := input_property_helper n t ind op_pos_unate.
Definition input_neg_unate n t ind := input_property_helper n t ind op_neg_unate.

Inductive DecompositionType :=
| DNone | DIndependent | DIdentity | DNegation | DAnd | DOr | DLe | DLt | DXor.

Definition is_trivial (d : DecompositionType) : bool :=
  match d with DIndependent | DIdentity | DNegation => true | _ => false end.
Definition is_and_type (d : DecompositionType) : bool :=
  match d with DAnd | DOr | DLe | DLt => true | _ => false end.
Definition is_xor_type (d : DecompositionType) : bool :=
  match d with DXor => true | _ => false end.
Definition is_simple_gate (d : DecompositionType) : bool :=
  match d with DAnd | DOr | DLe | DLt | DXor => true | _ => false end.

Definition top_decomposition (n : nat) (t : list N) (ind : N) : res DecompositionType :=
  let* indep := input_independent n t ind in
  let* and_ := input_and n t ind in
  let* or_ := input_or n t ind in
  let* nand := input_nand n t ind in
  let* nor := input_nor n t ind in
  let* xor := input_xor n t ind in
  Ok (if indep then DIndependent
      else if and_ && or_ then DIdentity
      else if nand && nor then DNegation
      else if and_ then DAnd
      else if or_ then DOr
      else if nand then DLe
      else if nor then DLt
      else if xor then DXor
      else DNone).
