(* Gallina mirror of /repo/src/operations.rs, function by function.
   - a u64 word is an [N] (< 2^64); every operation that can lose bits has its wrap written out
   - a table is a [list N]; in-place loops are sequential folds with a functional update
   - debug-profile semantics: debug_assert!, overflow and over-wide shifts give [PanicDebug]
   - constant tables come from Gen/Tables.v, regenerated from the Rust source on every run
   No proofs in this file (the model must keep running when a proof breaks). *)
From Coq Require Import List NArith Arith Bool.
From V Require Import Base.Res Gen.Tables.
Import ListNotations.
Open Scope N_scope.
Open Scope res_scope.

(* ------------------------------------------------------------------ words *)
Definition ones64 : N := 0xffffffffffffffff.
Definition wrap64 (x : N) : N := N.land x ones64.
Definition not64 (x : N) : N := N.lxor x ones64.
Definition shl64 (x s : N) : N := wrap64 (N.shiftl x s).
(* checked u64 addition: overflow panics in the dev profile *)
Definition add64 (a b : N) : res N := dbg (a + b <=? ones64) ;; Ok (a + b).

Fixpoint pop_pos (p : positive) : N :=
  match p with xH => 1 | xO q => pop_pos q | xI q => 1 + pop_pos q end.
Definition popcount (x : N) : N := match x with N0 => 0 | Npos p => pop_pos p end.

(* ------------------------------------------------------------------ lists *)
Definition nthN (l : list N) (i : nat) : N := nth i l 0.

Fixpoint upd {A} (l : list A) (i : nat) (x : A) : list A :=
  match l, i with
  | [], _ => []
  | _ :: r, O => x :: r
  | y :: r, S i' => y :: upd r i' x
  end.

Definition mapi {A B} (f : nat -> A -> B) (l : list A) : list B :=
  map (fun p => f (fst p) (snd p)) (combine (seq 0 (length l)) l).

Fixpoint map2 {A B C} (f : A -> B -> C) (a : list A) (b : list B) : list C :=
  match a, b with
  | x :: a', y :: b' => f x y :: map2 f a' b'
  | _, _ => []
  end.

(* monadic map *)
Fixpoint mapM {A B} (f : A -> res B) (l : list A) : res (list B) :=
  match l with
  | [] => Ok []
  | x :: r => let* y := f x in let* r' := mapM f r in Ok (y :: r')
  end.

(* ------------------------------------------------------------------ constants *)
Definition var_mask (i : nat) : N := nthN VAR_MASK i.
Definition num_vars_mask (n : nat) : N := nthN NUM_VARS_MASK (Nat.min n 6).
Definition swap_mask (i j : nat) : N := nthN (nth i SWAP_INPUT_MASKS []) j.
Definition table_size (n : nat) : nat := Nat.pow 2 (Nat.max n 6 - 6).

Definition chk_len (n : nat) (t : list N) : res unit := dbg (Nat.eqb (length t) (table_size n)).
(* debug_assert!(ind < num_vars) *)
Definition chk_ind (n : nat) (ind : N) : res unit := dbg (ind <? N.of_nat n).

(* ------------------------------------------------------------------ fills *)
Definition fill_one (n : nat) (t : list N) : res (list N) :=
  chk_len n t ;; Ok (map (fun _ => num_vars_mask n) t).

Definition fill_zero (n : nat) (t : list N) : res (list N) :=
  chk_len n t ;; Ok (map (fun _ => 0) t).

Definition fill_nth_var (n : nat) (t : list N) (ind : N) : res (list N) :=
  chk_len n t ;; chk_ind n ind ;;
  if ind <=? 5 then
    Ok (map (fun _ => N.land (var_mask (N.to_nat ind)) (num_vars_mask n)) t)
  else
    let mask := N.shiftl 1 (ind - 6) in
    Ok (mapi (fun i _ => if negb (N.land (N.of_nat i) mask =? 0) then ones64 else 0) t).

(* one word of fill_symmetric; the shift amount cnt + c is checked (usize is 64 bits wide) *)
Definition sym_word (n : nat) (count_values : N) (i : nat) : res N :=
  let cnt := popcount (N.of_nat i) in
  let* w := fold_left (fun (acc : res N) (cm : N * N) =>
                         let* a := acc in
                         dbg (cnt + fst cm <? 64) ;;
                         Ok (if N.testbit count_values (cnt + fst cm) then N.lor a (snd cm) else a))
                      (combine (map N.of_nat (seq 0 (length COUNT_MASKS))) COUNT_MASKS) (Ok 0) in
  Ok (N.land w (num_vars_mask n)).

Definition fill_symmetric (n : nat) (t : list N) (count_values : N) : res (list N) :=
  mapM (fun i => sym_word n count_values i) (seq 0 (length t)).

Definition fill_parity (n : nat) (t : list N) : res (list N) :=
  fill_symmetric n t PARITY_COUNT_VALUES.

(* repaired code: the count mask is 0 when k >= usize::BITS (pinned code: 1 << k, which overflows) *)
Definition fill_equals (n : nat) (t : list N) (k : N) : res (list N) :=
  fill_symmetric n t (if k <? 64 then N.shiftl 1 k else 0).

Definition fill_threshold (n : nat) (t : list N) (k : N) : res (list N) :=
  if k =? 0 then fill_one n t
  else if N.of_nat n <? k then fill_zero n t
  else
    (* !0usize - (1 << k) + 1 ; k <= n here, the shift is checked *)
    dbg (k <? 64) ;;
    fill_symmetric n t (ones64 - N.shiftl 1 k + 1).

Definition fill_majority (n : nat) (t : list N) : res (list N) :=
  fill_threshold n t (N.of_nat ((n + 1) / 2)).

(* fill_random over an explicit stream of generator outputs (one per word) *)
Definition fill_random (n : nat) (t : list N) (stream : list N) : list N :=
  map2 (fun _ r => N.land (wrap64 r) (num_vars_mask n)) t stream.

(* ------------------------------------------------------------------ bits *)
Definition chk_bit (n : nat) (ind : N) : res unit := dbg (ind <? N.shiftl 1 (N.of_nat n)).

Definition word_at (t : list N) (ind : N) : res N :=
  match nth_error t (N.to_nat (N.shiftr ind 6)) with
  | Some w => Ok w
  | None => PanicAlways
  end.

Definition get_bit (n : nat) (t : list N) (ind : N) : res bool :=
  chk_bit n ind ;;
  let* w := word_at t ind in
  Ok (negb (N.land w (N.shiftl 1 (N.land ind 63)) =? 0)).

Definition set_bit (n : nat) (t : list N) (ind : N) : res (list N) :=
  chk_bit n ind ;;
  let* w := word_at t ind in
  Ok (upd t (N.to_nat (N.shiftr ind 6)) (N.lor w (N.shiftl 1 (N.land ind 63)))).

Definition unset_bit (n : nat) (t : list N) (ind : N) : res (list N) :=
  chk_bit n ind ;;
  let* w := word_at t ind in
  Ok (upd t (N.to_nat (N.shiftr ind 6)) (N.land w (not64 (N.shiftl 1 (N.land ind 63))))).

(* ------------------------------------------------------------------ logic *)
Definition not_inplace (n : nat) (t : list N) : list N :=
  map (fun w => N.land (num_vars_mask n) (not64 w)) t.

Definition binop_inplace (f : N -> N -> N) (t1 t2 : list N) : res (list N) :=
  dbg (Nat.eqb (length t1) (length t2)) ;; Ok (map2 f t1 t2).
Definition and_inplace := binop_inplace N.land.
Definition or_inplace := binop_inplace N.lor.
Definition xor_inplace := binop_inplace N.lxor.

(* ------------------------------------------------------------------ ordering *)
Fixpoint lex_cmp (a b : list N) : comparison :=
  match a, b with
  | [], [] => Eq
  | [], _ :: _ => Lt
  | _ :: _, [] => Gt
  | x :: a', y :: b' => match x ?= y with Eq => lex_cmp a' b' | c => c end
  end.

Definition cmp (t1 t2 : list N) : res comparison :=
  dbg (Nat.eqb (length t1) (length t2)) ;; Ok (lex_cmp (rev t1) (rev t2)).

(* ------------------------------------------------------------------ text (strings are byte lists) *)
Definition hex_str_size (n : nat) : nat :=
  if Nat.leb 6 n then 16%nat else if Nat.leb n 2 then 1%nat else Nat.pow 2 (n - 2).

(* digits of x in the given base, most significant first, at least one digit; 64 rounds are enough
   for any x < 2^64 and base >= 2 (proved in Proofs/Text.v) *)
Fixpoint digits_fuel (fuel : nat) (base x : N) (acc : list N) : list N :=
  match fuel with
  | O => acc
  | S f => let acc' := (x mod base) :: acc in
           if x / base =? 0 then acc' else digits_fuel f base (x / base) acc'
  end.
Definition digits (base x : N) : list N := digits_fuel 64 base x [].

Definition digit_char (d : N) : N := if d <? 10 then 48 + d else 87 + d.

(* format!("{:0width$x}", x) / {:0width$b} : zero padded to at least width characters *)
Definition pad_radix (base : N) (width : nat) (x : N) : list N :=
  let ds := map digit_char (digits base x) in
  repeat 48 (width - length ds) ++ ds.

Definition to_hex (n : nat) (t : list N) : list N :=
  concat (map (pad_radix 16 (hex_str_size n)) (rev t)).

Definition bin_width (n : nat) : nat := if Nat.leb 6 n then 64%nat else Nat.pow 2 n.
Definition to_bin (n : nat) (t : list N) : list N :=
  concat (map (pad_radix 2 (bin_width n)) (rev t)).

(* "Lut" = 76 117 116, "(" = 40, ")" = 41 *)
Definition fmt_wrap (n : nat) (body : list N) : list N :=
  [76; 117; 116] ++ map digit_char (digits 10 (N.of_nat n)) ++ [40] ++ body ++ [41].
Definition fmt_hex (n : nat) (t : list N) : list N := fmt_wrap n (to_hex n t).
Definition fmt_bin (n : nat) (t : list N) : list N := fmt_wrap n (to_bin n t).

Definition hexval (b : N) : option N :=
  if (48 <=? b) && (b <=? 57) then Some (b - 48)
  else if (97 <=? b) && (b <=? 102) then Some (b - 87)
  else if (65 <=? b) && (b <=? 70) then Some (b - 55)
  else None.
Definition is_hex_digit (b : N) : bool := match hexval b with Some _ => true | None => false end.

(* u64::from_str_radix(ss, 16) restricted to what reaches it in the repaired fill_hex:
   1..16 ASCII hex digits (no sign) *)
Fixpoint parse_hex (s : list N) (acc : N) : option N :=
  match s with
  | [] => Some acc
  | b :: r => match hexval b with Some d => parse_hex r (acc * 16 + d) | None => None end
  end.

Fixpoint chunks (width count : nat) (s : list N) : list (list N) :=
  match count with
  | O => []
  | S c => firstn width s :: chunks width c (skipn width s)
  end.

Fixpoint all_some {A} (l : list (option A)) : option (list A) :=
  match l with
  | [] => Some []
  | None :: _ => None
  | Some x :: r => match all_some r with Some r' => Some (x :: r') | None => None end
  end.

(* repaired code: every byte must be an ASCII hex digit (s.bytes().all(is_ascii_hexdigit)) and no bit beyond
   2^n may be set (pinned code: only is_ascii and the length were tested, so "+f" and Lut1 "f" were accepted) *)
Definition fill_hex (n : nat) (t : list N) (s : list N) : res (option (list N)) :=
  chk_len n t ;;
  if negb (forallb is_hex_digit s) then Ok None
  else
    let width := hex_str_size n in
    if negb (Nat.eqb (length s) (width * length t)) then Ok None
    else
      match all_some (map (fun ss => parse_hex ss 0) (chunks width (length t) s)) with
      | None => Ok None
      | Some ws =>
          if forallb (fun v => N.land v (not64 (num_vars_mask n)) =? 0) ws
          then Ok (Some (rev ws)) else Ok None
      end.

(* ------------------------------------------------------------------ swap / flip / cofactors *)
Definition swap_word_low (i j : nat) (w : N) : res N :=
  let shift := N.shiftl 1 (N.of_nat i) - N.shiftl 1 (N.of_nat j) in
  let mask_left := swap_mask i j in
  let mask_right := shl64 mask_left shift in
  let* s1 := add64 (N.land (N.land w (not64 mask_left)) (not64 mask_right))
                   (shl64 (N.land w mask_left) shift) in
  add64 s1 (N.shiftr (N.land w mask_right) shift).

(* the j <= 5 < i regime: one iteration of the k loop *)
Definition swap_cross_step (j : nat) (mi : nat) (acc : res (list N)) (k : nat) : res (list N) :=
  let* t := acc in
  if N.land (N.of_nat k) (N.of_nat mi) =? 0 then
    let t0 := nthN t k in
    let t1 := nthN t (k + mi) in
    let mask := var_mask j in
    let shift := N.shiftl 1 (N.of_nat j) in
    let t00 := N.land t0 (not64 mask) in
    let t01 := N.shiftr (N.land t0 mask) shift in
    let t10 := N.land t1 (not64 mask) in
    let t11 := N.shiftr (N.land t1 mask) shift in
    let* a := add64 t00 (shl64 t10 shift) in
    let* b := add64 t01 (shl64 t11 shift) in
    Ok (upd (upd t k a) (k + mi) b)
  else Ok t.

Definition swap_high_step (mi mj : nat) (t : list N) (k : nat) : list N :=
  if (N.land (N.of_nat mi) (N.of_nat k) =? 0) && negb (N.land (N.of_nat mj) (N.of_nat k) =? 0) then
    let o := (k - mj + mi)%nat in
    upd (upd t k (nthN t o)) o (nthN t k)
  else t.

Definition swap_inplace (n : nat) (t : list N) (ind1 ind2 : N) : res (list N) :=
  chk_len n t ;; chk_ind n ind1 ;; chk_ind n ind2 ;;
  if ind1 =? ind2 then Ok t
  else
    let i := N.to_nat (N.max ind1 ind2) in
    let j := N.to_nat (N.min ind1 ind2) in
    if Nat.leb i 5 then mapM (swap_word_low i j) t
    else if Nat.leb j 5 then
      fold_left (swap_cross_step j (Nat.pow 2 (i - 6))) (seq 0 (length t)) (Ok t)
    else
      Ok (fold_left (swap_high_step (Nat.pow 2 (i - 6)) (Nat.pow 2 (j - 6))) (seq 0 (length t)) t).

(* ind + 1 on usize: overflow panics in the dev profile *)
Definition swap_adjacent_inplace (n : nat) (t : list N) (ind : N) : res (list N) :=
  dbg (ind <? ones64) ;; swap_inplace n t ind (ind + 1).

Definition flip_word (i : nat) (w : N) : res N :=
  let shift := N.shiftl 1 (N.of_nat i) in
  let m1 := var_mask i in
  let m0 := not64 m1 in
  add64 (N.shiftr (N.land w m1) shift) (shl64 (N.land w m0) shift).

Definition flip_high_step (stride : nat) (t : list N) (i : nat) : list N :=
  if N.land (N.of_nat i) (N.of_nat stride) =? 0 then
    upd (upd t i (nthN t (i + stride))) (i + stride) (nthN t i)
  else t.

Definition flip_inplace (n : nat) (t : list N) (ind : N) : res (list N) :=
  chk_len n t ;; chk_ind n ind ;;
  let i := N.to_nat ind in
  if Nat.leb i 5 then mapM (flip_word i) t
  else Ok (fold_left (flip_high_step (Nat.pow 2 (i - 6))) (seq 0 (length t)) t).

Definition cof0_word (i : nat) (w : N) : res N :=
  let shift := N.shiftl 1 (N.of_nat i) in
  let m0 := not64 (var_mask i) in
  add64 (N.land w m0) (shl64 (N.land w m0) shift).

Definition cof0_high_step (stride : nat) (t : list N) (i : nat) : list N :=
  if N.land (N.of_nat i) (N.of_nat stride) =? 0 then upd t (i + stride) (nthN t i) else t.

Definition cofactor0_inplace (n : nat) (t : list N) (ind : N) : res (list N) :=
  chk_len n t ;; chk_ind n ind ;;
  let i := N.to_nat ind in
  if Nat.leb i 5 then mapM (cof0_word i) t
  else Ok (fold_left (cof0_high_step (Nat.pow 2 (i - 6))) (seq 0 (length t)) t).

Definition cof1_word (i : nat) (w : N) : res N :=
  let shift := N.shiftl 1 (N.of_nat i) in
  let m1 := var_mask i in
  add64 (N.shiftr (N.land w m1) shift) (N.land w m1).

Definition cof1_high_step (stride : nat) (t : list N) (i : nat) : list N :=
  if N.land (N.of_nat i) (N.of_nat stride) =? 0 then upd t i (nthN t (i + stride)) else t.

Definition cofactor1_inplace (n : nat) (t : list N) (ind : N) : res (list N) :=
  chk_len n t ;; chk_ind n ind ;;
  let i := N.to_nat ind in
  if Nat.leb i 5 then mapM (cof1_word i) t
  else Ok (fold_left (cof1_high_step (Nat.pow 2 (i - 6))) (seq 0 (length t)) t).

Definition from_cof_word (i : nat) (w0 w1 : N) : res N :=
  let m1 := var_mask i in
  let m0 := not64 m1 in
  add64 (N.land w1 m1) (N.land w0 m0).

Definition from_cofactors_inplace (n : nat) (t t0 t1 : list N) (ind : N) : res (list N) :=
  chk_len n t ;; chk_len n t0 ;; chk_len n t1 ;; chk_ind n ind ;;
  let i := N.to_nat ind in
  if Nat.leb i 5 then
    mapM (fun k => from_cof_word i (nthN t0 k) (nthN t1 k)) (seq 0 (length t))
  else
    let stride := Nat.pow 2 (i - 6) in
    Ok (map (fun k => if N.land (N.of_nat k) (N.of_nat stride) =? 0 then nthN t0 k else nthN t1 k)
            (seq 0 (length t))).

(* ------------------------------------------------------------------ successor *)
(* repaired code: wrapping_add (pinned code: *t + 1, which overflows in the dev profile on u64::MAX) *)
Fixpoint next_words (mask : N) (t : list N) : list N * bool :=
  match t with
  | [] => ([], false)
  | w :: r =>
      let w' := N.land (wrap64 (w + 1)) mask in
      if w' =? 0 then let (r', ok) := next_words mask r in (w' :: r', ok)
      else (w' :: r, true)
  end.

Definition next_inplace (n : nat) (t : list N) : res (list N * bool) :=
  chk_len n t ;; Ok (next_words (num_vars_mask n) t).
