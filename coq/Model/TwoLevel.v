(* Gallina mirror of /repo/src/sop/{cube,ecube,sop,esop,soes}.rs (repaired code where marked).
   u32 masks are [N] (< 2^32); usize arguments are [N]; variable counts of Sop/Esop/Soes are [nat]. *)
From Coq Require Import List NArith Arith Bool.
From V Require Import Base.Res Gen.Tables Model.Kernels.
Import ListNotations.
Open Scope N_scope.
Open Scope res_scope.

Definition ones32 : N := 0xffffffff.
Definition wrap32 (x : N) : N := N.land x ones32.
Definition not32 (x : N) : N := N.lxor x ones32.
(* 1 << v on u32: the shift amount is checked in the dev profile *)
Definition bit32 (v : N) : res N := dbg (v <? 32) ;; Ok (N.shiftl 1 v).

(* ------------------------------------------------------------------ Cube *)
Record cube := mkCube { cpos : N; cneg : N }.

Definition cube_eqb (a b : cube) : bool := (cpos a =? cpos b) && (cneg a =? cneg b).
(* derived Ord: lexicographic on (pos, neg) *)
Definition cube_cmp (a b : cube) : comparison :=
  match cpos a ?= cpos b with Eq => cneg a ?= cneg b | c => c end.
Definition cube_leb (a b : cube) : bool := match cube_cmp a b with Gt => false | _ => true end.

Definition cube_one : cube := mkCube 0 0.
Definition cube_zero : cube := mkCube ones32 ones32.
Definition cube_is_zero (c : cube) : bool := negb (N.land (cpos c) (cneg c) =? 0).
Definition cube_is_one (c : cube) : bool := (cpos c =? 0) && (cneg c =? 0).
Definition cube_is_constant (c : cube) : bool := cube_is_one c || cube_is_zero c.

Definition cube_nth_var (v : N) : res cube := let* b := bit32 v in Ok (mkCube b 0).
Definition cube_nth_var_inv (v : N) : res cube := let* b := bit32 v in Ok (mkCube 0 b).

(* repaired: tot is all ones for num_vars >= 32 (pinned code: (1 << num_vars) - 1, overflowing at 32) *)
Definition cube_minterm (num_vars mask : N) : cube :=
  let m := wrap32 mask in
  let tot := if 32 <=? num_vars then ones32 else N.shiftl 1 num_vars - 1 in
  mkCube (N.land m tot) (N.land (not32 m) tot).

Definition cube_value (c : cube) (mask : N) : bool :=
  let m := wrap32 mask in
  (N.lor (N.land (cpos c) m) (not32 (cpos c)) =? ones32) &&
  (N.lor (N.land (cneg c) (not32 m)) (not32 (cneg c)) =? ones32).

Definition cube_normalize (c : cube) : cube := if cube_is_zero c then cube_zero else c.

Fixpoint or_bits (vars : list N) (acc : N) : res N :=
  match vars with
  | [] => Ok acc
  | v :: r => let* b := bit32 v in or_bits r (N.lor acc b)
  end.

Definition cube_from_vars (pos_vars neg_vars : list N) : res cube :=
  let* p := or_bits pos_vars 0 in
  let* q := or_bits neg_vars 0 in
  Ok (cube_normalize (mkCube p q)).

Definition cube_from_mask (p q : N) : cube := cube_normalize (mkCube p q).

Definition cube_num_lits (c : cube) : N :=
  if cube_is_zero c then 0 else popcount (cpos c) + popcount (cneg c).
Definition cube_num_gates (c : cube) : N := N.max (cube_num_lits c) 1 - 1.

Definition bits_of (x : N) : list N := filter (fun v => N.testbit x v) (map N.of_nat (seq 0 32)).
Definition cube_pos_vars (c : cube) : list N := bits_of (cpos c).
Definition cube_neg_vars (c : cube) : list N := bits_of (cneg c).

Definition cube_and (a b : cube) : cube :=
  cube_normalize (mkCube (N.lor (cpos a) (cpos b)) (N.lor (cneg a) (cneg b))).
Definition cube_intersects (a b : cube) : bool := negb (cube_eqb (cube_and a b) cube_zero).
Definition cube_implies (a b : cube) : bool :=
  (N.lor (cpos a) (cpos b) =? cpos a) && (N.lor (cneg a) (cneg b) =? cneg a).

(* table lookups on well-formed tables (assignment < 2^n), without the API guards *)
Definition tget (t : list N) (m : N) : bool := N.testbit (nthN t (N.to_nat (N.shiftr m 6))) (N.land m 63).
Definition tset (t : list N) (m : N) (v : bool) : list N :=
  let k := N.to_nat (N.shiftr m 6) in
  let b := N.shiftl 1 (N.land m 63) in
  upd t k (if v then N.lor (nthN t k) b else N.land (nthN t k) (not64 b)).

Definition assignments (n : nat) : list N := map N.of_nat (seq 0 (Nat.pow 2 n)).

Definition cube_implies_lut (c : cube) (n : nat) (t : list N) : bool :=
  forallb (fun m => negb (cube_value c m && negb (tget t m))) (assignments n).

(* let mx: u32 = 1 << vars *)
Definition cube_all (vars : N) : res (list cube) :=
  let* mx := bit32 vars in
  let r := map N.of_nat (seq 0 (N.to_nat mx)) in
  Ok (filter (fun c => negb (cube_is_zero c)) (flat_map (fun i => map (fun j => mkCube i j) r) r)).

(* ------------------------------------------------------------------ Ecube *)
Record ecube := mkEcube { evars : N; exnor : bool }.

Definition ecube_eqb (a b : ecube) : bool := (evars a =? evars b) && Bool.eqb (exnor a) (exnor b).
Definition bool_cmp (a b : bool) : comparison :=
  match a, b with false, true => Lt | true, false => Gt | _, _ => Eq end.
Definition ecube_cmp (a b : ecube) : comparison :=
  match evars a ?= evars b with Eq => bool_cmp (exnor a) (exnor b) | c => c end.

Definition ecube_one : ecube := mkEcube 0 true.
Definition ecube_zero : ecube := mkEcube 0 false.
Definition ecube_is_zero (e : ecube) : bool := (evars e =? 0) && negb (exnor e).
Definition ecube_is_one (e : ecube) : bool := (evars e =? 0) && exnor e.
Definition ecube_nth_var (v : N) : res ecube := let* b := bit32 v in Ok (mkEcube b false).
Definition ecube_nth_var_inv (v : N) : res ecube := let* b := bit32 v in Ok (mkEcube b true).
Definition ecube_value (e : ecube) (mask : N) : bool :=
  let m := wrap32 mask in
  xorb (N.odd (popcount (N.land (evars e) m))) (exnor e).
Definition ecube_from_vars (vars : list N) (xnor : bool) : res ecube :=
  let* v := or_bits vars 0 in Ok (mkEcube v xnor).
Definition ecube_num_lits (e : ecube) : N := popcount (evars e).
Definition ecube_num_gates (e : ecube) : N := N.max (ecube_num_lits e) 1 - 1.
Definition ecube_vars (e : ecube) : list N := bits_of (evars e).
Definition ecube_implies_lut (e : ecube) (n : nat) (t : list N) : bool :=
  forallb (fun m => negb (ecube_value e m && negb (tget t m))) (assignments n).
Definition ecube_all (vars : N) : res (list ecube) :=
  let* mx := bit32 vars in
  Ok (flat_map (fun i => [mkEcube i false; mkEcube i true]) (map N.of_nat (seq 0 (N.to_nat mx)))).
Definition ecube_not (e : ecube) : ecube := mkEcube (evars e) (negb (exnor e)).
Definition ecube_xor (a b : ecube) : ecube := mkEcube (N.lxor (evars a) (evars b)) (xorb (exnor a) (exnor b)).

(* ------------------------------------------------------------------ Sop *)
Record sop := mkSop { snv : nat; scubes : list cube }.

Definition sop_zero (n : nat) : sop := mkSop n [].
Definition sop_one (n : nat) : sop := mkSop n [cube_one].
Definition sop_num_cubes (s : sop) : nat := length (scubes s).
Definition sop_num_lits (s : sop) : N := fold_left (fun a c => a + cube_num_lits c) (scubes s) 0.
Definition sop_is_zero (s : sop) : bool := match scubes s with [] => true | _ => false end.
Definition sop_is_one (s : sop) : bool := match scubes s with c :: _ => cube_is_one c | [] => false end.

Definition cube_vars_below (n : nat) (c : cube) : bool :=
  forallb (fun v => v <? N.of_nat n) (cube_pos_vars c) && forallb (fun v => v <? N.of_nat n) (cube_neg_vars c).

Definition sop_from_cubes (n : nat) (cubes : list cube) : res sop :=
  always (forallb (cube_vars_below n) cubes) ;; Ok (mkSop n cubes).

Definition sop_value (s : sop) (mask : N) : bool :=
  fold_left (fun r c => r || cube_value c mask) (scubes s) false.

(* Vec::sort on the derived order: insertion sort (the sorted permutation is unique, the order being total and
   antisymmetric on the fields) *)
Fixpoint cube_insert (c : cube) (l : list cube) : list cube :=
  match l with
  | [] => [c]
  | x :: r => if cube_leb c x then c :: l else x :: cube_insert c r
  end.
Definition cube_sort (l : list cube) : list cube := fold_right cube_insert [] l.

(* Vec::dedup: drop an element equal to its predecessor *)
Fixpoint cube_dedup (l : list cube) : list cube :=
  match l with
  | [] => []
  | x :: r => match r with
              | [] => [x]
              | y :: _ => if cube_eqb x y then cube_dedup r else x :: cube_dedup r
              end
  end.

Definition sop_simplify (cubes : list cube) : list cube :=
  let cs := filter (fun c => negb (cube_is_zero c)) cubes in
  let cs := cube_dedup (cube_sort cs) in
  filter (fun c => forallb (fun o => cube_eqb c o || negb (cube_implies c o)) cs) cs.

Definition sop_or (a b : sop) : res sop :=
  always (Nat.eqb (snv a) (snv b)) ;;
  Ok (mkSop (snv a) (sop_simplify (scubes a ++ scubes b))).

Definition sop_and (a b : sop) : res sop :=
  always (Nat.eqb (snv a) (snv b)) ;;
  let prods := flat_map (fun c1 => flat_map (fun c2 => let c := cube_and c1 c2 in
                                                         if cube_eqb c cube_zero then [] else [c]) (scubes b))
                        (scubes a) in
  Ok (mkSop (snv a) (sop_simplify prods)).

(* the sum of complemented literals of one cube *)
Definition cube_complement_sum (c : cube) : list cube :=
  map (fun l => mkCube 0 (N.shiftl 1 l)) (cube_pos_vars c) ++ map (fun l => mkCube (N.shiftl 1 l) 0) (cube_neg_vars c).

Definition sop_not (s : sop) : res sop :=
  fold_left (fun (acc : res sop) (c : cube) =>
               let* ret := acc in sop_and ret (mkSop (snv s) (cube_complement_sum c)))
            (scubes s) (Ok (sop_one (snv s))).

(* From<&Lut> for Sop: minterm cover in increasing assignment order *)
Definition sop_from_lut (n : nat) (t : list N) : sop :=
  mkSop n (map (fun m => cube_minterm (N.of_nat n) m) (filter (fun m => tget t m) (assignments n))).

(* From<&Sop> for Lut (also used for Esop and Soes): tabulate value *)
Definition tabulate (n : nat) (f : N -> bool) : list N :=
  fold_left (fun t m => if f m then tset t m true else t) (assignments n) (repeat 0 (table_size n)).
Definition sop_to_lut (s : sop) : list N := tabulate (snv s) (sop_value s).

(* ------------------------------------------------------------------ Esop *)
Record esop := mkEsop { env : nat; ecubes : list cube }.

Definition esop_zero (n : nat) : esop := mkEsop n [].
Definition esop_one (n : nat) : esop := mkEsop n [cube_one].
Definition esop_num_cubes (s : esop) : nat := length (ecubes s).
Definition esop_num_lits (s : esop) : N := fold_left (fun a c => a + cube_num_lits c) (ecubes s) 0.
Definition esop_is_zero (s : esop) : bool := match ecubes s with [] => true | _ => false end.
Definition esop_is_one (s : esop) : bool := match ecubes s with [c] => cube_is_one c | _ => false end.
Definition esop_from_cubes (n : nat) (cubes : list cube) : res esop :=
  always (forallb (cube_vars_below n) cubes) ;; Ok (mkEsop n cubes).
Definition esop_value (s : esop) (mask : N) : bool :=
  fold_left (fun r c => xorb r (cube_value c mask)) (ecubes s) false.
Definition esop_xor (a b : esop) : res esop :=
  always (Nat.eqb (env a) (env b)) ;; Ok (mkEsop (env a) (ecubes a ++ ecubes b)).
Definition esop_not (s : esop) : esop := mkEsop (env s) (ecubes s ++ [cube_one]).

(* From<&Lut> for Esop: the in-place sweep. State: (working table, cubes emitted so far, newest first) *)
Definition esop_sweep_step (n : nat) (st : list N * list cube) (i : N) : list N * list cube :=
  let (t, acc) := st in
  if negb (tget t i) then st
  else
    let t' := fold_left (fun t j => if N.land (not64 j) i =? 0 then tset t j (negb (tget t j)) else t)
                        (map (fun d => i + 1 + N.of_nat d) (seq 0 (Nat.pow 2 n - 1 - N.to_nat i))) t in
    (t', cube_from_mask (wrap32 i) 0 :: acc).
Definition esop_from_lut (n : nat) (t : list N) : esop :=
  mkEsop n (rev (snd (fold_left (esop_sweep_step n) (assignments n) (t, [])))).
Definition esop_to_lut (s : esop) : list N := tabulate (env s) (esop_value s).

(* ------------------------------------------------------------------ Soes *)
Record soes := mkSoes { onv : nat; ocubes : list ecube }.

Definition soes_zero (n : nat) : soes := mkSoes n [].
Definition soes_one (n : nat) : soes := mkSoes n [ecube_one].
Definition soes_num_cubes (s : soes) : nat := length (ocubes s).
Definition soes_num_lits (s : soes) : N := fold_left (fun a c => a + ecube_num_lits c) (ocubes s) 0.
Definition soes_is_zero (s : soes) : bool := match ocubes s with [] => true | _ => false end.
Definition soes_is_one (s : soes) : bool := match ocubes s with c :: _ => ecube_is_one c | [] => false end.
Definition soes_from_cubes (n : nat) (cubes : list ecube) : res soes :=
  always (forallb (fun e => forallb (fun v => v <? N.of_nat n) (ecube_vars e)) cubes) ;; Ok (mkSoes n cubes).
Definition soes_value (s : soes) (mask : N) : bool :=
  fold_left (fun r c => r || ecube_value c mask) (ocubes s) false.
Definition soes_or (a b : soes) : res soes :=
  always (Nat.eqb (onv a) (onv b)) ;; Ok (mkSoes (onv a) (ocubes a ++ ocubes b)).
Definition soes_to_lut (s : soes) : list N := tabulate (onv s) (soes_value s).

(* ------------------------------------------------------------------ Display (byte lists) *)
Definition dec (x : N) : list N := map digit_char (digits 10 x).
(* "x" = 120, "!" = 33, "^" = 94, "|" = 124, " " = 32, "0" = 48, "1" = 49 *)
Definition lit_str (neg : bool) (i : N) : list N := (if neg then [33; 120] else [120]) ++ dec i.

(* the while loop of Cube::fmt: 32 rounds cover any u32 *)
Definition cube_display (c : cube) : list N :=
  if cube_is_one c then [49]
  else if cube_is_zero c then [48]
  else flat_map (fun i => (if N.testbit (cpos c) i then lit_str false i else []) ++
                          (if N.testbit (cneg c) i then lit_str true i else []))
                (map N.of_nat (seq 0 32)).

Fixpoint join (sep : list N) (l : list (list N)) : list N :=
  match l with
  | [] => []
  | [x] => x
  | x :: r => x ++ sep ++ join sep r
  end.

Definition ecube_display (e : ecube) : list N :=
  if ecube_is_zero e then [48]
  else join [32; 94; 32] ((if exnor e then [[49]] else []) ++ map (lit_str false) (ecube_vars e)).

Definition sop_display (s : sop) : list N :=
  if sop_is_zero s then [48] else join [32; 124; 32] (map cube_display (scubes s)).
Definition esop_display (s : esop) : list N :=
  if esop_is_zero s then [48] else join [32; 94; 32] (map cube_display (ecubes s)).
Definition soes_display (s : soes) : list N :=
  if soes_is_zero s then [48] else join [32; 124; 32] (map ecube_display (ocubes s)).
