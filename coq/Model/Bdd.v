(* Gallina mirror of /repo/src/bdd.rs.
   Vec::sort + dedup + len is modelled as "number of distinct elements" (std behaviour, trusted base). *)
From Coq Require Import List NArith Arith Bool.
From V Require Import Base.Res Gen.Tables Model.Kernels.
Import ListNotations.
Open Scope N_scope.
Open Scope res_scope.

Definition distinct_count {A} (eq_dec : forall x y : A, {x = y} + {x <> y}) (l : list A) : nat :=
  length (nodup eq_dec l).

(* !0u64 >> (64 - s), for 1 <= s <= 64 *)
Definition low_mask (s : N) : N := N.shiftr ones64 (64 - s).

(* the sub-tables of one word at one level: 64/shift windows *)
Fixpoint word_windows (level : nat) (shift mask : N) (count : nat) (c : N) : list N :=
  match count with
  | O => []
  | S k =>
      let lut := if negb (N.land c 1 =? 0) then not64 c else c in
      let lut := N.land lut mask in
      let rest := word_windows level shift mask k (if Nat.ltb level 5 then N.shiftr c shift else c) in
      if negb (lut =? 0) then lut :: rest else rest
  end.

Definition keep_small (level : nat) (c : N) : bool :=
  let mid_shift := N.shiftl 1 (N.of_nat level) in
  let mid_mask := low_mask mid_shift in
  let h := N.shiftr c mid_shift in
  let l := N.land c mid_mask in
  if l =? h then false
  else if (l =? N.land (not64 h) mid_mask) && ((l =? 0) || (h =? 0)) then false
  else true.

Definition level_complexity (t : list N) (level : nat) : res nat :=
  always (Nat.ltb level 6) ;; always (Nat.leb 1 level) ;;
  let shift := N.shiftl 1 (N.of_nat (level + 1)) in
  let mask := low_mask shift in
  let count := Nat.pow 2 (5 - level) in   (* (0..64).step_by(shift) *)
  let luts := flat_map (word_windows level shift mask count) t in
  Ok (distinct_count N.eq_dec (filter (keep_small level) luts)).

(* groups of nb words: table[i..i+nb] must be in bounds (slice indexing panics otherwise) *)
Fixpoint groups (nb : nat) (count : nat) (t : list N) : list (list N) :=
  match count with
  | O => []
  | S k => firstn nb t :: groups nb k (skipn nb t)
  end.

Definition normalize_group (c : list N) : list N :=
  if negb (N.land (hd 0 c) 1 =? 0) then map not64 c else c.

Definition keep_large (mid_nb : nat) (c : list N) : bool :=
  let h := skipn mid_nb c in
  let l := firstn mid_nb c in
  if list_eq_dec N.eq_dec l h then false
  else
    let opp := forallb (fun p => fst p =? not64 (snd p)) (combine l h) in
    let lz := forallb (fun w => w =? 0) l in
    let hz := forallb (fun w => w =? 0) h in
    if opp && (lz || hz) then false else true.

Definition large_level_complexity (t : list N) (level : nat) : res nat :=
  always (Nat.leb 6 level) ;;
  let nb := Nat.pow 2 (level - 5) in
  (* step_by(nb) over 0..len: ceil(len/nb) groups; a short last group is a slice panic *)
  let count := ((length t + nb - 1) / nb)%nat in
  always (Nat.eqb (length t mod nb) 0) ;;
  let gs := map normalize_group (groups nb count t) in
  let gs := filter (fun c => existsb (fun w => negb (w =? 0)) c) gs in
  Ok (distinct_count (list_eq_dec N.eq_dec) (filter (keep_large (Nat.pow 2 (level - 6))) gs)).

Fixpoint sumM (l : list (res nat)) : res nat :=
  match l with
  | [] => Ok O
  | x :: r => let* a := x in let* b := sumM r in Ok (a + b)%nat
  end.

Definition table_complexity (n : nat) (t : list N) : res nat :=
  let* a := sumM (map (level_complexity t) (seq 1 (Nat.min n 6 - 1))) in
  let* b := sumM (map (large_level_complexity t) (seq 6 (n - 6))) in
  Ok (a + b)%nat.
