(* Gallina mirror of /repo/src/canonization.rs (repaired code, see the notes marked "repaired"). *)
From Coq Require Import List NArith Arith Bool.
From V Require Import Base.Res Gen.Tables Model.Kernels.
Import ListNotations.
Open Scope N_scope.
Open Scope res_scope.

(* ------------------------------------------------------------------ generators (n >= 7) *)
Definition trailing_zeros (x : N) : N :=
  match x with
  | N0 => 64
  | Npos p => (fix tz (p : positive) : N := match p with xO q => 1 + tz q | _ => 0 end) p
  end.

Definition gray (i : N) : N := N.lxor i (N.shiftr i 1).

Definition generate_gray_flips (nb_bits : nat) (rollback : bool) : list N :=
  let end_ := Nat.pow 2 nb_bits in
  let body := map (fun i => let i := N.of_nat i in
                            trailing_zeros (N.lxor (gray (i - 1)) (gray i))) (seq 1 (end_ - 1)) in
  if rollback then body ++ [N.of_nat (nb_bits - 1)] else body.

Fixpoint insert_at {A} (j : nat) (x : A) (l : list A) : list A :=
  match j, l with
  | O, _ => x :: l
  | S j', [] => [x]
  | S j', y :: l' => y :: insert_at j' x l'
  end.

(* one level of generate_single_swap_permutations: even positions insert left to right, odd ones right to left *)
Fixpoint sjt_step (even : bool) (k : N) (perms : list (list N)) : list (list N) :=
  match perms with
  | [] => []
  | cur :: rest =>
      let js := seq 0 (length cur + 1) in
      let js := if even then js else rev js in
      map (fun j => insert_at j k cur) js ++ sjt_step (negb even) k rest
  end.

Fixpoint generate_single_swap_permutations (n : nat) : list (list N) :=
  match n with
  | 0%nat => [[]]
  | 1%nat => [[0]]
  | 2%nat => [[1; 0]; [0; 1]]
  | S m => sjt_step true (N.of_nat m) (generate_single_swap_permutations m)
  end.

(* check_permutation_swap: every assert is an assert_eq! (always on) *)
Definition check_permutation_swap (p1 p2 : list N) (ind : nat) : res unit :=
  always (Nat.eqb (length p1) (length p2)) ;;
  fold_left (fun (acc : res unit) (i : nat) =>
               acc ;;
               if negb (Nat.eqb i ind) && negb (Nat.eqb i (ind + 1))
               then always (nthN p1 i =? nthN p2 i) else Ok tt)
            (seq 0 (length p1 - 1)) (Ok tt) ;;
  always (Nat.ltb (ind + 1) (length p1)) ;;
  always (nthN p1 ind =? nthN p2 (ind + 1)) ;;
  always (nthN p1 (ind + 1) =? nthN p2 ind).

Fixpoint find_first_diff (p1 p2 : list N) (i : nat) (fuel : nat) : option nat :=
  match fuel with
  | O => None
  | S f => if negb (nthN p1 i =? nthN p2 i) then Some i else find_first_diff p1 p2 (S i) f
  end.

Definition find_permutation_swap (p1 p2 : list N) : res N :=
  always (Nat.eqb (length p1) (length p2)) ;;
  match find_first_diff p1 p2 0 (length p1 - 1) with
  | Some i => check_permutation_swap p1 p2 i ;; Ok (N.of_nat i)
  | None => PanicAlways
  end.

Fixpoint swaps_between (perms : list (list N)) : res (list N) :=
  match perms with
  | p1 :: ((p2 :: _) as rest) =>
      let* s := find_permutation_swap p1 p2 in
      let* r := swaps_between rest in
      Ok (s :: r)
  | _ => Ok []
  end.

Definition generate_swaps (n : nat) (rollback : bool) : res (list N) :=
  let perms := generate_single_swap_permutations n in
  let* swaps := swaps_between perms in
  if rollback && negb (Nat.eqb (length swaps) 0) then
    let* s := find_permutation_swap (last perms []) (hd [] perms) in
    Ok (swaps ++ [s])
  else Ok swaps.

(* ------------------------------------------------------------------ walks *)
(* state of a walk: (table, best, best_ind, ind) *)
Definition wstate := (list N * list N * N * N)%type.

Definition try_best (st : wstate) : res wstate :=
  let '(t, best, best_ind, ind) := st in
  let* c := cmp t best in
  Ok (match c with Lt => (t, t, ind, ind + 1) | _ => (t, best, best_ind, ind + 1) end).

(* repaired: best_ind starts at the last index of the closed walk, where the cumulative transformation is the
   identity (pinned code: 0, so an already-minimal input got the certificate of the first step) *)
Definition p_step (n : nat) (acc : res wstate) (swap : N) : res wstate :=
  let* (t, best, best_ind, ind) := acc in
  let* t' := swap_adjacent_inplace n t swap in
  try_best (t', best, best_ind, ind).

Definition p_canonization_ind (n : nat) (t : list N) (all_swaps : list N) : res (list N * N) :=
  let* (_, best, best_ind, _) :=
     fold_left (p_step n) all_swaps (Ok (t, t, N.of_nat (length all_swaps) - 1, 0)) in
  Ok (best, best_ind).

Definition two_nots (n : nat) (st : wstate) : res wstate :=
  let '(t, best, best_ind, ind) := st in
  let* st1 := try_best (not_inplace n t, best, best_ind, ind) in
  let '(t1, best1, best_ind1, ind1) := st1 in
  try_best (not_inplace n t1, best1, best_ind1, ind1).

Definition n_step (n : nat) (acc : res wstate) (flip : N) : res wstate :=
  let* (t, best, best_ind, ind) := acc in
  let* t' := flip_inplace n t flip in
  two_nots n (t', best, best_ind, ind).

Definition n_canonization_ind (n : nat) (t : list N) (all_flips : list N) : res (list N * N) :=
  let* (_, best, best_ind, _) :=
     fold_left (n_step n) all_flips (Ok (t, t, 2 * N.of_nat (length all_flips) - 1, 0)) in
  Ok (best, best_ind).

Definition npn_step (n : nat) (all_flips : list N) (acc : res wstate) (swap : N) : res wstate :=
  let* (t, best, best_ind, ind) := acc in
  let* t' := swap_adjacent_inplace n t swap in
  fold_left (n_step n) all_flips (Ok (t', best, best_ind, ind)).

Definition npn_canonization_ind (n : nat) (t : list N) (all_swaps all_flips : list N) : res (list N * N) :=
  let* (_, best, best_ind, _) :=
     fold_left (npn_step n all_flips) all_swaps
               (Ok (t, t, 2 * N.of_nat (length all_swaps) * N.of_nat (length all_flips) - 1, 0)) in
  Ok (best, best_ind).

(* ------------------------------------------------------------------ certificates *)
Definition perm_swap (p : list N) (i : N) : res (list N) :=
  let i := N.to_nat i in
  always (Nat.ltb (i + 1) (length p)) ;;
  Ok (upd (upd p i (nthN p (i + 1))) (i + 1) (nthN p i)).

Definition identity_perm (n : nat) : list N := map N.of_nat (seq 0 n).

(* the search loops return as soon as the index is reached: (value, remaining index or done) *)
Fixpoint p_res_loop (perm : list N) (swaps : list N) (ind best_ind : N) : res (list N) :=
  match swaps with
  | [] => PanicAlways
  | s :: r =>
      let* perm' := perm_swap perm s in
      if ind =? best_ind then Ok perm' else p_res_loop perm' r (ind + 1) best_ind
  end.

Definition p_canonization_res (n : nat) (all_swaps : list N) (best_ind : N) : res (list N) :=
  always (best_ind <=? N.of_nat (length all_swaps)) ;;
  p_res_loop (identity_perm n) all_swaps 0 best_ind.

Definition ones32 : N := 0xffffffff.
(* cur_flip ^= 1 << x on u32: the shift amount is checked *)
Definition xor_bit32 (cur x : N) : res N := dbg (x <? 32) ;; Ok (N.lxor cur (N.shiftl 1 x)).

(* inner part shared by n_ and npn_: one flip, two complementations; returns (inl result) when the index is hit *)
Definition flip_res_step (n : nat) (cur ind best_ind flip : N) : res (N + N * N) :=
  let* c1 := xor_bit32 cur flip in
  let* c2 := xor_bit32 c1 (N.of_nat n) in
  if ind =? best_ind then Ok (inl c2)
  else
    let* c3 := xor_bit32 c2 (N.of_nat n) in
    if ind + 1 =? best_ind then Ok (inl c3) else Ok (inr (c3, ind + 2)).

Fixpoint flips_res_loop (n : nat) (flips : list N) (cur ind best_ind : N) : res (N + N * N) :=
  match flips with
  | [] => Ok (inr (cur, ind))
  | f :: r =>
      let* x := flip_res_step n cur ind best_ind f in
      match x with
      | inl v => Ok (inl v)
      | inr (cur', ind') => flips_res_loop n r cur' ind' best_ind
      end
  end.

Definition n_canonization_res (n : nat) (all_flips : list N) (best_ind : N) : res N :=
  let* x := flips_res_loop n all_flips 0 0 best_ind in
  match x with inl v => Ok v | inr _ => PanicAlways end.

Fixpoint npn_res_loop (n : nat) (perm : list N) (swaps flips : list N) (cur ind best_ind : N)
  : res (list N * N) :=
  match swaps with
  | [] => PanicAlways
  | s :: r =>
      let* perm' := perm_swap perm s in
      let* x := flips_res_loop n flips cur ind best_ind in
      match x with
      | inl v => Ok (perm', v)
      | inr (cur', ind') => npn_res_loop n perm' r flips cur' ind' best_ind
      end
  end.

Definition npn_canonization_res (n : nat) (all_swaps all_flips : list N) (best_ind : N) : res (list N * N) :=
  npn_res_loop n (identity_perm n) all_swaps all_flips 0 0 best_ind.

(* ------------------------------------------------------------------ dispatch *)
Definition swaps_for (n : nat) : res (list N) :=
  if Nat.leb n 6 then Ok (nth n SWAPS []) else generate_swaps n true.
Definition flips_for (n : nat) : res (list N) :=
  if Nat.leb n 6 then Ok (nth n FLIPS []) else Ok (generate_gray_flips n true).

(* repaired: sizes 0 and 1 have no input permutation (pinned code fell through to panic!()) *)
Definition p_canonization (n : nat) (t : list N) : res (list N * list N) :=
  if Nat.leb n 1 then Ok (t, identity_perm n)
  else
    let* sw := swaps_for n in
    let* (best, bi) := p_canonization_ind n t sw in
    let* perm := p_canonization_res n sw bi in
    Ok (best, perm).

(* repaired: size 0 has only the output complementation *)
Definition n_canonization (n : nat) (t : list N) : res (list N * N) :=
  if Nat.eqb n 0 then
    let t' := not_inplace n t in
    let* c := cmp t' t in
    Ok (match c with Lt => (t', 1) | _ => (t, 0) end)
  else
    let* fl := flips_for n in
    let* (best, bi) := n_canonization_ind n t fl in
    let* mask := n_canonization_res n fl bi in
    Ok (best, mask).

(* repaired: for sizes 0 and 1 NPN is N with the identity permutation *)
Definition npn_canonization (n : nat) (t : list N) : res (list N * list N * N) :=
  if Nat.leb n 1 then
    let* (best, mask) := n_canonization n t in
    Ok (best, identity_perm n, mask)
  else
    let* sw := swaps_for n in
    let* fl := flips_for n in
    let* (best, bi) := npn_canonization_ind n t sw fl in
    let* (perm, mask) := npn_canonization_res n sw fl bi in
    Ok (best, perm, mask).
