(* Gallina mirror of /repo/src/sop/optim.rs and /repo/src/sop/optim/mip.rs (feature optim-mip).
   What is volute's own logic is modelled in full: candidate enumeration, the 0-1 programmes (variables in creation
   order, constraints in the order they are pushed, in good_lp's normal form `expr <= 0` / `expr = 0`, objective),
   the decoding of a solution (`value > 0.5`) and the checks made on the way (`check`, the final `assert_eq!`).
   The solver (HiGHS through good_lp) is NOT modelled: it is a parameter [solver : program -> option (nat -> Q)]
   of the `*_run` functions (`.solve().unwrap()` panics on an error, hence [None] gives [PanicAlways]).

   Linear expressions are kept in HALF units (every coefficient and constant is multiplied by 2) so that the
   `expr *= 0.5` of the xor constraints stays integral: [mkLin [(c1, v1); ...] k] denotes (c1*x_v1 + ... + k) / 2.
   The hook `verif::mip_program` dumps the programme the Rust code builds in the same units; the correspondence
   check compares the two constraint by constraint.  No proofs in this file. *)
From Coq Require Import List NArith ZArith QArith Arith Bool.
From V Require Import Base.Res Model.Kernels Model.TwoLevel Model.Api.
Import ListNotations.
Open Scope N_scope.
Open Scope res_scope.

(* ------------------------------------------------------------------ programmes *)
Record lin := mkLin { lcoef : list (Z * nat); lconst : Z }.
Inductive rel := RLe | REq.                        (* expr <= 0, expr = 0 *)
Record constr := mkConstr { cexpr : lin; crel : rel }.
Inductive vkind := VBinary | VNonNeg | VInteger.   (* variable().binary(), variable().min(0), variable().integer() *)
Record program := mkProgram { pkinds : list vkind; pconstrs : list constr; pobj : lin }.

Definition eval2 (x : nat -> Q) (l : lin) : Q :=
  fold_right (fun (cv : Z * nat) acc => (inject_Z (fst cv) * x (snd cv) + acc)%Q) (inject_Z (lconst l)) (lcoef l).

Definition kind_ok (k : vkind) (v : Q) : Prop :=
  match k with
  | VBinary => (v == 0)%Q \/ (v == 1)%Q
  | VNonNeg => (0 <= v)%Q
  | VInteger => exists z : Z, (v == inject_Z z)%Q
  end.
Definition constr_ok (x : nat -> Q) (c : constr) : Prop :=
  match crel c with RLe => (eval2 x (cexpr c) <= 0)%Q | REq => (eval2 x (cexpr c) == 0)%Q end.
Definition feasible (p : program) (x : nat -> Q) : Prop :=
  (forall i k, nth_error (pkinds p) i = Some k -> kind_ok k (x i)) /\ Forall (constr_ok x) (pconstrs p).
(* what is assumed of the solver when optimality is claimed (a hypothesis of theorems, never an axiom): on the ONE
   programme p that is handed to it, it returns a feasible point of minimum objective, and fails only if p is infeasible *)
Definition solver_optimal_on (solver : program -> option (nat -> Q)) (p : program) : Prop :=
  (forall x, solver p = Some x ->
     feasible p x /\ forall y, feasible p y -> (eval2 x (pobj p) <= eval2 y (pobj p))%Q) /\
  (solver p = None -> forall y, ~ feasible p y).
(* NOT USED as a hypothesis anywhere: the same requirement for EVERY programme is satisfied by no solver, because
   unbounded programmes have no optimum (Properties/C18.v, C18_solver_optimal_unsatisfiable).  Kept to document why
   the theorems are stated per programme. *)
Definition solver_optimal (solver : program -> option (nat -> Q)) : Prop :=
  forall p, (forall x, solver p = Some x ->
               feasible p x /\ forall y, feasible p y -> (eval2 x (pobj p) <= eval2 y (pobj p))%Q) /\
            (solver p = None -> forall y, ~ feasible p y).

(* `solution.value(v) > 0.5` *)
Definition used (x : nat -> Q) (v : nat) : bool := if Qlt_le_dec (1 # 2) (x v) then true else false.

(* ------------------------------------------------------------------ candidates (optim.rs) *)
Definition enumerate_valid_cubes (f : lut) : res (list cube) :=
  let* all := cube_all (N.of_nat (nv f)) in Ok (filter (fun c => cube_implies_lut c (nv f) (tbl f)) all).
Definition enumerate_valid_ecubes (f : lut) : res (list ecube) :=
  let* all := ecube_all (N.of_nat (nv f)) in Ok (filter (fun e => ecube_implies_lut e (nv f) (tbl f)) all).

Fixpoint concatM {A} (l : list (res (list A))) : res (list A) :=
  match l with
  | [] => Ok []
  | x :: r => let* a := x in let* b := concatM r in Ok (a ++ b)
  end.

Fixpoint ecube_insert (e : ecube) (l : list ecube) : list ecube :=
  match l with
  | [] => [e]
  | x :: r => match ecube_cmp e x with Gt => x :: ecube_insert e r | _ => e :: l end
  end.
Definition ecube_sort (l : list ecube) : list ecube := fold_right ecube_insert [] l.
Fixpoint ecube_dedup (l : list ecube) : list ecube :=
  match l with
  | a :: ((b :: _) as r) => if ecube_eqb a b then ecube_dedup r else a :: ecube_dedup r
  | _ => l
  end.

(* cubes.sort(); cubes.dedup() *)
Definition enumerate_valid_cubes_multi (fs : list lut) : res (list cube) :=
  let* cs := concatM (map enumerate_valid_cubes fs) in Ok (cube_dedup (cube_sort cs)).
(* cubes.retain(|c| c.num_lits() >= 2); cubes.sort(); cubes.dedup() *)
Definition enumerate_valid_ecubes_multi (fs : list lut) : res (list ecube) :=
  let* es := concatM (map enumerate_valid_ecubes fs) in
  Ok (ecube_dedup (ecube_sort (filter (fun e => 2 <=? ecube_num_lits e) es))).

(* ------------------------------------------------------------------ helpers *)
Definition i32_max : Z := 2147483647.
(* `a as i32 * b` on i32: overflow panics in the dev profile *)
Definition mul_i32 (a b : Z) : res Z := dbg (Z.leb (Z.abs (a * b)) i32_max) ;; Ok (a * b)%Z.
Definition num_bits_nat (f : lut) : nat := Nat.pow 2 (nv f).
Definition same_vars (fs : list lut) : bool :=
  match fs with [] => true | f0 :: _ => forallb (fun f => Nat.eqb (nv f) (nv f0)) fs end.
Definition Z2 (z : Z) : Z := (2 * z)%Z.                 (* half units *)

(* ------------------------------------------------------------------ SopModeler *)
Section SopModel.
  Variable fs : list lut.
  Variables and_cost xor_cost or_cost : Z.
  Variable cubes : list cube.
  Variable ecs : list ecube.
  Let nc := length cubes.
  Let ne := length ecs.
  Let nf := length fs.
  (* variables in creation order *)
  Definition v_cu (i : nat) : nat := i.
  Definition v_ecu (i : nat) : nat := (nc + i)%nat.
  Definition v_cuf (i j : nat) : nat := (nc + ne + i * nf + j)%nat.
  Definition v_ecuf (i j : nat) : nat := (nc + ne + nc * nf + i * nf + j)%nat.
  Definition v_or (j : nat) : nat := (nc + ne + nc * nf + ne * nf + j)%nat.

  Definition sop_kinds : list vkind := repeat VBinary (nc + ne + nc * nf + ne * nf) ++ repeat VNonNeg nf.

  (* (num_or - num_cubes + 1).geq(0)  ~>  - num_or + sum(in_fn) - 1 <= 0 *)
  Definition c_num_or (j : nat) : constr :=
    mkConstr (mkLin ((Z2 (-1), v_or j) :: map (fun i => (Z2 1, v_cuf i j)) (seq 0 nc)
                                        ++ map (fun i => (Z2 1, v_ecuf i j)) (seq 0 ne)) (Z2 (-1))) RLe.
  (* (in_fn - used).leq(0) *)
  Definition c_cover (j : nat) : list constr :=
    map (fun i => mkConstr (mkLin [(Z2 1, v_cuf i j); (Z2 (-1), v_cu i)] 0) RLe) (seq 0 nc) ++
    map (fun i => mkConstr (mkLin [(Z2 1, v_ecuf i j); (Z2 (-1), v_ecu i)] 0) RLe) (seq 0 ne).
  (* (1.0 * in_fn).leq(0) for candidates that do not imply f_j *)
  Definition c_off (j : nat) (f : lut) : list constr :=
    flat_map (fun i => if cube_implies_lut (nth i cubes cube_zero) (nv f) (tbl f) then []
                       else [mkConstr (mkLin [(Z2 1, v_cuf i j)] 0) RLe]) (seq 0 nc) ++
    flat_map (fun i => if ecube_implies_lut (nth i ecs ecube_zero) (nv f) (tbl f) then []
                       else [mkConstr (mkLin [(Z2 1, v_ecuf i j)] 0) RLe]) (seq 0 ne).
  (* expr.geq(1) for every on-set assignment  ~>  1 - expr <= 0 *)
  Definition c_on (j : nat) (f : lut) : list constr :=
    flat_map (fun b => let m := N.of_nat b in
                       if tget (tbl f) m then
                         [mkConstr (mkLin (flat_map (fun i => if cube_value (nth i cubes cube_zero) m
                                                              then [(Z2 (-1), v_cuf i j)] else []) (seq 0 nc) ++
                                           flat_map (fun i => if ecube_value (nth i ecs ecube_zero) m
                                                              then [(Z2 (-1), v_ecuf i j)] else []) (seq 0 ne))
                                          (Z2 1)) RLe]
                       else []) (seq 0 (num_bits_nat f)).

  Definition indexed : list (nat * lut) := combine (seq 0 nf) fs.
  Definition sop_constraints : list constr :=
    map c_num_or (seq 0 nf) ++
    flat_map c_cover (seq 0 nf) ++
    flat_map (fun jf => c_off (fst jf) (snd jf)) indexed ++
    flat_map (fun jf => c_on (fst jf) (snd jf)) indexed.

  Definition sop_objective : res lin :=
    let* cc := mapM (fun i => let* c := mul_i32 (Z.of_N (cube_num_gates (nth i cubes cube_zero))) and_cost in
                              Ok (Z2 c, v_cu i)) (seq 0 nc) in
    let* ec := mapM (fun i => let* c := mul_i32 (Z.of_N (ecube_num_gates (nth i ecs ecube_zero))) xor_cost in
                              Ok (Z2 c, v_ecu i)) (seq 0 ne) in
    Ok (mkLin (cc ++ ec ++ map (fun j => (Z2 or_cost, v_or j)) (seq 0 nf)) 0).

  Definition sop_decode_fn (x : nat -> Q) (j : nat) : list cube * list ecube :=
    (map (fun i => nth i cubes cube_zero) (filter (fun i => used x (v_cuf i j)) (seq 0 nc)),
     map (fun i => nth i ecs ecube_zero) (filter (fun i => used x (v_ecuf i j)) (seq 0 ne))).
End SopModel.

Definition sop_candidates (fs : list lut) (xor_cost : Z) : res (list cube * list ecube) :=
  let* cubes := enumerate_valid_cubes_multi fs in
  let* ecs := if Z.leb 0 xor_cost then enumerate_valid_ecubes_multi fs else Ok [] in
  Ok (cubes, ecs).

(* check(): assert_eq!(f.num_vars(), functions[0].num_vars()); assert!(and_cost >= 1); assert!(or_cost >= 1);
   assert!(xor_cost == -1 || xor_cost >= 1) *)
Definition sop_check (fs : list lut) (and_cost xor_cost or_cost : Z) : res unit :=
  always (same_vars fs) ;; always (Z.leb 1 and_cost) ;; always (Z.leb 1 or_cost) ;;
  always (Z.eqb xor_cost (-1) || Z.leb 1 xor_cost).

Definition sop_program (fs : list lut) (and_cost xor_cost or_cost : Z) : res (program * list cube * list ecube) :=
  let* (cubes, ecs) := sop_candidates fs xor_cost in
  sop_check fs and_cost xor_cost or_cost ;;
  let* obj := sop_objective fs and_cost xor_cost or_cost cubes ecs in
  Ok (mkProgram (sop_kinds fs cubes ecs) (sop_constraints fs cubes ecs) obj, cubes, ecs).

Definition lut_or_tables (a b : list N) : list N := map2 N.lor a b.

(* SopModeler::run *)
Definition sop_run (solver : program -> option (nat -> Q)) (fs : list lut) (and_cost xor_cost or_cost : Z)
  : res (list (sop * soes)) :=
  let* (p, cubes, ecs) := sop_program fs and_cost xor_cost or_cost in
  match solver p with
  | None => PanicAlways
  | Some x =>
      let* ret := mapM (fun jf : nat * lut =>
                          let (j, f) := jf in
                          let (cs, es) := sop_decode_fn fs cubes ecs x j in
                          let* s := sop_from_cubes (nv f) cs in
                          let* o := soes_from_cubes (nv f) es in
                          always (negb (Z.ltb xor_cost 0) || Nat.eqb (soes_num_cubes o) 0) ;;
                          Ok (s, o)) (indexed fs) in
      (* for ((sop, soes), lut) in zip(&ret, functions) { assert_eq!(&(Lut::from(sop) | Lut::from(soes)), lut) } *)
      mapM (fun rf : (sop * soes) * lut =>
              let '((s, o), f) := rf in
              always (D_eq (mkLut (snv s) (lut_or_tables (sop_to_lut s) (soes_to_lut o))) f) ;; Ok (s, o))
           (combine ret fs)
  end.

Definition optimize_sop_mip solver (fs : list lut) (and_cost or_cost : Z) : res (list sop) :=
  let* r := sop_run solver fs and_cost (-1) or_cost in
  mapM (fun so : sop * soes => always (Nat.eqb (soes_num_cubes (snd so)) 0) ;; Ok (fst so)) r.
Definition optimize_sopes_mip solver (fs : list lut) (and_cost xor_cost or_cost : Z) : res (list (sop * soes)) :=
  sop_run solver fs and_cost xor_cost or_cost.

(* ------------------------------------------------------------------ EsopModeler *)
Section EsopModel.
  Variable fs : list lut.
  Variables and_cost xor_cost : Z.
  Variable cubes : list cube.
  Let nc := length cubes.
  Let nf := length fs.
  Definition w_cu (i : nat) : nat := i.
  Definition w_cuf (i j : nat) : nat := (nc + i * nf + j)%nat.
  Definition w_xor (j : nat) : nat := (nc + nc * nf + j)%nat.
  Definition w_first_int : nat := (nc + nc * nf + nf)%nat.   (* integer variables of the xor constraints follow *)

  Definition e_num_xor (j : nat) : constr :=
    mkConstr (mkLin ((Z2 (-1), w_xor j) :: map (fun i => (Z2 1, w_cuf i j)) (seq 0 nc)) (Z2 (-1))) RLe.
  Definition e_cover (j : nat) : list constr :=
    map (fun i => mkConstr (mkLin [(Z2 1, w_cuf i j); (Z2 (-1), w_cu i)] 0) RLe) (seq 0 nc).

  (* add_xor_constraint: (value + sum vars) * 0.5 + k = 0 with a fresh integer variable k; in half units:
     value + sum vars + 2 k = 0 *)
  Definition xor_constr (vars : list nat) (value : bool) (k : nat) : constr :=
    mkConstr (mkLin (map (fun v => (1%Z, v)) vars ++ [(2%Z, k)]) (if value then 1%Z else 0%Z)) REq.

  (* add_value_constraint(j, b) *)
  Definition value_vars (j : nat) (b : N) : list nat :=
    flat_map (fun i => if cube_value (nth i cubes cube_zero) b then [w_cuf i j] else []) (seq 0 nc).
  (* add_value_constraint_diff(j, b1, b2) *)
  Definition diff_vars (j : nat) (b1 b2 : N) : list nat :=
    flat_map (fun i => let c := nth i cubes cube_zero in
                       if Bool.eqb (cube_value c b1) (cube_value c b2) then [] else [w_cuf i j]) (seq 0 nc).

  (* the (function, bit) pairs of add_value_constraints, then the (function, bit, flipped variable) triples of
     add_redundant_value_constraints, in loop order; each consumes one integer variable *)
  Definition value_sites : list (nat * lut * N) :=
    flat_map (fun jf : nat * lut => map (fun b => (fst jf, snd jf, N.of_nat b)) (seq 0 (num_bits_nat (snd jf))))
             (combine (seq 0 nf) fs).
  Definition diff_sites : list (nat * lut * N * N) :=
    flat_map (fun jf : nat * lut =>
                flat_map (fun b => map (fun fl => (fst jf, snd jf, N.of_nat b, N.lxor (N.of_nat b) (N.shiftl 1 (N.of_nat fl))))
                                       (seq 0 (nv (snd jf))))
                         (seq 0 (num_bits_nat (snd jf))))
             (combine (seq 0 nf) fs).

  Definition esop_xor_constraints : list constr :=
    map (fun sk : (nat * lut * N) * nat =>
           let '((j, f, b), k) := sk in xor_constr (value_vars j b) (tget (tbl f) b) (w_first_int + k)%nat)
        (combine value_sites (seq 0 (length value_sites))) ++
    map (fun sk : (nat * lut * N * N) * nat =>
           let '((j, f, b1, b2), k) := sk in
           xor_constr (diff_vars j b1 b2) (xorb (tget (tbl f) b1) (tget (tbl f) b2))
                      (w_first_int + length value_sites + k)%nat)
        (combine diff_sites (seq 0 (length diff_sites))).

  Definition esop_kinds : list vkind :=
    repeat VBinary (nc + nc * nf) ++ repeat VNonNeg nf ++ repeat VInteger (length value_sites + length diff_sites).
  Definition esop_constraints : list constr :=
    map e_num_xor (seq 0 nf) ++ flat_map e_cover (seq 0 nf) ++ esop_xor_constraints.
  Definition esop_objective : res lin :=
    let* cc := mapM (fun i => let* c := mul_i32 (Z.of_N (cube_num_gates (nth i cubes cube_zero))) and_cost in
                              Ok (Z2 c, w_cu i)) (seq 0 nc) in
    Ok (mkLin (cc ++ map (fun j => (Z2 xor_cost, w_xor j)) (seq 0 nf)) 0).
  Definition esop_decode_fn (x : nat -> Q) (j : nat) : list cube :=
    map (fun i => nth i cubes cube_zero) (filter (fun i => used x (w_cuf i j)) (seq 0 nc)).
End EsopModel.

Definition esop_num_vars (fs : list lut) : nat := match fs with f :: _ => nv f | [] => 0%nat end.
Definition esop_check (fs : list lut) (and_cost xor_cost : Z) : res unit :=
  always (same_vars fs) ;; always (Z.leb 1 and_cost) ;; always (Z.leb 1 xor_cost).

Definition esop_program (fs : list lut) (and_cost xor_cost : Z) : res (program * list cube) :=
  let* cubes := cube_all (N.of_nat (esop_num_vars fs)) in
  esop_check fs and_cost xor_cost ;;
  let* obj := esop_objective fs and_cost xor_cost cubes in
  Ok (mkProgram (esop_kinds fs cubes) (esop_constraints fs cubes) obj, cubes).

Definition esop_run (solver : program -> option (nat -> Q)) (fs : list lut) (and_cost xor_cost : Z) : res (list esop) :=
  let* (p, cubes) := esop_program fs and_cost xor_cost in
  match solver p with
  | None => PanicAlways
  | Some x =>
      let* ret := mapM (fun jf : nat * lut => esop_from_cubes (nv (snd jf)) (esop_decode_fn fs cubes x (fst jf)))
                       (combine (seq 0 (length fs)) fs) in
      mapM (fun rf : esop * lut =>
              always (D_eq (mkLut (env (fst rf)) (esop_to_lut (fst rf))) (snd rf)) ;; Ok (fst rf))
           (combine ret fs)
  end.
Definition optimize_esop_mip := esop_run.

(* ------------------------------------------------------------------ canonical dump (for the correspondence check) *)
(* merge duplicate variables, drop zero coefficients, sort by variable index *)
Fixpoint lin_insert (cv : Z * nat) (l : list (Z * nat)) : list (Z * nat) :=
  match l with
  | [] => [cv]
  | (c, v) :: r => if Nat.ltb (snd cv) v then cv :: l
                   else if Nat.eqb (snd cv) v then (fst cv + c, v)%Z :: r
                   else (c, v) :: lin_insert cv r
  end.
Definition lin_canon (l : lin) : lin :=
  mkLin (filter (fun cv => negb (Z.eqb (fst cv) 0)) (fold_right lin_insert [] (lcoef l))) (lconst l).
Definition program_canon (p : program) : program :=
  mkProgram (pkinds p) (map (fun c => mkConstr (lin_canon (cexpr c)) (crel c)) (pconstrs p)) (lin_canon (pobj p)).
