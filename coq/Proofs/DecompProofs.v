(* C06: the input-property predicates and top_decomposition of /repo/src/decomposition.rs, for every n, every
   well-formed table and every variable index < n, in both storage regimes (in-word v <= 5, cross-word v >= 6). *)
From Coq Require Import List NArith Arith Bool Lia Setoid.
From V Require Import Base.Res Gen.Tables Model.Kernels Model.Decomp Model.Api Base.Bits Base.Pieces Spec.Bfun
  Proofs.Wf Proofs.Positions Proofs.WordKernels Proofs.Transforms Proofs.ApiTransforms.
Import ListNotations.
Open Scope N_scope.

(* ------------------------------------------------------------------ specification vocabulary *)
(* the two cofactors of the function stored in t with respect to variable v, as functions of the assignment *)
Definition c0 (t : list N) (v m : N) : bool := val t (clearbit m v).
Definition c1 (t : list N) (v m : N) : bool := val t (setbit m v).

(* a word operation that acts bit by bit on 64-bit words *)
Definition bitwise64 (op : N -> N -> N) (opb : bool -> bool -> bool) : Prop :=
  forall x y p, x < 2 ^ 64 -> y < 2 ^ 64 -> p < 64 ->
    N.testbit (op x y) p = opb (N.testbit x p) (N.testbit y p).

(* the six conditions of the classification chain *)
Definition Indep (n : nat) (t : list N) (v : N) : Prop := forall m, m < 2 ^ N.of_nat n -> c0 t v m = c1 t v m.
Definition Zero0 (n : nat) (t : list N) (v : N) : Prop := forall m, m < 2 ^ N.of_nat n -> c0 t v m = false.
Definition One0 (n : nat) (t : list N) (v : N) : Prop := forall m, m < 2 ^ N.of_nat n -> c0 t v m = true.
Definition Zero1 (n : nat) (t : list N) (v : N) : Prop := forall m, m < 2 ^ N.of_nat n -> c1 t v m = false.
Definition One1 (n : nat) (t : list N) (v : N) : Prop := forall m, m < 2 ^ N.of_nat n -> c1 t v m = true.
Definition Xr (n : nat) (t : list N) (v : N) : Prop := forall m, m < 2 ^ N.of_nat n -> c0 t v m = negb (c1 t v m).

(* ------------------------------------------------------------------ small generic facts *)
Lemma fold_andb {A} (P : A -> bool) (l : list A) (b : bool) :
  fold_left (fun r x => r && P x) l b = b && forallb P l.
Proof.
  revert b. induction l as [|x l IH]; intro b; cbn [fold_left forallb].
  - symmetry. apply andb_true_r.
  - rewrite IH. symmetry. apply andb_assoc.
Qed.

Lemma fold_andb_if {A} (C Q : A -> bool) (l : list A) (b : bool) :
  fold_left (fun (r : bool) x => if C x then r && Q x else r) l b =
  b && forallb (fun x => if C x then Q x else true) l.
Proof.
  rewrite <- fold_andb. apply fold_left_ext. intros r x. destruct (C x); [reflexivity|].
  symmetry. apply andb_true_r.
Qed.

(* the word test of the helper: all meaningful bits of op c0 c1 are set *)
Lemma word_test n op opb x y : bitwise64 op opb -> x < 2 ^ 64 -> y < 2 ^ 64 ->
  (N.land (not64 (op x y)) (num_vars_mask n) =? 0) = true <->
  forall q, q < word_bits n -> opb (N.testbit x q) (N.testbit y q) = true.
Proof.
  intros B Hx Hy. rewrite N.eqb_eq. split.
  - intros E q Hq. assert (Hq64 : q < 64) by (pose proof (word_bits_le n); lia).
    assert (X : N.testbit (N.land (not64 (op x y)) (num_vars_mask n)) q = false) by (rewrite E; apply N.bits_0).
    rewrite N.land_spec, nvmask_testbit in X. rewrite not64_spec_low in X by exact Hq64.
    rewrite (B x y q Hx Hy Hq64) in X.
    apply N.ltb_lt in Hq. rewrite Hq, andb_true_r in X. apply negb_false_iff in X. exact X.
  - intros H. apply N.bits_inj_0. intro q. rewrite N.land_spec, nvmask_testbit.
    destruct (N.ltb_spec q (word_bits n)) as [Hq|Hq]; [|apply andb_false_r].
    assert (Hq64 : q < 64) by (pose proof (word_bits_le n); lia).
    rewrite not64_spec_low by exact Hq64. rewrite (B x y q Hx Hy Hq64), (H q Hq). reflexivity.
Qed.

(* (word k, position q) names the assignment 64k + q *)
Lemma pos_assignment n k q : (k < table_size n)%nat -> q < word_bits n ->
  let m := 64 * N.of_nat k + q in
  m < 2 ^ N.of_nat n /\ m / 64 = N.of_nat k /\ m mod 64 = q.
Proof.
  intros Hk Hq. cbv zeta.
  assert (Hq64 : q < 64) by (pose proof (word_bits_le n); lia).
  split; [|split].
  - destruct (Nat.le_gt_cases n 6) as [L|L].
    + unfold table_size in Hk. rewrite Nat.max_r in Hk by exact L.
      change (Nat.pow 2 (6 - 6)) with 1%nat in Hk. assert (k = 0%nat) by lia. subst k.
      unfold word_bits in Hq. rewrite Nat.min_l in Hq by exact L.
      change (N.of_nat 0) with 0. rewrite N.mul_0_r, N.add_0_l. exact Hq.
    + assert (Hk' : N.of_nat k < 2 ^ N.of_nat (n - 6)).
      { rewrite table_size_high in Hk by lia. rewrite <- of_nat_pow2. lia. }
      replace (N.of_nat n) with (6 + N.of_nat (n - 6)) by lia. rewrite N.pow_add_r.
      change (2 ^ 6) with 64. set (X := 2 ^ N.of_nat (n - 6)) in *. lia.
  - symmetry. apply N.div_unique with q; [exact Hq64|reflexivity].
  - symmetry. apply N.mod_unique with (N.of_nat k); [exact Hq64|reflexivity].
Qed.

Lemma setbit_clearbit x b : setbit (clearbit x b) b = setbit x b.
Proof.
  apply N.bits_inj. intro p. rewrite !setbit_testbit, clearbit_testbit.
  destruct (N.eqb_spec b p); [rewrite !orb_true_r; reflexivity|]. rewrite andb_true_r. reflexivity.
Qed.

(* ------------------------------------------------------------------ in-word regime: the two cofactor words *)
Definition lo0_pieces (i : nat) : list piece :=
  [mkPiece 0 (not64 (var_mask i)) (sh i) true; mkPiece 0 (not64 (var_mask i)) 0 false].
Definition lo1_pieces (i : nat) : list piece :=
  [mkPiece 0 (var_mask i) (sh i) false; mkPiece 0 (var_mask i) 0 false].

Lemma lo0_check : forallb (fun i => check_pieces (lo0_pieces i) (cof0_tgt i)) (seq 0 6) = true.
Proof. vm_compute. reflexivity. Qed.
Lemma lo1_check : forallb (fun i => check_pieces (lo1_pieces i) (cof1_tgt i)) (seq 0 6) = true.
Proof. vm_compute. reflexivity. Qed.

Lemma low_c0_spec i w : (i < 6)%nat -> w < 2 ^ 64 ->
  let m0 := not64 (var_mask i) in
  let c := N.lor (shl64 (N.land w m0) (sh i)) (N.land w m0) in
  c < 2 ^ 64 /\ forall q, q < 64 -> N.testbit c q = N.testbit w (clearbit q (N.of_nat i)).
Proof.
  intros Hi Hw. cbv zeta.
  pose proof lo0_check as C. rewrite forallb_forall in C. specialize (C i (in_seq6 i Hi)).
  pose proof (pieces_lor [w] _ _ (env1_ok w Hw) C) as R. cbv zeta in R.
  unfold lo0_pieces, eval_piece in R. cbn [fold_left p_left p_mask p_shift p_in] in R.
  rewrite N.lor_0_l, N.shiftr_0_r in R. change (nthN [w] 0) with w in R.
  destruct R as [R1 R2]. split; [exact R1|]. intros q Hq. rewrite (R2 q Hq). reflexivity.
Qed.

Lemma low_c1_spec i w : (i < 6)%nat -> w < 2 ^ 64 ->
  let m1 := var_mask i in
  let c := N.lor (N.shiftr (N.land w m1) (sh i)) (N.land w m1) in
  c < 2 ^ 64 /\ forall q, q < 64 -> N.testbit c q = N.testbit w (setbit q (N.of_nat i)).
Proof.
  intros Hi Hw. cbv zeta.
  pose proof lo1_check as C. rewrite forallb_forall in C. specialize (C i (in_seq6 i Hi)).
  pose proof (pieces_lor [w] _ _ (env1_ok w Hw) C) as R. cbv zeta in R.
  unfold lo1_pieces, eval_piece in R. cbn [fold_left p_left p_mask p_shift p_in] in R.
  rewrite N.lor_0_l, N.shiftr_0_r in R. change (nthN [w] 0) with w in R.
  destruct R as [R1 R2]. split; [exact R1|]. intros q Hq. rewrite (R2 q Hq). reflexivity.
Qed.

Section Helper.
  Variable op : N -> N -> N.
  Variable opb : bool -> bool -> bool.
  Hypothesis Hop : bitwise64 op opb.

  (* ---------------------------------------------------------------- in-word regime *)
  Definition low_test (n : nat) (ind : N) (w : N) : bool :=
    let mask := num_vars_mask n in
    let i := N.to_nat ind in
    let shift := N.shiftl 1 ind in
    let m1 := var_mask i in
    let m0 := not64 m1 in
    let c1 := N.lor (N.shiftr (N.land w m1) shift) (N.land w m1) in
    let c0 := N.lor (shl64 (N.land w m0) shift) (N.land w m0) in
    N.land (not64 (op c0 c1)) mask =? 0.

  Lemma low_test_spec n v w : v < 6 -> w < 2 ^ 64 ->
    low_test n v w = true <->
    forall q, q < word_bits n -> opb (N.testbit w (clearbit q v)) (N.testbit w (setbit q v)) = true.
  Proof.
    intros Hv Hw. unfold low_test. cbv zeta.
    set (i := N.to_nat v). assert (Hi : (i < 6)%nat) by (unfold i; lia).
    assert (Ei : N.of_nat i = v) by (unfold i; lia).
    replace (N.shiftl 1 v) with (sh i) by (unfold sh; rewrite Ei; reflexivity).
    destruct (low_c0_spec i w Hi Hw) as [A1 A2]. destruct (low_c1_spec i w Hi Hw) as [B1 B2].
    rewrite (word_test n op opb _ _ Hop A1 B1). rewrite Ei in A2, B2.
    split; intros H q Hq; specialize (H q Hq);
      assert (Hq64 : q < 64) by (pose proof (word_bits_le n); lia).
    - rewrite (A2 q Hq64), (B2 q Hq64) in H. exact H.
    - rewrite (A2 q Hq64), (B2 q Hq64). exact H.
  Qed.

  Lemma low_all n t v : wf n t -> v < 6 ->
    (forall w, In w t -> forall q, q < word_bits n ->
       opb (N.testbit w (clearbit q v)) (N.testbit w (setbit q v)) = true) <->
    (forall m, m < 2 ^ N.of_nat n -> opb (c0 t v m) (c1 t v m) = true).
  Proof.
    intros Hwf Hv. split.
    - intros H m Hm. destruct (assignment_in_range n m Hm) as [Hk Hq].
      unfold c0, c1. rewrite !val_word.
      destruct (clearbit_low m v Hv) as [E1 E2]. destruct (setbit_low m v Hv) as [F1 F2].
      rewrite E1, E2, F1, F2. apply H; [|exact Hq].
      apply nthN_In. rewrite (wf_length n t Hwf). exact Hk.
    - intros H w Hw q Hq. apply (In_nth t w 0) in Hw. destruct Hw as [k [Hk <-]].
      rewrite (wf_length n t Hwf) in Hk.
      destruct (pos_assignment n k q Hk Hq) as [M1 [M2 M3]].
      specialize (H _ M1). unfold c0, c1 in H. rewrite !val_word in H.
      destruct (clearbit_low (64 * N.of_nat k + q) v Hv) as [E1 E2].
      destruct (setbit_low (64 * N.of_nat k + q) v Hv) as [F1 F2].
      rewrite E1, E2, F1, F2, M2, M3, Nat2N.id in H. exact H.
  Qed.

  (* ---------------------------------------------------------------- cross-word regime *)
  Definition high_test (n : nat) (t : list N) (stride k : nat) : bool :=
    N.land (not64 (op (nthN t k) (nthN t (k + stride)))) (num_vars_mask n) =? 0.

  Lemma high_all n t v : wf n t -> v < N.of_nat n -> 6 <= v ->
    let b := (N.to_nat v - 6)%nat in
    (forall k, (k < length t)%nat -> N.testbit (N.of_nat k) (N.of_nat b) = false ->
       forall q, q < 64 -> opb (N.testbit (nthN t k) q) (N.testbit (nthN t (k + Nat.pow 2 b)) q) = true) <->
    (forall m, m < 2 ^ N.of_nat n -> opb (c0 t v m) (c1 t v m) = true).
  Proof.
    intros Hwf Hv Hv6. cbv zeta. set (b := (N.to_nat v - 6)%nat).
    assert (Eb : N.of_nat b = v - 6) by (unfold b; lia).
    assert (Hn : (6 <= n)%nat) by lia.
    assert (Hlen : length t = Nat.pow 2 (n - 6)) by (rewrite (wf_length n t Hwf); apply table_size_high; exact Hn).
    assert (HlenN : N.of_nat (length t) = 2 ^ N.of_nat (n - 6)) by (rewrite Hlen; apply of_nat_pow2).
    split.
    - intros H m Hm. destruct (assignment_in_range n m Hm) as [Hk _].
      unfold c0, c1. rewrite !val_word.
      destruct (clearbit_high m v Hv6) as [E1 E2]. destruct (setbit_high m v Hv6) as [F1 F2].
      rewrite E1, E2, F1, F2. rewrite <- Eb.
      set (x := m / 64) in *. set (k0 := N.to_nat (clearbit x (N.of_nat b))).
      assert (Hx : x < 2 ^ N.of_nat (n - 6)).
      { rewrite <- HlenN, (wf_length n t Hwf). lia. }
      assert (Ek0 : N.of_nat k0 = clearbit x (N.of_nat b)) by (unfold k0; apply N2Nat.id).
      assert (Hk0 : (k0 < length t)%nat).
      { assert (X : N.of_nat k0 < N.of_nat (length t)); [|lia].
        rewrite Ek0, HlenN. apply clearbit_lt; [lia|exact Hx]. }
      assert (Hbit : N.testbit (N.of_nat k0) (N.of_nat b) = false).
      { rewrite Ek0, clearbit_testbit, N.eqb_refl. apply andb_false_r. }
      destruct (idx_flip_clear k0 b Hbit) as [_ [S1 _]].
      rewrite Ek0, setbit_clearbit in S1. rewrite S1.
      apply (H k0 Hk0 Hbit). apply mod64_lt.
    - intros H k Hk Hbit q Hq.
      assert (Hk' : (k < table_size n)%nat) by (rewrite <- (wf_length n t Hwf); exact Hk).
      assert (Hq' : q < word_bits n) by (rewrite word_bits_high by exact Hn; exact Hq).
      destruct (pos_assignment n k q Hk' Hq') as [M1 [M2 M3]].
      specialize (H _ M1). unfold c0, c1 in H. rewrite !val_word in H.
      destruct (clearbit_high (64 * N.of_nat k + q) v Hv6) as [E1 E2].
      destruct (setbit_high (64 * N.of_nat k + q) v Hv6) as [F1 F2].
      rewrite E1, E2, F1, F2, M2, M3, <- Eb in H.
      destruct (idx_flip_clear k b Hbit) as [_ [S1 S2]]. rewrite S1, S2 in H. exact H.
  Qed.

  (* ---------------------------------------------------------------- the helper *)
  Theorem helper_sem n t v : wf n t -> v < N.of_nat n ->
    exists b, input_property_helper n t v op = Ok b /\
              (b = true <-> forall m, m < 2 ^ N.of_nat n -> opb (c0 t v m) (c1 t v m) = true).
  Proof.
    intros Hwf Hv. unfold input_property_helper.
    assert (EL : Nat.eqb (length t) (table_size n) = true) by (apply Nat.eqb_eq, (wf_length n t Hwf)).
    assert (EV : (v <? N.of_nat n) = true) by (apply N.ltb_lt; exact Hv).
    rewrite EL, EV. cbn [always bind]. cbv zeta.
    destruct (Nat.leb_spec (N.to_nat v) 5) as [Hlow|Hhigh].
    - eexists. split; [reflexivity|].
      assert (Hv6 : v < 6) by lia.
      change (fold_left _ t true) with (fold_left (fun (r : bool) w => r && low_test n v w) t true).
      rewrite fold_andb. cbn [andb]. rewrite forallb_forall.
      rewrite <- (low_all n t v Hwf Hv6).
      split; intros H w Hw.
      + apply (low_test_spec n v w Hv6); [|apply H; exact Hw].
        pose proof (wf_Forall64 n t Hwf) as F. rewrite Forall_forall in F. apply F. exact Hw.
      + apply (low_test_spec n v w Hv6); [|apply H; exact Hw].
        pose proof (wf_Forall64 n t Hwf) as F. rewrite Forall_forall in F. apply F. exact Hw.
    - eexists. split; [reflexivity|].
      assert (Hv6 : 6 <= v) by lia.
      set (b := (N.to_nat v - 6)%nat).
      change (fold_left _ (seq 0 (length t)) true) with
        (fold_left (fun (r : bool) k => if N.land (N.of_nat k) (N.of_nat (Nat.pow 2 b)) =? 0
                                        then r && high_test n t (Nat.pow 2 b) k else r) (seq 0 (length t)) true).
      rewrite fold_andb_if. cbn [andb]. rewrite forallb_forall.
      pose proof (high_all n t v Hwf Hv Hv6) as HA. cbv zeta in HA. fold b in HA. rewrite <- HA.
      assert (Hn : (6 <= n)%nat) by lia.
      assert (HT : forall k, high_test n t (Nat.pow 2 b) k = true <->
                   forall q, q < 64 -> opb (N.testbit (nthN t k) q) (N.testbit (nthN t (k + Nat.pow 2 b)) q) = true).
      { intro k. unfold high_test.
        rewrite (word_test n op opb _ _ Hop (wf_word_lt64 n t k Hwf) (wf_word_lt64 n t _ Hwf)).
        rewrite word_bits_high by exact Hn. reflexivity. }
      split.
      + intros H k Hk Hbit. apply HT. specialize (H k ltac:(apply in_seq; lia)).
        rewrite of_nat_pow2, land_pow2_eqb, Hbit in H. exact H.
      + intros H k Hk. apply in_seq in Hk. rewrite of_nat_pow2, land_pow2_eqb.
        destruct (N.testbit (N.of_nat k) (N.of_nat b)) eqn:Hbit; cbn [negb]; [reflexivity|].
        apply HT. apply H; [lia|exact Hbit].
  Qed.

  Lemma helper_ind_guard n t v : N.of_nat n <= v -> input_property_helper n t v op = PanicAlways.
  Proof.
    intros Hv. unfold input_property_helper. destruct (Nat.eqb (length t) (table_size n)); [|reflexivity].
    cbn [always bind]. apply N.ltb_ge in Hv. rewrite Hv. reflexivity.
  Qed.

  Lemma helper_len_guard n t v : length t <> table_size n -> input_property_helper n t v op = PanicAlways.
  Proof.
    intros Hl. unfold input_property_helper. apply Nat.eqb_neq in Hl. rewrite Hl. reflexivity.
  Qed.
End Helper.

(* ------------------------------------------------------------------ the eight closures are bitwise *)
Lemma op_independent_bitwise : bitwise64 op_independent Bool.eqb.
Proof.
  intros x y p _ _ Hp. unfold op_independent. rewrite not64_spec_low by exact Hp. rewrite N.lxor_spec.
  destruct (N.testbit x p), (N.testbit y p); reflexivity.
Qed.
Lemma op_and_bitwise : bitwise64 op_and (fun a _ => negb a).
Proof. intros x y p _ _ Hp. unfold op_and. apply not64_spec_low. exact Hp. Qed.
Lemma op_or_bitwise : bitwise64 op_or (fun _ b => b).
Proof. intros x y p _ _ _. reflexivity. Qed.
Lemma op_nand_bitwise : bitwise64 op_nand (fun a _ => a).
Proof. intros x y p _ _ _. reflexivity. Qed.
Lemma op_nor_bitwise : bitwise64 op_nor (fun _ b => negb b).
Proof. intros x y p _ _ Hp. unfold op_nor. apply not64_spec_low. exact Hp. Qed.
Lemma op_xor_bitwise : bitwise64 op_xor xorb.
Proof. intros x y p _ _ _. unfold op_xor. apply N.lxor_spec. Qed.
Lemma op_pos_unate_bitwise : bitwise64 op_pos_unate (fun a b => negb a || b).
Proof.
  intros x y p _ _ Hp. unfold op_pos_unate. rewrite N.lor_spec, not64_spec_low by exact Hp. reflexivity.
Qed.
Lemma op_neg_unate_bitwise : bitwise64 op_neg_unate (fun a b => negb b || a).
Proof.
  intros x y p _ _ Hp. unfold op_neg_unate. rewrite N.lor_spec, not64_spec_low by exact Hp. reflexivity.
Qed.

(* ------------------------------------------------------------------ the eight predicates *)
Definition PosUnate (n : nat) (t : list N) (v : N) : Prop :=
  forall m, m < 2 ^ N.of_nat n -> c0 t v m = true -> c1 t v m = true.
Definition NegUnate (n : nat) (t : list N) (v : N) : Prop :=
  forall m, m < 2 ^ N.of_nat n -> c1 t v m = true -> c0 t v m = true.

Lemma helper_pred op opb (P : bool -> bool -> Prop) n t v :
  bitwise64 op opb -> (forall a b, opb a b = true <-> P a b) -> wf n t -> v < N.of_nat n ->
  exists b, input_property_helper n t v op = Ok b /\
            (b = true <-> forall m, m < 2 ^ N.of_nat n -> P (c0 t v m) (c1 t v m)).
Proof.
  intros B HP Hwf Hv. destruct (helper_sem op opb B n t v Hwf Hv) as [b [E H]].
  exists b. split; [exact E|]. rewrite H. split; intros G m Hm; apply HP, G, Hm.
Qed.

Theorem input_independent_sem n t v : wf n t -> v < N.of_nat n ->
  exists b, input_independent n t v = Ok b /\ (b = true <-> Indep n t v).
Proof.
  apply (helper_pred op_independent Bool.eqb (fun a b => a = b) n t v op_independent_bitwise).
  intros a b. apply Bool.eqb_true_iff.
Qed.

Theorem input_and_sem n t v : wf n t -> v < N.of_nat n ->
  exists b, input_and n t v = Ok b /\ (b = true <-> Zero0 n t v).
Proof.
  apply (helper_pred op_and _ (fun a _ => a = false) n t v op_and_bitwise).
  intros a b. apply negb_true_iff.
Qed.

Theorem input_or_sem n t v : wf n t -> v < N.of_nat n ->
  exists b, input_or n t v = Ok b /\ (b = true <-> One1 n t v).
Proof.
  apply (helper_pred op_or _ (fun _ b => b = true) n t v op_or_bitwise).
  intros a b. reflexivity.
Qed.

Theorem input_nand_sem n t v : wf n t -> v < N.of_nat n ->
  exists b, input_nand n t v = Ok b /\ (b = true <-> One0 n t v).
Proof.
  apply (helper_pred op_nand _ (fun a _ => a = true) n t v op_nand_bitwise).
  intros a b. reflexivity.
Qed.

Theorem input_nor_sem n t v : wf n t -> v < N.of_nat n ->
  exists b, input_nor n t v = Ok b /\ (b = true <-> Zero1 n t v).
Proof.
  apply (helper_pred op_nor _ (fun _ b => b = false) n t v op_nor_bitwise).
  intros a b. apply negb_true_iff.
Qed.

Theorem input_xor_sem n t v : wf n t -> v < N.of_nat n ->
  exists b, input_xor n t v = Ok b /\ (b = true <-> Xr n t v).
Proof.
  apply (helper_pred op_xor _ (fun a b => a = negb b) n t v op_xor_bitwise).
  intros a b. destruct a, b; cbn [xorb negb]; intuition congruence.
Qed.

Theorem input_pos_unate_sem n t v : wf n t -> v < N.of_nat n ->
  exists b, input_pos_unate n t v = Ok b /\ (b = true <-> PosUnate n t v).
Proof.
  apply (helper_pred op_pos_unate _ (fun a b => a = true -> b = true) n t v op_pos_unate_bitwise).
  intros a b. destruct a, b; cbn [negb orb]; intuition congruence.
Qed.

Theorem input_neg_unate_sem n t v : wf n t -> v < N.of_nat n ->
  exists b, input_neg_unate n t v = Ok b /\ (b = true <-> NegUnate n t v).
Proof.
  apply (helper_pred op_neg_unate _ (fun a b => b = true -> a = true) n t v op_neg_unate_bitwise).
  intros a b. destruct a, b; cbn [negb orb]; intuition congruence.
Qed.

(* ------------------------------------------------------------------ top_decomposition *)
Definition classify (bi ba bo bna bno bx : bool) : DecompositionType :=
  if bi then DIndependent
  else if ba && bo then DIdentity
  else if bna && bno then DNegation
  else if ba then DAnd
  else if bo then DOr
  else if bna then DLe
  else if bno then DLt
  else if bx then DXor
  else DNone.

Lemma classify_chain bi ba bo bna bno bx :
  let d := classify bi ba bo bna bno bx in
  let I := bi = true in let Z0 := ba = true in let O1 := bo = true in
  let O0 := bna = true in let Z1 := bno = true in let X := bx = true in
  (d = DIndependent <-> I) /\
  (d = DIdentity <-> ~ I /\ (Z0 /\ O1)) /\
  (d = DNegation <-> ~ I /\ ~ (Z0 /\ O1) /\ (O0 /\ Z1)) /\
  (d = DAnd <-> ~ I /\ ~ (Z0 /\ O1) /\ ~ (O0 /\ Z1) /\ Z0) /\
  (d = DOr <-> ~ I /\ ~ (Z0 /\ O1) /\ ~ (O0 /\ Z1) /\ ~ Z0 /\ O1) /\
  (d = DLe <-> ~ I /\ ~ (Z0 /\ O1) /\ ~ (O0 /\ Z1) /\ ~ Z0 /\ ~ O1 /\ O0) /\
  (d = DLt <-> ~ I /\ ~ (Z0 /\ O1) /\ ~ (O0 /\ Z1) /\ ~ Z0 /\ ~ O1 /\ ~ O0 /\ Z1) /\
  (d = DXor <-> ~ I /\ ~ (Z0 /\ O1) /\ ~ (O0 /\ Z1) /\ ~ Z0 /\ ~ O1 /\ ~ O0 /\ ~ Z1 /\ X) /\
  (d = DNone <-> ~ I /\ ~ (Z0 /\ O1) /\ ~ (O0 /\ Z1) /\ ~ Z0 /\ ~ O1 /\ ~ O0 /\ ~ Z1 /\ ~ X).
Proof.
  cbv zeta. destruct bi, ba, bo, bna, bno, bx; cbn [classify andb]; intuition congruence.
Qed.

Lemma top_classify n t v : wf n t -> v < N.of_nat n ->
  exists bi ba bo bna bno bx,
    top_decomposition n t v = Ok (classify bi ba bo bna bno bx) /\
    (bi = true <-> Indep n t v) /\ (ba = true <-> Zero0 n t v) /\ (bo = true <-> One1 n t v) /\
    (bna = true <-> One0 n t v) /\ (bno = true <-> Zero1 n t v) /\ (bx = true <-> Xr n t v).
Proof.
  intros Hwf Hv.
  destruct (input_independent_sem n t v Hwf Hv) as [bi [Ei Hi]].
  destruct (input_and_sem n t v Hwf Hv) as [ba [Ea Ha]].
  destruct (input_or_sem n t v Hwf Hv) as [bo [Eo Ho]].
  destruct (input_nand_sem n t v Hwf Hv) as [bna [Ena Hna]].
  destruct (input_nor_sem n t v Hwf Hv) as [bno [Eno Hno]].
  destruct (input_xor_sem n t v Hwf Hv) as [bx [Ex Hx]].
  exists bi, ba, bo, bna, bno, bx. split; [|tauto].
  unfold top_decomposition. rewrite Ei, Ea, Eo, Ena, Eno, Ex. reflexivity.
Qed.

(* the classification is the priority chain of the property text *)
Theorem top_sem n t v : wf n t -> v < N.of_nat n ->
  exists d, top_decomposition n t v = Ok d /\
    (d = DIndependent <-> Indep n t v) /\
    (d = DIdentity <-> ~ Indep n t v /\ (Zero0 n t v /\ One1 n t v)) /\
    (d = DNegation <-> ~ Indep n t v /\ ~ (Zero0 n t v /\ One1 n t v) /\ (One0 n t v /\ Zero1 n t v)) /\
    (d = DAnd <-> ~ Indep n t v /\ ~ (Zero0 n t v /\ One1 n t v) /\ ~ (One0 n t v /\ Zero1 n t v) /\ Zero0 n t v) /\
    (d = DOr <-> ~ Indep n t v /\ ~ (Zero0 n t v /\ One1 n t v) /\ ~ (One0 n t v /\ Zero1 n t v) /\
                 ~ Zero0 n t v /\ One1 n t v) /\
    (d = DLe <-> ~ Indep n t v /\ ~ (Zero0 n t v /\ One1 n t v) /\ ~ (One0 n t v /\ Zero1 n t v) /\
                 ~ Zero0 n t v /\ ~ One1 n t v /\ One0 n t v) /\
    (d = DLt <-> ~ Indep n t v /\ ~ (Zero0 n t v /\ One1 n t v) /\ ~ (One0 n t v /\ Zero1 n t v) /\
                 ~ Zero0 n t v /\ ~ One1 n t v /\ ~ One0 n t v /\ Zero1 n t v) /\
    (d = DXor <-> ~ Indep n t v /\ ~ (Zero0 n t v /\ One1 n t v) /\ ~ (One0 n t v /\ Zero1 n t v) /\
                  ~ Zero0 n t v /\ ~ One1 n t v /\ ~ One0 n t v /\ ~ Zero1 n t v /\ Xr n t v) /\
    (d = DNone <-> ~ Indep n t v /\ ~ (Zero0 n t v /\ One1 n t v) /\ ~ (One0 n t v /\ Zero1 n t v) /\
                   ~ Zero0 n t v /\ ~ One1 n t v /\ ~ One0 n t v /\ ~ Zero1 n t v /\ ~ Xr n t v).
Proof.
  intros Hwf Hv.
  destruct (top_classify n t v Hwf Hv) as [bi [ba [bo [bna [bno [bx [E [Hi [Ha [Ho [Hna [Hno Hx]]]]]]]]]]]].
  exists (classify bi ba bo bna bno bx). split; [exact E|].
  rewrite <- Hi, <- Ha, <- Ho, <- Hna, <- Hno, <- Hx.
  exact (classify_chain bi ba bo bna bno bx).
Qed.

(* ------------------------------------------------------------------ what the classes say about the function *)
Lemma setbit_id m v : N.testbit m v = true -> setbit m v = m.
Proof.
  intros H. apply N.bits_inj. intro p. rewrite setbit_testbit.
  destruct (N.eqb_spec v p) as [<-|]; [rewrite H; reflexivity|apply orb_false_r].
Qed.
Lemma clearbit_id m v : N.testbit m v = false -> clearbit m v = m.
Proof.
  intros H. apply N.bits_inj. intro p. rewrite clearbit_testbit.
  destruct (N.eqb_spec v p) as [<-|]; [rewrite H; reflexivity|apply andb_true_r].
Qed.

(* Shannon expansion at the level of val *)
Lemma val_shannon t v m : val t m = if N.testbit m v then c1 t v m else c0 t v m.
Proof.
  unfold c0, c1. destruct (N.testbit m v) eqn:B.
  - rewrite (setbit_id m v B). reflexivity.
  - rewrite (clearbit_id m v B). reflexivity.
Qed.

Lemma val_flip_shannon t v m : val t (flipbit m v) = if N.testbit m v then c0 t v m else c1 t v m.
Proof.
  unfold c0, c1. destruct (N.testbit m v) eqn:B.
  - destruct (sub_pow2_set m v B) as [E1 [E2 _]]. rewrite <- E1, E2. reflexivity.
  - destruct (add_pow2_clear m v B) as [E1 E2]. rewrite <- E1, E2. reflexivity.
Qed.

Theorem top_independent_fun n t v : wf n t -> v < N.of_nat n -> top_decomposition n t v = Ok DIndependent ->
  forall m, m < 2 ^ N.of_nat n -> val t (flipbit m v) = val t m.
Proof.
  intros Hwf Hv E m Hm. destruct (top_sem n t v Hwf Hv) as [d [E' [H _]]].
  rewrite E in E'. injection E' as <-. assert (I : Indep n t v) by (apply H; reflexivity).
  rewrite val_flip_shannon, (val_shannon t v m), (I m Hm). destruct (N.testbit m v); reflexivity.
Qed.

Theorem top_identity_fun n t v : wf n t -> v < N.of_nat n -> top_decomposition n t v = Ok DIdentity ->
  forall m, m < 2 ^ N.of_nat n -> val t m = N.testbit m v.
Proof.
  intros Hwf Hv E m Hm. destruct (top_sem n t v Hwf Hv) as [d [E' [_ [H _]]]].
  rewrite E in E'. injection E' as <-. destruct (proj1 H eq_refl) as [_ [Z O]].
  rewrite (val_shannon t v m), (Z m Hm), (O m Hm). destruct (N.testbit m v); reflexivity.
Qed.

Theorem top_negation_fun n t v : wf n t -> v < N.of_nat n -> top_decomposition n t v = Ok DNegation ->
  forall m, m < 2 ^ N.of_nat n -> val t m = negb (N.testbit m v).
Proof.
  intros Hwf Hv E m Hm. destruct (top_sem n t v Hwf Hv) as [d [E' [_ [_ [H _]]]]].
  rewrite E in E'. injection E' as <-. destruct (proj1 H eq_refl) as [_ [_ [O Z]]].
  rewrite (val_shannon t v m), (Z m Hm), (O m Hm). destruct (N.testbit m v); reflexivity.
Qed.

(* the five gate classes: f = x_v AND c1, x_v OR c0, x_v <= c1, x_v < c0, x_v XOR c0 *)
Theorem top_gate_fun n t v d : wf n t -> v < N.of_nat n -> top_decomposition n t v = Ok d ->
  forall m, m < 2 ^ N.of_nat n ->
    match d with
    | DAnd => val t m = N.testbit m v && c1 t v m
    | DOr => val t m = N.testbit m v || c0 t v m
    | DLe => val t m = negb (N.testbit m v) || c1 t v m
    | DLt => val t m = negb (N.testbit m v) && c0 t v m
    | DXor => val t m = xorb (N.testbit m v) (c0 t v m)
    | _ => True
    end.
Proof.
  intros Hwf Hv E m Hm.
  destruct (top_sem n t v Hwf Hv) as [d' [E' [_ [_ [_ [HA [HO [HLe [HLt [HX _]]]]]]]]]].
  rewrite E in E'. injection E' as <-. rewrite (val_shannon t v m).
  destruct d; try exact I.
  - destruct (proj1 HA eq_refl) as [_ [_ [_ Z]]]. rewrite (Z m Hm). destruct (N.testbit m v); reflexivity.
  - destruct (proj1 HO eq_refl) as [_ [_ [_ [_ O]]]]. rewrite (O m Hm). destruct (N.testbit m v); reflexivity.
  - destruct (proj1 HLe eq_refl) as [_ [_ [_ [_ [_ O]]]]]. rewrite (O m Hm). destruct (N.testbit m v); reflexivity.
  - destruct (proj1 HLt eq_refl) as [_ [_ [_ [_ [_ [_ Z]]]]]]. rewrite (Z m Hm). destruct (N.testbit m v); reflexivity.
  - destruct (proj1 HX eq_refl) as [_ [_ [_ [_ [_ [_ [_ X]]]]]]]. rewrite (X m Hm).
    destruct (N.testbit m v), (c1 t v m); reflexivity.
Qed.

(* ------------------------------------------------------------------ API layer *)
Lemma D_top_decomposition_sem l v : lwf l -> v < N.of_nat (nv l) ->
  exists d, D_top_decomposition l v = Ok d /\
    (d = DIndependent <-> Indep (nv l) (tbl l) v) /\
    (d = DIdentity <-> ~ Indep (nv l) (tbl l) v /\ (Zero0 (nv l) (tbl l) v /\ One1 (nv l) (tbl l) v)) /\
    (d = DNegation <-> ~ Indep (nv l) (tbl l) v /\ ~ (Zero0 (nv l) (tbl l) v /\ One1 (nv l) (tbl l) v) /\
                       (One0 (nv l) (tbl l) v /\ Zero1 (nv l) (tbl l) v)) /\
    (d = DAnd <-> ~ Indep (nv l) (tbl l) v /\ ~ (Zero0 (nv l) (tbl l) v /\ One1 (nv l) (tbl l) v) /\
                  ~ (One0 (nv l) (tbl l) v /\ Zero1 (nv l) (tbl l) v) /\ Zero0 (nv l) (tbl l) v) /\
    (d = DOr <-> ~ Indep (nv l) (tbl l) v /\ ~ (Zero0 (nv l) (tbl l) v /\ One1 (nv l) (tbl l) v) /\
                 ~ (One0 (nv l) (tbl l) v /\ Zero1 (nv l) (tbl l) v) /\
                 ~ Zero0 (nv l) (tbl l) v /\ One1 (nv l) (tbl l) v) /\
    (d = DLe <-> ~ Indep (nv l) (tbl l) v /\ ~ (Zero0 (nv l) (tbl l) v /\ One1 (nv l) (tbl l) v) /\
                 ~ (One0 (nv l) (tbl l) v /\ Zero1 (nv l) (tbl l) v) /\
                 ~ Zero0 (nv l) (tbl l) v /\ ~ One1 (nv l) (tbl l) v /\ One0 (nv l) (tbl l) v) /\
    (d = DLt <-> ~ Indep (nv l) (tbl l) v /\ ~ (Zero0 (nv l) (tbl l) v /\ One1 (nv l) (tbl l) v) /\
                 ~ (One0 (nv l) (tbl l) v /\ Zero1 (nv l) (tbl l) v) /\
                 ~ Zero0 (nv l) (tbl l) v /\ ~ One1 (nv l) (tbl l) v /\ ~ One0 (nv l) (tbl l) v /\
                 Zero1 (nv l) (tbl l) v) /\
    (d = DXor <-> ~ Indep (nv l) (tbl l) v /\ ~ (Zero0 (nv l) (tbl l) v /\ One1 (nv l) (tbl l) v) /\
                  ~ (One0 (nv l) (tbl l) v /\ Zero1 (nv l) (tbl l) v) /\
                  ~ Zero0 (nv l) (tbl l) v /\ ~ One1 (nv l) (tbl l) v /\ ~ One0 (nv l) (tbl l) v /\
                  ~ Zero1 (nv l) (tbl l) v /\ Xr (nv l) (tbl l) v) /\
    (d = DNone <-> ~ Indep (nv l) (tbl l) v /\ ~ (Zero0 (nv l) (tbl l) v /\ One1 (nv l) (tbl l) v) /\
                   ~ (One0 (nv l) (tbl l) v /\ Zero1 (nv l) (tbl l) v) /\
                   ~ Zero0 (nv l) (tbl l) v /\ ~ One1 (nv l) (tbl l) v /\ ~ One0 (nv l) (tbl l) v /\
                   ~ Zero1 (nv l) (tbl l) v /\ ~ Xr (nv l) (tbl l) v).
Proof. intros Hwf Hv. exact (top_sem (nv l) (tbl l) v Hwf Hv). Qed.

Lemma D_is_pos_unate_sem l v : lwf l -> v < N.of_nat (nv l) ->
  exists b, D_is_pos_unate l v = Ok b /\ (b = true <-> PosUnate (nv l) (tbl l) v).
Proof. intros Hwf Hv. exact (input_pos_unate_sem (nv l) (tbl l) v Hwf Hv). Qed.

Lemma D_is_neg_unate_sem l v : lwf l -> v < N.of_nat (nv l) ->
  exists b, D_is_neg_unate l v = Ok b /\ (b = true <-> NegUnate (nv l) (tbl l) v).
Proof. intros Hwf Hv. exact (input_neg_unate_sem (nv l) (tbl l) v Hwf Hv). Qed.

(* assert!(ind < num_vars): always on, whatever the table *)
Lemma D_decomp_ind_guard l v : N.of_nat (nv l) <= v ->
  D_top_decomposition l v = PanicAlways /\ D_is_pos_unate l v = PanicAlways /\ D_is_neg_unate l v = PanicAlways.
Proof.
  intros Hv. unfold D_top_decomposition, D_is_pos_unate, D_is_neg_unate, top_decomposition,
    input_independent, input_pos_unate, input_neg_unate.
  rewrite !(helper_ind_guard _ (nv l) (tbl l) v Hv). auto.
Qed.

(* assert!(table.len() == table_size(num_vars)): always on, whatever the index *)
Lemma D_decomp_len_guard l v : length (tbl l) <> table_size (nv l) ->
  D_top_decomposition l v = PanicAlways /\ D_is_pos_unate l v = PanicAlways /\ D_is_neg_unate l v = PanicAlways.
Proof.
  intros Hl. unfold D_top_decomposition, D_is_pos_unate, D_is_neg_unate, top_decomposition,
    input_independent, input_pos_unate, input_neg_unate.
  rewrite !(helper_len_guard _ (nv l) (tbl l) v Hl). auto.
Qed.

(* the same two guards for each of the eight kernel predicates and for top_decomposition *)
Lemma kernel_guards n t v : N.of_nat n <= v \/ length t <> table_size n ->
  input_independent n t v = PanicAlways /\ input_and n t v = PanicAlways /\ input_or n t v = PanicAlways /\
  input_nand n t v = PanicAlways /\ input_nor n t v = PanicAlways /\ input_xor n t v = PanicAlways /\
  input_pos_unate n t v = PanicAlways /\ input_neg_unate n t v = PanicAlways /\
  top_decomposition n t v = PanicAlways.
Proof.
  intros H.
  assert (G : forall op, input_property_helper n t v op = PanicAlways).
  { intro op. destruct H as [H|H]; [apply helper_ind_guard|apply helper_len_guard]; exact H. }
  unfold top_decomposition, input_independent, input_and, input_or, input_nand, input_nor, input_xor,
    input_pos_unate, input_neg_unate. rewrite !G. cbn [bind]. repeat split; reflexivity.
Qed.

(* ------------------------------------------------------------------ classifiers *)
Lemma is_trivial_iff d : is_trivial d = true <-> d = DIndependent \/ d = DIdentity \/ d = DNegation.
Proof. destruct d; cbn [is_trivial]; intuition congruence. Qed.
Lemma is_and_type_iff d : is_and_type d = true <-> d = DAnd \/ d = DOr \/ d = DLe \/ d = DLt.
Proof. destruct d; cbn [is_and_type]; intuition congruence. Qed.
Lemma is_xor_type_iff d : is_xor_type d = true <-> d = DXor.
Proof. destruct d; cbn [is_xor_type]; intuition congruence. Qed.
Lemma is_simple_gate_split d : is_simple_gate d = is_and_type d || is_xor_type d.
Proof. destruct d; reflexivity. Qed.

(* trivial / and-type / xor-type partition the classes other than None *)
Lemma classes_partition d :
  (d = DNone /\ is_trivial d = false /\ is_and_type d = false /\ is_xor_type d = false) \/
  (d <> DNone /\ is_trivial d = true /\ is_and_type d = false /\ is_xor_type d = false) \/
  (d <> DNone /\ is_trivial d = false /\ is_and_type d = true /\ is_xor_type d = false) \/
  (d <> DNone /\ is_trivial d = false /\ is_and_type d = false /\ is_xor_type d = true).
Proof.
  destruct d; cbn [is_trivial is_and_type is_xor_type];
    first [left; repeat split; congruence
          |right; left; repeat split; congruence
          |right; right; left; repeat split; congruence
          |right; right; right; repeat split; congruence].
Qed.

(* the classifiers of the result, in terms of the cofactors *)
Lemma classify_classes bi ba bo bna bno bx :
  let d := classify bi ba bo bna bno bx in
  let T := bi = true \/ (ba = true /\ bo = true) \/ (bna = true /\ bno = true) in
  (is_trivial d = true <-> T) /\
  (is_and_type d = true <-> ~ T /\ (ba = true \/ bo = true \/ bna = true \/ bno = true)) /\
  (is_xor_type d = true <-> ~ T /\ ~ (ba = true \/ bo = true \/ bna = true \/ bno = true) /\ bx = true).
Proof.
  cbv zeta. destruct bi, ba, bo, bna, bno, bx; cbn [classify andb is_trivial is_and_type is_xor_type];
    intuition congruence.
Qed.

Theorem top_classes n t v : wf n t -> v < N.of_nat n ->
  exists d, top_decomposition n t v = Ok d /\
    let T := Indep n t v \/ (Zero0 n t v /\ One1 n t v) \/ (One0 n t v /\ Zero1 n t v) in
    let G := Zero0 n t v \/ One1 n t v \/ One0 n t v \/ Zero1 n t v in
    (is_trivial d = true <-> T) /\
    (is_and_type d = true <-> ~ T /\ G) /\
    (is_xor_type d = true <-> ~ T /\ ~ G /\ Xr n t v).
Proof.
  intros Hwf Hv.
  destruct (top_classify n t v Hwf Hv) as [bi [ba [bo [bna [bno [bx [E [Hi [Ha [Ho [Hna [Hno Hx]]]]]]]]]]]].
  exists (classify bi ba bo bna bno bx). split; [exact E|]. cbv zeta.
  rewrite <- Hi, <- Ha, <- Ho, <- Hna, <- Hno, <- Hx.
  exact (classify_classes bi ba bo bna bno bx).
Qed.
