(* The Gray-code flip sequence generated at run time (Model/Canon.v, generate_gray_flips, used by flips_for for
   n >= 7) is a valid, closed, non-empty walk through ALL 2^(n+1) input/output complementation masks, for EVERY
   n >= 1 - by proof, not by evaluation (Proofs/Coverage.v evaluates check_fl n for each n <= 8 separately).

   1. the generator: (i-1) xor i = ones (tz i + 1), hence gray (i-1) xor gray i = 2^(tz i); gray is injective,
      maps [0, 2^n) into itself, hence onto (pigeonhole on lists); gray (2^n - 1) = 2^(n-1).
   2. the walk: the input part of the mask after the k-th flip is gray k; the two masks recorded after flip k are
      gray k xor 2^n and gray k (k = 1 .. 2^n - 1); the rollback flip n-1 records 2^n and 0.
   3. packaged like Coverage.coverage_N.
   No bound on n is needed: the model computes in N (no 64-bit wrap), and trailing_zeros 0 = 64 is never reached
   because the xor of two consecutive Gray codes is never 0. *)
From Coq Require Import List NArith Arith Bool Lia FinFun.
From V Require Import Base.Res Model.Kernels Base.Bits Model.Canon Spec.Transform Proofs.Coverage.
Import ListNotations.
Open Scope N_scope.

(* ------------------------------------------------------------------ 0. trailing zeros *)
Fixpoint tzp (p : positive) : N := match p with xO q => 1 + tzp q | _ => 0 end.

Lemma tz_pos p : trailing_zeros (Npos p) = tzp p.
Proof. reflexivity. Qed.

Lemma npos_xO q : Npos (xO q) = 2 * Npos q.
Proof. reflexivity. Qed.

Lemma npos_xI q : Npos (xI q) = 2 * Npos q + 1.
Proof. reflexivity. Qed.

Lemma tzp_spec p : N.testbit (Npos p) (tzp p) = true /\ forall j, j < tzp p -> N.testbit (Npos p) j = false.
Proof.
  induction p as [q IH|q IH|].
  - cbn [tzp]. split; [rewrite npos_xI; apply N.testbit_odd_0 | intros j Hj; lia].
  - cbn [tzp]. destruct IH as [IH1 IH2]. rewrite npos_xO. split.
    + replace (1 + tzp q) with (N.succ (tzp q)) by lia. rewrite N.testbit_even_succ by lia. exact IH1.
    + intros j Hj. destruct (N.eq_dec j 0) as [->|Hj0].
      * apply N.testbit_even_0.
      * replace j with (N.succ (j - 1)) by lia. rewrite N.testbit_even_succ by lia. apply IH2. lia.
  - cbn [tzp]. split; [reflexivity | intros j Hj; lia].
Qed.

Lemma tz_spec x : 0 < x ->
  N.testbit x (trailing_zeros x) = true /\ forall j, j < trailing_zeros x -> N.testbit x j = false.
Proof. intros H. destruct x as [|p]; [lia|]. rewrite tz_pos. apply tzp_spec. Qed.

Lemma tz_unique x t : 0 < x -> N.testbit x t = true -> (forall j, j < t -> N.testbit x j = false) ->
  trailing_zeros x = t.
Proof.
  intros Hx H1 H2. destruct (tz_spec x Hx) as [G1 G2].
  destruct (N.lt_trichotomy (trailing_zeros x) t) as [L|[E|L]].
  - rewrite (H2 _ L) in G1. discriminate.
  - exact E.
  - rewrite (G2 _ L) in H1. discriminate.
Qed.

Lemma pow2_pos t : 0 < 2 ^ t.
Proof. apply N.neq_0_lt_0. apply N.pow_nonzero. discriminate. Qed.

Lemma tz_pow2 t : trailing_zeros (2 ^ t) = t.
Proof.
  apply tz_unique; [apply pow2_pos | apply N.pow2_bits_true |].
  intros j Hj. apply N.pow2_bits_false. lia.
Qed.

Lemma tz_lt x n : 0 < x -> x < 2 ^ n -> trailing_zeros x < n.
Proof.
  intros H0 Hn. destruct (tz_spec x H0) as [G1 _].
  destruct (N.lt_ge_cases (trailing_zeros x) n) as [L|L]; [exact L|].
  rewrite (testbit_lt_pow2 x n _ Hn L) in G1. discriminate.
Qed.

(* ------------------------------------------------------------------ 1. the generator *)
Lemma ones_testbit n k : N.testbit (N.ones n) k = (k <? n).
Proof.
  destruct (N.ltb_spec k n) as [L|L]; [apply N.ones_spec_low | apply N.ones_spec_high]; exact L.
Qed.

Lemma ones_succ_double k : N.ones (k + 1) = 2 * N.ones k + 1.
Proof.
  rewrite !N.ones_equiv. pose proof (pow2_pos k) as H.
  replace (k + 1) with (N.succ k) by lia. rewrite N.pow_succ_r'. lia.
Qed.

Lemma lxor_odd_even a b : N.lxor (2 * a + 1) (2 * b) = 2 * N.lxor a b + 1.
Proof.
  apply N.bits_inj. intros k. rewrite N.lxor_spec. destruct (N.eq_dec k 0) as [->|Hk].
  - rewrite !N.testbit_odd_0, N.testbit_even_0. reflexivity.
  - replace k with (N.succ (k - 1)) by lia.
    rewrite !N.testbit_odd_succ, N.testbit_even_succ by lia. rewrite N.lxor_spec. reflexivity.
Qed.

Lemma lxor_even_odd a : N.lxor (2 * a) (2 * a + 1) = 1.
Proof.
  apply N.bits_inj. intros k. rewrite N.lxor_spec. destruct (N.eq_dec k 0) as [->|Hk].
  - rewrite N.testbit_odd_0, N.testbit_even_0. reflexivity.
  - replace k with (N.succ (k - 1)) by lia.
    rewrite N.testbit_odd_succ, N.testbit_even_succ by lia. rewrite xorb_nilpotent.
    change 1 with (2 * 0 + 1). rewrite N.testbit_odd_succ by lia. rewrite N.bits_0. reflexivity.
Qed.

(* (i-1) xor i is the block of ones up to and including the lowest set bit of i *)
Lemma pred_lxor_pos p : N.lxor (Npos p - 1) (Npos p) = N.ones (tzp p + 1).
Proof.
  induction p as [q IH|q IH|].
  - cbn [tzp]. rewrite npos_xI. replace (2 * N.pos q + 1 - 1) with (2 * N.pos q) by lia.
    rewrite lxor_even_odd. reflexivity.
  - cbn [tzp]. rewrite npos_xO.
    replace (2 * N.pos q - 1) with (2 * (N.pos q - 1) + 1) by lia.
    rewrite lxor_odd_even, IH. replace (1 + tzp q + 1) with ((tzp q + 1) + 1) by lia.
    rewrite (ones_succ_double (tzp q + 1)). reflexivity.
  - reflexivity.
Qed.

Lemma pred_lxor i : 0 < i -> N.lxor (i - 1) i = N.ones (trailing_zeros i + 1).
Proof. intros H. destruct i as [|p]; [lia|]. rewrite tz_pos. apply pred_lxor_pos. Qed.

Lemma lxor_swap4 a b c d : N.lxor (N.lxor a b) (N.lxor c d) = N.lxor (N.lxor a c) (N.lxor b d).
Proof.
  apply N.bits_inj. intros k. rewrite !N.lxor_spec.
  destruct (N.testbit a k), (N.testbit b k), (N.testbit c k), (N.testbit d k); reflexivity.
Qed.

Lemma gray_lxor a b : N.lxor (gray a) (gray b) = gray (N.lxor a b).
Proof. unfold gray. rewrite N.shiftr_lxor. apply lxor_swap4. Qed.

Lemma gray_ones t : gray (N.ones (t + 1)) = 2 ^ t.
Proof.
  unfold gray. apply N.bits_inj. intros k.
  rewrite N.lxor_spec, N.shiftr_spec', !ones_testbit, N.pow2_bits_eqb.
  destruct (N.ltb_spec k (t + 1)) as [L1|L1], (N.ltb_spec (k + 1) (t + 1)) as [L2|L2], (N.eqb_spec t k) as [E|E];
    try reflexivity; lia.
Qed.

Lemma gray_0 : gray 0 = 0.
Proof. reflexivity. Qed.

(* consecutive Gray codes differ in exactly the bit trailing_zeros i (no bound on i: the model computes in N) *)
Lemma gray_step : forall i, 0 < i -> N.lxor (gray (i - 1)) (gray i) = 2 ^ (trailing_zeros i).
Proof. intros i Hi. rewrite gray_lxor, (pred_lxor i Hi). apply gray_ones. Qed.

Lemma gray_eq_0 d : gray d = 0 -> d = 0.
Proof.
  intros H. destruct (N.eq_dec d 0) as [E|Hd]; [exact E|].
  assert (Hb : N.testbit (gray d) (N.log2 d) = true).
  { unfold gray. rewrite N.lxor_spec, N.shiftr_spec', (N.bit_log2 d Hd).
    rewrite (N.bits_above_log2 d (N.log2 d + 1)) by lia. reflexivity. }
  rewrite H, N.bits_0 in Hb. discriminate.
Qed.

Lemma gray_inj i j : gray i = gray j -> i = j.
Proof.
  intros H. apply N.lxor_eq. apply gray_eq_0. rewrite <- gray_lxor, H. apply N.lxor_nilpotent.
Qed.

Lemma gray_lt n i : i < 2 ^ n -> gray i < 2 ^ n.
Proof. intros H. unfold gray. apply lxor_lt; [exact H | apply shiftr_lt; exact H]. Qed.

Lemma gray_bijective_below : forall n i j, i < 2 ^ n -> j < 2 ^ n ->
  (gray i = gray j -> i = j) /\ gray i < 2 ^ n.
Proof. intros n i j Hi _. split; [apply gray_inj | apply gray_lt; exact Hi]. Qed.

Lemma gray_last : forall n, 1 <= n -> gray (2 ^ n - 1) = 2 ^ (n - 1).
Proof.
  intros n Hn. replace (2 ^ n - 1) with (N.ones ((n - 1) + 1)).
  - apply gray_ones.
  - rewrite N.ones_equiv. replace (n - 1 + 1) with n by lia. lia.
Qed.

(* onto [0, 2^n): an injective map of a finite list into itself is onto *)
Lemma below_in_iff k m : In m (map N.of_nat (seq 0 k)) <-> m < N.of_nat k.
Proof.
  split.
  - intros H. apply in_map_iff in H. destruct H as [i [E Hi]]. apply in_seq in Hi. lia.
  - apply cov_below_in.
Qed.

Lemma gray_surj n m : m < 2 ^ N.of_nat n -> exists k, k < 2 ^ N.of_nat n /\ gray k = m.
Proof.
  intros Hm.
  assert (HP : N.of_nat (Nat.pow 2 n) = 2 ^ N.of_nat n) by (rewrite Nat2N.inj_pow; reflexivity).
  set (dom := map N.of_nat (seq 0 (Nat.pow 2 n))).
  assert (Hdom : forall x, In x dom <-> x < 2 ^ N.of_nat n).
  { intros x. unfold dom. rewrite below_in_iff, HP. reflexivity. }
  assert (Hnd : NoDup (map gray dom)).
  { apply Injective_map_NoDup; [intros a b; apply gray_inj|].
    unfold dom. apply Injective_map_NoDup; [intros a b; apply Nat2N.inj | apply seq_NoDup]. }
  assert (Hincl : incl (map gray dom) dom).
  { intros x Hx. apply in_map_iff in Hx. destruct Hx as [y [E Hy]]. subst x.
    apply Hdom. apply gray_lt. apply Hdom. exact Hy. }
  assert (Hback : incl dom (map gray dom)).
  { apply NoDup_length_incl; [exact Hnd | rewrite map_length; apply Nat.le_refl | exact Hincl]. }
  assert (Hin : In m (map gray dom)) by (apply Hback; apply Hdom; exact Hm).
  apply in_map_iff in Hin. destruct Hin as [k [E Hk]]. exists k. split; [apply Hdom; exact Hk | exact E].
Qed.

(* ------------------------------------------------------------------ 2. the walk *)
Definition gflip (i : N) : N := trailing_zeros (N.lxor (gray (i - 1)) (gray i)).

Lemma gflip_tz i : 0 < i -> gflip i = trailing_zeros i.
Proof. intros H. unfold gflip. rewrite (gray_step i H). apply tz_pow2. Qed.

Lemma gflip_pow i : 0 < i -> 2 ^ gflip i = N.lxor (gray (i - 1)) (gray i).
Proof. intros H. rewrite (gflip_tz i H). symmetry. exact (gray_step i H). Qed.

Lemma generate_gray_flips_eq n :
  generate_gray_flips n true = map (fun i => gflip (N.of_nat i)) (seq 1 (Nat.pow 2 n - 1)) ++ [N.of_nat (n - 1)].
Proof. reflexivity. Qed.

Lemma lxor_cancel_l a b : N.lxor a (N.lxor a b) = b.
Proof. rewrite <- N.lxor_assoc, N.lxor_nilpotent. apply N.lxor_0_l. Qed.

Lemma lxor_cancel_r a b : N.lxor (N.lxor a b) b = a.
Proof. rewrite N.lxor_assoc, N.lxor_nilpotent. apply N.lxor_0_r. Qed.

(* the two masks recorded after the k-th flip *)
Definition gray_pair (n : nat) (k : nat) : list N :=
  [N.lxor (gray (N.of_nat k)) (2 ^ N.of_nat n); gray (N.of_nat k)].

Lemma masks_after_gray n rest : forall len s,
  masks_after n (gray (N.of_nat s)) (map (fun i => gflip (N.of_nat i)) (seq (S s) len) ++ rest) =
  flat_map (gray_pair n) (seq (S s) len) ++ masks_after n (gray (N.of_nat (s + len))) rest.
Proof.
  induction len as [|len IH]; intros s.
  - cbn [seq map flat_map app]. rewrite Nat.add_0_r. reflexivity.
  - cbn [seq map flat_map app masks_after].
    assert (Hs : 0 < N.of_nat (S s)) by lia.
    rewrite (gflip_pow _ Hs).
    replace (N.of_nat (S s) - 1) with (N.of_nat s) by lia.
    rewrite lxor_cancel_l, lxor_cancel_r.
    rewrite (IH (S s)). unfold gray_pair at 1. cbn [app].
    replace (S s + len)%nat with (s + S len)%nat by lia. reflexivity.
Qed.

Lemma pow2_nat_N n : N.of_nat (Nat.pow 2 n) = 2 ^ N.of_nat n.
Proof. rewrite Nat2N.inj_pow. reflexivity. Qed.

Lemma pow2_nat_pos n : (1 <= Nat.pow 2 n)%nat.
Proof. pose proof (pow2_nat_N n) as H. pose proof (pow2_pos (N.of_nat n)) as H'. lia. Qed.

(* the complete list of masks visited by the generated walk *)
Lemma gray_masks n : (1 <= n)%nat ->
  masks_after n 0 (generate_gray_flips n true) =
  flat_map (gray_pair n) (seq 1 (Nat.pow 2 n - 1)) ++ [2 ^ N.of_nat n; 0].
Proof.
  intros Hn. rewrite generate_gray_flips_eq.
  change 0 with (gray (N.of_nat 0)) at 1. rewrite masks_after_gray. f_equal.
  cbn [masks_after Nat.add].
  pose proof (pow2_nat_N n) as HP. pose proof (pow2_nat_pos n) as HP1.
  replace (N.of_nat (Nat.pow 2 n - 1)) with (2 ^ N.of_nat n - 1) by lia.
  rewrite gray_last by lia. replace (N.of_nat (n - 1)) with (N.of_nat n - 1) by lia.
  rewrite N.lxor_nilpotent, N.lxor_0_l, N.lxor_nilpotent. reflexivity.
Qed.

(* a mask below 2^(n+1) is an input mask below 2^n with or without the output bit *)
Lemma mask_split n m : m < 2 ^ (n + 1) ->
  exists m', m' < 2 ^ n /\ (m = m' \/ m = N.lxor m' (2 ^ n)).
Proof.
  intros Hm. destruct (N.testbit m n) eqn:Hb.
  - exists (N.lxor m (2 ^ n)). split; [|right; symmetry; apply lxor_cancel_r].
    apply lt_pow2_of_bits. intros p Hp. rewrite N.lxor_spec, N.pow2_bits_eqb.
    destruct (N.eqb_spec n p) as [E|E].
    + subst p. rewrite Hb. reflexivity.
    + rewrite (testbit_lt_pow2 m (n + 1) p Hm) by lia. reflexivity.
  - exists m. split; [|left; reflexivity].
    apply lt_pow2_of_bits. intros p Hp. destruct (N.eq_dec p n) as [E|E].
    + subst p. exact Hb.
    + apply (testbit_lt_pow2 m (n + 1) p Hm). lia.
Qed.

Theorem gray_flips_general : forall n, (1 <= n)%nat ->
  let fl := generate_gray_flips n true in
  flips_valid n fl = true /\ flips_closed n fl = true /\ fl <> [] /\
  forall m, m < 2 ^ (N.of_nat n + 1) -> In m (masks_after n 0 fl).
Proof.
  intros n Hn fl.
  pose proof (pow2_nat_N n) as HP. pose proof (pow2_nat_pos n) as HP1.
  split; [|split; [|split]].
  - unfold fl, flips_valid. rewrite generate_gray_flips_eq, forallb_app. apply andb_true_iff. split.
    + apply forallb_forall. intros f Hf. apply in_map_iff in Hf. destruct Hf as [i [E Hi]]. subst f.
      apply in_seq in Hi. apply N.ltb_lt. rewrite gflip_tz by lia. apply tz_lt; lia.
    + cbn [forallb]. rewrite andb_true_r. apply N.ltb_lt. lia.
  - unfold fl, flips_closed. rewrite (gray_masks n Hn).
    change [2 ^ N.of_nat n; 0] with ([2 ^ N.of_nat n] ++ [0]). rewrite app_assoc, last_last. reflexivity.
  - unfold fl. rewrite generate_gray_flips_eq. intros E. apply app_eq_nil in E. destruct E as [_ E]. discriminate.
  - intros m Hm. unfold fl. rewrite (gray_masks n Hn).
    destruct (mask_split (N.of_nat n) m Hm) as [m' [Hm' Hor]].
    destruct (gray_surj n m' Hm') as [k [Hk Ek]].
    apply in_or_app. destruct (N.eq_dec k 0) as [K0|K0].
    + right. subst k. rewrite gray_0 in Ek. subst m'.
      destruct Hor as [->| ->]; [right; left; reflexivity | left; rewrite N.lxor_0_l; reflexivity].
    + left. apply in_flat_map. exists (N.to_nat k). split; [apply in_seq; lia|].
      unfold gray_pair. rewrite N2Nat.id, Ek.
      destruct Hor as [->| ->]; [right; left; reflexivity | left; reflexivity].
Qed.

(* the statement with the (superfluous) bound of the 64-bit implementation *)
Corollary gray_flips_general_63 : forall n, (1 <= n)%nat -> (n <= 63)%nat ->
  let fl := generate_gray_flips n true in
  flips_valid n fl = true /\ flips_closed n fl = true /\ fl <> [] /\
  forall m, m < 2 ^ (N.of_nat n + 1) -> In m (masks_after n 0 fl).
Proof. intros n Hn _. exact (gray_flips_general n Hn). Qed.

(* ------------------------------------------------------------------ 3. packaged like Coverage.coverage_N *)
Theorem coverage_N_general : forall n, (1 <= n)%nat ->
  exists fl, flips_for n = Ok fl /\ flips_valid n fl = true /\ flips_closed n fl = true /\ fl <> [] /\
             forall mask, mask < 2 ^ (N.of_nat n + 1) -> In (identity n, mask) (n_certs n fl).
Proof.
  intros n Hn. destruct (Nat.le_gt_cases n 6) as [Hs|Hb].
  - apply coverage_N. lia.
  - destruct (gray_flips_general n Hn) as [H1 [H2 [H3 H4]]].
    exists (generate_gray_flips n true). split.
    + unfold flips_for. destruct (Nat.leb_spec n 6) as [L|_]; [lia | reflexivity].
    + split; [exact H1|]. split; [exact H2|]. split; [exact H3|].
      intros m Hm. apply n_certs_in. exact (H4 m Hm).
Qed.

Corollary coverage_N_general_63 : forall n, (1 <= n)%nat -> (n <= 63)%nat ->
  exists fl, flips_for n = Ok fl /\ flips_valid n fl = true /\ flips_closed n fl = true /\ fl <> [] /\
             forall mask, mask < 2 ^ (N.of_nat n + 1) -> In (identity n, mask) (n_certs n fl).
Proof. intros n Hn _. exact (coverage_N_general n Hn). Qed.

(* the generated walk alone, also for the sizes where the library uses the precomputed table *)
Theorem coverage_N_generated : forall n, (1 <= n)%nat ->
  let fl := generate_gray_flips n true in
  flips_valid n fl = true /\ flips_closed n fl = true /\ fl <> [] /\
  forall mask, mask < 2 ^ (N.of_nat n + 1) -> In (identity n, mask) (n_certs n fl).
Proof.
  intros n Hn fl. destruct (gray_flips_general n Hn) as [H1 [H2 [H3 H4]]].
  split; [exact H1|]. split; [exact H2|]. split; [exact H3|].
  intros m Hm. apply n_certs_in. exact (H4 m Hm).
Qed.

