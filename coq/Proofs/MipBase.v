(* Generic lemmas for the adequacy proofs of the 0-1 programmes of Model/Mip.v (property C18):
   linear expressions over Q at integral points, variable kinds, list plumbing (indexed lists, mapM, filters),
   duplicate-free lists and sums of gate counts. *)
From Coq Require Import List NArith ZArith QArith Arith Bool Lia Lqa Permutation.
From V Require Import Base.Res Model.Kernels Model.TwoLevel Model.Api Model.Mip Spec.Bfun Spec.TwoLevelCost.
Import ListNotations.
Open Scope nat_scope.

(* ------------------------------------------------------------------ 1. linear expressions *)
Definition b2z (b : bool) : Z := if b then 1%Z else 0%Z.
Fixpoint zsum (l : list Z) : Z := match l with [] => 0%Z | a :: r => (a + zsum r)%Z end.
Definition evalZ (z : nat -> Z) (l : lin) : Z :=
  fold_right (fun (cv : Z * nat) acc => (fst cv * z (snd cv) + acc)%Z) (lconst l) (lcoef l).

Lemma eval2_cons x cv r k :
  eval2 x (mkLin (cv :: r) k) = (inject_Z (fst cv) * x (snd cv) + eval2 x (mkLin r k))%Q.
Proof. reflexivity. Qed.

Lemma eval2_nil x k : eval2 x (mkLin [] k) = inject_Z k.
Proof. reflexivity. Qed.

Lemma eval2_int x z cs k :
  (forall cv, In cv cs -> (x (snd cv) == inject_Z (z (snd cv)))%Q) ->
  (eval2 x (mkLin cs k) == inject_Z (evalZ z (mkLin cs k)))%Q.
Proof.
  induction cs as [|cv cs IH]; intros H.
  - reflexivity.
  - rewrite eval2_cons. rewrite IH by (intros cv' Hcv; apply H; right; exact Hcv).
    rewrite (H cv) by (left; reflexivity).
    unfold evalZ. cbn [lcoef lconst fold_right]. rewrite inject_Z_plus, inject_Z_mult. reflexivity.
Qed.

Lemma eval2_app x a b k : (eval2 x (mkLin (a ++ b) k) == eval2 x (mkLin a 0) + eval2 x (mkLin b k))%Q.
Proof.
  induction a as [|cv a IH].
  - cbn [app]. rewrite eval2_nil. change (inject_Z 0) with 0%Q. lra.
  - cbn [app]. rewrite !eval2_cons, IH. lra.
Qed.

Lemma eval2_ext x y l : (forall v, (x v == y v)%Q) -> (eval2 x l == eval2 y l)%Q.
Proof.
  intros H. destruct l as [cs k]. induction cs as [|cv cs IH].
  - reflexivity.
  - rewrite !eval2_cons, IH, (H (snd cv)). reflexivity.
Qed.

Lemma evalZ_cons z cv r k : evalZ z (mkLin (cv :: r) k) = (fst cv * z (snd cv) + evalZ z (mkLin r k))%Z.
Proof. reflexivity. Qed.

Lemma evalZ_app z a b k : evalZ z (mkLin (a ++ b) k) = (evalZ z (mkLin a 0) + evalZ z (mkLin b k))%Z.
Proof.
  induction a as [|cv a IH].
  - reflexivity.
  - cbn [app]. rewrite !evalZ_cons, IH. lia.
Qed.

Lemma evalZ_map {A} z (c : A -> Z) (v : A -> nat) l k :
  evalZ z (mkLin (map (fun i => (c i, v i)) l) k) = (zsum (map (fun i => c i * z (v i)) l) + k)%Z.
Proof.
  induction l as [|a l IH].
  - reflexivity.
  - cbn [map]. rewrite evalZ_cons, IH. cbn [zsum fst snd]. lia.
Qed.

Lemma zsum_app a b : zsum (a ++ b) = (zsum a + zsum b)%Z.
Proof. induction a as [|x a IH]; cbn [app zsum]; lia. Qed.

Lemma zsum_ext {A} (f g : A -> Z) l : (forall a, In a l -> f a = g a) -> zsum (map f l) = zsum (map g l).
Proof.
  induction l as [|a l IH]; intros H; cbn [map zsum]; [reflexivity|].
  rewrite (H a) by (left; reflexivity). rewrite IH by (intros b Hb; apply H; right; exact Hb). reflexivity.
Qed.

Lemma zsum_le {A} (f g : A -> Z) l : (forall a, In a l -> (f a <= g a)%Z) -> (zsum (map f l) <= zsum (map g l))%Z.
Proof.
  induction l as [|a l IH]; intros H; cbn [map zsum]; [lia|].
  specialize (H a (or_introl eq_refl)) as Ha.
  assert (IH' := IH (fun b Hb => H b (or_intror Hb))). lia.
Qed.

Lemma zsum_scale {A} (f : A -> Z) c l : zsum (map (fun a => c * f a)%Z l) = (c * zsum (map f l))%Z.
Proof. induction l as [|a l IH]; cbn [map zsum]; [ring|]. rewrite IH. ring. Qed.

Lemma zsum_count {A} (P : A -> bool) c l :
  zsum (map (fun i => c * b2z (P i))%Z l) = (c * Z.of_nat (length (filter P l)))%Z.
Proof.
  induction l as [|a l IH]; cbn [map zsum filter]; [cbn [length]; ring|].
  rewrite IH. destruct (P a); cbn [b2z length]; [rewrite Nat2Z.inj_succ|]; ring.
Qed.

Lemma flat_map_if {A B} (P : A -> bool) (g : A -> B) l :
  flat_map (fun i => if P i then [g i] else []) l = map g (filter P l).
Proof.
  induction l as [|a l IH]; cbn [flat_map filter map]; [reflexivity|].
  rewrite IH. destruct (P a); reflexivity.
Qed.

(* binary variables: `value > 0.5` is "equals 1" *)
Lemma used_binary x v : (x v == 0 \/ x v == 1)%Q -> (x v == inject_Z (b2z (used x v)))%Q.
Proof.
  unfold used. intros [H|H]; destruct (Qlt_le_dec (1 # 2) (x v)) as [L|L]; cbn [b2z];
    rewrite H in L |- *; try reflexivity; exfalso; revert L; unfold Qlt, Qle; cbn; lia.
Qed.

Lemma used_b2z (z : nat -> Z) v b : z v = b2z b -> used (fun v => inject_Z (z v)) v = b.
Proof.
  intros H. unfold used. rewrite H.
  destruct (Qlt_le_dec (1 # 2) (inject_Z (b2z b))) as [L|L]; destruct b; try reflexivity;
    exfalso; revert L; unfold Qlt, Qle; cbn; lia.
Qed.

(* sums of terms bounded below, for the real-valued counters *)
Lemma eval2_map_ge {A} x (c : Z) (v : A -> nat) (a : A -> Z) l : (0 <= c)%Z ->
  (forall j, In j l -> (inject_Z (a j) <= x (v j))%Q) ->
  (inject_Z (c * zsum (map a l)) <= eval2 x (mkLin (map (fun j => (c, v j)) l) 0))%Q.
Proof.
  intros Hc. induction l as [|j l IH]; intros H.
  - cbn [map zsum]. rewrite Z.mul_0_r. rewrite eval2_nil. apply Qle_refl.
  - cbn [map zsum]. rewrite eval2_cons. cbn [fst snd].
    specialize (IH (fun j' Hj' => H j' (or_intror Hj'))).
    specialize (H j (or_introl eq_refl)).
    rewrite Z.mul_add_distr_l, inject_Z_plus, inject_Z_mult.
    assert (Hc' : (0 <= inject_Z c)%Q) by (rewrite Zle_Qle in Hc; exact Hc).
    apply Qplus_le_compat; [|exact IH].
    rewrite (Qmult_comm (inject_Z c) (inject_Z (a j))), (Qmult_comm (inject_Z c) (x (v j))).
    apply Qmult_le_compat_r; assumption.
Qed.

(* ------------------------------------------------------------------ 2. variable kinds *)
Lemma nth_error_repeat_inv {A} (a : A) m i k : nth_error (repeat a m) i = Some k -> k = a /\ i < m.
Proof.
  intros H. assert (L : i < m).
  { rewrite <- (repeat_length a m). apply nth_error_Some. rewrite H. discriminate. }
  rewrite (nth_error_repeat a L) in H. inversion H. auto.
Qed.

Lemma nth_error_app_inv {A} (l1 l2 : list A) i k : nth_error (l1 ++ l2) i = Some k ->
  (i < length l1 /\ nth_error l1 i = Some k) \/ (length l1 <= i /\ nth_error l2 (i - length l1) = Some k).
Proof.
  intros H. destruct (Nat.lt_ge_cases i (length l1)) as [L|L].
  - left. rewrite nth_error_app1 in H by exact L. auto.
  - right. rewrite nth_error_app2 in H by exact L. auto.
Qed.

(* ------------------------------------------------------------------ 3. list plumbing *)
Lemma In_combine_seq {A} (l : list A) : forall s j a,
  In (j, a) (combine (seq s (length l)) l) <-> (s <= j /\ nth_error l (j - s) = Some a).
Proof.
  induction l as [|x l IH]; intros s j a.
  - cbn. split; [intros []|]. intros [_ H]. destruct (j - s); discriminate.
  - cbn [length seq combine In]. rewrite IH. split.
    + intros [E|[L H]].
      * inversion E; subst. split; [lia|]. rewrite Nat.sub_diag. reflexivity.
      * split; [lia|]. replace (j - s) with (S (j - S s)) by lia. exact H.
    + intros [L H]. destruct (Nat.eq_dec j s) as [->|N].
      * rewrite Nat.sub_diag in H. inversion H. left. reflexivity.
      * right. split; [lia|]. replace (j - s) with (S (j - S s)) in H by lia. exact H.
Qed.

Lemma In_combine_seq_r {A} (l : list A) : forall s k a,
  In (a, k) (combine l (seq s (length l))) <-> (s <= k /\ nth_error l (k - s) = Some a).
Proof.
  induction l as [|x l IH]; intros s k a.
  - cbn. split; [intros []|]. intros [_ H]. destruct (k - s); discriminate.
  - cbn [length seq combine In]. rewrite IH. split.
    + intros [E|[L H]].
      * inversion E; subst. split; [lia|]. rewrite Nat.sub_diag. reflexivity.
      * split; [lia|]. replace (k - s) with (S (k - S s)) by lia. exact H.
    + intros [L H]. destruct (Nat.eq_dec k s) as [->|N].
      * rewrite Nat.sub_diag in H. inversion H. left. reflexivity.
      * right. split; [lia|]. replace (k - s) with (S (k - S s)) in H by lia. exact H.
Qed.

Lemma In_indexed fs j f : In (j, f) (indexed fs) <-> nth_error fs j = Some f.
Proof.
  unfold indexed. rewrite In_combine_seq, Nat.sub_0_r. split; [intros [_ H]; exact H|]. intros H. split; [lia|exact H].
Qed.

Lemma mapM_ok_map {A B} (f : A -> res B) (g : A -> B) l :
  (forall a, In a l -> f a = Ok (g a)) -> mapM f l = Ok (map g l).
Proof.
  induction l as [|a l IH]; intros H; cbn [mapM map]; [reflexivity|].
  rewrite (H a) by (left; reflexivity). cbn [bind].
  rewrite IH by (intros b Hb; apply H; right; exact Hb). reflexivity.
Qed.

Lemma mapM_inv {A B} (f : A -> res B) l : forall r, mapM f l = Ok r -> Forall2 (fun a b => f a = Ok b) l r.
Proof.
  induction l as [|a l IH]; intros r H; cbn [mapM] in H.
  - inversion H. constructor.
  - apply bind_ok in H. destruct H as [y [Hy H]]. apply bind_ok in H. destruct H as [r' [Hr H]].
    inversion H; subst. constructor; [exact Hy|apply IH; exact Hr].
Qed.

Lemma map_nth_seq {A} (l : list A) d : map (fun i => nth i l d) (seq 0 (length l)) = l.
Proof.
  induction l as [|a l IH]; [reflexivity|].
  cbn [length seq map nth]. f_equal. rewrite <- seq_shift, map_map. exact IH.
Qed.

Lemma filter_map_comm {A B} (P : B -> bool) (f : A -> B) l :
  filter P (map f l) = map f (filter (fun a => P (f a)) l).
Proof.
  induction l as [|a l IH]; cbn [map filter]; [reflexivity|]. rewrite IH. destruct (P (f a)); reflexivity.
Qed.

(* decoding by index is a filter of the candidate list *)
Lemma decode_filter {A} (l : list A) d (P : A -> bool) :
  map (fun i => nth i l d) (filter (fun i => P (nth i l d)) (seq 0 (length l))) = filter P l.
Proof. rewrite <- (filter_map_comm P (fun i => nth i l d)), map_nth_seq. reflexivity. Qed.

Lemma zsum_index {A} (l : list A) d (g : A -> Z) :
  zsum (map (fun i => g (nth i l d)) (seq 0 (length l))) = zsum (map g l).
Proof. rewrite <- (map_map (fun i => nth i l d) g), map_nth_seq. reflexivity. Qed.

Lemma Forall2_nth {A B} (R : A -> B -> Prop) l r : Forall2 R l r ->
  forall j a b, nth_error l j = Some a -> nth_error r j = Some b -> R a b.
Proof.
  induction 1 as [|x y l r Hxy _ IH]; intros j a b Ha Hb.
  - destruct j; discriminate.
  - destruct j as [|j]; cbn in Ha, Hb.
    + inversion Ha; inversion Hb; subst. exact Hxy.
    + eapply IH; eassumption.
Qed.

Lemma In_combine_nth {A B} (l : list A) (r : list B) a b :
  In (a, b) (combine l r) -> exists j, nth_error l j = Some a /\ nth_error r j = Some b.
Proof.
  revert r. induction l as [|x l IH]; intros [|y r] H; cbn in H; try contradiction.
  destruct H as [E|H].
  - inversion E; subst. exists 0. auto.
  - destruct (IH r H) as [j [H1 H2]]. exists (S j). auto.
Qed.

Lemma combine_nth_In {A B} (l : list A) (r : list B) j a b :
  nth_error l j = Some a -> nth_error r j = Some b -> In (a, b) (combine l r).
Proof.
  revert r j. induction l as [|x l IH]; intros [|y r] [|j] Ha Hb; cbn in *; try discriminate.
  - inversion Ha; inversion Hb; subst. left. reflexivity.
  - right. eapply IH; eassumption.
Qed.

Lemma nth_error_map_seq {A} (g : nat -> A) n j : j < n -> nth_error (map g (seq 0 n)) j = Some (g j).
Proof.
  intros L. rewrite (nth_error_nth' _ (g 0)) by (rewrite map_length, seq_length; exact L).
  rewrite (map_nth g), seq_nth by exact L. reflexivity.
Qed.

(* ------------------------------------------------------------------ 4. duplicate-free lists, sums of gate counts *)
Lemma cube_eqb_iff a b : cube_eqb a b = true <-> a = b.
Proof.
  unfold cube_eqb. rewrite andb_true_iff, !N.eqb_eq. split.
  - intros [H1 H2]. destruct a, b; cbn in *; congruence.
  - intros ->. auto.
Qed.

Lemma mem_iff c L : existsb (cube_eqb c) L = true <-> In c L.
Proof.
  rewrite existsb_exists. split.
  - intros [y [Hy E]]. apply cube_eqb_iff in E. subst. exact Hy.
  - intros H. exists c. split; [exact H|apply cube_eqb_iff; reflexivity].
Qed.

Lemma In_dedupb L c : In c (dedupb cube_eqb L) <-> In c L.
Proof.
  induction L as [|x r IH]; cbn [dedupb]; [reflexivity|].
  destruct (existsb (cube_eqb x) r) eqn:E.
  - rewrite IH. cbn [In]. split; [auto|]. intros [<-|H]; [apply mem_iff; exact E|exact H].
  - cbn [In]. rewrite IH. reflexivity.
Qed.

Lemma NoDup_dedupb L : NoDup (dedupb cube_eqb L).
Proof.
  induction L as [|x r IH]; cbn [dedupb]; [constructor|].
  destruct (existsb (cube_eqb x) r) eqn:E; [exact IH|].
  constructor; [|exact IH]. rewrite In_dedupb. intros H. apply mem_iff in H. congruence.
Qed.

Lemma dedupb_length L : length (dedupb cube_eqb L) <= length L.
Proof.
  induction L as [|x r IH]; cbn [dedupb length]; [lia|].
  destruct (existsb (cube_eqb x) r); cbn [length]; lia.
Qed.

Lemma nodupb_iff L : nodupb cube_eqb L = true <-> NoDup L.
Proof.
  unfold nodupb. rewrite Nat.eqb_eq. induction L as [|x r IH]; cbn [dedupb length].
  - split; [constructor|reflexivity].
  - pose proof (dedupb_length r) as Hl. destruct (existsb (cube_eqb x) r) eqn:E.
    + split; [lia|]. intros H. inversion H; subst. apply mem_iff in E. contradiction.
    + cbn [length]. split.
      * intros H. constructor; [|apply IH; lia]. intros Hin. apply mem_iff in Hin. congruence.
      * intros H. inversion H; subst. f_equal. apply IH. assumption.
Qed.

Lemma sum_gates_zsum l : sum_gates l = zsum (map (fun c => Z.of_N (cube_num_gates c)) l).
Proof. induction l as [|c l IH]; cbn [sum_gates fold_right map zsum]; [reflexivity|]. fold (sum_gates l). rewrite IH. reflexivity. Qed.

Lemma sum_gates_perm a b : Permutation a b -> sum_gates a = sum_gates b.
Proof. rewrite !sum_gates_zsum. induction 1; cbn [map zsum] in *; lia. Qed.

Lemma sum_gates_filter (P : cube -> bool) l :
  sum_gates (filter P l) = zsum (map (fun c => (Z.of_N (cube_num_gates c) * b2z (P c))%Z) l).
Proof.
  induction l as [|c l IH]; cbn [filter map zsum]; [reflexivity|].
  rewrite <- IH. destruct (P c); cbn [b2z sum_gates fold_right]; fold (sum_gates (filter P l)); lia.
Qed.

Lemma filter_mem_perm cubes L : NoDup cubes -> NoDup L -> incl L cubes ->
  Permutation (filter (fun c => existsb (cube_eqb c) L) cubes) L.
Proof.
  intros Hc HL Hi. apply NoDup_Permutation; [apply NoDup_filter; exact Hc|exact HL|].
  intros c. rewrite filter_In, mem_iff. split; [intros [_ H]; exact H|]. intros H. split; [apply Hi; exact H|exact H].
Qed.

Lemma mem_dedupb c L : existsb (cube_eqb c) (dedupb cube_eqb L) = existsb (cube_eqb c) L.
Proof.
  destruct (existsb (cube_eqb c) L) eqn:E.
  - apply mem_iff. apply In_dedupb. apply mem_iff. exact E.
  - destruct (existsb (cube_eqb c) (dedupb cube_eqb L)) eqn:E'; [|reflexivity].
    apply (proj1 (mem_iff _ _)) in E'. apply (proj1 (In_dedupb _ _)) in E'. apply (proj2 (mem_iff _ _)) in E'. congruence.
Qed.

Lemma sum_gates_dedupb cubes L : NoDup cubes -> incl L cubes ->
  sum_gates (dedupb cube_eqb L) =
  zsum (map (fun c => (Z.of_N (cube_num_gates c) * b2z (existsb (cube_eqb c) L))%Z) cubes).
Proof.
  intros Hc Hi. rewrite <- sum_gates_filter.
  rewrite <- (sum_gates_perm _ _ (filter_mem_perm cubes (dedupb cube_eqb L) Hc (NoDup_dedupb L)
                                    (fun c H => Hi c (proj1 (In_dedupb L c) H)))).
  f_equal. apply filter_ext. intros c. apply mem_dedupb.
Qed.

Lemma length_filter_mem cubes L : NoDup cubes -> NoDup L -> incl L cubes ->
  length (filter (fun c => existsb (cube_eqb c) L) cubes) = length L.
Proof. intros Hc HL Hi. apply Permutation_length. apply filter_mem_perm; assumption. Qed.

Lemma extra_spec k : extra k = Z.max (Z.of_nat k - 1) 0.
Proof. unfold extra. lia. Qed.

Lemma cost_fold (g : list cube -> Z) sol : fold_right (fun c a => (g c + a)%Z) 0%Z sol = zsum (map g sol).
Proof. induction sol as [|c r IH]; cbn [fold_right map zsum]; [reflexivity|]. rewrite IH. reflexivity. Qed.

(* ------------------------------------------------------------------ 5. the validity predicates of Spec/TwoLevelCost.v, unpacked *)
Definition gen_solution_ok (sem : list cube -> N -> bool) (n : nat) (fs : list (list N)) (sol : list (list cube)) : bool :=
  Nat.eqb (length sol) (length fs) &&
  forallb (fun fc : list N * list cube =>
             forallb (cube_good n) (snd fc) && nodupb cube_eqb (snd fc) &&
             forallb (fun m => Bool.eqb (sem (snd fc) m) (val (fst fc) m)) (dom n))
          (combine fs sol).

Lemma sop_solution_ok_gen n fs sol : sop_solution_ok n fs sol = gen_solution_ok sem_or n fs sol.
Proof. reflexivity. Qed.
Lemma esop_solution_ok_gen n fs sol : esop_solution_ok n fs sol = gen_solution_ok sem_xor n fs sol.
Proof. reflexivity. Qed.

Lemma In_dom n m : In m (dom n) <-> (m < 2 ^ N.of_nat n)%N.
Proof.
  unfold dom. rewrite in_map_iff. split.
  - intros [i [<- Hi]]. apply in_seq in Hi.
    rewrite <- (Nat2N.id (Nat.pow 2 n)) in Hi. rewrite Nat2N.inj_pow in Hi. cbn [N.of_nat] in Hi.
    change (N.pos (Pos.of_succ_nat 1)) with 2%N in Hi. lia.
  - intros H. exists (N.to_nat m). split; [apply N2Nat.id|]. apply in_seq.
    rewrite <- (Nat2N.id (Nat.pow 2 n)). rewrite Nat2N.inj_pow. cbn [N.of_nat].
    change (N.pos (Pos.of_succ_nat 1)) with 2%N. lia.
Qed.

Lemma gen_solution_ok_iff sem n (fs : list lut) sol :
  gen_solution_ok sem n (map tbl fs) sol = true <->
  length sol = length fs /\
  forall j f C, nth_error fs j = Some f -> nth_error sol j = Some C ->
    (forall c, In c C -> cube_good n c = true) /\ NoDup C /\
    forall m, (m < 2 ^ N.of_nat n)%N -> sem C m = val (tbl f) m.
Proof.
  unfold gen_solution_ok. rewrite andb_true_iff, Nat.eqb_eq, map_length, forallb_forall. split.
  - intros [Hl H]. split; [exact Hl|]. intros j f C Hf HC.
    assert (Hin : In (tbl f, C) (combine (map tbl fs) sol)).
    { apply (combine_nth_In _ _ j); [apply map_nth_error; exact Hf|exact HC]. }
    specialize (H _ Hin). cbn [fst snd] in H. rewrite !andb_true_iff in H. destruct H as [[H1 H2] H3].
    rewrite forallb_forall in H1, H3. split; [exact H1|]. split; [apply nodupb_iff; exact H2|].
    intros m Hm. apply eqb_prop. apply H3. apply In_dom. exact Hm.
  - intros [Hl H]. split; [exact Hl|]. intros [t C] Hin. cbn [fst snd].
    apply In_combine_nth in Hin. destruct Hin as [j [Ht HC]].
    rewrite nth_error_map in Ht. destruct (nth_error fs j) as [f|] eqn:Hf; [|discriminate].
    cbn in Ht. inversion Ht; subst t. destruct (H j f C Hf HC) as [H1 [H2 H3]].
    rewrite !andb_true_iff, !forallb_forall. split; [split|].
    + exact H1.
    + apply nodupb_iff. exact H2.
    + intros m Hm. apply eqb_true_iff. apply H3. apply In_dom. exact Hm.
Qed.

Lemma zsum_le_one {A} (f : A -> Z) l a0 : (forall a, In a l -> (f a <= 0)%Z) -> In a0 l -> (zsum (map f l) <= f a0)%Z.
Proof.
  induction l as [|a l IH]; intros H Hin; [contradiction|]. cbn [map zsum].
  assert (Hz : (zsum (map f l) <= 0)%Z).
  { clear IH Hin. induction l as [|b l IHl]; cbn [map zsum]; [lia|].
    assert (f b <= 0)%Z by (apply H; right; left; reflexivity).
    assert (zsum (map f l) <= 0)%Z by (apply IHl; intros c [Hc|Hc]; apply H; [left|right; right]; auto). lia. }
  destruct Hin as [->|Hin].
  - lia.
  - assert (f a <= 0)%Z by (apply H; left; reflexivity).
    assert (zsum (map f l) <= f a0)%Z by (apply IH; [intros c Hc; apply H; right; exact Hc|exact Hin]). lia.
Qed.

(* ------------------------------------------------------------------ 6. the solver hypothesis, one programme at a time *)
(* [solver_optimal_on] is defined in Model/Mip.v *)

(* REMARK (the only place where the global hypothesis of Model/Mip.v is mentioned): [solver_optimal] quantifies
   over ALL programmes, including unbounded ones, for which no optimum exists: no solver satisfies it.  All
   theorems assume [solver_optimal_on] for the programme actually built. *)
Lemma solver_optimal_unsatisfiable solver : ~ solver_optimal solver.
Proof.
  intros H. set (p0 := mkProgram [VNonNeg] [] (mkLin [((-1)%Z, 0)] 0)).
  assert (F : forall x : nat -> Q, (0 <= x 0%nat)%Q -> feasible p0 x).
  { intros x Hx. split; [|constructor]. intros i k Hk. destruct i as [|i]; cbn in Hk.
    - inversion Hk; subst. exact Hx.
    - destruct i; discriminate. }
  destruct (H p0) as [Hs Hn]. destruct (solver p0) as [x|] eqn:E.
  - destruct (Hs x eq_refl) as [[Hk _] Hmin]. assert (Hx : (0 <= x 0%nat)%Q) by (apply (Hk 0 VNonNeg); reflexivity).
    assert (Fy : feasible p0 (fun v => x v + 1)%Q) by (apply F; cbv beta; lra).
    specialize (Hmin _ Fy).
    unfold p0, eval2 in Hmin. cbn [pobj lcoef lconst fold_right fst snd] in Hmin.
    change (inject_Z (-1)) with (-1 # 1)%Q in Hmin. change (inject_Z 0) with 0%Q in Hmin. lra.
  - apply (Hn eq_refl (fun _ => 0%Q)). apply F. apply Qle_refl.
Qed.
