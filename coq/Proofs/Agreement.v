(* C10: where the LutN model functions (prefix S_) differ syntactically from the Lut ones (prefix D_), they agree on
   every pair of operands that the Rust type system admits (same N). All other operations are one and the same model
   function for both types; the transcript replay ties both Rust types to it. *)
From Coq Require Import List NArith Arith Bool Lia.
From V Require Import Base.Res Model.Kernels Model.Bdd Model.Api.
Import ListNotations.
Open Scope N_scope.

Lemma from_cofactors_agree c0 c1 ind : nv c0 = nv c1 -> S_from_cofactors c0 c1 ind = D_from_cofactors c0 c1 ind.
Proof. intros E. unfold S_from_cofactors, D_from_cofactors. rewrite E, Nat.eqb_refl. reflexivity. Qed.

Lemma cmp_agree a b : nv a = nv b -> S_cmp a b = D_cmp a b.
Proof. intros E. unfold S_cmp, D_cmp. rewrite E, Nat.eqb_refl. reflexivity. Qed.

Lemma from_blocks_agree n blocks : S_from_blocks n blocks = D_from_blocks n blocks.
Proof.
  unfold S_from_blocks, D_from_blocks, D_zero, fill_zero, chk_len, with_tbl, lut_new, num_blocks. cbn [tbl nv].
  rewrite repeat_length, Nat.eqb_refl. cbn [dbg bind nv]. reflexivity.
Qed.

Lemma bdd_agree n l0 luts : Forall (fun l => nv l = n) (l0 :: luts) ->
  S_bdd_complexity n (l0 :: luts) = D_bdd_complexity (l0 :: luts).
Proof.
  intros H. unfold S_bdd_complexity, D_bdd_complexity.
  assert (E0 : nv l0 = n) by (inversion H; assumption).
  assert (A : forallb (fun l => Nat.eqb (nv l) (nv l0)) (l0 :: luts) = true).
  { apply forallb_forall. intros l Hl. rewrite Forall_forall in H. rewrite (H l Hl), E0. apply Nat.eqb_refl. }
  rewrite A. cbn [always bind]. rewrite E0. reflexivity.
Qed.

Lemma bdd_agree_empty n : S_bdd_complexity n [] = D_bdd_complexity [].
Proof.
  unfold S_bdd_complexity, D_bdd_complexity, table_complexity. cbn [flat_map].
  assert (A : forall l, sumM (map (level_complexity []) l) = Ok 0%nat \/ exists x, sumM (map (level_complexity []) l) = x /\ True) by (intros; right; eauto).
  clear A.
  assert (L : forall l, (forall x, In x l -> (1 <= x)%nat /\ (x < 6)%nat) -> sumM (map (level_complexity []) l) = Ok 0%nat).
  { induction l as [|x l IH]; intros Hl; [reflexivity|]. cbn [map sumM].
    destruct (Hl x (or_introl eq_refl)) as [H1 H2].
    unfold level_complexity at 1. apply Nat.ltb_lt in H2. apply Nat.leb_le in H1. rewrite H2, H1. cbn [always bind flat_map filter].
    unfold distinct_count. cbn [nodup length]. rewrite IH by (intros y Hy; apply Hl; right; exact Hy). reflexivity. }
  assert (G : forall l, (forall x, In x l -> (6 <= x)%nat) -> sumM (map (large_level_complexity []) l) = Ok 0%nat).
  { induction l as [|x l IH]; intros Hl; [reflexivity|]. cbn [map sumM].
    pose proof (Hl x (or_introl eq_refl)) as H1.
    unfold large_level_complexity at 1. apply Nat.leb_le in H1. rewrite H1. cbn [always bind length].
    assert (Z : ((0 + Nat.pow 2 (x - 5) - 1) / Nat.pow 2 (x - 5) = 0)%nat).
    { apply Nat.div_small. assert (0 < Nat.pow 2 (x - 5))%nat by (apply Nat.neq_0_lt_0, Nat.pow_nonzero; lia). lia. }
    rewrite Z. rewrite Nat.mod_0_l by (apply Nat.pow_nonzero; lia). cbn [Nat.eqb always bind groups map filter].
    unfold distinct_count. cbn [nodup length]. rewrite IH by (intros y Hy; apply Hl; right; exact Hy). reflexivity. }
  rewrite L, G; [reflexivity| |].
  - intros x Hx. apply in_seq in Hx. lia.
  - intros x Hx. apply in_seq in Hx. lia.
Qed.
