(* C18, ESOP: the 0-1 programme built by optimize_esop_mip (Model/Mip.v) is adequate: every feasible point decodes
   to a valid multi-output ESOP whose cost is at most the objective, every valid ESOP is encoded by a feasible point
   whose objective is its cost; with an optimal solver the returned form is valid and of minimum cost. *)
From Coq Require Import List NArith ZArith QArith Arith Bool Lia Lqa Permutation.
From V Require Import Base.Res Model.Kernels Model.TwoLevel Model.Api Model.Mip Base.Bits Spec.Bfun Spec.TwoLevelCost.
From V Require Import Proofs.Wf Proofs.Tabulate Proofs.Order Proofs.MipBase Proofs.MipCore Proofs.MipSop.
From V Require Proofs.CubeProofs.
Import ListNotations.
Open Scope nat_scope.

(* ------------------------------------------------------------------ A. parity *)
Lemma filter_comm {A} (P Q : A -> bool) l : filter P (filter Q l) = filter Q (filter P l).
Proof.
  induction l as [|a l IH]; cbn [filter]; [reflexivity|].
  destruct (Q a) eqn:EQ, (P a) eqn:EP; cbn [filter]; rewrite ?EQ, ?EP, IH; reflexivity.
Qed.

Lemma perm_filter_length {A} (P : A -> bool) l l' : Permutation l l' -> length (filter P l) = length (filter P l').
Proof.
  induction 1 as [|a l l' _ IH|a b l|l l' l'' _ IH1 _ IH2]; cbn [filter].
  - reflexivity.
  - destruct (P a); cbn [length]; rewrite IH; reflexivity.
  - destruct (P a), (P b); reflexivity.
  - congruence.
Qed.

Definition oddn (k : nat) : bool := Z.odd (Z.of_nat k).

Lemma oddn_S k : oddn (S k) = negb (oddn k).
Proof. unfold oddn. rewrite Nat2Z.inj_succ, Z.odd_succ, <- Z.negb_odd. reflexivity. Qed.

Lemma sem_xor_count C m : sem_xor C m = oddn (length (filter (fun c => cube_value c m) C)).
Proof.
  unfold sem_xor.
  assert (G : forall r, fold_left (fun r c => xorb r (cube_value c m)) C r =
                        xorb r (oddn (length (filter (fun c => cube_value c m) C)))).
  { induction C as [|c C IH]; intros r; cbn [fold_left filter].
    - cbn. rewrite xorb_false_r. reflexivity.
    - rewrite IH. destruct (cube_value c m); cbn [length]; rewrite ?oddn_S; destruct r, (oddn _); reflexivity. }
  rewrite G. apply xorb_false_l.
Qed.

Lemma odd_diff (V1 V2 : cube -> bool) C :
  oddn (length (filter (fun c => negb (Bool.eqb (V1 c) (V2 c))) C)) =
  xorb (oddn (length (filter V1 C))) (oddn (length (filter V2 C))).
Proof.
  induction C as [|c C IH]; cbn [filter]; [reflexivity|].
  destruct (V1 c), (V2 c); cbn [Bool.eqb negb length]; rewrite ?oddn_S, IH;
    destruct (oddn (length (filter V1 C))), (oddn (length (filter V2 C))); reflexivity.
Qed.

Lemma parity_aux (c zk : Z) (v : bool) : (c + 2 * zk + b2z v = 0)%Z -> Z.odd c = v.
Proof.
  intros H. destruct v; cbn [b2z] in H.
  - replace c with (1 + 2 * (- zk - 1))%Z by lia. rewrite Z.odd_add_mul_2. reflexivity.
  - replace c with (0 + 2 * (- zk))%Z by lia. rewrite Z.odd_add_mul_2. reflexivity.
Qed.

Definition site_val (C : list cube) (W : cube -> bool) (v : bool) : Z :=
  (- ((Z.of_nat (length (filter W C)) + b2z v) / 2))%Z.

Lemma site_val_ok C W v : oddn (length (filter W C)) = v ->
  (Z.of_nat (length (filter W C)) + 2 * site_val C W v + b2z v = 0)%Z.
Proof.
  unfold oddn, site_val. set (c := Z.of_nat _). intros H.
  assert (E : exists m, (c + b2z v = 2 * m)%Z).
  { destruct v; cbn [b2z].
    - apply Z.odd_spec in H. destruct H as [m ->]. exists (m + 1)%Z. lia.
    - rewrite <- Z.negb_even in H. apply negb_false_iff in H. apply Z.even_spec in H. destruct H as [m ->].
      exists m. lia. }
  destruct E as [m E]. rewrite E. rewrite (Z.mul_comm 2 m), Z.div_mul by lia. lia.
Qed.

(* ------------------------------------------------------------------ B. one xor constraint *)
Section Xor.
  Variable cubes : list cube.
  Variable nf : nat.
  Let nc := length cubes.

  Definition xvars (j : nat) (W : cube -> bool) : list nat :=
    map (fun i => cuf cubes nf i j) (filter (fun i => W (cb cubes i)) (seq 0 nc)).

  Lemma dec_filter_len x j W :
    length (filter W (dec cubes nf x j)) =
    length (filter (fun i => used x (cuf cubes nf i j)) (filter (fun i => W (cb cubes i)) (seq 0 nc))).
  Proof. unfold dec. rewrite filter_map_comm, map_length, filter_comm. reflexivity. Qed.

  Lemma xor_sound x j W v k : (forall u, u < nc + nc * nf -> (x u == 0 \/ x u == 1)%Q) ->
    (exists zk, (x k == inject_Z zk)%Q) -> j < nf ->
    constr_ok x (xor_constr (xvars j W) v k) -> oddn (length (filter W (dec cubes nf x j))) = v.
  Proof.
    intros Hbin [zk Hk] Hj H. unfold constr_ok, xor_constr in H. cbn [crel cexpr] in H.
    rewrite eval2_app in H. rewrite (bin_eval cubes nf x Hbin) in H.
    2:{ intros cv Hcv. apply in_map_iff in Hcv. destruct Hcv as [u [<- Hu]]. cbn [snd]. unfold xvars in Hu.
        apply in_map_iff in Hu. destruct Hu as [i [<- Hi]]. apply filter_In in Hi. destruct Hi as [Hi _].
        apply in_seq in Hi. apply cuf_lt; [lia|exact Hj]. }
    rewrite eval2_cons, eval2_nil in H. cbn [fst snd] in H. rewrite Hk in H.
    rewrite <- inject_Z_mult, <- !inject_Z_plus in H. change 0%Q with (inject_Z 0) in H.
    rewrite inject_Z_injective in H.
    unfold xvars in H. rewrite map_map in H.
    rewrite (evalZ_map _ (fun _ => 1%Z) (fun i => cuf cubes nf i j)) in H.
    rewrite (zsum_count (fun i => used x (cuf cubes nf i j))) in H.
    rewrite dec_filter_len. unfold oddn.
    apply (parity_aux _ zk). revert H. destruct v; cbn [b2z]; lia.
  Qed.

  Lemma xor_enc (z : nat -> Z) C j W v k : j < nf ->
    (forall i, i < nc -> z (cuf cubes nf i j) = b2z (existsb (cube_eqb (cb cubes i)) C)) ->
    Permutation (filter (fun c => existsb (cube_eqb c) C) cubes) C ->
    oddn (length (filter W C)) = v -> z k = site_val C W v ->
    constr_ok (fun u => inject_Z (z u)) (xor_constr (xvars j W) v k).
  Proof.
    intros Hj Hz HP Hodd Hk. unfold constr_ok, xor_constr. cbn [crel cexpr].
    rewrite (eval2_int _ z) by (intros cv _; reflexivity).
    change 0%Q with (inject_Z 0). rewrite inject_Z_injective.
    rewrite evalZ_app. unfold xvars. rewrite map_map.
    rewrite (evalZ_map _ (fun _ => 1%Z) (fun i => cuf cubes nf i j)).
    rewrite (zsum_ext _ (fun i => (1 * b2z (existsb (cube_eqb (cb cubes i)) C))%Z)).
    2:{ intros i Hi. apply filter_In in Hi. destruct Hi as [Hi _]. apply in_seq in Hi. rewrite Hz by lia. reflexivity. }
    rewrite (zsum_count (fun i => existsb (cube_eqb (cb cubes i)) C)).
    rewrite evalZ_cons. cbn [fst snd]. unfold evalZ. cbn [lcoef lconst fold_right]. rewrite Hk.
    assert (E : length (filter (fun i => existsb (cube_eqb (cb cubes i)) C)
                               (filter (fun i => W (cb cubes i)) (seq 0 nc))) = length (filter W C)).
    { rewrite filter_comm. rewrite <- (map_length (cb cubes)). rewrite <- filter_map_comm.
      unfold nc. rewrite (dec_filter_cb cubes (fun c => existsb (cube_eqb c) C)). apply perm_filter_length. exact HP. }
    rewrite E. pose proof (site_val_ok C W v Hodd) as S. revert S. destruct v; cbn [b2z]; lia.
  Qed.
End Xor.

(* ------------------------------------------------------------------ C. the programme, constraint family by constraint family *)
Lemma bits_In f b : In b (seq 0 (num_bits_nat f)) <-> (N.of_nat b < 2 ^ N.of_nat (nv f))%N.
Proof. exact (num_bits_In [] [] f b). Qed.

Section EsopBridge.
  Variable fs : list lut.
  Variable cubes : list cube.
  Let nf := length fs.
  Let nc := length cubes.
  Let nvs := length (value_sites fs).
  Let nds := length (diff_sites fs).

  Definition Wval (b : N) (c : cube) : bool := cube_value c b.
  Definition Wdiff (b1 b2 : N) (c : cube) : bool := negb (Bool.eqb (cube_value c b1) (cube_value c b2)).

  Lemma value_vars_eq j b : value_vars fs cubes j b = xvars cubes nf j (Wval b).
  Proof. exact (flat_map_if (fun i => cube_value (cb cubes i) b) (fun i => cuf cubes nf i j) (seq 0 nc)). Qed.

  Lemma diff_vars_eq j b1 b2 : diff_vars fs cubes j b1 b2 = xvars cubes nf j (Wdiff b1 b2).
  Proof.
    unfold xvars. rewrite <- (flat_map_if (fun i => Wdiff b1 b2 (cb cubes i)) (fun i => cuf cubes nf i j)).
    unfold diff_vars. apply flat_map_ext. intros i. cbv zeta. fold (cb cubes i). unfold Wdiff.
    destruct (Bool.eqb (cube_value (cb cubes i) b1) (cube_value (cb cubes i) b2)); reflexivity.
  Qed.

  Lemma first_int_eq : w_first_int fs cubes = nc + nc * nf + nf.
  Proof. reflexivity. Qed.

  Lemma In_value_sites j f b :
    In (j, f, b) (value_sites fs) <-> nth_error fs j = Some f /\ (b < 2 ^ N.of_nat (nv f))%N.
  Proof.
    unfold value_sites. rewrite in_flat_map. split.
    - intros [[j' f'] [Hin Hs]]. apply (In_indexed fs) in Hin. apply in_map_iff in Hs. destruct Hs as [b' [E Hb]].
      cbn [fst snd] in E. inversion E; subst. split; [exact Hin|]. apply (bits_In f b'). exact Hb.
    - intros [Hf Hb]. exists (j, f). split; [apply (In_indexed fs); exact Hf|]. apply in_map_iff.
      exists (N.to_nat b). cbn [fst snd]. rewrite N2Nat.id. split; [reflexivity|].
      apply (bits_In f). rewrite N2Nat.id. exact Hb.
  Qed.

  Lemma In_diff_sites j f b1 b2 :
    In (j, f, b1, b2) (diff_sites fs) ->
    nth_error fs j = Some f /\ (b1 < 2 ^ N.of_nat (nv f))%N /\ (b2 < 2 ^ N.of_nat (nv f))%N.
  Proof.
    unfold diff_sites. rewrite in_flat_map. intros [[j' f'] [Hin Hs]]. apply (In_indexed fs) in Hin.
    apply in_flat_map in Hs. destruct Hs as [b' [Hb Hs]]. apply in_map_iff in Hs. destruct Hs as [fl [E Hfl]].
    cbn [fst snd] in E, Hb, Hfl. inversion E; subst. apply (bits_In f b') in Hb. apply in_seq in Hfl.
    split; [exact Hin|]. split; [exact Hb|]. apply lxor_lt; [exact Hb|].
    rewrite N.shiftl_1_l. apply N.pow_lt_mono_r; lia.
  Qed.

  Lemma econstraints_split x :
    Forall (constr_ok x) (esop_constraints fs cubes) <->
    (forall j, j < nf -> constr_ok x (k_num cubes nf j)) /\
    (forall j, j < nf -> Forall (constr_ok x) (k_cover cubes nf j)) /\
    (forall j f b k, nth_error (value_sites fs) k = Some (j, f, b) ->
       constr_ok x (xor_constr (xvars cubes nf j (Wval b)) (tget (tbl f) b) (nc + nc * nf + nf + k))) /\
    (forall j f b1 b2 k, nth_error (diff_sites fs) k = Some (j, f, b1, b2) ->
       constr_ok x (xor_constr (xvars cubes nf j (Wdiff b1 b2)) (xorb (tget (tbl f) b1) (tget (tbl f) b2))
                               (nc + nc * nf + nf + nvs + k))).
  Proof.
    unfold esop_constraints, esop_xor_constraints.
    rewrite !Forall_app, !Forall_map, Forall_flat_map, !Forall_forall. fold nf. split.
    - intros [H1 [H2 [H3 H4]]]. split; [|split; [|split]].
      + intros j Hj. apply (H1 j). apply in_seq. lia.
      + intros j Hj. apply (H2 j). apply in_seq. lia.
      + intros j f b k Hk. specialize (H3 ((j, f, b), k)). rewrite <- value_vars_eq. apply H3.
        apply In_combine_seq_r. rewrite Nat.sub_0_r. split; [lia|exact Hk].
      + intros j f b1 b2 k Hk. specialize (H4 ((j, f, b1, b2), k)). rewrite <- diff_vars_eq. apply H4.
        apply In_combine_seq_r. rewrite Nat.sub_0_r. split; [lia|exact Hk].
    - intros [H1 [H2 [H3 H4]]]. split; [|split; [|split]].
      + intros j Hj. apply in_seq in Hj. apply H1. lia.
      + intros j Hj. apply in_seq in Hj. apply H2. lia.
      + intros [[[j f] b] k] Hin. apply In_combine_seq_r in Hin. rewrite Nat.sub_0_r in Hin.
        rewrite value_vars_eq. apply H3. tauto.
      + intros [[[[j f] b1] b2] k] Hin. apply In_combine_seq_r in Hin. rewrite Nat.sub_0_r in Hin.
        rewrite diff_vars_eq. apply H4. tauto.
  Qed.

  Lemma ekinds_sound x :
    (forall i k, nth_error (esop_kinds fs cubes) i = Some k -> kind_ok k (x i)) ->
    (forall v, v < nc + nc * nf -> (x v == 0 \/ x v == 1)%Q) /\
    (forall j, j < nf -> (0 <= x (orv cubes nf j))%Q) /\
    (forall k, k < nvs + nds -> exists zk, (x (nc + nc * nf + nf + k)%nat == inject_Z zk)%Q).
  Proof.
    intros H. unfold esop_kinds in H. fold nc nf nvs nds in H. split; [|split].
    - intros v Hv. apply (H v VBinary). rewrite nth_error_app1 by (rewrite repeat_length; exact Hv).
      apply nth_error_repeat. exact Hv.
    - intros j Hj. apply (H (orv cubes nf j) VNonNeg). unfold orv. fold nc.
      rewrite nth_error_app2 by (rewrite repeat_length; lia). rewrite repeat_length.
      rewrite nth_error_app1 by (rewrite repeat_length; lia). apply nth_error_repeat. lia.
    - intros k Hk. apply (H (nc + nc * nf + nf + k) VInteger).
      rewrite nth_error_app2 by (rewrite repeat_length; lia). rewrite repeat_length.
      rewrite nth_error_app2 by (rewrite repeat_length; lia). rewrite repeat_length.
      apply nth_error_repeat. lia.
  Qed.

  Lemma ekinds_enc (z : nat -> Z) :
    (forall v, v < nc + nc * nf -> (inject_Z (z v) == 0 \/ inject_Z (z v) == 1)%Q) ->
    (forall v, nc + nc * nf <= v -> v < nc + nc * nf + nf -> (0 <= inject_Z (z v))%Q) ->
    forall i k, nth_error (esop_kinds fs cubes) i = Some k -> kind_ok k (inject_Z (z i)).
  Proof.
    intros Hb Hn i k H. unfold esop_kinds in H. fold nc nf nvs nds in H.
    apply nth_error_app_inv in H. rewrite repeat_length in H. destruct H as [[L H]|[L H]].
    - apply nth_error_repeat_inv in H. destruct H as [-> _]. apply Hb. exact L.
    - apply nth_error_app_inv in H. rewrite repeat_length in H. destruct H as [[L' H]|[L' H]].
      + apply nth_error_repeat_inv in H. destruct H as [-> _]. apply Hn; [exact L|lia].
      + apply nth_error_repeat_inv in H. destruct H as [-> _]. exists (z i). reflexivity.
  Qed.
End EsopBridge.

(* ------------------------------------------------------------------ D. the programme *)
Definition esop_prog (fs : list lut) (ac xc : Z) (cubes : list cube) : program :=
  mkProgram (esop_kinds fs cubes) (esop_constraints fs cubes) (k_obj cubes (length fs) ac xc).

Definition esop_instance (n : nat) (fs : list lut) (ac xc : Z) : Prop :=
  n <= 31 /\ Forall (fun f => nv f = n) fs /\ esop_num_vars fs = n /\
  (1 <= ac)%Z /\ (1 <= xc)%Z /\ (2 * Z.of_nat n * ac <= i32_max)%Z.

Definition is_all_cubes (n : nat) (cubes : list cube) : Prop :=
  NoDup cubes /\ forall c, In c cubes <-> cube_good n c = true.

Lemma esop_cost_eq ac xc sol : esop_cost ac xc sol = sop_cost ac xc sol.
Proof. reflexivity. Qed.

Lemma eobjective_ok fs ac xc cubes n :
  (forall c, In c cubes -> cube_good n c = true) -> (0 <= ac)%Z -> (2 * Z.of_nat n * ac <= i32_max)%Z ->
  esop_objective fs ac xc cubes = Ok (k_obj cubes (length fs) ac xc).
Proof.
  intros Hg Hac Hb. unfold esop_objective.
  rewrite (mapM_ok_map _ (fun i => (Z2 (gz cubes i * ac), i))).
  - reflexivity.
  - intros i Hi. apply in_seq in Hi. fold (cb cubes i). fold (gz cubes i).
    pose proof (gates_bound n (cb cubes i) (Hg _ (cb_In cubes i ltac:(lia)))) as B. fold (gz cubes i) in B.
    pose proof (gz_nonneg cubes i) as B0.
    rewrite mul_i32_ok; [reflexivity|assumption|assumption|nia].
Qed.

Theorem esop_program_ok n fs ac xc : esop_instance n fs ac xc ->
  exists cubes, esop_program fs ac xc = Ok (esop_prog fs ac xc cubes, cubes) /\ is_all_cubes n cubes.
Proof.
  intros [Hn [Hf [He [Hac [Hxc Hb]]]]]. destruct (cube_all_ok n Hn) as [cubes Hc].
  pose proof (cube_all_good n cubes Hc) as Hall. exists cubes. split; [|exact Hall].
  unfold esop_program. rewrite He, Hc. cbn [bind]. unfold esop_check.
  rewrite (same_vars_ok n fs Hf). cbn [always bind].
  rewrite (proj2 (Z.leb_le 1 ac) Hac), (proj2 (Z.leb_le 1 xc) Hxc). cbn [always bind].
  rewrite (eobjective_ok fs ac xc cubes n); [reflexivity| |lia|exact Hb].
  intros c Hin. apply (proj2 Hall). exact Hin.
Qed.

Lemma esop_program_inv fs ac xc p cubes : esop_program fs ac xc = Ok (p, cubes) ->
  cube_all (N.of_nat (esop_num_vars fs)) = Ok cubes /\ same_vars fs = true /\
  pkinds p = esop_kinds fs cubes /\ pconstrs p = esop_constraints fs cubes.
Proof.
  unfold esop_program. intros H. apply bind_ok in H. destruct H as [cs [Hc H]].
  apply bind_ok in H. destruct H as [u [Hk H]]. apply bind_ok in H. destruct H as [obj [Ho H]].
  inversion H; subst p cubes. clear H.
  unfold esop_check in Hk. apply bind_ok in Hk. destruct Hk as [u1 [Hs _]]. destruct u1. apply always_ok in Hs.
  repeat split; assumption || reflexivity.
Qed.

(* ------------------------------------------------------------------ E. decoding a feasible point *)
Definition esop_decoded (fs : list lut) (cubes : list cube) (x : nat -> Q) : list (list cube) :=
  map (esop_decode_fn fs cubes x) (seq 0 (length fs)).

Lemma esop_decoded_eq fs cubes x : esop_decoded fs cubes x = map (dec cubes (length fs) x) (seq 0 (length fs)).
Proof. reflexivity. Qed.

Theorem esop_decode_sound n fs ac xc cubes x :
  Forall (fun f => nv f = n) fs -> is_all_cubes n cubes -> (0 <= ac)%Z -> (0 <= xc)%Z ->
  feasible (esop_prog fs ac xc cubes) x ->
  esop_solution_ok n (map tbl fs) (esop_decoded fs cubes x) = true /\
  (inject_Z (2 * esop_cost ac xc (esop_decoded fs cubes x)) <= eval2 x (pobj (esop_prog fs ac xc cubes)))%Q.
Proof.
  intros Hn [Hnd Hall] Hac Hxc [Hk Hc]. cbn [esop_prog pkinds pconstrs pobj] in *.
  apply ekinds_sound in Hk. destruct Hk as [Hbin [Hor Hint]].
  apply econstraints_split in Hc. destruct Hc as [Hnum [Hcov [Hval _]]].
  rewrite Forall_forall in Hn. rewrite esop_decoded_eq. split.
  - rewrite esop_solution_ok_gen. apply gen_solution_ok_iff. split; [rewrite map_length, seq_length; reflexivity|].
    intros j f C Hf HC. pose proof (nth_error_lt _ _ _ Hf) as Hj.
    rewrite nth_error_map_seq in HC by exact Hj. inversion HC; subst C. clear HC.
    pose proof (Hn f (nth_error_In _ _ Hf)) as Hnf.
    split; [|split].
    + intros c Hin. apply dec_incl in Hin. apply Hall. exact Hin.
    + apply dec_NoDup. exact Hnd.
    + intros m Hm. rewrite sem_xor_count, <- tget_val.
      assert (Hs : In (j, f, m) (value_sites fs)) by (apply (In_value_sites fs); rewrite Hnf; auto).
      apply In_nth_error in Hs. destruct Hs as [k Hk]. pose proof (nth_error_lt _ _ _ Hk) as Lk.
      apply (xor_sound cubes (length fs) x j (Wval m) (tget (tbl f) m)
                       (length cubes + length cubes * length fs + length fs + k) Hbin).
      * apply Hint. lia.
      * exact Hj.
      * apply (Hval j f m k Hk).
  - rewrite esop_cost_eq. apply obj_sound; assumption.
Qed.

(* ------------------------------------------------------------------ F. encoding a valid solution *)
Definition erest (fs : list lut) (cubes : list cube) (sol : list (list cube)) (v : nat) : Z :=
  let k := v - w_first_int fs cubes in
  if k <? length (value_sites fs) then
    match nth_error (value_sites fs) k with
    | Some (j, f, b) => site_val (nth j sol []) (Wval b) (tget (tbl f) b)
    | None => 0%Z
    end
  else
    match nth_error (diff_sites fs) (k - length (value_sites fs)) with
    | Some (j, f, b1, b2) => site_val (nth j sol []) (Wdiff b1 b2) (xorb (tget (tbl f) b1) (tget (tbl f) b2))
    | None => 0%Z
    end.

Lemma erest_value fs cubes sol k j f b : nth_error (value_sites fs) k = Some (j, f, b) ->
  erest fs cubes sol (length cubes + length cubes * length fs + length fs + k) =
  site_val (nth j sol []) (Wval b) (tget (tbl f) b).
Proof.
  intros H. pose proof (nth_error_lt _ _ _ H) as L. unfold erest. rewrite first_int_eq. cbv zeta.
  replace (length cubes + length cubes * length fs + length fs + k - (length cubes + length cubes * length fs + length fs))
    with k by lia.
  destruct (Nat.ltb_spec k (length (value_sites fs))); [|lia]. rewrite H. reflexivity.
Qed.

Lemma erest_diff fs cubes sol k j f b1 b2 : nth_error (diff_sites fs) k = Some (j, f, b1, b2) ->
  erest fs cubes sol (length cubes + length cubes * length fs + length fs + length (value_sites fs) + k) =
  site_val (nth j sol []) (Wdiff b1 b2) (xorb (tget (tbl f) b1) (tget (tbl f) b2)).
Proof.
  intros H. unfold erest. rewrite first_int_eq. cbv zeta.
  replace (length cubes + length cubes * length fs + length fs + length (value_sites fs) + k -
           (length cubes + length cubes * length fs + length fs)) with (length (value_sites fs) + k) by lia.
  destruct (Nat.ltb_spec (length (value_sites fs) + k) (length (value_sites fs))); [lia|].
  replace (length (value_sites fs) + k - length (value_sites fs)) with k by lia. rewrite H. reflexivity.
Qed.

Theorem esop_encode_complete n fs ac xc cubes sol :
  Forall (fun f => nv f = n) fs -> is_all_cubes n cubes ->
  esop_solution_ok n (map tbl fs) sol = true ->
  exists x, feasible (esop_prog fs ac xc cubes) x /\
            (eval2 x (pobj (esop_prog fs ac xc cubes)) == inject_Z (2 * esop_cost ac xc sol))%Q /\
            forall j, j < length fs -> Permutation (dec cubes (length fs) x j) (nth j sol []).
Proof.
  intros Hn [Hnd Hall] Hok. rewrite esop_solution_ok_gen in Hok. apply gen_solution_ok_iff in Hok.
  destruct Hok as [Hl Hok]. rewrite Forall_forall in Hn.
  assert (Hsol : forall j, j < length fs -> NoDup (nth j sol []) /\ incl (nth j sol []) cubes).
  { intros j Hj. destruct (nth_error fs j) as [f|] eqn:Hf; [|apply nth_error_None in Hf; lia].
    assert (HC : nth_error sol j = Some (nth j sol [])) by (apply nth_error_nth'; lia).
    destruct (Hok j f _ Hf HC) as [Hg [Hd _]]. split; [exact Hd|]. intros c Hin. apply Hall. apply Hg. exact Hin. }
  assert (Hodd : forall j f m, nth_error fs j = Some f -> (m < 2 ^ N.of_nat (nv f))%N ->
                   oddn (length (filter (Wval m) (nth j sol []))) = tget (tbl f) m).
  { intros j f m Hf Hm. pose proof (nth_error_lt _ _ _ Hf) as Hj.
    assert (HC : nth_error sol j = Some (nth j sol [])) by (apply nth_error_nth'; lia).
    destruct (Hok j f _ Hf HC) as [_ [_ Hs]]. rewrite (Hn f (nth_error_In _ _ Hf)) in Hm.
    rewrite tget_val, <- (Hs m Hm), sem_xor_count. reflexivity. }
  set (nf := length fs) in *. set (rest := erest fs cubes sol).
  exists (xq cubes nf sol rest). split; [|split].
  - split; cbn [esop_prog pkinds pconstrs].
    + apply (ekinds_enc fs cubes (xz cubes nf sol rest)).
      * intros v Hv. apply (xq_binary cubes nf sol rest Hl). exact Hv.
      * intros v H1 H2. apply (xq_nonneg cubes nf sol rest Hl); assumption.
    + apply econstraints_split. split; [|split; [|split]].
      * intros j Hj. apply k_num_enc; assumption.
      * intros j Hj. apply k_cover_enc; assumption.
      * intros j f b k Hk. pose proof (nth_error_In _ _ Hk) as Hin. apply (In_value_sites fs) in Hin.
        destruct Hin as [Hf Hb]. pose proof (nth_error_lt _ _ _ Hf) as Hj.
        apply (xor_enc cubes nf (xz cubes nf sol rest) (nth j sol [])).
        -- exact Hj.
        -- intros i Hi. apply xz_cuf; assumption.
        -- apply filter_mem_perm; [exact Hnd|apply (Hsol j Hj)|apply (Hsol j Hj)].
        -- apply Hodd; assumption.
        -- rewrite xz_rest by (assumption || fold nf; lia). exact (erest_value fs cubes sol k j f b Hk).
      * intros j f b1 b2 k Hk. pose proof (nth_error_In _ _ Hk) as Hin. apply (In_diff_sites fs cubes) in Hin.
        destruct Hin as [Hf [Hb1 Hb2]]. pose proof (nth_error_lt _ _ _ Hf) as Hj.
        apply (xor_enc cubes nf (xz cubes nf sol rest) (nth j sol [])).
        -- exact Hj.
        -- intros i Hi. apply xz_cuf; assumption.
        -- apply filter_mem_perm; [exact Hnd|apply (Hsol j Hj)|apply (Hsol j Hj)].
        -- unfold Wdiff. rewrite (odd_diff (fun c => cube_value c b1) (fun c => cube_value c b2)).
           rewrite <- (Hodd j f b1 Hf Hb1), <- (Hodd j f b2 Hf Hb2). reflexivity.
        -- rewrite xz_rest by (assumption || fold nf; lia). exact (erest_diff fs cubes sol k j f b1 b2 Hk).
  - cbn [esop_prog pobj]. fold nf. rewrite (xq_eval cubes nf sol rest). rewrite esop_cost_eq.
    rewrite (obj_enc cubes nf ac xc sol rest Hl Hsol Hnd). reflexivity.
  - intros j Hj. apply dec_xq_perm; assumption.
Qed.

(* ------------------------------------------------------------------ G. the run: what an Ok result is *)
Definition epair (cubes : list cube) (nf : nat) (x : nat -> Q) (jf : nat * lut) : esop :=
  mkEsop (nv (snd jf)) (dec cubes nf x (fst jf)).

Definition esop_final_ok (e : esop) (f : lut) : bool := D_eq (mkLut (env e) (esop_to_lut e)) f.

Lemma esop_run_inv solver fs ac xc r : esop_run solver fs ac xc = Ok r ->
  exists p cubes x, esop_program fs ac xc = Ok (p, cubes) /\ solver p = Some x /\
    r = map (epair cubes (length fs) x) (indexed fs) /\
    forall j f, nth_error fs j = Some f -> esop_final_ok (epair cubes (length fs) x (j, f)) f = true.
Proof.
  unfold esop_run. intros H. apply bind_ok in H. destruct H as [[p cubes] [Hp H]].
  destruct (solver p) as [x|] eqn:Hs; [|discriminate]. exists p, cubes, x. split; [exact Hp|]. split; [exact Hs|].
  apply bind_ok in H. destruct H as [ret [Hret H]]. fold (indexed fs) in Hret.
  apply (mapM_inv_map _ (epair cubes (length fs) x) (fun _ => True)) in Hret.
  2:{ intros [j f] b _ Hb. split; [|exact I]. cbn [fst snd] in Hb. unfold esop_from_cubes in Hb.
      apply bind_ok in Hb. destruct Hb as [u [_ Hb]]. inversion Hb. reflexivity. }
  destruct Hret as [-> _].
  apply (mapM_inv_map _ fst (fun rf : esop * lut => esop_final_ok (fst rf) (snd rf) = true)) in H.
  2:{ intros [e f] b _ Hb. apply bind_ok in Hb. destruct Hb as [u [Hd Hb]]. destruct u.
      apply always_ok in Hd. cbn [fst snd] in Hd, Hb. inversion Hb; subst b. split; [reflexivity|exact Hd]. }
  destruct H as [-> HF]. split.
  - apply map_fst_combine. rewrite map_length. apply indexed_length.
  - intros j f Hf. rewrite Forall_forall in HF.
    apply (HF (epair cubes (length fs) x (j, f), f)).
    apply (combine_nth_In _ _ j); [|exact Hf]. rewrite nth_error_map, (nth_error_indexed fs j f Hf). reflexivity.
Qed.

Lemma efinal_ok_sem cubes nf x j f : esop_final_ok (epair cubes nf x (j, f)) f = true ->
  forall m, (m < 2 ^ N.of_nat (nv f))%N -> sem_xor (dec cubes nf x j) m = val (tbl f) m.
Proof.
  unfold esop_final_ok, epair. cbn [fst snd env]. intros H m Hm. apply D_eq_sem in H. cbn [nv tbl] in H.
  destruct H as [_ H]. rewrite <- H. unfold esop_to_lut. cbn [env].
  rewrite (proj2 (tabulate_sem _ _) m Hm). reflexivity.
Qed.

Lemma efinal_ok_of_sem cubes nf x j f : wf (nv f) (tbl f) ->
  (forall m, (m < 2 ^ N.of_nat (nv f))%N -> sem_xor (dec cubes nf x j) m = val (tbl f) m) ->
  esop_final_ok (epair cubes nf x (j, f)) f = true.
Proof.
  intros W H. unfold esop_final_ok, epair. cbn [fst snd env]. apply D_eq_sem. cbn [nv tbl]. split; [reflexivity|].
  unfold esop_to_lut. cbn [env].
  apply (proj2 (wf_ext (nv f) _ _ (proj1 (tabulate_sem _ _)) W)). intros m Hm.
  rewrite (proj2 (tabulate_sem _ _) m Hm). apply H. exact Hm.
Qed.

Lemma ecubes_epair cubes nf x fs :
  map ecubes (map (epair cubes nf x) (indexed fs)) = map (dec cubes nf x) (seq 0 (length fs)).
Proof.
  rewrite !map_map. rewrite <- map_fst_indexed, map_map. apply map_ext. intros [j f]. reflexivity.
Qed.

Theorem esop_valid solver fs ac xc r : optimize_esop_mip solver fs ac xc = Ok r ->
  forall n, Forall (fun f => nv f = n) fs ->
  esop_solution_ok n (map tbl fs) (map ecubes r) = true /\ Forall2 (fun e f => env e = nv f) r fs.
Proof.
  intros H n Hn. unfold optimize_esop_mip in H.
  apply esop_run_inv in H. destruct H as [p [cubes [x [Hp [_ [-> Hfin]]]]]].
  apply esop_program_inv in Hp. destruct Hp as [Hc [Hsv _]].
  rewrite Forall_forall in Hn. split.
  - rewrite ecubes_epair. rewrite esop_solution_ok_gen. apply gen_solution_ok_iff.
    split; [rewrite map_length, seq_length; reflexivity|].
    intros j f C Hf HC. pose proof (nth_error_lt _ _ _ Hf) as Hj.
    rewrite nth_error_map_seq in HC by exact Hj. inversion HC; subst C. clear HC.
    assert (En : esop_num_vars fs = n).
    { destruct fs as [|f0 l]; [destruct j; discriminate|]. cbn [esop_num_vars]. apply Hn. left. reflexivity. }
    rewrite En in Hc. destruct (cube_all_good n cubes Hc) as [Hnd Hall].
    split; [|split].
    + intros c Hin. apply dec_incl in Hin. apply Hall. exact Hin.
    + apply dec_NoDup. exact Hnd.
    + intros m Hm. apply (efinal_ok_sem _ _ _ _ _ (Hfin j f Hf)). rewrite (Hn f (nth_error_In _ _ Hf)). exact Hm.
  - unfold indexed.
    assert (G : forall s (l : list lut), Forall2 (fun e f => env e = nv f)
                  (map (epair cubes (length fs) x) (combine (seq s (length l)) l)) l).
    { intros s l. revert s. induction l as [|f l IH]; intros s; cbn [length seq combine map]; constructor; [reflexivity|apply IH]. }
    apply G.
Qed.

(* ------------------------------------------------------------------ H. optimality *)
Lemma filter_none {A} (P : A -> bool) l : (forall c, In c l -> P c = false) -> filter P l = [].
Proof.
  induction l as [|a l IH]; intros H; cbn [filter]; [reflexivity|].
  rewrite (H a (or_introl eq_refl)). apply IH. intros c Hc. apply H. right. exact Hc.
Qed.

Lemma filter_unique {A} (P : A -> bool) l a : NoDup l -> In a l -> P a = true ->
  (forall c, In c l -> P c = true -> c = a) -> length (filter P l) = 1.
Proof.
  induction l as [|b l IH]; intros Hnd Hin Pa Hu; [contradiction|]. inversion Hnd; subst. cbn [filter].
  destruct Hin as [->|Hin].
  - rewrite Pa. cbn [length]. f_equal. rewrite filter_none; [reflexivity|].
    intros c Hc. destruct (P c) eqn:E; [|reflexivity]. rewrite (Hu c (or_intror Hc) E) in Hc. contradiction.
  - destruct (P b) eqn:E.
    + rewrite (Hu b (or_introl eq_refl) E) in *. contradiction.
    + apply IH; auto. intros c Hc. apply Hu. right. exact Hc.
Qed.

(* the minterms of the on-set, as a sub-list of the candidates: the feasible set is not empty *)
Definition onset_minterms (n : nat) (fs : list lut) (cubes : list cube) : list (list cube) :=
  map (fun f => filter (fun c => existsb (fun m => val (tbl f) m && cube_eqb c (cube_minterm (N.of_nat n) m)) (dom n))
                       cubes) fs.

Lemma onset_minterms_ok n fs cubes : n <= 31 -> is_all_cubes n cubes ->
  esop_solution_ok n (map tbl fs) (onset_minterms n fs cubes) = true.
Proof.
  intros Hn [Hnd Hall]. rewrite esop_solution_ok_gen. apply gen_solution_ok_iff. unfold onset_minterms.
  split; [apply map_length|]. intros j f C Hf HC. rewrite nth_error_map, Hf in HC. cbn in HC. inversion HC; subst C.
  clear HC. split; [|split].
  - intros c Hin. apply filter_In in Hin. destruct Hin as [Hin _]. apply Hall. exact Hin.
  - apply NoDup_filter. exact Hnd.
  - intros m Hm. rewrite sem_xor_count. set (C := filter _ cubes).
    assert (HC : forall c, In c C <-> exists m', (m' < 2 ^ N.of_nat n)%N /\ val (tbl f) m' = true /\
                                            c = cube_minterm (N.of_nat n) m').
    { intros c. unfold C. rewrite filter_In, existsb_exists. split.
      - intros [_ [m' [Hm' E]]]. apply In_dom in Hm'. apply andb_true_iff in E. destruct E as [E1 E2].
        apply cube_eqb_iff in E2. exists m'. auto.
      - intros [m' [Hm' [Hv ->]]]. split; [apply Hall; apply (minterm_good n m' Hn Hm')|].
        exists m'. split; [apply In_dom; exact Hm'|]. rewrite Hv. apply cube_eqb_iff. reflexivity. }
    destruct (val (tbl f) m) eqn:Hv.
    + rewrite (filter_unique (fun c => cube_value c m) C (cube_minterm (N.of_nat n) m)).
      * reflexivity.
      * apply NoDup_filter. exact Hnd.
      * apply HC. exists m. auto.
      * apply (proj2 (minterm_good n m Hn Hm) m Hm). reflexivity.
      * intros c Hc V. apply HC in Hc. destruct Hc as [m' [Hm' [_ ->]]].
        apply (proj2 (minterm_good n m' Hn Hm') m Hm) in V. subst m'. reflexivity.
    + rewrite filter_none; [reflexivity|]. intros c Hc. apply HC in Hc. destruct Hc as [m' [Hm' [Hv' ->]]].
      destruct (cube_value (cube_minterm (N.of_nat n) m') m) eqn:V; [|reflexivity].
      apply (proj2 (minterm_good n m' Hn Hm') m Hm) in V. subst m'. congruence.
Qed.

Lemma esop_run_ok solver fs ac xc p cubes x :
  esop_program fs ac xc = Ok (p, cubes) -> solver p = Some x ->
  (forall j f, nth_error fs j = Some f ->
     forallb (cube_vars_below (nv f)) (dec cubes (length fs) x j) = true /\
     esop_final_ok (epair cubes (length fs) x (j, f)) f = true) ->
  optimize_esop_mip solver fs ac xc = Ok (map (epair cubes (length fs) x) (indexed fs)).
Proof.
  intros Hp Hs H. unfold optimize_esop_mip, esop_run. rewrite Hp. cbn [bind]. rewrite Hs.
  fold (indexed fs).
  rewrite (mapM_ok_map _ (epair cubes (length fs) x)).
  2:{ intros [j f] Hin. apply In_indexed in Hin. destruct (H j f Hin) as [Hv _]. cbn [fst snd].
      unfold esop_from_cubes. change (esop_decode_fn fs cubes x j) with (dec cubes (length fs) x j).
      rewrite Hv. reflexivity. }
  cbn [bind].
  rewrite (mapM_ok_map _ fst).
  2:{ intros [e f] Hin. apply In_combine_nth in Hin. destruct Hin as [j [H1 H2]].
      rewrite nth_error_map, (nth_error_indexed fs j f H2) in H1. cbn [option_map] in H1.
      assert (E : epair cubes (length fs) x (j, f) = e) by congruence.
      destruct (H j f H2) as [_ Hd]. unfold esop_final_ok in Hd. rewrite E in Hd. cbn [fst snd].
      rewrite Hd. reflexivity. }
  rewrite map_fst_combine by (rewrite map_length; apply indexed_length). reflexivity.
Qed.

Theorem esop_optimal solver n fs ac xc :
  esop_instance n fs ac xc -> Forall (fun f => wf n (tbl f)) fs ->
  exists p cubes, esop_program fs ac xc = Ok (p, cubes) /\
  (solver_optimal_on solver p ->
   exists r, optimize_esop_mip solver fs ac xc = Ok r /\
            esop_solution_ok n (map tbl fs) (map ecubes r) = true /\
            forall sol, esop_solution_ok n (map tbl fs) sol = true ->
                        (esop_cost ac xc (map ecubes r) <= esop_cost ac xc sol)%Z).
Proof.
  intros Hinst Hwf. destruct (esop_program_ok n fs ac xc Hinst) as [cubes [Hp Hall]].
  destruct Hinst as [Hn [Hf [_ [Hac [Hxc Hb]]]]].
  exists (esop_prog fs ac xc cubes), cubes. split; [exact Hp|].
  set (p := esop_prog fs ac xc cubes) in *.
  intros [Hsome Hnone].
  destruct (esop_encode_complete n fs ac xc cubes _ Hf Hall (onset_minterms_ok n fs cubes Hn Hall))
    as [x0 [Hx0 _]].
  destruct (solver p) as [x|] eqn:Hs; [|exfalso; exact (Hnone eq_refl x0 Hx0)].
  destruct (Hsome x eq_refl) as [Hx Hmin].
  destruct (esop_decode_sound n fs ac xc cubes x Hf Hall ltac:(lia) ltac:(lia) Hx) as [Hok Hcost].
  rewrite esop_decoded_eq in Hok, Hcost.
  pose proof Hok as Hok'. rewrite esop_solution_ok_gen in Hok'. apply gen_solution_ok_iff in Hok'.
  destruct Hok' as [_ Hsem]. rewrite Forall_forall in Hf, Hwf.
  eexists. split; [|split].
  - apply (esop_run_ok solver fs ac xc p cubes x Hp Hs). intros j f Hfj.
    pose proof (nth_error_lt _ _ _ Hfj) as Hj. pose proof (Hf f (nth_error_In _ _ Hfj)) as Hnf.
    destruct (Hsem j f _ Hfj (nth_error_map_seq _ _ _ Hj)) as [Hg [_ Hs']]. split.
    + apply forallb_forall. intros c Hin. rewrite Hnf. apply good_vars_below. apply Hg. exact Hin.
    + apply efinal_ok_of_sem.
      * rewrite Hnf. apply Hwf. apply (nth_error_In _ _ Hfj).
      * rewrite Hnf. exact Hs'.
  - rewrite ecubes_epair. exact Hok.
  - intros sol Hsol. rewrite ecubes_epair.
    destruct (esop_encode_complete n fs ac xc cubes sol ltac:(apply Forall_forall; exact Hf) Hall Hsol)
      as [y [Hy [Hobj _]]].
    pose proof (Hmin y Hy) as Hle. fold p in Hcost, Hobj. rewrite Hobj in Hle.
    pose proof (Qle_trans _ _ _ Hcost Hle) as Hfin. rewrite <- Zle_Qle in Hfin. lia.
Qed.

(* ------------------------------------------------------------------ I. final forms *)
Lemma eobjective_inv fs ac xc cubes obj :
  esop_objective fs ac xc cubes = Ok obj -> obj = k_obj cubes (length fs) ac xc.
Proof.
  unfold esop_objective. intros H. apply bind_ok in H. destruct H as [cc [Hcc H]].
  apply (cc_inv cubes ac cc) in Hcc. subst cc. inversion H. reflexivity.
Qed.

Lemma esop_program_shape n fs ac xc p cubes : esop_num_vars fs = n ->
  esop_program fs ac xc = Ok (p, cubes) ->
  p = esop_prog fs ac xc cubes /\ is_all_cubes n cubes /\ (1 <= ac)%Z /\ (1 <= xc)%Z.
Proof.
  intros He H. unfold esop_program in H. rewrite He in H.
  apply bind_ok in H. destruct H as [cs [Hc H]].
  apply bind_ok in H. destruct H as [u [Hk H]]. apply bind_ok in H. destruct H as [obj [Ho H]].
  apply eobjective_inv in Ho. subst obj. inversion H; subst. split; [reflexivity|].
  split; [apply cube_all_good; exact Hc|].
  unfold esop_check in Hk. apply bind_ok in Hk. destruct Hk as [u1 [_ Hk]].
  apply bind_ok in Hk. destruct Hk as [u2 [Ha Hb]]. destruct u2, u. apply always_ok in Ha. apply always_ok in Hb.
  apply Z.leb_le in Ha. apply Z.leb_le in Hb. auto.
Qed.

Lemma nvars_fix n fs : Forall (fun f => nv f = n) fs -> esop_num_vars fs = n \/ fs = [].
Proof. intros H. destruct fs as [|f l]; [right; reflexivity|left]. inversion H; subst. reflexivity. Qed.

Lemma esop_ok_nil n sol : esop_solution_ok n (map tbl []) sol = esop_solution_ok 0 (map tbl []) sol.
Proof. reflexivity. Qed.

Theorem esop_program_ok_final n fs ac xc :
  n <= 31 -> Forall (fun f => nv f = n) fs -> (1 <= ac)%Z -> (1 <= xc)%Z -> (2 * Z.of_nat n * ac <= i32_max)%Z ->
  exists p cubes, esop_program fs ac xc = Ok (p, cubes) /\ NoDup cubes /\
    forall c, In c cubes <-> cube_good (esop_num_vars fs) c = true.
Proof.
  intros H1 H2 H3 H4 H5. destruct (nvars_fix n fs H2) as [He| ->].
  - destruct (esop_program_ok n fs ac xc (conj H1 (conj H2 (conj He (conj H3 (conj H4 H5)))))) as [cubes [Hp Hc]].
    exists (esop_prog fs ac xc cubes), cubes. rewrite He. split; [exact Hp|exact Hc].
  - destruct (esop_program_ok 0 [] ac xc) as [cubes [Hp Hc]].
    { split; [lia|]. split; [constructor|]. split; [reflexivity|]. split; [exact H3|]. split; [exact H4|].
      unfold i32_max. lia. }
    exists (esop_prog [] ac xc cubes), cubes. split; [exact Hp|exact Hc].
Qed.

Theorem esop_decode_sound_final n fs ac xc p cubes x :
  Forall (fun f => nv f = n) fs -> esop_program fs ac xc = Ok (p, cubes) -> feasible p x ->
  let sol := map (esop_decode_fn fs cubes x) (seq 0 (length fs)) in
  esop_solution_ok n (map tbl fs) sol = true /\
  (inject_Z (2 * esop_cost ac xc sol) <= eval2 x (pobj p))%Q.
Proof.
  intros Hn Hp Hx. destruct (nvars_fix n fs Hn) as [He| ->].
  - destruct (esop_program_shape n fs ac xc p cubes He Hp) as [-> [Hc [Ha Hb]]].
    apply (esop_decode_sound n fs ac xc cubes x Hn Hc); [lia|lia|exact Hx].
  - destruct (esop_program_shape 0 [] ac xc p cubes eq_refl Hp) as [-> [Hc [Ha Hb]]].
    cbv zeta. rewrite (esop_ok_nil n).
    apply (esop_decode_sound 0 [] ac xc cubes x (Forall_nil _) Hc); [lia|lia|exact Hx].
Qed.

Theorem esop_encode_complete_final n fs ac xc p cubes sol :
  Forall (fun f => nv f = n) fs -> esop_program fs ac xc = Ok (p, cubes) ->
  esop_solution_ok n (map tbl fs) sol = true ->
  exists x, feasible p x /\ (eval2 x (pobj p) == inject_Z (2 * esop_cost ac xc sol))%Q.
Proof.
  intros Hn Hp Hs. destruct (nvars_fix n fs Hn) as [He| ->].
  - destruct (esop_program_shape n fs ac xc p cubes He Hp) as [-> [Hc _]].
    destruct (esop_encode_complete n fs ac xc cubes sol Hn Hc Hs) as [x [H1 [H2 _]]]. exists x. auto.
  - destruct (esop_program_shape 0 [] ac xc p cubes eq_refl Hp) as [-> [Hc _]].
    rewrite (esop_ok_nil n) in Hs.
    destruct (esop_encode_complete 0 [] ac xc cubes sol (Forall_nil _) Hc Hs) as [x [H1 [H2 _]]]. exists x. auto.
Qed.

Theorem esop_optimal_final solver n fs ac xc :
  n <= 31 -> Forall (fun f => nv f = n /\ wf n (tbl f)) fs -> (1 <= ac)%Z -> (1 <= xc)%Z ->
  (2 * Z.of_nat n * ac <= i32_max)%Z ->
  exists p cubes, esop_program fs ac xc = Ok (p, cubes) /\
  (solver_optimal_on solver p ->
   exists r, optimize_esop_mip solver fs ac xc = Ok r /\
            esop_solution_ok n (map tbl fs) (map ecubes r) = true /\
            forall sol, esop_solution_ok n (map tbl fs) sol = true ->
                        (esop_cost ac xc (map ecubes r) <= esop_cost ac xc sol)%Z).
Proof.
  intros H1 H2 H3 H4 H5.
  assert (Hn : Forall (fun f => nv f = n) fs).
  { apply Forall_forall. rewrite Forall_forall in H2. intros f Hf. apply (H2 f Hf). }
  assert (Hw : Forall (fun f => wf n (tbl f)) fs).
  { apply Forall_forall. rewrite Forall_forall in H2. intros f Hf. apply (H2 f Hf). }
  destruct (nvars_fix n fs Hn) as [He| ->].
  - apply esop_optimal; [|exact Hw]. repeat split; assumption.
  - destruct (esop_optimal solver 0 [] ac xc) as [p [cubes [Hp H]]].
    + split; [lia|]. split; [constructor|]. split; [reflexivity|]. split; [exact H3|]. split; [exact H4|].
      unfold i32_max. lia.
    + constructor.
    + exists p, cubes. split; [exact Hp|]. intros Hs. destruct (H Hs) as [r [Hr [Hok Hmin]]].
      exists r. split; [exact Hr|]. split; [rewrite (esop_ok_nil n); exact Hok|].
      intros sol Hsol. apply Hmin. rewrite <- (esop_ok_nil n). exact Hsol.
Qed.

Lemma esop_solver_nonvacuous n fs ac xc p cubes sol :
  Forall (fun f => nv f = n) fs -> esop_program fs ac xc = Ok (p, cubes) ->
  esop_solution_ok n (map tbl fs) sol = true -> esop_cost ac xc sol = 0%Z ->
  exists solver, solver_optimal_on solver p.
Proof.
  intros Hn Hp Hs Hc. destruct (esop_encode_complete_final n fs ac xc p cubes sol Hn Hp Hs) as [x [Hx Hobj]].
  exists (fun _ => Some x). split; [|discriminate]. intros x' E. inversion E; subst x'. split; [exact Hx|].
  intros y Hy. destruct (esop_decode_sound_final n fs ac xc p cubes y Hn Hp Hy) as [_ Hle].
  assert (Hab : (1 <= ac)%Z /\ (1 <= xc)%Z).
  { destruct (nvars_fix n fs Hn) as [He| ->].
    - destruct (esop_program_shape n fs ac xc p cubes He Hp) as [_ [_ H]]. exact H.
    - destruct (esop_program_shape 0 [] ac xc p cubes eq_refl Hp) as [_ [_ H]]. exact H. }
  rewrite Hobj, Hc. eapply Qle_trans; [|exact Hle]. rewrite <- Zle_Qle.
  pose proof (sop_cost_nonneg ac xc (map (esop_decode_fn fs cubes y) (seq 0 (length fs))) ltac:(lia) ltac:(lia)) as G.
  rewrite <- esop_cost_eq in G. lia.
Qed.
