(* C04, consequences of minimality + the group laws of Proofs/ActGroup.v: canonization is idempotent, and two
   functions have the same representative exactly when they are equivalent (P, N, NPN). *)
From Coq Require Import List NArith Arith Bool Permutation Lia.
From V Require Import Base.Res Model.Kernels Base.Bits Model.Canon Spec.Bfun Spec.Transform
  Proofs.Wf Proofs.Order Proofs.Coverage Proofs.ActGroup Proofs.CanonWalk.
Import ListNotations.
Open Scope N_scope.

(* ------------------------------------------------------------------ the abstract argument *)
Section Orbit.
  Variable n : nat.
  Variable R : (N -> bool) -> (N -> bool) -> Prop.
  Hypothesis Rsym : forall f g, R f g -> R g f.
  Hypothesis Rtrans : forall f g h, R f g -> R g h -> R f h.
  (* K t c: the canonization of t returns the representative c *)
  Variable K : list N -> list N -> Prop.
  Hypothesis Kspec : forall t c, wf n t -> K t c ->
    wf n c /\ R (val t) (val c) /\ forall c', wf n c' -> R (val t) (val c') -> big c <= big c'.

  Lemma orbit_same t1 t2 c1 c2 : wf n t1 -> wf n t2 -> K t1 c1 -> K t2 c2 ->
    (c1 = c2 <-> R (val t1) (val t2)).
  Proof.
    intros H1 H2 K1 K2.
    destruct (Kspec t1 c1 H1 K1) as [Hw1 [Hr1 Hm1]].
    destruct (Kspec t2 c2 H2 K2) as [Hw2 [Hr2 Hm2]].
    split.
    - intros E. subst c2. apply (Rtrans _ (val c1)); [exact Hr1|]. apply Rsym. exact Hr2.
    - intros HR. apply (wf_big_inj n c1 c2 Hw1 Hw2). apply N.le_antisymm.
      + apply Hm1; [exact Hw2|]. apply (Rtrans _ (val t2)); [exact HR|exact Hr2].
      + apply Hm2; [exact Hw1|]. apply (Rtrans _ (val t1)); [apply Rsym; exact HR|exact Hr1].
  Qed.

  Lemma orbit_idem t c c2 : wf n t -> K t c -> K c c2 -> c2 = c.
  Proof.
    intros H1 K1 K2. destruct (Kspec t c H1 K1) as [Hw1 [Hr1 _]].
    apply (proj2 (orbit_same c t c2 c Hw1 H1 K2 K1)). apply Rsym. exact Hr1.
  Qed.
End Orbit.

(* ------------------------------------------------------------------ the three instances *)
Definition Knpn (n : nat) (t c : list N) : Prop := exists perm mask, npn_canonization n t = Ok (c, perm, mask).
Definition Kp (n : nat) (t c : list N) : Prop := exists perm, p_canonization n t = Ok (c, perm).
Definition Kn (n : nat) (t c : list N) : Prop := exists mask, n_canonization n t = Ok (c, mask).

Lemma Knpn_spec n : (n <= 8)%nat -> forall t c, wf n t -> Knpn n t c ->
  wf n c /\ equivNPN n (val t) (val c) /\ forall c', wf n c' -> equivNPN n (val t) (val c') -> big c <= big c'.
Proof.
  intros Hn t c Hwf [perm [mask E]].
  destruct (npn_main n t Hn Hwf) as [c0 [perm0 [mask0 [E0 [Hwc [[Hp [Hm Hv]] Hmin]]]]]].
  rewrite E in E0. injection E0 as <- <- <-.
  split; [exact Hwc|]. split.
  - exists perm, mask. split; [exact Hp|]. split; [exact Hm|]. exact Hv.
  - intros c' Hwc' [p' [m' [Hp' [Hm' Hv']]]]. exact (Hmin p' m' c' Hp' Hm' Hwc' Hv').
Qed.

Lemma Kp_spec n : (n <= 8)%nat -> forall t c, wf n t -> Kp n t c ->
  wf n c /\ equivP n (val t) (val c) /\ forall c', wf n c' -> equivP n (val t) (val c') -> big c <= big c'.
Proof.
  intros Hn t c Hwf [perm E].
  destruct (p_main n t Hn Hwf) as [c0 [perm0 [E0 [Hwc [[Hp [Hm Hv]] Hmin]]]]].
  rewrite E in E0. injection E0 as <- <-.
  split; [exact Hwc|]. split.
  - exists perm. split; [exact Hp|exact Hv].
  - intros c' Hwc' [p' [Hp' Hv']]. exact (Hmin p' c' Hp' Hwc' Hv').
Qed.

Lemma Kn_spec n : (n <= 8)%nat -> forall t c, wf n t -> Kn n t c ->
  wf n c /\ equivN n (val t) (val c) /\ forall c', wf n c' -> equivN n (val t) (val c') -> big c <= big c'.
Proof.
  intros Hn t c Hwf [mask E].
  destruct (n_main n t Hn Hwf) as [c0 [mask0 [E0 [Hwc [[Hp [Hm Hv]] Hmin]]]]].
  rewrite E in E0. injection E0 as <- <-.
  split; [exact Hwc|]. split.
  - exists mask. split; [exact Hm|exact Hv].
  - intros c' Hwc' [m' [Hm' Hv']]. exact (Hmin m' c' Hm' Hwc' Hv').
Qed.

(* ---- idempotence: canonizing the representative returns it unchanged *)
Theorem npn_idempotent : forall n t, (n <= 8)%nat -> wf n t ->
  exists c perm mask perm' mask',
    npn_canonization n t = Ok (c, perm, mask) /\ npn_canonization n c = Ok (c, perm', mask').
Proof.
  intros n t Hn Hwf.
  destruct (npn_main n t Hn Hwf) as [c [perm [mask [E [Hwc _]]]]].
  destruct (npn_main n c Hn Hwc) as [c2 [perm' [mask' [E2 _]]]].
  assert (Ec : c2 = c).
  { apply (orbit_idem n (equivNPN n) (equivNPN_sym n) (equivNPN_trans n) (Knpn n)
             (Knpn_spec n Hn) t c c2 Hwf).
    - exists perm, mask. exact E.
    - exists perm', mask'. exact E2. }
  subst c2. exists c, perm, mask, perm', mask'. split; assumption.
Qed.

Theorem p_idempotent : forall n t, (n <= 8)%nat -> wf n t ->
  exists c perm perm', p_canonization n t = Ok (c, perm) /\ p_canonization n c = Ok (c, perm').
Proof.
  intros n t Hn Hwf.
  destruct (p_main n t Hn Hwf) as [c [perm [E [Hwc _]]]].
  destruct (p_main n c Hn Hwc) as [c2 [perm' [E2 _]]].
  assert (Ec : c2 = c).
  { apply (orbit_idem n (equivP n) (equivP_sym n) (equivP_trans n) (Kp n)
             (Kp_spec n Hn) t c c2 Hwf).
    - exists perm. exact E.
    - exists perm'. exact E2. }
  subst c2. exists c, perm, perm'. split; assumption.
Qed.

Theorem n_idempotent : forall n t, (n <= 8)%nat -> wf n t ->
  exists c mask mask', n_canonization n t = Ok (c, mask) /\ n_canonization n c = Ok (c, mask').
Proof.
  intros n t Hn Hwf.
  destruct (n_main n t Hn Hwf) as [c [mask [E [Hwc _]]]].
  destruct (n_main n c Hn Hwc) as [c2 [mask' [E2 _]]].
  assert (Ec : c2 = c).
  { apply (orbit_idem n (equivN n) (equivN_sym n) (equivN_trans n) (Kn n)
             (Kn_spec n Hn) t c c2 Hwf).
    - exists mask. exact E.
    - exists mask'. exact E2. }
  subst c2. exists c, mask, mask'. split; assumption.
Qed.

(* ---- same representative <-> equivalent *)
Theorem npn_same_rep_iff : forall n t1 t2, (n <= 8)%nat -> wf n t1 -> wf n t2 ->
  exists c1 p1 m1 c2 p2 m2,
    npn_canonization n t1 = Ok (c1, p1, m1) /\ npn_canonization n t2 = Ok (c2, p2, m2) /\
    (c1 = c2 <-> equivNPN n (val t1) (val t2)).
Proof.
  intros n t1 t2 Hn H1 H2.
  destruct (npn_main n t1 Hn H1) as [c1 [p1 [m1 [E1 _]]]].
  destruct (npn_main n t2 Hn H2) as [c2 [p2 [m2 [E2 _]]]].
  exists c1, p1, m1, c2, p2, m2. split; [exact E1|]. split; [exact E2|].
  apply (orbit_same n (equivNPN n) (equivNPN_sym n) (equivNPN_trans n) (Knpn n) (Knpn_spec n Hn) t1 t2 c1 c2 H1 H2).
  - exists p1, m1. exact E1.
  - exists p2, m2. exact E2.
Qed.

Theorem p_same_rep_iff : forall n t1 t2, (n <= 8)%nat -> wf n t1 -> wf n t2 ->
  exists c1 p1 c2 p2,
    p_canonization n t1 = Ok (c1, p1) /\ p_canonization n t2 = Ok (c2, p2) /\
    (c1 = c2 <-> equivP n (val t1) (val t2)).
Proof.
  intros n t1 t2 Hn H1 H2.
  destruct (p_main n t1 Hn H1) as [c1 [p1 [E1 _]]].
  destruct (p_main n t2 Hn H2) as [c2 [p2 [E2 _]]].
  exists c1, p1, c2, p2. split; [exact E1|]. split; [exact E2|].
  apply (orbit_same n (equivP n) (equivP_sym n) (equivP_trans n) (Kp n) (Kp_spec n Hn) t1 t2 c1 c2 H1 H2).
  - exists p1. exact E1.
  - exists p2. exact E2.
Qed.

Theorem n_same_rep_iff : forall n t1 t2, (n <= 8)%nat -> wf n t1 -> wf n t2 ->
  exists c1 m1 c2 m2,
    n_canonization n t1 = Ok (c1, m1) /\ n_canonization n t2 = Ok (c2, m2) /\
    (c1 = c2 <-> equivN n (val t1) (val t2)).
Proof.
  intros n t1 t2 Hn H1 H2.
  destruct (n_main n t1 Hn H1) as [c1 [m1 [E1 _]]].
  destruct (n_main n t2 Hn H2) as [c2 [m2 [E2 _]]].
  exists c1, m1, c2, m2. split; [exact E1|]. split; [exact E2|].
  apply (orbit_same n (equivN n) (equivN_sym n) (equivN_trans n) (Kn n) (Kn_spec n Hn) t1 t2 c1 c2 H1 H2).
  - exists m1. exact E1.
  - exists m2. exact E2.
Qed.
