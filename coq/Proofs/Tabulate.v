(* tset / tabulate: the table built by tabulating a predicate over the 2^n assignments stores that predicate. *)
From Coq Require Import List NArith Arith Bool Lia FinFun.
From V Require Import Base.Res Gen.Tables Model.Kernels Base.Bits Model.TwoLevel Spec.Bfun Proofs.Wf.
Import ListNotations.
Open Scope N_scope.

(* ------------------------------------------------------------------ upd *)
Lemma upd_length {A} (l : list A) i x : length (upd l i x) = length l.
Proof.
  revert i. induction l as [|y l IH]; intros [|i]; simpl; auto.
Qed.

Lemma nthN_upd_same l i x : (i < length l)%nat -> nthN (upd l i x) i = x.
Proof.
  unfold nthN. revert i. induction l as [|y l IH]; intros [|i] H; simpl in *; try lia; auto.
  apply IH. lia.
Qed.

Lemma nthN_upd_other l i x j : j <> i -> nthN (upd l i x) j = nthN l j.
Proof.
  unfold nthN. revert i j. induction l as [|y l IH]; intros [|i] [|j] H; simpl; auto; try congruence.
Qed.

Lemma In_upd {A} (l : list A) i x y : In y (upd l i x) -> y = x \/ In y l.
Proof.
  revert i. induction l as [|z l IH]; intros [|i] H; simpl in *; auto.
  - destruct H as [H|H]; auto.
  - destruct H as [H|H]; auto. destruct (IH _ H); auto.
Qed.

(* ------------------------------------------------------------------ tset *)
Lemma tset_length t m v : length (tset t m v) = length t.
Proof. unfold tset. apply upd_length. Qed.

Lemma shiftr6_div m : N.shiftr m 6 = m / 64.
Proof. rewrite N.shiftr_div_pow2. reflexivity. Qed.

Lemma land63_mod m : N.land m 63 = m mod 64.
Proof. change 63 with (N.ones 6). rewrite N.land_ones. reflexivity. Qed.

Lemma mod64_lt m : m mod 64 < 64.
Proof. apply N.mod_lt. lia. Qed.

Lemma div_mod_64_inj a b : a / 64 = b / 64 -> a mod 64 = b mod 64 -> a = b.
Proof.
  intros H1 H2. rewrite (N.div_mod a 64), (N.div_mod b 64) by lia. rewrite H1, H2. reflexivity.
Qed.

(* the new word written by tset, bit by bit (positions below 64) *)
Lemma tset_word_bit (w q : N) (v : bool) (p : N) : q < 64 -> p < 64 ->
  N.testbit (if v then N.lor w (N.shiftl 1 q) else N.land w (not64 (N.shiftl 1 q))) p
  = if p =? q then v else N.testbit w p.
Proof.
  intros Hq Hp. rewrite N.shiftl_1_l.
  destruct v.
  - rewrite N.lor_spec, N.pow2_bits_eqb. rewrite (N.eqb_sym q p).
    destruct (N.eqb_spec p q); [apply orb_true_r|apply orb_false_r].
  - rewrite N.land_spec, not64_spec_low by exact Hp. rewrite N.pow2_bits_eqb, (N.eqb_sym q p).
    destruct (N.eqb_spec p q); [apply andb_false_r|apply andb_true_r].
Qed.

Lemma val_tset t m v m' : (N.to_nat (m / 64) < length t)%nat ->
  val (tset t m v) m' = if m' =? m then v else val t m'.
Proof.
  intros Hr. unfold val, tset. rewrite shiftr6_div, land63_mod.
  destruct (N.eq_dec (m' / 64) (m / 64)) as [E|E].
  - rewrite E, nthN_upd_same by exact Hr.
    rewrite tset_word_bit by apply mod64_lt.
    destruct (N.eqb_spec (m' mod 64) (m mod 64)) as [E2|E2].
    + rewrite (div_mod_64_inj _ _ E E2), N.eqb_refl. reflexivity.
    + destruct (N.eqb_spec m' m) as [->|_]; [congruence|reflexivity].
  - rewrite nthN_upd_other by lia.
    destruct (N.eqb_spec m' m) as [->|_]; [congruence|reflexivity].
Qed.

Lemma tset_wf n t m v : wf n t -> m < 2 ^ N.of_nat n -> wf n (tset t m v).
Proof.
  intros [Hl Hw] Hm. split; [rewrite tset_length; exact Hl|].
  destruct (assignment_in_range n m Hm) as [_ Hb].
  rewrite Forall_forall in *. intros w Hin. unfold tset in Hin.
  apply In_upd in Hin. destruct Hin as [->|Hin]; [|apply Hw; exact Hin].
  rewrite shiftr6_div, land63_mod.
  assert (Hk : nthN t (N.to_nat (m / 64)) < 2 ^ word_bits n) by (apply (wf_word_lt n t); split; [exact Hl|apply Forall_forall; exact Hw]).
  destruct v.
  - apply lor_lt; [exact Hk|]. rewrite N.shiftl_1_l. apply N.pow_lt_mono_r; [lia|exact Hb].
  - apply land_lt_l. exact Hk.
Qed.

(* ------------------------------------------------------------------ the zero table *)
Lemma nthN_repeat0 k j : nthN (repeat 0 k) j = 0.
Proof.
  unfold nthN. revert j. induction k as [|k IH]; intros [|j]; simpl; auto.
Qed.

Lemma zero_wf n : wf n (repeat 0 (table_size n)).
Proof.
  split; [apply repeat_length|]. apply Forall_forall. intros w Hw. apply repeat_spec in Hw. subst w.
  apply N.neq_0_lt_0, N.pow_nonzero. lia.
Qed.

Lemma zero_val k m : val (repeat 0 k) m = false.
Proof. unfold val. rewrite nthN_repeat0. apply N.bits_0. Qed.

(* ------------------------------------------------------------------ assignments *)
Lemma pow2_nat_N n : N.of_nat (Nat.pow 2 n) = 2 ^ N.of_nat n.
Proof. rewrite Nat2N.inj_pow. reflexivity. Qed.

Lemma In_assignments n m : In m (assignments n) <-> m < 2 ^ N.of_nat n.
Proof.
  unfold assignments. rewrite in_map_iff. rewrite <- pow2_nat_N. split.
  - intros [k [<- Hk]]. apply in_seq in Hk. lia.
  - intros H. exists (N.to_nat m). split; [apply N2Nat.id|]. apply in_seq. lia.
Qed.

Lemma assignments_NoDup n : NoDup (assignments n).
Proof.
  unfold assignments. apply FinFun.Injective_map_NoDup; [|apply seq_NoDup].
  intros a b H. apply Nat2N.inj. exact H.
Qed.

Lemma assignments_length n : length (assignments n) = Nat.pow 2 n.
Proof. unfold assignments. rewrite map_length, seq_length. reflexivity. Qed.

(* ------------------------------------------------------------------ tabulate *)
Definition tab_step (f : N -> bool) (t : list N) (m : N) : list N := if f m then tset t m true else t.

Lemma tab_fold_sem n f l : forall t, wf n t -> (forall m, In m l -> m < 2 ^ N.of_nat n) ->
  wf n (fold_left (tab_step f) l t) /\
  forall m, val (fold_left (tab_step f) l t) m = val t m || (f m && existsb (N.eqb m) l).
Proof.
  induction l as [|a l IH]; intros t Hwf Hl.
  - split; [exact Hwf|]. intros m. cbn [fold_left existsb]. rewrite andb_false_r, orb_false_r. reflexivity.
  - assert (Ha : a < 2 ^ N.of_nat n) by (apply Hl; left; reflexivity).
    assert (Hwf' : wf n (tab_step f t a)).
    { unfold tab_step. destruct (f a); [apply tset_wf; assumption|exact Hwf]. }
    destruct (IH (tab_step f t a) Hwf' (fun m H => Hl m (or_intror H))) as [W V].
    split; [exact W|]. intros m. cbn [fold_left existsb]. rewrite V.
    assert (Hs : val (tab_step f t a) m = val t m || (f m && (m =? a))).
    { unfold tab_step. destruct (f a) eqn:Fa.
      - rewrite val_tset.
        + destruct (N.eqb_spec m a) as [->|_].
          * rewrite Fa. rewrite orb_true_r. reflexivity.
          * rewrite andb_false_r, orb_false_r. reflexivity.
        + rewrite (wf_length n t Hwf). apply (assignment_in_range n a Ha).
      - destruct (N.eqb_spec m a) as [->|_].
        + rewrite Fa. rewrite orb_false_r. reflexivity.
        + rewrite andb_false_r, orb_false_r. reflexivity. }
    rewrite Hs. destruct (val t m), (f m), (m =? a), (existsb (N.eqb m) l); reflexivity.
Qed.

Lemma tabulate_sem : forall n f,
  wf n (tabulate n f) /\ forall m, m < 2 ^ N.of_nat n -> val (tabulate n f) m = f m.
Proof.
  intros n f. unfold tabulate. change (fun t m => if f m then tset t m true else t) with (tab_step f).
  destruct (tab_fold_sem n f (assignments n) (repeat 0 (table_size n)) (zero_wf n)
              (fun m H => proj1 (In_assignments n m) H)) as [W V].
  split; [exact W|]. intros m Hm. rewrite V, zero_val.
  assert (E : existsb (N.eqb m) (assignments n) = true).
  { apply existsb_exists. exists m. split; [apply In_assignments; exact Hm|apply N.eqb_refl]. }
  rewrite E, andb_true_r. reflexivity.
Qed.

(* outside the domain the tabulated table reads false *)
Lemma tabulate_out n f m : 2 ^ N.of_nat n <= m -> val (tabulate n f) m = false.
Proof. intros H. apply (val_out_of_range n); [apply tabulate_sem|exact H]. Qed.
