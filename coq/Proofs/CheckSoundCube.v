(* Soundness of the executable specification-level checkers of Checkers/Check.v for cubes, exclusive cubes and
   printed text (C12, C13, C16): spec_cube_value, spec_ecube_value, spec_sop_value, spec_esop_value, spec_soes_value,
   cube_within, ecube_within, chk_cube_value, chk_cube_and, chk_cube_intersects, chk_cube_implies,
   chk_cube_implies_lut, chk_ecube_value, chk_ecube_xor, chk_ecube_not, chk_soes_or, chk_text, sample_assignments.
   Each checker decides exactly the statement that Properties/C12.v, C13.v, C16.v prove about the model (so a [false]
   is a genuine violation), and the model's own results pass. *)
From Coq Require Import List NArith ZArith Arith Bool Lia Sorted.
From V Require Import Base.Res Gen.Tables Model.Kernels Model.TwoLevel Base.Bits Spec.Bfun Spec.TwoLevelCost
  Spec.Grammar Proofs.Wf Proofs.Tabulate Proofs.CubeProofs Proofs.EcubeProofs Checkers.Check Proofs.CheckSound.
From V Require Proofs.DisplayProofs Proofs.CheckSoundTwoLevel.
Import ListNotations.
Open Scope N_scope.

(* ================================================================== 1. the values read from the literals *)

Lemma In_vars32 v : In v vars32 <-> v < 32.
Proof. unfold vars32. rewrite In_seqN. reflexivity. Qed.

(* the checker's cube value is the literal semantics [sat] of Proofs/CubeProofs.v, for every cube and assignment *)
Lemma spec_cube_value_sat c m : spec_cube_value c m = true <-> sat c m.
Proof.
  unfold spec_cube_value, sat. rewrite forallb_forall. split.
  - intros H v Hv. specialize (H v (proj2 (In_vars32 v) Hv)). apply andb_true_iff in H. destruct H as [A B].
    split; intros E.
    + rewrite E in A. exact A.
    + rewrite E in B. apply negb_true_iff. exact B.
  - intros H v Hv. apply In_vars32 in Hv. destruct (H v Hv) as [A B]. apply andb_true_iff. split.
    + destruct (N.testbit (cpos c) v); [|reflexivity]. rewrite (A eq_refl). reflexivity.
    + destruct (N.testbit (cneg c) v); [|reflexivity]. rewrite (B eq_refl). reflexivity.
Qed.

(* requested with [canon c] and [m < 2^32] as well: neither is needed.  [c32] IS needed: cube_value (mkCube (2^32) 0) 0
   = false (the literal is out of the u32 range) while the reader of the 32 literals says true; see the Example *)
Theorem spec_cube_value_eq c m : c32 c -> spec_cube_value c m = cube_value c m.
Proof. intros Hc. apply bool_eq_iff. rewrite spec_cube_value_sat, (value_sem c m Hc). reflexivity. Qed.

Example spec_cube_value_needs_c32 : spec_cube_value (mkCube (2 ^ 32) 0) 0 = true /\ cube_value (mkCube (2 ^ 32) 0) 0 = false.
Proof. split; vm_compute; reflexivity. Qed.

(* requested with [evars e < 2^32] and [m < 2^32]: neither is needed (both sides read the 32 low bits only) *)
Theorem spec_ecube_value_eq e m : spec_ecube_value e m = ecube_value e m.
Proof.
  unfold spec_ecube_value. rewrite ecube_value_sem.
  rewrite (DisplayProofs.fold_left_xorb (fun v => N.testbit (evars e) v && N.testbit m v)).
  rewrite xorb_comm. apply f_equal2; [|reflexivity]. unfold parity_of, vars32. apply fold_right_map.
Qed.

Theorem spec_sop_value_eq cs m : Forall c32 cs -> spec_sop_value cs m = sem_or cs m.
Proof.
  unfold spec_sop_value, sem_or. induction 1 as [|c cs Hc _ IH]; cbn [existsb]; [reflexivity|].
  rewrite IH, (spec_cube_value_eq c m Hc). reflexivity.
Qed.

Theorem spec_sop_value_model s m : Forall c32 (scubes s) -> spec_sop_value (scubes s) m = sop_value s m.
Proof. intros H. rewrite (spec_sop_value_eq _ m H). apply CheckSoundTwoLevel.sem_or_value. Qed.

Lemma fold_xorb_ext {A} (f g : A -> bool) l : Forall (fun x => f x = g x) l -> forall acc,
  fold_left (fun r c => xorb r (f c)) l acc = fold_left (fun r c => xorb r (g c)) l acc.
Proof.
  induction 1 as [|x l Hx _ IH]; intros acc; cbn [fold_left]; [reflexivity|]. rewrite Hx. apply IH.
Qed.

Theorem spec_esop_value_eq cs m : Forall c32 cs -> spec_esop_value cs m = sem_xor cs m.
Proof.
  intros H. unfold spec_esop_value, sem_xor. apply fold_xorb_ext.
  eapply Forall_impl; [|exact H]. intros c Hc. apply spec_cube_value_eq. exact Hc.
Qed.

Theorem spec_esop_value_model s m : Forall c32 (ecubes s) -> spec_esop_value (ecubes s) m = esop_value s m.
Proof. intros H. rewrite (spec_esop_value_eq _ m H). apply CheckSoundTwoLevel.sem_xor_value. Qed.

Theorem spec_soes_value_eq es m : spec_soes_value es m = sem_soes es m.
Proof.
  unfold spec_soes_value, sem_soes. induction es as [|e es IH]; cbn [existsb]; [reflexivity|].
  rewrite IH, spec_ecube_value_eq. reflexivity.
Qed.

Theorem spec_soes_value_model s m : spec_soes_value (ocubes s) m = soes_value s m.
Proof. rewrite spec_soes_value_eq. symmetry. apply soes_value_sem. Qed.

(* ================================================================== 2. variables below k: the domain 2^k is enough *)

Lemma cube_within_iff k c :
  cube_within k c = true <-> (cpos c < 2 ^ N.of_nat k /\ cneg c < 2 ^ N.of_nat k) \/ c = cube_zero.
Proof. unfold cube_within. rewrite orb_true_iff, andb_true_iff, !N.ltb_lt, cube_eqb_eq. reflexivity. Qed.

Lemma ecube_within_iff k e : ecube_within k e = true <-> evars e < 2 ^ N.of_nat k.
Proof. unfold ecube_within. apply N.ltb_lt. Qed.

Lemma pow2_le32 k : (k <= 32)%nat -> 2 ^ N.of_nat k <= 2 ^ 32.
Proof. intros H. apply N.pow_le_mono_r; lia. Qed.

Lemma within_c32 k c : (k <= 32)%nat -> cube_within k c = true -> c32 c.
Proof.
  intros Hk H. apply cube_within_iff in H. destruct H as [[P Q]| ->]; [|exact c32_zero].
  pose proof (pow2_le32 k Hk). split; lia.
Qed.

Lemma mod_lt_pow2 m k : m mod 2 ^ k < 2 ^ k.
Proof. apply N.mod_lt. apply N.pow_nonzero. lia. Qed.

Lemma sat_restrict k c m : cpos c < 2 ^ k -> cneg c < 2 ^ k -> (sat c (m mod 2 ^ k) <-> sat c m).
Proof.
  intros Hp Hq. unfold sat. split; intros H v Hv; destruct (H v Hv) as [A B]; split; intros E.
  - rewrite <- (N.mod_pow2_bits_low m k v) by exact (CheckSoundTwoLevel.bit_true_below _ _ _ Hp E). apply A, E.
  - rewrite <- (N.mod_pow2_bits_low m k v) by exact (CheckSoundTwoLevel.bit_true_below _ _ _ Hq E). apply B, E.
  - rewrite (N.mod_pow2_bits_low m k v) by exact (CheckSoundTwoLevel.bit_true_below _ _ _ Hp E). apply A, E.
  - rewrite (N.mod_pow2_bits_low m k v) by exact (CheckSoundTwoLevel.bit_true_below _ _ _ Hq E). apply B, E.
Qed.

(* THE restriction lemma: a cube whose variables are below k only reads the k low bits of the assignment *)
Lemma value_restrict k c m : (k <= 32)%nat -> cube_within k c = true ->
  cube_value c (m mod 2 ^ N.of_nat k) = cube_value c m.
Proof.
  intros Hk H. pose proof (within_c32 k c Hk H) as Hc. apply cube_within_iff in H. destruct H as [[P Q]| ->].
  - apply bool_eq_iff. rewrite !(value_sem c _ Hc). apply sat_restrict; assumption.
  - rewrite !value_zero. reflexivity.
Qed.

Lemma ecube_value_restrict k e m : evars e < 2 ^ k -> ecube_value e (m mod 2 ^ k) = ecube_value e m.
Proof.
  intros He. unfold ecube_value. cbv zeta. f_equal. f_equal. f_equal.
  apply N.bits_inj. intro p. rewrite !N.land_spec, !wrap32_spec.
  destruct (N.testbit (evars e) p) eqn:E; [|reflexivity]. cbn [andb].
  rewrite (N.mod_pow2_bits_low m k p) by exact (CheckSoundTwoLevel.bit_true_below _ _ _ He E). reflexivity.
Qed.

Lemma existsb_dom n (p : N -> bool) : existsb p (dom n) = true <-> exists m, m < 2 ^ N.of_nat n /\ p m = true.
Proof.
  rewrite existsb_exists. split; intros [m [A B]]; exists m; (split; [|exact B]); apply dom_In; exact A.
Qed.

Lemma existsb_dom_false n (p : N -> bool) : existsb p (dom n) = false <-> forall m, m < 2 ^ N.of_nat n -> p m = false.
Proof.
  split.
  - intros H m Hm. destruct (p m) eqn:E; [|reflexivity].
    rewrite (proj2 (existsb_dom n p)) in H by (exists m; split; assumption). discriminate.
  - intros H. destruct (existsb p (dom n)) eqn:E; [|reflexivity]. apply existsb_dom in E.
    destruct E as [m [A B]]. rewrite (H m A) in B. discriminate.
Qed.

(* ------------------------------------------------------------------ chk_cube_value *)
Theorem chk_cube_value_iff c m r : c32 c -> (chk_cube_value c m r = true <-> r = cube_value c m).
Proof. intros Hc. unfold chk_cube_value. rewrite eqb_true_iff, (spec_cube_value_eq c m Hc). reflexivity. Qed.

Theorem chk_cube_value_model c m : c32 c -> chk_cube_value c m (cube_value c m) = true.
Proof. intros Hc. apply (chk_cube_value_iff c m _ Hc). reflexivity. Qed.

(* ------------------------------------------------------------------ chk_cube_and *)
Lemma and_eq_zero a b : c32 a -> c32 b -> (forall m, cube_value a m && cube_value b m = false) -> cube_and a b = cube_zero.
Proof.
  intros Ha Hb H. destruct (and_canon a b Ha Hb) as [Cc Hc].
  apply (eq_semantic _ _ Hc c32_zero Cc canon_zero). intros m _.
  rewrite (and_sem a b m Ha Hb), value_zero. apply H.
Qed.

Lemma and_within k a b : (k <= 32)%nat -> cube_within k a = true -> cube_within k b = true ->
  cube_within k (cube_and a b) = true.
Proof.
  intros Hk Wa Wb. pose proof (within_c32 k a Hk Wa) as Ha. pose proof (within_c32 k b Hk Wb) as Hb.
  apply cube_within_iff. apply cube_within_iff in Wa. apply cube_within_iff in Wb.
  destruct Wa as [[Pa Qa]|Za].
  - destruct Wb as [[Pb Qb]|Zb].
    + unfold cube_and, cube_normalize.
      destruct (cube_is_zero (mkCube (N.lor (cpos a) (cpos b)) (N.lor (cneg a) (cneg b)))); [right; reflexivity|].
      left. cbn [cpos cneg]. split; apply lor_lt; assumption.
    + right. apply and_eq_zero; try assumption. intros m. rewrite Zb, value_zero. apply andb_false_r.
  - right. apply and_eq_zero; try assumption. intros m. rewrite Za, value_zero. reflexivity.
Qed.

(* the checker's satisfiability test on the 2^k assignments, lifted to every assignment *)
Lemma both_restrict k a b m : (k <= 32)%nat -> cube_within k a = true -> cube_within k b = true ->
  spec_cube_value a (m mod 2 ^ N.of_nat k) && spec_cube_value b (m mod 2 ^ N.of_nat k) = cube_value a m && cube_value b m.
Proof.
  intros Hk Wa Wb. rewrite !spec_cube_value_eq by (eapply within_c32; eassumption).
  rewrite !value_restrict by assumption. reflexivity.
Qed.

Lemma disjoint_dom k a b : (k <= 32)%nat -> cube_within k a = true -> cube_within k b = true ->
  existsb (fun m => spec_cube_value a m && spec_cube_value b m) (dom k) = false -> cube_and a b = cube_zero.
Proof.
  intros Hk Wa Wb E. apply and_eq_zero; try (eapply within_c32; eassumption).
  intros m. rewrite <- (both_restrict k a b m Hk Wa Wb).
  apply (proj1 (existsb_dom_false k _) E). apply mod_lt_pow2.
Qed.

Theorem chk_cube_and_iff k a b r : (k <= 32)%nat -> cube_within k a = true -> cube_within k b = true ->
  (chk_cube_and k a b r = true <-> r = cube_and a b).
Proof.
  intros Hk Wa Wb. pose proof (within_c32 k a Hk Wa) as Ha. pose proof (within_c32 k b Hk Wb) as Hb.
  destruct (and_canon a b Ha Hb) as [Cc Hc].
  unfold chk_cube_and.
  destruct (existsb (fun m => spec_cube_value a m && spec_cube_value b m) (dom k)) eqn:E.
  - apply existsb_dom in E. destruct E as [m0 [Hm0 V0]].
    rewrite andb_true_iff, forallb_dom_eqb. split.
    + intros [Wr H]. pose proof (within_c32 k r Hk Wr) as Hr.
      assert (Cr : canon r).
      { pose proof (H m0 Hm0) as S. rewrite V0 in S. apply spec_cube_value_sat in S.
        left. apply (sat_disjoint r m0 Hr S). }
      apply (eq_semantic _ _ Hr Hc Cr Cc). intros m _.
      rewrite (and_sem a b m Ha Hb), <- (both_restrict k a b m Hk Wa Wb), <- (value_restrict k r m Hk Wr).
      rewrite <- (spec_cube_value_eq r _ Hr). apply H. apply mod_lt_pow2.
    + intros ->. split; [apply and_within; assumption|]. intros m Hm.
      rewrite !spec_cube_value_eq by assumption. apply and_sem; assumption.
  - rewrite cube_eqb_eq, (disjoint_dom k a b Hk Wa Wb E). reflexivity.
Qed.

(* true on the model's result ... *)
Theorem chk_cube_and_model k a b : (k <= 32)%nat -> cube_within k a = true -> cube_within k b = true ->
  chk_cube_and k a b (cube_and a b) = true.
Proof. intros Hk Wa Wb. apply (chk_cube_and_iff k a b _ Hk Wa Wb). reflexivity. Qed.

(* ... and on nothing else (requested with [canon r] and [c32 r]: they follow from the check) *)
Theorem chk_cube_and_unique k a b r : (k <= 32)%nat -> cube_within k a = true -> cube_within k b = true ->
  chk_cube_and k a b r = true -> r = cube_and a b.
Proof. intros Hk Wa Wb. apply (chk_cube_and_iff k a b r Hk Wa Wb). Qed.

(* ------------------------------------------------------------------ chk_cube_intersects *)
Lemma spec_intersects_eq k a b : (k <= 32)%nat -> cube_within k a = true -> cube_within k b = true ->
  existsb (fun m => spec_cube_value a m && spec_cube_value b m) (dom k) = cube_intersects a b.
Proof.
  intros Hk Wa Wb. pose proof (within_c32 k a Hk Wa) as Ha. pose proof (within_c32 k b Hk Wb) as Hb.
  unfold cube_intersects.
  destruct (existsb (fun m => spec_cube_value a m && spec_cube_value b m) (dom k)) eqn:E.
  - apply existsb_dom in E. destruct E as [m0 [Hm0 V0]]. symmetry. apply negb_true_iff.
    destruct (cube_eqb (cube_and a b) cube_zero) eqn:Z; [|reflexivity]. apply cube_eqb_eq in Z.
    rewrite !spec_cube_value_eq in V0 by assumption. rewrite <- (and_sem a b m0 Ha Hb), Z, value_zero in V0.
    discriminate.
  - rewrite (disjoint_dom k a b Hk Wa Wb E). reflexivity.
Qed.

Theorem chk_cube_intersects_iff k a b r : (k <= 32)%nat -> cube_within k a = true -> cube_within k b = true ->
  (chk_cube_intersects k a b r = true <-> r = cube_intersects a b).
Proof.
  intros Hk Wa Wb. unfold chk_cube_intersects. rewrite eqb_true_iff, (spec_intersects_eq k a b Hk Wa Wb). reflexivity.
Qed.

(* the same in the words of C12_intersects_sem *)
Theorem chk_cube_intersects_sem k a b r : (k <= 32)%nat -> cube_within k a = true -> cube_within k b = true ->
  (chk_cube_intersects k a b r = true <->
   (r = true <-> exists m, m < 2 ^ 32 /\ cube_value a m = true /\ cube_value b m = true)).
Proof.
  intros Hk Wa Wb. pose proof (within_c32 k a Hk Wa) as Ha. pose proof (within_c32 k b Hk Wb) as Hb.
  unfold chk_cube_intersects. rewrite eqb_true_iff.
  assert (X : existsb (fun m => spec_cube_value a m && spec_cube_value b m) (dom k) = true <->
              exists m, m < 2 ^ 32 /\ cube_value a m = true /\ cube_value b m = true).
  { rewrite existsb_dom. split.
    - intros [m [Hm V]]. exists m. rewrite !spec_cube_value_eq in V by assumption. apply andb_true_iff in V.
      split; [|exact V]. pose proof (pow2_le32 k Hk). lia.
    - intros [m [_ [Va Vb]]]. exists (m mod 2 ^ N.of_nat k). split; [apply mod_lt_pow2|].
      rewrite (both_restrict k a b m Hk Wa Wb), Va, Vb. reflexivity. }
  rewrite <- X. split.
  - intros ->. reflexivity.
  - intros H. apply bool_eq_iff. exact H.
Qed.

(* ------------------------------------------------------------------ chk_cube_implies *)
Lemma spec_implies_eq k a b : (k <= 32)%nat -> cube_within k a = true -> cube_within k b = true -> canon a -> canon b ->
  forallb (fun m => implb (spec_cube_value a m) (spec_cube_value b m)) (dom k) = cube_implies a b.
Proof.
  intros Hk Wa Wb Ca Cb. pose proof (within_c32 k a Hk Wa) as Ha. pose proof (within_c32 k b Hk Wb) as Hb.
  apply bool_eq_iff. rewrite forallb_dom, (implies_sem a b Ha Hb Ca Cb). split.
  - intros H m _ V. specialize (H (m mod 2 ^ N.of_nat k) (mod_lt_pow2 _ _)).
    rewrite !spec_cube_value_eq, !value_restrict, V in H by assumption. exact H.
  - intros H m Hm. rewrite !spec_cube_value_eq by assumption.
    destruct (cube_value a m) eqn:V; [|reflexivity]. cbn [implb]. apply H; [|exact V].
    pose proof (pow2_le32 k Hk). lia.
Qed.

Theorem chk_cube_implies_iff k a b r : (k <= 32)%nat -> cube_within k a = true -> cube_within k b = true ->
  canon a -> canon b -> (chk_cube_implies k a b r = true <-> r = cube_implies a b).
Proof.
  intros Hk Wa Wb Ca Cb. unfold chk_cube_implies. rewrite eqb_true_iff, (spec_implies_eq k a b Hk Wa Wb Ca Cb). reflexivity.
Qed.

(* without canonicity the checker still decides the semantic statement of C12_implies_sem *)
Theorem chk_cube_implies_sem k a b r : (k <= 32)%nat -> cube_within k a = true -> cube_within k b = true ->
  (chk_cube_implies k a b r = true <->
   (r = true <-> forall m, m < 2 ^ 32 -> cube_value a m = true -> cube_value b m = true)).
Proof.
  intros Hk Wa Wb. pose proof (within_c32 k a Hk Wa) as Ha. pose proof (within_c32 k b Hk Wb) as Hb.
  unfold chk_cube_implies. rewrite eqb_true_iff.
  assert (X : forallb (fun m => implb (spec_cube_value a m) (spec_cube_value b m)) (dom k) = true <->
              forall m, m < 2 ^ 32 -> cube_value a m = true -> cube_value b m = true).
  { rewrite forallb_dom. split.
    - intros H m _ V. specialize (H (m mod 2 ^ N.of_nat k) (mod_lt_pow2 _ _)).
      rewrite !spec_cube_value_eq, !value_restrict, V in H by assumption. exact H.
    - intros H m Hm. rewrite !spec_cube_value_eq by assumption.
      destruct (cube_value a m) eqn:V; [|reflexivity]. cbn [implb]. apply H; [|exact V].
      pose proof (pow2_le32 k Hk). lia. }
  rewrite <- X. split.
  - intros ->. reflexivity.
  - intros H. apply bool_eq_iff. exact H.
Qed.

(* ------------------------------------------------------------------ chk_cube_implies_lut (requested with wf t and
   n <= 32 and canon c: none is needed) *)
Theorem chk_cube_implies_lut_iff n c t r : c32 c ->
  (chk_cube_implies_lut n c t r = true <-> r = cube_implies_lut c n t).
Proof.
  intros Hc. unfold chk_cube_implies_lut. rewrite eqb_true_iff.
  assert (X : forallb (fun m => implb (spec_cube_value c m) (val t m)) (dom n) = cube_implies_lut c n t).
  { apply bool_eq_iff. rewrite forallb_dom, implies_lut_sem. split.
    - intros H m Hm V. specialize (H m Hm). rewrite (spec_cube_value_eq c m Hc), V in H. exact H.
    - intros H m Hm. rewrite (spec_cube_value_eq c m Hc).
      destruct (cube_value c m) eqn:V; [|reflexivity]. cbn [implb]. apply H; assumption. }
  rewrite X. reflexivity.
Qed.

(* ------------------------------------------------------------------ exclusive cubes *)
Theorem chk_ecube_value_iff e m r : chk_ecube_value e m r = true <-> r = ecube_value e m.
Proof. unfold chk_ecube_value. rewrite eqb_true_iff, spec_ecube_value_eq. reflexivity. Qed.

Theorem chk_ecube_value_model e m : chk_ecube_value e m (ecube_value e m) = true.
Proof. apply chk_ecube_value_iff. reflexivity. Qed.

(* r within k and equal to f on the 2^k assignments, for a function f that reads the k low bits only and is the value
   of an Ecube within k: r is that Ecube *)
Lemma ecube_unique k r x : (k <= 32)%nat -> evars x < 2 ^ N.of_nat k ->
  (ecube_within k r && forallb (fun m => Bool.eqb (spec_ecube_value r m) (ecube_value x m)) (dom k) = true <-> r = x).
Proof.
  intros Hk Hx. pose proof (pow2_le32 k Hk) as L.
  rewrite andb_true_iff, ecube_within_iff, forallb_dom_eqb. split.
  - intros [Hr H]. apply ecube_eq_semantic; [lia|lia|]. intros m _.
    rewrite <- (ecube_value_restrict _ r m Hr), <- (ecube_value_restrict _ x m Hx), <- spec_ecube_value_eq.
    apply H. apply mod_lt_pow2.
  - intros ->. split; [exact Hx|]. intros m _. apply spec_ecube_value_eq.
Qed.

Lemma forallb_ext_dom n (f g : N -> bool) : (forall m, f m = g m) -> forallb f (dom n) = forallb g (dom n).
Proof. intros H. induction (dom n) as [|x l IH]; cbn [forallb]; [reflexivity|]. rewrite H, IH. reflexivity. Qed.

Theorem chk_ecube_xor_iff k a b r : (k <= 32)%nat -> ecube_within k a = true -> ecube_within k b = true ->
  (chk_ecube_xor k a b r = true <-> r = ecube_xor a b).
Proof.
  intros Hk Wa Wb. apply ecube_within_iff in Wa. apply ecube_within_iff in Wb.
  rewrite <- (ecube_unique k r (ecube_xor a b) Hk) by (cbn [ecube_xor evars]; apply lxor_lt; assumption).
  unfold chk_ecube_xor.
  rewrite (forallb_ext_dom k _ (fun m => Bool.eqb (spec_ecube_value r m) (ecube_value (ecube_xor a b) m))); [reflexivity|].
  intros m. rewrite ecube_xor_sem, !spec_ecube_value_eq. reflexivity.
Qed.

Theorem chk_ecube_xor_model k a b : (k <= 32)%nat -> ecube_within k a = true -> ecube_within k b = true ->
  chk_ecube_xor k a b (ecube_xor a b) = true.
Proof. intros Hk Wa Wb. apply (chk_ecube_xor_iff k a b _ Hk Wa Wb). reflexivity. Qed.

Theorem chk_ecube_not_iff k a r : (k <= 32)%nat -> ecube_within k a = true ->
  (chk_ecube_not k a r = true <-> r = ecube_not a).
Proof.
  intros Hk Wa. apply ecube_within_iff in Wa.
  rewrite <- (ecube_unique k r (ecube_not a) Hk) by exact Wa.
  unfold chk_ecube_not.
  rewrite (forallb_ext_dom k _ (fun m => Bool.eqb (spec_ecube_value r m) (ecube_value (ecube_not a) m))); [reflexivity|].
  intros m. rewrite ecube_not_sem, !spec_ecube_value_eq. reflexivity.
Qed.

Theorem chk_ecube_not_model k a : (k <= 32)%nat -> ecube_within k a = true -> chk_ecube_not k a (ecube_not a) = true.
Proof. intros Hk Wa. apply (chk_ecube_not_iff k a _ Hk Wa). reflexivity. Qed.

(* ------------------------------------------------------------------ chk_soes_or *)
Theorem chk_soes_or_iff n a b r :
  chk_soes_or n a b r = true <-> forall m, m < 2 ^ N.of_nat n -> sem_soes r m = sem_soes a m || sem_soes b m.
Proof.
  unfold chk_soes_or. rewrite forallb_dom_eqb. split; intros H m Hm; specialize (H m Hm).
  - rewrite !spec_soes_value_eq in H. exact H.
  - rewrite !spec_soes_value_eq. exact H.
Qed.

Theorem chk_soes_or_value_iff n a b r :
  chk_soes_or n (ocubes a) (ocubes b) (ocubes r) = true <->
  forall m, m < 2 ^ N.of_nat n -> soes_value r m = soes_value a m || soes_value b m.
Proof.
  rewrite chk_soes_or_iff. split; intros H m Hm; specialize (H m Hm).
  - rewrite !soes_value_sem. exact H.
  - rewrite !soes_value_sem in H. exact H.
Qed.

Theorem chk_soes_or_model n a b r : soes_or a b = Ok r -> chk_soes_or n (ocubes a) (ocubes b) (ocubes r) = true.
Proof.
  intros H. destruct (Nat.eq_dec (onv a) (onv b)) as [E|E].
  - destruct (soes_or_sem a b E) as [r' [H' [_ [_ V]]]]. rewrite H in H'. injection H' as <-.
    apply chk_soes_or_value_iff. intros m _. apply V.
  - rewrite (soes_or_mismatch a b E) in H. discriminate.
Qed.

(* ================================================================== 3. printed text *)

(* ---- what chk_text decides *)
Definition indices_ok (ts : list token) (whole : bool) : Prop :=
  if whole then StronglySorted N.lt (lit_indices ts)
  else Forall (fun part => StronglySorted N.lt (lit_indices part)) (split is_sep ts).

Definition text_ok (ts : list token) (f : N -> bool) (ms : list N) (whole : bool) : Prop :=
  (forall m, In m ms -> eval ts m = Some (f m)) /\ indices_ok ts whole.

Lemma indices_okb_iff ts (w : bool) :
  (if w then increasing (lit_indices ts)
   else forallb (fun part => increasing (lit_indices part)) (split is_sep ts)) = true <-> indices_ok ts w.
Proof.
  unfold indices_ok. destruct w.
  - apply CheckSoundTwoLevel.increasing_iff.
  - rewrite forallb_forall, Forall_forall. split; intros H p Hp; apply CheckSoundTwoLevel.increasing_iff, H, Hp.
Qed.

Lemma eval_okb_iff ts f m :
  match eval ts m with Some b => Bool.eqb b (f m) | None => false end = true <-> eval ts m = Some (f m).
Proof.
  destruct (eval ts m) as [b|].
  - rewrite eqb_true_iff. split; [intros ->; reflexivity|intros H; injection H; auto].
  - split; discriminate.
Qed.

Theorem chk_text_iff bytes f ms w :
  chk_text bytes f ms w = true <-> exists ts, lex bytes = Some ts /\ text_ok ts f ms w.
Proof.
  unfold chk_text, text_ok. destruct (lex bytes) as [ts|].
  - rewrite andb_true_iff, forallb_forall, indices_okb_iff. split.
    + intros [A B]. exists ts. split; [reflexivity|]. split; [|exact B].
      intros m Hm. apply eval_okb_iff, A, Hm.
    + intros [ts' [E [A B]]]. injection E as <-. split; [|exact B].
      intros m Hm. apply eval_okb_iff, A, Hm.
  - split; [discriminate|]. intros [ts [E _]]. discriminate.
Qed.

Lemma forallb_false_ex {A} (p : A -> bool) l : forallb p l = false -> exists x, In x l /\ p x = false.
Proof.
  induction l as [|a l IH]; cbn [forallb]; [discriminate|]. intros H. destruct (p a) eqn:E.
  - destruct (IH H) as [x [Hx Px]]. exists x. split; [right; exact Hx|exact Px].
  - exists a. split; [left; reflexivity|exact E].
Qed.

(* what a [false] means: the bytes do not lex, or some listed assignment reads a different value (or none), or the
   indices are not increasing *)
Theorem chk_text_false_iff bytes f ms w :
  chk_text bytes f ms w = false <->
  lex bytes = None \/
  exists ts, lex bytes = Some ts /\ ((exists m, In m ms /\ eval ts m <> Some (f m)) \/ ~ indices_ok ts w).
Proof.
  split.
  - unfold chk_text. destruct (lex bytes) as [ts|]; [|intros _; left; reflexivity].
    intros H. right. exists ts. split; [reflexivity|]. apply andb_false_iff in H. destruct H as [H|H].
    + left. apply forallb_false_ex in H. destruct H as [m [Hm Pm]]. exists m. split; [exact Hm|].
      intros E. apply eval_okb_iff in E. congruence.
    + right. intros O. apply indices_okb_iff in O. congruence.
  - intros H. apply not_true_iff_false. intros T. apply chk_text_iff in T. destruct T as [ts [E [A B]]].
    destruct H as [N|[ts' [E' H]]]; [congruence|]. rewrite E in E'. injection E' as <-.
    destruct H as [[m [Hm Ne]]|Nb]; [exact (Ne (A m Hm))|exact (Nb B)].
Qed.

(* ---- cutting at both separators keeps the indices of every piece increasing *)
Lemma split_nonempty sep ts : split sep ts <> [].
Proof.
  destruct ts as [|t r]; cbn [split]; [discriminate|]. destruct (sep t); [discriminate|].
  destruct (split sep r); discriminate.
Qed.

Lemma lit_indices_cons t r : lit_indices (t :: r) = lit_indices [t] ++ lit_indices r.
Proof. apply (DisplayProofs.lit_indices_app [t] r). Qed.

Lemma lit_indices_split ts : lit_indices ts = flat_map lit_indices (split is_sep ts).
Proof.
  induction ts as [|t r IH]; [reflexivity|]. rewrite lit_indices_cons, IH. cbn [split].
  destruct (is_sep t) eqn:S.
  - cbn [flat_map]. destruct t; try discriminate S; reflexivity.
  - destruct (split is_sep r) as [|p ps] eqn:E; [exfalso; exact (split_nonempty _ _ E)|].
    cbn [flat_map]. rewrite (lit_indices_cons t p), app_assoc. reflexivity.
Qed.

Lemma sorted_app {A} (R : A -> A -> Prop) a : forall b,
  StronglySorted R (a ++ b) -> StronglySorted R a /\ StronglySorted R b.
Proof.
  induction a as [|x a IH]; intros b H; cbn [app] in *; [split; [constructor|exact H]|].
  apply StronglySorted_inv in H. destruct H as [H F]. destruct (IH b H) as [Sa Sb]. split; [|exact Sb].
  constructor; [exact Sa|]. apply Forall_app in F. apply F.
Qed.

Lemma sorted_flat_map {A B} (R : B -> B -> Prop) (g : A -> list B) l :
  StronglySorted R (flat_map g l) -> Forall (fun x => StronglySorted R (g x)) l.
Proof.
  induction l as [|x l IH]; cbn [flat_map]; intros H; [constructor|].
  apply sorted_app in H. destruct H as [Hx Hl]. constructor; [exact Hx|apply IH, Hl].
Qed.

Lemma sorted_parts ts : StronglySorted N.lt (lit_indices ts) -> indices_ok ts false.
Proof. intros H. unfold indices_ok. rewrite lit_indices_split in H. apply sorted_flat_map in H. exact H. Qed.

Lemma split_app_sep_gen a sep b : is_sep sep = true ->
  split is_sep (a ++ sep :: b) = split is_sep a ++ split is_sep b.
Proof.
  intros Hs. induction a as [|t a IH]; cbn [app split].
  - rewrite Hs. reflexivity.
  - rewrite IH. destruct (is_sep t); [reflexivity|].
    destruct (split is_sep a) as [|p ps] eqn:E; [exfalso; exact (split_nonempty _ _ E)|]. reflexivity.
Qed.

Lemma parts_ok_tjoin sep parts : is_sep sep = true ->
  Forall (fun p => StronglySorted N.lt (lit_indices p)) parts -> indices_ok (DisplayProofs.tjoin [sep] parts) false.
Proof.
  intros Hs H. unfold indices_ok. induction H as [|x r Hx Hr IH].
  - cbn. repeat constructor.
  - destruct r as [|y r].
    + cbn [DisplayProofs.tjoin]. apply sorted_parts. exact Hx.
    + rewrite DisplayProofs.tjoin_cons2. cbn [app]. rewrite split_app_sep_gen by exact Hs.
      apply Forall_app. split; [apply sorted_parts; exact Hx|exact IH].
Qed.

(* ---- the five Display functions pass, for EVERY list of assignments (exhaustive [dom k], [sample_assignments], ...) *)
Theorem chk_text_cube c ms w : c32 c -> chk_text (cube_display c) (spec_cube_value c) ms w = true.
Proof.
  intros Hc. apply chk_text_iff. exists (DisplayProofs.tokens_of_cube c).
  split; [apply DisplayProofs.lex_cube_display|]. split.
  - intros m _. rewrite (spec_cube_value_eq c m Hc). apply DisplayProofs.eval_cube; apply Hc.
  - destruct w; [|apply sorted_parts]; apply DisplayProofs.cube_indices_increasing.
Qed.

Theorem chk_text_ecube e ms w : evars e < 2 ^ 32 -> chk_text (ecube_display e) (spec_ecube_value e) ms w = true.
Proof.
  intros He. apply chk_text_iff. exists (DisplayProofs.tokens_of_ecube e).
  split; [apply DisplayProofs.lex_ecube_display|]. split.
  - intros m _. rewrite spec_ecube_value_eq. apply DisplayProofs.eval_ecube. exact He.
  - destruct w; [|apply sorted_parts]; apply DisplayProofs.ecube_indices_increasing.
Qed.

Lemma cube_parts_sorted cs :
  Forall (fun p => StronglySorted N.lt (lit_indices p)) (map DisplayProofs.tokens_of_cube cs).
Proof.
  apply Forall_forall. intros ts Hts. apply in_map_iff in Hts. destruct Hts as [c [<- _]].
  apply DisplayProofs.cube_indices_increasing.
Qed.

Lemma zero_text_ok : indices_ok [TZero] false.
Proof. unfold indices_ok. cbn. repeat constructor. Qed.

Theorem chk_text_sop s ms : Forall c32 (scubes s) ->
  chk_text (sop_display s) (spec_sop_value (scubes s)) ms false = true.
Proof.
  intros H. apply chk_text_iff. exists (DisplayProofs.tokens_of_sop s).
  split; [apply DisplayProofs.lex_sop_display|]. split.
  - intros m _. rewrite (spec_sop_value_model s m H). apply DisplayProofs.eval_sop. exact H.
  - unfold DisplayProofs.tokens_of_sop. destruct (sop_is_zero s); [exact zero_text_ok|].
    apply parts_ok_tjoin; [reflexivity|apply cube_parts_sorted].
Qed.

Theorem chk_text_esop s ms : Forall c32 (ecubes s) ->
  chk_text (esop_display s) (spec_esop_value (ecubes s)) ms false = true.
Proof.
  intros H. apply chk_text_iff. exists (DisplayProofs.tokens_of_esop s).
  split; [apply DisplayProofs.lex_esop_display|]. split.
  - intros m _. rewrite (spec_esop_value_model s m H). apply DisplayProofs.eval_esop. exact H.
  - unfold DisplayProofs.tokens_of_esop. destruct (esop_is_zero s); [exact zero_text_ok|].
    apply parts_ok_tjoin; [reflexivity|apply cube_parts_sorted].
Qed.

Theorem chk_text_soes s ms : Forall (fun e => evars e < 2 ^ 32) (ocubes s) ->
  chk_text (soes_display s) (spec_soes_value (ocubes s)) ms false = true.
Proof.
  intros H. apply chk_text_iff. exists (DisplayProofs.tokens_of_soes s).
  split; [apply DisplayProofs.lex_soes_display|]. split.
  - intros m _. rewrite spec_soes_value_model. apply DisplayProofs.eval_soes. exact H.
  - unfold DisplayProofs.tokens_of_soes. destruct (soes_is_zero s); [exact zero_text_ok|].
    apply parts_ok_tjoin; [reflexivity|].
    apply Forall_forall. intros ts Hts. apply in_map_iff in Hts. destruct Hts as [e [<- _]].
    apply DisplayProofs.ecube_indices_increasing.
Qed.

(* the sample is made of 66 assignments below 2^32 *)
Lemma sample_assignments_lt : Forall (fun m => m < 2 ^ 32) sample_assignments.
Proof.
  apply Forall_forall. intros m Hm.
  assert (B : forallb (fun m => m <? 2 ^ 32) sample_assignments = true) by (vm_compute; reflexivity).
  rewrite forallb_forall in B. apply N.ltb_lt, B, Hm.
Qed.

(* ================================================================== instances *)
(* the hypotheses are satisfiable and the checkers do reject: x0 & x2 & !x1 and x0 & !x3 (the cubes of C12's example);
   a wrong conjunction, a non-canonical zero, a wrong Ecube polarity, and the text "x2x0" (right value, wrong order)
   are all refused *)
Example checkers_nonvacuous :
  let a := mkCube 5 2 in let b := mkCube 1 8 in
  (4 <= 32)%nat /\ cube_within 4 a = true /\ cube_within 4 b = true /\ canon a /\ canon b /\
  chk_cube_and 4 a b (mkCube 5 10) = true /\ chk_cube_and 4 a b (mkCube 5 2) = false /\
  chk_cube_and 4 (mkCube 1 0) (mkCube 0 1) cube_zero = true /\
  chk_cube_and 4 (mkCube 1 0) (mkCube 0 1) (mkCube 1 1) = false /\
  chk_cube_intersects 4 a b true = true /\ chk_cube_implies 4 a b false = true /\
  chk_cube_implies 4 (mkCube 5 10) b true = true /\
  chk_cube_implies_lut 3 (mkCube 3 0) [0xe8] true = true /\ chk_cube_implies_lut 3 (mkCube 1 0) [0xe8] true = false /\
  ecube_within 3 (mkEcube 5 false) = true /\ ecube_within 3 (mkEcube 6 true) = true /\
  chk_ecube_xor 3 (mkEcube 5 false) (mkEcube 6 true) (mkEcube 3 true) = true /\
  chk_ecube_xor 3 (mkEcube 5 false) (mkEcube 6 true) (mkEcube 3 false) = false /\
  chk_ecube_not 3 (mkEcube 5 false) (mkEcube 5 true) = true /\
  chk_soes_or 3 [mkEcube 5 false] [mkEcube 6 true] [mkEcube 5 false; mkEcube 6 true] = true /\
  chk_soes_or 3 [mkEcube 5 false] [mkEcube 6 true] [mkEcube 5 false] = false /\
  chk_text (cube_display a) (spec_cube_value a) sample_assignments false = true /\
  chk_text [120; 50; 120; 48] (spec_cube_value (mkCube 5 0)) (dom 3) false = false /\
  chk_text [120; 48; 120; 50] (spec_cube_value (mkCube 5 0)) (dom 3) false = true /\
  chk_text (soes_display (mkSoes 32 [mkEcube 0x80001001 true; mkEcube 0x1080 false]))
           (spec_soes_value [mkEcube 0x80001001 true; mkEcube 0x1080 false]) sample_assignments false = true.
Proof.
  cbv zeta. split; [lia|]. split; [reflexivity|]. split; [reflexivity|].
  split; [left; reflexivity|]. split; [left; reflexivity|].
  vm_compute. repeat split; reflexivity.
Qed.

