(* C19: Lut::random / LutN::random over an explicit stream of generator outputs.
   fill_random masks every generator word with num_vars_mask; nothing else happens to the bits. *)
From Coq Require Import List NArith Arith Bool Lia.
From V Require Import Base.Res Gen.Tables Model.Kernels Model.Api Base.Bits Spec.Bfun Proofs.Wf Proofs.Order.
Import ListNotations.
Open Scope N_scope.

(* one masked generator word *)
Definition rword (n : nat) (r : N) : N := N.land (wrap64 r) (num_vars_mask n).

(* the part of the stream that is consumed, masked *)
Definition masked (n : nat) (stream : list N) : list N := map (rword n) (firstn (table_size n) stream).

Lemma masked_def n s :
  masked n s = map (fun r => N.land (wrap64 r) (num_vars_mask n)) (firstn (table_size n) s).
Proof. reflexivity. Qed.

Lemma rword_0 n : rword n 0 = 0.
Proof. reflexivity. Qed.

Lemma rword_lt n r : rword n r < 2 ^ word_bits n.
Proof. unfold rword. apply land_lt_r. apply nvmask_lt. Qed.

Lemma rword_testbit n r p : N.testbit (rword n r) p = N.testbit r p && (p <? word_bits n).
Proof.
  unfold rword. rewrite N.land_spec, wrap64_spec, nvmask_testbit.
  pose proof (word_bits_le n) as Hle.
  destruct (N.ltb_spec p (word_bits n)) as [L|L]; [|rewrite !andb_false_r; reflexivity].
  destruct (N.ltb_spec p 64) as [L'|L']; [|lia]. rewrite !andb_true_r. reflexivity.
Qed.

Lemma rword_small n r : r < 2 ^ word_bits n -> rword n r = r.
Proof.
  intros Hr. apply N.bits_inj. intro p. rewrite rword_testbit.
  destruct (N.ltb_spec p (word_bits n)) as [L|L]; [apply andb_true_r|].
  rewrite (testbit_lt_pow2 r (word_bits n) p) by assumption. reflexivity.
Qed.

(* map2 against a dummy list only truncates *)
Lemma map2_repeat {A} (g : N -> A) k : forall s,
  map2 (fun (_ : N) r => g r) (repeat 0 k) s = map g (firstn k s).
Proof.
  induction k as [|k IH]; intros [|x s]; cbn [repeat map2 firstn map]; try reflexivity.
  rewrite IH. reflexivity.
Qed.

Lemma random_tbl n stream : tbl (D_random n stream) = masked n stream.
Proof.
  unfold D_random, fill_random, lut_new, masked. cbn [tbl].
  apply (map2_repeat (rword n)).
Qed.

Lemma masked_length n stream : (table_size n <= length stream)%nat -> length (masked n stream) = table_size n.
Proof. intros H. unfold masked. rewrite map_length, firstn_length. lia. Qed.

Lemma masked_wf n stream : (table_size n <= length stream)%nat -> wf n (masked n stream).
Proof.
  intros H. split; [apply masked_length; exact H|].
  unfold masked. apply Forall_forall. intros x Hx. apply in_map_iff in Hx.
  destruct Hx as [r [<- _]]. apply rword_lt.
Qed.

Lemma nth_firstn {A} (d : A) k : forall i (s : list A), (i < k)%nat -> nth i (firstn k s) d = nth i s d.
Proof.
  induction k as [|k IH]; intros i s Hi; [lia|].
  destruct s as [|x s]; [destruct i; reflexivity|].
  destruct i as [|i]; cbn [firstn nth]; [reflexivity|]. apply IH. lia.
Qed.

Lemma masked_nth n stream i : (i < table_size n)%nat -> nthN (masked n stream) i = rword n (nth i stream 0).
Proof.
  intros Hi. unfold masked. rewrite nthN_map by apply rword_0.
  unfold nthN. rewrite nth_firstn by exact Hi. reflexivity.
Qed.

(* ------------------------------------------------------------------ 1. well-formed *)
Lemma random_wf n stream : (table_size n <= length stream)%nat ->
  wf n (tbl (D_random n stream)) /\ nv (D_random n stream) = n.
Proof.
  intros H. rewrite random_tbl. split; [apply masked_wf; exact H|reflexivity].
Qed.

(* with a short stream the table is short (the Rust loop runs over the table, the model makes the
   stream explicit; nothing is invented) *)
Lemma random_length n stream : length (tbl (D_random n stream)) = Nat.min (table_size n) (length stream).
Proof. rewrite random_tbl. unfold masked. rewrite map_length, firstn_length. reflexivity. Qed.

(* ------------------------------------------------------------------ 2. every table bit is one stream bit *)
Lemma random_bits n stream m : (table_size n <= length stream)%nat -> m < 2 ^ N.of_nat n ->
  val (tbl (D_random n stream)) m = N.testbit (nth (N.to_nat (m / 64)) stream 0) (m mod 64).
Proof.
  intros _ Hm. destruct (assignment_in_range n m Hm) as [Hi Hp].
  rewrite random_tbl. unfold val. rewrite masked_nth by exact Hi. rewrite rword_testbit.
  destruct (N.ltb_spec (m mod 64) (word_bits n)) as [L|L]; [apply andb_true_r|lia].
Qed.

(* the same fact with the stream read as a table *)
Lemma random_val n stream m : m < 2 ^ N.of_nat n -> val (tbl (D_random n stream)) m = val stream m.
Proof.
  intros Hm. destruct (assignment_in_range n m Hm) as [Hi Hp].
  rewrite random_tbl. unfold val. rewrite masked_nth by exact Hi. rewrite rword_testbit.
  destruct (N.ltb_spec (m mod 64) (word_bits n)) as [L|L]; [apply andb_true_r|lia].
Qed.

(* distinct assignments read distinct stream positions *)
Lemma position_inj m1 m2 : m1 / 64 = m2 / 64 -> m1 mod 64 = m2 mod 64 -> m1 = m2.
Proof.
  intros Hd Hr. rewrite (N.div_mod m1 64), (N.div_mod m2 64) by lia. rewrite Hd, Hr. reflexivity.
Qed.

Lemma position_bit_lt m : m mod 64 < 64.
Proof. apply N.mod_lt. lia. Qed.

(* ------------------------------------------------------------------ 3. the mask keeps word_bits n bits, uniformly *)
Lemma split_bounds n w : w < 2 ^ 64 ->
  N.land (wrap64 w) (num_vars_mask n) < 2 ^ word_bits n /\
  N.shiftr w (word_bits n) < 2 ^ (64 - word_bits n).
Proof.
  intros Hw. split; [apply (rword_lt n w)|].
  pose proof (word_bits_le n) as Hle.
  apply lt_pow2_of_bits. intros p Hp. rewrite N.shiftr_spec'.
  apply (testbit_lt_pow2 w 64); [exact Hw|lia].
Qed.

Lemma split_reconstruct n w :
  w = N.land w (num_vars_mask n) + 2 ^ word_bits n * N.shiftr w (word_bits n).
Proof.
  rewrite nvmask_spec, N.land_ones, N.shiftr_div_pow2.
  rewrite N.add_comm. apply N.div_mod. apply N.pow_nonzero. lia.
Qed.

Lemma split_injective n w1 w2 :
  N.land w1 (num_vars_mask n) = N.land w2 (num_vars_mask n) ->
  N.shiftr w1 (word_bits n) = N.shiftr w2 (word_bits n) -> w1 = w2.
Proof.
  intros H1 H2. rewrite (split_reconstruct n w1), (split_reconstruct n w2), H1, H2. reflexivity.
Qed.

Lemma split_surjective n lo hi : lo < 2 ^ word_bits n -> hi < 2 ^ (64 - word_bits n) ->
  lo + 2 ^ word_bits n * hi < 2 ^ 64 /\
  N.land (wrap64 (lo + 2 ^ word_bits n * hi)) (num_vars_mask n) = lo /\
  N.shiftr (lo + 2 ^ word_bits n * hi) (word_bits n) = hi.
Proof.
  intros Hlo Hhi. pose proof (word_bits_le n) as Hle.
  set (k := word_bits n) in *.
  assert (Hk : 2 ^ k <> 0) by (apply N.pow_nonzero; lia).
  assert (H64 : 2 ^ 64 = 2 ^ k * 2 ^ (64 - k)).
  { rewrite <- N.pow_add_r. f_equal. lia. }
  assert (Hlt : lo + 2 ^ k * hi < 2 ^ 64).
  { rewrite H64. set (P := 2 ^ k) in *. set (Q := 2 ^ (64 - k)) in *. nia. }
  split; [exact Hlt|]. split.
  - rewrite wrap64_small by exact Hlt. unfold k. rewrite nvmask_spec, N.land_ones. fold k.
    rewrite (N.mul_comm (2 ^ k) hi), N.mod_add by exact Hk. apply N.mod_small. exact Hlo.
  - rewrite N.shiftr_div_pow2. rewrite (N.mul_comm (2 ^ k) hi), N.div_add by exact Hk.
    rewrite N.div_small by exact Hlo. apply N.add_0_l.
Qed.

(* every well-formed table is produced (feed the table itself as the stream) *)
Lemma map_id_on {A} (f : A -> A) (l : list A) : Forall (fun x => f x = x) l -> map f l = l.
Proof.
  induction l as [|x l IH]; intros H; [reflexivity|].
  inversion H as [|x0 l0 Hx Hl]; subst x0 l0. cbn [map]. rewrite Hx, IH by exact Hl. reflexivity.
Qed.

Lemma masked_wf_id n t : wf n t -> masked n t = t.
Proof.
  intros [Hl Hw]. unfold masked. rewrite <- Hl, firstn_all. apply map_id_on.
  eapply Forall_impl; [|exact Hw]. cbv beta. intros w Hlt. apply rword_small. exact Hlt.
Qed.

Lemma random_reaches n t : wf n t -> D_random n t = mkLut n t.
Proof.
  intros H. pose proof (random_tbl n t) as E. rewrite (masked_wf_id n t H) in E.
  unfold D_random in *. cbn [tbl] in E. rewrite E. reflexivity.
Qed.

(* ------------------------------------------------------------------ 4. non-degeneracy and independence transfer *)
(* two draws are the same function iff the streams agree on the 2^n positions that are read *)
Lemma random_eq_iff n s1 s2 : (table_size n <= length s1)%nat -> (table_size n <= length s2)%nat ->
  (D_random n s1 = D_random n s2 <->
   forall m, m < 2 ^ N.of_nat n ->
     N.testbit (nth (N.to_nat (m / 64)) s1 0) (m mod 64) = N.testbit (nth (N.to_nat (m / 64)) s2 0) (m mod 64)).
Proof.
  intros H1 H2. split.
  - intros E m Hm. rewrite <- (random_bits n s1 m H1 Hm), <- (random_bits n s2 m H2 Hm), E. reflexivity.
  - intros H. unfold D_random. f_equal.
    change (tbl (D_random n s1) = tbl (D_random n s2)).
    apply (wf_ext n); [apply random_wf; exact H1|apply random_wf; exact H2|].
    intros m Hm. rewrite (random_bits n s1 m H1 Hm), (random_bits n s2 m H2 Hm). apply H. exact Hm.
Qed.

(* a value taken by the stream bit of assignment m over the draws is taken by the function value at m *)
Lemma random_value_transfer n ss m (b : bool) :
  Forall (fun s => (table_size n <= length s)%nat) ss -> m < 2 ^ N.of_nat n ->
  ((exists s, In s ss /\ N.testbit (nth (N.to_nat (m / 64)) s 0) (m mod 64) = b) <->
   (exists d, In d (map (D_random n) ss) /\ val (tbl d) m = b)).
Proof.
  intros Hss Hm. rewrite Forall_forall in Hss. split.
  - intros [s [Hin Hb]]. exists (D_random n s). split; [apply in_map; exact Hin|].
    rewrite (random_bits n s m (Hss s Hin) Hm). exact Hb.
  - intros [d [Hin Hb]]. apply in_map_iff in Hin. destruct Hin as [s [<- Hin]].
    exists s. split; [exact Hin|]. rewrite <- (random_bits n s m (Hss s Hin) Hm). exact Hb.
Qed.

Lemma random_nondegenerate n ss m :
  Forall (fun s => (table_size n <= length s)%nat) ss -> m < 2 ^ N.of_nat n ->
  existsb (fun s => N.testbit (nth (N.to_nat (m / 64)) s 0) (m mod 64)) ss = true ->
  existsb (fun s => negb (N.testbit (nth (N.to_nat (m / 64)) s 0) (m mod 64))) ss = true ->
  existsb (fun d => val (tbl d) m) (map (D_random n) ss) = true /\
  existsb (fun d => negb (val (tbl d) m)) (map (D_random n) ss) = true.
Proof.
  intros Hss Hm H1 H0. rewrite existsb_exists in H1, H0. rewrite !existsb_exists.
  destruct H1 as [s1 [I1 B1]]. destruct H0 as [s0 [I0 B0]]. apply negb_true_iff in B0.
  split.
  - destruct (proj1 (random_value_transfer n ss m true Hss Hm)) as [d [Hd Hv]]; [eauto|].
    exists d. split; assumption.
  - destruct (proj1 (random_value_transfer n ss m false Hss Hm)) as [d [Hd Hv]]; [eauto|].
    exists d. split; [exact Hd|]. rewrite Hv. reflexivity.
Qed.

(* pairwise distinct masked streams give pairwise distinct functions *)
Lemma random_distinct n ss : NoDup (map (masked n) ss) -> NoDup (map (D_random n) ss).
Proof.
  induction ss as [|s ss IH]; intros H; cbn [map] in *; [constructor|].
  inversion H as [|x l Hnin Hnd]; subst x l. constructor; [|apply IH; exact Hnd].
  intros Hin. apply Hnin. apply in_map_iff in Hin. destruct Hin as [s' [E Hs']].
  apply in_map_iff. exists s'. split; [|exact Hs'].
  rewrite <- !random_tbl, E. reflexivity.
Qed.

(* in terms of the raw generator output: two long-enough streams that differ at a position that is read *)
Lemma random_distinct_bits n s1 s2 m :
  (table_size n <= length s1)%nat -> (table_size n <= length s2)%nat -> m < 2 ^ N.of_nat n ->
  N.testbit (nth (N.to_nat (m / 64)) s1 0) (m mod 64) <> N.testbit (nth (N.to_nat (m / 64)) s2 0) (m mod 64) ->
  D_random n s1 <> D_random n s2.
Proof.
  intros H1 H2 Hm Hne E. apply Hne. apply (proj1 (random_eq_iff n s1 s2 H1 H2) E). exact Hm.
Qed.
