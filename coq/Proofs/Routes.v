(* Construction routes of the test generators (harness: `mkr_d`, `cof_table`, `transform_table`).
   The generators never hand a table to the operation under test directly: the operand "function of table t" is built
   through one of several routes of the public API, and the operands of a route are built through routes again.
   [route] mirrors those routes, [build r n t] is the model-level execution of route r when asked for the table t of
   n variables, [route_ok r n] says that the parameters drawn by the generator are in range, and [route_sound] proves
   that every route returns exactly the value the plain constructor returns: Ok (mkLut n t). *)
From Coq Require Import List NArith Arith Bool Lia.
From V Require Import Base.Res Gen.Tables Model.Kernels Model.TwoLevel Model.Api Base.Bits
  Spec.Bfun Proofs.Wf Proofs.Positions Proofs.Logic Proofs.Tabulate Proofs.Transforms Proofs.Order
  Proofs.Constructors Proofs.ApiTransforms Proofs.Text Proofs.ConvProofs.
Import ListNotations.
Open Scope N_scope.
Open Scope res_scope.

(* ------------------------------------------------------------------ the routes *)
(* which binary operator recomposes t: r ^ (t ^ r), (t | r) & (t | !r), (t & r) | (t & !r) *)
Inductive binop := BXor | BAnd | BOr.

(* [st] = the type the generator is instantiated at: false = Lut, true = LutN (the model functions that differ between
   the two types are from_blocks, from_cofactors and the direction of the conversion). *)
Inductive route :=
| RPlain (st : bool)                                  (* from_blocks(t) *)
| RNot (s : route)                                    (* any form of !, applied to route(!t) *)
| RHex (st : bool)                                    (* from_hex_string(to_hex_string(plain)).unwrap() *)
| RShannonOf (st : bool) (i : N)                      (* from_cofactors(cofactors(plain, i), i) *)
| RShannon (st : bool) (i : N) (s0 s1 : route)        (* from_cofactors(route(t|x_i=0), route(t|x_i=1), i) *)
| RFlip (i : N) (s : route)                           (* flip(route(t with x_i complemented), i) *)
| RSwap (i j : N) (s : route)                         (* swap(route(t with x_i, x_j exchanged), i, j) *)
| RSwapAdj (i : N) (s : route)                        (* swap_adjacent(route(t with x_i, x_i+1 exchanged), i) *)
| RBin (op : binop) (r : list N) (sa sb : route)      (* op(route(ta), route(tb)) with the random table r *)
| ROther (st : bool)                                  (* the other type and back *)
| RAssign (from_one : bool) (bits : bool)             (* zero/one, then set_value / set_bit, unset_bit for every m *).

(* ------------------------------------------------------------------ the tables the generator computes bit by bit *)
Definition not_table (n : nat) (t : list N) : list N := tabulate n (fun m => negb (val t m)).
(* cof_table(n, t, i, b) *)
Definition cof_table (n : nat) (t : list N) (i : N) (b : bool) : list N :=
  tabulate n (fun m => val t (if b then setbit m i else clearbit m i)).
(* transform_table(n, t, id, 1 << i, false) *)
Definition flip_table (n : nat) (t : list N) (i : N) : list N := tabulate n (fun m => val t (flipbit m i)).
(* transform_table(n, t, id with i and j exchanged, 0, false) *)
Definition swap_table (n : nat) (t : list N) (i j : N) : list N := tabulate n (fun m => val t (swapbits m i j)).
(* the two operands of the binary route *)
Definition bin_left (op : binop) (n : nat) (t r : list N) : list N :=
  match op with
  | BXor => r
  | BAnd => tabulate n (fun m => val t m || val r m)
  | BOr => tabulate n (fun m => val t m && val r m)
  end.
Definition bin_right (op : binop) (n : nat) (t r : list N) : list N :=
  match op with
  | BXor => tabulate n (fun m => xorb (val t m) (val r m))
  | BAnd => tabulate n (fun m => val t m || negb (val r m))
  | BOr => tabulate n (fun m => val t m && negb (val r m))
  end.
Definition D_binop (op : binop) : lut -> lut -> res lut :=
  match op with BXor => D_xor | BAnd => D_and | BOr => D_or end.

(* ------------------------------------------------------------------ execution of a route with the model *)
Definition plain (st : bool) (n : nat) (t : list N) : res lut :=
  if st then S_from_blocks n t else D_from_blocks n t.
Definition from_cofactors (st : bool) : lut -> lut -> N -> res lut :=
  if st then S_from_cofactors else D_from_cofactors.
(* Option::unwrap *)
Definition unwrap {A} (o : option A) : res A := match o with Some a => Ok a | None => PanicAlways end.

(* one iteration of the assignment loop *)
Definition assign_step (bits : bool) (t : list N) (acc : res lut) (m : N) : res lut :=
  let* y := acc in
  if bits then (if val t m then D_set_bit y m else D_unset_bit y m) else D_set_value y m (val t m).

Fixpoint build (r : route) (n : nat) (t : list N) : res lut :=
  match r with
  | RPlain st => plain st n t
  | RNot s => let* y := build s n (not_table n t) in D_not y
  | RHex st =>
      let* y := plain st n t in
      let* o := D_from_hex_string n (D_to_hex_string y) in unwrap o
  | RShannonOf st i =>
      let* y := plain st n t in
      let* (c0, c1) := D_cofactors y i in
      from_cofactors st c0 c1 i
  | RShannon st i s0 s1 =>
      let* c0 := build s0 n (cof_table n t i false) in
      let* c1 := build s1 n (cof_table n t i true) in
      from_cofactors st c0 c1 i
  | RFlip i s => let* y := build s n (flip_table n t i) in D_flip y i
  | RSwap i j s => let* y := build s n (swap_table n t i j) in D_swap y i j
  | RSwapAdj i s => let* y := build s n (swap_table n t i (i + 1)) in D_swap_adjacent y i
  | RBin op r sa sb =>
      let* a := build sa n (bin_left op n t r) in
      let* b := build sb n (bin_right op n t r) in
      D_binop op a b
  | ROther st =>
      let* y := plain st n t in
      if st then (let* d := D_from_static y in let* o := S_try_from n d in unwrap o)
      else (let* o := S_try_from n y in let* s := unwrap o in D_from_static s)
  | RAssign from_one bits =>
      fold_left (assign_step bits t) (assignments n) (if from_one then D_one n else D_zero n)
  end.

(* the parameters drawn by the generator are in range *)
Fixpoint route_ok (r : route) (n : nat) : Prop :=
  match r with
  | RPlain _ | RHex _ | ROther _ | RAssign _ _ => True
  | RNot s => route_ok s n
  | RShannonOf _ i => i < N.of_nat n
  | RShannon _ i s0 s1 => i < N.of_nat n /\ route_ok s0 n /\ route_ok s1 n
  | RFlip i s => i < N.of_nat n /\ route_ok s n
  | RSwap i j s => i < N.of_nat n /\ j < N.of_nat n /\ route_ok s n
  | RSwapAdj i s => i + 1 < N.of_nat n /\ N.of_nat n < 2 ^ 64 /\ route_ok s n
  | RBin _ r sa sb => wf n r /\ route_ok sa n /\ route_ok sb n
  end.

(* ------------------------------------------------------------------ helpers *)
(* a value with the announced size, well-formed, and the wanted function is the wanted value *)
Lemma lut_of_val l n t : nv l = n -> wf (nv l) (tbl l) -> wf n t ->
  (forall m, m < 2 ^ N.of_nat n -> val (tbl l) m = val t m) -> l = mkLut n t.
Proof.
  destruct l as [n' t']. cbn [nv tbl]. intros -> Hl Ht Hv. f_equal.
  apply (wf_ext n t' t Hl Ht). exact Hv.
Qed.

Lemma tab_wf n f : wf n (tabulate n f).
Proof. apply tabulate_sem. Qed.
Lemma tab_val n f m : m < 2 ^ N.of_nat n -> val (tabulate n f) m = f m.
Proof. apply tabulate_sem. Qed.

Lemma flipbit_invol m i : flipbit (flipbit m i) i = m.
Proof. unfold flipbit. rewrite N.lxor_assoc, N.lxor_nilpotent, N.lxor_0_r. reflexivity. Qed.

Lemma setbit_same m i : N.testbit m i = true -> setbit m i = m.
Proof.
  intros H. apply N.bits_inj. intro p. rewrite setbit_testbit.
  destruct (N.eqb_spec i p) as [<-|_]; [rewrite H; reflexivity|apply orb_false_r].
Qed.
Lemma clearbit_same m i : N.testbit m i = false -> clearbit m i = m.
Proof.
  intros H. apply N.bits_inj. intro p. rewrite clearbit_testbit.
  destruct (N.eqb_spec i p) as [<-|_]; [rewrite H; reflexivity|apply andb_true_r].
Qed.

Lemma plain_ok st n t : wf n t -> plain st n t = Ok (mkLut n t).
Proof.
  intros Ht. unfold plain. destruct st.
  - apply S_from_blocks_ok. exact (wf_length n t Ht).
  - apply D_from_blocks_ok. exact (wf_length n t Ht).
Qed.

Lemma from_cofactors_route_sem st c0 c1 ind : lwf c0 -> lwf c1 -> nv c0 = nv c1 -> ind < N.of_nat (nv c0) ->
  exists l, from_cofactors st c0 c1 ind = Ok l /\ nv l = nv c0 /\ lwf l /\
            forall m, m < 2 ^ N.of_nat (nv c0) ->
                      val (tbl l) m = if N.testbit m ind then val (tbl c1) m else val (tbl c0) m.
Proof. destruct st; [apply S_from_cofactors_sem|apply D_from_cofactors_sem]. Qed.

Lemma D_binop_sem op a b : wf (nv a) (tbl a) -> wf (nv b) (tbl b) -> nv a = nv b ->
  exists c, D_binop op a b = Ok c /\ nv c = nv a /\ wf (nv c) (tbl c) /\
            forall m, val (tbl c) m =
                      match op with
                      | BXor => xorb (val (tbl a) m) (val (tbl b) m)
                      | BAnd => val (tbl a) m && val (tbl b) m
                      | BOr => val (tbl a) m || val (tbl b) m
                      end.
Proof. destruct op; [apply D_xor_sem|apply D_and_sem|apply D_or_sem]. Qed.

Lemma bin_left_wf op n t r : wf n r -> wf n (bin_left op n t r).
Proof. intros Hr. destruct op; [exact Hr|apply tab_wf|apply tab_wf]. Qed.
Lemma bin_right_wf op n t r : wf n (bin_right op n t r).
Proof. destruct op; apply tab_wf. Qed.

(* the recomposition identity of each operator, on every assignment of the domain *)
Lemma bin_recompose op n t r m : m < 2 ^ N.of_nat n ->
  match op with
  | BXor => xorb (val (bin_left op n t r) m) (val (bin_right op n t r) m)
  | BAnd => val (bin_left op n t r) m && val (bin_right op n t r) m
  | BOr => val (bin_left op n t r) m || val (bin_right op n t r) m
  end = val t m.
Proof.
  intros Hm. destruct op; cbn [bin_left bin_right]; rewrite ?tab_val by exact Hm;
    destruct (val t m), (val r m); reflexivity.
Qed.

(* ---- the assignment loop: after the assignments of l, the value agrees with t on l and with the start elsewhere *)
Lemma assign_step_eq bits t acc m :
  assign_step bits t acc m = let* y := acc in D_set_value y m (val t m).
Proof. unfold assign_step, D_set_value. destruct bits; reflexivity. Qed.

Lemma assign_fold_sem bits n t l : forall y0,
  nv y0 = n -> wf (nv y0) (tbl y0) -> (forall m, In m l -> m < 2 ^ N.of_nat n) ->
  exists y, fold_left (assign_step bits t) l (Ok y0) = Ok y /\ nv y = n /\ wf (nv y) (tbl y) /\
            forall m, val (tbl y) m = if existsb (N.eqb m) l then val t m else val (tbl y0) m.
Proof.
  induction l as [|a l IH]; intros y0 Hn Hwf Hl.
  - exists y0. cbn [fold_left existsb]. auto.
  - assert (Ha : a < 2 ^ N.of_nat (nv y0)) by (rewrite Hn; apply Hl; left; reflexivity).
    destruct (D_set_value_sem y0 a (val t a) Hwf Ha) as [y1 [E1 [N1 [W1 V1]]]].
    assert (Hn1 : nv y1 = n) by (rewrite N1; exact Hn).
    destruct (IH y1 Hn1 W1 (fun m H => Hl m (or_intror H))) as [y [E [Ny [Wy Vy]]]].
    exists y. split; [|split; [exact Ny|split; [exact Wy|]]].
    + cbn [fold_left]. rewrite assign_step_eq. cbn [bind]. rewrite E1. exact E.
    + intro m. rewrite Vy, V1. cbn [existsb].
      destruct (N.eqb_spec m a) as [->|_]; cbn [orb].
      * destruct (existsb (N.eqb a) l); reflexivity.
      * reflexivity.
Qed.

Lemma assign_sound (from_one bits : bool) n t : wf n t ->
  fold_left (assign_step bits t) (assignments n) (if from_one then D_one n else D_zero n) = Ok (mkLut n t).
Proof.
  intros Ht.
  assert (H0 : exists y0, (if from_one then D_one n else D_zero n) = Ok y0 /\ nv y0 = n /\ wf (nv y0) (tbl y0)).
  { destruct from_one.
    - destruct (one_sem n) as [y0 [E [Hn [W _]]]]. exists y0. rewrite Hn. auto.
    - destruct (zero_sem n) as [y0 [E [Hn [W _]]]]. exists y0. rewrite Hn. auto. }
  destruct H0 as [y0 [E0 [Hn0 W0]]]. rewrite E0.
  destruct (assign_fold_sem bits n t (assignments n) y0 Hn0 W0 (fun m H => proj1 (In_assignments n m) H))
    as [y [E [Ny [Wy Vy]]]].
  rewrite E. f_equal. apply lut_of_val; [exact Ny|exact Wy|exact Ht|].
  intros m Hm. rewrite Vy.
  assert (X : existsb (N.eqb m) (assignments n) = true).
  { apply existsb_exists. exists m. split; [apply In_assignments; exact Hm|apply N.eqb_refl]. }
  rewrite X. reflexivity.
Qed.

(* ------------------------------------------------------------------ every route denotes the table it was asked for *)
Theorem route_sound : forall r n t, wf n t -> route_ok r n -> build r n t = Ok (mkLut n t).
Proof.
  induction r as [st|s IHs|st|st i|st i s0 IH0 s1 IH1|i s IHs|i j s IHs|i s IHs|op r sa IHa sb IHb|st|from_one bits];
    intros n t Ht Hok; cbn [build route_ok] in *.
  - (* plain *) apply plain_ok. exact Ht.
  - (* not *)
    rewrite (IHs n (not_table n t) (tab_wf _ _) Hok). cbn [bind].
    destruct (D_not_sem (mkLut n (not_table n t)) (tab_wf _ _)) as [c [E [Hn [W V]]]].
    rewrite E. f_equal. cbn [nv tbl] in *. apply lut_of_val; [exact Hn|exact W|exact Ht|].
    intros m Hm. rewrite (V m Hm). unfold not_table. rewrite tab_val by exact Hm. apply negb_involutive.
  - (* hex text *)
    rewrite (plain_ok st n t Ht). cbn [bind].
    change (D_to_hex_string (mkLut n t)) with (to_hex n t). rewrite (from_hex_to_hex n t Ht). reflexivity.
  - (* Shannon of the value itself *)
    rewrite (plain_ok st n t Ht). cbn [bind].
    destruct (D_cofactors_sem (mkLut n t) i Ht Hok) as [c0 [c1 [E [N0 [N1 [W0 [W1 [V0 [V1 _]]]]]]]]].
    rewrite E. cbn [bind nv tbl] in *.
    destruct (from_cofactors_route_sem st c0 c1 i W0 W1) as [l [El [Nl [Wl Vl]]]];
      [congruence|rewrite N0; exact Hok|].
    rewrite El. f_equal. rewrite N0 in *. apply lut_of_val; [exact Nl|exact Wl|exact Ht|].
    intros m Hm. rewrite (Vl m Hm), (V0 m Hm), (V1 m Hm).
    destruct (N.testbit m i) eqn:B; [rewrite setbit_same by exact B|rewrite clearbit_same by exact B]; reflexivity.
  - (* Shannon of two route-built cofactors *)
    destruct Hok as [Hi [Hok0 Hok1]].
    rewrite (IH0 n (cof_table n t i false) (tab_wf _ _) Hok0). cbn [bind].
    rewrite (IH1 n (cof_table n t i true) (tab_wf _ _) Hok1). cbn [bind].
    destruct (from_cofactors_route_sem st (mkLut n (cof_table n t i false)) (mkLut n (cof_table n t i true)) i
                (tab_wf _ _) (tab_wf _ _) eq_refl Hi) as [l [El [Nl [Wl Vl]]]].
    rewrite El. f_equal. cbn [nv tbl] in *. apply lut_of_val; [exact Nl|exact Wl|exact Ht|].
    intros m Hm. rewrite (Vl m Hm). unfold cof_table. rewrite !tab_val by exact Hm.
    destruct (N.testbit m i) eqn:B; [rewrite setbit_same by exact B|rewrite clearbit_same by exact B]; reflexivity.
  - (* flip *)
    destruct Hok as [Hi Hoks].
    rewrite (IHs n (flip_table n t i) (tab_wf _ _) Hoks). cbn [bind].
    destruct (D_flip_sem (mkLut n (flip_table n t i)) i (tab_wf _ _) Hi) as [l [El [Nl [Wl Vl]]]].
    rewrite El. f_equal. cbn [nv tbl] in *. apply lut_of_val; [exact Nl|exact Wl|exact Ht|].
    intros m Hm. rewrite (Vl m Hm). unfold flip_table.
    rewrite tab_val by (apply flipbit_lt; assumption). rewrite flipbit_invol. reflexivity.
  - (* swap *)
    destruct Hok as [Hi [Hj Hoks]].
    rewrite (IHs n (swap_table n t i j) (tab_wf _ _) Hoks). cbn [bind].
    destruct (D_swap_sem (mkLut n (swap_table n t i j)) i j (tab_wf _ _) Hi Hj) as [l [El [Nl [Wl Vl]]]].
    rewrite El. f_equal. cbn [nv tbl] in *. apply lut_of_val; [exact Nl|exact Wl|exact Ht|].
    intros m Hm. rewrite (Vl m Hm). unfold swap_table.
    rewrite tab_val by (apply swapbits_lt; assumption). rewrite swapbits_invol. reflexivity.
  - (* swap_adjacent *)
    destruct Hok as [Hi [Hn Hoks]].
    rewrite (IHs n (swap_table n t i (i + 1)) (tab_wf _ _) Hoks). cbn [bind].
    destruct (D_swap_adjacent_sem (mkLut n (swap_table n t i (i + 1))) i Hn (tab_wf _ _) Hi)
      as [l [El [Nl [Wl Vl]]]].
    rewrite El. f_equal. cbn [nv tbl] in *. apply lut_of_val; [exact Nl|exact Wl|exact Ht|].
    intros m Hm. rewrite (Vl m Hm). unfold swap_table.
    rewrite tab_val by (apply swapbits_lt; [lia|exact Hi|exact Hm]). rewrite swapbits_invol. reflexivity.
  - (* binary recomposition *)
    destruct Hok as [Hr [Hoka Hokb]].
    rewrite (IHa n (bin_left op n t r) (bin_left_wf op n t r Hr) Hoka). cbn [bind].
    rewrite (IHb n (bin_right op n t r) (bin_right_wf op n t r) Hokb). cbn [bind].
    destruct (D_binop_sem op (mkLut n (bin_left op n t r)) (mkLut n (bin_right op n t r))
                (bin_left_wf op n t r Hr) (bin_right_wf op n t r) eq_refl) as [c [E [Nc [Wc Vc]]]].
    rewrite E. f_equal. cbn [nv tbl] in *. apply lut_of_val; [exact Nc|exact Wc|exact Ht|].
    intros m Hm. rewrite Vc. pose proof (bin_recompose op n t r m Hm) as R. destruct op; exact R.
  - (* the other type and back *)
    rewrite (plain_ok st n t Ht). cbn [bind]. destruct st.
    + rewrite (to_dyn (mkLut n t) Ht). cbn [bind].
      rewrite (try_from_some n (mkLut n t) eq_refl (wf_length n t Ht)). reflexivity.
    + rewrite (try_from_some n (mkLut n t) eq_refl (wf_length n t Ht)). cbn [bind unwrap].
      apply (to_dyn (mkLut n t) Ht).
  - (* assignment by assignment *)
    apply assign_sound. exact Ht.
Qed.

(* ------------------------------------------------------------------ non-vacuity *)
(* a chain of depth 2 below the top (three calls: recomposition of a complement and of a flipped, text-parsed
   operand) on 3-input majority, and a route using every constructor *)
Example route_example :
  let r := RShannon false 1 (RNot (RFlip 2 (RPlain false))) (RBin BAnd [0x5a] (RHex false) (RSwap 0 2 (RPlain false))) in
  let r_all :=
    RShannon true 2
      (RBin BXor [0xc5] (RNot (RSwapAdj 1 (RAssign true true)))
                        (RBin BOr [0x3c] (RShannonOf false 0) (ROther true)))
      (RFlip 1 (RSwap 0 2 (RBin BAnd [0x99] (RHex true) (RAssign false false)))) in
  wf 3 [0xe8] /\ route_ok r 3 /\ build r 3 [0xe8] = Ok (mkLut 3 [0xe8]) /\
  route_ok r_all 3 /\ build r_all 3 [0xe8] = Ok (mkLut 3 [0xe8]) /\
  (* the operands really are other tables: the cofactor of majority, its complement, the flipped complement *)
  cof_table 3 [0xe8] 1 false = [0xa0] /\ not_table 3 [0xa0] = [0x5f] /\ flip_table 3 [0x5f] 2 = [0xf5].
Proof.
  cbv zeta. split; [apply wfb_wf; vm_compute; reflexivity|].
  split; [cbn [route_ok]; repeat split; try (apply wfb_wf; vm_compute; reflexivity); lia|].
  split; [vm_compute; reflexivity|].
  split; [cbn [route_ok]; repeat split; try (apply wfb_wf; vm_compute; reflexivity); lia|].
  repeat split; vm_compute; reflexivity.
Qed.
