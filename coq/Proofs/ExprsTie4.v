(* Ties between the whole function bodies of src/sop/sop.rs, src/sop/esop.rs, src/sop/soes.rs (and of the functions of
   src/sop/cube.rs, src/sop/ecube.rs that Gen/Exprs2.v leaves) translated from the Rust source text on every run
   (Gen/Exprs4.v, produced by part 4 of gen/gen_exprs.py) and the hand-written model Model/TwoLevel.v.

   Every lemma has the shape  <model function> = <gx_...>  (or, where the Rust function asserts,
   <model function> = (always (gx_..._asserts ..) ;; Ok (gx_... ..))).  The constructors, counters, value functions,
   xor / or concatenations and the Display functions are ties by conversion.  The model is phrased differently - and the
   tie is an extensional proof - for
     - the loops that push into a vector (the model uses filter / map / flat_map, the generated code a fold_left with
       `++ [x]`): Sop::simplify, Sop::and, `!&Sop`, From<&Lut> for Sop;
     - the loops over a record (`ret.cubes.push(..)`, `ret.set_bit(..)`: the model folds over the field only);
     - `lo..hi` ranges (range4) against [assignments] and the shifted [seq] of the Esop sweep;
     - pos_vars / neg_vars / vars (`(x >> v & 1) != 0` against N.testbit);
     - Cube::all / Ecube::all (the iterator chain goes through pairs, the model builds the cubes directly);
     - Esop::is_one, whose `panic!()` arm is a parameter: the tie holds for every value of it (the arm is dead);
     - From<&Lut> for Esop: two loop variables (a pair state) against the (table, reversed cubes) state of the model;
     - `!&Sop`: the model threads the assertion of Sop::and through the loop, the tie shows it never fires.
   What is NOT tied is listed in the trailer of Gen/Exprs4.v (NOT_TIED4). *)
From Coq Require Import List NArith Arith Bool Lia.
From V Require Import Base.Res Gen.Tables Model.Kernels Base.Bits Model.TwoLevel Model.Api Gen.Exprs2 Gen.Exprs4.
From V Require Import Proofs.ExprsTie2.
Import ListNotations.
Open Scope N_scope.
Open Scope res_scope.

(* ------------------------------------------------------------------ helpers: lists *)
Lemma fold_left_ext4 {A B} (f g : A -> B -> A) :
  (forall a b, f a b = g a b) -> forall l a, fold_left f l a = fold_left g l a.
Proof. intros H l. induction l as [|x l IH]; intros a; cbn [fold_left]; [reflexivity|]. rewrite H. apply IH. Qed.

Lemma forallb_ext4 {A} (f g : A -> bool) : (forall a, f a = g a) -> forall l, forallb f l = forallb g l.
Proof. intros H l. induction l as [|x l IH]; cbn [forallb]; [reflexivity|]. rewrite H, IH. reflexivity. Qed.

(* `for x in l { v.push(f(x)); }` *)
Lemma fold_push_map {A B} (f : A -> B) l acc :
  fold_left (fun v x => v ++ [f x]) l acc = acc ++ map f l.
Proof.
  revert acc. induction l as [|x l IH]; intros acc; cbn [fold_left map].
  - symmetry. apply app_nil_r.
  - rewrite IH, <- app_assoc. reflexivity.
Qed.

(* `for x in l { if p(x) { v.push(f(x)); } }` *)
Lemma fold_push_filter_map {A B} (p : A -> bool) (f : A -> B) l acc :
  fold_left (fun v x => if p x then v ++ [f x] else v) l acc = acc ++ map f (filter p l).
Proof.
  revert acc. induction l as [|x l IH]; intros acc; cbn [fold_left filter].
  - symmetry. apply app_nil_r.
  - rewrite IH. destruct (p x); cbn [map]; [rewrite <- app_assoc|]; reflexivity.
Qed.

Lemma fold_push_filter {A} (p : A -> bool) l acc :
  fold_left (fun v x => if p x then v ++ [x] else v) l acc = acc ++ filter p l.
Proof. rewrite (fold_push_filter_map p (fun x => x)), map_id. reflexivity. Qed.

(* the two nested loops of Sop::and *)
Lemma fold_push_product {A B C} (g : A -> B -> C) (t : C -> bool) l1 l2 acc :
  fold_left (fun v x => fold_left (fun v y => let c := g x y in if negb (t c) then v ++ [c] else v) l2 v) l1 acc =
  acc ++ flat_map (fun x => flat_map (fun y => let c := g x y in if t c then [] else [c]) l2) l1.
Proof.
  assert (Hin : forall x l acc,
             fold_left (fun v y => let c := g x y in if negb (t c) then v ++ [c] else v) l acc =
             acc ++ flat_map (fun y => let c := g x y in if t c then [] else [c]) l).
  { intros x l. induction l as [|y l IH]; intros a; cbn [fold_left flat_map].
    - symmetry. apply app_nil_r.
    - rewrite IH. cbv zeta. destruct (t (g x y)); cbn [negb app].
      + reflexivity.
      + rewrite <- app_assoc. reflexivity. }
  revert acc. induction l1 as [|x l1 IH]; intros acc; cbn [fold_left flat_map].
  - symmetry. apply app_nil_r.
  - rewrite Hin, IH, <- app_assoc. reflexivity.
Qed.

(* two loops in step, related states *)
Lemma fold_left_rel {A B C} (R : A -> B -> Prop) (f : A -> C -> A) (g : B -> C -> B) l :
  (forall a b x, In x l -> R a b -> R (f a x) (g b x)) -> forall a b, R a b -> R (fold_left f l a) (fold_left g l b).
Proof.
  induction l as [|x l IH]; intros H a b Hab; cbn [fold_left]; [exact Hab|].
  apply IH.
  - intros a' b' y Hy. apply H. right. exact Hy.
  - apply H; [left; reflexivity | exact Hab].
Qed.

Lemma seq_add a k : seq a k = map (fun d => (a + d)%nat) (seq 0 k).
Proof.
  revert a. induction k as [|k IH]; intros a; [reflexivity|].
  cbn [seq map]. rewrite Nat.add_0_r. f_equal.
  rewrite (IH (S a)), <- seq_shift, map_map. apply map_ext. intros d. lia.
Qed.

(* ------------------------------------------------------------------ helpers: ranges and bits *)
Lemma to_nat_num_bits n t : N.to_nat (num_bits (mkLut n t)) = Nat.pow 2 n.
Proof. unfold num_bits. cbn [nv]. rewrite <- of_nat_pow2. apply Nat2N.id. Qed.

(* 0..lut.num_bits() *)
Lemma range4_assignments n t : range4 0 (num_bits (mkLut n t)) = assignments n.
Proof.
  unfold range4, assignments. rewrite to_nat_num_bits. change (N.to_nat 0) with 0%nat.
  rewrite Nat.sub_0_r. reflexivity.
Qed.

(* (i + 1)..lut.num_bits() *)
Lemma range4_after n t i :
  range4 (i + 1) (num_bits (mkLut n t)) =
  map (fun d => i + 1 + N.of_nat d) (seq 0 (Nat.pow 2 n - 1 - N.to_nat i)).
Proof.
  unfold range4. rewrite to_nat_num_bits, seq_add, map_map.
  assert (Hi : N.to_nat (i + 1) = S (N.to_nat i)) by (rewrite N.add_1_r; apply N2Nat.inj_succ).
  rewrite Hi. generalize (Nat.pow 2 n). intros k.
  replace (k - S (N.to_nat i))%nat with (k - 1 - N.to_nat i)%nat by lia.
  apply map_ext. intros d.
  change (S (N.to_nat i) + d)%nat with (S (N.to_nat i + d)). rewrite Nat2N.inj_succ, Nat2N.inj_add, N2Nat.id. lia.
Qed.

(* 0..mx *)
Lemma range4_from_0 mx : range4 0 mx = map N.of_nat (seq 0 (N.to_nat mx)).
Proof. unfold range4. change (N.to_nat 0) with 0%nat. rewrite Nat.sub_0_r. reflexivity. Qed.

Lemma map_flat_map4 {A B C} (f : B -> C) (g : A -> list B) l :
  map f (flat_map g l) = flat_map (fun x => map f (g x)) l.
Proof. induction l as [|x l IH]; cbn [flat_map map]; [reflexivity|]. rewrite map_app, IH. reflexivity. Qed.

Lemma range4_0_32 : range4 0 32 = map N.of_nat (seq 0 32).
Proof. reflexivity. Qed.

(* `(x >> v & 1) != 0` *)
Lemma shifted_bit x v : negb (N.land (N.shiftr x v) 1 =? 0) = N.testbit x v.
Proof.
  change 1 with (N.ones 1). rewrite N.land_ones. change (2 ^ 1) with 2.
  rewrite N.testbit_odd, <- N.bit0_odd, N.bit0_eqb.
  set (y := N.shiftr x v mod 2).
  assert (Hb : y < 2) by (apply N.mod_upper_bound; discriminate).
  destruct (N.eqb_spec y 0) as [E|E], (N.eqb_spec y 1) as [E1|E1]; cbn [negb]; try reflexivity; lia.
Qed.

Lemma bits_of_shifted x :
  filter (fun v => negb (N.land (N.shiftr x v) 1 =? 0)) (range4 0 32) = bits_of x.
Proof. rewrite range4_0_32. unfold bits_of. apply filter_ext. intros v. apply shifted_bit. Qed.

(* ================================================================== sop/cube.rs, sop/ecube.rs *)
Lemma tie_cube_pos_vars c : cube_pos_vars c = gx_cube_pos_vars c.
Proof. unfold cube_pos_vars, gx_cube_pos_vars. symmetry. apply bits_of_shifted. Qed.

Lemma tie_cube_neg_vars c : cube_neg_vars c = gx_cube_neg_vars c.
Proof. unfold cube_neg_vars, gx_cube_neg_vars. symmetry. apply bits_of_shifted. Qed.

Lemma tie_ecube_vars e : ecube_vars e = gx_ecube_vars e.
Proof. unfold ecube_vars, gx_ecube_vars. symmetry. apply bits_of_shifted. Qed.

Lemma tie_cube_implies_lut c n t : cube_implies_lut c n t = gx_cube_implies_lut c (mkLut n t).
Proof. unfold cube_implies_lut, gx_cube_implies_lut. rewrite range4_assignments. reflexivity. Qed.

(* Cube::all: pairs first, then the struct, then the filter; the model builds the cubes directly *)
Lemma tie_cube_all vars : cube_all vars = (dbg (gx_cube_all_mx_shift_ok vars) ;; Ok (gx_cube_all vars)).
Proof.
  unfold cube_all, bit32, gx_cube_all_mx_shift_ok, gx_cube_all. destruct (vars <? 32); [|reflexivity].
  cbn [dbg bind]. cbv zeta. f_equal. rewrite range4_from_0, map_flat_map4. f_equal.
  apply flat_map_ext. intros i. rewrite !map_map. reflexivity.
Qed.

Lemma tie_ecube_all vars : ecube_all vars = (dbg (gx_ecube_all_mx_shift_ok vars) ;; Ok (gx_ecube_all vars)).
Proof.
  unfold ecube_all, bit32, gx_ecube_all_mx_shift_ok, gx_ecube_all. destruct (vars <? 32); [|reflexivity].
  cbn [dbg bind]. cbv zeta. f_equal. rewrite range4_from_0, map_flat_map4.
  apply flat_map_ext. intros i. reflexivity.
Qed.

Lemma tie_ecube_implies_lut e n t : ecube_implies_lut e n t = gx_ecube_implies_lut e (mkLut n t).
Proof.
  unfold ecube_implies_lut, gx_ecube_implies_lut. rewrite range4_assignments.
  apply forallb_ext4. intros m. rewrite tie_ecube_value. reflexivity.
Qed.

(* ================================================================== sop/sop.rs *)
Lemma tie_sop_num_vars s : snv s = gx_sop_num_vars s. Proof. reflexivity. Qed.
Lemma tie_sop_cubes s : scubes s = gx_sop_cubes s. Proof. reflexivity. Qed.
Lemma tie_sop_zero : sop_zero = gx_sop_zero. Proof. reflexivity. Qed.
Lemma tie_sop_one : sop_one = gx_sop_one. Proof. reflexivity. Qed.
Lemma tie_sop_num_cubes : sop_num_cubes = gx_sop_num_cubes. Proof. reflexivity. Qed.
Lemma tie_sop_num_lits : sop_num_lits = gx_sop_num_lits. Proof. reflexivity. Qed.
Lemma tie_sop_is_zero : sop_is_zero = gx_sop_is_zero. Proof. reflexivity. Qed.

Lemma tie_sop_is_one s : sop_is_one s = gx_sop_is_one s.
Proof. unfold sop_is_one, gx_sop_is_one. destruct (scubes s); reflexivity. Qed.

(* the model has no Sop::nth_var: the cube constructor of the model, lifted *)
Lemma tie_sop_nth_var n v :
  (let* c := cube_nth_var v in Ok (mkSop n [c])) = (dbg (gx_cube_nth_var_shift_ok v) ;; Ok (gx_sop_nth_var n v)).
Proof. rewrite tie_cube_nth_var. unfold gx_sop_nth_var. destruct (gx_cube_nth_var_shift_ok v); reflexivity. Qed.

Lemma tie_sop_nth_var_inv n v :
  (let* c := cube_nth_var_inv v in Ok (mkSop n [c])) =
  (dbg (gx_cube_nth_var_inv_shift_ok v) ;; Ok (gx_sop_nth_var_inv n v)).
Proof. rewrite tie_cube_nth_var_inv. unfold gx_sop_nth_var_inv. destruct (gx_cube_nth_var_inv_shift_ok v); reflexivity. Qed.

Lemma cube_vars_below_gx n c :
  cube_vars_below n c =
  forallb (fun v => v <? N.of_nat n) (gx_cube_pos_vars c) && forallb (fun v => v <? N.of_nat n) (gx_cube_neg_vars c).
Proof. unfold cube_vars_below. rewrite tie_cube_pos_vars, tie_cube_neg_vars. reflexivity. Qed.

Lemma tie_sop_from_cubes_asserts n cubes :
  forallb (cube_vars_below n) cubes = gx_sop_from_cubes_asserts n cubes.
Proof. unfold gx_sop_from_cubes_asserts. apply forallb_ext4. intros c. apply cube_vars_below_gx. Qed.

Lemma tie_sop_from_cubes n cubes :
  sop_from_cubes n cubes = (always (gx_sop_from_cubes_asserts n cubes) ;; Ok (gx_sop_from_cubes n cubes)).
Proof. unfold sop_from_cubes. rewrite tie_sop_from_cubes_asserts. reflexivity. Qed.

Lemma tie_sop_value : sop_value = gx_sop_value. Proof. reflexivity. Qed.

(* Sop::simplify takes `&mut self`: the generated function returns the receiver *)
Lemma tie_sop_simplify n cs : mkSop n (sop_simplify cs) = gx_sop_simplify (mkSop n cs).
Proof.
  unfold sop_simplify, gx_sop_simplify. cbv zeta. cbn [snv scubes].
  rewrite fold_push_filter. reflexivity.
Qed.

Lemma snv_gx_sop_simplify s : snv (gx_sop_simplify s) = snv s.
Proof. reflexivity. Qed.

Lemma tie_sop_or a b : sop_or a b = (always (gx_sop_or_asserts a b) ;; Ok (gx_sop_or a b)).
Proof. unfold sop_or, gx_sop_or. cbv zeta. rewrite tie_sop_simplify. reflexivity. Qed.

Lemma tie_sop_and a b : sop_and a b = (always (gx_sop_and_asserts a b) ;; Ok (gx_sop_and a b)).
Proof.
  unfold sop_and, gx_sop_and. cbv zeta. rewrite tie_sop_simplify.
  rewrite (fold_push_product (fun c1 c2 => gx_cube_bitand_ref_ref c1 c2) (fun c => cube_eqb c gx_cube_zero)).
  reflexivity.
Qed.

Lemma snv_gx_sop_and a b : snv (gx_sop_and a b) = snv a.
Proof. reflexivity. Qed.

(* the four BitAnd and the four BitOr forms, each on its own *)
Lemma tie_sop_bitand_val_val a b : sop_and a b = (always (gx_sop_and_asserts a b) ;; Ok (gx_sop_bitand_val_val a b)).
Proof. apply tie_sop_and. Qed.
Lemma tie_sop_bitand_val_ref a b : sop_and a b = (always (gx_sop_and_asserts a b) ;; Ok (gx_sop_bitand_val_ref a b)).
Proof. apply tie_sop_and. Qed.
Lemma tie_sop_bitand_ref_val a b : sop_and a b = (always (gx_sop_and_asserts a b) ;; Ok (gx_sop_bitand_ref_val a b)).
Proof. apply tie_sop_and. Qed.
Lemma tie_sop_bitand_ref_ref a b : sop_and a b = (always (gx_sop_and_asserts a b) ;; Ok (gx_sop_bitand_ref_ref a b)).
Proof. apply tie_sop_and. Qed.
Lemma tie_sop_bitor_val_val a b : sop_or a b = (always (gx_sop_or_asserts a b) ;; Ok (gx_sop_bitor_val_val a b)).
Proof. apply tie_sop_or. Qed.
Lemma tie_sop_bitor_val_ref a b : sop_or a b = (always (gx_sop_or_asserts a b) ;; Ok (gx_sop_bitor_val_ref a b)).
Proof. apply tie_sop_or. Qed.
Lemma tie_sop_bitor_ref_val a b : sop_or a b = (always (gx_sop_or_asserts a b) ;; Ok (gx_sop_bitor_ref_val a b)).
Proof. apply tie_sop_or. Qed.
Lemma tie_sop_bitor_ref_ref a b : sop_or a b = (always (gx_sop_or_asserts a b) ;; Ok (gx_sop_bitor_ref_ref a b)).
Proof. apply tie_sop_or. Qed.

(* `!&Sop`: the sum of the complemented literals of one cube, as the two inner loops build it *)
Lemma tie_cube_complement_sum c :
  cube_complement_sum c =
  (let v := [] in
   let v := fold_left (fun v l => v ++ [gx_cube_nth_var_inv l]) (gx_cube_pos_vars c) v in
   let v := fold_left (fun v l => v ++ [gx_cube_nth_var l]) (gx_cube_neg_vars c) v in
   v).
Proof.
  cbv zeta. rewrite !fold_push_map. cbn [app]. unfold cube_complement_sum.
  rewrite tie_cube_pos_vars, tie_cube_neg_vars.
  f_equal; apply map_ext; intros l; reflexivity.
Qed.

(* the model threads the assertion of Sop::and (equal variable counts) through the loop: it never fires *)
Lemma sop_not_fold n l : forall ret, snv ret = n ->
  fold_left (fun (acc : res sop) (c : cube) => let* r := acc in sop_and r (mkSop n (cube_complement_sum c))) l (Ok ret) =
  Ok (fold_left (fun r c => gx_sop_and r (mkSop n (cube_complement_sum c))) l ret).
Proof.
  induction l as [|c l IH]; intros ret Hn; cbn [fold_left]; [reflexivity|].
  cbn [bind]. rewrite tie_sop_and. unfold gx_sop_and_asserts. cbn [snv]. rewrite Hn, Nat.eqb_refl.
  cbn [always bind]. apply IH. rewrite snv_gx_sop_and. exact Hn.
Qed.

Lemma tie_sop_not s : sop_not s = Ok (gx_sop_not_ref s).
Proof.
  unfold sop_not, gx_sop_not_ref. cbv zeta. rewrite sop_not_fold by reflexivity. f_equal.
  apply fold_left_ext4. intros r c. rewrite tie_cube_complement_sum. cbv zeta. unfold gx_sop_bitand_val_val. reflexivity.
Qed.

Lemma tie_sop_not_val s : sop_not s = Ok (gx_sop_not_val s).
Proof. apply tie_sop_not. Qed.

(* From<&Lut> for Sop: `ret.cubes.push(..)` under a test, the loop state is the record *)
Lemma fold_push_sop (p : N -> bool) (f : N -> cube) l n acc :
  fold_left (fun ret m => if p m then mkSop (snv ret) (scubes ret ++ [f m]) else ret) l (mkSop n acc) =
  mkSop n (acc ++ map f (filter p l)).
Proof.
  revert acc. induction l as [|m l IH]; intros acc; cbn [fold_left filter].
  - rewrite app_nil_r. reflexivity.
  - destruct (p m); cbn [snv scubes map]; rewrite IH; [rewrite <- app_assoc|]; reflexivity.
Qed.

Lemma tie_sop_from_lut n t : sop_from_lut n t = gx_sop_from_lut_ref (mkLut n t).
Proof.
  unfold sop_from_lut, gx_sop_from_lut_ref. cbv zeta. rewrite range4_assignments.
  unfold gx_sop_zero. cbn [nv].
  rewrite (fold_push_sop (fun m => lut4_value (mkLut n t) m) (fun m => gx_cube_minterm (N.of_nat n) m)).
  reflexivity.
Qed.

Lemma tie_sop_from_lut_val n t : sop_from_lut n t = gx_sop_from_lut_val (mkLut n t).
Proof. apply tie_sop_from_lut. Qed.

Lemma tie_sop_display : sop_display = gx_sop_display. Proof. reflexivity. Qed.

(* From<&Sop> for Lut (and for Esop, Soes): `ret.set_bit(mask)` under a test, the loop state is the Lut *)
Lemma fold_set_bit (f : N -> bool) l n t :
  fold_left (fun ret m => if f m then lut4_set_bit ret m else ret) l (mkLut n t) =
  mkLut n (fold_left (fun t m => if f m then tset t m true else t) l t).
Proof.
  revert t. induction l as [|m l IH]; intros t; cbn [fold_left]; [reflexivity|].
  destruct (f m); [unfold lut4_set_bit at 2; cbn [nv tbl]|]; apply IH.
Qed.

Lemma tabulate_gx n (f : N -> bool) :
  mkLut n (tabulate n f) =
  (let ret := lut_new n in
   let mx := num_bits ret in
   fold_left (fun ret mask => if f mask then lut4_set_bit ret mask else ret) (range4 0 mx) ret).
Proof.
  cbv zeta. unfold lut_new. rewrite range4_assignments, fold_set_bit. reflexivity.
Qed.

Lemma tabulate_ext n (f g : N -> bool) : (forall m, f m = g m) -> tabulate n f = tabulate n g.
Proof. intros H. unfold tabulate. apply fold_left_ext4. intros t m. rewrite H. reflexivity. Qed.

Lemma tie_lut_from_sop s : mkLut (snv s) (sop_to_lut s) = gx_lut_from_sop_ref s.
Proof. unfold sop_to_lut, gx_lut_from_sop_ref. rewrite tabulate_gx. reflexivity. Qed.

Lemma tie_lut_from_sop_val s : mkLut (snv s) (sop_to_lut s) = gx_lut_from_sop_val s.
Proof. apply tie_lut_from_sop. Qed.

(* ================================================================== sop/esop.rs *)
Lemma tie_esop_num_vars s : env s = gx_esop_num_vars s. Proof. reflexivity. Qed.
Lemma tie_esop_cubes s : ecubes s = gx_esop_cubes s. Proof. reflexivity. Qed.
Lemma tie_esop_zero : esop_zero = gx_esop_zero. Proof. reflexivity. Qed.
Lemma tie_esop_one : esop_one = gx_esop_one. Proof. reflexivity. Qed.
Lemma tie_esop_num_cubes : esop_num_cubes = gx_esop_num_cubes. Proof. reflexivity. Qed.
Lemma tie_esop_num_lits : esop_num_lits = gx_esop_num_lits. Proof. reflexivity. Qed.
Lemma tie_esop_is_zero : esop_is_zero = gx_esop_is_zero. Proof. reflexivity. Qed.

(* the `panic!()` arm of Esop::is_one is dead: the tie holds whatever it would return *)
Lemma tie_esop_is_one s unreachable : esop_is_one s = gx_esop_is_one s unreachable.
Proof. unfold esop_is_one, gx_esop_is_one. destruct (ecubes s) as [|c [|d r]]; reflexivity. Qed.

Lemma tie_esop_nth_var n v :
  (let* c := cube_nth_var v in Ok (mkEsop n [c])) = (dbg (gx_cube_nth_var_shift_ok v) ;; Ok (gx_esop_nth_var n v)).
Proof. rewrite tie_cube_nth_var. unfold gx_esop_nth_var. destruct (gx_cube_nth_var_shift_ok v); reflexivity. Qed.

Lemma tie_esop_nth_var_inv n v :
  (let* c := cube_nth_var_inv v in Ok (mkEsop n [c])) =
  (dbg (gx_cube_nth_var_inv_shift_ok v) ;; Ok (gx_esop_nth_var_inv n v)).
Proof. rewrite tie_cube_nth_var_inv. unfold gx_esop_nth_var_inv. destruct (gx_cube_nth_var_inv_shift_ok v); reflexivity. Qed.

Lemma tie_esop_from_cubes_asserts n cubes :
  forallb (cube_vars_below n) cubes = gx_esop_from_cubes_asserts n cubes.
Proof. unfold gx_esop_from_cubes_asserts. apply forallb_ext4. intros c. apply cube_vars_below_gx. Qed.

Lemma tie_esop_from_cubes n cubes :
  esop_from_cubes n cubes = (always (gx_esop_from_cubes_asserts n cubes) ;; Ok (gx_esop_from_cubes n cubes)).
Proof. unfold esop_from_cubes. rewrite tie_esop_from_cubes_asserts. reflexivity. Qed.

Lemma tie_esop_value : esop_value = gx_esop_value. Proof. reflexivity. Qed.

Lemma tie_esop_xor a b : esop_xor a b = (always (gx_esop_xor_asserts a b) ;; Ok (gx_esop_xor a b)).
Proof. reflexivity. Qed.

Lemma tie_esop_not : esop_not = gx_esop_not_ref. Proof. reflexivity. Qed.
Lemma tie_esop_not_val : esop_not = gx_esop_not_val. Proof. reflexivity. Qed.

Lemma tie_esop_bitxor_val_val a b : esop_xor a b = (always (gx_esop_xor_asserts a b) ;; Ok (gx_esop_bitxor_val_val a b)).
Proof. reflexivity. Qed.
Lemma tie_esop_bitxor_val_ref a b : esop_xor a b = (always (gx_esop_xor_asserts a b) ;; Ok (gx_esop_bitxor_val_ref a b)).
Proof. reflexivity. Qed.
Lemma tie_esop_bitxor_ref_val a b : esop_xor a b = (always (gx_esop_xor_asserts a b) ;; Ok (gx_esop_bitxor_ref_val a b)).
Proof. reflexivity. Qed.
Lemma tie_esop_bitxor_ref_ref a b : esop_xor a b = (always (gx_esop_xor_asserts a b) ;; Ok (gx_esop_bitxor_ref_ref a b)).
Proof. reflexivity. Qed.

(* From<&Lut> for Esop.  The inner loop toggles the working Lut; the loop state is the Lut *)
Lemma fold_toggle (c : N -> bool) l n t :
  fold_left (fun el j => if c j then lut4_set_value el j (negb (lut4_value el j)) else el) l (mkLut n t) =
  mkLut n (fold_left (fun t j => if c j then tset t j (negb (tget t j)) else t) l t).
Proof.
  revert t. induction l as [|j l IH]; intros t; cbn [fold_left]; [reflexivity|].
  destruct (c j); [unfold lut4_set_value at 2, lut4_value at 2; cbn [nv tbl]|]; apply IH.
Qed.

(* one round of the outer loop: generated pair state (cubes so far, working Lut) against the model state
   (working table, cubes so far newest first) *)
Definition sweep_rel (n : nat) (g : esop * lut) (m : list N * list cube) : Prop :=
  fst g = mkEsop n (rev (snd m)) /\ snd g = mkLut n (fst m).

Lemma sweep_step n t0 g m i :
  sweep_rel n g m ->
  sweep_rel n
    (let '(ret, esop_lut) := g in
     if negb (lut4_value esop_lut i) then (ret, esop_lut)
     else
       let ret := mkEsop (env ret) (ecubes ret ++ [gx_cube_from_mask (wrap32 i) 0]) in
       let esop_lut :=
         fold_left (fun esop_lut j => if N.land (not64 j) i =? 0
                                      then lut4_set_value esop_lut j (negb (lut4_value esop_lut j)) else esop_lut)
                   (range4 (i + 1) (num_bits (mkLut n t0))) esop_lut in
       (ret, esop_lut))
    (esop_sweep_step n m i).
Proof.
  destruct g as [ret el], m as [t acc]. unfold sweep_rel. cbn [fst snd]. intros [Hr He]. subst ret el.
  unfold esop_sweep_step. change (lut4_value (mkLut n t) i) with (tget t i).
  destruct (negb (tget t i)).
  - cbn [fst snd]. split; reflexivity.
  - cbv zeta. cbn [fst snd env ecubes rev]. split; [reflexivity|].
    rewrite range4_after, fold_toggle. reflexivity.
Qed.

Lemma tie_esop_from_lut n t : esop_from_lut n t = gx_esop_from_lut_ref (mkLut n t).
Proof.
  unfold esop_from_lut, gx_esop_from_lut_ref. cbv zeta. rewrite range4_assignments.
  pose proof (fold_left_rel (sweep_rel n)
                (fun st_ i => let '(ret, esop_lut) := st_ in
                   if negb (lut4_value esop_lut i) then (ret, esop_lut)
                   else
                     let ret := mkEsop (env ret) (ecubes ret ++ [gx_cube_from_mask (wrap32 i) 0]) in
                     let esop_lut :=
                       fold_left (fun esop_lut j => if N.land (not64 j) i =? 0
                                                    then lut4_set_value esop_lut j (negb (lut4_value esop_lut j))
                                                    else esop_lut)
                                 (range4 (i + 1) (num_bits (mkLut n t))) esop_lut in
                     (ret, esop_lut))
                (esop_sweep_step n) (assignments n)
                (fun a b x _ H => sweep_step n t a b x H)
                (gx_esop_zero (nv (mkLut n t)), mkLut n t) (t, [])) as H.
  destruct H as [H1 _]; [split; reflexivity|].
  destruct (fold_left _ (assignments n) (gx_esop_zero (nv (mkLut n t)), mkLut n t)) as [ret el].
  cbn [fst] in H1. rewrite H1. reflexivity.
Qed.

Lemma tie_esop_from_lut_val n t : esop_from_lut n t = gx_esop_from_lut_val (mkLut n t).
Proof. apply tie_esop_from_lut. Qed.

Lemma tie_esop_display : esop_display = gx_esop_display. Proof. reflexivity. Qed.

Lemma tie_lut_from_esop s : mkLut (env s) (esop_to_lut s) = gx_lut_from_esop_ref s.
Proof. unfold esop_to_lut, gx_lut_from_esop_ref. rewrite tabulate_gx. reflexivity. Qed.

Lemma tie_lut_from_esop_val s : mkLut (env s) (esop_to_lut s) = gx_lut_from_esop_val s.
Proof. apply tie_lut_from_esop. Qed.

(* ================================================================== sop/soes.rs *)
Lemma tie_soes_num_vars s : onv s = gx_soes_num_vars s. Proof. reflexivity. Qed.
Lemma tie_soes_cubes s : ocubes s = gx_soes_cubes s. Proof. reflexivity. Qed.
Lemma tie_soes_zero : soes_zero = gx_soes_zero. Proof. reflexivity. Qed.
Lemma tie_soes_one : soes_one = gx_soes_one. Proof. reflexivity. Qed.
Lemma tie_soes_num_cubes : soes_num_cubes = gx_soes_num_cubes. Proof. reflexivity. Qed.
Lemma tie_soes_num_lits : soes_num_lits = gx_soes_num_lits. Proof. reflexivity. Qed.
Lemma tie_soes_is_zero : soes_is_zero = gx_soes_is_zero. Proof. reflexivity. Qed.

Lemma tie_soes_is_one s : soes_is_one s = gx_soes_is_one s.
Proof. unfold soes_is_one, gx_soes_is_one. destruct (ocubes s); reflexivity. Qed.

Lemma tie_soes_nth_var n v :
  (let* c := ecube_nth_var v in Ok (mkSoes n [c])) = (dbg (gx_ecube_nth_var_shift_ok v) ;; Ok (gx_soes_nth_var n v)).
Proof. rewrite tie_ecube_nth_var. unfold gx_soes_nth_var. destruct (gx_ecube_nth_var_shift_ok v); reflexivity. Qed.

Lemma tie_soes_nth_var_inv n v :
  (let* c := ecube_nth_var_inv v in Ok (mkSoes n [c])) =
  (dbg (gx_ecube_nth_var_inv_shift_ok v) ;; Ok (gx_soes_nth_var_inv n v)).
Proof. rewrite tie_ecube_nth_var_inv. unfold gx_soes_nth_var_inv. destruct (gx_ecube_nth_var_inv_shift_ok v); reflexivity. Qed.

Lemma tie_soes_from_cubes_asserts n cubes :
  forallb (fun e => forallb (fun v => v <? N.of_nat n) (ecube_vars e)) cubes = gx_soes_from_cubes_asserts n cubes.
Proof. unfold gx_soes_from_cubes_asserts. apply forallb_ext4. intros e. rewrite tie_ecube_vars. reflexivity. Qed.

Lemma tie_soes_from_cubes n cubes :
  soes_from_cubes n cubes = (always (gx_soes_from_cubes_asserts n cubes) ;; Ok (gx_soes_from_cubes n cubes)).
Proof. unfold soes_from_cubes. rewrite tie_soes_from_cubes_asserts. reflexivity. Qed.

(* Ecube::value takes `% 2 == 1` where the model takes N.odd (ExprsTie2.tie_ecube_value) *)
Lemma tie_soes_value s mask : soes_value s mask = gx_soes_value s mask.
Proof.
  unfold soes_value, gx_soes_value. cbv zeta. apply fold_left_ext4. intros r c. rewrite tie_ecube_value. reflexivity.
Qed.

Lemma tie_soes_or a b : soes_or a b = (always (gx_soes_or_asserts a b) ;; Ok (gx_soes_or a b)).
Proof. reflexivity. Qed.

Lemma tie_soes_bitor_val_val a b : soes_or a b = (always (gx_soes_or_asserts a b) ;; Ok (gx_soes_bitor_val_val a b)).
Proof. reflexivity. Qed.
Lemma tie_soes_bitor_val_ref a b : soes_or a b = (always (gx_soes_or_asserts a b) ;; Ok (gx_soes_bitor_val_ref a b)).
Proof. reflexivity. Qed.
Lemma tie_soes_bitor_ref_val a b : soes_or a b = (always (gx_soes_or_asserts a b) ;; Ok (gx_soes_bitor_ref_val a b)).
Proof. reflexivity. Qed.
Lemma tie_soes_bitor_ref_ref a b : soes_or a b = (always (gx_soes_or_asserts a b) ;; Ok (gx_soes_bitor_ref_ref a b)).
Proof. reflexivity. Qed.

Lemma tie_soes_display : soes_display = gx_soes_display. Proof. reflexivity. Qed.

Lemma tie_lut_from_soes s : mkLut (onv s) (soes_to_lut s) = gx_lut_from_soes_ref s.
Proof.
  unfold soes_to_lut, gx_lut_from_soes_ref.
  rewrite (tabulate_ext (onv s) (soes_value s) (gx_soes_value s) (tie_soes_value s)), tabulate_gx. reflexivity.
Qed.

Lemma tie_lut_from_soes_val s : mkLut (onv s) (soes_to_lut s) = gx_lut_from_soes_val s.
Proof. apply tie_lut_from_soes. Qed.

(* ------------------------------------------------------------------ not tied
   See the trailer of Gen/Exprs4.v (NOT_TIED4): the Lut methods used by the conversions (vocabulary: nv, num_bits, tget,
   tset, lut_new), Vec::sort / Vec::dedup (cube_sort / cube_dedup of the model), to_string() of a cube / join, the reading
   of assert! as `always`, the dev-profile overflow checks, the Display impls of Cube and Ecube. *)
