(* C08: the order on tables is the numeric order of the table read as one number (word 0 least significant),
   the successor kernel is +1 modulo 2^(2^n), and all_functions enumerates every function exactly once. *)
From Coq Require Import List NArith Arith Bool Lia.
From V Require Import Base.Res Gen.Tables Model.Kernels Model.Api Base.Bits Spec.Bfun Proofs.Wf.
Import ListNotations.
Open Scope N_scope.

(* the table as one number; word 0 is the least significant *)
Fixpoint big (t : list N) : N := match t with [] => 0 | w :: r => w + 2 ^ 64 * big r end.

(* ------------------------------------------------------------------ cmp is the numeric comparison *)
Lemma lex_cmp_app p q s r : length p = length q ->
  lex_cmp (p ++ s) (q ++ r) = match lex_cmp p q with Eq => lex_cmp s r | c => c end.
Proof.
  revert q. induction p as [|x p IH]; intros [|y q] Hl; simpl in Hl; try discriminate.
  - reflexivity.
  - cbn [app lex_cmp]. destruct (x ?= y); try reflexivity. apply IH. lia.
Qed.

Lemma compare_split x y A B : x < 2 ^ 64 -> y < 2 ^ 64 ->
  (x + 2 ^ 64 * A ?= y + 2 ^ 64 * B) = match A ?= B with Eq => x ?= y | c => c end.
Proof.
  intros Hx Hy. destruct (N.compare_spec A B) as [E|L|G].
  - subst B. destruct (N.compare_spec x y) as [E|L|G];
      [apply N.compare_eq_iff|apply N.compare_lt_iff|apply N.compare_gt_iff]; lia.
  - apply N.compare_lt_iff. lia.
  - apply N.compare_gt_iff. lia.
Qed.

Lemma lex_cmp_big a : forall b, length a = length b ->
  Forall (fun w => w < 2 ^ 64) a -> Forall (fun w => w < 2 ^ 64) b ->
  lex_cmp (rev a) (rev b) = (big a ?= big b).
Proof.
  induction a as [|x a IH]; intros [|y b] Hl Ha Hb; simpl in Hl; try discriminate.
  - reflexivity.
  - inversion Ha as [|x0 a0 Hx Ha']; subst x0 a0. inversion Hb as [|y0 b0 Hy Hb']; subst y0 b0.
    cbn [rev big]. rewrite lex_cmp_app by (rewrite !rev_length; lia).
    rewrite (IH b) by (assumption || lia). rewrite compare_split by assumption.
    cbn [lex_cmp]. destruct (big a ?= big b); try reflexivity. destruct (x ?= y); reflexivity.
Qed.

Lemma cmp_big a b : length a = length b ->
  Forall (fun w => w < 2 ^ 64) a -> Forall (fun w => w < 2 ^ 64) b ->
  cmp a b = Ok (big a ?= big b).
Proof.
  intros Hl Ha Hb. unfold cmp. rewrite Hl, Nat.eqb_refl. cbn [dbg bind].
  rewrite lex_cmp_big by assumption. reflexivity.
Qed.

(* ------------------------------------------------------------------ the bits of the number are the function values *)
Lemma cons_testbit w B m : w < 2 ^ 64 ->
  N.testbit (w + 2 ^ 64 * B) m = if m <? 64 then N.testbit w m else N.testbit B (m - 64).
Proof.
  intros Hw. rewrite N.mul_comm, <- N.shiftl_mul_pow2.
  rewrite add_disjoint.
  - rewrite N.lor_spec. destruct (N.ltb_spec m 64) as [L|L].
    + rewrite N.shiftl_spec_low by exact L. apply orb_false_r.
    + rewrite (testbit_lt_pow2 w 64 m) by assumption. rewrite N.shiftl_spec_high' by exact L. reflexivity.
  - apply N.bits_inj_0. intro p. rewrite N.land_spec. destruct (N.lt_ge_cases p 64) as [L|L].
    + rewrite N.shiftl_spec_low by exact L. apply andb_false_r.
    + rewrite (testbit_lt_pow2 w 64 p) by assumption. reflexivity.
Qed.

Lemma val_cons w r m : val (w :: r) m = if m <? 64 then N.testbit w m else val r (m - 64).
Proof.
  unfold val. destruct (N.ltb_spec m 64) as [L|L].
  - rewrite N.div_small, N.mod_small by exact L. reflexivity.
  - assert (E : m = (m - 64) + 1 * 64) by lia.
    rewrite E at 1 2. rewrite N.div_add, N.mod_add by lia.
    replace (N.to_nat ((m - 64) / 64 + 1)) with (S (N.to_nat ((m - 64) / 64))) by lia.
    reflexivity.
Qed.

Lemma big_val64 t : Forall (fun w => w < 2 ^ 64) t -> forall m, N.testbit (big t) m = val t m.
Proof.
  induction t as [|w r IH]; intros Ht m.
  - cbn [big]. rewrite N.bits_0. unfold val, nthN. destruct (N.to_nat (m / 64)); symmetry; apply N.bits_0.
  - inversion Ht as [|w0 r0 Hw Hr]; subst w0 r0. cbn [big]. rewrite cons_testbit by exact Hw.
    rewrite val_cons. destruct (m <? 64); [reflexivity|]. apply IH. exact Hr.
Qed.

Lemma big_val n t : wf n t -> forall m, N.testbit (big t) m = val t m.
Proof. intros H. apply big_val64. apply (wf_Forall64 n). exact H. Qed.

Lemma big_lt n t : wf n t -> big t < 2 ^ (2 ^ N.of_nat n).
Proof.
  intros H. apply lt_pow2_of_bits. intros p Hp. rewrite (big_val n t H). apply (val_out_of_range n); assumption.
Qed.

(* ------------------------------------------------------------------ extensionality *)
Lemma big_inj a : forall b, length a = length b ->
  Forall (fun w => w < 2 ^ 64) a -> Forall (fun w => w < 2 ^ 64) b -> big a = big b -> a = b.
Proof.
  induction a as [|x a IH]; intros [|y b] Hl Ha Hb E; simpl in Hl; try discriminate.
  - reflexivity.
  - inversion Ha as [|x0 a0 Hx Ha']; subst x0 a0. inversion Hb as [|y0 b0 Hy Hb']; subst y0 b0.
    cbn [big] in E. assert (x = y /\ big a = big b) as [-> E'] by lia.
    f_equal. apply IH; assumption || lia.
Qed.

Lemma wf_big_inj n a b : wf n a -> wf n b -> big a = big b -> a = b.
Proof.
  intros Ha Hb. apply big_inj.
  - rewrite (wf_length n a Ha), (wf_length n b Hb). reflexivity.
  - apply (wf_Forall64 n). exact Ha.
  - apply (wf_Forall64 n). exact Hb.
Qed.

(* two well-formed tables are equal iff they agree on every assignment of the domain *)
Lemma wf_ext n a b : wf n a -> wf n b ->
  (a = b <-> forall m, m < 2 ^ N.of_nat n -> val a m = val b m).
Proof.
  intros Ha Hb. split.
  - intros -> m _. reflexivity.
  - intros H. apply (wf_big_inj n); try assumption. apply N.bits_inj. intro m.
    rewrite (big_val n a Ha), (big_val n b Hb).
    destruct (N.lt_ge_cases m (2 ^ N.of_nat n)) as [L|L].
    + apply H. exact L.
    + rewrite (val_out_of_range n a m Ha L), (val_out_of_range n b m Hb L). reflexivity.
Qed.

(* ------------------------------------------------------------------ the API order: (num_vars, number) lexicographic *)
Definition key_cmp (a b : lut) : comparison :=
  match Nat.compare (nv a) (nv b) with Eq => big (tbl a) ?= big (tbl b) | c => c end.

Lemma D_cmp_key a b : wf (nv a) (tbl a) -> wf (nv b) (tbl b) -> D_cmp a b = Ok (key_cmp a b).
Proof.
  intros Ha Hb. unfold D_cmp, key_cmp. destruct (Nat.eqb_spec (nv a) (nv b)) as [E|E]; cbn [negb].
  - rewrite (proj2 (Nat.compare_eq_iff _ _) E). rewrite <- E in Hb. apply cmp_big.
    + rewrite (wf_length _ _ Ha), (wf_length _ _ Hb). reflexivity.
    + apply (wf_Forall64 _ _ Ha).
    + apply (wf_Forall64 _ _ Hb).
  - destruct (Nat.compare_spec (nv a) (nv b)) as [E'|L|G]; [contradiction|reflexivity|reflexivity].
Qed.

Lemma D_cmp_sem a b : wf (nv a) (tbl a) -> wf (nv b) (tbl b) ->
  (nv a <> nv b -> D_cmp a b = Ok (Nat.compare (nv a) (nv b))) /\
  (nv a = nv b -> D_cmp a b = Ok (big (tbl a) ?= big (tbl b))).
Proof.
  intros Ha Hb. rewrite (D_cmp_key a b Ha Hb). unfold key_cmp. split; intros E.
  - destruct (Nat.compare_spec (nv a) (nv b)) as [E'|L|G]; [contradiction|reflexivity|reflexivity].
  - rewrite (proj2 (Nat.compare_eq_iff _ _) E). reflexivity.
Qed.

Lemma D_cmp_eq a b : wf (nv a) (tbl a) -> wf (nv b) (tbl b) ->
  (D_cmp a b = Ok Eq <-> nv a = nv b /\ tbl a = tbl b).
Proof.
  intros Ha Hb. rewrite (D_cmp_key a b Ha Hb). unfold key_cmp. split.
  - intros H. injection H as H. destruct (Nat.compare_spec (nv a) (nv b)) as [E|L|G]; try discriminate.
    split; [exact E|]. apply N.compare_eq_iff in H. rewrite <- E in Hb.
    apply (wf_big_inj (nv a)); assumption.
  - intros [E1 E2]. rewrite (proj2 (Nat.compare_eq_iff _ _) E1), E2, N.compare_refl. reflexivity.
Qed.

Lemma D_cmp_antisym a b : wf (nv a) (tbl a) -> wf (nv b) (tbl b) ->
  (D_cmp a b = Ok Lt <-> D_cmp b a = Ok Gt).
Proof.
  intros Ha Hb. rewrite (D_cmp_key a b Ha Hb), (D_cmp_key b a Hb Ha). unfold key_cmp.
  rewrite (Nat.compare_antisym (nv a) (nv b)), (N.compare_antisym (big (tbl a)) (big (tbl b))).
  destruct (Nat.compare (nv a) (nv b)); cbn [CompOpp];
    [destruct (big (tbl a) ?= big (tbl b)); cbn [CompOpp]| |]; split; intros H; congruence.
Qed.

Lemma D_cmp_trans a b c : wf (nv a) (tbl a) -> wf (nv b) (tbl b) -> wf (nv c) (tbl c) ->
  D_cmp a b = Ok Lt -> D_cmp b c = Ok Lt -> D_cmp a c = Ok Lt.
Proof.
  intros Ha Hb Hc. rewrite (D_cmp_key a b Ha Hb), (D_cmp_key b c Hb Hc), (D_cmp_key a c Ha Hc).
  unfold key_cmp. intros H1 H2. injection H1 as H1. injection H2 as H2. f_equal.
  destruct (Nat.compare_spec (nv a) (nv b)) as [E1|L1|G1]; try discriminate;
  destruct (Nat.compare_spec (nv b) (nv c)) as [E2|L2|G2]; try discriminate;
  destruct (Nat.compare_spec (nv a) (nv c)) as [E3|L3|G3]; try lia; try reflexivity.
  exact (N.lt_trans _ _ _ H1 H2).
Qed.

(* the order is total on well-formed luts: never a panic *)
Lemma D_cmp_total a b : wf (nv a) (tbl a) -> wf (nv b) (tbl b) -> exists c, D_cmp a b = Ok c.
Proof. intros Ha Hb. eexists. apply D_cmp_key; assumption. Qed.

Lemma D_eq_sem a b : D_eq a b = true <-> nv a = nv b /\ tbl a = tbl b.
Proof.
  unfold D_eq. rewrite andb_true_iff, Nat.eqb_eq.
  destruct (list_eq_dec N.eq_dec (tbl a) (tbl b)) as [E|E]; split; intros [H1 H2]; split;
    congruence || assumption || reflexivity.
Qed.

Lemma D_ext a b : wf (nv a) (tbl a) -> wf (nv b) (tbl b) -> nv a = nv b ->
  (tbl a = tbl b <-> forall m, m < 2 ^ N.of_nat (nv a) -> val (tbl a) m = val (tbl b) m).
Proof. intros Ha Hb E. rewrite <- E in Hb. apply wf_ext; assumption. Qed.

(* ------------------------------------------------------------------ successor *)
Lemma big_lt64 t : Forall (fun w => w < 2 ^ 64) t -> big t < 2 ^ (64 * N.of_nat (length t)).
Proof.
  induction t as [|w r IH]; intros Ht.
  - cbn [big length]. apply N.neq_0_lt_0, N.pow_nonzero. lia.
  - inversion Ht as [|w0 r0 Hw Hr]; subst w0 r0. specialize (IH Hr). cbn [big length].
    replace (64 * N.of_nat (S (length r))) with (64 + 64 * N.of_nat (length r)) by lia.
    rewrite N.pow_add_r. set (P := 2 ^ (64 * N.of_nat (length r))) in *. lia.
Qed.

(* wrapping_add(1) & mask is +1 modulo the number of meaningful bits of the word *)
Lemma mask_mod n x : N.land (wrap64 x) (num_vars_mask n) = x mod 2 ^ word_bits n.
Proof.
  apply N.bits_inj. intro p. rewrite N.land_spec, wrap64_spec, nvmask_testbit.
  pose proof (word_bits_le n) as Hle.
  destruct (N.ltb_spec p (word_bits n)) as [L|L].
  - rewrite N.mod_pow2_bits_low by exact L. destruct (N.ltb_spec p 64) as [L'|L']; [|lia].
    rewrite !andb_true_r. reflexivity.
  - rewrite N.mod_pow2_bits_high by exact L. apply andb_false_r.
Qed.

Lemma next_words_full n t : word_bits n = 64 -> Forall (fun w => w < 2 ^ 64) t ->
  length (fst (next_words (num_vars_mask n) t)) = length t /\
  Forall (fun w => w < 2 ^ 64) (fst (next_words (num_vars_mask n) t)) /\
  big (fst (next_words (num_vars_mask n) t)) = (big t + 1) mod 2 ^ (64 * N.of_nat (length t)) /\
  snd (next_words (num_vars_mask n) t) = negb (big (fst (next_words (num_vars_mask n) t)) =? 0).
Proof.
  intros Hwb. induction t as [|w r IH]; intros Ht.
  - cbn [next_words fst snd big length]. split; [reflexivity|]. split; [constructor|]. split; reflexivity.
  - inversion Ht as [|w0 r0 Hw Hr]; subst w0 r0. specialize (IH Hr).
    pose proof (big_lt64 r Hr) as Hbr.
    cbn [next_words]. rewrite mask_mod, Hwb.
    replace (64 * N.of_nat (length (w :: r))) with (64 + 64 * N.of_nat (length r)) by (cbn [length]; lia).
    rewrite N.pow_add_r. set (P := 2 ^ (64 * N.of_nat (length r))) in *.
    assert (HP : P <> 0) by (apply N.pow_nonzero; lia).
    destruct (N.eqb_spec ((w + 1) mod 2 ^ 64) 0) as [Z|NZ].
    + assert (E : w + 1 = 2 ^ 64).
      { destruct (N.lt_ge_cases (w + 1) (2 ^ 64)) as [L|L]; [|lia].
        rewrite N.mod_small in Z by exact L. lia. }
      destruct (next_words (num_vars_mask n) r) as [r' ok]. cbn [fst snd] in IH |- *.
      destruct IH as [I1 [I2 [I3 I4]]]. rewrite Z. cbn [length big]. split; [lia|]. split.
      * constructor; [lia|exact I2].
      * replace (w + 2 ^ 64 * big r + 1) with (2 ^ 64 * (big r + 1)) by lia.
        rewrite N.mul_mod_distr_l by (exact HP || lia). rewrite <- I3. split; [lia|].
        rewrite I4. f_equal. destruct (N.eqb_spec (big r') 0) as [Z'|NZ'];
          destruct (N.eqb_spec (0 + 2 ^ 64 * big r') 0) as [Z''|NZ'']; reflexivity || lia.
    + assert (L : w + 1 < 2 ^ 64).
      { destruct (N.lt_ge_cases (w + 1) (2 ^ 64)) as [L|L]; [exact L|].
        assert (E : w + 1 = 2 ^ 64) by lia. rewrite E, N.mod_same in NZ by lia. contradiction. }
      rewrite N.mod_small by exact L. cbn [fst snd length big]. split; [reflexivity|]. split.
      * constructor; [exact L|exact Hr].
      * rewrite N.mod_small by lia. split; [lia|].
        destruct (N.eqb_spec (w + 1 + 2 ^ 64 * big r) 0) as [Z'|NZ']; [lia|reflexivity].
Qed.

Lemma table_bits n : (6 <= n)%nat -> 64 * N.of_nat (table_size n) = 2 ^ N.of_nat n.
Proof.
  intros L. rewrite table_size_N. rewrite Nat.max_l by lia. change 64 with (2 ^ 6).
  rewrite <- N.pow_add_r. f_equal. lia.
Qed.

Lemma word_bits_high n : (6 <= n)%nat -> word_bits n = 64.
Proof. intros L. unfold word_bits. rewrite Nat.min_r by lia. reflexivity. Qed.

Lemma word_bits_low n : (n <= 6)%nat -> word_bits n = 2 ^ N.of_nat n.
Proof. intros L. unfold word_bits. rewrite Nat.min_l by lia. reflexivity. Qed.

Lemma table_size_low n : (n <= 6)%nat -> table_size n = 1%nat.
Proof. intros L. unfold table_size. rewrite Nat.max_r by lia. reflexivity. Qed.

Lemma next_sem n t : wf n t ->
  exists t' ok, next_inplace n t = Ok (t', ok) /\ wf n t' /\
                big t' = (big t + 1) mod 2 ^ (2 ^ N.of_nat n) /\ ok = negb (big t' =? 0).
Proof.
  intros Hwf. unfold next_inplace, chk_len. rewrite (wf_length n t Hwf), Nat.eqb_refl. cbn [dbg bind].
  destruct (Nat.lt_ge_cases n 6) as [Lo|Hi].
  - destruct Hwf as [Hl Hw]. rewrite table_size_low in Hl by lia.
    destruct t as [|w [|w2 r]]; try discriminate Hl.
    inversion Hw as [|w0 r0 Hw0 _]; subst w0 r0.
    cbn [next_words]. rewrite mask_mod. rewrite <- (word_bits_low n) by lia.
    set (w' := (w + 1) mod 2 ^ word_bits n).
    assert (Hw' : w' < 2 ^ word_bits n) by (apply N.mod_lt, N.pow_nonzero; lia).
    assert (Hwf' : wf n [w']).
    { split; [rewrite table_size_low by lia; reflexivity|]. constructor; [exact Hw'|constructor]. }
    assert (Hbig : big [w'] = (big [w] + 1) mod 2 ^ word_bits n).
    { cbn [big]. unfold w'. rewrite N.mul_0_r, !N.add_0_r. reflexivity. }
    destruct (N.eqb_spec w' 0) as [Z|NZ].
    + exists [w'], false. split; [reflexivity|]. split; [exact Hwf'|]. split; [exact Hbig|].
      cbn [big]. rewrite Z. reflexivity.
    + exists [w'], true. split; [reflexivity|]. split; [exact Hwf'|]. split; [exact Hbig|].
      cbn [big]. destruct (N.eqb_spec (w' + 2 ^ 64 * 0) 0) as [Z'|NZ']; [lia|reflexivity].
  - pose proof (word_bits_high n Hi) as Hwb.
    destruct (next_words_full n t Hwb (wf_Forall64 n t Hwf)) as [I1 [I2 [I3 I4]]].
    exists (fst (next_words (num_vars_mask n) t)), (snd (next_words (num_vars_mask n) t)).
    split; [rewrite <- surjective_pairing; reflexivity|]. split; [|split].
    + split; [rewrite I1; apply (wf_length n t Hwf)|]. rewrite Hwb. exact I2.
    + rewrite I3. rewrite (wf_length n t Hwf), table_bits by exact Hi. reflexivity.
    + exact I4.
Qed.

(* ------------------------------------------------------------------ the zero table (start of the enumeration) *)
Lemma map_const_repeat {A} (c : A) (l : list A) : map (fun _ => c) l = repeat c (length l).
Proof. induction l as [|x l IH]; cbn [map length repeat]; [reflexivity|rewrite IH; reflexivity]. Qed.

Lemma D_zero_eq n : D_zero n = Ok (mkLut n (repeat 0 (table_size n))).
Proof.
  unfold D_zero, with_tbl, fill_zero, chk_len, lut_new. cbn [tbl nv].
  rewrite repeat_length, Nat.eqb_refl. cbn [dbg bind].
  rewrite map_const_repeat, repeat_length. reflexivity.
Qed.

Lemma nthN_repeat0 k i : nthN (repeat 0 k) i = 0.
Proof.
  unfold nthN. revert i. induction k as [|k IH]; intros [|i]; cbn [repeat nth]; try reflexivity. apply IH.
Qed.

Lemma val_zero k m : val (repeat 0 k) m = false.
Proof. unfold val. rewrite nthN_repeat0. apply N.bits_0. Qed.

Lemma wf_zero n : wf n (repeat 0 (table_size n)).
Proof.
  split; [apply repeat_length|]. apply Forall_forall. intros x Hx. apply repeat_spec in Hx. subst x.
  apply N.neq_0_lt_0, N.pow_nonzero. lia.
Qed.

Lemma big_zero k : big (repeat 0 k) = 0.
Proof. induction k as [|k IH]; cbn [repeat big]; [reflexivity|rewrite IH; reflexivity]. Qed.

(* ------------------------------------------------------------------ the iterator *)
Open Scope res_scope.

(* state of the iterator after k calls to next() *)
Fixpoint iter_after (k : nat) (st : iter_state) : res iter_state :=
  match k with
  | O => Ok st
  | S k' => let* st' := iter_after k' st in let* r := iter_next st' in Ok (snd r)
  end.

(* the item returned by call number k (counting from 0) on Lut::all_functions(n) *)
Definition iter_item (n k : nat) : res (option lut) :=
  let* st0 := D_all_functions n in let* st := iter_after k st0 in let* r := iter_next st in Ok (fst r).

Lemma iter_after_inv n k :
  exists t ok, iter_after k (mkLut n (repeat 0 (table_size n)), true) = Ok (mkLut n t, ok) /\ wf n t /\
    (N.of_nat k < 2 ^ (2 ^ N.of_nat n) -> big t = N.of_nat k /\ ok = true) /\
    (2 ^ (2 ^ N.of_nat n) <= N.of_nat k -> ok = false).
Proof.
  induction k as [|k IH].
  - exists (repeat 0 (table_size n)), true. cbn [iter_after]. split; [reflexivity|]. split; [apply wf_zero|].
    split.
    + intros _. split; [apply big_zero|reflexivity].
    + intros H. exfalso. assert (0 < 2 ^ (2 ^ N.of_nat n)) by (apply N.neq_0_lt_0, N.pow_nonzero; lia). lia.
  - destruct IH as [t [ok [E [Hwf [Hlo Hhi]]]]]. cbn [iter_after]. rewrite E. cbn [bind].
    destruct (N.lt_ge_cases (N.of_nat k) (2 ^ (2 ^ N.of_nat n))) as [L|G].
    + destruct (Hlo L) as [Hb ->]. unfold iter_next. cbn [negb nv tbl].
      destruct (next_sem n t Hwf) as [t' [ok' [E' [Hwf' [Hb' Hok']]]]]. rewrite E'. cbn [bind snd].
      exists t', ok'. split; [reflexivity|]. split; [exact Hwf'|]. rewrite Hb in Hb'.
      replace (N.of_nat (S k)) with (N.of_nat k + 1) by lia. split.
      * intros L'. rewrite N.mod_small in Hb' by exact L'. split; [exact Hb'|].
        rewrite Hok', Hb'. destruct (N.eqb_spec (N.of_nat k + 1) 0) as [Z|NZ]; [lia|reflexivity].
      * intros G'. assert (Ek : N.of_nat k + 1 = 2 ^ (2 ^ N.of_nat n)) by lia.
        rewrite Ek, N.mod_same in Hb' by (apply N.pow_nonzero; lia). rewrite Hok', Hb'. reflexivity.
    + rewrite (Hhi G). unfold iter_next. cbn [negb bind snd].
      exists t, false. split; [reflexivity|]. split; [exact Hwf|]. split; intros H; [lia|reflexivity].
Qed.

(* call number k < 2^(2^n) yields the table whose number is k *)
Lemma iter_item_some n k : N.of_nat k < 2 ^ (2 ^ N.of_nat n) ->
  exists l, iter_item n k = Ok (Some l) /\ nv l = n /\ wf n (tbl l) /\ big (tbl l) = N.of_nat k.
Proof.
  intros L. unfold iter_item, D_all_functions. rewrite D_zero_eq. cbn [bind].
  destruct (iter_after_inv n k) as [t [ok [E [Hwf [Hlo _]]]]]. destruct (Hlo L) as [Hb ->].
  rewrite E. cbn [bind]. unfold iter_next. cbn [negb nv tbl].
  destruct (next_sem n t Hwf) as [t' [ok' [E' _]]]. rewrite E'. cbn [bind fst].
  exists (mkLut n t). split; [reflexivity|]. cbn [nv tbl]. auto.
Qed.

(* from call number 2^(2^n) on, the iterator is exhausted *)
Lemma iter_item_none n k : 2 ^ (2 ^ N.of_nat n) <= N.of_nat k -> iter_item n k = Ok None.
Proof.
  intros G. unfold iter_item, D_all_functions. rewrite D_zero_eq. cbn [bind].
  destruct (iter_after_inv n k) as [t [ok [E [Hwf [_ Hhi]]]]]. rewrite (Hhi G) in E.
  rewrite E. cbn [bind]. unfold iter_next. cbn [negb bind fst]. reflexivity.
Qed.

(* every well-formed table is yielded, at the position given by its number, and nowhere else *)
Lemma iter_complete n t : wf n t -> iter_item n (N.to_nat (big t)) = Ok (Some (mkLut n t)).
Proof.
  intros Hwf. pose proof (big_lt n t Hwf) as Hlt.
  destruct (iter_item_some n (N.to_nat (big t))) as [l [E [Hn [Hwf' Hb]]]]; [rewrite N2Nat.id; exact Hlt|].
  rewrite E. rewrite N2Nat.id in Hb. destruct l as [n' t']. cbn [nv tbl] in *. subst n'.
  rewrite (wf_big_inj n t' t Hwf' Hwf Hb). reflexivity.
Qed.

Lemma iter_unique n k1 k2 l : iter_item n k1 = Ok (Some l) -> iter_item n k2 = Ok (Some l) -> k1 = k2.
Proof.
  intros E1 E2.
  destruct (N.lt_ge_cases (N.of_nat k1) (2 ^ (2 ^ N.of_nat n))) as [L1|G1];
    [|rewrite (iter_item_none n k1 G1) in E1; discriminate].
  destruct (N.lt_ge_cases (N.of_nat k2) (2 ^ (2 ^ N.of_nat n))) as [L2|G2];
    [|rewrite (iter_item_none n k2 G2) in E2; discriminate].
  destruct (iter_item_some n k1 L1) as [l1 [F1 [_ [_ B1]]]].
  destruct (iter_item_some n k2 L2) as [l2 [F2 [_ [_ B2]]]].
  rewrite E1 in F1. rewrite E2 in F2. injection F1 as <-. injection F2 as <-. lia.
Qed.
