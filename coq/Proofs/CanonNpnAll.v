(* NPN canonization for every n <= 31 (the bound of xor_bit32 in the certificate reconstruction), not only n <= 8:
   the product of the two general coverage theorems - Proofs/SjtAll.v (the Steinhaus-Johnson-Trotter swap walk visits
   every permutation, any n >= 2) and Proofs/GrayAll.v (the Gray-code flip walk visits every complementation mask, any
   n >= 1) - combined with the generic walk lemma npn_generic of Proofs/CanonWalk.v and the orbit argument of
   Proofs/CanonOrbit.v. For n <= 1 npn_canonization delegates to n_canonization (Proofs/CanonAllN.v).
   Same statements as Properties/C05.v (C05_npn, C05_already_canonical) and Properties/C04.v (C04_npn_min, C04_npn_cmp,
   C04_npn_idempotent, C04_npn_same_rep_iff) with (n <= 31) instead of (n <= 8). *)
From Coq Require Import List NArith Arith Bool Lia.
From V Require Import Base.Res Model.Kernels Base.Bits Model.Canon Spec.Bfun Spec.Transform
  Proofs.Wf Proofs.Order Proofs.Coverage Proofs.ActGroup Proofs.CanonWalk Proofs.CanonOrbit Proofs.GrayAll
  Proofs.CanonAllN Proofs.SjtAll.
Import ListNotations.
Open Scope N_scope.

(* ------------------------------------------------------------------ 1. coverage: product of the two walks, any n >= 2 *)
Lemma p_certs_inv n sw p : In (p, 0) (p_certs n sw) -> In p (perms_after (identity n) sw).
Proof.
  unfold p_certs. intros H. apply in_map_iff in H. destruct H as [q [E Hq]].
  injection E as E. subst q. exact Hq.
Qed.

Lemma n_certs_inv n fl m : In (identity n, m) (n_certs n fl) -> In m (masks_after n 0 fl).
Proof.
  unfold n_certs. intros H. apply in_map_iff in H. destruct H as [k [E Hk]].
  injection E as E. subst k. exact Hk.
Qed.

Theorem coverage_NPN_general : forall n, (2 <= n)%nat ->
  exists sw fl,
    swaps_for n = Ok sw /\ swaps_valid n sw = true /\ swaps_closed n sw = true /\ sw <> [] /\
    flips_for n = Ok fl /\ flips_valid n fl = true /\ flips_closed n fl = true /\ fl <> [] /\
    forall p mask, is_perm n p -> mask < 2 ^ (N.of_nat n + 1) -> In (p, mask) (npn_certs n sw fl).
Proof.
  intros n Hn.
  destruct (coverage_P_general n Hn) as [sw [H1 [H2 [H3 [H5 H6]]]]].
  destruct (coverage_N_general n ltac:(lia)) as [fl [G1 [G2 [G3 [G5 G6]]]]].
  exists sw, fl.
  split; [exact H1|]. split; [exact H2|]. split; [exact H3|]. split; [exact H5|].
  split; [exact G1|]. split; [exact G2|]. split; [exact G3|]. split; [exact G5|].
  intros p m Hp Hm. apply npn_certs_in.
  - apply p_certs_inv. exact (H6 p Hp).
  - apply n_certs_inv. exact (G6 m Hm).
Qed.

(* ------------------------------------------------------------------ 2. the main theorem *)
Theorem npn_main_general : forall n t, (n <= 31)%nat -> wf n t ->
  exists c perm mask, npn_canonization n t = Ok (c, perm, mask) /\ wf n c /\ cert_ok n (val t) (val c) perm mask /\
    forall perm' mask' c', is_perm n perm' -> mask' < 2 ^ (N.of_nat n + 1) -> wf n c' ->
      (forall y, y < 2 ^ N.of_nat n -> val c' y = act n perm' mask' (val t) y) -> big c <= big c'.
Proof.
  intros n t Hn Hwf. destruct (Nat.le_gt_cases n 1) as [Hs|Hb].
  - destruct (n_main_general n t Hn Hwf) as [c [mask [E [Hwc [Hcert Hmin]]]]].
    exists c, (identity n), mask. split.
    + unfold npn_canonization. destruct (Nat.leb_spec n 1) as [_|L]; [|lia]. rewrite E. reflexivity.
    + split; [exact Hwc|]. split; [exact Hcert|].
      intros perm' mask' c' Hp Hm Hwc' Hval. rewrite (is_perm_small_id n perm' Hs Hp) in Hval.
      exact (Hmin mask' c' Hm Hwc' Hval).
  - destruct (coverage_NPN_general n ltac:(lia)) as [sw [fl [Hsw [Hv [Hc [Hne [Hfl [Hfv [Hfc [Hfne Hcov]]]]]]]]]].
    destruct (npn_generic n t sw fl ltac:(lia) (le31_lt32 n Hn) Hwf Hsw Hv Hc Hne Hfl Hfv Hfc Hfne)
      as [c [perm [mask [E [Hwc [Hcert Hmin]]]]]].
    exists c, perm, mask. split; [exact E|]. split; [exact Hwc|]. split; [exact Hcert|].
    intros perm' mask' c' Hp Hm. apply Hmin. apply Hcov; assumption.
Qed.

(* ------------------------------------------------------------------ 3. C05 *)
Theorem C05_npn_general : forall n t, (n <= 31)%nat -> wf n t ->
  exists c perm mask, npn_canonization n t = Ok (c, perm, mask) /\ wf n c /\ cert_ok n (val t) (val c) perm mask.
Proof.
  intros n t Hn Hwf. destruct (npn_main_general n t Hn Hwf) as [c [perm [mask [E [Hwc [Hcert _]]]]]].
  exists c, perm, mask. split; [exact E|]. split; assumption.
Qed.

Theorem C05_already_canonical_npn_general : forall n t perm mask, (n <= 31)%nat -> wf n t ->
  npn_canonization n t = Ok (t, perm, mask) -> cert_ok n (val t) (val t) perm mask.
Proof.
  intros n t perm mask Hn Hwf E. destruct (C05_npn_general n t Hn Hwf) as [c [perm' [mask' [E' [_ Hcert]]]]].
  rewrite E in E'. injection E' as <- <- <-. exact Hcert.
Qed.

(* ------------------------------------------------------------------ 4. C04 *)
Theorem C04_npn_min_general : forall n t, (n <= 31)%nat -> wf n t ->
  exists c perm mask, npn_canonization n t = Ok (c, perm, mask) /\
    forall perm' mask' c', is_perm n perm' -> mask' < 2 ^ (N.of_nat n + 1) -> wf n c' ->
      (forall y, y < 2 ^ N.of_nat n -> val c' y = act n perm' mask' (val t) y) -> big c <= big c'.
Proof.
  intros n t Hn Hwf. destruct (npn_main_general n t Hn Hwf) as [c [perm [mask [E [_ [_ Hmin]]]]]].
  exists c, perm, mask. split; [exact E|exact Hmin].
Qed.

Theorem C04_npn_cmp_general : forall n t, (n <= 31)%nat -> wf n t ->
  exists c perm mask, npn_canonization n t = Ok (c, perm, mask) /\
    forall perm' mask' c', is_perm n perm' -> mask' < 2 ^ (N.of_nat n + 1) -> wf n c' ->
      (forall y, y < 2 ^ N.of_nat n -> val c' y = act n perm' mask' (val t) y) -> cmp c c' = Ok Lt \/ c = c'.
Proof.
  intros n t Hn Hwf. destruct (npn_main_general n t Hn Hwf) as [c [perm [mask [E [Hwc [_ Hmin]]]]]].
  exists c, perm, mask. split; [exact E|]. intros perm' mask' c' Hp Hm Hwc' Hval.
  apply (le_big_cmp n); [exact Hwc|exact Hwc'|]. exact (Hmin perm' mask' c' Hp Hm Hwc' Hval).
Qed.

Lemma Knpn_spec_general n : (n <= 31)%nat -> forall t c, wf n t -> Knpn n t c ->
  wf n c /\ equivNPN n (val t) (val c) /\ forall c', wf n c' -> equivNPN n (val t) (val c') -> big c <= big c'.
Proof.
  intros Hn t c Hwf [perm [mask E]].
  destruct (npn_main_general n t Hn Hwf) as [c0 [perm0 [mask0 [E0 [Hwc [[Hp [Hm Hv]] Hmin]]]]]].
  rewrite E in E0. injection E0 as <- <- <-.
  split; [exact Hwc|]. split.
  - exists perm, mask. split; [exact Hp|]. split; [exact Hm|]. exact Hv.
  - intros c' Hwc' [p' [m' [Hp' [Hm' Hv']]]]. exact (Hmin p' m' c' Hp' Hm' Hwc' Hv').
Qed.

Theorem C04_npn_idempotent_general : forall n t, (n <= 31)%nat -> wf n t ->
  exists c perm mask perm' mask',
    npn_canonization n t = Ok (c, perm, mask) /\ npn_canonization n c = Ok (c, perm', mask').
Proof.
  intros n t Hn Hwf.
  destruct (npn_main_general n t Hn Hwf) as [c [perm [mask [E [Hwc _]]]]].
  destruct (npn_main_general n c Hn Hwc) as [c2 [perm' [mask' [E2 _]]]].
  assert (Ec : c2 = c).
  { apply (orbit_idem n (equivNPN n) (equivNPN_sym n) (equivNPN_trans n) (Knpn n)
             (Knpn_spec_general n Hn) t c c2 Hwf).
    - exists perm, mask. exact E.
    - exists perm', mask'. exact E2. }
  subst c2. exists c, perm, mask, perm', mask'. split; assumption.
Qed.

Theorem C04_npn_same_rep_iff_general : forall n t1 t2, (n <= 31)%nat -> wf n t1 -> wf n t2 ->
  exists c1 p1 m1 c2 p2 m2,
    npn_canonization n t1 = Ok (c1, p1, m1) /\ npn_canonization n t2 = Ok (c2, p2, m2) /\
    (c1 = c2 <-> equivNPN n (val t1) (val t2)).
Proof.
  intros n t1 t2 Hn H1 H2.
  destruct (npn_main_general n t1 Hn H1) as [c1 [p1 [m1 [E1 _]]]].
  destruct (npn_main_general n t2 Hn H2) as [c2 [p2 [m2 [E2 _]]]].
  exists c1, p1, m1, c2, p2, m2. split; [exact E1|]. split; [exact E2|].
  apply (orbit_same n (equivNPN n) (equivNPN_sym n) (equivNPN_trans n) (Knpn n) (Knpn_spec_general n Hn)
           t1 t2 c1 c2 H1 H2).
  - exists p1, m1. exact E1.
  - exists p2, m2. exact E2.
Qed.

(* non-vacuity (cheap, n = 3; npn_canonization is not evaluated at large n): the hypotheses of the general theorems are
   met by a concrete well-formed table, the result the theorems speak about is a non-trivial certificate accepted by
   the executable checker, the representative is strictly smaller in the library order, and the generated walks the
   general coverage theorem relies on (SJT swaps, Gray flips) visit a non-identity permutation and a non-zero mask *)
Example npn_general_nonvacuous :
  (3 <= 31)%nat /\ wf 3 [0xd4] /\
  npn_canonization 3 [0xd4] = Ok ([0x17], [1; 0; 2], 10) /\
  cert_okb 3 (val [0xd4]) (val [0x17]) [1; 0; 2] 10 = true /\
  cmp [0x17] [0xd4] = Ok Lt /\
  npn_canonization 3 [0x17] = Ok ([0x17], [0; 1; 2], 0) /\
  (exists sw fl, swaps_for 3 = Ok sw /\ flips_for 3 = Ok fl /\ In ([2; 1; 0], 13) (npn_certs 3 sw fl)).
Proof.
  split; [lia|].
  split; [apply wfb_wf; vm_compute; reflexivity|].
  split; [vm_compute; reflexivity|]. split; [vm_compute; reflexivity|].
  split; [vm_compute; reflexivity|]. split; [vm_compute; reflexivity|].
  destruct (coverage_NPN_general 3 ltac:(lia)) as [sw [fl [Hsw [_ [_ [_ [Hfl [_ [_ [_ Hcov]]]]]]]]]].
  exists sw, fl. split; [exact Hsw|]. split; [exact Hfl|].
  apply Hcov.
  - unfold is_perm. vm_compute. apply Permutation.Permutation_rev with (l := [2; 1; 0]).
  - vm_compute. reflexivity.
Qed.
