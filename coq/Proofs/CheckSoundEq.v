(* Soundness of the executable checkers [ecube_sem_eqb] / [chk_ecube_eq] (C13: equality of exclusive cubes is semantic
   equality) and [cube_sem_eqb] / [chk_cube_eq] (C12: every contradictory result is the one canonical zero cube, so
   cube equality is semantic equality) of Checkers/Check.v.
   Each checker decides exactly "r holds exactly when the two operands evaluate alike on every assignment", and the
   model's structural equality passes.
   Side conditions:
   - exclusive cubes: NONE for the characterisation of the checker (both sides read the 32 low bits of the masks only);
     [evars < 2^32] for "the structural equality of the model is the semantic one" (see the Example);
   - cubes: [c32] (both masks below 2^32) for the characterisation (see the Example), plus [canon] for the structural
     equality of the model.
   "Every assignment" is every [m : N]; the variants [_32] say the same with [m < 2^32] (the model reads the 32 low bits
   of an assignment only, so the two are equivalent; both are proved). *)
From Coq Require Import List NArith ZArith Arith Bool Lia.
From V Require Import Base.Res Gen.Tables Model.Kernels Model.TwoLevel Base.Bits Spec.Bfun
  Proofs.CubeProofs Proofs.EcubeProofs Checkers.Check Proofs.CheckSoundCube.
From V Require Proofs.CheckSoundTwoLevel.
Import ListNotations.
Open Scope N_scope.

(* ================================================================== 1. exclusive cubes (C13) *)

(* the checker compares the values at zero and at the 32 single-variable assignments *)
Lemma ecube_sem_eqb_points a b :
  ecube_sem_eqb a b = true <->
  ecube_value a 0 = ecube_value b 0 /\ forall v, v < 32 -> ecube_value a (2 ^ v) = ecube_value b (2 ^ v).
Proof.
  unfold ecube_sem_eqb. rewrite forallb_forall. split.
  - intros H. split.
    + pose proof (H 0 (or_introl eq_refl)) as E. apply eqb_prop in E. rewrite !spec_ecube_value_eq in E. exact E.
    + intros v Hv.
      assert (I : In (2 ^ v) (0 :: map (fun v => 2 ^ v) vars32)).
      { right. apply (in_map (fun v => 2 ^ v)). apply In_vars32. exact Hv. }
      pose proof (H _ I) as E. apply eqb_prop in E. rewrite !spec_ecube_value_eq in E. exact E.
  - intros [H0 H1] m Hm. rewrite !spec_ecube_value_eq. destruct Hm as [Hm|Hm].
    + subst m. rewrite H0. apply eqb_reflx.
    + apply in_map_iff in Hm. destruct Hm as [v [Hm Hv]]. subst m. apply In_vars32 in Hv.
      rewrite (H1 v Hv). apply eqb_reflx.
Qed.

(* the value at 0 is the xnor flag, the value at 2^v differs from it exactly when v is a variable of the term *)
Lemma ecube_eq_points a b : evars a < 2 ^ 32 -> evars b < 2 ^ 32 ->
  ecube_value a 0 = ecube_value b 0 ->
  (forall v, v < 32 -> ecube_value a (2 ^ v) = ecube_value b (2 ^ v)) -> a = b.
Proof.
  intros Ha Hb H0 H1.
  assert (X : exnor a = exnor b) by (rewrite <- !ecube_value_0; exact H0).
  apply ecube_ext; [|exact X]. apply N.bits_inj. intro v.
  destruct (N.lt_ge_cases v 32) as [L|L].
  - pose proof (H1 v L) as E. rewrite !ecube_value_pow2, X in E by exact L.
    destruct (N.testbit (evars a) v), (N.testbit (evars b) v), (exnor b); auto; discriminate E.
  - rewrite (bit_hi32 _ _ Ha L), (bit_hi32 _ _ Hb L). reflexivity.
Qed.

(* the value reads the 32 low bits of the variable mask only *)
Definition ecube_wrap (e : ecube) : ecube := mkEcube (wrap32 (evars e)) (exnor e).

Lemma ecube_value_wrap e m : ecube_value (ecube_wrap e) m = ecube_value e m.
Proof.
  unfold ecube_value, ecube_wrap. cbv zeta. cbn [evars exnor]. f_equal. f_equal. f_equal.
  apply N.bits_inj. intro p. rewrite !N.land_spec, !wrap32_spec.
  destruct (N.testbit (evars e) p), (N.testbit m p), (p <? 32); reflexivity.
Qed.

Lemma ecube_wrap_lt e : evars (ecube_wrap e) < 2 ^ 32.
Proof. unfold ecube_wrap. cbn [evars]. apply wrap32_lt. Qed.

(* requested with [evars a < 2^32] and [evars b < 2^32]: neither is needed *)
Theorem ecube_sem_eqb_iff a b :
  ecube_sem_eqb a b = true <-> forall m, ecube_value a m = ecube_value b m.
Proof.
  rewrite ecube_sem_eqb_points. split.
  - intros [H0 H1] m.
    assert (E : ecube_wrap a = ecube_wrap b).
    { apply ecube_eq_points; try apply ecube_wrap_lt.
      - rewrite !ecube_value_wrap. exact H0.
      - intros v Hv. rewrite !ecube_value_wrap. apply H1. exact Hv. }
    rewrite <- (ecube_value_wrap a), <- (ecube_value_wrap b), E. reflexivity.
  - intros H. split; [apply H|]. intros v _. apply H.
Qed.

(* the same over the assignments below 2^32 *)
Theorem ecube_sem_eqb_iff_32 a b :
  ecube_sem_eqb a b = true <-> forall m, m < 2 ^ 32 -> ecube_value a m = ecube_value b m.
Proof.
  split.
  - intros H m _. apply (proj1 (ecube_sem_eqb_iff a b) H).
  - intros H. apply ecube_sem_eqb_points. split.
    + apply H. reflexivity.
    + intros v Hv. apply H. apply pow2_lt32. exact Hv.
Qed.

(* with masks below 2^32, the function determines the term *)
Theorem ecube_sem_eqb_eq a b : evars a < 2 ^ 32 -> evars b < 2 ^ 32 -> (ecube_sem_eqb a b = true <-> a = b).
Proof.
  intros Ha Hb. rewrite ecube_sem_eqb_iff_32. symmetry. apply ecube_eq_semantic; assumption.
Qed.

Lemma bool_iff_eq (r x : bool) (P : Prop) : (x = true <-> P) -> (r = x <-> (r = true <-> P)).
Proof.
  intros X. split.
  - intros ->. exact X.
  - intros H. apply bool_eq_iff. rewrite X. exact H.
Qed.

Theorem chk_ecube_eq_iff a b r :
  chk_ecube_eq a b r = true <-> (r = true <-> forall m, ecube_value a m = ecube_value b m).
Proof. unfold chk_ecube_eq. rewrite eqb_true_iff. apply bool_iff_eq. apply ecube_sem_eqb_iff. Qed.

Theorem chk_ecube_eq_iff_32 a b r :
  chk_ecube_eq a b r = true <-> (r = true <-> forall m, m < 2 ^ 32 -> ecube_value a m = ecube_value b m).
Proof. unfold chk_ecube_eq. rewrite eqb_true_iff. apply bool_iff_eq. apply ecube_sem_eqb_iff_32. Qed.

(* the structural equality of the model IS the semantic one *)
Theorem ecube_sem_eqb_model a b : evars a < 2 ^ 32 -> evars b < 2 ^ 32 -> ecube_sem_eqb a b = ecube_eqb a b.
Proof.
  intros Ha Hb. apply bool_eq_iff.
  rewrite (ecube_sem_eqb_eq a b Ha Hb), CheckSoundTwoLevel.ecube_eqb_iff. reflexivity.
Qed.

Theorem chk_ecube_eq_model a b : evars a < 2 ^ 32 -> evars b < 2 ^ 32 -> chk_ecube_eq a b (ecube_eqb a b) = true.
Proof.
  intros Ha Hb. unfold chk_ecube_eq. rewrite (ecube_sem_eqb_model a b Ha Hb). apply eqb_reflx.
Qed.

(* the bounds are needed there: a mask with a bit beyond the u32 range denotes the same function as the mask without
   it, and is structurally different *)
Example chk_ecube_eq_model_needs_bound :
  chk_ecube_eq (mkEcube (2 ^ 32) false) (mkEcube 0 false) (ecube_eqb (mkEcube (2 ^ 32) false) (mkEcube 0 false)) = false.
Proof. vm_compute. reflexivity. Qed.

(* ================================================================== 2. cubes (C12) *)

Lemma contradictory_false_iff c : cube_contradictory c = false <-> N.land (cpos c) (cneg c) = 0.
Proof. unfold cube_contradictory. rewrite negb_false_iff, N.eqb_eq. reflexivity. Qed.

Lemma contradictory_true_iff c : cube_contradictory c = true <-> N.land (cpos c) (cneg c) <> 0.
Proof. unfold cube_contradictory. rewrite negb_true_iff, N.eqb_neq. reflexivity. Qed.

(* it is the model's test *)
Lemma contradictory_is_zero c : cube_contradictory c = cube_is_zero c.
Proof. reflexivity. Qed.

(* a contradictory cube is false everywhere *)
Lemma contradictory_value c m : c32 c -> cube_contradictory c = true -> cube_value c m = false.
Proof.
  intros Hc H. destruct (cube_value c m) eqn:V; [|reflexivity].
  apply (value_sem c m Hc) in V. apply (sat_disjoint c m Hc) in V.
  apply contradictory_true_iff in H. contradiction.
Qed.

(* a cube that is not contradictory is true on its positive mask *)
Lemma consistent_value c : c32 c -> cube_contradictory c = false -> cube_value c (cpos c) = true.
Proof.
  intros Hc H. apply (value_sem c _ Hc). apply sat_pos_witness. apply contradictory_false_iff. exact H.
Qed.

Lemma cube_sem_eqb_true_iff a b :
  cube_sem_eqb a b = true <->
  (cube_contradictory a = true /\ cube_contradictory b = true) \/
  (cube_contradictory a = false /\ cube_contradictory b = false /\ a = b).
Proof.
  unfold cube_sem_eqb. destruct (cube_contradictory a) eqn:Ka.
  - split.
    + intros H. left. split; [reflexivity|exact H].
    + intros [[_ H]|[H _]]; [exact H|discriminate H].
  - rewrite !andb_true_iff, negb_true_iff, !N.eqb_eq. split.
    + intros [Kb [P Q]]. right. split; [reflexivity|]. split; [exact Kb|]. apply cube_ext; assumption.
    + intros [[H _]|[_ [Kb E]]]; [discriminate H|]. subst b. split; [exact Kb|]. split; reflexivity.
Qed.

(* the core, with the weaker hypothesis in the direction "same function -> accepted" *)
Lemma cube_sem_eqb_sound a b : c32 a -> c32 b ->
  cube_sem_eqb a b = true -> forall m, cube_value a m = cube_value b m.
Proof.
  intros Ha Hb H m. apply cube_sem_eqb_true_iff in H. destruct H as [[Ka Kb]|[_ [_ E]]].
  - rewrite (contradictory_value a m Ha Ka), (contradictory_value b m Hb Kb). reflexivity.
  - subst b. reflexivity.
Qed.

Lemma cube_sem_eqb_complete a b : c32 a -> c32 b ->
  (forall m, m < 2 ^ 32 -> cube_value a m = cube_value b m) -> cube_sem_eqb a b = true.
Proof.
  intros Ha Hb H. apply cube_sem_eqb_true_iff.
  destruct (cube_contradictory a) eqn:Ka; destruct (cube_contradictory b) eqn:Kb.
  - left. split; reflexivity.
  - exfalso. pose proof (consistent_value b Hb Kb) as V.
    rewrite <- (H _ (proj1 Hb)), (contradictory_value a _ Ha Ka) in V. discriminate V.
  - exfalso. pose proof (consistent_value a Ha Ka) as V.
    rewrite (H _ (proj1 Ha)), (contradictory_value b _ Hb Kb) in V. discriminate V.
  - right. split; [reflexivity|]. split; [reflexivity|].
    apply (eq_semantic a b Ha Hb).
    + left. apply contradictory_false_iff. exact Ka.
    + left. apply contradictory_false_iff. exact Kb.
    + exact H.
Qed.

Theorem cube_sem_eqb_iff a b : c32 a -> c32 b ->
  (cube_sem_eqb a b = true <-> forall m, cube_value a m = cube_value b m).
Proof.
  intros Ha Hb. split.
  - apply cube_sem_eqb_sound; assumption.
  - intros H. apply cube_sem_eqb_complete; try assumption. intros m _. apply H.
Qed.

Theorem cube_sem_eqb_iff_32 a b : c32 a -> c32 b ->
  (cube_sem_eqb a b = true <-> forall m, m < 2 ^ 32 -> cube_value a m = cube_value b m).
Proof.
  intros Ha Hb. split.
  - intros H m _. apply cube_sem_eqb_sound; assumption.
  - apply cube_sem_eqb_complete; assumption.
Qed.

(* [c32] is needed: a literal beyond the u32 range makes the model's value false everywhere, like the zero cube, and
   the mask test sees two different consistent cubes *)
Example cube_sem_eqb_needs_c32 :
  cube_sem_eqb (mkCube (2 ^ 32) 0) cube_zero = false /\
  (forall m, cube_value (mkCube (2 ^ 32) 0) m = cube_value cube_zero m).
Proof.
  split; [vm_compute; reflexivity|]. intros m. rewrite value_zero.
  unfold cube_value. cbv zeta. cbn [cpos cneg]. apply andb_false_iff. left. apply N.eqb_neq. intros E.
  apply (f_equal (fun x => N.testbit x 32)) in E. rewrite N.lor_spec, not32_spec in E.
  rewrite N.pow2_bits_true in E. change (N.testbit ones32 32) with false in E.
  change (32 <? 32) with false in E. rewrite orb_true_r in E. discriminate E.
Qed.

Theorem chk_cube_eq_iff a b r : c32 a -> c32 b ->
  (chk_cube_eq a b r = true <-> (r = true <-> forall m, cube_value a m = cube_value b m)).
Proof.
  intros Ha Hb. unfold chk_cube_eq. rewrite eqb_true_iff. apply bool_iff_eq. apply cube_sem_eqb_iff; assumption.
Qed.

Theorem chk_cube_eq_iff_32 a b r : c32 a -> c32 b ->
  (chk_cube_eq a b r = true <-> (r = true <-> forall m, m < 2 ^ 32 -> cube_value a m = cube_value b m)).
Proof.
  intros Ha Hb. unfold chk_cube_eq. rewrite eqb_true_iff. apply bool_iff_eq. apply cube_sem_eqb_iff_32; assumption.
Qed.

(* the same with the side condition of the other cube checkers *)
Theorem chk_cube_eq_within k a b r : (k <= 32)%nat -> cube_within k a = true -> cube_within k b = true ->
  (chk_cube_eq a b r = true <-> (r = true <-> forall m, cube_value a m = cube_value b m)).
Proof.
  intros Hk Wa Wb. apply chk_cube_eq_iff; eapply within_c32; eassumption.
Qed.

(* on canonical cubes (consistent, or THE zero cube) the structural equality of the model is the semantic one *)
Theorem cube_sem_eqb_model a b : c32 a -> c32 b -> canon a -> canon b -> cube_sem_eqb a b = cube_eqb a b.
Proof.
  intros Ha Hb Ca Cb. apply bool_eq_iff.
  rewrite (cube_sem_eqb_iff_32 a b Ha Hb), cube_eqb_eq. symmetry. apply eq_semantic; assumption.
Qed.

Theorem chk_cube_eq_model a b : c32 a -> c32 b -> canon a -> canon b -> chk_cube_eq a b (cube_eqb a b) = true.
Proof.
  intros Ha Hb Ca Cb. unfold chk_cube_eq. rewrite (cube_sem_eqb_model a b Ha Hb Ca Cb). apply eqb_reflx.
Qed.

(* without any side condition: the checker compares the normalised operands structurally, i.e. every contradictory
   cube is identified with the one canonical zero cube *)
Theorem cube_sem_eqb_normalize a b : cube_sem_eqb a b = cube_eqb (cube_normalize a) (cube_normalize b).
Proof.
  apply bool_eq_iff. rewrite cube_sem_eqb_true_iff, cube_eqb_eq. unfold cube_normalize.
  change (cube_is_zero a) with (cube_contradictory a). change (cube_is_zero b) with (cube_contradictory b).
  destruct (cube_contradictory a) eqn:Ka; destruct (cube_contradictory b) eqn:Kb.
  - split; [reflexivity|]. intros _. left. split; reflexivity.
  - split.
    + intros [[_ H]|[H _]]; discriminate H.
    + intros E. subst b. discriminate Kb.
  - split.
    + intros [[H _]|[_ [H _]]]; discriminate H.
    + intros E. subst a. discriminate Ka.
  - split.
    + intros [[H _]|[_ [_ E]]]; [discriminate H|exact E].
    + intros E. right. split; [reflexivity|]. split; [reflexivity|exact E].
Qed.

(* canonicity is needed for the model's structural equality: a contradictory cube that was not normalised denotes
   the zero function and differs from the zero cube *)
Example chk_cube_eq_model_needs_canon :
  c32 (mkCube 1 1) /\ chk_cube_eq (mkCube 1 1) cube_zero (cube_eqb (mkCube 1 1) cube_zero) = false.
Proof. split; [split; reflexivity|vm_compute; reflexivity]. Qed.
