(* C08, last clause: the order on truth tables (same number of variables) is the lexicographic (byte-wise) order of
   their fixed-width hexadecimal strings, and of their binary strings; printing is injective on well-formed tables. *)
From Coq Require Import List NArith Arith Bool Lia.
From V Require Import Base.Res Gen.Tables Model.Kernels Model.Api Base.Bits Spec.Bfun Proofs.Wf Proofs.Order
  Proofs.ApiTransforms Proofs.Text.
Import ListNotations.
Open Scope N_scope.

(* lexicographic comparison of byte strings (what Rust's `str`/`String` Ord does; on ASCII strings bytes = chars) *)
Fixpoint bytes_compare (a b : list N) : comparison :=
  match a, b with
  | [], [] => Eq
  | [], _ => Lt
  | _, [] => Gt
  | x :: a', y :: b' => match x ?= y with Eq => bytes_compare a' b' | c => c end
  end.

Lemma bytes_compare_lex a : forall b, bytes_compare a b = lex_cmp a b.
Proof.
  induction a as [|x a IH]; intros [|y b]; cbn [bytes_compare lex_cmp]; try reflexivity.
  all: rewrite IH; reflexivity.
Qed.

Lemma bytes_compare_def :
  bytes_compare [] [] = Eq /\
  (forall y b, bytes_compare [] (y :: b) = Lt) /\
  (forall x a, bytes_compare (x :: a) [] = Gt) /\
  (forall x a y b, bytes_compare (x :: a) (y :: b) = match x ?= y with Eq => bytes_compare a b | c => c end).
Proof. repeat split; reflexivity. Qed.

Lemma bytes_compare_refl a : bytes_compare a a = Eq.
Proof. induction a as [|x a IH]; cbn [bytes_compare]; [reflexivity|]. rewrite N.compare_refl. exact IH. Qed.

(* ------------------------------------------------------------------ digit characters are strictly monotone *)
Lemma digit_char_compare d e : d < 16 -> e < 16 -> (digit_char d ?= digit_char e) = (d ?= e).
Proof.
  intros Hd He. unfold digit_char.
  destruct (N.ltb_spec d 10) as [D|D]; destruct (N.ltb_spec e 10) as [E|E];
    destruct (N.compare_spec d e) as [C|C|C];
    (apply N.compare_eq_iff || apply N.compare_lt_iff || apply N.compare_gt_iff); lia.
Qed.

(* ------------------------------------------------------------------ one word: fixed-width digit strings compare like the numbers *)
Lemma compare_split_base base x y A B : x < base -> y < base ->
  (base * A + x ?= base * B + y) = match A ?= B with Eq => x ?= y | c => c end.
Proof.
  intros Hx Hy. destruct (N.compare_spec A B) as [E|L|G].
  - subst B. destruct (N.compare_spec x y) as [E|L|G];
      [apply N.compare_eq_iff|apply N.compare_lt_iff|apply N.compare_gt_iff]; lia.
  - apply N.compare_lt_iff. nia.
  - apply N.compare_gt_iff. nia.
Qed.

Lemma lex_cmp_digs base L : 2 <= base -> base <= 16 ->
  forall x y, x < base ^ N.of_nat L -> y < base ^ N.of_nat L ->
  lex_cmp (map digit_char (digs base x L)) (map digit_char (digs base y L)) = (x ?= y).
Proof.
  intros Hb Hb16. assert (Hb0 : base <> 0) by lia.
  induction L as [|L IH]; intros x y Hx Hy.
  - change (base ^ N.of_nat 0) with (base ^ 0) in Hx, Hy. rewrite N.pow_0_r in Hx, Hy.
    assert (x = 0) by lia. assert (y = 0) by lia. subst x y. reflexivity.
  - rewrite !digs_snoc by exact Hb0. rewrite !map_app.
    rewrite lex_cmp_app by (rewrite !map_length, !digs_length; reflexivity).
    rewrite Nat2N.inj_succ, N.pow_succ_r' in Hx, Hy.
    rewrite IH by (apply N.div_lt_upper_bound; assumption).
    cbn [map lex_cmp].
    assert (Mx : x mod base < base) by (apply N.mod_lt; exact Hb0).
    assert (My : y mod base < base) by (apply N.mod_lt; exact Hb0).
    rewrite digit_char_compare by lia.
    rewrite (N.div_mod x base Hb0) at 3. rewrite (N.div_mod y base Hb0) at 3.
    rewrite compare_split_base by assumption.
    destruct (x / base ?= y / base); try reflexivity.
    destruct (x mod base ?= y mod base); reflexivity.
Qed.

(* ------------------------------------------------------------------ concatenation of equal-width chunks *)
Lemma lex_cmp_concat_map (f : N -> list N) (P : N -> Prop) (W : nat) :
  (forall x, P x -> length (f x) = W) ->
  (forall x y, P x -> P y -> lex_cmp (f x) (f y) = (x ?= y)) ->
  forall l1 l2, length l1 = length l2 -> Forall P l1 -> Forall P l2 ->
  lex_cmp (concat (map f l1)) (concat (map f l2)) = lex_cmp l1 l2.
Proof.
  intros Hlen Hcmp. induction l1 as [|x l1 IH]; intros [|y l2] Hl H1 H2; cbn [length] in Hl; try discriminate.
  - reflexivity.
  - inversion H1 as [|x0 l0 Px H1']; subst x0 l0. inversion H2 as [|y0 l0 Py H2']; subst y0 l0.
    cbn [map concat lex_cmp].
    rewrite lex_cmp_app by (rewrite !Hlen by assumption; reflexivity).
    rewrite Hcmp by assumption. rewrite IH by (assumption || lia). reflexivity.
Qed.

Lemma Forall_rev_N (P : N -> Prop) l : Forall P l -> Forall P (rev l).
Proof. intros H. apply Forall_forall. intros x Hx. apply in_rev in Hx. rewrite Forall_forall in H. auto. Qed.

(* ------------------------------------------------------------------ the printed forms compare like the reversed word lists *)
Lemma wf_Forall_bounds n t : wf n t ->
  Forall (fun w => w < 2 ^ 64 /\ w < 16 ^ N.of_nat (hex_str_size n) /\ w < 2 ^ N.of_nat (bin_width n)) t.
Proof. intros Hwf. apply Forall_forall. intros w Hin. exact (wf_word_bounds n t w Hwf Hin). Qed.

Lemma lex_cmp_to_hex n a b : wf n a -> wf n b ->
  lex_cmp (to_hex n a) (to_hex n b) = lex_cmp (rev a) (rev b).
Proof.
  intros Ha Hb. unfold to_hex.
  apply (lex_cmp_concat_map _
           (fun w => w < 2 ^ 64 /\ w < 16 ^ N.of_nat (hex_str_size n) /\ w < 2 ^ N.of_nat (bin_width n))
           (hex_str_size n)).
  - intros x (H1 & H2 & _). apply pad_radix_width; [lia|exact H1|exact H2|apply hex_str_size_range].
  - intros x y (X1 & X2 & _) (Y1 & Y2 & _).
    rewrite !pad_radix_digs by (assumption || lia || apply hex_str_size_range).
    apply lex_cmp_digs; (assumption || lia).
  - rewrite !rev_length, (wf_length n a Ha), (wf_length n b Hb). reflexivity.
  - apply Forall_rev_N, wf_Forall_bounds. exact Ha.
  - apply Forall_rev_N, wf_Forall_bounds. exact Hb.
Qed.

Lemma lex_cmp_to_bin n a b : wf n a -> wf n b ->
  lex_cmp (to_bin n a) (to_bin n b) = lex_cmp (rev a) (rev b).
Proof.
  intros Ha Hb. unfold to_bin.
  apply (lex_cmp_concat_map _
           (fun w => w < 2 ^ 64 /\ w < 16 ^ N.of_nat (hex_str_size n) /\ w < 2 ^ N.of_nat (bin_width n))
           (bin_width n)).
  - intros x (H1 & _ & H3). apply pad_radix_width; [lia|exact H1|exact H3|apply bin_width_range].
  - intros x y (X1 & _ & X3) (Y1 & _ & Y3).
    rewrite !pad_radix_digs by (assumption || lia || apply bin_width_range).
    apply lex_cmp_digs; (assumption || lia).
  - rewrite !rev_length, (wf_length n a Ha), (wf_length n b Hb). reflexivity.
  - apply Forall_rev_N, wf_Forall_bounds. exact Ha.
  - apply Forall_rev_N, wf_Forall_bounds. exact Hb.
Qed.

(* ------------------------------------------------------------------ the theorems *)
Theorem cmp_hex : forall n a b, wf n a -> wf n b ->
  cmp a b = Ok (bytes_compare (to_hex n a) (to_hex n b)).
Proof.
  intros n a b Ha Hb. unfold cmp. rewrite (wf_length n a Ha), (wf_length n b Hb), Nat.eqb_refl. cbn [dbg bind].
  f_equal. symmetry. exact (eq_trans (bytes_compare_lex _ _) (lex_cmp_to_hex n a b Ha Hb)).
Qed.

Theorem cmp_bin : forall n a b, wf n a -> wf n b ->
  cmp a b = Ok (bytes_compare (to_bin n a) (to_bin n b)).
Proof.
  intros n a b Ha Hb. unfold cmp. rewrite (wf_length n a Ha), (wf_length n b Hb), Nat.eqb_refl. cbn [dbg bind].
  f_equal. symmetry. exact (eq_trans (bytes_compare_lex _ _) (lex_cmp_to_bin n a b Ha Hb)).
Qed.

Theorem cmp_hex_api : forall a b, lwf a -> lwf b -> nv a = nv b ->
  D_cmp a b = Ok (bytes_compare (D_to_hex_string a) (D_to_hex_string b)).
Proof.
  intros a b Ha Hb E. unfold D_cmp, D_to_hex_string, lwf in *. rewrite E, Nat.eqb_refl. cbn [negb].
  rewrite <- E. apply cmp_hex; [exact Ha|rewrite E; exact Hb].
Qed.

Theorem cmp_bin_api : forall a b, lwf a -> lwf b -> nv a = nv b ->
  D_cmp a b = Ok (bytes_compare (D_to_bin_string a) (D_to_bin_string b)).
Proof.
  intros a b Ha Hb E. unfold D_cmp, D_to_bin_string, lwf in *. rewrite E, Nat.eqb_refl. cbn [negb].
  rewrite <- E. apply cmp_bin; [exact Ha|rewrite E; exact Hb].
Qed.

(* printing is injective on well-formed tables *)
Lemma cmp_Eq_eq n a b : wf n a -> wf n b -> cmp a b = Ok Eq -> a = b.
Proof.
  intros Ha Hb H. destruct Ha as [La Fa]. destruct Hb as [Lb Fb].
  apply (wf_big_inj n); [split; assumption|split; assumption|].
  apply N.compare_eq_iff.
  assert (Hc : cmp a b = Ok (Order.big a ?= Order.big b)).
  { apply cmp_big; [congruence| |];
      (eapply Forall_impl; [|eassumption]); cbv beta; intros w Hw;
      (eapply N.lt_le_trans; [exact Hw|apply pow2_word_bits_le]). }
  rewrite Hc in H. congruence.
Qed.

Theorem to_hex_inj : forall n a b, wf n a -> wf n b -> to_hex n a = to_hex n b -> a = b.
Proof.
  intros n a b Ha Hb E. apply (cmp_Eq_eq n a b Ha Hb).
  rewrite (cmp_hex n a b Ha Hb), E, bytes_compare_refl. reflexivity.
Qed.

Theorem to_bin_inj : forall n a b, wf n a -> wf n b -> to_bin n a = to_bin n b -> a = b.
Proof.
  intros n a b Ha Hb E. apply (cmp_Eq_eq n a b Ha Hb).
  rewrite (cmp_bin n a b Ha Hb), E, bytes_compare_refl. reflexivity.
Qed.
