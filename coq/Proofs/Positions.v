(* Assignments as (word index, bit position) pairs, and how single-bit surgery on an assignment acts on the pair. *)
From Coq Require Import List NArith Arith Bool Lia.
From V Require Import Model.Kernels Base.Bits Spec.Bfun Proofs.Wf.
Import ListNotations.
Open Scope N_scope.

Lemma pow2_testbit i p : N.testbit (2 ^ i) p = (i =? p).
Proof. apply N.pow2_bits_eqb. Qed.

Lemma div64_testbit m p : N.testbit (m / 64) p = N.testbit m (p + 6).
Proof. change 64 with (2 ^ 6). apply N.div_pow2_bits. Qed.

Lemma mod64_testbit m p : N.testbit (m mod 64) p = (p <? 6) && N.testbit m p.
Proof.
  change 64 with (2 ^ 6). destruct (N.ltb_spec p 6).
  - rewrite N.mod_pow2_bits_low by assumption. reflexivity.
  - rewrite N.mod_pow2_bits_high by assumption. reflexivity.
Qed.

Lemma mod64_lt m : m mod 64 < 64.
Proof. apply N.mod_lt. lia. Qed.

Lemma testbit_split m i :
  N.testbit m i = if i <? 6 then N.testbit (m mod 64) i else N.testbit (m / 64) (i - 6).
Proof.
  destruct (N.ltb_spec i 6).
  - rewrite mod64_testbit. apply N.ltb_lt in H. rewrite H. reflexivity.
  - rewrite div64_testbit. f_equal. lia.
Qed.

Lemma flipbit_testbit m i p : N.testbit (flipbit m i) p = xorb (N.testbit m p) (i =? p).
Proof. unfold flipbit. rewrite N.lxor_spec, pow2_testbit. reflexivity. Qed.
Lemma setbit_testbit m i p : N.testbit (setbit m i) p = N.testbit m p || (i =? p).
Proof. unfold setbit. rewrite N.lor_spec, pow2_testbit. reflexivity. Qed.
Lemma clearbit_testbit m i p : N.testbit (clearbit m i) p = N.testbit m p && negb (i =? p).
Proof. unfold clearbit. rewrite N.ldiff_spec, pow2_testbit. reflexivity. Qed.

Lemma swapbits_testbit m i j p :
  N.testbit (swapbits m i j) p =
  if p =? i then N.testbit m j else if p =? j then N.testbit m i else N.testbit m p.
Proof.
  unfold swapbits. destruct (Bool.eqb (N.testbit m i) (N.testbit m j)) eqn:E.
  - apply Bool.eqb_prop in E.
    destruct (N.eqb_spec p i) as [->|Hi]; [exact E|].
    destruct (N.eqb_spec p j) as [->|Hj]; [symmetry; exact E|reflexivity].
  - apply Bool.eqb_false_iff in E. rewrite !flipbit_testbit.
    destruct (N.eqb_spec p i) as [->|Hi].
    + rewrite N.eqb_refl. destruct (N.eqb_spec j i) as [->|Hji]; [congruence|].
      destruct (N.testbit m i), (N.testbit m j); try reflexivity; congruence.
    + destruct (N.eqb_spec i p) as [->|_]; [congruence|].
      destruct (N.eqb_spec p j) as [->|Hj].
      * rewrite N.eqb_refl. destruct (N.testbit m i), (N.testbit m j); try reflexivity; congruence.
      * destruct (N.eqb_spec j p) as [->|_]; [congruence|]. rewrite !xorb_false_r. reflexivity.
Qed.

(* generic: an operation described bit by bit, acting on one low bit position / one high bit position *)
Section Split.
  Variable op : N -> N.
  Variable i : N.
  Variable fb : bool -> bool.      (* what happens to bit i *)
  Hypothesis op_spec : forall m p, N.testbit (op m) p = if i =? p then fb (N.testbit m p) else N.testbit m p.

  Lemma op_low_div m : i < 6 -> op m / 64 = m / 64.
  Proof.
    intros Hi. apply N.bits_inj. intro p. rewrite !div64_testbit, op_spec.
    destruct (N.eqb_spec i (p + 6)); [lia|reflexivity].
  Qed.
  Lemma op_high_mod m : 6 <= i -> op m mod 64 = m mod 64.
  Proof.
    intros Hi. apply N.bits_inj. intro p. rewrite !mod64_testbit, op_spec.
    destruct (N.ltb_spec p 6); [|reflexivity]. destruct (N.eqb_spec i p); [lia|reflexivity].
  Qed.
  Lemma op_lt m n : i < n -> m < 2 ^ n -> op m < 2 ^ n.
  Proof.
    intros Hi Hm. apply lt_pow2_of_bits. intros p Hp. rewrite op_spec.
    destruct (N.eqb_spec i p); [lia|]. apply (testbit_lt_pow2 m n); assumption.
  Qed.
End Split.

Lemma flipbit_spec' i m p : N.testbit (flipbit m i) p = if i =? p then negb (N.testbit m p) else N.testbit m p.
Proof. rewrite flipbit_testbit. destruct (i =? p), (N.testbit m p); reflexivity. Qed.
Lemma setbit_spec' i m p : N.testbit (setbit m i) p = if i =? p then (fun _ => true) (N.testbit m p) else N.testbit m p.
Proof. rewrite setbit_testbit. destruct (i =? p), (N.testbit m p); reflexivity. Qed.
Lemma clearbit_spec' i m p : N.testbit (clearbit m i) p = if i =? p then (fun _ => false) (N.testbit m p) else N.testbit m p.
Proof. rewrite clearbit_testbit. destruct (i =? p), (N.testbit m p); reflexivity. Qed.

(* low index: the word is unchanged, the position is transformed *)
Lemma flipbit_low m i : i < 6 -> flipbit m i / 64 = m / 64 /\ flipbit m i mod 64 = flipbit (m mod 64) i.
Proof.
  intros Hi. split; [apply (op_low_div (fun m => flipbit m i) i negb (flipbit_spec' i)); exact Hi|].
  apply N.bits_inj. intro p. rewrite mod64_testbit, !flipbit_testbit, mod64_testbit.
  destruct (N.ltb_spec p 6); [reflexivity|]. destruct (N.eqb_spec i p); [lia|reflexivity].
Qed.
Lemma setbit_low m i : i < 6 -> setbit m i / 64 = m / 64 /\ setbit m i mod 64 = setbit (m mod 64) i.
Proof.
  intros Hi. split; [apply (op_low_div (fun m => setbit m i) i _ (setbit_spec' i)); exact Hi|].
  apply N.bits_inj. intro p. rewrite mod64_testbit, !setbit_testbit, mod64_testbit.
  destruct (N.ltb_spec p 6); [reflexivity|]. destruct (N.eqb_spec i p); [lia|reflexivity].
Qed.
Lemma clearbit_low m i : i < 6 -> clearbit m i / 64 = m / 64 /\ clearbit m i mod 64 = clearbit (m mod 64) i.
Proof.
  intros Hi. split; [apply (op_low_div (fun m => clearbit m i) i _ (clearbit_spec' i)); exact Hi|].
  apply N.bits_inj. intro p. rewrite mod64_testbit, !clearbit_testbit, mod64_testbit.
  destruct (N.ltb_spec p 6); [reflexivity|]. destruct (N.eqb_spec i p); [lia|reflexivity].
Qed.

(* high index: the position is unchanged, the word index is transformed *)
Lemma flipbit_high m i : 6 <= i -> flipbit m i / 64 = flipbit (m / 64) (i - 6) /\ flipbit m i mod 64 = m mod 64.
Proof.
  intros Hi. split; [|apply (op_high_mod (fun m => flipbit m i) i negb (flipbit_spec' i)); exact Hi].
  apply N.bits_inj. intro p. rewrite div64_testbit, !flipbit_testbit, div64_testbit.
  f_equal. destruct (N.eqb_spec i (p + 6)), (N.eqb_spec (i - 6) p); try reflexivity; lia.
Qed.
Lemma setbit_high m i : 6 <= i -> setbit m i / 64 = setbit (m / 64) (i - 6) /\ setbit m i mod 64 = m mod 64.
Proof.
  intros Hi. split; [|apply (op_high_mod (fun m => setbit m i) i _ (setbit_spec' i)); exact Hi].
  apply N.bits_inj. intro p. rewrite div64_testbit, !setbit_testbit, div64_testbit.
  f_equal. destruct (N.eqb_spec i (p + 6)), (N.eqb_spec (i - 6) p); try reflexivity; lia.
Qed.
Lemma clearbit_high m i : 6 <= i -> clearbit m i / 64 = clearbit (m / 64) (i - 6) /\ clearbit m i mod 64 = m mod 64.
Proof.
  intros Hi. split; [|apply (op_high_mod (fun m => clearbit m i) i _ (clearbit_spec' i)); exact Hi].
  apply N.bits_inj. intro p. rewrite div64_testbit, !clearbit_testbit, div64_testbit.
  f_equal. f_equal. destruct (N.eqb_spec i (p + 6)), (N.eqb_spec (i - 6) p); try reflexivity; lia.
Qed.

Lemma flipbit_lt m i n : i < n -> m < 2 ^ n -> flipbit m i < 2 ^ n.
Proof. apply (op_lt (fun m => flipbit m i) i negb (flipbit_spec' i)). Qed.
Lemma setbit_lt m i n : i < n -> m < 2 ^ n -> setbit m i < 2 ^ n.
Proof. apply (op_lt (fun m => setbit m i) i _ (setbit_spec' i)). Qed.
Lemma clearbit_lt m i n : i < n -> m < 2 ^ n -> clearbit m i < 2 ^ n.
Proof. apply (op_lt (fun m => clearbit m i) i _ (clearbit_spec' i)). Qed.

Lemma swapbits_lt m i j n : i < n -> j < n -> m < 2 ^ n -> swapbits m i j < 2 ^ n.
Proof.
  intros Hi Hj Hm. apply lt_pow2_of_bits. intros p Hp. rewrite swapbits_testbit.
  destruct (N.eqb_spec p i); [lia|]. destruct (N.eqb_spec p j); [lia|].
  apply (testbit_lt_pow2 m n); assumption.
Qed.

(* a bit that is clear / set: + and - agree with xor *)
Lemma add_pow2_clear k b : N.testbit k b = false -> k + 2 ^ b = flipbit k b /\ k + 2 ^ b = setbit k b.
Proof.
  intros H. assert (D : N.land k (2 ^ b) = 0).
  { apply N.bits_inj_0. intro p. rewrite N.land_spec, pow2_testbit.
    destruct (N.eqb_spec b p) as [<-|]; [rewrite H; reflexivity|apply andb_false_r]. }
  split.
  - unfold flipbit. apply N.add_nocarry_lxor. exact D.
  - unfold setbit. apply add_disjoint. exact D.
Qed.

Lemma sub_pow2_set k b : N.testbit k b = true -> k - 2 ^ b = flipbit k b /\ k - 2 ^ b = clearbit k b /\ 2 ^ b <= k.
Proof.
  intros H.
  assert (E : flipbit k b = clearbit k b).
  { apply N.bits_inj. intro p. rewrite flipbit_testbit, clearbit_testbit.
    destruct (N.eqb_spec b p) as [<-|]; [rewrite H; reflexivity|].
    rewrite xorb_false_r, andb_true_r. reflexivity. }
  assert (D : N.testbit (clearbit k b) b = false) by (rewrite clearbit_testbit, N.eqb_refl; apply andb_false_r).
  destruct (add_pow2_clear (clearbit k b) b D) as [_ A].
  assert (S : setbit (clearbit k b) b = k).
  { apply N.bits_inj. intro p. rewrite setbit_testbit, clearbit_testbit.
    destruct (N.eqb_spec b p) as [<-|]; [rewrite H; reflexivity|].
    rewrite andb_true_r, orb_false_r. reflexivity. }
  rewrite S in A. rewrite E. lia.
Qed.
