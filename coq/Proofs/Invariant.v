(* C02: well-formedness is an inductive invariant of the public API (histories of Spec/Calls.v);
   equality, hashing and ordering of well-formed tables are extensional. *)
From Coq Require Import List NArith Arith Bool Lia.
From V Require Import Base.Res Gen.Tables Model.Kernels Model.Canon Model.TwoLevel Model.Api Base.Bits
  Spec.Bfun Spec.Calls Proofs.Wf Proofs.Logic Proofs.Tabulate Proofs.Transforms Proofs.Order Proofs.Constructors
  Proofs.ApiTransforms Proofs.Text Proofs.RandomProofs Proofs.ConvProofs.
Import ListNotations.
Open Scope N_scope.
Open Scope res_scope.

(* ------------------------------------------------------------------ inversion helpers *)
Ltac bind_inv H x Hx := apply bind_ok in H; destruct H as [x [Hx H]].

Lemma with_tbl_inv l r l' : with_tbl l r = Ok l' -> exists t, r = Ok t /\ l' = mkLut (nv l) t.
Proof.
  unfold with_tbl. intros H. bind_inv H t Ht. injection H as <-. exists t. split; [exact Ht|reflexivity].
Qed.

Lemma some_or_panic_inv {A} (r : res (option A)) a : some_or_panic r = Ok a -> r = Ok (Some a).
Proof.
  unfold some_or_panic. intros H. bind_inv H o Ho. destruct o as [a'|]; [|discriminate H].
  injection H as <-. exact Ho.
Qed.

Lemma chk_ind_bad n ind : N.of_nat n <= ind -> chk_ind n ind = PanicDebug.
Proof. intros H. unfold chk_ind. apply N.ltb_ge in H. rewrite H. reflexivity. Qed.

Lemma mapM_inv {A B} (f : A -> res B) (P : B -> Prop) :
  (forall x y, f x = Ok y -> P y) ->
  forall l r, mapM f l = Ok r -> length r = length l /\ Forall P r.
Proof.
  intros HP. induction l as [|x l IH]; intros r H; cbn [mapM] in H.
  - injection H as <-. split; [reflexivity|constructor].
  - bind_inv H y Hy. bind_inv H r' Hr'. injection H as <-. destruct (IH r' Hr') as [L F].
    split; [cbn [length]; rewrite L; reflexivity|]. constructor; [apply (HP x); exact Hy|exact F].
Qed.

(* ------------------------------------------------------------------ kernels: Ok -> well-formed *)
Lemma flip_okwf n t ind t' : wf n t -> flip_inplace n t ind = Ok t' -> wf n t'.
Proof.
  intros W H. destruct (N.lt_ge_cases ind (N.of_nat n)) as [L|G].
  - destruct (flip_sem n t ind W L) as [t2 [E [W2 _]]]. rewrite E in H. injection H as <-. exact W2.
  - unfold flip_inplace in H. rewrite (chk_len_ok n t W), (chk_ind_bad n ind G) in H. discriminate H.
Qed.

Lemma cofactor0_okwf n t ind t' : wf n t -> cofactor0_inplace n t ind = Ok t' -> wf n t'.
Proof.
  intros W H. destruct (N.lt_ge_cases ind (N.of_nat n)) as [L|G].
  - destruct (cofactor0_sem n t ind W L) as [t2 [E [W2 _]]]. rewrite E in H. injection H as <-. exact W2.
  - unfold cofactor0_inplace in H. rewrite (chk_len_ok n t W), (chk_ind_bad n ind G) in H. discriminate H.
Qed.

Lemma cofactor1_okwf n t ind t' : wf n t -> cofactor1_inplace n t ind = Ok t' -> wf n t'.
Proof.
  intros W H. destruct (N.lt_ge_cases ind (N.of_nat n)) as [L|G].
  - destruct (cofactor1_sem n t ind W L) as [t2 [E [W2 _]]]. rewrite E in H. injection H as <-. exact W2.
  - unfold cofactor1_inplace in H. rewrite (chk_len_ok n t W), (chk_ind_bad n ind G) in H. discriminate H.
Qed.

Lemma swap_okwf n t i j t' : wf n t -> swap_inplace n t i j = Ok t' -> wf n t'.
Proof.
  intros W H. destruct (N.lt_ge_cases i (N.of_nat n)) as [Li|Gi].
  - destruct (N.lt_ge_cases j (N.of_nat n)) as [Lj|Gj].
    + destruct (swap_sem n t i j W Li Lj) as [t2 [E [W2 _]]]. rewrite E in H. injection H as <-. exact W2.
    + unfold swap_inplace in H.
      rewrite (chk_len_ok n t W), (chk_ind_ok n i Li), (chk_ind_bad n j Gj) in H. discriminate H.
  - unfold swap_inplace in H. rewrite (chk_len_ok n t W), (chk_ind_bad n i Gi) in H. discriminate H.
Qed.

(* no bound on n: the overflow check of ind + 1 is part of the kernel *)
Lemma swap_adjacent_okwf n t ind t' : wf n t -> swap_adjacent_inplace n t ind = Ok t' -> wf n t'.
Proof.
  intros W H. unfold swap_adjacent_inplace in H. bind_inv H u Hu. apply (swap_okwf n t ind (ind + 1)); assumption.
Qed.

Lemma from_cofactors_okwf n t t0 t1 ind t' : wf n t -> wf n t0 -> wf n t1 ->
  from_cofactors_inplace n t t0 t1 ind = Ok t' -> wf n t'.
Proof.
  intros W W0 W1 H. destruct (N.lt_ge_cases ind (N.of_nat n)) as [L|G].
  - destruct (from_cofactors_sem n t t0 t1 ind W W0 W1 L) as [t2 [E [W2 _]]]. rewrite E in H.
    injection H as <-. exact W2.
  - unfold from_cofactors_inplace in H.
    rewrite (chk_len_ok n t W), (chk_len_ok n t0 W0), (chk_len_ok n t1 W1), (chk_ind_bad n ind G) in H.
    discriminate H.
Qed.

(* ------------------------------------------------------------------ canonization: the representative is well-formed *)
(* a fold of a strict step function preserves an invariant of the states it reaches *)
Lemma fold_panic {S A} (f : res S -> A -> res S) (p : res S) :
  (forall a, f p a = p) -> forall l, fold_left f l p = p.
Proof. intros Hp. induction l as [|a l IH]; cbn [fold_left]; [reflexivity|rewrite Hp; exact IH]. Qed.

Lemma fold_inv {S A} (f : res S -> A -> res S) (P : S -> Prop) :
  (forall a, f PanicAlways a = PanicAlways) -> (forall a, f PanicDebug a = PanicDebug) ->
  (forall st a st', P st -> f (Ok st) a = Ok st' -> P st') ->
  forall l st st', P st -> fold_left f l (Ok st) = Ok st' -> P st'.
Proof.
  intros HA HD Hstep. induction l as [|a l IH]; intros st st' Hst H; cbn [fold_left] in H.
  - injection H as <-. exact Hst.
  - destruct (f (Ok st) a) as [st1| |] eqn:E.
    + apply (IH st1 st'); [apply (Hstep st a st1 Hst E)|exact H].
    + rewrite (fold_panic f PanicAlways HA) in H. discriminate H.
    + rewrite (fold_panic f PanicDebug HD) in H. discriminate H.
Qed.

(* the invariant of the three walks: the current table and the best table so far are well-formed *)
Definition winv (n : nat) (st : wstate) : Prop :=
  let '(t, best, _, _) := st in wf n t /\ wf n best.

Lemma try_best_inv n st st' : winv n st -> try_best st = Ok st' -> winv n st'.
Proof.
  destruct st as [[[t best] bi] ind]. intros [Wt Wb] H. unfold try_best in H. bind_inv H c Hc.
  injection H as <-. destruct c; cbn [winv]; auto.
Qed.

Lemma p_step_inv n st s st' : winv n st -> p_step n (Ok st) s = Ok st' -> winv n st'.
Proof.
  destruct st as [[[t best] bi] ind]. intros [Wt Wb] H. unfold p_step in H. cbn [bind] in H.
  bind_inv H t1 Ht1. apply (try_best_inv n (t1, best, bi, ind) st'); [|exact H].
  split; [apply (swap_adjacent_okwf n t s t1 Wt Ht1)|exact Wb].
Qed.

Lemma two_nots_inv n st st' : winv n st -> two_nots n st = Ok st' -> winv n st'.
Proof.
  destruct st as [[[t best] bi] ind]. intros [Wt Wb] H. unfold two_nots in H. bind_inv H st1 H1.
  assert (I1 : winv n st1).
  { apply (try_best_inv n (not_inplace n t, best, bi, ind) st1); [|exact H1]. split; [apply not_wf; exact Wt|exact Wb]. }
  destruct st1 as [[[t1 best1] bi1] ind1]. destruct I1 as [Wt1 Wb1].
  apply (try_best_inv n (not_inplace n t1, best1, bi1, ind1) st'); [|exact H].
  split; [apply not_wf; exact Wt1|exact Wb1].
Qed.

Lemma n_step_inv n st s st' : winv n st -> n_step n (Ok st) s = Ok st' -> winv n st'.
Proof.
  destruct st as [[[t best] bi] ind]. intros [Wt Wb] H. unfold n_step in H. cbn [bind] in H.
  bind_inv H t1 Ht1. apply (two_nots_inv n (t1, best, bi, ind) st'); [|exact H].
  split; [apply (flip_okwf n t s t1 Wt Ht1)|exact Wb].
Qed.

(* generic in the sequences of swaps / flips; no bound on n *)
Lemma p_walk_inv n sw st st' : winv n st -> fold_left (p_step n) sw (Ok st) = Ok st' -> winv n st'.
Proof. apply fold_inv; [reflexivity|reflexivity|]. intros s a s'. apply p_step_inv. Qed.

Lemma n_walk_inv n fl st st' : winv n st -> fold_left (n_step n) fl (Ok st) = Ok st' -> winv n st'.
Proof. apply fold_inv; [reflexivity|reflexivity|]. intros s a s'. apply n_step_inv. Qed.

Lemma npn_step_inv n fl st s st' : winv n st -> npn_step n fl (Ok st) s = Ok st' -> winv n st'.
Proof.
  destruct st as [[[t best] bi] ind]. intros [Wt Wb] H. unfold npn_step in H. cbn [bind] in H.
  bind_inv H t1 Ht1. apply (n_walk_inv n fl (t1, best, bi, ind) st'); [|exact H].
  split; [apply (swap_adjacent_okwf n t s t1 Wt Ht1)|exact Wb].
Qed.

Lemma npn_walk_inv n fl sw st st' : winv n st -> fold_left (npn_step n fl) sw (Ok st) = Ok st' -> winv n st'.
Proof. apply fold_inv; [reflexivity|reflexivity|]. intros s a s'. apply npn_step_inv. Qed.

(* the form asked for: explicit components *)
Lemma p_walk_wf n sw t best bi ind t' best' bi' ind' :
  fold_left (p_step n) sw (Ok (t, best, bi, ind)) = Ok (t', best', bi', ind') ->
  wf n t -> wf n best -> wf n t' /\ wf n best'.
Proof. intros H Wt Wb. apply (p_walk_inv n sw (t, best, bi, ind) (t', best', bi', ind')); [split; assumption|exact H]. Qed.

Lemma n_walk_wf n fl t best bi ind t' best' bi' ind' :
  fold_left (n_step n) fl (Ok (t, best, bi, ind)) = Ok (t', best', bi', ind') ->
  wf n t -> wf n best -> wf n t' /\ wf n best'.
Proof. intros H Wt Wb. apply (n_walk_inv n fl (t, best, bi, ind) (t', best', bi', ind')); [split; assumption|exact H]. Qed.

Lemma npn_walk_wf n fl sw t best bi ind t' best' bi' ind' :
  fold_left (npn_step n fl) sw (Ok (t, best, bi, ind)) = Ok (t', best', bi', ind') ->
  wf n t -> wf n best -> wf n t' /\ wf n best'.
Proof. intros H Wt Wb. apply (npn_walk_inv n fl sw (t, best, bi, ind) (t', best', bi', ind')); [split; assumption|exact H]. Qed.

Lemma p_canon_ind_okwf n t sw best bi : wf n t -> p_canonization_ind n t sw = Ok (best, bi) -> wf n best.
Proof.
  intros W H. unfold p_canonization_ind in H. bind_inv H st Hst. destruct st as [[[t1 b1] bi1] i1].
  injection H as <- _.
  refine (proj2 (p_walk_inv n sw (t, t, _, 0) (t1, b1, bi1, i1) _ Hst)). split; exact W.
Qed.

Lemma n_canon_ind_okwf n t fl best bi : wf n t -> n_canonization_ind n t fl = Ok (best, bi) -> wf n best.
Proof.
  intros W H. unfold n_canonization_ind in H. bind_inv H st Hst. destruct st as [[[t1 b1] bi1] i1].
  injection H as <- _.
  refine (proj2 (n_walk_inv n fl (t, t, _, 0) (t1, b1, bi1, i1) _ Hst)). split; exact W.
Qed.

Lemma npn_canon_ind_okwf n t sw fl best bi : wf n t -> npn_canonization_ind n t sw fl = Ok (best, bi) -> wf n best.
Proof.
  intros W H. unfold npn_canonization_ind in H. bind_inv H st Hst. destruct st as [[[t1 b1] bi1] i1].
  injection H as <- _.
  refine (proj2 (npn_walk_inv n fl sw (t, t, _, 0) (t1, b1, bi1, i1) _ Hst)). split; exact W.
Qed.

Lemma p_canon_okwf n t best perm : wf n t -> p_canonization n t = Ok (best, perm) -> wf n best.
Proof.
  intros W H. unfold p_canonization in H. destruct (Nat.leb n 1).
  - injection H as <- _. exact W.
  - bind_inv H sw Hsw. bind_inv H r Hr. destruct r as [b bi]. bind_inv H pm Hpm. injection H as <- _.
    apply (p_canon_ind_okwf n t sw b bi W Hr).
Qed.

Lemma n_canon_okwf n t best mask : wf n t -> n_canonization n t = Ok (best, mask) -> wf n best.
Proof.
  intros W H. unfold n_canonization in H. destruct (Nat.eqb n 0).
  - bind_inv H c Hc. destruct c; injection H as <- _; try exact W. apply not_wf. exact W.
  - bind_inv H fl Hfl. bind_inv H r Hr. destruct r as [b bi]. bind_inv H mk Hmk. injection H as <- _.
    apply (n_canon_ind_okwf n t fl b bi W Hr).
Qed.

Lemma npn_canon_okwf n t best perm mask : wf n t -> npn_canonization n t = Ok (best, perm, mask) -> wf n best.
Proof.
  intros W H. unfold npn_canonization in H. destruct (Nat.leb n 1).
  - bind_inv H r Hr. destruct r as [b mk]. injection H as <- _ _. apply (n_canon_okwf n t b mk W Hr).
  - bind_inv H sw Hsw. bind_inv H fl Hfl. bind_inv H r Hr. destruct r as [b bi]. bind_inv H pm Hpm.
    destruct pm as [p mk]. injection H as <- _ _. apply (npn_canon_ind_okwf n t sw fl b bi W Hr).
Qed.

(* ------------------------------------------------------------------ constructors: Ok -> well-formed, for every n *)
Lemma fill_symmetric_okwf n t cv t' : length t = table_size n -> fill_symmetric n t cv = Ok t' -> wf n t'.
Proof.
  intros L H. unfold fill_symmetric in H.
  destruct (mapM_inv (fun i => sym_word n cv i) (fun w => w < 2 ^ word_bits n)) with (2 := H) as [L' F].
  - intros i w Hw. unfold sym_word in Hw. bind_inv Hw w0 Hw0. injection Hw as <-.
    apply land_lt_r. apply nvmask_lt.
  - split; [rewrite L', seq_length; exact L|exact F].
Qed.

Lemma fill_threshold_okwf n t k t' : length t = table_size n -> fill_threshold n t k = Ok t' -> wf n t'.
Proof.
  intros L H. unfold fill_threshold in H. destruct (k =? 0).
  - destruct (fill_one_sem n t L) as [t2 [E [W _]]]. rewrite E in H. injection H as <-. exact W.
  - destruct (N.of_nat n <? k).
    + destruct (fill_zero_sem n t L) as [t2 [E [W _]]]. rewrite E in H. injection H as <-. exact W.
    + bind_inv H u Hu. apply (fill_symmetric_okwf n t _ t' L H).
Qed.

Definition lnv (l : lut) (n : nat) : Prop := lwf l /\ nv l = n.

Lemma of_fill_inv n r l : (forall t, r = Ok t -> wf n t) -> with_tbl (lut_new n) r = Ok l -> lnv l n.
Proof.
  intros Hr H. apply with_tbl_inv in H. destruct H as [t [Ht ->]]. split; [|reflexivity].
  unfold lwf. cbn [nv tbl lut_new]. apply Hr. exact Ht.
Qed.

Lemma D_zero_inv n l : D_zero n = Ok l -> lnv l n.
Proof.
  intros H. destruct (zero_sem n) as [l2 [E [Hn [W _]]]]. rewrite E in H. injection H as <-.
  split; [unfold lwf; rewrite Hn; exact W|exact Hn].
Qed.

Lemma D_one_inv n l : D_one n = Ok l -> lnv l n.
Proof.
  intros H. destruct (one_sem n) as [l2 [E [Hn [W _]]]]. rewrite E in H. injection H as <-.
  split; [unfold lwf; rewrite Hn; exact W|exact Hn].
Qed.

Lemma D_nth_var_inv n v l : D_nth_var n v = Ok l -> lnv l n.
Proof.
  intros H. destruct (N.lt_ge_cases v (N.of_nat n)) as [L|G].
  - destruct (nth_var_sem n v L) as [l2 [E [Hn [W _]]]]. rewrite E in H. injection H as <-.
    split; [unfold lwf; rewrite Hn; exact W|exact Hn].
  - rewrite (nth_var_guard n v G) in H. discriminate H.
Qed.

Lemma D_symmetric_inv n cv l : D_symmetric n cv = Ok l -> lnv l n.
Proof. apply of_fill_inv. intros t. apply fill_symmetric_okwf. apply new_len. Qed.

Lemma D_parity_inv n l : D_parity n = Ok l -> lnv l n.
Proof. apply of_fill_inv. intros t. apply fill_symmetric_okwf. apply new_len. Qed.

Lemma D_equals_inv n k l : D_equals n k = Ok l -> lnv l n.
Proof. apply of_fill_inv. intros t. apply fill_symmetric_okwf. apply new_len. Qed.

Lemma D_threshold_inv n k l : D_threshold n k = Ok l -> lnv l n.
Proof. apply of_fill_inv. intros t. apply fill_threshold_okwf. apply new_len. Qed.

Lemma D_majority_inv n l : D_majority n = Ok l -> lnv l n.
Proof. rewrite majority_threshold. apply D_threshold_inv. Qed.

Lemma D_random_inv n stream : (table_size n <= length stream)%nat -> lnv (D_random n stream) n.
Proof. intros H. destruct (random_wf n stream H) as [W E]. split; [unfold lwf; rewrite E; exact W|exact E]. Qed.

Lemma D_from_blocks_inv n blocks l : wfb n blocks = true -> D_from_blocks n blocks = Ok l -> lnv l n.
Proof.
  intros B H. apply wfb_wf in B. rewrite (D_from_blocks_ok n blocks (wf_length n blocks B)) in H.
  injection H as <-. split; [exact B|reflexivity].
Qed.

Lemma S_from_blocks_inv n blocks l : wfb n blocks = true -> S_from_blocks n blocks = Ok l -> lnv l n.
Proof.
  intros B H. apply wfb_wf in B. rewrite (S_from_blocks_ok n blocks (wf_length n blocks B)) in H.
  injection H as <-. split; [exact B|reflexivity].
Qed.

Lemma from_hex_inv n s l : some_or_panic (D_from_hex_string n s) = Ok l -> lnv l n.
Proof.
  intros H. apply some_or_panic_inv in H. destruct (from_hex_accepted n s l H) as [_ [Hn [W _]]].
  split; [unfold lwf; rewrite Hn; exact W|exact Hn].
Qed.

Lemma S_from_int_inv n v l : (3 <= n <= 6)%nat -> v < 2 ^ 2 ^ N.of_nat n -> S_from_int n v = Ok l -> lnv l n.
Proof.
  intros Hn Hv H. unfold S_from_int in H.
  assert (Ts : table_size n = 1%nat) by (apply table_size_low; lia).
  rewrite S_from_blocks_ok in H by (rewrite Ts; reflexivity). injection H as <-.
  split; [|reflexivity]. unfold lwf. cbn [nv tbl]. split; [rewrite Ts; reflexivity|].
  constructor; [|constructor]. rewrite word_bits_low by lia. exact Hv.
Qed.

Lemma nth_item_iter_item n k : nth_item n k = iter_item n k.
Proof. reflexivity. Qed.

Lemma nth_item_inv n k l : some_or_panic (nth_item n k) = Ok l -> lnv l n.
Proof.
  intros H. apply some_or_panic_inv in H. rewrite nth_item_iter_item in H.
  destruct (N.lt_ge_cases (N.of_nat k) (2 ^ (2 ^ N.of_nat n))) as [L|G].
  - destruct (iter_item_some n k L) as [l2 [E [Hn [W _]]]]. rewrite E in H. injection H as <-.
    split; [unfold lwf; rewrite Hn; exact W|exact Hn].
  - rewrite (iter_item_none n k G) in H. discriminate H.
Qed.

(* ------------------------------------------------------------------ conversions *)
Lemma to_dyn_inv l l' : lwf l -> D_from_static l = Ok l' -> lnv l' (nv l).
Proof. intros W H. rewrite (to_dyn l W) in H. injection H as <-. split; [exact W|reflexivity]. Qed.

Lemma try_from_inv n l l' : lwf l -> some_or_panic (S_try_from n l) = Ok l' -> lnv l' n.
Proof.
  intros W H. apply some_or_panic_inv in H. destruct (roundtrip_back n l l' H) as [-> [Hn _]].
  split; [exact W|exact Hn].
Qed.

Lemma from_sop_inv s : lnv (mkLut (snv s) (sop_to_lut s)) (snv s).
Proof. split; [|reflexivity]. unfold lwf, sop_to_lut. cbn [nv tbl]. apply tabulate_sem. Qed.
Lemma from_esop_inv s : lnv (mkLut (env s) (esop_to_lut s)) (env s).
Proof. split; [|reflexivity]. unfold lwf, esop_to_lut. cbn [nv tbl]. apply tabulate_sem. Qed.
Lemma from_soes_inv s : lnv (mkLut (onv s) (soes_to_lut s)) (onv s).
Proof. split; [|reflexivity]. unfold lwf, soes_to_lut. cbn [nv tbl]. apply tabulate_sem. Qed.

(* ------------------------------------------------------------------ operators *)
Lemma D_not_inv l l' : lwf l -> D_not l = Ok l' -> lnv l' (nv l).
Proof.
  intros W H. destruct (D_not_sem l W) as [l2 [E [Hn [W2 _]]]]. rewrite E in H. injection H as <-.
  split; [exact W2|exact Hn].
Qed.

Lemma D_and_inv a b l : lwf a -> lwf b -> D_and a b = Ok l -> lnv l (nv a).
Proof.
  intros Wa Wb H. destruct (Nat.eq_dec (nv a) (nv b)) as [E|E].
  - destruct (D_and_sem a b Wa Wb E) as [l2 [E2 [Hn [W2 _]]]]. rewrite E2 in H. injection H as <-.
    split; [exact W2|exact Hn].
  - rewrite (proj1 (D_binop_size_guard a b E)) in H. discriminate H.
Qed.

Lemma D_or_inv a b l : lwf a -> lwf b -> D_or a b = Ok l -> lnv l (nv a).
Proof.
  intros Wa Wb H. destruct (Nat.eq_dec (nv a) (nv b)) as [E|E].
  - destruct (D_or_sem a b Wa Wb E) as [l2 [E2 [Hn [W2 _]]]]. rewrite E2 in H. injection H as <-.
    split; [exact W2|exact Hn].
  - rewrite (proj1 (proj2 (D_binop_size_guard a b E))) in H. discriminate H.
Qed.

Lemma D_xor_inv a b l : lwf a -> lwf b -> D_xor a b = Ok l -> lnv l (nv a).
Proof.
  intros Wa Wb H. destruct (Nat.eq_dec (nv a) (nv b)) as [E|E].
  - destruct (D_xor_sem a b Wa Wb E) as [l2 [E2 [Hn [W2 _]]]]. rewrite E2 in H. injection H as <-.
    split; [exact W2|exact Hn].
  - rewrite (proj2 (proj2 (D_binop_size_guard a b E))) in H. discriminate H.
Qed.

(* ------------------------------------------------------------------ transforms *)
Lemma D_flip_inv l ind l' : lwf l -> D_flip l ind = Ok l' -> lnv l' (nv l).
Proof.
  intros W H. destruct (N.lt_ge_cases ind (N.of_nat (nv l))) as [L|G].
  - destruct (D_flip_sem l ind W L) as [l2 [E [Hn [W2 _]]]]. rewrite E in H. injection H as <-.
    split; [exact W2|exact Hn].
  - rewrite (D_flip_guard l ind G) in H. discriminate H.
Qed.

Lemma D_swap_inv l i j l' : lwf l -> D_swap l i j = Ok l' -> lnv l' (nv l).
Proof.
  intros W H. destruct (N.lt_ge_cases i (N.of_nat (nv l))) as [Li|Gi];
    [destruct (N.lt_ge_cases j (N.of_nat (nv l))) as [Lj|Gj]|].
  - destruct (D_swap_sem l i j W Li Lj) as [l2 [E [Hn [W2 _]]]]. rewrite E in H. injection H as <-.
    split; [exact W2|exact Hn].
  - rewrite (D_swap_guard l i j (or_intror Gj)) in H. discriminate H.
  - rewrite (D_swap_guard l i j (or_introl Gi)) in H. discriminate H.
Qed.

(* no bound on the number of variables: goes through the kernel *)
Lemma D_swap_adjacent_inv l ind l' : lwf l -> D_swap_adjacent l ind = Ok l' -> lnv l' (nv l).
Proof.
  intros W H. unfold D_swap_adjacent in H. bind_inv H u1 H1. bind_inv H u2 H2.
  apply with_tbl_inv in H. destruct H as [t [Ht ->]]. split; [|reflexivity].
  unfold lwf. cbn [nv tbl]. apply (swap_adjacent_okwf _ _ _ _ W Ht).
Qed.

Lemma D_cofactors_inv l ind c0 c1 : lwf l -> D_cofactors l ind = Ok (c0, c1) -> lnv c0 (nv l) /\ lnv c1 (nv l).
Proof.
  intros W H. destruct (N.lt_ge_cases ind (N.of_nat (nv l))) as [L|G].
  - destruct (D_cofactors_sem l ind W L) as [d0 [d1 [E [N0 [N1 [W0 [W1 _]]]]]]]. rewrite E in H.
    injection H as <- <-. split; split; assumption.
  - rewrite (D_cofactors_guard l ind G) in H. discriminate H.
Qed.

Lemma D_from_cofactors_inv c0 c1 ind l : lwf c0 -> lwf c1 -> D_from_cofactors c0 c1 ind = Ok l -> lnv l (nv c0).
Proof.
  intros W0 W1 H. destruct (Nat.eq_dec (nv c0) (nv c1)) as [E|E];
    [destruct (N.lt_ge_cases ind (N.of_nat (nv c0))) as [L|G]|].
  - destruct (D_from_cofactors_sem c0 c1 ind W0 W1 E L) as [l2 [E2 [Hn [W2 _]]]]. rewrite E2 in H.
    injection H as <-. split; [exact W2|exact Hn].
  - rewrite (D_from_cofactors_guard c0 c1 ind (or_intror G)) in H. discriminate H.
  - rewrite (D_from_cofactors_guard c0 c1 ind (or_introl E)) in H. discriminate H.
Qed.

(* the LutN form has no run-time check of the sizes: they are equal by typing *)
Lemma S_from_cofactors_inv c0 c1 ind l : lwf c0 -> lwf c1 -> nv c0 = nv c1 ->
  S_from_cofactors c0 c1 ind = Ok l -> lnv l (nv c0).
Proof.
  intros W0 W1 E H. destruct (N.lt_ge_cases ind (N.of_nat (nv c0))) as [L|G].
  - destruct (S_from_cofactors_sem c0 c1 ind W0 W1 E L) as [l2 [E2 [Hn [W2 _]]]]. rewrite E2 in H.
    injection H as <-. split; [exact W2|exact Hn].
  - rewrite (S_from_cofactors_guard c0 c1 ind G) in H. discriminate H.
Qed.

(* ------------------------------------------------------------------ mutators *)
Lemma D_set_value_inv l m v l' : lwf l -> D_set_value l m v = Ok l' -> lnv l' (nv l).
Proof.
  intros W H. destruct (N.lt_ge_cases m (2 ^ N.of_nat (nv l))) as [L|G].
  - destruct (D_set_value_sem l m v W L) as [l2 [E [Hn [W2 _]]]]. rewrite E in H. injection H as <-.
    split; [exact W2|exact Hn].
  - destruct (D_bit_guard l m v G) as [_ [_ [_ E]]]. rewrite E in H. discriminate H.
Qed.

Lemma D_set_bit_inv l m l' : lwf l -> D_set_bit l m = Ok l' -> lnv l' (nv l).
Proof. apply (D_set_value_inv l m true). Qed.

Lemma D_unset_bit_inv l m l' : lwf l -> D_unset_bit l m = Ok l' -> lnv l' (nv l).
Proof. apply (D_set_value_inv l m false). Qed.

(* ------------------------------------------------------------------ canonization at the API layer *)
Lemma D_p_canon_inv l r : lwf l -> D_p_canonization l = Ok r -> lnv (fst r) (nv l).
Proof.
  intros W H. unfold D_p_canonization in H. bind_inv H x Hx. destruct x as [best perm]. injection H as <-.
  split; [|reflexivity]. unfold lwf. cbn [fst nv tbl]. apply (p_canon_okwf _ _ _ _ W Hx).
Qed.

Lemma D_n_canon_inv l r : lwf l -> D_n_canonization l = Ok r -> lnv (fst r) (nv l).
Proof.
  intros W H. unfold D_n_canonization in H. bind_inv H x Hx. destruct x as [best mask]. injection H as <-.
  split; [|reflexivity]. unfold lwf. cbn [fst nv tbl]. apply (n_canon_okwf _ _ _ _ W Hx).
Qed.

Lemma D_npn_canon_inv l r : lwf l -> D_npn_canonization l = Ok r -> lnv (fst (fst r)) (nv l).
Proof.
  intros W H. unfold D_npn_canonization in H. bind_inv H x Hx. destruct x as [[best perm] mask].
  injection H as <-. split; [|reflexivity]. unfold lwf. cbn [fst nv tbl]. apply (npn_canon_okwf _ _ _ _ _ W Hx).
Qed.

(* ------------------------------------------------------------------ the invariant *)
(* every value a history yields is well-formed and has the number of variables announced by the history *)
Theorem run_lnv : forall c l, args_ok c -> run c = Ok l -> lnv l (call_nv c).
Proof.
  induction c as
    [n|n|n v|n|n|n k|n k|n cv| |n stream|n blocks|n blocks|n s|n v|n k
    |a IHa|n a IHa|s|s|s
    |a IHa|a IHa b IHb|a IHa b IHb|a IHa b IHb
    |a IHa ind|a IHa i j|a IHa ind|a IHa ind|a IHa ind|a IHa b IHb ind|a IHa b IHb ind
    |a IHa m|a IHa m|a IHa m v
    |a IHa|a IHa|a IHa];
    intros l A H; cbn [run args_ok call_nv] in *.
  - apply D_zero_inv; exact H.
  - apply D_one_inv; exact H.
  - apply (D_nth_var_inv n v); exact H.
  - apply D_parity_inv; exact H.
  - apply D_majority_inv; exact H.
  - apply (D_threshold_inv n k); exact H.
  - apply (D_equals_inv n k); exact H.
  - apply (D_symmetric_inv n cv); exact H.
  - apply (D_zero_inv 0); exact H.
  - injection H as <-. apply D_random_inv; exact A.
  - apply (D_from_blocks_inv n blocks); assumption.
  - apply (S_from_blocks_inv n blocks); assumption.
  - apply (from_hex_inv n s); exact H.
  - destruct A as [A1 A2]. apply (S_from_int_inv n v); assumption.
  - apply (nth_item_inv n k); exact H.
  - bind_inv H x Hx. destruct (IHa x A Hx) as [W <-]. apply (to_dyn_inv x l W H).
  - bind_inv H x Hx. destruct (IHa x A Hx) as [W _]. apply (try_from_inv n x l W H).
  - injection H as <-. apply from_sop_inv.
  - injection H as <-. apply from_esop_inv.
  - injection H as <-. apply from_soes_inv.
  - bind_inv H x Hx. destruct (IHa x A Hx) as [W <-]. apply (D_not_inv x l W H).
  - destruct A as [Aa Ab]. bind_inv H x Hx. bind_inv H y Hy.
    destruct (IHa x Aa Hx) as [Wx <-]. destruct (IHb y Ab Hy) as [Wy _]. apply (D_and_inv x y l Wx Wy H).
  - destruct A as [Aa Ab]. bind_inv H x Hx. bind_inv H y Hy.
    destruct (IHa x Aa Hx) as [Wx <-]. destruct (IHb y Ab Hy) as [Wy _]. apply (D_or_inv x y l Wx Wy H).
  - destruct A as [Aa Ab]. bind_inv H x Hx. bind_inv H y Hy.
    destruct (IHa x Aa Hx) as [Wx <-]. destruct (IHb y Ab Hy) as [Wy _]. apply (D_xor_inv x y l Wx Wy H).
  - bind_inv H x Hx. destruct (IHa x A Hx) as [W <-]. apply (D_flip_inv x ind l W H).
  - bind_inv H x Hx. destruct (IHa x A Hx) as [W <-]. apply (D_swap_inv x i j l W H).
  - bind_inv H x Hx. destruct (IHa x A Hx) as [W <-]. apply (D_swap_adjacent_inv x ind l W H).
  - bind_inv H x Hx. bind_inv H p Hp. injection H as <-. destruct (IHa x A Hx) as [W <-]. destruct p as [c0 c1].
    apply (D_cofactors_inv x ind c0 c1 W Hp).
  - bind_inv H x Hx. bind_inv H p Hp. injection H as <-. destruct (IHa x A Hx) as [W <-]. destruct p as [c0 c1].
    apply (D_cofactors_inv x ind c0 c1 W Hp).
  - destruct A as [Aa Ab]. bind_inv H x Hx. bind_inv H y Hy.
    destruct (IHa x Aa Hx) as [Wx <-]. destruct (IHb y Ab Hy) as [Wy _].
    apply (D_from_cofactors_inv x y ind l Wx Wy H).
  - destruct A as [Aa [Ab E]]. bind_inv H x Hx. bind_inv H y Hy.
    destruct (IHa x Aa Hx) as [Wx Nx]. destruct (IHb y Ab Hy) as [Wy Ny]. rewrite <- Nx.
    apply (S_from_cofactors_inv x y ind l Wx Wy); [congruence|exact H].
  - bind_inv H x Hx. destruct (IHa x A Hx) as [W <-]. apply (D_set_bit_inv x m l W H).
  - bind_inv H x Hx. destruct (IHa x A Hx) as [W <-]. apply (D_unset_bit_inv x m l W H).
  - bind_inv H x Hx. destruct (IHa x A Hx) as [W <-]. apply (D_set_value_inv x m v l W H).
  - bind_inv H x Hx. bind_inv H r Hr. injection H as <-. destruct (IHa x A Hx) as [W <-].
    apply (D_p_canon_inv x r W Hr).
  - bind_inv H x Hx. bind_inv H r Hr. injection H as <-. destruct (IHa x A Hx) as [W <-].
    apply (D_n_canon_inv x r W Hr).
  - bind_inv H x Hx. bind_inv H r Hr. injection H as <-. destruct (IHa x A Hx) as [W <-].
    apply (D_npn_canon_inv x r W Hr).
Qed.

Theorem run_wf : forall c l, args_ok c -> run c = Ok l -> wf (nv l) (tbl l).
Proof. intros c l A H. apply (run_lnv c l A H). Qed.

Theorem run_nv : forall c l, args_ok c -> run c = Ok l -> nv l = call_nv c.
Proof. intros c l A H. apply (run_lnv c l A H). Qed.

(* ------------------------------------------------------------------ every intermediate value *)
(* a history that runs to a value has run all the histories it is made of, with valid arguments *)
Lemma subcalls_run : forall c l, args_ok c -> run c = Ok l ->
  forall c', In c' (subcalls c) -> args_ok c' /\ exists l', run c' = Ok l'.
Proof.
  induction c as
    [n|n|n v|n|n|n k|n k|n cv| |n stream|n blocks|n blocks|n s|n v|n k
    |a IHa|n a IHa|s|s|s
    |a IHa|a IHa b IHb|a IHa b IHb|a IHa b IHb
    |a IHa ind|a IHa i j|a IHa ind|a IHa ind|a IHa ind|a IHa b IHb ind|a IHa b IHb ind
    |a IHa m|a IHa m|a IHa m v
    |a IHa|a IHa|a IHa];
    intros l A H c' I; cbn [subcalls] in I; destruct I as [<-|I];
    try (split; [exact A|exists l; exact H]); try (destruct I; fail); cbn [run args_ok] in *;
    try (bind_inv H x Hx; apply (IHa x A Hx c' I); fail).
  - destruct A as [Aa Ab]. bind_inv H x Hx. bind_inv H y Hy. apply in_app_or in I.
    destruct I as [I|I]; [apply (IHa x Aa Hx c' I)|apply (IHb y Ab Hy c' I)].
  - destruct A as [Aa Ab]. bind_inv H x Hx. bind_inv H y Hy. apply in_app_or in I.
    destruct I as [I|I]; [apply (IHa x Aa Hx c' I)|apply (IHb y Ab Hy c' I)].
  - destruct A as [Aa Ab]. bind_inv H x Hx. bind_inv H y Hy. apply in_app_or in I.
    destruct I as [I|I]; [apply (IHa x Aa Hx c' I)|apply (IHb y Ab Hy c' I)].
  - destruct A as [Aa Ab]. bind_inv H x Hx. bind_inv H y Hy. apply in_app_or in I.
    destruct I as [I|I]; [apply (IHa x Aa Hx c' I)|apply (IHb y Ab Hy c' I)].
  - destruct A as [Aa [Ab E]]. bind_inv H x Hx. bind_inv H y Hy. apply in_app_or in I.
    destruct I as [I|I]; [apply (IHa x Aa Hx c' I)|apply (IHb y Ab Hy c' I)].
Qed.

Theorem subcalls_wf : forall c l, args_ok c -> run c = Ok l ->
  forall c', In c' (subcalls c) -> exists l', run c' = Ok l' /\ nv l' = call_nv c' /\ wf (nv l') (tbl l').
Proof.
  intros c l A H c' I. destruct (subcalls_run c l A H c' I) as [A' [l' H']]. exists l'.
  split; [exact H'|]. destruct (run_lnv c' l' A' H') as [W E]. split; [exact E|exact W].
Qed.

(* ------------------------------------------------------------------ the block view *)
Theorem wf_blocks : forall n t,
  wf n t <->
  (length t = Nat.max 1 (2 ^ n / 64)%nat /\ Forall (fun w => w < 2 ^ 64) t /\
   forall p, 2 ^ N.of_nat n <= p -> N.testbit (big t) p = false).
Proof.
  intros n t. rewrite <- table_size_closed. split.
  - intros W. split; [apply (wf_length n t W)|]. split; [apply (wf_Forall64 n t W)|].
    intros p Hp. rewrite (big_val n t W). apply (val_out_of_range n t p W Hp).
  - intros [L [F B]]. split; [exact L|]. destruct (Nat.le_gt_cases 6 n) as [Hi|Lo].
    + rewrite Transforms.word_bits_high by exact Hi. exact F.
    + rewrite table_size_low in L by lia. destruct t as [|w [|w2 r]]; try discriminate L.
      constructor; [|constructor]. rewrite word_bits_low by lia. apply lt_pow2_of_bits. intros p Hp.
      specialize (B p Hp). change (big [w]) with (w + 2 ^ 64 * 0) in B. rewrite N.mul_0_r, N.add_0_r in B. exact B.
Qed.

(* ------------------------------------------------------------------ equality, hash, order *)
Lemma lut_eq_iff a b : a = b <-> nv a = nv b /\ tbl a = tbl b.
Proof.
  destruct a as [na ta], b as [nb tb]. cbn [nv tbl]. split.
  - intros E. injection E as -> ->. split; reflexivity.
  - intros [-> ->]. reflexivity.
Qed.

Lemma struct_sem a b : lwf a -> lwf b ->
  (nv a = nv b /\ tbl a = tbl b <->
   nv a = nv b /\ forall m, m < 2 ^ N.of_nat (nv a) -> val (tbl a) m = val (tbl b) m).
Proof.
  intros Wa Wb. split; intros [E H]; (split; [exact E|]); apply (D_ext a b Wa Wb E); exact H.
Qed.

Lemma wf_eq_hash_cmp a b : lwf a -> lwf b ->
  let sem_eq := nv a = nv b /\ forall m, m < 2 ^ N.of_nat (nv a) -> val (tbl a) m = val (tbl b) m in
  (D_eq a b = true <-> sem_eq) /\ (D_hash_input a = D_hash_input b <-> sem_eq) /\ (D_cmp a b = Ok Eq <-> sem_eq).
Proof.
  intros Wa Wb sem_eq. unfold sem_eq. rewrite <- (struct_sem a b Wa Wb). split; [|split].
  - apply D_eq_sem.
  - rewrite D_hash_iff. apply lut_eq_iff.
  - apply (D_cmp_eq a b Wa Wb).
Qed.

Lemma S_cmp_D_cmp a b : nv a = nv b -> S_cmp a b = D_cmp a b.
Proof. intros E. unfold S_cmp, D_cmp. rewrite E, Nat.eqb_refl. reflexivity. Qed.

Lemma wf_eq_hash_cmp_static a b : lwf a -> lwf b -> nv a = nv b ->
  let sem_eq := forall m, m < 2 ^ N.of_nat (nv a) -> val (tbl a) m = val (tbl b) m in
  (D_eq a b = true <-> sem_eq) /\ (S_hash_input a = S_hash_input b <-> sem_eq) /\ (S_cmp a b = Ok Eq <-> sem_eq).
Proof.
  intros Wa Wb E sem_eq. unfold sem_eq.
  assert (X : forall P : Prop, (P <-> nv a = nv b /\ tbl a = tbl b) ->
              (P <-> forall m, m < 2 ^ N.of_nat (nv a) -> val (tbl a) m = val (tbl b) m)).
  { intros P HP. rewrite HP, (struct_sem a b Wa Wb). split; [intros [_ H]; exact H|intros H; split; [exact E|exact H]]. }
  split; [|split]; apply X.
  - apply D_eq_sem.
  - rewrite S_hash_iff. split; [intros H; split; [exact E|exact H]|intros [_ H]; exact H].
  - rewrite (S_cmp_D_cmp a b E). apply (D_cmp_eq a b Wa Wb).
Qed.

Theorem run_eq_hash_cmp : forall c1 c2 a b, args_ok c1 -> args_ok c2 -> run c1 = Ok a -> run c2 = Ok b ->
  let sem_eq := nv a = nv b /\ forall m, m < 2 ^ N.of_nat (nv a) -> val (tbl a) m = val (tbl b) m in
  (D_eq a b = true <-> sem_eq) /\ (D_hash_input a = D_hash_input b <-> sem_eq) /\ (D_cmp a b = Ok Eq <-> sem_eq).
Proof.
  intros c1 c2 a b A1 A2 H1 H2. apply wf_eq_hash_cmp; [apply (run_wf c1 a A1 H1)|apply (run_wf c2 b A2 H2)].
Qed.

(* LutN: the two values have the same type LutN, i.e. the histories announce the same number of variables *)
Theorem run_eq_hash_cmp_static : forall c1 c2 a b, args_ok c1 -> args_ok c2 -> call_nv c1 = call_nv c2 ->
  run c1 = Ok a -> run c2 = Ok b ->
  let sem_eq := forall m, m < 2 ^ N.of_nat (nv a) -> val (tbl a) m = val (tbl b) m in
  nv a = nv b /\
  (D_eq a b = true <-> sem_eq) /\ (S_hash_input a = S_hash_input b <-> sem_eq) /\ (S_cmp a b = Ok Eq <-> sem_eq).
Proof.
  intros c1 c2 a b A1 A2 E H1 H2.
  assert (En : nv a = nv b) by (rewrite (run_nv c1 a A1 H1), (run_nv c2 b A2 H2); exact E).
  intros sem_eq. split; [exact En|].
  apply wf_eq_hash_cmp_static; [apply (run_wf c1 a A1 H1)|apply (run_wf c2 b A2 H2)|exact En].
Qed.
