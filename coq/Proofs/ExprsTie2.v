(* Ties between the expressions of the two-level forms, of the BDD kernel and of the certificate reconstruction
   translated from the Rust source text on every run (Gen/Exprs2.v, produced by gen/gen_exprs.py from
   src/sop/cube.rs, src/sop/ecube.rs, src/bdd.rs, src/canonization.rs) and the hand-written model
   (Model/TwoLevel.v, Model/Bdd.v, Model/Canon.v).

   Every lemma has the shape  <model function> = <the same control skeleton around gx_...>.  Most are proved by
   conversion ([reflexivity]).  Where the model checks a shift amount ([bit32], [xor_bit32]) the tie has the form
   ... = (dbg (gx_..._shift_ok ..) ;; Ok (gx_... ..)): the check itself (amount < width of the declared type of
   the shifted value) is generated.  Small rewrites are needed for
     - Ecube::value      (the model takes N.odd of the population count, Rust takes `% 2 == 1`),
     - the powers of two that are [nat] in the model (nb, mid_nb of the large BDD levels, the end of the Gray walk),
     - `ind += 1` twice against [ind + 2] of the unrolled [flip_res_step],
     - the `as u8` truncations of generate_gray_flips, which the model does not perform (the values fit).
   What is NOT tied is listed at the end of this file and in the trailer of Gen/Exprs2.v. *)
From Coq Require Import List NArith Arith Bool Lia.
From V Require Import Base.Res Gen.Tables Model.Kernels Base.Bits Model.TwoLevel Model.Bdd Gen.Exprs2.
From V Require Model.Canon Proofs.GrayAll.
Import ListNotations.
Open Scope N_scope.
Open Scope res_scope.

(* ------------------------------------------------------------------ helpers *)
Lemma odd_mod2 x : N.odd x = (x mod 2 =? 1).
Proof. rewrite <- N.bit0_odd. apply N.bit0_eqb. Qed.

Lemma wrap8_small x : x < 256 -> wrap8 x = x.
Proof.
  intros H. unfold wrap8. change 0xff with (N.ones 8). rewrite N.land_ones.
  apply N.mod_small. exact H.
Qed.

Lemma of_nat_pow2 k : N.of_nat (Nat.pow 2 k) = N.shiftl 1 (N.of_nat k).
Proof. rewrite N.shiftl_1_l, Nat2N.inj_pow. reflexivity. Qed.

(* ================================================================== sop/cube.rs *)
Lemma tie_cube_one : cube_one = gx_cube_one. Proof. reflexivity. Qed.
Lemma tie_cube_zero : cube_zero = gx_cube_zero. Proof. reflexivity. Qed.
Lemma tie_cube_is_zero : cube_is_zero = gx_cube_is_zero. Proof. reflexivity. Qed.
Lemma tie_cube_is_one : cube_is_one = gx_cube_is_one. Proof. reflexivity. Qed.
Lemma tie_cube_is_constant : cube_is_constant = gx_cube_is_constant. Proof. reflexivity. Qed.

Lemma tie_cube_nth_var v : cube_nth_var v = (dbg (gx_cube_nth_var_shift_ok v) ;; Ok (gx_cube_nth_var v)).
Proof. unfold cube_nth_var, bit32, gx_cube_nth_var_shift_ok, gx_cube_nth_var. destruct (v <? 32); reflexivity. Qed.

Lemma tie_cube_nth_var_inv v :
  cube_nth_var_inv v = (dbg (gx_cube_nth_var_inv_shift_ok v) ;; Ok (gx_cube_nth_var_inv v)).
Proof. unfold cube_nth_var_inv, bit32, gx_cube_nth_var_inv_shift_ok, gx_cube_nth_var_inv. destruct (v <? 32); reflexivity. Qed.

Lemma tie_cube_minterm : cube_minterm = gx_cube_minterm. Proof. reflexivity. Qed.
Lemma tie_cube_value : cube_value = gx_cube_value. Proof. reflexivity. Qed.

(* the normalisation to the canonical zero, as Cube::and / from_mask / from_vars spell it *)
Lemma tie_cube_normalize c : cube_normalize c = if gx_cube_is_zero c then gx_cube_zero else c.
Proof. reflexivity. Qed.

Lemma tie_cube_from_mask : cube_from_mask = gx_cube_from_mask. Proof. reflexivity. Qed.

Lemma tie_or_bits_nil acc : or_bits [] acc = Ok acc. Proof. reflexivity. Qed.

Lemma tie_or_bits_cube_pos v r acc :
  or_bits (v :: r) acc =
  (dbg (gx_cube_from_vars_pos_step_shift_ok acc v) ;; or_bits r (gx_cube_from_vars_pos_step acc v)).
Proof.
  cbn [or_bits]. unfold bit32, gx_cube_from_vars_pos_step_shift_ok, gx_cube_from_vars_pos_step.
  destruct (v <? 32); reflexivity.
Qed.

Lemma tie_or_bits_cube_neg v r acc :
  or_bits (v :: r) acc =
  (dbg (gx_cube_from_vars_neg_step_shift_ok acc v) ;; or_bits r (gx_cube_from_vars_neg_step acc v)).
Proof.
  cbn [or_bits]. unfold bit32, gx_cube_from_vars_neg_step_shift_ok, gx_cube_from_vars_neg_step.
  destruct (v <? 32); reflexivity.
Qed.

Lemma tie_cube_from_vars pos_vars neg_vars :
  cube_from_vars pos_vars neg_vars =
  (let* p := or_bits pos_vars gx_cube_from_vars_pos_init in
   let* q := or_bits neg_vars gx_cube_from_vars_neg_init in
   Ok (gx_cube_from_vars_finish p q)).
Proof. reflexivity. Qed.

Lemma tie_cube_num_lits : cube_num_lits = gx_cube_num_lits. Proof. reflexivity. Qed.
Lemma tie_cube_num_gates : cube_num_gates = gx_cube_num_gates. Proof. reflexivity. Qed.
Lemma tie_cube_and : cube_and = gx_cube_and. Proof. reflexivity. Qed.

(* the four operator forms, each on its own *)
Lemma tie_cube_bitand_val_val a b : cube_and a b = gx_cube_bitand_val_val a b. Proof. reflexivity. Qed.
Lemma tie_cube_bitand_val_ref a b : cube_and a b = gx_cube_bitand_val_ref a b. Proof. reflexivity. Qed.
Lemma tie_cube_bitand_ref_val a b : cube_and a b = gx_cube_bitand_ref_val a b. Proof. reflexivity. Qed.
Lemma tie_cube_bitand_ref_ref a b : cube_and a b = gx_cube_bitand_ref_ref a b. Proof. reflexivity. Qed.

Lemma tie_cube_intersects : cube_intersects = gx_cube_intersects. Proof. reflexivity. Qed.
Lemma tie_cube_implies : cube_implies = gx_cube_implies. Proof. reflexivity. Qed.

Lemma tie_cube_all vars :
  cube_all vars =
  (dbg (gx_cube_all_mx_shift_ok vars) ;;
   let mx := gx_cube_all_mx vars in
   let r := map N.of_nat (seq 0 (N.to_nat mx)) in
   Ok (filter (fun c => negb (gx_cube_is_zero c)) (flat_map (fun i => map (fun j => mkCube i j) r) r))).
Proof. unfold cube_all, bit32, gx_cube_all_mx_shift_ok, gx_cube_all_mx. destruct (vars <? 32); reflexivity. Qed.

(* ================================================================== sop/ecube.rs *)
Lemma tie_ecube_one : ecube_one = gx_ecube_one. Proof. reflexivity. Qed.
Lemma tie_ecube_zero : ecube_zero = gx_ecube_zero. Proof. reflexivity. Qed.
Lemma tie_ecube_is_zero : ecube_is_zero = gx_ecube_is_zero. Proof. reflexivity. Qed.
Lemma tie_ecube_is_one : ecube_is_one = gx_ecube_is_one. Proof. reflexivity. Qed.

Lemma tie_ecube_nth_var v : ecube_nth_var v = (dbg (gx_ecube_nth_var_shift_ok v) ;; Ok (gx_ecube_nth_var v)).
Proof. unfold ecube_nth_var, bit32, gx_ecube_nth_var_shift_ok, gx_ecube_nth_var. destruct (v <? 32); reflexivity. Qed.

Lemma tie_ecube_nth_var_inv v :
  ecube_nth_var_inv v = (dbg (gx_ecube_nth_var_inv_shift_ok v) ;; Ok (gx_ecube_nth_var_inv v)).
Proof.
  unfold ecube_nth_var_inv, bit32, gx_ecube_nth_var_inv_shift_ok, gx_ecube_nth_var_inv. destruct (v <? 32); reflexivity.
Qed.

(* parity of the selected variables: N.odd in the model, `% 2 == 1` in Rust *)
Lemma tie_ecube_value e mask : ecube_value e mask = gx_ecube_value e mask.
Proof. unfold ecube_value, gx_ecube_value. cbv zeta. rewrite odd_mod2. reflexivity. Qed.

Lemma tie_or_bits_ecube v r acc :
  or_bits (v :: r) acc =
  (dbg (gx_ecube_from_vars_step_shift_ok acc v) ;; or_bits r (gx_ecube_from_vars_step acc v)).
Proof.
  cbn [or_bits]. unfold bit32, gx_ecube_from_vars_step_shift_ok, gx_ecube_from_vars_step.
  destruct (v <? 32); reflexivity.
Qed.

Lemma tie_ecube_from_vars vars xnor :
  ecube_from_vars vars xnor =
  (let* v := or_bits vars gx_ecube_from_vars_init in Ok (gx_ecube_from_vars_finish v xnor)).
Proof. reflexivity. Qed.

Lemma tie_ecube_num_lits : ecube_num_lits = gx_ecube_num_lits. Proof. reflexivity. Qed.
Lemma tie_ecube_num_gates : ecube_num_gates = gx_ecube_num_gates. Proof. reflexivity. Qed.

Lemma tie_ecube_all vars :
  ecube_all vars =
  (dbg (gx_ecube_all_mx_shift_ok vars) ;;
   let mx := gx_ecube_all_mx vars in
   Ok (flat_map (fun i => [mkEcube i false; mkEcube i true]) (map N.of_nat (seq 0 (N.to_nat mx))))).
Proof. unfold ecube_all, bit32, gx_ecube_all_mx_shift_ok, gx_ecube_all_mx. destruct (vars <? 32); reflexivity. Qed.

(* the two Not forms and the four BitXor forms, each on its own *)
Lemma tie_ecube_not_val : ecube_not = gx_ecube_not_val. Proof. reflexivity. Qed.
Lemma tie_ecube_not_ref : ecube_not = gx_ecube_not_ref. Proof. reflexivity. Qed.
Lemma tie_ecube_bitxor_val_val : ecube_xor = gx_ecube_bitxor_val_val. Proof. reflexivity. Qed.
Lemma tie_ecube_bitxor_val_ref : ecube_xor = gx_ecube_bitxor_val_ref. Proof. reflexivity. Qed.
Lemma tie_ecube_bitxor_ref_val : ecube_xor = gx_ecube_bitxor_ref_val. Proof. reflexivity. Qed.
Lemma tie_ecube_bitxor_ref_ref : ecube_xor = gx_ecube_bitxor_ref_ref. Proof. reflexivity. Qed.

(* ================================================================== bdd.rs: level_complexity *)
Lemma tie_bdd_mask s : low_mask s = gx_bdd_mask s. Proof. reflexivity. Qed.
Lemma tie_bdd_mid_mask s : low_mask s = gx_bdd_mid_mask s. Proof. reflexivity. Qed.

(* one window of one word: normalisation, mask, emptiness test, advance of the register *)
Lemma tie_word_windows level shift mask k c :
  word_windows level shift mask (S k) c =
  let lut := gx_bdd_window (gx_bdd_normalize c) mask in
  let rest := word_windows level shift mask k (gx_bdd_advance level shift c) in
  if gx_bdd_nonzero lut then lut :: rest else rest.
Proof. reflexivity. Qed.

(* the same, one generated piece at a time (a slip in one statement breaks its own lemma and the one above) *)
Lemma tie_word_windows_normalize level shift mask k c :
  word_windows level shift mask (S k) c =
  let lut := N.land (gx_bdd_normalize c) mask in
  let rest := word_windows level shift mask k (if Nat.ltb level 5 then N.shiftr c shift else c) in
  if negb (lut =? 0) then lut :: rest else rest.
Proof. reflexivity. Qed.

Lemma tie_word_windows_window level shift mask k c :
  word_windows level shift mask (S k) c =
  let lut := gx_bdd_window (if negb (N.land c 1 =? 0) then not64 c else c) mask in
  let rest := word_windows level shift mask k (if Nat.ltb level 5 then N.shiftr c shift else c) in
  if negb (lut =? 0) then lut :: rest else rest.
Proof. reflexivity. Qed.

Lemma tie_word_windows_nonzero level shift mask k c :
  word_windows level shift mask (S k) c =
  let lut := N.land (if negb (N.land c 1 =? 0) then not64 c else c) mask in
  let rest := word_windows level shift mask k (if Nat.ltb level 5 then N.shiftr c shift else c) in
  if gx_bdd_nonzero lut then lut :: rest else rest.
Proof. reflexivity. Qed.

Lemma tie_word_windows_advance level shift mask k c :
  word_windows level shift mask (S k) c =
  let lut := N.land (if negb (N.land c 1 =? 0) then not64 c else c) mask in
  let rest := word_windows level shift mask k (gx_bdd_advance level shift c) in
  if negb (lut =? 0) then lut :: rest else rest.
Proof. reflexivity. Qed.

Lemma tie_word_windows_0 level shift mask c : word_windows level shift mask 0 c = []. Proof. reflexivity. Qed.

Lemma tie_keep_small level c :
  keep_small level c = gx_bdd_keep (gx_bdd_mid_shift level) (gx_bdd_mid_mask (gx_bdd_mid_shift level)) c.
Proof. reflexivity. Qed.

Lemma tie_level_complexity t level :
  level_complexity t level =
  (always (gx_bdd_level_lt6 level) ;; always (gx_bdd_level_ge1 level) ;;
   let shift := gx_bdd_shift level in
   let mask := gx_bdd_mask shift in
   let count := Nat.pow 2 (5 - level) in
   let luts := flat_map (word_windows level shift mask count) t in
   Ok (distinct_count N.eq_dec (filter (keep_small level) luts))).
Proof. reflexivity. Qed.

(* the loop head `(0..64).step_by(shift)`: the number of windows of the model is 64 / shift *)
Lemma tie_bdd_window_count level :
  gx_bdd_level_lt6 level = true -> gx_bdd_level_ge1 level = true ->
  Nat.pow 2 (5 - level) = N.to_nat (64 / gx_bdd_shift level).
Proof.
  intros H6 H1.
  destruct level as [|[|[|[|[|[|l]]]]]]; try reflexivity; try discriminate H1; discriminate H6.
Qed.

(* ================================================================== bdd.rs: large_level_complexity *)
Lemma tie_bdd_large_nb level : N.of_nat (Nat.pow 2 (level - 5)) = gx_bdd_large_nb level.
Proof. apply of_nat_pow2. Qed.

Lemma tie_bdd_large_mid_nb level : N.of_nat (Nat.pow 2 (level - 6)) = gx_bdd_large_mid_nb level.
Proof. apply of_nat_pow2. Qed.

Lemma tie_normalize_group c :
  normalize_group c = if gx_bdd_large_norm_test (hd 0 c) then map gx_bdd_large_not c else c.
Proof. reflexivity. Qed.

Lemma tie_keep_large mid_nb c :
  keep_large mid_nb c =
  let h := skipn mid_nb c in
  let l := firstn mid_nb c in
  if list_eq_dec N.eq_dec l h then false
  else
    let opp := forallb (fun p => gx_bdd_large_opp (fst p) (snd p)) (combine l h) in
    let lz := forallb gx_bdd_large_lz l in
    let hz := forallb gx_bdd_large_hz h in
    if gx_bdd_large_copy opp lz hz then false else true.
Proof. reflexivity. Qed.

Lemma tie_large_level_complexity t level :
  large_level_complexity t level =
  (always (gx_bdd_large_level_ge6 level) ;;
   let nb := N.to_nat (gx_bdd_large_nb level) in
   let count := ((length t + nb - 1) / nb)%nat in
   always (Nat.eqb (length t mod nb) 0) ;;
   let gs := map normalize_group (groups nb count t) in
   let gs := filter (fun c => existsb gx_bdd_large_nonzero c) gs in
   Ok (distinct_count (list_eq_dec N.eq_dec)
         (filter (keep_large (N.to_nat (gx_bdd_large_mid_nb level))) gs))).
Proof.
  rewrite <- (tie_bdd_large_nb level), <- (tie_bdd_large_mid_nb level), !Nat2N.id. reflexivity.
Qed.

(* ================================================================== canonization.rs: Gray walk *)
Lemma tie_gray_code i : Canon.gray i = gx_gray_code i. Proof. reflexivity. Qed.
Lemma tie_gray_pred i : Canon.gray (i - 1) = gx_gray_pred i. Proof. reflexivity. Qed.
Lemma tie_gray_end nb : N.of_nat (Nat.pow 2 nb) = gx_gray_end nb. Proof. apply of_nat_pow2. Qed.

(* the pushed value, up to the `as u8` truncation *)
Lemma tie_gray_flip_wrap i :
  gx_gray_flip i = wrap8 (Canon.trailing_zeros (N.lxor (gx_gray_pred i) (gx_gray_code i))).
Proof. reflexivity. Qed.

Lemma tie_gray_flip i :
  0 < i -> i < 2 ^ 256 ->
  gx_gray_flip i = Canon.trailing_zeros (N.lxor (Canon.gray (i - 1)) (Canon.gray i)).
Proof.
  intros H0 H. rewrite tie_gray_flip_wrap, <- (tie_gray_pred i), <- (tie_gray_code i).
  apply wrap8_small. rewrite GrayAll.gray_step by exact H0. rewrite GrayAll.tz_pow2.
  apply GrayAll.tz_lt; assumption.
Qed.

Lemma tie_gray_rollback nb : (nb <= 256)%nat -> gx_gray_rollback nb = N.of_nat (nb - 1).
Proof. intros H. unfold gx_gray_rollback. apply wrap8_small. lia. Qed.

Lemma tie_generate_gray_flips nb rollback :
  (nb <= 256)%nat ->
  Canon.generate_gray_flips nb rollback =
  let body := map (fun i => gx_gray_flip (N.of_nat i)) (seq 1 (N.to_nat (gx_gray_end nb) - 1)) in
  if rollback then body ++ [gx_gray_rollback nb] else body.
Proof.
  intros H. unfold Canon.generate_gray_flips. cbv zeta.
  rewrite <- tie_gray_end, Nat2N.id, tie_gray_rollback by exact H.
  assert (E : map (fun i : nat =>
                     Canon.trailing_zeros (N.lxor (Canon.gray (N.of_nat i - 1)) (Canon.gray (N.of_nat i))))
                  (seq 1 (Nat.pow 2 nb - 1)) =
              map (fun i : nat => gx_gray_flip (N.of_nat i)) (seq 1 (Nat.pow 2 nb - 1))).
  { apply map_ext_in. intros i Hi. apply in_seq in Hi. symmetry. apply tie_gray_flip.
    - lia.
    - apply N.lt_le_trans with (m := N.of_nat (Nat.pow 2 nb)).
      + lia.
      + rewrite Nat2N.inj_pow. change (N.of_nat 2) with 2. apply N.pow_le_mono_r; lia. }
  rewrite E. reflexivity.
Qed.

(* ================================================================== canonization.rs: certificates *)
Lemma tie_xor_bit32_n_flip cur x :
  Canon.xor_bit32 cur x = (dbg (gx_n_res_flip_shift_ok cur x) ;; Ok (gx_n_res_flip cur x)).
Proof. reflexivity. Qed.
Lemma tie_xor_bit32_n_out n cur :
  Canon.xor_bit32 cur (N.of_nat n) = (dbg (gx_n_res_out_shift_ok n cur) ;; Ok (gx_n_res_out n cur)).
Proof. reflexivity. Qed.
Lemma tie_xor_bit32_npn_flip cur x :
  Canon.xor_bit32 cur x = (dbg (gx_npn_res_flip_shift_ok cur x) ;; Ok (gx_npn_res_flip cur x)).
Proof. reflexivity. Qed.
Lemma tie_xor_bit32_npn_out n cur :
  Canon.xor_bit32 cur (N.of_nat n) = (dbg (gx_npn_res_out_shift_ok n cur) ;; Ok (gx_npn_res_out n cur)).
Proof. reflexivity. Qed.

(* one flip and the two complementations (`for _ in 0..2` unrolled), with the updates of n_canonization_res *)
Lemma tie_flip_res_step_n n cur ind best_ind flip :
  Canon.flip_res_step n cur ind best_ind flip =
  (let* c1 := (dbg (gx_n_res_flip_shift_ok cur flip) ;; Ok (gx_n_res_flip cur flip)) in
   let* c2 := (dbg (gx_n_res_out_shift_ok n c1) ;; Ok (gx_n_res_out n c1)) in
   if gx_n_res_hit ind best_ind then Ok (inl c2)
   else
     let* c3 := (dbg (gx_n_res_out_shift_ok n c2) ;; Ok (gx_n_res_out n c2)) in
     if gx_n_res_hit (gx_n_res_next_ind ind) best_ind then Ok (inl c3)
     else Ok (inr (c3, gx_n_res_next_ind (gx_n_res_next_ind ind)))).
Proof. unfold gx_n_res_next_ind. rewrite <- N.add_assoc. reflexivity. Qed.

(* the same with the updates of npn_canonization_res *)
Lemma tie_flip_res_step_npn n cur ind best_ind flip :
  Canon.flip_res_step n cur ind best_ind flip =
  (let* c1 := (dbg (gx_npn_res_flip_shift_ok cur flip) ;; Ok (gx_npn_res_flip cur flip)) in
   let* c2 := (dbg (gx_npn_res_out_shift_ok n c1) ;; Ok (gx_npn_res_out n c1)) in
   if gx_npn_res_hit ind best_ind then Ok (inl c2)
   else
     let* c3 := (dbg (gx_npn_res_out_shift_ok n c2) ;; Ok (gx_npn_res_out n c2)) in
     if gx_npn_res_hit (gx_npn_res_next_ind ind) best_ind then Ok (inl c3)
     else Ok (inr (c3, gx_npn_res_next_ind (gx_npn_res_next_ind ind)))).
Proof. unfold gx_npn_res_next_ind. rewrite <- N.add_assoc. reflexivity. Qed.

Lemma tie_n_canonization_res n all_flips best_ind :
  Canon.n_canonization_res n all_flips best_ind =
  (let* x := Canon.flips_res_loop n all_flips gx_n_res_cur_init gx_n_res_ind_init best_ind in
   match x with inl v => Ok v | inr _ => PanicAlways end).
Proof. reflexivity. Qed.

Lemma tie_npn_canonization_res n all_swaps all_flips best_ind :
  Canon.npn_canonization_res n all_swaps all_flips best_ind =
  Canon.npn_res_loop n (Canon.identity_perm n) all_swaps all_flips gx_npn_res_cur_init gx_npn_res_ind_init best_ind.
Proof. reflexivity. Qed.

(* the initial certificate index of the three walks (repaired code: the last index of the closed walk) *)
Lemma tie_p_canonization_ind n t all_swaps :
  Canon.p_canonization_ind n t all_swaps =
  (let* (_, best, best_ind, _) :=
     fold_left (Canon.p_step n) all_swaps (Ok (t, t, gx_p_ind_best_init all_swaps, 0)) in
   Ok (best, best_ind)).
Proof. reflexivity. Qed.

Lemma tie_n_canonization_ind n t all_flips :
  Canon.n_canonization_ind n t all_flips =
  (let* (_, best, best_ind, _) :=
     fold_left (Canon.n_step n) all_flips (Ok (t, t, gx_n_ind_best_init all_flips, 0)) in
   Ok (best, best_ind)).
Proof. reflexivity. Qed.

Lemma tie_npn_canonization_ind n t all_swaps all_flips :
  Canon.npn_canonization_ind n t all_swaps all_flips =
  (let* (_, best, best_ind, _) :=
     fold_left (Canon.npn_step n all_flips) all_swaps (Ok (t, t, gx_npn_ind_best_init all_swaps all_flips, 0)) in
   Ok (best, best_ind)).
Proof. reflexivity. Qed.

(* ------------------------------------------------------------------ NOT tied (see also the trailer of Gen/Exprs2.v)
   - Cube::pos_vars / neg_vars, Ecube::vars (iterator `(0..32).filter(|v| (x >> v & 1) != 0)`; bits_of in the model),
     implies_lut of both (loops calling value()), fmt of both (text): not translated.
   - cube_all / ecube_all: only `let mx: u32 = 1 << vars` is translated; the iterator chain is the model's list
     expression, restated by hand in tie_cube_all / tie_ecube_all.
   - level_complexity: the range literals of `(0..64).step_by(shift)` are not read from the source; the number of
     windows 2^(5 - level) of the model is related to 64 / shift by tie_bdd_window_count only.  Vec::sort + dedup + len
     is [distinct_count] (trusted, see Model/Bdd.v).
   - large_level_complexity: slicing (groups / firstn / skipn), `l == h` on slices (list_eq_dec), the loop head
     `(0..table.len()).step_by(nb)` (count, the divisibility assertion of the model stands for the slice panic) and the
     iterator combinators all / any / zip themselves (forallb / existsb / combine) are hand-written in the ties; only
     the closures and the scalar lets are generated.
   - generate_gray_flips: the range `1..end` is [seq 1 (2^nb - 1)] in the tie; `as u8` is absent from the model, the
     ties hold for nb_bits <= 256.
   - flips_res_loop / npn_res_loop (the loops around flip_res_step), perm_swap, identity_perm, p_canonization_res,
     the walks of the *_ind functions (calls of kernels and cmp), generate_swaps and its helpers: not translated. *)

