(* Word-level semantics of the in-word regimes (variable index <= 5) of flip, cofactor0/1, from_cofactors and swap.
   Each kernel word function is a checked sum of masked-shift pieces (Base/Pieces.v); the finite side condition is
   decided by vm_compute ON THE GENERATED CONSTANT TABLES (VAR_MASK, SWAP_INPUT_MASKS), the word stays symbolic. *)
From Coq Require Import List NArith Arith Bool Lia.
From V Require Import Base.Res Gen.Tables Model.Kernels Base.Bits Base.Pieces Spec.Bfun.
Import ListNotations.
Open Scope N_scope.

Lemma bind_ret {A} (x : res A) : bind x (fun s => Ok s) = x.
Proof. destruct x; reflexivity. Qed.

Lemma env1_ok w : w < 2 ^ 64 -> env_ok [w].
Proof.
  intros Hw k. unfold nthN. destruct k as [|[|k]]; simpl; [exact Hw| |]; apply N.neq_0_lt_0, N.pow_nonzero; lia.
Qed.

Lemma env2_ok w0 w1 : w0 < 2 ^ 64 -> w1 < 2 ^ 64 -> env_ok [w0; w1].
Proof.
  intros H0 H1 k. unfold nthN. destruct k as [|[|[|k]]]; simpl; [exact H0|exact H1| |];
    apply N.neq_0_lt_0, N.pow_nonzero; lia.
Qed.

Lemma in_seq6 i : (i < 6)%nat -> In i (seq 0 6).
Proof. intros. apply in_seq. lia. Qed.

Definition sh (i : nat) : N := N.shiftl 1 (N.of_nat i).

(* ------------------------------------------------------------------ flip *)
Definition flip_pieces (i : nat) : list piece :=
  [mkPiece 0 (var_mask i) (sh i) false; mkPiece 0 (not64 (var_mask i)) (sh i) true].
Definition flip_tgt (i : nat) : target := fun q => Some (0%nat, flipbit q (N.of_nat i)).

Lemma flip_check : forallb (fun i => check_pieces (flip_pieces i) (flip_tgt i)) (seq 0 6) = true.
Proof. vm_compute. reflexivity. Qed.

Lemma flip_word_spec i w : (i < 6)%nat -> w < 2 ^ 64 ->
  exists r, flip_word i w = Ok r /\ r < 2 ^ 64 /\
            forall q, q < 64 -> N.testbit r q = N.testbit w (flipbit q (N.of_nat i)).
Proof.
  intros Hi Hw. pose proof flip_check as C. rewrite forallb_forall in C. specialize (C i (in_seq6 i Hi)).
  destruct (pieces_sum [w] _ _ _ (env1_ok w Hw) C) as [r [R1 [R2 R3]]].
  exists r. split; [|split; [exact R2|]].
  - rewrite <- R1. cbn [map add64_from]. rewrite bind_ret. reflexivity.
  - intros q Hq. rewrite (R3 q Hq). reflexivity.
Qed.

(* ------------------------------------------------------------------ cofactors *)
Definition cof0_pieces (i : nat) : list piece :=
  [mkPiece 0 (not64 (var_mask i)) 0 false; mkPiece 0 (not64 (var_mask i)) (sh i) true].
Definition cof0_tgt (i : nat) : target := fun q => Some (0%nat, clearbit q (N.of_nat i)).

Lemma cof0_check : forallb (fun i => check_pieces (cof0_pieces i) (cof0_tgt i)) (seq 0 6) = true.
Proof. vm_compute. reflexivity. Qed.

Lemma cof0_word_spec i w : (i < 6)%nat -> w < 2 ^ 64 ->
  exists r, cof0_word i w = Ok r /\ r < 2 ^ 64 /\
            forall q, q < 64 -> N.testbit r q = N.testbit w (clearbit q (N.of_nat i)).
Proof.
  intros Hi Hw. pose proof cof0_check as C. rewrite forallb_forall in C. specialize (C i (in_seq6 i Hi)).
  destruct (pieces_sum [w] _ _ _ (env1_ok w Hw) C) as [r [R1 [R2 R3]]].
  exists r. split; [|split; [exact R2|]].
  - rewrite <- R1. cbn [map add64_from]. rewrite bind_ret. unfold cof0_word, eval_piece.
    cbn [p_left p_mask p_shift p_in]. rewrite N.shiftr_0_r. reflexivity.
  - intros q Hq. rewrite (R3 q Hq). reflexivity.
Qed.

Definition cof1_pieces (i : nat) : list piece :=
  [mkPiece 0 (var_mask i) (sh i) false; mkPiece 0 (var_mask i) 0 false].
Definition cof1_tgt (i : nat) : target := fun q => Some (0%nat, setbit q (N.of_nat i)).

Lemma cof1_check : forallb (fun i => check_pieces (cof1_pieces i) (cof1_tgt i)) (seq 0 6) = true.
Proof. vm_compute. reflexivity. Qed.

Lemma cof1_word_spec i w : (i < 6)%nat -> w < 2 ^ 64 ->
  exists r, cof1_word i w = Ok r /\ r < 2 ^ 64 /\
            forall q, q < 64 -> N.testbit r q = N.testbit w (setbit q (N.of_nat i)).
Proof.
  intros Hi Hw. pose proof cof1_check as C. rewrite forallb_forall in C. specialize (C i (in_seq6 i Hi)).
  destruct (pieces_sum [w] _ _ _ (env1_ok w Hw) C) as [r [R1 [R2 R3]]].
  exists r. split; [|split; [exact R2|]].
  - rewrite <- R1. cbn [map add64_from]. rewrite bind_ret. unfold cof1_word, eval_piece.
    cbn [p_left p_mask p_shift p_in]. rewrite N.shiftr_0_r. reflexivity.
  - intros q Hq. rewrite (R3 q Hq). reflexivity.
Qed.

Definition from_cof_pieces (i : nat) : list piece :=
  [mkPiece 1 (var_mask i) 0 false; mkPiece 0 (not64 (var_mask i)) 0 false].
Definition from_cof_tgt (i : nat) : target :=
  fun q => if N.testbit q (N.of_nat i) then Some (1%nat, q) else Some (0%nat, q).

Lemma from_cof_check : forallb (fun i => check_pieces (from_cof_pieces i) (from_cof_tgt i)) (seq 0 6) = true.
Proof. vm_compute. reflexivity. Qed.

Lemma from_cof_word_spec i w0 w1 : (i < 6)%nat -> w0 < 2 ^ 64 -> w1 < 2 ^ 64 ->
  exists r, from_cof_word i w0 w1 = Ok r /\ r < 2 ^ 64 /\
            forall q, q < 64 -> N.testbit r q = if N.testbit q (N.of_nat i) then N.testbit w1 q else N.testbit w0 q.
Proof.
  intros Hi H0 H1. pose proof from_cof_check as C. rewrite forallb_forall in C. specialize (C i (in_seq6 i Hi)).
  destruct (pieces_sum [w0; w1] _ _ _ (env2_ok w0 w1 H0 H1) C) as [r [R1 [R2 R3]]].
  exists r. split; [|split; [exact R2|]].
  - rewrite <- R1. cbn [map add64_from]. rewrite bind_ret. unfold from_cof_word, eval_piece.
    cbn [p_left p_mask p_shift p_in]. rewrite !N.shiftr_0_r. reflexivity.
  - intros q Hq. rewrite (R3 q Hq). unfold read, from_cof_tgt.
    destruct (N.testbit q (N.of_nat i)); reflexivity.
Qed.

(* ------------------------------------------------------------------ swap, both indices <= 5 *)
Definition swap_shift (i j : nat) : N := sh i - sh j.
Definition swap_pieces (i j : nat) : list piece :=
  let ml := swap_mask i j in
  let mr := shl64 ml (swap_shift i j) in
  [mkPiece 0 (N.land (not64 ml) (not64 mr)) 0 false; mkPiece 0 ml (swap_shift i j) true;
   mkPiece 0 mr (swap_shift i j) false].
Definition swap_tgt (i j : nat) : target := fun q => Some (0%nat, swapbits q (N.of_nat i) (N.of_nat j)).

Definition low_pairs : list (nat * nat) :=
  flat_map (fun i => map (fun j => (i, j)) (seq 0 i)) (seq 0 6).

Lemma in_low_pairs i j : (j < i)%nat -> (i < 6)%nat -> In (i, j) low_pairs.
Proof.
  intros Hj Hi. unfold low_pairs. apply in_flat_map. exists i. split; [apply in_seq; lia|].
  apply in_map_iff. exists j. split; [reflexivity|apply in_seq; lia].
Qed.

Lemma swap_check :
  forallb (fun p => check_pieces (swap_pieces (fst p) (snd p)) (swap_tgt (fst p) (snd p))) low_pairs = true.
Proof. vm_compute. reflexivity. Qed.

Lemma land_land_assoc w a b : N.land (N.land w a) b = N.land w (N.land a b).
Proof. symmetry. apply N.land_assoc. Qed.

Lemma swap_word_low_spec i j w : (j < i)%nat -> (i < 6)%nat -> w < 2 ^ 64 ->
  exists r, swap_word_low i j w = Ok r /\ r < 2 ^ 64 /\
            forall q, q < 64 -> N.testbit r q = N.testbit w (swapbits q (N.of_nat i) (N.of_nat j)).
Proof.
  intros Hj Hi Hw. pose proof swap_check as C. rewrite forallb_forall in C.
  specialize (C (i, j) (in_low_pairs i j Hj Hi)). cbn [fst snd] in C.
  destruct (pieces_sum [w] _ _ _ (env1_ok w Hw) C) as [r [R1 [R2 R3]]].
  exists r. split; [|split; [exact R2|]].
  - rewrite <- R1. cbn [map add64_from]. unfold swap_word_low, eval_piece.
    cbn [p_left p_mask p_shift p_in]. rewrite N.shiftr_0_r. fold (sh i) (sh j). fold (swap_shift i j).
    change (nthN [w] 0) with w. rewrite <- land_land_assoc.
    destruct (add64 _ _) as [s| |]; cbn [bind]; [|reflexivity|reflexivity].
    rewrite bind_ret. reflexivity.
  - intros q Hq. rewrite (R3 q Hq). reflexivity.
Qed.

(* ------------------------------------------------------------------ swap, j <= 5 < i: the two words of one iteration *)
(* (x >> s) << s gives back x when x has no bit below s and none at 64 or above *)
Definition cross_lo_pieces (j : nat) : list piece :=
  [mkPiece 0 (not64 (var_mask j)) 0 false; mkPiece 1 (not64 (var_mask j)) (sh j) true].
Definition cross_lo_tgt (j : nat) : target :=
  fun q => if N.testbit q (N.of_nat j) then Some (1%nat, q - sh j) else Some (0%nat, q).
Definition cross_hi_pieces (j : nat) : list piece :=
  [mkPiece 0 (var_mask j) (sh j) false; mkPiece 1 (var_mask j) 0 false].
Definition cross_hi_tgt (j : nat) : target :=
  fun q => if N.testbit q (N.of_nat j) then Some (1%nat, q) else Some (0%nat, q + sh j).

Lemma cross_lo_check : forallb (fun j => check_pieces (cross_lo_pieces j) (cross_lo_tgt j)) (seq 0 6) = true.
Proof. vm_compute. reflexivity. Qed.
Lemma cross_hi_check : forallb (fun j => check_pieces (cross_hi_pieces j) (cross_hi_tgt j)) (seq 0 6) = true.
Proof. vm_compute. reflexivity. Qed.

(* bits of VAR_MASK[j] live at positions >= 2^j (and < 64): shifting right then left by 2^j loses nothing *)
Definition mask_above (j : nat) : bool :=
  forallb (fun q => negb (N.testbit (var_mask j) q) || (sh j <=? q)) positions64 && (var_mask j <? 2 ^ 64).
Lemma mask_above_all : forallb mask_above (seq 0 6) = true.
Proof. vm_compute. reflexivity. Qed.

Lemma shr_shl_mask j w : (j < 6)%nat ->
  shl64 (N.shiftr (N.land w (var_mask j)) (sh j)) (sh j) = N.land w (var_mask j).
Proof.
  intros Hj. pose proof mask_above_all as M. rewrite forallb_forall in M. specialize (M j (in_seq6 j Hj)).
  unfold mask_above in M. apply andb_true_iff in M. destruct M as [M1 M2]. rewrite forallb_forall in M1.
  apply N.ltb_lt in M2.
  apply N.bits_inj. intro q. rewrite shl64_spec, N.land_spec.
  destruct (N.ltb_spec q 64) as [Hq|Hq].
  - specialize (M1 q (in_positions64 q Hq)). cbn [andb].
    destruct (N.leb_spec (sh j) q) as [L|L].
    + cbn [andb]. rewrite N.shiftr_spec', N.land_spec. replace (q - sh j + sh j) with q by lia. reflexivity.
    + cbn [andb]. destruct (N.testbit (var_mask j) q); [|rewrite andb_false_r; reflexivity].
      cbn [negb orb] in M1. first [discriminate M1 | apply N.leb_le in M1; lia].
  - cbn [andb]. rewrite (testbit_lt_pow2 (var_mask j) 64 q M2 Hq). rewrite andb_false_r. reflexivity.
Qed.

(* one iteration of the cross regime, on the pair (t0, t1) = (table[k], table[k + mi]) *)
Lemma swap_cross_words_spec j t0 t1 : (j < 6)%nat -> t0 < 2 ^ 64 -> t1 < 2 ^ 64 ->
  let mask := var_mask j in
  let shift := sh j in
  let t00 := N.land t0 (not64 mask) in
  let t01 := N.shiftr (N.land t0 mask) shift in
  let t10 := N.land t1 (not64 mask) in
  let t11 := N.shiftr (N.land t1 mask) shift in
  exists a b, add64 t00 (shl64 t10 shift) = Ok a /\ add64 t01 (shl64 t11 shift) = Ok b /\
              a < 2 ^ 64 /\ b < 2 ^ 64 /\
              (forall q, q < 64 -> N.testbit a q =
                                   if N.testbit q (N.of_nat j) then N.testbit t1 (q - sh j) else N.testbit t0 q) /\
              (forall q, q < 64 -> N.testbit b q =
                                   if N.testbit q (N.of_nat j) then N.testbit t1 q else N.testbit t0 (q + sh j)).
Proof.
  intros Hj H0 H1. cbv zeta.
  pose proof cross_lo_check as C1. rewrite forallb_forall in C1. specialize (C1 j (in_seq6 j Hj)).
  pose proof cross_hi_check as C2. rewrite forallb_forall in C2. specialize (C2 j (in_seq6 j Hj)).
  destruct (pieces_sum [t0; t1] _ _ _ (env2_ok t0 t1 H0 H1) C1) as [a [A1 [A2 A3]]].
  destruct (pieces_sum [t0; t1] _ _ _ (env2_ok t0 t1 H0 H1) C2) as [b [B1 [B2 B3]]].
  exists a, b. repeat split; try assumption.
  - rewrite <- A1. cbn [map add64_from]. rewrite bind_ret. unfold eval_piece.
    cbn [p_left p_mask p_shift p_in]. rewrite N.shiftr_0_r. reflexivity.
  - rewrite <- B1. cbn [map add64_from]. rewrite bind_ret. unfold eval_piece.
    cbn [p_left p_mask p_shift p_in]. rewrite N.shiftr_0_r. rewrite (shr_shl_mask j t1 Hj). reflexivity.
  - intros q Hq. rewrite (A3 q Hq). unfold read, cross_lo_tgt. destruct (N.testbit q (N.of_nat j)); reflexivity.
  - intros q Hq. rewrite (B3 q Hq). unfold read, cross_hi_tgt. destruct (N.testbit q (N.of_nat j)); reflexivity.
Qed.
