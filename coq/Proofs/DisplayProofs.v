(* Proofs for C16: the printed text of Cube / Ecube / Sop / Esop / Soes, read with Spec/Grammar.v, evaluates to
   the value of the object; literal indices increase; distinct canonical cubes print distinct text. *)
From Coq Require Import List NArith Arith Bool Lia Sorted.
From V Require Import Base.Res Model.Kernels Base.Bits Model.TwoLevel Spec.Grammar.
Import ListNotations.
Open Scope N_scope.

Local Notation idx32 := (map N.of_nat (seq 0 32)).

(* ================================================================== generic list helpers *)
Lemma In_idx32 i : In i idx32 <-> i < 32.
Proof.
  rewrite in_map_iff. split.
  - intros [k [Hk Hin]]. apply in_seq in Hin. lia.
  - intros H. exists (N.to_nat i). split; [apply N2Nat.id|]. apply in_seq. lia.
Qed.

Lemma forallb_ext_in {A} (f g : A -> bool) l :
  (forall x, In x l -> f x = g x) -> forallb f l = forallb g l.
Proof.
  induction l as [|a l IH]; intros H; cbn [forallb]; [reflexivity|].
  rewrite (H a) by (left; reflexivity). rewrite IH; [reflexivity|].
  intros x Hx. apply H. right. exact Hx.
Qed.

Lemma forallb_andb {A} (f g : A -> bool) l :
  forallb f l && forallb g l = forallb (fun x => f x && g x) l.
Proof.
  induction l as [|a l IH]; cbn [forallb]; [reflexivity|].
  rewrite <- IH. destruct (f a), (g a), (forallb f l); reflexivity.
Qed.

Lemma forallb_flat_map {A B} (f : B -> bool) (g : A -> list B) l :
  forallb f (flat_map g l) = forallb (fun x => forallb f (g x)) l.
Proof.
  induction l as [|a l IH]; cbn [flat_map forallb]; [reflexivity|].
  rewrite forallb_app, IH. reflexivity.
Qed.

Lemma Forall_flat_map {A B} (P : B -> Prop) (g : A -> list B) l :
  (forall x, In x l -> Forall P (g x)) -> Forall P (flat_map g l).
Proof.
  induction l as [|a l IH]; intros H; cbn [flat_map]; [constructor|].
  apply Forall_app. split; [apply H; left; reflexivity|]. apply IH. intros x Hx. apply H. right. exact Hx.
Qed.

Lemma Forall2_map_in {A B C} (R : B -> C -> Prop) (f : A -> B) (g : A -> C) l :
  (forall x, In x l -> R (f x) (g x)) -> Forall2 R (map f l) (map g l).
Proof.
  induction l as [|a l IH]; intros H; cbn [map]; constructor.
  - apply H. left. reflexivity.
  - apply IH. intros x Hx. apply H. right. exact Hx.
Qed.

(* join on any element type (Model.TwoLevel.join is the instance on bytes) *)
Fixpoint tjoin {A} (sep : list A) (l : list (list A)) : list A :=
  match l with
  | [] => []
  | [x] => x
  | x :: r => x ++ sep ++ tjoin sep r
  end.

Lemma tjoin_cons2 {A} (sep : list A) x y r : tjoin sep (x :: y :: r) = x ++ sep ++ tjoin sep (y :: r).
Proof. reflexivity. Qed.
Lemma join_cons2 sep x y r : join sep (x :: y :: r) = x ++ sep ++ join sep (y :: r).
Proof. reflexivity. Qed.

(* ================================================================== the lexer *)
Lemma strip_app p s : strip p (p ++ s) = Some s.
Proof.
  induction p as [|a p IH]; cbn [strip app]; [reflexivity|]. rewrite N.eqb_refl. exact IH.
Qed.

Lemma strip_length p : forall s r, strip p s = Some r -> length s = (length p + length r)%nat.
Proof.
  induction p as [|a p IH]; intros s r H; cbn [strip] in H.
  - injection H as ->. reflexivity.
  - destruct s as [|b s]; [discriminate|]. destruct (a =? b); [|discriminate].
    apply IH in H. cbn [length]. lia.
Qed.

Lemma read_num_length s : forall acc, (length (snd (read_num acc s)) <= length s)%nat.
Proof.
  induction s as [|b s IH]; intros acc; cbn [read_num].
  - cbn [snd length]. lia.
  - destruct (is_digit b).
    + specialize (IH (10 * acc + (b - 48))). cbn [length]. lia.
    + cbn [snd]. lia.
Qed.

Lemma read_index_length s i rest : read_index s = Some (i, rest) -> (length rest < length s)%nat.
Proof.
  destruct s as [|b s]; cbn [read_index read_num]; [discriminate|].
  destruct (is_digit b); [|discriminate]. intros H. injection H as H.
  pose proof (read_num_length s (10 * 0 + (b - 48))) as L. rewrite H in L. cbn [snd] in L. cbn [length]. lia.
Qed.

Lemma keyword_length p t s t' rest :
  p <> [] -> keyword p t s = Some (t', rest) -> (length rest < length s)%nat.
Proof.
  intros Hp. unfold keyword. destruct (strip p s) as [r|] eqn:E; [|discriminate].
  intros H. injection H as _ <-. apply strip_length in E. destruct p; [congruence|]. cbn [length] in E. lia.
Qed.

Lemma literal_length p neg s t' rest : literal p neg s = Some (t', rest) -> (length rest < length s)%nat.
Proof.
  unfold literal. destruct (strip p s) as [r|] eqn:E; [|discriminate].
  destruct (read_index r) as [[i rest']|] eqn:E2; [|discriminate].
  intros H. injection H as _ <-. apply strip_length in E. apply read_index_length in E2. lia.
Qed.

Lemma next_token_length s t rest : next_token s = Some (t, rest) -> (length rest < length s)%nat.
Proof.
  unfold next_token, orelse.
  destruct (keyword [48] TZero s) as [[t1 r1]|] eqn:E1.
  { intros H. injection H as -> ->. apply keyword_length in E1; [exact E1|discriminate]. }
  destruct (keyword [49] TOne s) as [[t2 r2]|] eqn:E2.
  { intros H. injection H as -> ->. apply keyword_length in E2; [exact E2|discriminate]. }
  destruct (literal [120] false s) as [[t3 r3]|] eqn:E3.
  { intros H. injection H as -> ->. apply literal_length in E3. exact E3. }
  destruct (literal [33; 120] true s) as [[t4 r4]|] eqn:E4.
  { intros H. injection H as -> ->. apply literal_length in E4. exact E4. }
  destruct (keyword [32; 94; 32] TXor s) as [[t5 r5]|] eqn:E5.
  { intros H. injection H as -> ->. apply keyword_length in E5; [exact E5|discriminate]. }
  intros H. apply keyword_length in H; [exact H|discriminate].
Qed.

Lemma lex_fuel_enough : forall f f' s,
  (length s <= f)%nat -> (length s <= f')%nat -> lex_fuel f s = lex_fuel f' s.
Proof.
  induction f as [|f IH]; intros [|f'] [|b s] H1 H2; cbn [length] in *; try lia; try reflexivity.
  cbn [lex_fuel]. destruct (next_token (b :: s)) as [[t rest]|] eqn:E; [|reflexivity].
  apply next_token_length in E. cbn [length] in E. f_equal. apply IH; lia.
Qed.

Lemma lex_nil : lex [] = Some [].
Proof. reflexivity. Qed.

Lemma lex_step s t rest : next_token s = Some (t, rest) -> lex s = option_map (cons t) (lex rest).
Proof.
  intros H. unfold lex. destruct s as [|b s]; [discriminate|].
  cbn [length lex_fuel]. rewrite H. f_equal.
  apply next_token_length in H. cbn [length] in H. apply lex_fuel_enough; lia.
Qed.

(* "no digit at the head": what may follow a literal *)
Definition ndh (s : list N) : Prop := match s with [] => True | b :: _ => is_digit b = false end.

Lemma ndh_app s r : s <> [] -> ndh s -> ndh (s ++ r).
Proof. destruct s as [|b s]; [congruence|]. intros _ H. exact H. Qed.

Lemma ndh_app' s r : ndh s -> ndh r -> ndh (s ++ r).
Proof. destruct s as [|b s]; intros H1 H2; [exact H2|exact H1]. Qed.

Lemma read_num_stop acc rest : ndh rest -> read_num acc rest = (acc, rest).
Proof. destruct rest as [|b r]; cbn [ndh read_num]; [reflexivity|]. intros ->. reflexivity. Qed.

Lemma read_num_digits ds : forall acc rest,
  forallb is_digit ds = true -> ndh rest -> read_num acc (ds ++ rest) = (fst (read_num acc ds), rest).
Proof.
  induction ds as [|d ds IH]; intros acc rest Hd Hr.
  - cbn [app read_num fst]. apply read_num_stop. exact Hr.
  - cbn [forallb] in Hd. apply andb_true_iff in Hd. destruct Hd as [Hd Hds].
    cbn [app read_num]. rewrite Hd. apply IH; assumption.
Qed.

(* the 32 indices that can be printed read back as themselves *)
Definition dec_ok (i : N) : bool :=
  match dec i with [] => false | b :: _ => is_digit b end && forallb is_digit (dec i) &&
  (fst (read_num 0 (dec i)) =? i).

Lemma dec_table : forallb dec_ok idx32 = true.
Proof. vm_compute. reflexivity. Qed.

Lemma read_index_dec i rest : i < 32 -> ndh rest -> read_index (dec i ++ rest) = Some (i, rest).
Proof.
  intros Hi Hr. pose proof dec_table as T. rewrite forallb_forall in T.
  specialize (T i (proj2 (In_idx32 i) Hi)). unfold dec_ok in T.
  apply andb_true_iff in T. destruct T as [T T3]. apply andb_true_iff in T. destruct T as [T1 T2].
  apply N.eqb_eq in T3.
  destruct (dec i) as [|b ds] eqn:E; [discriminate|].
  rewrite <- app_comm_cons. unfold read_index. rewrite T1. rewrite app_comm_cons.
  rewrite read_num_digits by assumption. rewrite T3. reflexivity.
Qed.

Lemma next_token_zero r : next_token (48 :: r) = Some (TZero, r).
Proof. reflexivity. Qed.
Lemma next_token_one r : next_token (49 :: r) = Some (TOne, r).
Proof. reflexivity. Qed.
Lemma next_token_xor r : next_token (32 :: 94 :: 32 :: r) = Some (TXor, r).
Proof. reflexivity. Qed.
Lemma next_token_or r : next_token (32 :: 124 :: 32 :: r) = Some (TOr, r).
Proof. reflexivity. Qed.

Lemma next_token_x r : next_token (120 :: r) = literal [120] false (120 :: r).
Proof.
  cbv [next_token orelse keyword literal strip N.eqb Pos.eqb].
  destruct (read_index r) as [[i rest]|]; reflexivity.
Qed.

Lemma next_token_nx r : next_token (33 :: 120 :: r) = literal [33; 120] true (33 :: 120 :: r).
Proof.
  cbv [next_token orelse keyword literal strip N.eqb Pos.eqb].
  destruct (read_index r) as [[i rest]|]; reflexivity.
Qed.

Lemma next_token_lit neg i rest :
  i < 32 -> ndh rest -> next_token (lit_str neg i ++ rest) = Some (TLit neg i, rest).
Proof.
  intros Hi Hr. unfold lit_str. rewrite <- app_assoc.
  destruct neg.
  - change ([33; 120] ++ dec i ++ rest) with (33 :: 120 :: dec i ++ rest). rewrite next_token_nx.
    change (33 :: 120 :: dec i ++ rest) with ([33; 120] ++ dec i ++ rest).
    unfold literal. rewrite strip_app, read_index_dec by assumption. reflexivity.
  - change ([120] ++ dec i ++ rest) with (120 :: dec i ++ rest). rewrite next_token_x.
    change (120 :: dec i ++ rest) with ([120] ++ dec i ++ rest).
    unfold literal. rewrite strip_app, read_index_dec by assumption. reflexivity.
Qed.

(* ------------------------------------------------------------------ compositional lexing
   lexS s ts : s lexes to ts whatever follows;  lexW s ts : provided no digit follows *)
Definition lexS (s : list N) (ts : list token) : Prop :=
  forall rest trest, lex rest = Some trest -> lex (s ++ rest) = Some (ts ++ trest).
Definition lexW (s : list N) (ts : list token) : Prop :=
  forall rest trest, ndh rest -> lex rest = Some trest -> lex (s ++ rest) = Some (ts ++ trest).

Lemma lexS_W s ts : lexS s ts -> lexW s ts.
Proof. intros H rest trest _ Hr. apply H. exact Hr. Qed.

Lemma lexW_nil : lexW [] [].
Proof. intros rest trest _ Hr. exact Hr. Qed.

Lemma lexW_done s ts : lexW s ts -> lex s = Some ts.
Proof.
  intros H. specialize (H [] [] I lex_nil). rewrite !app_nil_r in H. exact H.
Qed.

Lemma lexS_zero : lexS [48] [TZero].
Proof. intros rest trest Hr. cbn [app]. rewrite (lex_step _ _ _ (next_token_zero rest)), Hr. reflexivity. Qed.
Lemma lexS_one : lexS [49] [TOne].
Proof. intros rest trest Hr. cbn [app]. rewrite (lex_step _ _ _ (next_token_one rest)), Hr. reflexivity. Qed.
Lemma lexS_xor : lexS [32; 94; 32] [TXor].
Proof. intros rest trest Hr. cbn [app]. rewrite (lex_step _ _ _ (next_token_xor rest)), Hr. reflexivity. Qed.
Lemma lexS_or : lexS [32; 124; 32] [TOr].
Proof. intros rest trest Hr. cbn [app]. rewrite (lex_step _ _ _ (next_token_or rest)), Hr. reflexivity. Qed.

Lemma lexW_lit neg i : i < 32 -> lexW (lit_str neg i) [TLit neg i].
Proof.
  intros Hi rest trest Hn Hr.
  rewrite (lex_step _ _ _ (next_token_lit neg i rest Hi Hn)), Hr. reflexivity.
Qed.

Lemma lexW_app s1 t1 s2 t2 : lexW s1 t1 -> lexW s2 t2 -> ndh s2 -> lexW (s1 ++ s2) (t1 ++ t2).
Proof.
  intros H1 H2 Hn rest trest Hnr Hr. rewrite <- !app_assoc. apply H1.
  - apply ndh_app'; assumption.
  - apply H2; assumption.
Qed.

Lemma lexS_app_W s1 t1 s2 t2 : lexS s1 t1 -> lexW s2 t2 -> lexW (s1 ++ s2) (t1 ++ t2).
Proof.
  intros H1 H2 rest trest Hnr Hr. rewrite <- !app_assoc. apply H1. apply H2; assumption.
Qed.

Lemma ndh_lit neg i r : ndh (lit_str neg i ++ r).
Proof. destruct neg; reflexivity. Qed.

Lemma ndh_lit' neg i : ndh (lit_str neg i).
Proof. destruct neg; reflexivity. Qed.

(* a separator that starts with a non-digit *)
Lemma lexW_join sep tsep : lexS sep [tsep] -> (forall r, ndh (sep ++ r)) ->
  forall parts tparts, Forall2 lexW parts tparts -> lexW (join sep parts) (tjoin [tsep] tparts).
Proof.
  intros Hsep Hn parts tparts H. induction H as [|x tx r tr Hx Hr IH].
  - exact lexW_nil.
  - destruct Hr as [|y ty r tr Hy Hr].
    + exact Hx.
    + rewrite join_cons2, tjoin_cons2.
      apply lexW_app; [exact Hx| |apply Hn].
      apply lexS_app_W; [exact Hsep|exact IH].
Qed.

(* ================================================================== the token lists that are printed *)
Definition cube_lits (c : cube) (i : N) : list token :=
  (if N.testbit (cpos c) i then [TLit false i] else []) ++ (if N.testbit (cneg c) i then [TLit true i] else []).

Definition tokens_of_cube (c : cube) : list token :=
  if cube_is_one c then [TOne]
  else if cube_is_zero c then [TZero]
  else flat_map (cube_lits c) idx32.

Definition tokens_of_ecube (e : ecube) : list token :=
  if ecube_is_zero e then [TZero]
  else tjoin [TXor] ((if exnor e then [[TOne]] else []) ++ map (fun i => [TLit false i]) (ecube_vars e)).

Definition tokens_of_sop (s : sop) : list token :=
  if sop_is_zero s then [TZero] else tjoin [TOr] (map tokens_of_cube (scubes s)).
Definition tokens_of_esop (s : esop) : list token :=
  if esop_is_zero s then [TZero] else tjoin [TXor] (map tokens_of_cube (ecubes s)).
Definition tokens_of_soes (s : soes) : list token :=
  if soes_is_zero s then [TZero] else tjoin [TOr] (map tokens_of_ecube (ocubes s)).

(* ------------------------------------------------------------------ item 1: lex (display x) = tokens_of x *)
Lemma lexW_cube_lits c : forall l, (forall i, In i l -> i < 32) ->
  lexW (flat_map (fun i => (if N.testbit (cpos c) i then lit_str false i else []) ++
                           (if N.testbit (cneg c) i then lit_str true i else [])) l)
       (flat_map (cube_lits c) l) /\
  ndh (flat_map (fun i => (if N.testbit (cpos c) i then lit_str false i else []) ++
                          (if N.testbit (cneg c) i then lit_str true i else [])) l).
Proof.
  induction l as [|i l IH]; intros Hl; cbn [flat_map].
  - split; [exact lexW_nil|exact I].
  - assert (Hi : i < 32) by (apply Hl; left; reflexivity).
    destruct IH as [IH1 IH2]; [intros j Hj; apply Hl; right; exact Hj|].
    unfold cube_lits at 1.
    destruct (N.testbit (cpos c) i), (N.testbit (cneg c) i); cbn [app].
    + split.
      * rewrite <- app_assoc. change (TLit false i :: TLit true i :: flat_map (cube_lits c) l)
          with ([TLit false i] ++ [TLit true i] ++ flat_map (cube_lits c) l).
        apply lexW_app; [apply lexW_lit; exact Hi| |apply ndh_lit].
        apply lexW_app; [apply lexW_lit; exact Hi|exact IH1|exact IH2].
      * rewrite <- app_assoc. apply ndh_lit.
    + split.
      * rewrite app_nil_r. change (TLit false i :: flat_map (cube_lits c) l)
          with ([TLit false i] ++ flat_map (cube_lits c) l).
        apply lexW_app; [apply lexW_lit; exact Hi|exact IH1|exact IH2].
      * rewrite app_nil_r. apply ndh_lit.
    + split.
      * change (TLit true i :: flat_map (cube_lits c) l) with ([TLit true i] ++ flat_map (cube_lits c) l).
        apply lexW_app; [apply lexW_lit; exact Hi|exact IH1|exact IH2].
      * apply ndh_lit.
    + split; assumption.
Qed.

Lemma lexW_cube c : lexW (cube_display c) (tokens_of_cube c).
Proof.
  unfold cube_display, tokens_of_cube.
  destruct (cube_is_one c); [apply lexS_W, lexS_one|].
  destruct (cube_is_zero c); [apply lexS_W, lexS_zero|].
  apply lexW_cube_lits. intros i Hi. apply In_idx32. exact Hi.
Qed.

Lemma bits_of_lt x i : In i (bits_of x) -> i < 32.
Proof. unfold bits_of. rewrite filter_In. intros [H _]. apply In_idx32. exact H. Qed.

(* NB: never let the kernel convert [In i (ecube_vars e)] with [In i (bits_of (evars e))]: it unfolds the filter
   over the 32 positions with stuck tests (exponential).  Rewrite with this equation instead. *)
Lemma ecube_vars_eq e : ecube_vars e = bits_of (evars e).
Proof. reflexivity. Qed.

Lemma lexW_ecube e : lexW (ecube_display e) (tokens_of_ecube e).
Proof.
  unfold ecube_display, tokens_of_ecube.
  destruct (ecube_is_zero e); [apply lexS_W, lexS_zero|].
  apply lexW_join; [exact lexS_xor|reflexivity|].
  apply Forall2_app.
  - destruct (exnor e); constructor; [apply lexS_W, lexS_one|constructor].
  - apply Forall2_map_in. intros i Hi. apply lexW_lit. rewrite ecube_vars_eq in Hi. exact (bits_of_lt _ _ Hi).
Qed.

Lemma lexW_sop s : lexW (sop_display s) (tokens_of_sop s).
Proof.
  unfold sop_display, tokens_of_sop.
  destruct (sop_is_zero s); [apply lexS_W, lexS_zero|].
  apply lexW_join; [exact lexS_or|reflexivity|].
  apply Forall2_map_in. intros c _. apply lexW_cube.
Qed.

Lemma lexW_esop s : lexW (esop_display s) (tokens_of_esop s).
Proof.
  unfold esop_display, tokens_of_esop.
  destruct (esop_is_zero s); [apply lexS_W, lexS_zero|].
  apply lexW_join; [exact lexS_xor|reflexivity|].
  apply Forall2_map_in. intros c _. apply lexW_cube.
Qed.

Lemma lexW_soes s : lexW (soes_display s) (tokens_of_soes s).
Proof.
  unfold soes_display, tokens_of_soes.
  destruct (soes_is_zero s); [apply lexS_W, lexS_zero|].
  apply lexW_join; [exact lexS_or|reflexivity|].
  apply Forall2_map_in. intros e _. apply lexW_ecube.
Qed.

Theorem lex_cube_display c : lex (cube_display c) = Some (tokens_of_cube c).
Proof. apply lexW_done, lexW_cube. Qed.
Theorem lex_ecube_display e : lex (ecube_display e) = Some (tokens_of_ecube e).
Proof. apply lexW_done, lexW_ecube. Qed.
Theorem lex_sop_display s : lex (sop_display s) = Some (tokens_of_sop s).
Proof. apply lexW_done, lexW_sop. Qed.
Theorem lex_esop_display s : lex (esop_display s) = Some (tokens_of_esop s).
Proof. apply lexW_done, lexW_esop. Qed.
Theorem lex_soes_display s : lex (soes_display s) = Some (tokens_of_soes s).
Proof. apply lexW_done, lexW_soes. Qed.

(* ================================================================== evaluation of token lists *)
Definition is_atom (t : token) : bool := match t with TXor | TOr => false | _ => true end.
Definition atom_val (m : N) (t : token) : bool :=
  match t with TZero => false | TOne => true | TLit neg i => xorb neg (N.testbit m i) | _ => false end.

Lemma is_atom_not_xor t : is_atom t = true -> is_xor t = false.
Proof. destruct t; cbn; congruence. Qed.
Lemma is_atom_not_or t : is_atom t = true -> is_or t = false.
Proof. destruct t; cbn; congruence. Qed.

Lemma split_nosep is_sep ts : Forall (fun t => is_sep t = false) ts -> split is_sep ts = [ts].
Proof.
  induction 1 as [|t ts Ht _ IH]; cbn [split]; [reflexivity|]. rewrite Ht, IH. reflexivity.
Qed.

Lemma split_app_sep is_sep a sep b :
  Forall (fun t => is_sep t = false) a -> is_sep sep = true ->
  split is_sep (a ++ sep :: b) = a :: split is_sep b.
Proof.
  intros Ha Hs. induction Ha as [|t a Ht _ IH]; cbn [split app].
  - rewrite Hs. reflexivity.
  - rewrite Ht, IH. reflexivity.
Qed.

Lemma split_tjoin is_sep sep parts :
  is_sep sep = true -> parts <> [] -> Forall (Forall (fun t => is_sep t = false)) parts ->
  split is_sep (tjoin [sep] parts) = parts.
Proof.
  intros Hs Hne H. induction H as [|x r Hx Hr IH]; [congruence|].
  destruct r as [|y r].
  - cbn [tjoin]. apply split_nosep. exact Hx.
  - rewrite tjoin_cons2. cbn [app]. rewrite split_app_sep by assumption.
    rewrite IH by discriminate. reflexivity.
Qed.

Lemma combine_with_Some op u bs : combine_with op u (map Some bs) = Some (fold_right op u bs).
Proof.
  induction bs as [|b bs IH]; cbn [map combine_with fold_right]; [reflexivity|]. rewrite IH. reflexivity.
Qed.

Lemma eval_factor_atoms m ts :
  ts <> [] -> Forall (fun t => is_atom t = true) ts -> eval_factor m ts = Some (forallb (atom_val m) ts).
Proof.
  intros Hne H. unfold eval_factor. destruct ts as [|t0 ts0] eqn:E; [congruence|]. rewrite <- E in *. clear E Hne.
  induction H as [|t ts Ht _ IH]; cbn [map combine_with forallb]; [reflexivity|].
  destruct t; try discriminate; cbn [eval_atom atom_val]; rewrite IH; reflexivity.
Qed.

Lemma eval_xterm_no_xor m ts b :
  Forall (fun t => is_xor t = false) ts -> eval_factor m ts = Some b -> eval_xterm m ts = Some b.
Proof.
  intros H Hb. unfold eval_xterm. rewrite split_nosep by exact H. cbn [map combine_with]. rewrite Hb.
  cbn [option_map]. rewrite xorb_false_r. reflexivity.
Qed.

Lemma eval_no_or m ts b :
  Forall (fun t => is_or t = false) ts -> eval_xterm m ts = Some b -> eval ts m = Some b.
Proof.
  intros H Hb. unfold eval. rewrite split_nosep by exact H. cbn [map combine_with]. rewrite Hb.
  cbn [option_map]. rewrite orb_false_r. reflexivity.
Qed.

Lemma fold_left_orb {A} (f : A -> bool) l : forall a,
  fold_left (fun r c => r || f c) l a = a || fold_right orb false (map f l).
Proof.
  induction l as [|x l IH]; intros a; cbn [fold_left map fold_right].
  - rewrite orb_false_r. reflexivity.
  - rewrite IH, orb_assoc. reflexivity.
Qed.

Lemma fold_left_xorb {A} (f : A -> bool) l : forall a,
  fold_left (fun r c => xorb r (f c)) l a = xorb a (fold_right xorb false (map f l)).
Proof.
  induction l as [|x l IH]; intros a; cbn [fold_left map fold_right].
  - rewrite xorb_false_r. reflexivity.
  - rewrite IH, xorb_assoc. reflexivity.
Qed.

(* ------------------------------------------------------------------ 32-bit words *)
Lemma ones32_spec p : N.testbit ones32 p = (p <? 32).
Proof.
  change ones32 with (N.ones 32). destruct (N.ltb_spec p 32).
  - apply N.ones_spec_low; assumption.
  - apply N.ones_spec_high; assumption.
Qed.

Lemma wrap32_spec x p : N.testbit (wrap32 x) p = N.testbit x p && (p <? 32).
Proof. unfold wrap32. rewrite N.land_spec, ones32_spec. reflexivity. Qed.

Lemma not32_spec x p : N.testbit (not32 x) p = xorb (N.testbit x p) (p <? 32).
Proof. unfold not32. rewrite N.lxor_spec, ones32_spec. reflexivity. Qed.

Lemma not32_lt x : x < 2 ^ 32 -> not32 x < 2 ^ 32.
Proof.
  intros Hx. apply lt_pow2_of_bits. intros p Hp. rewrite not32_spec.
  rewrite (testbit_lt_pow2 x 32 p) by assumption.
  destruct (N.ltb_spec p 32); [lia|reflexivity].
Qed.

Lemma wrap32_lt x : wrap32 x < 2 ^ 32.
Proof.
  apply lt_pow2_of_bits. intros p Hp. rewrite wrap32_spec.
  destruct (N.ltb_spec p 32); [lia|apply andb_false_r].
Qed.

Lemma eq_ones32 x : x < 2 ^ 32 -> (x =? ones32) = forallb (N.testbit x) idx32.
Proof.
  intros Hx. apply eq_true_iff_eq. rewrite N.eqb_eq, forallb_forall. split.
  - intros -> i Hi. apply In_idx32 in Hi. rewrite ones32_spec. apply N.ltb_lt. exact Hi.
  - intros H. apply N.bits_inj. intro p. rewrite ones32_spec. destruct (N.ltb_spec p 32) as [L|L].
    + apply H. apply In_idx32. exact L.
    + apply (testbit_lt_pow2 x 32); assumption.
Qed.

Lemma nonzero_bit32 x : x < 2 ^ 32 -> x <> 0 -> exists i, i < 32 /\ N.testbit x i = true.
Proof.
  intros Hx Hz. exists (N.log2 x). split; [|apply N.bit_log2; exact Hz].
  apply N.log2_lt_pow2; [lia|exact Hx].
Qed.

(* ------------------------------------------------------------------ Cube *)
Definition cube_sem (c : cube) (m : N) (i : N) : bool :=
  implb (N.testbit (cpos c) i) (N.testbit m i) && implb (N.testbit (cneg c) i) (negb (N.testbit m i)).

Lemma cube_value_spec c m : cpos c < 2 ^ 32 -> cneg c < 2 ^ 32 ->
  cube_value c m = forallb (cube_sem c m) idx32.
Proof.
  intros Hp Hn. unfold cube_value.
  rewrite !eq_ones32.
  2:{ apply lor_lt; [apply land_lt_l; exact Hn|apply not32_lt; exact Hn]. }
  2:{ apply lor_lt; [apply land_lt_l; exact Hp|apply not32_lt; exact Hp]. }
  rewrite forallb_andb. apply forallb_ext_in. intros i Hi. apply In_idx32 in Hi.
  unfold cube_sem. rewrite !N.lor_spec, !N.land_spec, !not32_spec, wrap32_spec.
  destruct (N.ltb_spec i 32) as [_|L]; [|lia].
  destruct (N.testbit (cpos c) i), (N.testbit (cneg c) i), (N.testbit m i); reflexivity.
Qed.

Lemma cube_tokens_atoms c : Forall (fun t => is_atom t = true) (tokens_of_cube c).
Proof.
  unfold tokens_of_cube.
  destruct (cube_is_one c); [repeat constructor|].
  destruct (cube_is_zero c); [repeat constructor|].
  apply Forall_flat_map. intros i _. unfold cube_lits.
  destruct (N.testbit (cpos c) i), (N.testbit (cneg c) i); repeat constructor.
Qed.

Lemma cube_lits_val c m i : forallb (atom_val m) (cube_lits c i) = cube_sem c m i.
Proof.
  unfold cube_lits, cube_sem.
  destruct (N.testbit (cpos c) i), (N.testbit (cneg c) i); cbn [app forallb atom_val implb];
    destruct (N.testbit m i); reflexivity.
Qed.

Lemma In_cube_lits_pos c i : N.testbit (cpos c) i = true -> In (TLit false i) (cube_lits c i).
Proof. intros H. unfold cube_lits. rewrite H. left. reflexivity. Qed.
Lemma In_cube_lits_neg c i : N.testbit (cneg c) i = true -> In (TLit true i) (cube_lits c i).
Proof. intros H. unfold cube_lits. rewrite H. apply in_or_app. right. left. reflexivity. Qed.

Lemma eval_factor_cube c m : cpos c < 2 ^ 32 -> cneg c < 2 ^ 32 ->
  eval_factor m (tokens_of_cube c) = Some (cube_value c m).
Proof.
  intros Hp Hn. rewrite cube_value_spec by assumption. unfold tokens_of_cube.
  destruct (cube_is_one c) eqn:E1.
  { unfold cube_is_one in E1. apply andb_true_iff in E1. destruct E1 as [Ep En].
    apply N.eqb_eq in Ep. apply N.eqb_eq in En.
    assert (H : forallb (cube_sem c m) idx32 = true).
    { apply forallb_forall. intros i _. unfold cube_sem. rewrite Ep, En, N.bits_0. reflexivity. }
    rewrite H. reflexivity. }
  destruct (cube_is_zero c) eqn:E0.
  { unfold cube_is_zero in E0. apply negb_true_iff in E0. apply N.eqb_neq in E0.
    destruct (nonzero_bit32 (N.land (cpos c) (cneg c))) as [i [Hi Hb]];
      [apply land_lt_l; exact Hp|exact E0|].
    rewrite N.land_spec in Hb. apply andb_true_iff in Hb. destruct Hb as [Hbp Hbn].
    destruct (forallb (cube_sem c m) idx32) eqn:F; [|reflexivity].
    rewrite forallb_forall in F. specialize (F i (proj2 (In_idx32 i) Hi)).
    unfold cube_sem in F. rewrite Hbp, Hbn in F. destruct (N.testbit m i); discriminate. }
  rewrite eval_factor_atoms.
  - rewrite forallb_flat_map. f_equal. apply forallb_ext_in. intros i _. apply cube_lits_val.
  - (* some literal is printed *)
    unfold cube_is_one in E1. apply andb_false_iff in E1.
    intros Hnil. destruct E1 as [E|E]; apply N.eqb_neq in E.
    + destruct (nonzero_bit32 _ Hp E) as [i [Hi Hb]].
      assert (In (TLit false i) (flat_map (cube_lits c) idx32)) as Hin.
      { apply in_flat_map. exists i. split; [apply In_idx32; exact Hi|apply In_cube_lits_pos; exact Hb]. }
      rewrite Hnil in Hin. destruct Hin.
    + destruct (nonzero_bit32 _ Hn E) as [i [Hi Hb]].
      assert (In (TLit true i) (flat_map (cube_lits c) idx32)) as Hin.
      { apply in_flat_map. exists i. split; [apply In_idx32; exact Hi|apply In_cube_lits_neg; exact Hb]. }
      rewrite Hnil in Hin. destruct Hin.
  - pose proof (cube_tokens_atoms c) as A. unfold tokens_of_cube in A. rewrite E1, E0 in A. exact A.
Qed.

Lemma cube_tokens_no_xor c : Forall (fun t => is_xor t = false) (tokens_of_cube c).
Proof. eapply Forall_impl; [|apply cube_tokens_atoms]. intros t. apply is_atom_not_xor. Qed.
Lemma cube_tokens_no_or c : Forall (fun t => is_or t = false) (tokens_of_cube c).
Proof. eapply Forall_impl; [|apply cube_tokens_atoms]. intros t. apply is_atom_not_or. Qed.

Lemma eval_xterm_cube c m : cpos c < 2 ^ 32 -> cneg c < 2 ^ 32 ->
  eval_xterm m (tokens_of_cube c) = Some (cube_value c m).
Proof. intros Hp Hn. apply eval_xterm_no_xor; [apply cube_tokens_no_xor|apply eval_factor_cube; assumption]. Qed.

Theorem eval_cube c m : cpos c < 2 ^ 32 -> cneg c < 2 ^ 32 ->
  eval (tokens_of_cube c) m = Some (cube_value c m).
Proof. intros Hp Hn. apply eval_no_or; [apply cube_tokens_no_or|apply eval_xterm_cube; assumption]. Qed.

(* ------------------------------------------------------------------ Ecube *)
Lemma popcount_div2 x : N.odd (popcount x) = xorb (N.testbit x 0) (N.odd (popcount (N.div2 x))).
Proof.
  destruct x as [|[p|p|]]; try reflexivity.
  - change (popcount (N.pos p~1)) with (1 + popcount (N.pos p)).
    change (N.div2 (N.pos p~1)) with (N.pos p).
    change (N.testbit (N.pos p~1) 0) with true.
    rewrite N.odd_add. reflexivity.
  - change (popcount (N.pos p~0)) with (popcount (N.pos p)).
    change (N.div2 (N.pos p~0)) with (N.pos p).
    change (N.testbit (N.pos p~0) 0) with false.
    rewrite xorb_false_l. reflexivity.
Qed.

Lemma odd_popcount k : forall x, x < 2 ^ N.of_nat k ->
  N.odd (popcount x) = fold_right xorb false (map (fun i => N.testbit x (N.of_nat i)) (seq 0 k)).
Proof.
  induction k as [|k IH]; intros x Hx.
  - change (2 ^ N.of_nat 0) with 1 in Hx. assert (x = 0) as -> by lia. reflexivity.
  - rewrite popcount_div2. cbn [seq map fold_right]. change (N.of_nat 0) with 0. f_equal.
    rewrite <- seq_shift, map_map. rewrite IH.
    + f_equal. apply map_ext. intros i. rewrite Nat2N.inj_succ. symmetry. apply N.testbit_succ_r_div2. lia.
    + rewrite Nat2N.inj_succ, N.pow_succ_r' in Hx. rewrite N.div2_div.
      apply N.div_lt_upper_bound; lia.
Qed.

Lemma odd_popcount32 x : x < 2 ^ 32 -> N.odd (popcount x) = fold_right xorb false (map (N.testbit x) idx32).
Proof.
  intros Hx. rewrite (odd_popcount 32) by exact Hx. rewrite map_map. reflexivity.
Qed.

Lemma fold_xorb_filter {A} (p f : A -> bool) l :
  fold_right xorb false (map f (filter p l)) = fold_right xorb false (map (fun i => p i && f i) l).
Proof.
  induction l as [|a l IH]; cbn [filter map fold_right]; [reflexivity|].
  destruct (p a); cbn [map fold_right andb]; rewrite IH; [reflexivity|].
  destruct (fold_right xorb false (map (fun i => p i && f i) l)); reflexivity.
Qed.

Lemma bits_of_nonempty x : x < 2 ^ 32 -> x <> 0 -> bits_of x <> [].
Proof.
  intros Hx Hz Hnil. destruct (nonzero_bit32 x Hx Hz) as [i [Hi Hb]].
  assert (In i (bits_of x)) as Hin.
  { unfold bits_of. apply filter_In. split; [apply In_idx32; exact Hi|exact Hb]. }
  rewrite Hnil in Hin. destruct Hin.
Qed.

Definition ecube_parts (e : ecube) : list (list token) :=
  (if exnor e then [[TOne]] else []) ++ map (fun i => [TLit false i]) (bits_of (evars e)).

Lemma tokens_of_ecube_eq e :
  tokens_of_ecube e = if ecube_is_zero e then [TZero] else tjoin [TXor] (ecube_parts e).
Proof. reflexivity. Qed.

Lemma ecube_parts_atoms e : Forall (Forall (fun t => is_atom t = true)) (ecube_parts e).
Proof.
  unfold ecube_parts. apply Forall_app. split.
  - destruct (exnor e); repeat constructor.
  - apply Forall_forall. intros ts Hts. apply in_map_iff in Hts. destruct Hts as [i [<- _]]. repeat constructor.
Qed.

Lemma ecube_parts_nonempty e : evars e < 2 ^ 32 -> ecube_is_zero e = false -> ecube_parts e <> [].
Proof.
  intros Hv Hz. unfold ecube_parts. unfold ecube_is_zero in Hz.
  destruct (exnor e); [discriminate|]. cbn [negb] in Hz. rewrite andb_true_r in Hz. apply N.eqb_neq in Hz.
  cbn [app]. pose proof (bits_of_nonempty _ Hv Hz) as B. destruct (bits_of (evars e)); [congruence|discriminate].
Qed.

Lemma ecube_parts_val e m :
  map (eval_factor m) (ecube_parts e) =
  map Some ((if exnor e then [true] else []) ++ map (N.testbit m) (bits_of (evars e))).
Proof.
  unfold ecube_parts. rewrite !map_app, !map_map. f_equal.
  - destruct (exnor e); reflexivity.
  - apply map_ext. intros i. cbn [eval_factor map combine_with eval_atom option_map].
    rewrite xorb_false_l, andb_true_r. reflexivity.
Qed.

Lemma eval_xterm_ecube e m : evars e < 2 ^ 32 ->
  eval_xterm m (tokens_of_ecube e) = Some (ecube_value e m).
Proof.
  intros Hv. rewrite tokens_of_ecube_eq. unfold ecube_value.
  destruct (ecube_is_zero e) eqn:Z.
  - unfold ecube_is_zero in Z. apply andb_true_iff in Z. destruct Z as [Zv Zx].
    apply N.eqb_eq in Zv. apply negb_true_iff in Zx. rewrite Zv, Zx, N.land_0_l. reflexivity.
  - unfold eval_xterm. rewrite split_tjoin.
    + rewrite ecube_parts_val, combine_with_Some. f_equal.
      rewrite odd_popcount32 by (apply land_lt_l; exact Hv).
      rewrite fold_right_app.
      assert (P : fold_right xorb false (map (N.testbit m) (bits_of (evars e))) =
                  fold_right xorb false (map (N.testbit (N.land (evars e) (wrap32 m))) idx32)).
      { unfold bits_of. rewrite fold_xorb_filter. f_equal. apply map_ext_in. intros i Hi.
        apply In_idx32 in Hi. rewrite N.land_spec, wrap32_spec.
        destruct (N.ltb_spec i 32) as [_|L]; [|lia]. rewrite andb_true_r. reflexivity. }
      rewrite P. destruct (exnor e); cbn [fold_right].
      * rewrite xorb_true_l, xorb_true_r. reflexivity.
      * rewrite xorb_false_r. reflexivity.
    + reflexivity.
    + apply ecube_parts_nonempty; assumption.
    + eapply Forall_impl; [|apply ecube_parts_atoms]. intros ts Hts.
      eapply Forall_impl; [|exact Hts]. intros t. apply is_atom_not_xor.
Qed.

Lemma ecube_tokens_no_or e : Forall (fun t => is_or t = false) (tokens_of_ecube e).
Proof.
  rewrite tokens_of_ecube_eq. destruct (ecube_is_zero e); [repeat constructor|].
  pose proof (ecube_parts_atoms e) as A. induction A as [|x r Hx Hr IH]; [constructor|].
  destruct r as [|y r].
  - cbn [tjoin]. eapply Forall_impl; [|exact Hx]. intros t. apply is_atom_not_or.
  - rewrite tjoin_cons2. apply Forall_app. split.
    + eapply Forall_impl; [|exact Hx]. intros t. apply is_atom_not_or.
    + apply Forall_app. split; [repeat constructor|exact IH].
Qed.

Theorem eval_ecube e m : evars e < 2 ^ 32 -> eval (tokens_of_ecube e) m = Some (ecube_value e m).
Proof. intros Hv. apply eval_no_or; [apply ecube_tokens_no_or|apply eval_xterm_ecube; exact Hv]. Qed.

(* ------------------------------------------------------------------ Sop, Esop, Soes *)
Definition cube32 (c : cube) : Prop := cpos c < 2 ^ 32 /\ cneg c < 2 ^ 32.
Definition ecube32 (e : ecube) : Prop := evars e < 2 ^ 32.

Lemma map_eval_ext {A} (ev : list token -> option bool) (tok : A -> list token) (val : A -> bool) l :
  (forall x, In x l -> ev (tok x) = Some (val x)) -> map ev (map tok l) = map Some (map val l).
Proof.
  intros H. rewrite !map_map. apply map_ext_in. exact H.
Qed.

Theorem eval_sop s m : Forall cube32 (scubes s) -> eval (tokens_of_sop s) m = Some (sop_value s m).
Proof.
  intros H. unfold tokens_of_sop, sop_value, sop_is_zero.
  destruct (scubes s) as [|c0 cs] eqn:E; [reflexivity|]. rewrite <- E in *.
  unfold eval. rewrite split_tjoin.
  - rewrite (map_eval_ext _ _ (fun c => cube_value c m)).
    + rewrite combine_with_Some, fold_left_orb. reflexivity.
    + intros c Hc. rewrite Forall_forall in H. destruct (H c Hc) as [Hp Hn]. apply eval_xterm_cube; assumption.
  - reflexivity.
  - rewrite E. discriminate.
  - apply Forall_forall. intros ts Hts. apply in_map_iff in Hts. destruct Hts as [c [<- _]].
    apply cube_tokens_no_or.
Qed.

Lemma tjoin_Forall {A} (P : A -> Prop) sep parts :
  Forall P sep -> Forall (Forall P) parts -> Forall P (tjoin sep parts).
Proof.
  intros Hs H. induction H as [|x r Hx Hr IH]; [constructor|].
  destruct r as [|y r]; [exact Hx|].
  rewrite tjoin_cons2. apply Forall_app. split; [exact Hx|]. apply Forall_app. split; [exact Hs|exact IH].
Qed.

Theorem eval_esop s m : Forall cube32 (ecubes s) -> eval (tokens_of_esop s) m = Some (esop_value s m).
Proof.
  intros H. unfold tokens_of_esop, esop_value, esop_is_zero.
  destruct (ecubes s) as [|c0 cs] eqn:E; [reflexivity|]. rewrite <- E in *.
  apply eval_no_or.
  { apply tjoin_Forall; [repeat constructor|].
    apply Forall_forall. intros ts Hts. apply in_map_iff in Hts. destruct Hts as [c [<- _]].
    apply cube_tokens_no_or. }
  unfold eval_xterm. rewrite split_tjoin.
  - rewrite (map_eval_ext _ _ (fun c => cube_value c m)).
    + rewrite combine_with_Some, fold_left_xorb, xorb_false_l. reflexivity.
    + intros c Hc. rewrite Forall_forall in H. destruct (H c Hc) as [Hp Hn]. apply eval_factor_cube; assumption.
  - reflexivity.
  - rewrite E. discriminate.
  - apply Forall_forall. intros ts Hts. apply in_map_iff in Hts. destruct Hts as [c [<- _]].
    apply cube_tokens_no_xor.
Qed.

Theorem eval_soes s m : Forall ecube32 (ocubes s) -> eval (tokens_of_soes s) m = Some (soes_value s m).
Proof.
  intros H. unfold tokens_of_soes, soes_value, soes_is_zero.
  destruct (ocubes s) as [|c0 cs] eqn:E; [reflexivity|]. rewrite <- E in *.
  unfold eval. rewrite split_tjoin.
  - rewrite (map_eval_ext _ _ (fun e => ecube_value e m)).
    + rewrite combine_with_Some, fold_left_orb. reflexivity.
    + intros e He. rewrite Forall_forall in H. apply eval_xterm_ecube. exact (H e He).
  - reflexivity.
  - rewrite E. discriminate.
  - apply Forall_forall. intros ts Hts. apply in_map_iff in Hts. destruct Hts as [e [<- _]].
    apply ecube_tokens_no_or.
Qed.

(* ------------------------------------------------------------------ headline: the printed text evaluates to the value *)
Theorem display_cube c m : cpos c < 2 ^ 32 -> cneg c < 2 ^ 32 ->
  exists ts, lex (cube_display c) = Some ts /\ eval ts m = Some (cube_value c m).
Proof. intros Hp Hn. exists (tokens_of_cube c). split; [apply lex_cube_display|apply eval_cube; assumption]. Qed.

Theorem display_ecube e m : evars e < 2 ^ 32 ->
  exists ts, lex (ecube_display e) = Some ts /\ eval ts m = Some (ecube_value e m).
Proof. intros Hv. exists (tokens_of_ecube e). split; [apply lex_ecube_display|apply eval_ecube; exact Hv]. Qed.

Theorem display_sop s m : Forall (fun c => cpos c < 2 ^ 32 /\ cneg c < 2 ^ 32) (scubes s) ->
  exists ts, lex (sop_display s) = Some ts /\ eval ts m = Some (sop_value s m).
Proof. intros H. exists (tokens_of_sop s). split; [apply lex_sop_display|apply eval_sop; exact H]. Qed.

Theorem display_esop s m : Forall (fun c => cpos c < 2 ^ 32 /\ cneg c < 2 ^ 32) (ecubes s) ->
  exists ts, lex (esop_display s) = Some ts /\ eval ts m = Some (esop_value s m).
Proof. intros H. exists (tokens_of_esop s). split; [apply lex_esop_display|apply eval_esop; exact H]. Qed.

Theorem display_soes s m : Forall (fun e => evars e < 2 ^ 32) (ocubes s) ->
  exists ts, lex (soes_display s) = Some ts /\ eval ts m = Some (soes_value s m).
Proof. intros H. exists (tokens_of_soes s). split; [apply lex_soes_display|apply eval_soes; exact H]. Qed.

(* ================================================================== item 4: distinct cubes print distinct text *)
Lemma bits32_ext x y : x < 2 ^ 32 -> y < 2 ^ 32 ->
  (forall i, i < 32 -> (N.testbit x i = true <-> N.testbit y i = true)) -> x = y.
Proof.
  intros Hx Hy H. apply N.bits_inj. intro p. destruct (N.ltb_spec p 32) as [L|L].
  - apply eq_true_iff_eq. apply H. exact L.
  - rewrite (testbit_lt_pow2 x 32 p), (testbit_lt_pow2 y 32 p) by assumption. reflexivity.
Qed.

Lemma In_cube_lits c neg i j :
  In (TLit neg i) (cube_lits c j) <-> j = i /\ N.testbit (if neg then cneg c else cpos c) i = true.
Proof.
  unfold cube_lits. split.
  - intros H. apply in_app_or in H. destruct H as [H|H].
    + destruct (N.testbit (cpos c) j) eqn:B; [|destruct H]. destruct H as [H|[]].
      injection H as <- <-. split; [reflexivity|exact B].
    + destruct (N.testbit (cneg c) j) eqn:B; [|destruct H]. destruct H as [H|[]].
      injection H as <- <-. split; [reflexivity|exact B].
  - intros [-> H]. apply in_or_app. destruct neg; rewrite H; [right|left]; left; reflexivity.
Qed.

Lemma In_lits32 c neg i :
  In (TLit neg i) (flat_map (cube_lits c) idx32) <->
  i < 32 /\ N.testbit (if neg then cneg c else cpos c) i = true.
Proof.
  rewrite in_flat_map. split.
  - intros [j [Hj Hin]]. apply In_cube_lits in Hin. destruct Hin as [-> H]. apply In_idx32 in Hj. split; assumption.
  - intros [Hi H]. exists i. split; [apply In_idx32; exact Hi|]. apply In_cube_lits. split; [reflexivity|exact H].
Qed.

Lemma lits_are_lits c l t : In t (flat_map (cube_lits c) l) -> exists neg i, t = TLit neg i.
Proof.
  rewrite in_flat_map. intros [j [_ H]]. unfold cube_lits in H. apply in_app_or in H. destruct H as [H|H].
  - destruct (N.testbit (cpos c) j); [|destruct H]. destruct H as [<-|[]]. eauto.
  - destruct (N.testbit (cneg c) j); [|destruct H]. destruct H as [<-|[]]. eauto.
Qed.

Definition cube_canon (c : cube) : Prop :=
  cpos c < 2 ^ 32 /\ cneg c < 2 ^ 32 /\ (N.land (cpos c) (cneg c) = 0 \/ c = cube_zero).

Lemma cube_eta c : c = mkCube (cpos c) (cneg c).
Proof. destruct c; reflexivity. Qed.

Lemma tokens_of_cube_cases c :
  (cube_is_one c = true /\ tokens_of_cube c = [TOne]) \/
  (cube_is_one c = false /\ cube_is_zero c = true /\ tokens_of_cube c = [TZero]) \/
  (cube_is_one c = false /\ cube_is_zero c = false /\ tokens_of_cube c = flat_map (cube_lits c) idx32).
Proof.
  unfold tokens_of_cube. destruct (cube_is_one c); [left; split; reflexivity|].
  destruct (cube_is_zero c); right; [left|right]; repeat split; reflexivity.
Qed.

Lemma lits_not_const c t : (forall neg i, t <> TLit neg i) -> [t] <> flat_map (cube_lits c) idx32.
Proof.
  intros Ht H. destruct (lits_are_lits c idx32 t) as [neg [i E]].
  - rewrite <- H. left. reflexivity.
  - exact (Ht neg i E).
Qed.

Lemma tokens_of_cube_inj a b : cube_canon a -> cube_canon b -> tokens_of_cube a = tokens_of_cube b -> a = b.
Proof.
  intros [Hap [Han Hac]] [Hbp [Hbn Hbc]] H.
  assert (Hone : forall c, cube_is_one c = true -> c = cube_one).
  { intros c E. unfold cube_is_one in E. apply andb_true_iff in E. destruct E as [E1 E2].
    apply N.eqb_eq in E1. apply N.eqb_eq in E2. rewrite (cube_eta c), E1, E2. reflexivity. }
  assert (Hzero : forall c, (N.land (cpos c) (cneg c) = 0 \/ c = cube_zero) -> cube_is_zero c = true -> c = cube_zero).
  { intros c [E|E] Z; [|exact E]. unfold cube_is_zero in Z. rewrite E in Z. discriminate. }
  destruct (tokens_of_cube_cases a) as [[A1 Ta]|[[A1 [A0 Ta]]|[A1 [A0 Ta]]]];
  destruct (tokens_of_cube_cases b) as [[B1 Tb]|[[B1 [B0 Tb]]|[B1 [B0 Tb]]]];
  rewrite Ta, Tb in H; try discriminate.
  - rewrite (Hone a A1), (Hone b B1). reflexivity.
  - exfalso. apply (lits_not_const b TOne); [discriminate|exact H].
  - rewrite (Hzero a Hac A0), (Hzero b Hbc B0). reflexivity.
  - exfalso. apply (lits_not_const b TZero); [discriminate|exact H].
  - exfalso. apply (lits_not_const a TOne); [discriminate|symmetry; exact H].
  - exfalso. apply (lits_not_const a TZero); [discriminate|symmetry; exact H].
  - rewrite (cube_eta a), (cube_eta b). f_equal.
    + apply bits32_ext; try assumption. intros i Hi.
      pose proof (In_lits32 a false i) as Ia. pose proof (In_lits32 b false i) as Ib.
      rewrite H in Ia. cbn beta iota in Ia, Ib. tauto.
    + apply bits32_ext; try assumption. intros i Hi.
      pose proof (In_lits32 a true i) as Ia. pose proof (In_lits32 b true i) as Ib.
      rewrite H in Ia. cbn beta iota in Ia, Ib. tauto.
Qed.

Theorem cube_display_inj a b :
  cpos a < 2 ^ 32 -> cneg a < 2 ^ 32 -> (N.land (cpos a) (cneg a) = 0 \/ a = cube_zero) ->
  cpos b < 2 ^ 32 -> cneg b < 2 ^ 32 -> (N.land (cpos b) (cneg b) = 0 \/ b = cube_zero) ->
  cube_display a = cube_display b -> a = b.
Proof.
  intros A1 A2 A3 B1 B2 B3 H. apply tokens_of_cube_inj; [repeat split; assumption..|].
  pose proof (lex_cube_display a) as La. rewrite H, lex_cube_display in La. congruence.
Qed.

(* ecubes *)
Lemma In_tjoin_intro {A} (t : A) sep parts p : In p parts -> In t p -> In t (tjoin sep parts).
Proof.
  intros Hp Ht. induction parts as [|x r IH]; [destruct Hp|].
  destruct r as [|y r].
  - destruct Hp as [->|[]]. exact Ht.
  - rewrite tjoin_cons2. apply in_or_app. destruct Hp as [->|Hp]; [left; exact Ht|].
    right. apply in_or_app. right. apply IH. exact Hp.
Qed.

Lemma In_tjoin_elim {A} (t : A) sep parts :
  In t (tjoin sep parts) -> In t sep \/ exists p, In p parts /\ In t p.
Proof.
  induction parts as [|x r IH]; intros H; [destruct H|].
  destruct r as [|y r].
  - right. exists x. split; [left; reflexivity|exact H].
  - rewrite tjoin_cons2 in H. apply in_app_or in H. destruct H as [H|H].
    + right. exists x. split; [left; reflexivity|exact H].
    + apply in_app_or in H. destruct H as [H|H]; [left; exact H|].
      destruct (IH H) as [Hs|[p [Hp Ht]]]; [left; exact Hs|].
      right. exists p. split; [right; exact Hp|exact Ht].
Qed.

Lemma In_bits_of x i : In i (bits_of x) <-> i < 32 /\ N.testbit x i = true.
Proof. unfold bits_of. rewrite filter_In, In_idx32. reflexivity. Qed.

Lemma In_ecube_parts e p : In p (ecube_parts e) <->
  (exnor e = true /\ p = [TOne]) \/ (exists i, (i < 32 /\ N.testbit (evars e) i = true) /\ p = [TLit false i]).
Proof.
  unfold ecube_parts. rewrite in_app_iff, in_map_iff. split.
  - intros [H|[i [<- Hi]]].
    + destruct (exnor e); [|destruct H]. destruct H as [<-|[]]. left. split; reflexivity.
    + right. exists i. split; [exact (proj1 (In_bits_of _ _) Hi)|reflexivity].
  - intros [[Hx ->]|[i [Hi ->]]].
    + left. rewrite Hx. left. reflexivity.
    + right. exists i. split; [reflexivity|exact (proj2 (In_bits_of _ _) Hi)].
Qed.

Lemma ecube_zero_fields e : ecube_is_zero e = true -> evars e = 0 /\ exnor e = false.
Proof.
  unfold ecube_is_zero. intros Z. apply andb_true_iff in Z. destruct Z as [Zv Zx].
  apply N.eqb_eq in Zv. apply negb_true_iff in Zx. split; assumption.
Qed.

Lemma In_one_ecube e : In TOne (tokens_of_ecube e) <-> exnor e = true.
Proof.
  rewrite tokens_of_ecube_eq. destruct (ecube_is_zero e) eqn:Z.
  - destruct (ecube_zero_fields e Z) as [_ Zx]. rewrite Zx. split; [|discriminate].
    intros [H|[]]. discriminate.
  - split.
    + intros H. apply In_tjoin_elim in H. destruct H as [[H|[]]|[p [Hp Ht]]]; [discriminate|].
      apply In_ecube_parts in Hp. destruct Hp as [[Hx _]|[i [_ ->]]]; [exact Hx|].
      destruct Ht as [Ht|[]]. discriminate.
    + intros Hx. apply (In_tjoin_intro _ _ _ [TOne]); [|left; reflexivity].
      apply In_ecube_parts. left. split; [exact Hx|reflexivity].
Qed.

Lemma In_lit_ecube e i :
  In (TLit false i) (tokens_of_ecube e) <-> i < 32 /\ N.testbit (evars e) i = true.
Proof.
  rewrite tokens_of_ecube_eq. destruct (ecube_is_zero e) eqn:Z.
  - destruct (ecube_zero_fields e Z) as [Zv _]. rewrite Zv, N.bits_0. split.
    + intros [H|[]]. discriminate.
    + intros [_ H]. discriminate.
  - split.
    + intros H. apply In_tjoin_elim in H. destruct H as [[H|[]]|[p [Hp Ht]]]; [discriminate|].
      apply In_ecube_parts in Hp. destruct Hp as [[_ ->]|[j [Hj ->]]].
      * destruct Ht as [Ht|[]]. discriminate.
      * destruct Ht as [Ht|[]]. injection Ht as ->. exact Hj.
    + intros Hi. apply (In_tjoin_intro _ _ _ [TLit false i]); [|left; reflexivity].
      apply In_ecube_parts. right. exists i. split; [exact Hi|reflexivity].
Qed.

Lemma tokens_of_ecube_inj a b :
  evars a < 2 ^ 32 -> evars b < 2 ^ 32 -> tokens_of_ecube a = tokens_of_ecube b -> a = b.
Proof.
  intros Ha Hb H.
  assert (Hv : evars a = evars b).
  { apply bits32_ext; try assumption. intros i Hi.
    pose proof (In_lit_ecube a i) as Ia. pose proof (In_lit_ecube b i) as Ib. rewrite H in Ia. tauto. }
  assert (Hx : exnor a = exnor b).
  { apply eq_true_iff_eq. pose proof (In_one_ecube a) as Ia. pose proof (In_one_ecube b) as Ib.
    rewrite H in Ia. tauto. }
  destruct a as [va xa], b as [vb xb]. cbn [evars exnor] in Hv, Hx. subst. reflexivity.
Qed.

Theorem ecube_display_inj a b :
  evars a < 2 ^ 32 -> evars b < 2 ^ 32 -> ecube_display a = ecube_display b -> a = b.
Proof.
  intros Ha Hb H. apply tokens_of_ecube_inj; try assumption.
  pose proof (lex_ecube_display a) as La. rewrite H, lex_ecube_display in La. congruence.
Qed.

(* ================================================================== item 3: literal indices increase *)
Lemma lit_indices_app a b : lit_indices (a ++ b) = lit_indices a ++ lit_indices b.
Proof. unfold lit_indices. apply flat_map_app. Qed.

Lemma SSorted_idx : forall n a, StronglySorted N.lt (map N.of_nat (seq a n)).
Proof.
  induction n as [|n IH]; intros a; cbn [seq map]; constructor; [apply IH|].
  apply Forall_forall. intros x Hx. apply in_map_iff in Hx. destruct Hx as [k [<- Hk]].
  apply in_seq in Hk. lia.
Qed.

Lemma SSorted_filter (f : N -> bool) l : StronglySorted N.lt l -> StronglySorted N.lt (filter f l).
Proof.
  induction 1 as [|a l Hl IH Ha]; cbn [filter]; [constructor|].
  destruct (f a); [|exact IH]. constructor; [exact IH|].
  apply Forall_forall. intros x Hx. apply filter_In in Hx. destruct Hx as [Hx _].
  rewrite Forall_forall in Ha. apply Ha. exact Hx.
Qed.

Lemma lit_indices_cube_lits c l : N.land (cpos c) (cneg c) = 0 ->
  lit_indices (flat_map (cube_lits c) l) = filter (fun i => N.testbit (cpos c) i || N.testbit (cneg c) i) l.
Proof.
  intros H0. induction l as [|i l IH]; cbn [flat_map filter]; [reflexivity|].
  rewrite lit_indices_app, IH. unfold cube_lits.
  assert (B : N.testbit (cpos c) i && N.testbit (cneg c) i = false).
  { rewrite <- N.land_spec, H0. apply N.bits_0. }
  destruct (N.testbit (cpos c) i), (N.testbit (cneg c) i); try discriminate; reflexivity.
Qed.

Theorem cube_indices_increasing c : StronglySorted N.lt (lit_indices (tokens_of_cube c)).
Proof.
  destruct (tokens_of_cube_cases c) as [[_ T]|[[_ [_ T]]|[_ [Z T]]]]; rewrite T; try constructor.
  unfold cube_is_zero in Z. apply negb_false_iff in Z. apply N.eqb_eq in Z.
  rewrite lit_indices_cube_lits by exact Z. apply SSorted_filter. apply SSorted_idx.
Qed.

Lemma lit_indices_tjoin_xor parts : lit_indices (tjoin [TXor] parts) = flat_map lit_indices parts.
Proof.
  induction parts as [|x r IH]; [reflexivity|]. destruct r as [|y r].
  - cbn [tjoin flat_map]. rewrite app_nil_r. reflexivity.
  - rewrite tjoin_cons2, !lit_indices_app, IH. reflexivity.
Qed.

Lemma lit_indices_singletons l : flat_map lit_indices (map (fun i => [TLit false i]) l) = l.
Proof. induction l as [|i l IH]; cbn [map flat_map]; [reflexivity|]. rewrite IH. reflexivity. Qed.

Lemma lit_indices_ecube e :
  lit_indices (tokens_of_ecube e) = if ecube_is_zero e then [] else bits_of (evars e).
Proof.
  rewrite tokens_of_ecube_eq. destruct (ecube_is_zero e); [reflexivity|].
  rewrite lit_indices_tjoin_xor. unfold ecube_parts. rewrite flat_map_app, lit_indices_singletons.
  destruct (exnor e); reflexivity.
Qed.

Theorem ecube_indices_increasing e : StronglySorted N.lt (lit_indices (tokens_of_ecube e)).
Proof.
  rewrite lit_indices_ecube. destruct (ecube_is_zero e); [constructor|].
  unfold bits_of. apply SSorted_filter. apply SSorted_idx.
Qed.

Theorem cube_display_increasing c :
  exists ts, lex (cube_display c) = Some ts /\ StronglySorted N.lt (lit_indices ts).
Proof. exists (tokens_of_cube c). split; [apply lex_cube_display|apply cube_indices_increasing]. Qed.

Theorem ecube_display_increasing e :
  exists ts, lex (ecube_display e) = Some ts /\ StronglySorted N.lt (lit_indices ts).
Proof. exists (tokens_of_ecube e). split; [apply lex_ecube_display|apply ecube_indices_increasing]. Qed.

(* the same inside the sums: every cube between two separators has increasing indices *)
Theorem sop_display_increasing s :
  exists ts, lex (sop_display s) = Some ts /\
             Forall (fun part => StronglySorted N.lt (lit_indices part)) (split is_or ts).
Proof.
  exists (tokens_of_sop s). split; [apply lex_sop_display|].
  unfold tokens_of_sop, sop_is_zero. destruct (scubes s) as [|c0 cs] eqn:E.
  - repeat constructor.
  - rewrite <- E. rewrite split_tjoin.
    + apply Forall_forall. intros ts Hts. apply in_map_iff in Hts. destruct Hts as [c [<- _]].
      apply cube_indices_increasing.
    + reflexivity.
    + rewrite E. discriminate.
    + apply Forall_forall. intros ts Hts. apply in_map_iff in Hts. destruct Hts as [c [<- _]].
      apply cube_tokens_no_or.
Qed.

Theorem esop_display_increasing s :
  exists ts, lex (esop_display s) = Some ts /\
             Forall (fun part => StronglySorted N.lt (lit_indices part)) (split is_xor ts).
Proof.
  exists (tokens_of_esop s). split; [apply lex_esop_display|].
  unfold tokens_of_esop, esop_is_zero. destruct (ecubes s) as [|c0 cs] eqn:E.
  - repeat constructor.
  - rewrite <- E. rewrite split_tjoin.
    + apply Forall_forall. intros ts Hts. apply in_map_iff in Hts. destruct Hts as [c [<- _]].
      apply cube_indices_increasing.
    + reflexivity.
    + rewrite E. discriminate.
    + apply Forall_forall. intros ts Hts. apply in_map_iff in Hts. destruct Hts as [c [<- _]].
      apply cube_tokens_no_xor.
Qed.

Theorem soes_display_increasing s :
  exists ts, lex (soes_display s) = Some ts /\
             Forall (fun part => StronglySorted N.lt (lit_indices part)) (split is_or ts).
Proof.
  exists (tokens_of_soes s). split; [apply lex_soes_display|].
  unfold tokens_of_soes, soes_is_zero. destruct (ocubes s) as [|c0 cs] eqn:E.
  - repeat constructor.
  - rewrite <- E. rewrite split_tjoin.
    + apply Forall_forall. intros ts Hts. apply in_map_iff in Hts. destruct Hts as [e [<- _]].
      apply ecube_indices_increasing.
    + reflexivity.
    + rewrite E. discriminate.
    + apply Forall_forall. intros ts Hts. apply in_map_iff in Hts. destruct Hts as [e [<- _]].
      apply ecube_tokens_no_or.
Qed.
