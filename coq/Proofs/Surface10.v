(* C01 / C10 - theorems over the API surface REGENERATED FROM THE RUST SOURCE.
   Gen/Surface.v (trait impls, aliases) and Gen/Guards.v (every fn of impl Lut / impl StaticLut and of the kernel
   files, with the ordered syntactic events of its body) are rewritten from /repo/src on every run.  Everything below
   is a decidable predicate evaluated on these two lists, so an edit of the Rust source that removes an operator form,
   sends `|` to the kernel of `&`, adds a public method, or makes Lut and StaticLut use different kernels changes the
   data and breaks a Qed here.
     Part 1 (C01)  every syntactic form of & | ^ ! exists on Lut and on StaticLut, and nothing else does
     Part 2 (C01)  every one of these impls (and the named methods) forwards to the kernel of ITS operator only
     Part 3 (C10)  Lut and StaticLut expose the same public methods, through the same kernels, with the same
                   parameters up to the leading `num_vars`
     Part 4 (C10)  every public method / trait impl of the two types has a counterpart in Model/Api.v
   Helper functions over the data are reused from Proofs/Guards17.v. *)
From Coq Require Import List String Ascii Bool Arith.
From V Require Import Gen.Guards Gen.Surface Proofs.Guards17.
From V Require Model.Kernels Model.Api.
Import ListNotations.
Open Scope string_scope.

(* ================================================================== small helpers *)
Definition api_types : list string := ["Lut"; "StaticLut"].

(* "&Lut" -> "Lut" *)
Definition base_type (s : string) : string :=
  match s with String c r => if (c =? "&")%char then r else s | EmptyString => s end.

Fixpoint strs_eqb (a b : list string) : bool :=
  match a, b with
  | [], [] => true
  | x :: a', y :: b' => (x =? y) && strs_eqb a' b'
  | _, _ => false
  end.

Lemma strs_eqb_eq : forall a b, strs_eqb a b = true <-> a = b.
Proof.
  induction a as [|x a IH]; destruct b as [|y b]; cbn [strs_eqb]; split; intros H; try reflexivity; try discriminate H.
  - apply andb_true_iff in H. destruct H as [H1 H2]. apply String.eqb_eq in H1. apply IH in H2. subst. reflexivity.
  - injection H as H1 H2. subst. rewrite String.eqb_refl. apply IH. reflexivity.
Qed.

Definition is_nil {A} (l : list A) : bool := match l with [] => true | _ => false end.

(* identity of an entry of Gen.Guards.functions *)
Definition key (f : fn_info) : string := fi_impl f ++ "|" ++ fi_trait f ++ "|" ++ fi_name f.
Definition unvisited (visited : list string) (l : list fn_info) : list fn_info :=
  filter (fun g => negb (mem (key g) visited)) l.

(* ================================================================== Part 1: the operator forms (Gen.Surface) *)
(* (binary operator trait, its compound-assignment trait, method of the first, method of the second) *)
Definition logic_ops : list (string * string * string * string) :=
  [("BitAnd", "BitAndAssign", "bitand", "bitand_assign");
   ("BitOr", "BitOrAssign", "bitor", "bitor_assign");
   ("BitXor", "BitXorAssign", "bitxor", "bitxor_assign")].

Definition with_arg (trait arg : string) : string := trait ++ "<" ++ arg ++ ">".

(* a form = (trait with its generic argument, implementing type, the one method of the impl) *)
Definition form : Type := string * string * string.

(* what Rust needs so that `a OP b` compiles for every combination of owned / borrowed operands, `a OP= b` for an
   owned or borrowed right-hand side, and `!a` for an owned or borrowed operand *)
Definition required_forms (T : string) : list form :=
  let R := "&" ++ T in
  flat_map (fun '(op, asg, m, ma) =>
    [ (with_arg op T, T, m);  (with_arg op R, T, m);      (* T OP T,   T OP &T  *)
      (with_arg op T, R, m);  (with_arg op R, R, m);      (* &T OP T,  &T OP &T *)
      (with_arg asg T, T, ma); (with_arg asg R, T, ma) ]) (* T OP= T,  T OP= &T *)
    logic_ops
  ++ [("Not", T, "not"); ("Not", R, "not")].

Definition file_of (T : string) : string := if T =? "Lut" then "src/lut.rs" else "src/static_lut.rs".

Definition form_present (impls : list (string * string * string * list string)) (T : string) (fm : form) : bool :=
  let '(trait, ty, m) := fm in
  existsb (fun '(file, tr, t, fns) => (file =? file_of T) && (tr =? trait) && (t =? ty) && strs_eqb fns [m]) impls.

Definition is_logic_trait (tr : string) : bool :=
  prefix "BitAnd" tr || prefix "BitOr" tr || prefix "BitXor" tr || (tr =? "Not").

(* the logical-operator impls that the source has for T or &T, in source order *)
Definition logic_impls_of (impls : list (string * string * string * list string)) (T : string) : list form :=
  flat_map (fun '(file, tr, t, fns) =>
    if (base_type t =? T) && is_logic_trait tr then [(tr, t, concat "," fns)] else []) impls.

Definition form_eqb (a b : form) : bool :=
  let '(t1, y1, m1) := a in let '(t2, y2, m2) := b in (t1 =? t2) && (y1 =? y2) && (m1 =? m2).

Definition forms_complete (impls : list (string * string * string * list string)) : bool :=
  forallb (fun T => forallb (form_present impls T) (required_forms T)) api_types.
(* nothing but the required forms: no stray `BitAnd<u64> for Lut`, no second impl of a form *)
Definition forms_exact (impls : list (string * string * string * list string)) : bool :=
  forallb (fun T =>
    forallb (fun fm => existsb (form_eqb fm) (required_forms T)) (logic_impls_of impls T) &&
    Nat.eqb (List.length (logic_impls_of impls T)) (List.length (required_forms T))) api_types.

Theorem s10_forms_complete : forms_complete trait_impls = true.
Proof. vm_compute. reflexivity. Qed.

Theorem s10_forms_exact : forms_exact trait_impls = true.
Proof. vm_compute. reflexivity. Qed.

Theorem s10_forms_count :
  map (fun T => (T, List.length (required_forms T), List.length (logic_impls_of trait_impls T))) api_types =
  [("Lut", 20, 20); ("StaticLut", 20, 20)].
Proof. vm_compute. reflexivity. Qed.

(* the pinned table, in source order *)
Theorem s10_forms_table :
  logic_impls_of trait_impls "Lut" =
  [ ("Not", "&Lut", "not"); ("Not", "Lut", "not");
    ("BitAndAssign<&Lut>", "Lut", "bitand_assign"); ("BitAndAssign<Lut>", "Lut", "bitand_assign");
    ("BitAnd<Lut>", "Lut", "bitand"); ("BitAnd<Lut>", "&Lut", "bitand");
    ("BitAnd<&Lut>", "&Lut", "bitand"); ("BitAnd<&Lut>", "Lut", "bitand");
    ("BitOrAssign<&Lut>", "Lut", "bitor_assign"); ("BitOrAssign<Lut>", "Lut", "bitor_assign");
    ("BitOr<Lut>", "Lut", "bitor"); ("BitOr<Lut>", "&Lut", "bitor");
    ("BitOr<&Lut>", "&Lut", "bitor"); ("BitOr<&Lut>", "Lut", "bitor");
    ("BitXorAssign<&Lut>", "Lut", "bitxor_assign"); ("BitXorAssign<Lut>", "Lut", "bitxor_assign");
    ("BitXor<Lut>", "Lut", "bitxor"); ("BitXor<Lut>", "&Lut", "bitxor");
    ("BitXor<&Lut>", "&Lut", "bitxor"); ("BitXor<&Lut>", "Lut", "bitxor") ] /\
  logic_impls_of trait_impls "StaticLut" =
  [ ("Not", "StaticLut", "not"); ("Not", "&StaticLut", "not");
    ("BitAndAssign<StaticLut>", "StaticLut", "bitand_assign"); ("BitAndAssign<&StaticLut>", "StaticLut", "bitand_assign");
    ("BitAnd<StaticLut>", "StaticLut", "bitand"); ("BitAnd<&StaticLut>", "StaticLut", "bitand");
    ("BitAnd<StaticLut>", "&StaticLut", "bitand"); ("BitAnd<&StaticLut>", "&StaticLut", "bitand");
    ("BitOrAssign<StaticLut>", "StaticLut", "bitor_assign"); ("BitOrAssign<&StaticLut>", "StaticLut", "bitor_assign");
    ("BitOr<StaticLut>", "StaticLut", "bitor"); ("BitOr<&StaticLut>", "StaticLut", "bitor");
    ("BitOr<StaticLut>", "&StaticLut", "bitor"); ("BitOr<&StaticLut>", "&StaticLut", "bitor");
    ("BitXorAssign<StaticLut>", "StaticLut", "bitxor_assign"); ("BitXorAssign<&StaticLut>", "StaticLut", "bitxor_assign");
    ("BitXor<StaticLut>", "StaticLut", "bitxor"); ("BitXor<&StaticLut>", "StaticLut", "bitxor");
    ("BitXor<StaticLut>", "&StaticLut", "bitxor"); ("BitXor<&StaticLut>", "&StaticLut", "bitxor") ].
Proof. vm_compute. split; reflexivity. Qed.

(* the two generated files agree: every required form has exactly one body in Gen.Guards.functions, and the
   logical-operator bodies there are exactly these *)
Definition form_body (fs : list fn_info) (fm : form) : list fn_info :=
  let '(trait, ty, m) := fm in
  filter (fun g => (fi_impl g =? ty) && (fi_trait g =? trait) && (fi_name g =? m)) fs.

Definition is_logic_impl (f : fn_info) : bool :=
  mem (base_type (fi_impl f)) api_types && is_logic_trait (fi_trait f).

Theorem s10_forms_have_bodies :
  forallb (fun T => forallb (fun fm => Nat.eqb (List.length (form_body functions fm)) 1) (required_forms T)) api_types = true /\
  List.length (filter is_logic_impl functions) = 40.
Proof. vm_compute. split; reflexivity. Qed.

(* negative examples: one form deleted / a stray form added / an impl with a second method *)
Definition drop_impl (trait ty : string) (impls : list (string * string * string * list string)) :=
  filter (fun '(file, tr, t, fns) => negb ((tr =? trait) && (t =? ty))) impls.

Example neg_form_missing :
  forms_complete (drop_impl "BitXor<&StaticLut>" "StaticLut" trait_impls) = false /\
  forms_complete (drop_impl "BitOrAssign<Lut>" "Lut" trait_impls) = false /\
  forms_complete (drop_impl "Not" "&Lut" trait_impls) = false.
Proof. vm_compute. repeat split; reflexivity. Qed.

Example neg_form_stray :
  forms_complete (("src/lut.rs", "BitAnd<u64>", "Lut", ["bitand"]) :: trait_impls) = true /\
  forms_exact (("src/lut.rs", "BitAnd<u64>", "Lut", ["bitand"]) :: trait_impls) = false.
Proof. vm_compute. split; reflexivity. Qed.

(* ================================================================== Part 2: forwarding to the kernel (Gen.Guards) *)
Definition logic_kernels : list string := ["and_inplace"; "or_inplace"; "xor_inplace"; "not_inplace"].

Definition kernel_of_trait (tr : string) : option string :=
  if prefix "BitAnd" tr then Some "and_inplace"
  else if prefix "BitOr" tr then Some "or_inplace"
  else if prefix "BitXor" tr then Some "xor_inplace"
  else if tr =? "Not" then Some "not_inplace"
  else None.

(* the named methods and the kernel each has to reach *)
Definition named_logic_methods : list (string * string) :=
  [("and", "and_inplace"); ("or", "or_inplace"); ("xor", "xor_inplace"); ("not", "not_inplace");
   ("and_inplace", "and_inplace"); ("or_inplace", "or_inplace"); ("xor_inplace", "xor_inplace");
   ("not_inplace", "not_inplace")].

Section Reach.
Variable fs : list fn_info.

(* the impls `T OP= _` that a compound assignment `sym` inside a body of T / &T can dispatch to.  The data is
   syntactic (the type of the right-hand side is not recorded), so both `OpAssign<T>` and `OpAssign<&T>` are
   candidates: "must" below quantifies over all of them, "may" over any of them. *)
Definition assign_impls (T sym : string) : list fn_info :=
  filter (fun g => (fi_impl g =? T) && prefix (assign_trait_prefix sym) (fi_trait g)) fs.

(* MUST: some event of the body leads to `Call k` whatever the dispatch:
     Call k                         directly
     OpAssign sym                   at least one candidate impl besides the ones already on the stack, and ALL
                                    of them must-reach k
     Method m                       the inherent method m of the same type must-reach k
   A candidate that is already on the call stack is a non-terminating path and is skipped. Out of fuel = false. *)
Fixpoint must_reach (fuel : nat) (visited : list string) (f : fn_info) (k : string) : bool :=
  match fuel with
  | O => false
  | S n =>
      let T := base_type (fi_impl f) in
      let v := key f :: visited in
      existsb (fun e =>
        match e with
        | Call c => c =? k
        | OpAssign sym =>
            let G := unvisited v (assign_impls T sym) in
            negb (is_nil G) && forallb (fun g => must_reach n v g k) G
        | Method m =>
            match find_method fs T m with
            | Some g => negb (mem (key g) v) && must_reach n v g k
            | None => false
            end
        | _ => false
        end) (fi_events f)
  end.

(* MAY: over-approximation - any event, any candidate; out of fuel = true, so a `false` is never due to fuel *)
Fixpoint may_reach (fuel : nat) (visited : list string) (f : fn_info) (k : string) : bool :=
  match fuel with
  | O => true
  | S n =>
      let T := base_type (fi_impl f) in
      let v := key f :: visited in
      existsb (fun e =>
        match e with
        | Call c => c =? k
        | OpAssign sym => existsb (fun g => may_reach n v g k) (unvisited v (assign_impls T sym))
        | Method m =>
            match find_method fs T m with
            | Some g => negb (mem (key g) v) && may_reach n v g k
            | None => false
            end
        | _ => false
        end) (fi_events f)
  end.

Definition reach_fuel : nat := 6.

(* the logical kernels that the body can reach at all *)
Definition reached (f : fn_info) : list string := filter (may_reach reach_fuel [] f) logic_kernels.

(* f forwards to k and to no other logical kernel *)
Definition forwards_to (f : fn_info) (k : string) : bool :=
  must_reach reach_fuel [] f k && strs_eqb (reached f) [k].

Definition operator_forwards (f : fn_info) : bool :=
  match kernel_of_trait (fi_trait f) with
  | Some k => forwards_to f k
  | None => false
  end.

Definition operators_forward : bool := forallb operator_forwards (filter is_logic_impl fs).
Definition operators_failing : list (string * string) :=
  map (fun f => (fi_trait f, fi_impl f)) (filter (fun f => negb (operator_forwards f)) (filter is_logic_impl fs)).

Definition named_forwards (T : string) (mk : string * string) : bool :=
  match find_method fs T (fst mk) with
  | Some f => fi_pub f && forwards_to f (snd mk)
  | None => false
  end.
Definition named_methods_forward : bool :=
  forallb (fun T => forallb (named_forwards T) named_logic_methods) api_types.
Definition named_failing : list (string * string) :=
  flat_map (fun T => map (fun mk => (T, fst mk)) (filter (fun mk => negb (named_forwards T mk)) named_logic_methods))
           api_types.

(* the kernels are the free functions of operations.rs, and each applies the operator it is named after *)
Definition op_symbols (f : fn_info) : list string :=
  flat_map (fun e => match e with OpAssign s => [s] | _ => [] end) (fi_events f).
Definition kernel_symbols : list (string * list string) :=
  [("and_inplace", ["&="]); ("or_inplace", ["|="]); ("xor_inplace", ["^="]); ("not_inplace", [])].
Definition kernels_use_their_symbol : bool :=
  forallb (fun ks =>
    match find_free fs (fst ks) with
    | Some g => (fi_file g =? "src/operations.rs") && strs_eqb (op_symbols g) (snd ks)
    | None => false
    end) kernel_symbols.

End Reach.

Theorem s10_operators_forward : operators_forward functions = true.
Proof. vm_compute. reflexivity. Qed.

Theorem s10_named_methods_forward : named_methods_forward functions = true.
Proof. vm_compute. reflexivity. Qed.

Theorem s10_kernels_use_their_symbol : kernels_use_their_symbol functions = true.
Proof. vm_compute. reflexivity. Qed.

(* the predicate in words, for one impl: a logical-operator impl of Lut / &Lut / StaticLut / &StaticLut listed in
   the generated data must-reaches the kernel of its trait and may-reaches no other logical kernel *)
Lemma operator_forwards_sound : forall fs f, operator_forwards fs f = true ->
  exists k, kernel_of_trait (fi_trait f) = Some k /\
            must_reach fs reach_fuel [] f k = true /\
            (forall k', In k' logic_kernels -> may_reach fs reach_fuel [] f k' = true -> k' = k).
Proof.
  intros fs f Hf.
  unfold operator_forwards in Hf. destruct (kernel_of_trait (fi_trait f)) as [k|]; [|discriminate Hf].
  exists k. unfold forwards_to in Hf. apply andb_true_iff in Hf. destruct Hf as [Hm He].
  split; [reflexivity|]. split; [exact Hm|].
  intros k' Hk' Hr. apply strs_eqb_eq in He.
  assert (Hin' : In k' (reached fs f)) by (apply filter_In; split; assumption).
  rewrite He in Hin'. destruct Hin' as [E|[]]. symmetry. exact E.
Qed.

Lemma operators_forward_unfolded : forallb (operator_forwards functions) (filter is_logic_impl functions) = true.
Proof. vm_compute. reflexivity. Qed.

Theorem s10_operator_forwards_spec : forall f, In f functions -> is_logic_impl f = true ->
  exists k, kernel_of_trait (fi_trait f) = Some k /\
            must_reach functions reach_fuel [] f k = true /\
            (forall k', In k' logic_kernels -> may_reach functions reach_fuel [] f k' = true -> k' = k).
Proof.
  intros f Hin Hl. apply (operator_forwards_sound functions f).
  exact (proj1 (forallb_forall (operator_forwards functions) (filter is_logic_impl functions))
               operators_forward_unfolded f (proj2 (filter_In is_logic_impl f functions) (conj Hin Hl))).
Qed.

(* the pinned table: (trait, implementing type, the logical kernels its body can reach) *)
Theorem s10_operator_table :
  map (fun f => (fi_trait f, fi_impl f, reached functions f)) (filter is_logic_impl functions) =
  [ ("Not", "&Lut", ["not_inplace"]); ("Not", "Lut", ["not_inplace"]);
    ("BitAndAssign<&Lut>", "Lut", ["and_inplace"]); ("BitAndAssign<Lut>", "Lut", ["and_inplace"]);
    ("BitAnd<Lut>", "Lut", ["and_inplace"]); ("BitAnd<Lut>", "&Lut", ["and_inplace"]);
    ("BitAnd<&Lut>", "&Lut", ["and_inplace"]); ("BitAnd<&Lut>", "Lut", ["and_inplace"]);
    ("BitOrAssign<&Lut>", "Lut", ["or_inplace"]); ("BitOrAssign<Lut>", "Lut", ["or_inplace"]);
    ("BitOr<Lut>", "Lut", ["or_inplace"]); ("BitOr<Lut>", "&Lut", ["or_inplace"]);
    ("BitOr<&Lut>", "&Lut", ["or_inplace"]); ("BitOr<&Lut>", "Lut", ["or_inplace"]);
    ("BitXorAssign<&Lut>", "Lut", ["xor_inplace"]); ("BitXorAssign<Lut>", "Lut", ["xor_inplace"]);
    ("BitXor<Lut>", "Lut", ["xor_inplace"]); ("BitXor<Lut>", "&Lut", ["xor_inplace"]);
    ("BitXor<&Lut>", "&Lut", ["xor_inplace"]); ("BitXor<&Lut>", "Lut", ["xor_inplace"]);
    ("Not", "StaticLut", ["not_inplace"]); ("Not", "&StaticLut", ["not_inplace"]);
    ("BitAndAssign<StaticLut>", "StaticLut", ["and_inplace"]); ("BitAndAssign<&StaticLut>", "StaticLut", ["and_inplace"]);
    ("BitAnd<StaticLut>", "StaticLut", ["and_inplace"]); ("BitAnd<&StaticLut>", "StaticLut", ["and_inplace"]);
    ("BitAnd<StaticLut>", "&StaticLut", ["and_inplace"]); ("BitAnd<&StaticLut>", "&StaticLut", ["and_inplace"]);
    ("BitOrAssign<StaticLut>", "StaticLut", ["or_inplace"]); ("BitOrAssign<&StaticLut>", "StaticLut", ["or_inplace"]);
    ("BitOr<StaticLut>", "StaticLut", ["or_inplace"]); ("BitOr<&StaticLut>", "StaticLut", ["or_inplace"]);
    ("BitOr<StaticLut>", "&StaticLut", ["or_inplace"]); ("BitOr<&StaticLut>", "&StaticLut", ["or_inplace"]);
    ("BitXorAssign<StaticLut>", "StaticLut", ["xor_inplace"]); ("BitXorAssign<&StaticLut>", "StaticLut", ["xor_inplace"]);
    ("BitXor<StaticLut>", "StaticLut", ["xor_inplace"]); ("BitXor<&StaticLut>", "StaticLut", ["xor_inplace"]);
    ("BitXor<StaticLut>", "&StaticLut", ["xor_inplace"]); ("BitXor<&StaticLut>", "&StaticLut", ["xor_inplace"]) ].
Proof. vm_compute. reflexivity. Qed.

Theorem s10_named_table :
  flat_map (fun T => map (fun mk =>
     (T, fst mk, match find_method functions T (fst mk) with Some f => reached functions f | None => ["<missing>"] end))
     named_logic_methods) api_types =
  [ ("Lut", "and", ["and_inplace"]); ("Lut", "or", ["or_inplace"]); ("Lut", "xor", ["xor_inplace"]);
    ("Lut", "not", ["not_inplace"]); ("Lut", "and_inplace", ["and_inplace"]); ("Lut", "or_inplace", ["or_inplace"]);
    ("Lut", "xor_inplace", ["xor_inplace"]); ("Lut", "not_inplace", ["not_inplace"]);
    ("StaticLut", "and", ["and_inplace"]); ("StaticLut", "or", ["or_inplace"]); ("StaticLut", "xor", ["xor_inplace"]);
    ("StaticLut", "not", ["not_inplace"]); ("StaticLut", "and_inplace", ["and_inplace"]);
    ("StaticLut", "or_inplace", ["or_inplace"]); ("StaticLut", "xor_inplace", ["xor_inplace"]);
    ("StaticLut", "not_inplace", ["not_inplace"]) ].
Proof. vm_compute. reflexivity. Qed.

(* ---- negative examples: ONE entry of the generated list edited the way an edit of the Rust source would *)
Example edit_identity_ops :
  operators_forward (edit "&Lut" "BitOr<&Lut>" "bitor" (with_events [Method "clone"; OpAssign "|="]) functions) = true.
Proof. vm_compute. reflexivity. Qed.

(* 1. `&a | &b` implemented with `&=` *)
Example neg_or_uses_and :
  let fs := edit "&Lut" "BitOr<&Lut>" "bitor" (with_events [Method "clone"; OpAssign "&="]) functions in
  operators_forward fs = false /\ operators_failing fs = [("BitOr<&Lut>", "&Lut")].
Proof. vm_compute. split; reflexivity. Qed.

(* 2. `a ^= &b` calls or_inplace: every `^` form of Lut is wrong, nothing else *)
Example neg_xor_assign_calls_or :
  let fs := edit "Lut" "BitXorAssign<&Lut>" "bitxor_assign"
              (with_events [Assert "self.num_vars == rhs.num_vars"; Call "or_inplace"; Method "as_mut"; Method "as_ref"])
              functions in
  operators_forward fs = false /\
  operators_failing fs = [("BitXorAssign<&Lut>", "Lut"); ("BitXorAssign<Lut>", "Lut"); ("BitXor<Lut>", "Lut");
                          ("BitXor<Lut>", "&Lut"); ("BitXor<&Lut>", "&Lut"); ("BitXor<&Lut>", "Lut")].
Proof. vm_compute. split; reflexivity. Qed.

(* 3. an operator that applies its own operator AND another one *)
Example neg_and_then_or :
  let fs := edit "StaticLut" "BitAnd<&StaticLut>" "bitand" (with_events [OpAssign "&="; OpAssign "|="]) functions in
  operators_forward fs = false /\ operators_failing fs = [("BitAnd<&StaticLut>", "StaticLut")] /\
  map (reached fs) (form_body fs ("BitAnd<&StaticLut>", "StaticLut", "bitand")) = [["and_inplace"; "or_inplace"]].
Proof. vm_compute. repeat split; reflexivity. Qed.

(* 4. `!&a` returns the operand unchanged *)
Example neg_not_identity :
  let fs := edit "&StaticLut" "Not" "not" (with_events []) functions in
  operators_forward fs = false /\ operators_failing fs = [("Not", "&StaticLut")].
Proof. vm_compute. split; reflexivity. Qed.

(* 5. an operator that only calls itself (`self & rhs` inside `bitand`): no terminating path *)
Example neg_assign_self_loop :
  let fs := edit "Lut" "BitOrAssign<&Lut>" "bitor_assign" (with_events [OpAssign "|="]) functions in
  operators_forward fs = false /\
  operators_failing fs = [("BitOrAssign<&Lut>", "Lut"); ("BitOrAssign<Lut>", "Lut"); ("BitOr<Lut>", "Lut");
                          ("BitOr<Lut>", "&Lut"); ("BitOr<&Lut>", "&Lut"); ("BitOr<&Lut>", "Lut")].
Proof. vm_compute. split; reflexivity. Qed.

(* 6. the named method `Lut::not` re-implemented without the kernel (an open-coded map over the blocks), and
      `StaticLut::xor` forwarding to or_inplace; the inherent method is also what `!a` goes through *)
Example neg_named_methods :
  let fs1 := edit "Lut" "" "not" (with_events [Method "iter"; Method "map"; Method "collect"]) functions in
  let fs2 := edit "StaticLut" "" "xor" (with_events [Method "or_inplace"]) functions in
  let fs3 := edit "Lut" "" "not_inplace" (with_events [Method "as_mut"]) functions in
  named_methods_forward fs1 = false /\ named_failing fs1 = [("Lut", "not")] /\
  named_methods_forward fs2 = false /\ named_failing fs2 = [("StaticLut", "xor")] /\
  named_failing fs3 = [("Lut", "not"); ("Lut", "not_inplace")] /\
  operators_failing fs3 = [("Not", "&Lut"); ("Not", "Lut")].
Proof. vm_compute. repeat split; reflexivity. Qed.

(* 7. the kernel itself applies another operator *)
Example neg_kernel_symbol :
  kernels_use_their_symbol
    (edit "" "" "or_inplace"
       (with_events [DebugAssertEq "table1.len(), table2.len()"; Method "len"; Method "len"; Method "iter_mut";
                     Method "zip"; Method "iter"; OpAssign "^="]) functions) = false.
Proof. vm_compute. reflexivity. Qed.

(* ================================================================== Part 3: Lut and StaticLut side by side *)
Definition pub_methods (fs : list fn_info) (T : string) : list string :=
  map fi_name (filter (fun f => (fi_impl f =? T) && (fi_trait f =? "") && fi_pub f) fs).

Definition common_methods (fs : list fn_info) : list string :=
  filter (fun m => mem m (pub_methods fs "StaticLut")) (pub_methods fs "Lut").
Definition lut_only (fs : list fn_info) : list string :=
  filter (fun m => negb (mem m (pub_methods fs "StaticLut"))) (pub_methods fs "Lut").
Definition static_only (fs : list fn_info) : list string :=
  filter (fun m => negb (mem m (pub_methods fs "Lut"))) (pub_methods fs "StaticLut").

Theorem s10_common_methods :
  filter (fun m => mem m (pub_methods functions "StaticLut")) (pub_methods functions "Lut") =
  ["num_vars"; "num_bits"; "num_blocks"; "one"; "zero"; "nth_var"; "parity"; "majority"; "threshold"; "equals";
   "symmetric"; "random"; "value"; "get_bit"; "set_value"; "set_bit"; "unset_bit"; "not_inplace"; "and_inplace";
   "or_inplace"; "xor_inplace"; "flip_inplace"; "swap_inplace"; "swap_adjacent_inplace"; "not"; "and"; "or"; "xor";
   "flip"; "swap"; "swap_adjacent"; "cofactors"; "from_cofactors"; "blocks"; "from_blocks"; "p_canonization";
   "n_canonization"; "npn_canonization"; "top_decomposition"; "is_pos_unate"; "is_neg_unate"; "all_functions";
   "bdd_complexity"; "to_hex_string"; "to_bin_string"; "from_hex_string"].
Proof. vm_compute. reflexivity. Qed.

(* nothing on one side only.  (With the translator as it was before its repair - it dropped every fn whose
   signature contains `;` before the body, here the return type `[u8; N]` - this list was
   ["p_canonization"; "npn_canonization"]: the pin is what exposed the defect.) *)
Theorem s10_lut_only :
  filter (fun m => negb (mem m (pub_methods functions "StaticLut"))) (pub_methods functions "Lut") = [].
Proof. vm_compute. reflexivity. Qed.

Theorem s10_static_only :
  filter (fun m => negb (mem m (pub_methods functions "Lut"))) (pub_methods functions "StaticLut") = [].
Proof. vm_compute. reflexivity. Qed.

(* no method name is defined twice in an impl (so "the method m of T" is well defined) *)
Theorem s10_method_names_unique :
  forallb (fun T => Nat.eqb (List.length (nodup string_dec (pub_methods functions T)))
                            (List.length (pub_methods functions T))) ["Lut"; "StaticLut"] = true /\
  map (fun T => List.length (pub_methods functions T)) ["Lut"; "StaticLut"] = [46; 46].
Proof. vm_compute. split; reflexivity. Qed.

Section Kernels.
Variable fs : list fn_info.
(* deep = false: follow `.m(..)` forwards inside the same impl only (the statement that was asked for)
   deep = true : also follow `f(..)` calls that are not free kernel functions into the function f of the same
                 impl (`Self::zero()`, `Lut::new(..)`, `Self::default()`) *)
Variable deep : bool.

(* the free functions of operations.rs / decomposition.rs / bdd.rs / canonization.rs *)
Definition is_kernel_fn (c : string) : bool := match find_free fs c with Some _ => true | None => false end.

(* the function of impl T that a call / method call named m can denote: the inherent one, else the trait ones *)
Definition resolve (T m : string) : list fn_info :=
  match find_method fs T m with
  | Some g => [g]
  | None => filter (fun g => (fi_impl g =? T) && negb (fi_trait g =? "") && (fi_name g =? m)) fs
  end.

(* the ordered list of kernel calls of a body, after following the forwards; functions already on the stack are
   skipped; an exhausted fuel is visible in the result *)
Fixpoint kernel_calls (fuel : nat) (visited : list string) (f : fn_info) : list string :=
  match fuel with
  | O => ["<out of fuel>"]
  | S n =>
      let T := base_type (fi_impl f) in
      let v := key f :: visited in
      flat_map (fun e =>
        match e with
        | Call c => if is_kernel_fn c then [c]
                    else if deep then flat_map (kernel_calls n v) (unvisited v (resolve T c)) else []
        | Method m => flat_map (kernel_calls n v) (unvisited v (resolve T m))
        | _ => []
        end) (fi_events f)
  end.
Definition kfuel : nat := 6.
Definition kernels_of (f : fn_info) : list string := kernel_calls kfuel [] f.

(* (m, kernels of Lut::m, kernels of StaticLut::m) *)
Definition kernel_row (m : string) : string * list string * list string :=
  (m, match find_method fs "Lut" m with Some a => kernels_of a | None => ["<missing>"] end,
      match find_method fs "StaticLut" m with Some b => kernels_of b | None => ["<missing>"] end).

Definition same_kernels_upto (ignore : list string) (r : string * list string * list string) : bool :=
  let '(m, a, b) := r in
  strs_eqb (filter (fun k => negb (mem k ignore)) a) (filter (fun k => negb (mem k ignore)) b).
Definition same_kernels (m : string) : bool := same_kernels_upto [] (kernel_row m).

(* trait impls, paired by (trait, implementing type on the Lut side, implementing type on the StaticLut side) *)
Definition trait_bodies (tr ty : string) : list fn_info :=
  filter (fun g => (fi_impl g =? ty) && (fi_trait g =? tr)) fs.
Definition trait_row (p : string * string * string) : string * list (list string) * list (list string) :=
  let '(tr, a, b) := p in (tr, map kernels_of (trait_bodies tr a), map kernels_of (trait_bodies tr b)).
Definition same_trait_kernels (ignore : list string) (p : string * string * string) : bool :=
  match trait_row p with
  | (_, [a], [b]) => same_kernels_upto ignore ("", a, b)
  | _ => false
  end.
End Kernels.

(* the two legitimate differences (both are about storage, not about the Boolean function computed):
   zero         Lut::zero(n) allocates table_size(n) words with Lut::new and clears them with the kernel fill_zero;
                StaticLut::zero() is Self::default(), the array literal [0; T] - there is nothing to call.
   from_blocks  Lut::from_blocks asserts blocks.len() == ret.num_blocks() (-> table_size) before clone_from_slice;
                StaticLut has T in its type, clone_from_slice alone checks the length (C10_from_blocks_agree). *)
Definition kernel_exceptions : list string := ["zero"; "from_blocks"].

Theorem s10_same_kernels :
  forallb (fun m => mem m ["zero"; "from_blocks"] || same_kernels functions false m) (common_methods functions) = true.
Proof. vm_compute. reflexivity. Qed.

(* exactly these two differ, and this is how *)
Theorem s10_kernel_differences :
  filter (fun r => negb (same_kernels_upto [] r)) (map (kernel_row functions false) (common_methods functions)) =
  [("zero", ["fill_zero"], []); ("from_blocks", ["table_size"], [])].
Proof. vm_compute. reflexivity. Qed.

(* the deep variant: every difference is the allocation of the boxed table (table_size) and its clearing
   (fill_zero), which StaticLut gets from its type; modulo these two names there is no exception at all *)
Definition alloc_kernels : list string := ["table_size"; "fill_zero"].

Theorem s10_same_kernels_deep :
  forallb (fun m => same_kernels_upto ["table_size"; "fill_zero"] (kernel_row functions true m))
          (common_methods functions) = true.
Proof. vm_compute. reflexivity. Qed.

(* the pinned table (shallow): one row per common method; the two columns are equal except for the two exceptions *)
Theorem s10_kernel_table :
  map (kernel_row functions false) (common_methods functions) =
  [ ("num_vars", [], []); ("num_bits", [], []); ("num_blocks", ["table_size"], ["table_size"]);
    ("one", ["fill_one"], ["fill_one"]); ("zero", ["fill_zero"], []);
    ("nth_var", ["fill_nth_var"], ["fill_nth_var"]); ("parity", ["fill_parity"], ["fill_parity"]);
    ("majority", ["fill_majority"], ["fill_majority"]); ("threshold", ["fill_threshold"], ["fill_threshold"]);
    ("equals", ["fill_equals"], ["fill_equals"]); ("symmetric", ["fill_symmetric"], ["fill_symmetric"]);
    ("random", ["fill_random"], ["fill_random"]); ("value", ["get_bit"], ["get_bit"]);
    ("get_bit", ["get_bit"], ["get_bit"]); ("set_value", ["set_bit"; "unset_bit"], ["set_bit"; "unset_bit"]);
    ("set_bit", ["set_bit"], ["set_bit"]); ("unset_bit", ["unset_bit"], ["unset_bit"]);
    ("not_inplace", ["not_inplace"], ["not_inplace"]); ("and_inplace", ["and_inplace"], ["and_inplace"]);
    ("or_inplace", ["or_inplace"], ["or_inplace"]); ("xor_inplace", ["xor_inplace"], ["xor_inplace"]);
    ("flip_inplace", ["flip_inplace"], ["flip_inplace"]); ("swap_inplace", ["swap_inplace"], ["swap_inplace"]);
    ("swap_adjacent_inplace", ["swap_adjacent_inplace"], ["swap_adjacent_inplace"]);
    ("not", ["not_inplace"], ["not_inplace"]); ("and", ["and_inplace"], ["and_inplace"]);
    ("or", ["or_inplace"], ["or_inplace"]); ("xor", ["xor_inplace"], ["xor_inplace"]);
    ("flip", ["flip_inplace"], ["flip_inplace"]); ("swap", ["swap_inplace"], ["swap_inplace"]);
    ("swap_adjacent", ["swap_adjacent_inplace"], ["swap_adjacent_inplace"]);
    ("cofactors", ["cofactor0_inplace"; "cofactor1_inplace"], ["cofactor0_inplace"; "cofactor1_inplace"]);
    ("from_cofactors", ["from_cofactors_inplace"], ["from_cofactors_inplace"]); ("blocks", [], []);
    ("from_blocks", ["table_size"], []); ("p_canonization", ["p_canonization"], ["p_canonization"]);
    ("n_canonization", ["n_canonization"], ["n_canonization"]);
    ("npn_canonization", ["npn_canonization"], ["npn_canonization"]);
    ("top_decomposition", ["top_decomposition"], ["top_decomposition"]);
    ("is_pos_unate", ["input_pos_unate"], ["input_pos_unate"]);
    ("is_neg_unate", ["input_neg_unate"], ["input_neg_unate"]); ("all_functions", [], []);
    ("bdd_complexity", ["table_complexity"], ["table_complexity"]); ("to_hex_string", ["to_hex"], ["to_hex"]);
    ("to_bin_string", ["to_bin"], ["to_bin"]); ("from_hex_string", ["fill_hex"], ["fill_hex"]) ].
Proof. vm_compute. reflexivity. Qed.

(* the differences of the deep variant, pinned (`table_size` in the Lut column of bdd_complexity is `Vec::new()`
   resolved to the private Lut::new - the data does not keep the path of a call; it is in alloc_kernels anyway) *)
Theorem s10_kernel_differences_deep :
  filter (fun r => negb (same_kernels_upto [] r)) (map (kernel_row functions true) (common_methods functions)) =
  [ ("one", ["table_size"; "fill_one"], ["fill_one"]); ("zero", ["table_size"; "fill_zero"], []);
    ("nth_var", ["table_size"; "fill_nth_var"], ["fill_nth_var"]);
    ("parity", ["table_size"; "fill_parity"], ["fill_parity"]);
    ("majority", ["table_size"; "fill_majority"], ["fill_majority"]);
    ("threshold", ["table_size"; "fill_threshold"], ["fill_threshold"]);
    ("equals", ["table_size"; "fill_equals"], ["fill_equals"]);
    ("symmetric", ["table_size"; "fill_symmetric"], ["fill_symmetric"]);
    ("random", ["table_size"; "fill_random"], ["fill_random"]);
    ("from_cofactors", ["table_size"; "from_cofactors_inplace"], ["from_cofactors_inplace"]);
    ("from_blocks", ["table_size"; "fill_zero"; "table_size"], []);
    ("all_functions", ["table_size"; "fill_zero"], []);
    ("bdd_complexity", ["table_size"; "table_complexity"], ["table_complexity"]);
    ("from_hex_string", ["table_size"; "fill_zero"; "fill_hex"], ["fill_hex"]) ].
Proof. vm_compute. reflexivity. Qed.

(* ---- the same for the trait impls that are not logical operators (those are Part 2) *)
Definition trait_pairs : list (string * string * string) :=
  [("Default", "Lut", "StaticLut"); ("Ord", "Lut", "StaticLut"); ("PartialOrd", "Lut", "StaticLut");
   ("fmt::Display", "Lut", "StaticLut"); ("fmt::LowerHex", "Lut", "StaticLut"); ("fmt::Binary", "Lut", "StaticLut");
   ("Iterator", "LutIterator", "StaticLutIterator<N, T>")].

Theorem s10_same_kernels_traits :
  forallb (same_trait_kernels functions false []) trait_pairs = true /\
  forallb (same_trait_kernels functions true ["table_size"; "fill_zero"]) trait_pairs = true.
Proof. vm_compute. split; reflexivity. Qed.

Theorem s10_trait_kernel_table :
  map (trait_row functions false) trait_pairs =
  [ ("Default", [[]], [[]]); ("Ord", [["cmp"]], [["cmp"]]); ("PartialOrd", [["cmp"]], [["cmp"]]);
    ("fmt::Display", [["fmt_hex"]], [["fmt_hex"]]); ("fmt::LowerHex", [["fmt_hex"]], [["fmt_hex"]]);
    ("fmt::Binary", [["fmt_bin"]], [["fmt_bin"]]); ("Iterator", [["next_inplace"]], [["next_inplace"]]) ] /\
  (* deep: Lut::default() is Lut::zero(0) *)
  trait_row functions true ("Default", "Lut", "StaticLut") = ("Default", [["table_size"; "fill_zero"]], [[]]).
Proof. vm_compute. split; reflexivity. Qed.

(* ---- the same parameters: StaticLut::m takes the parameters of Lut::m without `num_vars` (it is the const
        generic N), `&Lut` spelled `&Self` *)
Definition norm_ty (t : string) : string := if t =? "&Lut" then "&Self" else t.
Definition sig_modulo_num_vars (f : fn_info) : list string :=
  map (fun p => fst p ++ ": " ++ norm_ty (snd p)) (filter (fun p => negb (fst p =? "num_vars")) (params_of f)).
Definition same_signature (fs : list fn_info) (m : string) : bool :=
  match find_method fs "Lut" m, find_method fs "StaticLut" m with
  | Some a, Some b => strs_eqb (sig_modulo_num_vars a) (sig_modulo_num_vars b) &&
                      negb (mem "num_vars" (map fst (params_of b)))
  | _, _ => false
  end.

Theorem s10_same_signatures : forallb (same_signature functions) (common_methods functions) = true.
Proof. vm_compute. reflexivity. Qed.

(* the methods of Lut that take the number of variables at run time: exactly the constructors *)
Theorem s10_num_vars_methods :
  filter (fun m => match find_method functions "Lut" m with
                   | Some a => mem "num_vars" (map fst (params_of a)) | None => false end) (common_methods functions) =
  ["one"; "zero"; "nth_var"; "parity"; "majority"; "threshold"; "equals"; "symmetric"; "random"; "from_blocks";
   "all_functions"; "from_hex_string"].
Proof. vm_compute. reflexivity. Qed.

(* ---- the same traits: the trait impls of lut.rs are those of static_lut.rs with StaticLut renamed to Lut,
        the conversions between the two types and to / from integers set aside; the derives differ by Copy *)
Fixpoint replace_all (fuel : nat) (pat rep s : string) : string :=
  match fuel with
  | O => s
  | S n =>
      if prefix pat s then rep ++ replace_all n pat rep (substring (length pat) (length s - length pat) s)
      else match s with
           | String c r => String c (replace_all n pat rep r)
           | EmptyString => EmptyString
           end
  end.
(* StaticLutIterator<N, T> -> LutIterator, &StaticLut -> &Lut, ... *)
Definition to_lut (s : string) : string :=
  replace_all (length s) "<N, T>" "" (replace_all (length s) "StaticLut" "Lut" s).

Definition is_conversion (tr : string) : bool := prefix "From<" tr || prefix "TryFrom<" tr.
Definition impl_names (file : string) (impls : list (string * string * string * list string)) : list string :=
  flat_map (fun '(f, tr, ty, fns) =>
    if (f =? file) && negb (is_conversion tr) then [to_lut (tr ++ " for " ++ ty ++ " {" ++ concat "," fns ++ "}")]
    else []) impls.
Definition same_set (a b : list string) : bool := forallb (fun x => mem x b) a && forallb (fun x => mem x a) b.

Theorem s10_same_traits :
  same_set (impl_names "src/lut.rs" trait_impls) (impl_names "src/static_lut.rs" trait_impls) = true /\
  List.length (impl_names "src/lut.rs" trait_impls) = 27 /\
  List.length (impl_names "src/static_lut.rs" trait_impls) = 27.
Proof. vm_compute. repeat split; reflexivity. Qed.

Theorem s10_conversions :
  flat_map (fun '(f, tr, ty, fns) => if mem f ["src/lut.rs"; "src/static_lut.rs"] && is_conversion tr
                                     then [(tr, ty)] else []) trait_impls =
  [("TryFrom<Lut>", "StaticLut"); ("From<StaticLut>", "Lut"); ("From<u8>", "Lut3"); ("From<u16>", "Lut4");
   ("From<u32>", "Lut5"); ("From<u64>", "Lut6"); ("From<Lut3>", "u8"); ("From<Lut4>", "u16"); ("From<Lut5>", "u32");
   ("From<Lut6>", "u64")].
Proof. vm_compute. reflexivity. Qed.

Definition derives_of (T : string) : list string :=
  flat_map (fun '(name, ds, fields) => if name =? T then ds else []) derives.

Theorem s10_derives :
  derives_of "Lut" = ["Debug"; "Clone"; "Hash"; "PartialEq"; "Eq"] /\
  derives_of "StaticLut" = ["Debug"; "Clone"; "Copy"; "Hash"; "PartialEq"; "Eq"] /\
  filter (fun d => negb (mem d (derives_of "Lut"))) (derives_of "StaticLut") = ["Copy"] /\
  filter (fun d => negb (mem d (derives_of "StaticLut"))) (derives_of "Lut") = [].
Proof. vm_compute. repeat split; reflexivity. Qed.

(* ---- negative examples *)
(* StaticLut::flip_inplace calls the swap kernel; StaticLut::cofactors computes the cofactors in the other order *)
Example neg_other_kernel :
  let fs := edit "StaticLut" "" "flip_inplace" (with_events [CheckVar "ind"; Call "swap_inplace"; Method "as_mut"]) functions in
  filter (fun m => negb (mem m kernel_exceptions || same_kernels fs false m)) (common_methods fs) = ["flip_inplace"; "flip"].
Proof. vm_compute. reflexivity. Qed.

Example neg_kernel_order :
  let fs := edit "StaticLut" "" "cofactors"
              (with_events [CheckVar "ind"; Call "cofactor1_inplace"; Method "num_vars"; Method "as_mut";
                            Call "cofactor0_inplace"; Method "num_vars"; Method "as_mut"]) functions in
  filter (fun m => negb (mem m kernel_exceptions || same_kernels fs false m)) (common_methods fs) = ["cofactors"].
Proof. vm_compute. reflexivity. Qed.

(* a method re-implemented without its kernel on one side; Ord for StaticLut comparing something else *)
Example neg_no_kernel :
  let fs := edit "Lut" "" "to_bin_string" (with_events [Method "iter"; Method "rev"; Method "collect"]) functions in
  filter (fun m => negb (mem m kernel_exceptions || same_kernels fs false m)) (common_methods fs) = ["to_bin_string"] /\
  forallb (same_trait_kernels (edit "StaticLut" "Ord" "cmp" (with_events [Method "as_ref"; Method "cmp"]) functions)
                              false []) trait_pairs = false.
Proof. vm_compute. split; reflexivity. Qed.

(* a public method added to one type only, or made private on one side *)
Definition with_name (n : string) (g : fn_info) : fn_info :=
  {| fi_file := fi_file g; fi_impl := fi_impl g; fi_trait := fi_trait g; fi_name := n; fi_pub := fi_pub g;
     fi_params := fi_params g; fi_events := fi_events g |}.
Definition with_pub (b : bool) (g : fn_info) : fn_info :=
  {| fi_file := fi_file g; fi_impl := fi_impl g; fi_trait := fi_trait g; fi_name := fi_name g; fi_pub := b;
     fi_params := fi_params g; fi_events := fi_events g |}.

Example neg_one_sided_method :
  static_only (edit "StaticLut" "" "blocks" (with_name "words") functions) = ["words"] /\
  lut_only (edit "StaticLut" "" "blocks" (with_name "words") functions) = ["blocks"] /\
  lut_only (edit "StaticLut" "" "random" (with_pub false) functions) = ["random"].
Proof. vm_compute. repeat split; reflexivity. Qed.

(* a parameter that exists on one side only *)
Example neg_signature :
  let fs := edit "StaticLut" "" "threshold" (with_params "") functions in
  filter (fun m => negb (same_signature fs m)) (common_methods fs) = ["threshold"].
Proof. vm_compute. reflexivity. Qed.

(* ================================================================== Part 4: coverage of the model *)
(* public inherent method of Lut / StaticLut -> the function of Model/Api.v that mirrors it (the in-place and the
   copying form of an operation are one model function: the model is functional) *)
Definition modelled : list (string * string) :=
  [ ("num_vars", "nv"); ("num_bits", "num_bits"); ("num_blocks", "num_blocks");
    ("one", "D_one"); ("zero", "D_zero"); ("nth_var", "D_nth_var"); ("parity", "D_parity");
    ("majority", "D_majority"); ("threshold", "D_threshold"); ("equals", "D_equals"); ("symmetric", "D_symmetric");
    ("random", "D_random");
    ("value", "D_value"); ("get_bit", "D_get_bit"); ("set_value", "D_set_value"); ("set_bit", "D_set_bit");
    ("unset_bit", "D_unset_bit");
    ("not_inplace", "D_not"); ("and_inplace", "D_and"); ("or_inplace", "D_or"); ("xor_inplace", "D_xor");
    ("flip_inplace", "D_flip"); ("swap_inplace", "D_swap"); ("swap_adjacent_inplace", "D_swap_adjacent");
    ("not", "D_not"); ("and", "D_and"); ("or", "D_or"); ("xor", "D_xor");
    ("flip", "D_flip"); ("swap", "D_swap"); ("swap_adjacent", "D_swap_adjacent");
    ("cofactors", "D_cofactors"); ("from_cofactors", "D_from_cofactors");
    ("blocks", "tbl"); ("from_blocks", "D_from_blocks");
    ("p_canonization", "D_p_canonization"); ("n_canonization", "D_n_canonization");
    ("npn_canonization", "D_npn_canonization");
    ("top_decomposition", "D_top_decomposition"); ("is_pos_unate", "D_is_pos_unate");
    ("is_neg_unate", "D_is_neg_unate");
    ("all_functions", "D_all_functions"); ("bdd_complexity", "D_bdd_complexity");
    ("to_hex_string", "D_to_hex_string"); ("to_bin_string", "D_to_bin_string");
    ("from_hex_string", "D_from_hex_string") ].

(* the methods whose StaticLut version has its own model function (the run-time check of Lut is a type
   constraint of StaticLut); Properties/C10.v proves that each agrees with the D_ function where both apply *)
Definition modelled_static_variant : list (string * string) :=
  [ ("from_cofactors", "S_from_cofactors"); ("from_blocks", "S_from_blocks"); ("bdd_complexity", "S_bdd_complexity") ].

(* the names in the right-hand columns are the constants of Model/Api.v, in the order of the two tables: renaming or
   deleting one of them in the model breaks this definition *)
Definition modelled_anchor :=
  ( (Api.nv, Api.num_bits, Api.num_blocks),
    (Api.D_one, Api.D_zero, Api.D_nth_var, Api.D_parity, Api.D_majority, Api.D_threshold, Api.D_equals,
     Api.D_symmetric, Api.D_random),
    (Api.D_value, Api.D_get_bit, Api.D_set_value, Api.D_set_bit, Api.D_unset_bit),
    (Api.D_not, Api.D_and, Api.D_or, Api.D_xor, Api.D_flip, Api.D_swap, Api.D_swap_adjacent),
    (Api.D_cofactors, Api.D_from_cofactors, Api.tbl, Api.D_from_blocks),
    (Api.D_p_canonization, Api.D_n_canonization, Api.D_npn_canonization),
    (Api.D_top_decomposition, Api.D_is_pos_unate, Api.D_is_neg_unate),
    (Api.D_all_functions, Api.D_bdd_complexity),
    (Api.D_to_hex_string, Api.D_to_bin_string, Api.D_from_hex_string),
    (Api.S_from_cofactors, Api.S_from_blocks, Api.S_bdd_complexity) ).

Definition all_public_methods (fs : list fn_info) : list string :=
  flat_map (pub_methods fs) api_types.

Definition every_public_method_modelled (fs : list fn_info) : bool :=
  forallb (fun name => existsb (String.eqb name) (map fst modelled)) (all_public_methods fs).

Theorem s10_every_public_method_modelled : every_public_method_modelled functions = true.
Proof. vm_compute. reflexivity. Qed.

(* no stale row, no duplicate row, no "(not modelled ...)" row; the variants are common methods *)
Theorem s10_modelled_exact :
  forallb (fun name => mem name (all_public_methods functions)) (map fst modelled) = true /\
  List.length (nodup string_dec (map fst modelled)) = List.length modelled /\
  List.length modelled = 46 /\
  filter (fun r => prefix "(not modelled" (snd r)) modelled = [] /\
  forallb (fun r => mem (fst r) (common_methods functions)) modelled_static_variant = true.
Proof. vm_compute. repeat split; reflexivity. Qed.

(* trait impls of lut.rs / static_lut.rs -> model.  A key matches the trait itself or the trait applied to any
   generic argument. *)
Definition modelled_traits : list (string * string) :=
  [ ("Iterator", "iter_next"); ("Default", "D_default (Lut: zero variables), D_zero N (StaticLut)");
    ("Ord", "D_cmp, S_cmp"); ("PartialOrd", "D_cmp, S_cmp (Some of it)"); ("Not", "D_not");
    ("BitAnd", "D_and"); ("BitAndAssign", "D_and"); ("BitOr", "D_or"); ("BitOrAssign", "D_or");
    ("BitXor", "D_xor"); ("BitXorAssign", "D_xor");
    ("fmt::Display", "D_display"); ("fmt::LowerHex", "D_lowerhex"); ("fmt::Binary", "D_binary");
    ("TryFrom<Lut>", "S_try_from"); ("From<StaticLut>", "D_from_static");
    ("From<u8>", "S_from_int 3"); ("From<u16>", "S_from_int 4"); ("From<u32>", "S_from_int 5");
    ("From<u64>", "S_from_int 6");
    ("From<Lut3>", "S_to_int 3"); ("From<Lut4>", "S_to_int 4"); ("From<Lut5>", "S_to_int 5");
    ("From<Lut6>", "S_to_int 6") ].
Definition modelled_derives : list (string * string) :=
  [ ("PartialEq", "D_eq"); ("Eq", "D_eq"); ("Hash", "D_hash_input, S_hash_input");
    ("Clone", "(identity: a model value is immutable)"); ("Copy", "(identity: a model value is immutable)");
    ("Debug", "(not modelled: the derived Debug text is not covered by any property)") ].

Definition modelled_traits_anchor :=
  ( Api.iter_next, Api.D_default, Api.D_zero, Api.D_cmp, Api.S_cmp, Api.D_not, Api.D_and, Api.D_or, Api.D_xor,
    Api.D_display, Api.D_lowerhex, Api.D_binary, Api.S_try_from, Api.D_from_static, Api.S_from_int, Api.S_to_int,
    Api.D_eq, Api.D_hash_input, Api.S_hash_input ).

Definition trait_key_matches (tr key : string) : bool := (tr =? key) || prefix (key ++ "<") tr.
Definition trait_modelled (tr : string) : bool := existsb (fun r => trait_key_matches tr (fst r)) modelled_traits.

Definition every_trait_impl_modelled (impls : list (string * string * string * list string)) : bool :=
  forallb (fun '(f, tr, ty, fns) => negb (mem f ["src/lut.rs"; "src/static_lut.rs"]) || trait_modelled tr) impls.

Theorem s10_every_trait_impl_modelled :
  every_trait_impl_modelled trait_impls = true /\
  forallb (fun T => forallb (fun d => mem d (map fst modelled_derives)) (derives_of T)) ["Lut"; "StaticLut"] = true /\
  map fst (filter (fun r => prefix "(not modelled" (snd r)) (modelled_traits ++ modelled_derives)) = ["Debug"].
Proof. vm_compute. repeat split; reflexivity. Qed.

(* negative examples: a new public method / a new trait impl in the source *)
Example neg_new_public_method :
  every_public_method_modelled (edit "Lut" "" "check_var" (with_pub true) functions) = false /\
  every_public_method_modelled (edit "StaticLut" "" "blocks" (with_name "words") functions) = false.
Proof. vm_compute. split; reflexivity. Qed.

Example neg_new_trait_impl :
  every_trait_impl_modelled (("src/lut.rs", "Shl<usize>", "Lut", ["shl"]) :: trait_impls) = false /\
  every_trait_impl_modelled (("src/sop/cube.rs", "Shl<usize>", "Cube", ["shl"]) :: trait_impls) = true.
Proof. vm_compute. split; reflexivity. Qed.

(* the statement in the form used in Properties/C10.v *)
Theorem s10_every_public_method_modelled_app :
  forallb (fun name => existsb (String.eqb name) (map fst modelled))
          (pub_methods functions "Lut" ++ pub_methods functions "StaticLut") = true.
Proof. vm_compute. reflexivity. Qed.

Theorem s10_modelled_table :
  modelled =
  [ ("num_vars", "nv"); ("num_bits", "num_bits"); ("num_blocks", "num_blocks");
    ("one", "D_one"); ("zero", "D_zero"); ("nth_var", "D_nth_var"); ("parity", "D_parity");
    ("majority", "D_majority"); ("threshold", "D_threshold"); ("equals", "D_equals"); ("symmetric", "D_symmetric");
    ("random", "D_random");
    ("value", "D_value"); ("get_bit", "D_get_bit"); ("set_value", "D_set_value"); ("set_bit", "D_set_bit");
    ("unset_bit", "D_unset_bit");
    ("not_inplace", "D_not"); ("and_inplace", "D_and"); ("or_inplace", "D_or"); ("xor_inplace", "D_xor");
    ("flip_inplace", "D_flip"); ("swap_inplace", "D_swap"); ("swap_adjacent_inplace", "D_swap_adjacent");
    ("not", "D_not"); ("and", "D_and"); ("or", "D_or"); ("xor", "D_xor");
    ("flip", "D_flip"); ("swap", "D_swap"); ("swap_adjacent", "D_swap_adjacent");
    ("cofactors", "D_cofactors"); ("from_cofactors", "D_from_cofactors");
    ("blocks", "tbl"); ("from_blocks", "D_from_blocks");
    ("p_canonization", "D_p_canonization"); ("n_canonization", "D_n_canonization");
    ("npn_canonization", "D_npn_canonization");
    ("top_decomposition", "D_top_decomposition"); ("is_pos_unate", "D_is_pos_unate");
    ("is_neg_unate", "D_is_neg_unate");
    ("all_functions", "D_all_functions"); ("bdd_complexity", "D_bdd_complexity");
    ("to_hex_string", "D_to_hex_string"); ("to_bin_string", "D_to_bin_string");
    ("from_hex_string", "D_from_hex_string") ] /\
  modelled_static_variant =
  [ ("from_cofactors", "S_from_cofactors"); ("from_blocks", "S_from_blocks"); ("bdd_complexity", "S_bdd_complexity") ].
Proof. split; reflexivity. Qed.

(* the translator defect that these pins exposed, replayed: without the two entries that gen.py used to drop
   (fns whose return type contains `[u8; N]`), the two canonizations look like Lut-only methods *)
Example neg_translator_drops_methods :
  lut_only (filter (fun g => negb ((fi_impl g =? "StaticLut") && mem (fi_name g) ["p_canonization"; "npn_canonization"]))
                   functions) = ["p_canonization"; "npn_canonization"].
Proof. vm_compute. reflexivity. Qed.
