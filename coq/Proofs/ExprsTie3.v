(* Ties between Gen/Exprs3.v (part 3 of gen/gen_exprs.py: what Gen/Exprs.v leaves to the hand-written model in
   src/operations.rs and src/decomposition.rs, translated from the Rust source text on every run) and the model
   (Model/Kernels.v, Model/Decomp.v).

   Every lemma has the shape  <model function> = <the same control skeleton around gx_...>.
   - Whole-word regimes (variable index above 5).  The model works with [nat] indices and [Nat.pow 2 (i - 6)] strides,
     the generated expressions are over [N] (usize): the step lemmas instantiate the generated guard / index / value at
     [N.of_nat] of the model's arguments and read the index back with [N.to_nat]; the whole-function lemmas replace the
     stride by the generated [1 << (ind - 6)].  No side condition is needed: N.sub and Nat.sub truncate alike, N.add
     does not overflow, and the model has no overflow check on index arithmetic either.
       [table.swap(a, b)]  is  [swap_words t a b]  (defined below),
       [table[d] = e]      is  [upd t d e],
       a wrong guard ([!= 0] for [== 0]), a wrong stride ([ind - 5]), exchanged source and destination or a wrong index
       ([k + mj - mi]) changes Gen/Exprs3.v and breaks the Qed of the step lemma.
   - fill_symmetric: [sym_word] is the fold of the generated test / or / final mask over the generated enumeration of
     COUNT_MASKS, with the generated dev-profile check of the shift amount.
   - sizes and widths are [nat] in the model: ties through [N.of_nat].
   What is NOT tied is listed at the end of this file and in the trailer of Gen/Exprs3.v. *)
From Coq Require Import List NArith Arith Bool Lia.
From V Require Import Base.Res Gen.Tables Model.Kernels Base.Bits Model.Decomp Gen.Exprs Gen.Exprs3 Proofs.ExprsTie.
Import ListNotations.
Open Scope N_scope.
Open Scope res_scope.

(* ------------------------------------------------------------------ helpers *)
(* table.swap(a, b) *)
Definition swap_words (t : list N) (a b : nat) : list N := upd (upd t a (nthN t b)) b (nthN t a).

Lemma tie3_fold_left_ext {A B} (f g : A -> B -> A) l a :
  (forall x y, f x y = g x y) -> fold_left f l a = fold_left g l a.
Proof.
  intros H. revert a. induction l as [|y l IH]; intros a; [reflexivity|].
  cbn [fold_left]. rewrite H. apply IH.
Qed.

Lemma tie3_forallb_ext {A} (f g : A -> bool) l : (forall x, f x = g x) -> forallb f l = forallb g l.
Proof.
  intros H. induction l as [|x l IH]; [reflexivity|]. cbn [forallb]. rewrite H, IH. reflexivity.
Qed.

(* 2^(i - 6) of the model (nat) is 1 << (i - 6) of the source (usize) *)
Lemma tie3_stride i : N.of_nat (Nat.pow 2 (N.to_nat i - 6)) = N.shiftl 1 (i - 6).
Proof. rewrite N.shiftl_1_l, Nat2N.inj_pow, Nat2N.inj_sub, N2Nat.id. reflexivity. Qed.

Lemma tie3_le5 i : Nat.leb (N.to_nat i) 5 = (i <=? 5).
Proof.
  destruct (N.leb_spec i 5) as [H|H]; [apply Nat.leb_le | apply Nat.leb_gt]; lia.
Qed.

Lemma tie3_range (t : list N) : seq 0 (length t - 0) = seq 0 (length t).
Proof. rewrite Nat.sub_0_r. reflexivity. Qed.

(* the bit test as Rust writes it: (x >> k) & 1 != 0 *)
Lemma tie3_testbit x k : N.testbit x k = negb (N.land (N.shiftr x k) 1 =? 0).
Proof.
  rewrite <- (N.add_0_l k) at 1. rewrite <- N.shiftr_spec'.
  change 1 with (N.ones 1). rewrite N.land_ones. change (2 ^ 1) with 2.
  rewrite N.bit0_eqb.
  assert (H : N.shiftr x k mod 2 < 2) by (apply N.mod_upper_bound; discriminate).
  set (m := N.shiftr x k mod 2) in *. clearbody m.
  destruct (N.eqb_spec m 0) as [E|E].
  - rewrite E. reflexivity.
  - destruct (N.eqb_spec m 1) as [E1|E1]; [reflexivity|]. exfalso. lia.
Qed.

(* ================================================================== sizes, constants, regime selectors *)
Lemma tie_table_size n : N.of_nat (table_size n) = gx_table_size (N.of_nat n).
Proof.
  unfold table_size, gx_table_size.
  rewrite N.shiftl_1_l, Nat2N.inj_pow, Nat2N.inj_sub. change (N.of_nat 2) with 2. change (N.of_nat 6) with 6.
  destruct (N.ltb_spec 6 (N.of_nat n)) as [H|H].
  - rewrite Nat.max_l by lia. reflexivity.
  - rewrite Nat.max_r by lia. reflexivity.
Qed.

Lemma tie_fill_one n t : fill_one n t = (chk_len n t ;; Ok (map (fun _ => gx_fill_one_word n) t)).
Proof. reflexivity. Qed.

Lemma tie_fill_zero n t : fill_zero n t = (chk_len n t ;; Ok (map (fun _ => gx_fill_zero_word) t)).
Proof. reflexivity. Qed.

(* the regime selector of fill_nth_var (the two regimes are tied by ExprsTie.tie_fill_nth_var) *)
Lemma tie_fill_nth_var_regime n t ind :
  fill_nth_var n t ind =
  (chk_len n t ;; chk_ind n ind ;;
   if gx_fill_nth_var_low ind then Ok (map (fun _ => gx_fill_nth_var_word n ind) t)
   else Ok (mapi (fun i _ => gx_fill_nth_var_high ind i) t)).
Proof. reflexivity. Qed.

(* ================================================================== fill_symmetric *)
Lemma tie_sym_word n count_values i :
  sym_word n count_values i =
  (let cnt := gx_sym_cnt (N.of_nat i) in
   let* w := fold_left (fun (acc : res N) (cm : N * N) =>
                          let* a := acc in
                          dbg (gx_sym_test_shift_ok count_values cnt (fst cm)) ;;
                          Ok (if gx_sym_test count_values cnt (fst cm) then gx_sym_or a (snd cm) else a))
                       gx_sym_masks (Ok gx_sym_init) in
   Ok (gx_sym_final n w)).
Proof.
  unfold sym_word, gx_sym_masks, gx_sym_init, gx_sym_cnt. cbv zeta.
  f_equal. apply tie3_fold_left_ext. intros acc cm.
  unfold gx_sym_test_shift_ok, gx_sym_test, gx_sym_or.
  rewrite <- tie3_testbit. reflexivity.
Qed.

Lemma tie_fill_parity n t : fill_parity n t = fill_symmetric n t gx_parity_count_values.
Proof. reflexivity. Qed.

Lemma tie_parity_count_values : PARITY_COUNT_VALUES = gx_parity_count_values.
Proof. reflexivity. Qed.

Lemma tie_fill_threshold_regimes n t k :
  fill_threshold n t k =
  if gx_threshold_is_zero k then fill_one n t
  else if gx_threshold_above (N.of_nat n) k then fill_zero n t
  else (dbg (k <? 64) ;; fill_symmetric n t (gx_threshold_count_values k)).
Proof. reflexivity. Qed.

Lemma tie_fill_majority n t : fill_majority n t = fill_threshold n t (gx_majority_k (N.of_nat n)).
Proof.
  unfold fill_majority, gx_majority_k. rewrite Nat2N.inj_div, Nat2N.inj_add. reflexivity.
Qed.

(* ================================================================== text: widths, fill_hex *)
Lemma tie_hex_str_size n : N.of_nat (hex_str_size n) = gx_hex_str_size (N.of_nat n).
Proof.
  unfold hex_str_size, gx_hex_str_size. cbv zeta.
  destruct (N.leb_spec 6 (N.of_nat n)) as [H|H].
  - replace (Nat.leb 6 n) with true by (symmetry; apply Nat.leb_le; lia). reflexivity.
  - replace (Nat.leb 6 n) with false by (symmetry; apply Nat.leb_gt; lia).
    destruct (N.leb_spec (N.of_nat n) 2) as [H2|H2].
    + replace (Nat.leb n 2) with true by (symmetry; apply Nat.leb_le; lia). reflexivity.
    + replace (Nat.leb n 2) with false by (symmetry; apply Nat.leb_gt; lia).
      rewrite N.shiftl_1_l, Nat2N.inj_pow, Nat2N.inj_sub. reflexivity.
Qed.

Lemma tie_bin_width n : N.of_nat (bin_width n) = gx_to_bin_width (N.of_nat n).
Proof.
  unfold bin_width, gx_to_bin_width.
  destruct (N.leb_spec 6 (N.of_nat n)) as [H|H].
  - replace (Nat.leb 6 n) with true by (symmetry; apply Nat.leb_le; lia). reflexivity.
  - replace (Nat.leb 6 n) with false by (symmetry; apply Nat.leb_gt; lia).
    rewrite N.shiftl_1_l, Nat2N.inj_pow. reflexivity.
Qed.

Lemma tie_to_hex n t :
  to_hex n t = concat (map (pad_radix 16 (N.to_nat (gx_to_hex_width (N.of_nat n)))) (rev t)).
Proof. unfold gx_to_hex_width. rewrite <- tie_hex_str_size, Nat2N.id. reflexivity. Qed.

Lemma tie_to_bin n t :
  to_bin n t = concat (map (pad_radix 2 (N.to_nat (gx_to_bin_width (N.of_nat n)))) (rev t)).
Proof. rewrite <- tie_bin_width, Nat2N.id. reflexivity. Qed.

Lemma tie_fill_hex_len_bad (t s : list N) width :
  negb (Nat.eqb (length s) (width * length t)) = gx_fill_hex_len_bad t s (N.of_nat width).
Proof.
  unfold gx_fill_hex_len_bad. f_equal. rewrite <- Nat2N.inj_mul.
  destruct (Nat.eqb_spec (length s) (width * length t)) as [E|E].
  - rewrite E. symmetry. apply N.eqb_refl.
  - symmetry. apply N.eqb_neq. intros E'. apply Nat2N.inj in E'. exact (E E').
Qed.

Lemma tie_fill_hex n t s :
  fill_hex n t s =
  (chk_len n t ;;
   if negb (forallb is_hex_digit s) then Ok None
   else
     let width := gx_fill_hex_width (N.of_nat n) in
     if gx_fill_hex_len_bad t s width then Ok None
     else
       match all_some (map (fun ss => parse_hex ss 0) (chunks (N.to_nat width) (length t) s)) with
       | None => Ok None
       | Some ws =>
           if forallb (fun v => negb (gx_fill_hex_overflow n v)) ws
           then Ok (Some (rev (map gx_fill_hex_word ws))) else Ok None
       end).
Proof.
  unfold fill_hex. cbv zeta. unfold gx_fill_hex_width.
  rewrite <- tie_hex_str_size, Nat2N.id, tie_fill_hex_len_bad.
  destruct (chk_len n t) as [u| |]; [|reflexivity|reflexivity]. cbn [bind].
  destruct (negb (forallb is_hex_digit s)); [reflexivity|].
  destruct (gx_fill_hex_len_bad t s (N.of_nat (hex_str_size n))); [reflexivity|].
  destruct (all_some (map (fun ss => parse_hex ss 0) (chunks (hex_str_size n) (length t) s))) as [ws|]; [|reflexivity].
  rewrite (map_ext gx_fill_hex_word (fun v => v) (fun v => eq_refl)), map_id.
  rewrite (tie3_forallb_ext (fun v => negb (gx_fill_hex_overflow n v))
                            (fun v => N.land v (not64 (num_vars_mask n)) =? 0)); [reflexivity|].
  intros v. unfold gx_fill_hex_overflow. apply negb_involutive.
Qed.

(* the chunk i of the model is the sub-slice &s[i * width..(i + 1) * width] of the source *)
Lemma tie3_skipn_skipn {A} a b (l : list A) : skipn a (skipn b l) = skipn (b + a) l.
Proof.
  revert l. induction b as [|b IH]; intros l; [reflexivity|].
  destruct l as [|x l]; [rewrite !skipn_nil; reflexivity|]. cbn [skipn Nat.add]. apply IH.
Qed.

Lemma tie_fill_hex_chunk width count (s : list N) i :
  (i < count)%nat ->
  nth i (chunks width count s) [] =
  firstn (N.to_nat (gx_fill_hex_chunk_hi (N.of_nat width) (N.of_nat i)) -
          N.to_nat (gx_fill_hex_chunk_lo (N.of_nat width) (N.of_nat i)))
         (skipn (N.to_nat (gx_fill_hex_chunk_lo (N.of_nat width) (N.of_nat i))) s).
Proof.
  unfold gx_fill_hex_chunk_hi, gx_fill_hex_chunk_lo.
  replace (N.to_nat ((N.of_nat i + 1) * N.of_nat width)) with ((i + 1) * width)%nat by lia.
  replace (N.to_nat (N.of_nat i * N.of_nat width)) with (i * width)%nat by lia.
  replace ((i + 1) * width - i * width)%nat with width by lia.
  revert s i. induction count as [|c IH]; intros s i Hi; [lia|].
  cbn [chunks]. destruct i as [|i].
  - reflexivity.
  - cbn [nth]. rewrite IH by lia. rewrite tie3_skipn_skipn.
    replace (width + i * width)%nat with (S i * width)%nat by lia. reflexivity.
Qed.

(* ================================================================== swap_inplace *)
Definition gx_swap_cross_step (j : nat) (mi : N) (acc : res (list N)) (k : nat) : res (list N) :=
  let* t := acc in
  if gx_swap_cross_guard mi (N.of_nat k) then
    let t0 := gx_swap_cross_load0 t mi (N.of_nat k) in
    let t1 := gx_swap_cross_load1 t mi (N.of_nat k) in
    let* a := checked (gx_swap_cross_lo j t0 t1) in
    let* b := checked (gx_swap_cross_hi j t0 t1) in
    Ok (upd (upd t (N.to_nat (gx_swap_cross_dst_lo mi (N.of_nat k))) a)
            (N.to_nat (gx_swap_cross_dst_hi mi (N.of_nat k))) b)
  else Ok t.

Lemma tie_swap_cross_step3 j mi acc k : swap_cross_step j mi acc k = gx_swap_cross_step j (N.of_nat mi) acc k.
Proof.
  rewrite tie_swap_cross_step.
  unfold gx_swap_cross_step, gx_swap_cross_guard, gx_swap_cross_load0, gx_swap_cross_load1,
    gx_swap_cross_dst_lo, gx_swap_cross_dst_hi.
  rewrite <- Nat2N.inj_add, !Nat2N.id. reflexivity.
Qed.

Definition gx_swap_high_step (mi mj : N) (t : list N) (k : nat) : list N :=
  if gx_swap_high_guard mi mj (N.of_nat k)
  then swap_words t (N.to_nat (gx_swap_high_a mi mj (N.of_nat k))) (N.to_nat (gx_swap_high_b mi mj (N.of_nat k)))
  else t.

Lemma tie_swap_high_step mi mj t k : swap_high_step mi mj t k = gx_swap_high_step (N.of_nat mi) (N.of_nat mj) t k.
Proof.
  unfold swap_high_step, gx_swap_high_step, gx_swap_high_guard, gx_swap_high_a, gx_swap_high_b, swap_words.
  rewrite <- Nat2N.inj_sub, <- Nat2N.inj_add, !Nat2N.id. reflexivity.
Qed.

Lemma tie_swap_inplace3 n t ind1 ind2 :
  swap_inplace n t ind1 ind2 =
  (chk_len n t ;; chk_ind n ind1 ;; chk_ind n ind2 ;;
   if gx_swap_same ind1 ind2 then Ok t
   else
     let i := gx_swap_max ind1 ind2 in
     let j := gx_swap_min ind1 ind2 in
     if gx_swap_low i then mapM (swap_word_low (N.to_nat i) (N.to_nat j)) t
     else if gx_swap_cross j then
       fold_left (gx_swap_cross_step (N.to_nat j) (gx_swap_cross_mi i)) (gx_swap_cross_range t) (Ok t)
     else
       Ok (fold_left (gx_swap_high_step (gx_swap_high_mi i) (gx_swap_high_mj j)) (gx_swap_high_range t) t)).
Proof.
  unfold swap_inplace, gx_swap_same, gx_swap_low, gx_swap_cross, gx_swap_cross_mi, gx_swap_high_mi, gx_swap_high_mj,
    gx_swap_cross_range, gx_swap_high_range, gx_swap_max, gx_swap_min.
  cbv zeta. rewrite !tie3_le5, tie3_range, <- !tie3_stride.
  rewrite (tie3_fold_left_ext _ _ _ _ (tie_swap_cross_step3 (N.to_nat (N.min ind1 ind2)) _)).
  rewrite (tie3_fold_left_ext _ _ _ _ (tie_swap_high_step _ _)).
  reflexivity.
Qed.

Lemma tie_swap_adjacent_inplace n t ind :
  swap_adjacent_inplace n t ind = (dbg (ind <? ones64) ;; swap_inplace n t ind (gx_swap_adjacent_other ind)).
Proof. reflexivity. Qed.

(* ================================================================== flip_inplace *)
Definition gx_flip_high_step (stride : N) (t : list N) (i : nat) : list N :=
  if gx_flip_high_guard stride (N.of_nat i)
  then swap_words t (N.to_nat (gx_flip_high_a stride (N.of_nat i))) (N.to_nat (gx_flip_high_b stride (N.of_nat i)))
  else t.

Lemma tie_flip_high_step stride t i : flip_high_step stride t i = gx_flip_high_step (N.of_nat stride) t i.
Proof.
  unfold flip_high_step, gx_flip_high_step, gx_flip_high_guard, gx_flip_high_a, gx_flip_high_b, swap_words.
  rewrite <- Nat2N.inj_add, !Nat2N.id. reflexivity.
Qed.

Lemma tie_flip_inplace3 n t ind :
  flip_inplace n t ind =
  (chk_len n t ;; chk_ind n ind ;;
   if gx_flip_low ind then mapM (flip_word (N.to_nat ind)) t
   else Ok (fold_left (gx_flip_high_step (gx_flip_high_stride ind)) (gx_flip_high_range t) t)).
Proof.
  unfold flip_inplace, gx_flip_low, gx_flip_high_stride, gx_flip_high_range. cbv zeta.
  rewrite tie3_le5, tie3_range, <- tie3_stride.
  rewrite (tie3_fold_left_ext _ _ _ _ (tie_flip_high_step _)). reflexivity.
Qed.

(* ================================================================== cofactor0_inplace / cofactor1_inplace *)
Definition gx_cof0_high_step (stride : N) (t : list N) (i : nat) : list N :=
  if gx_cof0_high_guard stride (N.of_nat i)
  then upd t (N.to_nat (gx_cof0_high_dst stride (N.of_nat i))) (gx_cof0_high_val t stride (N.of_nat i))
  else t.

Lemma tie_cof0_high_step stride t i : cof0_high_step stride t i = gx_cof0_high_step (N.of_nat stride) t i.
Proof.
  unfold cof0_high_step, gx_cof0_high_step, gx_cof0_high_guard, gx_cof0_high_dst, gx_cof0_high_val.
  rewrite <- Nat2N.inj_add, !Nat2N.id. reflexivity.
Qed.

Lemma tie_cofactor0_inplace3 n t ind :
  cofactor0_inplace n t ind =
  (chk_len n t ;; chk_ind n ind ;;
   if gx_cof0_low ind then mapM (cof0_word (N.to_nat ind)) t
   else Ok (fold_left (gx_cof0_high_step (gx_cof0_high_stride ind)) (gx_cof0_high_range t) t)).
Proof.
  unfold cofactor0_inplace, gx_cof0_low, gx_cof0_high_stride, gx_cof0_high_range. cbv zeta.
  rewrite tie3_le5, tie3_range, <- tie3_stride.
  rewrite (tie3_fold_left_ext _ _ _ _ (tie_cof0_high_step _)). reflexivity.
Qed.

Definition gx_cof1_high_step (stride : N) (t : list N) (i : nat) : list N :=
  if gx_cof1_high_guard stride (N.of_nat i)
  then upd t (N.to_nat (gx_cof1_high_dst stride (N.of_nat i))) (gx_cof1_high_val t stride (N.of_nat i))
  else t.

Lemma tie_cof1_high_step stride t i : cof1_high_step stride t i = gx_cof1_high_step (N.of_nat stride) t i.
Proof.
  unfold cof1_high_step, gx_cof1_high_step, gx_cof1_high_guard, gx_cof1_high_dst, gx_cof1_high_val.
  rewrite <- Nat2N.inj_add, !Nat2N.id. reflexivity.
Qed.

Lemma tie_cofactor1_inplace3 n t ind :
  cofactor1_inplace n t ind =
  (chk_len n t ;; chk_ind n ind ;;
   if gx_cof1_low ind then mapM (cof1_word (N.to_nat ind)) t
   else Ok (fold_left (gx_cof1_high_step (gx_cof1_high_stride ind)) (gx_cof1_high_range t) t)).
Proof.
  unfold cofactor1_inplace, gx_cof1_low, gx_cof1_high_stride, gx_cof1_high_range. cbv zeta.
  rewrite tie3_le5, tie3_range, <- tie3_stride.
  rewrite (tie3_fold_left_ext _ _ _ _ (tie_cof1_high_step _)). reflexivity.
Qed.

(* ================================================================== from_cofactors_inplace *)
(* the loop `for i in 0..table.len() { table[i] = f(i) }` is the model's [map f (seq 0 (length t))] *)
Lemma tie3_upd_app {A} (pre : list A) x r v : upd (pre ++ x :: r) (length pre) v = pre ++ v :: r.
Proof. induction pre as [|y pre IH]; [reflexivity|]. cbn [app length upd]. rewrite IH. reflexivity. Qed.

Lemma tie3_fold_upd_map_gen (f : nat -> N) (t pre : list N) :
  fold_left (fun acc k => upd acc k (f k)) (seq (length pre) (length t)) (pre ++ t) =
  pre ++ map f (seq (length pre) (length t)).
Proof.
  revert pre. induction t as [|x r IH]; intros pre; [reflexivity|].
  cbn [length seq fold_left map]. rewrite tie3_upd_app.
  change (pre ++ f (length pre) :: r) with (pre ++ [f (length pre)] ++ r). rewrite app_assoc.
  replace (S (length pre)) with (length (pre ++ [f (length pre)])) by (rewrite app_length; cbn [length]; lia).
  rewrite IH. rewrite <- app_assoc. reflexivity.
Qed.

Lemma tie3_fold_upd_map (f : nat -> N) (t : list N) :
  fold_left (fun acc k => upd acc k (f k)) (seq 0 (length t)) t = map f (seq 0 (length t)).
Proof. exact (tie3_fold_upd_map_gen f t []). Qed.

Definition gx_from_cof_high_step (t0 t1 : list N) (stride : N) (acc : list N) (i : nat) : list N :=
  if gx_from_cof_high_guard stride (N.of_nat i)
  then upd acc (N.to_nat (gx_from_cof_high_then_dst stride (N.of_nat i))) (gx_from_cof_high_then_val t0 t1 stride (N.of_nat i))
  else upd acc (N.to_nat (gx_from_cof_high_else_dst stride (N.of_nat i))) (gx_from_cof_high_else_val t0 t1 stride (N.of_nat i)).

Lemma tie_from_cofactors_inplace3 n t t0 t1 ind :
  from_cofactors_inplace n t t0 t1 ind =
  (chk_len n t ;; chk_len n t0 ;; chk_len n t1 ;; chk_ind n ind ;;
   if gx_from_cof_low ind then
     mapM (fun k => from_cof_word (N.to_nat ind) (nthN t0 k) (nthN t1 k)) (gx_from_cof_low_range t)
   else
     Ok (fold_left (gx_from_cof_high_step t0 t1 (gx_from_cof_high_stride ind)) (gx_from_cof_high_range t) t)).
Proof.
  unfold from_cofactors_inplace, gx_from_cof_low, gx_from_cof_high_stride, gx_from_cof_high_range,
    gx_from_cof_low_range. cbv zeta.
  rewrite tie3_le5, tie3_range, <- tie3_stride.
  rewrite (tie3_fold_left_ext (gx_from_cof_high_step t0 t1 (N.of_nat (Nat.pow 2 (N.to_nat ind - 6))))
             (fun acc k => upd acc k (if N.land (N.of_nat k) (N.of_nat (Nat.pow 2 (N.to_nat ind - 6))) =? 0
                                      then nthN t0 k else nthN t1 k))).
  - rewrite tie3_fold_upd_map. reflexivity.
  - intros acc k.
    unfold gx_from_cof_high_step, gx_from_cof_high_guard, gx_from_cof_high_then_dst, gx_from_cof_high_then_val,
      gx_from_cof_high_else_dst, gx_from_cof_high_else_val.
    rewrite !Nat2N.id. destruct (N.land (N.of_nat k) (N.of_nat (Nat.pow 2 (N.to_nat ind - 6))) =? 0); reflexivity.
Qed.

(* in the in-word regime the k-th result is written at index k *)
Lemma tie_from_cof_low_dst k : N.to_nat (gx_from_cof_low_dst (N.of_nat k)) = k.
Proof. apply Nat2N.id. Qed.

(* ================================================================== next_inplace: control flow *)
Lemma tie_next_words3 mask w r :
  next_words mask (w :: r) =
  let w' := gx_next_word mask w in
  if gx_next_stop w' then (w' :: r, gx_next_hit)
  else let (r', ok) := next_words mask r in (w' :: r', ok).
Proof.
  rewrite tie_next_words. cbv zeta. unfold gx_next_stop, gx_next_hit.
  destruct (gx_next_word mask w =? 0); reflexivity.
Qed.

Lemma tie_next_words_nil mask : next_words mask [] = ([], gx_next_miss).
Proof. reflexivity. Qed.

(* ================================================================== decomposition.rs: input_property_helper *)
Definition gx_helper_high_step (op : N -> N -> N) (mask : N) (t : list N) (stride : N) (ret : bool) (i : nat) : bool :=
  if gx_helper_high_guard stride (N.of_nat i)
  then gx_helper_test_high op mask ret (gx_helper_high_c0 t stride (N.of_nat i)) (gx_helper_high_c1 t stride (N.of_nat i))
  else ret.

Lemma tie_input_property_helper3 n t ind op :
  input_property_helper n t ind op =
  (always (Nat.eqb (length t) (table_size n)) ;;
   always (ind <? N.of_nat n) ;;
   let mask := gx_helper_mask n in
   if gx_helper_low ind then
     Ok (fold_left (fun (ret : bool) (w : N) =>
                      gx_helper_test_low op mask ret (gx_helper_c0 ind w) (gx_helper_c1 ind w)) t gx_helper_init)
   else
     Ok (fold_left (gx_helper_high_step op mask t (gx_helper_high_stride ind)) (gx_helper_high_range t) gx_helper_init)).
Proof.
  rewrite tie_input_property_helper.
  unfold gx_helper_low, gx_helper_high_stride, gx_helper_high_range, gx_helper_init. cbv zeta.
  rewrite tie3_le5, tie3_range, <- tie3_stride.
  rewrite (tie3_fold_left_ext (gx_helper_high_step op (gx_helper_mask n) t (N.of_nat (Nat.pow 2 (N.to_nat ind - 6))))
             (fun (ret : bool) (k : nat) =>
                if N.land (N.of_nat k) (N.of_nat (Nat.pow 2 (N.to_nat ind - 6))) =? 0
                then gx_helper_test_high op (gx_helper_mask n) ret (nthN t k) (nthN t (k + Nat.pow 2 (N.to_nat ind - 6)))
                else ret)); [reflexivity|].
  intros ret k.
  unfold gx_helper_high_step, gx_helper_high_guard, gx_helper_high_c0, gx_helper_high_c1.
  rewrite <- Nat2N.inj_add, !Nat2N.id. reflexivity.
Qed.

(* ------------------------------------------------------------------ NOT tied (see also the trailer of Gen/Exprs3.v)
   - loop heads other than `0..table.len()` and `COUNT_MASKS.iter().enumerate()`: `for t in table`,
     `table.iter_mut().enumerate()`, `table.iter().rev()`, `table.iter_mut().rev().enumerate()` are the model's map / mapM /
     mapi / fold_left over the list (and [rev]); not translated.
   - to_hex / to_bin: only the width expressions; the format strings `{:0width$x}` / `{:0width$b}` are [pad_radix 16] /
     [pad_radix 2] of the model (hand-written, property C08).
   - fill_hex: `s.bytes().all(|b| b.is_ascii_hexdigit())` ([forallb is_hex_digit]), `u64::from_str_radix(ss, 16)` and the
     `match` on its result ([parse_hex], [all_some]), the `.rev()` of the chunks ([rev ws]) and the returned `Err(())` /
     `Ok(())` are hand-written in tie_fill_hex; generated: the width, the length test, the overflow test, the stored
     value, the bounds of the sub-slice (tie_fill_hex_chunk relates them to [chunks]).
   - cmp, fill_random, fmt_hex, fmt_bin, top_decomposition, DecompositionType::is_*: not translated.
   - the in-word regime of from_cofactors_inplace is a [mapM] in the model: the written index `table[i]` is tied by
     tie_from_cof_low_dst only (identity).
   - overflow of the index arithmetic (`i + stride`, `k - mj + mi`, `(i + 1) * width`, `num_vars + 1`): plain N arithmetic
     in the generated expressions, no check in the model.
   - debug_assert! / assert! lines: Gen/Guards.v. *)

