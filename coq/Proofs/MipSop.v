(* C18, SOP: the 0-1 programme built by optimize_sop_mip (Model/Mip.v, xor_cost = -1) is adequate:
   every feasible point decodes to a valid multi-output SOP cover whose cost is at most the objective,
   every valid cover is encoded by a feasible point whose objective is its cost, hence with an optimal solver the
   returned cover is valid and of minimum cost. *)
From Coq Require Import List NArith ZArith QArith Arith Bool Lia Lqa Permutation Sorting.
From V Require Import Base.Res Model.Kernels Model.TwoLevel Model.Api Model.Mip Base.Bits Spec.Bfun Spec.TwoLevelCost.
From V Require Import Proofs.Wf Proofs.Tabulate Proofs.Order Proofs.Constructors Proofs.MipBase Proofs.MipCore.
From V Require Proofs.CubeProofs Proofs.SopProofs.
Import ListNotations.
Open Scope nat_scope.

(* ------------------------------------------------------------------ A. candidates *)
Lemma cube_good_iff n c :
  cube_good n c = true <->
  (cpos c < 2 ^ N.of_nat n /\ cneg c < 2 ^ N.of_nat n /\ N.land (cpos c) (cneg c) = 0)%N.
Proof. unfold cube_good. rewrite !andb_true_iff, !N.ltb_lt, N.eqb_eq. tauto. Qed.

Lemma cube_all_inv v l : cube_all v = Ok l -> (v <= 31)%N.
Proof.
  unfold cube_all, bit32. intros H. apply bind_ok in H. destruct H as [mx [H _]].
  apply bind_ok in H. destruct H as [u [H _]]. destruct u. apply dbg_ok in H. apply N.ltb_lt in H. lia.
Qed.

Lemma cube_all_good n l : cube_all (N.of_nat n) = Ok l -> NoDup l /\ forall c, In c l <-> cube_good n c = true.
Proof.
  intros H. destruct (CubeProofs.all_complete (N.of_nat n) (cube_all_inv _ _ H)) as [l' [E [Hn Hc]]].
  rewrite H in E. inversion E; subst l'. split; [exact Hn|]. intros c. rewrite Hc, cube_good_iff. reflexivity.
Qed.

Lemma cube_all_ok n : n <= 31 -> exists l, cube_all (N.of_nat n) = Ok l.
Proof. intros H. destruct (CubeProofs.all_complete (N.of_nat n) ltac:(lia)) as [l [E _]]. eauto. Qed.

Lemma concatM_map_ok {A B} (f : A -> res (list B)) (g : A -> list B) l :
  (forall a, In a l -> f a = Ok (g a)) -> concatM (map f l) = Ok (flat_map g l).
Proof.
  induction l as [|a l IH]; intros H; cbn [map concatM flat_map]; [reflexivity|].
  rewrite (H a) by (left; reflexivity). cbn [bind].
  rewrite IH by (intros b Hb; apply H; right; exact Hb). reflexivity.
Qed.

Lemma concatM_map_inv {A B} (f : A -> res (list B)) l : forall r, concatM (map f l) = Ok r ->
  forall c, In c r <-> exists a ra, In a l /\ f a = Ok ra /\ In c ra.
Proof.
  induction l as [|a l IH]; intros r H c; cbn [map concatM] in H.
  - inversion H. split; [intros []|]. intros [a [ra [[] _]]].
  - apply bind_ok in H. destruct H as [ra [Ha H]]. apply bind_ok in H. destruct H as [rb [Hb H]].
    inversion H; subst r. rewrite in_app_iff, (IH rb Hb c). split.
    + intros [Hc|[a' [ra' [H1 [H2 H3]]]]].
      * exists a, ra. split; [left; reflexivity|auto].
      * exists a', ra'. split; [right; exact H1|auto].
    + intros [a' [ra' [[<-|H1] [H2 H3]]]].
      * left. rewrite Ha in H2. inversion H2; subst. exact H3.
      * right. exists a', ra'. auto.
Qed.

Lemma candidates_char n fs cubes : Forall (fun f => nv f = n) fs ->
  enumerate_valid_cubes_multi fs = Ok cubes ->
  NoDup cubes /\
  forall c, In c cubes <->
            (cube_good n c = true /\ exists f, In f fs /\ cube_implies_lut c n (tbl f) = true).
Proof.
  intros Hn H. unfold enumerate_valid_cubes_multi in H. apply bind_ok in H. destruct H as [cs [Hcs H]].
  inversion H; subst cubes. clear H. split.
  - apply SopProofs.ltR_sorted_NoDup. apply SopProofs.cube_dedup_sorted. apply SopProofs.cube_sort_sorted.
  - intros c. rewrite SopProofs.In_cube_dedup, SopProofs.In_cube_sort.
    rewrite (concatM_map_inv enumerate_valid_cubes fs cs Hcs c). rewrite Forall_forall in Hn. split.
    + intros [f [rf [Hf [He Hc]]]]. unfold enumerate_valid_cubes in He.
      apply bind_ok in He. destruct He as [all [Hall He]]. inversion He; subst rf.
      apply filter_In in Hc. destruct Hc as [Hc Hi]. rewrite (Hn f Hf) in *.
      split; [apply (proj2 (cube_all_good n all Hall)); exact Hc|]. exists f. auto.
    + intros [Hg [f [Hf Hi]]].
      destruct (In_nth_error fs f Hf) as [j Hj].
      assert (Hex : exists rf, enumerate_valid_cubes f = Ok rf).
      { clear -Hcs Hf. revert cs Hcs. induction fs as [|a l IH]; intros cs Hcs; [contradiction|].
        cbn [map concatM] in Hcs. apply bind_ok in Hcs. destruct Hcs as [ra [Ha Hcs]].
        apply bind_ok in Hcs. destruct Hcs as [rb [Hb _]]. destruct Hf as [->|Hf]; [eauto|].
        eapply IH; eassumption. }
      destruct Hex as [rf He]. exists f, rf. split; [exact Hf|]. split; [exact He|].
      unfold enumerate_valid_cubes in He. apply bind_ok in He. destruct He as [all [Hall He]].
      inversion He; subst rf. rewrite (Hn f Hf) in *. apply filter_In. split; [|exact Hi].
      apply (proj2 (cube_all_good n all Hall)). exact Hg.
Qed.

Lemma candidates_ok n fs : n <= 31 -> Forall (fun f => nv f = n) fs ->
  exists cubes, enumerate_valid_cubes_multi fs = Ok cubes.
Proof.
  intros Hn Hf. destruct (cube_all_ok n Hn) as [all Hall]. rewrite Forall_forall in Hf.
  unfold enumerate_valid_cubes_multi.
  rewrite (concatM_map_ok enumerate_valid_cubes (fun f => filter (fun c => cube_implies_lut c (nv f) (tbl f)) all)).
  - cbn [bind]. eauto.
  - intros f Hin. unfold enumerate_valid_cubes. rewrite (Hf f Hin), Hall. reflexivity.
Qed.

(* ------------------------------------------------------------------ B. objective, checks, the programme *)
Lemma gates_bound n c : cube_good n c = true -> (Z.of_N (cube_num_gates c) <= 2 * Z.of_nat n)%Z.
Proof.
  intros H. apply cube_good_iff in H. destruct H as [Hp [Hq _]].
  pose proof (popcount_bound _ _ Hp) as B1. pose proof (popcount_bound _ _ Hq) as B2.
  unfold cube_num_gates, cube_num_lits. destruct (cube_is_zero c); lia.
Qed.

Lemma mul_i32_ok a b : (0 <= a)%Z -> (0 <= b)%Z -> (a * b <= i32_max)%Z -> mul_i32 a b = Ok (a * b)%Z.
Proof.
  intros Ha Hb H. unfold mul_i32.
  assert (E : Z.leb (Z.abs (a * b)) i32_max = true) by (apply Z.leb_le; nia).
  rewrite E. reflexivity.
Qed.

Lemma v_cuf_eq fs cubes i j : v_cuf fs cubes [] i j = cuf cubes (length fs) i j.
Proof. unfold v_cuf, cuf. cbn [length]. lia. Qed.
Lemma v_or_eq fs cubes j : v_or fs cubes [] j = orv cubes (length fs) j.
Proof. unfold v_or, orv. cbn [length]. lia. Qed.

Lemma objective_ok fs ac oc cubes n :
  (forall c, In c cubes -> cube_good n c = true) -> (0 <= ac)%Z -> (2 * Z.of_nat n * ac <= i32_max)%Z ->
  sop_objective fs ac (-1) oc cubes [] = Ok (k_obj cubes (length fs) ac oc).
Proof.
  intros Hg Hac Hb. unfold sop_objective.
  rewrite (mapM_ok_map _ (fun i => (Z2 (gz cubes i * ac), i))).
  - cbn [bind length seq mapM app]. unfold k_obj. f_equal. f_equal. f_equal.
    apply map_ext. intros j. rewrite v_or_eq. reflexivity.
  - intros i Hi. apply in_seq in Hi. fold (cb cubes i). fold (gz cubes i).
    pose proof (gates_bound n (cb cubes i) (Hg _ (cb_In cubes i ltac:(lia)))) as B. fold (gz cubes i) in B.
    pose proof (gz_nonneg cubes i) as B0.
    rewrite mul_i32_ok; [reflexivity|assumption|assumption|nia].
Qed.

Lemma same_vars_ok n fs : Forall (fun f => nv f = n) fs -> same_vars fs = true.
Proof.
  intros H. destruct fs as [|f0 r]; [reflexivity|]. unfold same_vars. apply forallb_forall.
  rewrite Forall_forall in H. intros f Hf. apply Nat.eqb_eq. rewrite (H f Hf), (H f0 (or_introl eq_refl)). reflexivity.
Qed.

Lemma same_vars_inv fs : same_vars fs = true -> Forall (fun f => nv f = esop_num_vars fs) fs.
Proof.
  destruct fs as [|f0 r]; [constructor|]. unfold same_vars, esop_num_vars. intros H.
  rewrite forallb_forall in H. apply Forall_forall. intros f Hf. apply Nat.eqb_eq. apply H. exact Hf.
Qed.

Definition sop_prog (fs : list lut) (ac oc : Z) (cubes : list cube) : program :=
  mkProgram (sop_kinds fs cubes []) (sop_constraints fs cubes []) (k_obj cubes (length fs) ac oc).

(* the hypotheses on the instance *)
Definition sop_instance (n : nat) (fs : list lut) (ac oc : Z) : Prop :=
  n <= 31 /\ Forall (fun f => nv f = n) fs /\ (1 <= ac)%Z /\ (1 <= oc)%Z /\ (2 * Z.of_nat n * ac <= i32_max)%Z.

Definition is_candidates (n : nat) (fs : list lut) (cubes : list cube) : Prop :=
  NoDup cubes /\
  forall c, In c cubes <-> (cube_good n c = true /\ exists f, In f fs /\ cube_implies_lut c n (tbl f) = true).

Theorem sop_program_ok n fs ac oc : sop_instance n fs ac oc ->
  exists cubes, sop_program fs ac (-1) oc = Ok (sop_prog fs ac oc cubes, cubes, []) /\ is_candidates n fs cubes.
Proof.
  intros [Hn [Hf [Hac [Hoc Hb]]]]. destruct (candidates_ok n fs Hn Hf) as [cubes Hc].
  pose proof (candidates_char n fs cubes Hf Hc) as Hchar. exists cubes. split; [|exact Hchar].
  unfold sop_program, sop_candidates. rewrite Hc. cbn [bind].
  change (Z.leb 0 (-1)) with false. cbn [bind]. unfold sop_check.
  rewrite (same_vars_ok n fs Hf). cbn [always bind].
  rewrite (proj2 (Z.leb_le 1 ac) Hac), (proj2 (Z.leb_le 1 oc) Hoc). cbn [always bind].
  change (Z.eqb (-1) (-1)) with true. cbn [orb always bind].
  rewrite (objective_ok fs ac oc cubes n); [reflexivity| |lia|exact Hb].
  intros c Hin. apply (proj1 (proj2 Hchar c) Hin).
Qed.

Lemma sop_program_inv fs ac oc p cubes ecs : sop_program fs ac (-1) oc = Ok (p, cubes, ecs) ->
  ecs = [] /\ enumerate_valid_cubes_multi fs = Ok cubes /\ same_vars fs = true /\
  pkinds p = sop_kinds fs cubes [] /\ pconstrs p = sop_constraints fs cubes [].
Proof.
  unfold sop_program, sop_candidates. intros H. apply bind_ok in H. destruct H as [[cs es] [H1 H2]].
  apply bind_ok in H1. destruct H1 as [cs' [Hc H1]]. change (Z.leb 0 (-1)) with false in H1. cbn [bind] in H1.
  inversion H1; subst cs' es. clear H1.
  apply bind_ok in H2. destruct H2 as [u [Hk H2]]. apply bind_ok in H2. destruct H2 as [obj [Ho H2]].
  inversion H2; subst p cubes ecs. clear H2.
  unfold sop_check in Hk. apply bind_ok in Hk. destruct Hk as [u1 [Hs _]]. destruct u1. apply always_ok in Hs.
  repeat split; assumption || reflexivity.
Qed.

(* ------------------------------------------------------------------ C. the programme, constraint family by constraint family *)
Section SopBridge.
  Variable fs : list lut.
  Variable cubes : list cube.
  Let nf := length fs.
  Let nc := length cubes.

  Lemma c_num_or_eq j : c_num_or fs cubes [] j = k_num cubes nf j.
  Proof.
    unfold c_num_or, k_num. cbn [length seq map]. rewrite app_nil_r, v_or_eq. f_equal. f_equal. f_equal.
    apply map_ext. intros i. rewrite v_cuf_eq. reflexivity.
  Qed.

  Lemma c_cover_eq j : c_cover fs cubes [] j = k_cover cubes nf j.
  Proof.
    unfold c_cover, k_cover. cbn [length seq map]. rewrite app_nil_r. apply map_ext. intros i.
    rewrite v_cuf_eq. reflexivity.
  Qed.

  Lemma kinds_sound x :
    (forall i k, nth_error (sop_kinds fs cubes []) i = Some k -> kind_ok k (x i)) ->
    (forall v, v < nc + nc * nf -> (x v == 0 \/ x v == 1)%Q) /\ (forall j, j < nf -> (0 <= x (orv cubes nf j))%Q).
  Proof.
    intros H. unfold sop_kinds in H. cbn [length] in H.
    replace (length cubes + 0 + length cubes * length fs + 0 * length fs) with (nc + nc * nf) in H by (unfold nc, nf; lia).
    split.
    - intros v Hv. apply (H v VBinary). rewrite nth_error_app1 by (rewrite repeat_length; exact Hv).
      apply nth_error_repeat. exact Hv.
    - intros j Hj. apply (H (orv cubes nf j) VNonNeg). unfold orv. fold nc.
      rewrite nth_error_app2 by (rewrite repeat_length; lia). rewrite repeat_length.
      apply nth_error_repeat. lia.
  Qed.

  Lemma kinds_enc x :
    (forall v, v < nc + nc * nf -> (x v == 0 \/ x v == 1)%Q) ->
    (forall v, nc + nc * nf <= v -> v < nc + nc * nf + nf -> (0 <= x v)%Q) ->
    forall i k, nth_error (sop_kinds fs cubes []) i = Some k -> kind_ok k (x i).
  Proof.
    intros Hb Hn i k H. unfold sop_kinds in H. cbn [length] in H.
    replace (length cubes + 0 + length cubes * length fs + 0 * length fs) with (nc + nc * nf) in H by (unfold nc, nf; lia).
    apply nth_error_app_inv in H. rewrite repeat_length in H. destruct H as [[L H]|[L H]].
    - apply nth_error_repeat_inv in H. destruct H as [-> _]. apply Hb. exact L.
    - apply nth_error_repeat_inv in H. destruct H as [-> L']. apply Hn; [exact L|]. fold nf in L'. lia.
  Qed.

  Lemma constraints_split x :
    Forall (constr_ok x) (sop_constraints fs cubes []) <->
    (forall j, j < nf -> constr_ok x (k_num cubes nf j)) /\
    (forall j, j < nf -> Forall (constr_ok x) (k_cover cubes nf j)) /\
    (forall j f, nth_error fs j = Some f -> Forall (constr_ok x) (c_off fs cubes [] j f)) /\
    (forall j f, nth_error fs j = Some f -> Forall (constr_ok x) (c_on fs cubes [] j f)).
  Proof.
    unfold sop_constraints. rewrite !Forall_app, Forall_map, !Forall_flat_map, !Forall_forall. fold nf.
    split.
    - intros [H1 [H2 [H3 H4]]]. split; [|split; [|split]].
      + intros j Hj. rewrite <- c_num_or_eq. apply H1. apply in_seq. lia.
      + intros j Hj. rewrite <- c_cover_eq. apply H2. apply in_seq. lia.
      + intros j f Hf. apply (H3 (j, f)). apply In_indexed. exact Hf.
      + intros j f Hf. apply (H4 (j, f)). apply In_indexed. exact Hf.
    - intros [H1 [H2 [H3 H4]]]. split; [|split; [|split]].
      + intros j Hj. apply in_seq in Hj. rewrite c_num_or_eq. apply H1. lia.
      + intros j Hj. apply in_seq in Hj. rewrite c_cover_eq. apply H2. lia.
      + intros [j f] Hin. apply In_indexed in Hin. apply H3. exact Hin.
      + intros [j f] Hin. apply In_indexed in Hin. apply H4. exact Hin.
  Qed.

  Lemma c_off_eq j f :
    c_off fs cubes [] j f =
    map (fun i => mkConstr (mkLin [(Z2 1, cuf cubes nf i j)] 0) RLe)
        (filter (fun i => negb (cube_implies_lut (cb cubes i) (nv f) (tbl f))) (seq 0 nc)).
  Proof.
    unfold c_off. cbn [length seq flat_map]. rewrite app_nil_r.
    rewrite <- (flat_map_if (fun i => negb (cube_implies_lut (cb cubes i) (nv f) (tbl f)))).
    apply flat_map_ext. intros i. fold (cb cubes i). rewrite v_cuf_eq.
    destruct (cube_implies_lut (cb cubes i) (nv f) (tbl f)); reflexivity.
  Qed.

  Definition on_lin (j : nat) (b : nat) : lin :=
    mkLin (map (fun i => (Z2 (-1), cuf cubes nf i j))
               (filter (fun i => cube_value (cb cubes i) (N.of_nat b)) (seq 0 nc))) (Z2 1).

  Lemma c_on_eq j f :
    c_on fs cubes [] j f =
    map (fun b => mkConstr (on_lin j b) RLe) (filter (fun b => tget (tbl f) (N.of_nat b)) (seq 0 (num_bits_nat f))).
  Proof.
    unfold c_on. rewrite <- (flat_map_if (fun b => tget (tbl f) (N.of_nat b))).
    apply flat_map_ext. intros b. cbv zeta. destruct (tget (tbl f) (N.of_nat b)); [|reflexivity].
    unfold on_lin. cbn [length seq flat_map]. rewrite app_nil_r.
    rewrite <- (flat_map_if (fun i => cube_value (cb cubes i) (N.of_nat b))).
    f_equal. f_equal. f_equal. apply flat_map_ext. intros i. fold (cb cubes i). rewrite v_cuf_eq. reflexivity.
  Qed.

  Lemma num_bits_In f b : In b (seq 0 (num_bits_nat f)) <-> (N.of_nat b < 2 ^ N.of_nat (nv f))%N.
  Proof.
    rewrite in_seq. unfold num_bits_nat. rewrite <- pow2_nat_N. lia.
  Qed.

  (* ---- any feasible point *)
  Section Sound.
    Variable x : nat -> Q.
    Hypothesis Hbin : forall v, v < nc + nc * nf -> (x v == 0 \/ x v == 1)%Q.

    Lemma c_off_sound j f : j < nf -> Forall (constr_ok x) (c_off fs cubes [] j f) ->
      forall i, i < nc -> cube_implies_lut (cb cubes i) (nv f) (tbl f) = false -> used x (cuf cubes nf i j) = false.
    Proof.
      intros Hj H i Hi Himp. rewrite c_off_eq, Forall_map, Forall_forall in H.
      specialize (H i). rewrite filter_In, in_seq, Himp in H. specialize (H ltac:(split; [lia|reflexivity])).
      unfold constr_ok in H. cbn [crel cexpr] in H.
      rewrite (bin_eval cubes nf x Hbin) in H.
      2:{ intros cv [<-|[]]. cbn [snd]. apply cuf_lt; assumption. }
      change 0%Q with (inject_Z 0) in H. rewrite <- Zle_Qle in H.
      unfold evalZ in H. cbn [lcoef lconst fold_right fst snd] in H.
      destruct (used x (cuf cubes nf i j)); [|reflexivity]. exfalso. revert H. unfold Z2. cbn [b2z]. lia.
    Qed.

    Lemma c_on_sound j f : j < nf -> Forall (constr_ok x) (c_on fs cubes [] j f) ->
      forall b, (N.of_nat b < 2 ^ N.of_nat (nv f))%N -> tget (tbl f) (N.of_nat b) = true ->
      exists i, i < nc /\ cube_value (cb cubes i) (N.of_nat b) = true /\ used x (cuf cubes nf i j) = true.
    Proof.
      intros Hj H b Hb Ht. rewrite c_on_eq, Forall_map, Forall_forall in H.
      specialize (H b). rewrite filter_In, num_bits_In in H. specialize (H (conj Hb Ht)).
      unfold constr_ok, on_lin in H. cbn [crel cexpr] in H.
      rewrite (bin_eval cubes nf x Hbin) in H.
      2:{ intros cv Hcv. apply in_map_iff in Hcv. destruct Hcv as [i [<- Hi]]. apply filter_In in Hi.
          destruct Hi as [Hi _]. apply in_seq in Hi. cbn [snd]. apply cuf_lt; [lia|exact Hj]. }
      change 0%Q with (inject_Z 0) in H. rewrite <- Zle_Qle in H.
      rewrite (evalZ_map _ (fun _ => Z2 (-1)) (fun i => cuf cubes nf i j)) in H.
      rewrite (zsum_count (fun i => used x (cuf cubes nf i j))) in H.
      set (l := filter _ (filter _ _)) in H.
      destruct l as [|i l'] eqn:El; [exfalso; revert H; unfold Z2; cbn [length]; lia|].
      assert (Hi : In i l) by (rewrite El; left; reflexivity).
      unfold l in Hi. apply filter_In in Hi. destruct Hi as [Hi U]. apply filter_In in Hi. destruct Hi as [Hi V].
      apply in_seq in Hi. exists i. split; [lia|auto].
    Qed.
  End Sound.

  (* ---- an integral point whose per-function usage variables are given by a boolean table *)
  Section Enc.
    Variable z : nat -> Z.
    Variable U : nat -> nat -> bool.
    Hypothesis HU : forall i j, i < nc -> j < nf -> z (cuf cubes nf i j) = b2z (U i j).
    Let x (v : nat) : Q := inject_Z (z v).

    Lemma x_eval l : (eval2 x l == inject_Z (evalZ z l))%Q.
    Proof. destruct l as [cs k]. apply eval2_int. intros cv _. reflexivity. Qed.

    Lemma c_off_enc j f : j < nf ->
      (forall i, i < nc -> U i j = true -> cube_implies_lut (cb cubes i) (nv f) (tbl f) = true) ->
      Forall (constr_ok x) (c_off fs cubes [] j f).
    Proof.
      intros Hj H. rewrite c_off_eq, Forall_map, Forall_forall. intros i Hi.
      apply filter_In in Hi. destruct Hi as [Hi Hn]. apply in_seq in Hi.
      unfold constr_ok. cbn [crel cexpr]. rewrite x_eval. change 0%Q with (inject_Z 0). rewrite <- Zle_Qle.
      unfold evalZ. cbn [lcoef lconst fold_right fst snd]. rewrite HU by (lia || assumption).
      destruct (U i j) eqn:E; [|unfold Z2; cbn [b2z]; lia].
      rewrite (H i ltac:(lia) E) in Hn. discriminate.
    Qed.

    Lemma c_on_enc j f : j < nf ->
      (forall b, (N.of_nat b < 2 ^ N.of_nat (nv f))%N -> tget (tbl f) (N.of_nat b) = true ->
         exists i, i < nc /\ cube_value (cb cubes i) (N.of_nat b) = true /\ U i j = true) ->
      Forall (constr_ok x) (c_on fs cubes [] j f).
    Proof.
      intros Hj H. rewrite c_on_eq, Forall_map, Forall_forall. intros b Hb.
      apply filter_In in Hb. destruct Hb as [Hb Ht]. apply num_bits_In in Hb.
      destruct (H b Hb Ht) as [i [Hi [V Ui]]].
      unfold constr_ok, on_lin. cbn [crel cexpr]. rewrite x_eval. change 0%Q with (inject_Z 0). rewrite <- Zle_Qle.
      rewrite (evalZ_map _ (fun _ => Z2 (-1)) (fun i => cuf cubes nf i j)).
      set (l := filter _ _).
      assert (Hin : In i l) by (unfold l; apply filter_In; split; [apply in_seq; lia|exact V]).
      pose proof (zsum_le_one (fun i => (Z2 (-1) * z (cuf cubes nf i j))%Z) l i) as B.
      cbv beta in B. rewrite (HU i j Hi Hj), Ui in B.
      assert (B' := B ltac:(intros a Ha; unfold l in Ha; apply filter_In in Ha; destruct Ha as [Ha _];
                            apply in_seq in Ha; rewrite HU by (lia || assumption);
                            destruct (U a j); unfold Z2; cbn [b2z]; lia) Hin).
      revert B'. unfold Z2. cbn [b2z]. lia.
    Qed.
  End Enc.
End SopBridge.

(* ------------------------------------------------------------------ D. decoding a feasible point *)
Definition sop_decoded (fs : list lut) (cubes : list cube) (x : nat -> Q) : list (list cube) :=
  map (fun j => fst (sop_decode_fn fs cubes [] x j)) (seq 0 (length fs)).

Lemma sop_decode_dec fs cubes x j : fst (sop_decode_fn fs cubes [] x j) = dec cubes (length fs) x j.
Proof.
  unfold sop_decode_fn, dec. cbn [fst]. f_equal. apply filter_ext. intros i. rewrite v_cuf_eq. reflexivity.
Qed.

Lemma sop_decode_snd fs cubes x j : snd (sop_decode_fn fs cubes [] x j) = [].
Proof. reflexivity. Qed.

Lemma sop_decoded_eq fs cubes x : sop_decoded fs cubes x = map (dec cubes (length fs) x) (seq 0 (length fs)).
Proof. unfold sop_decoded. apply map_ext. intros j. apply sop_decode_dec. Qed.

Lemma nth_error_lt {A} (l : list A) j a : nth_error l j = Some a -> j < length l.
Proof. intros H. apply nth_error_Some. rewrite H. discriminate. Qed.

Theorem sop_decode_sound n fs ac oc cubes x :
  Forall (fun f => nv f = n) fs -> is_candidates n fs cubes -> (0 <= ac)%Z -> (0 <= oc)%Z ->
  feasible (sop_prog fs ac oc cubes) x ->
  sop_solution_ok n (map tbl fs) (sop_decoded fs cubes x) = true /\
  (inject_Z (2 * sop_cost ac oc (sop_decoded fs cubes x)) <= eval2 x (pobj (sop_prog fs ac oc cubes)))%Q.
Proof.
  intros Hn [Hnd Hcand] Hac Hoc [Hk Hc]. cbn [sop_prog pkinds pconstrs pobj] in *.
  apply kinds_sound in Hk. destruct Hk as [Hbin Hor].
  apply constraints_split in Hc. destruct Hc as [Hnum [Hcov [Hoff Hon]]].
  rewrite Forall_forall in Hn. rewrite sop_decoded_eq. split.
  - rewrite sop_solution_ok_gen. apply gen_solution_ok_iff. split; [rewrite map_length, seq_length; reflexivity|].
    intros j f C Hf HC. pose proof (nth_error_lt _ _ _ Hf) as Hj.
    rewrite nth_error_map_seq in HC by exact Hj. inversion HC; subst C. clear HC.
    pose proof (Hn f (nth_error_In _ _ Hf)) as Hnf.
    split; [|split].
    + intros c Hin. apply dec_incl in Hin. apply Hcand in Hin. tauto.
    + apply dec_NoDup. exact Hnd.
    + intros m Hm. apply CubeProofs.bool_eq_iff. unfold sem_or. rewrite existsb_exists. split.
      * intros [c [Hin V]]. apply In_dec in Hin. destruct Hin as [i [Hi [E U]]]. subst c.
        destruct (cube_implies_lut (cb cubes i) (nv f) (tbl f)) eqn:Himp.
        -- rewrite Hnf in Himp. exact (proj1 (CubeProofs.implies_lut_sem _ _ _) Himp m Hm V).
        -- rewrite (c_off_sound fs cubes x Hbin j f Hj (Hoff j f Hf) i Hi Himp) in U. discriminate.
      * intros Hv. rewrite <- tget_val in Hv. rewrite <- (N2Nat.id m) in Hv, Hm.
        rewrite <- Hnf in Hm.
        destruct (c_on_sound fs cubes x Hbin j f Hj (Hon j f Hf) (N.to_nat m) Hm Hv) as [i [Hi [V U]]].
        rewrite N2Nat.id in V. exists (cb cubes i). split; [|exact V].
        apply In_dec. exists i. auto.
  - apply obj_sound; assumption.
Qed.

(* ------------------------------------------------------------------ E. encoding a valid solution *)
Lemma valid_cubes_candidates n fs cubes sol : Forall (fun f => nv f = n) fs -> is_candidates n fs cubes ->
  sop_solution_ok n (map tbl fs) sol = true ->
  length sol = length fs /\
  forall j, j < length fs -> NoDup (nth j sol []) /\ incl (nth j sol []) cubes.
Proof.
  intros Hn [Hnd Hcand] Hok. rewrite sop_solution_ok_gen in Hok. apply gen_solution_ok_iff in Hok.
  destruct Hok as [Hl H]. split; [exact Hl|]. intros j Hj.
  destruct (nth_error fs j) as [f|] eqn:Hf; [|apply nth_error_None in Hf; lia].
  assert (HC : nth_error sol j = Some (nth j sol [])) by (apply nth_error_nth'; lia).
  destruct (H j f _ Hf HC) as [Hg [Hd Hs]]. split; [exact Hd|].
  intros c Hin. apply Hcand. split; [apply Hg; exact Hin|]. exists f. split; [apply (nth_error_In _ _ Hf)|].
  apply CubeProofs.implies_lut_sem. intros m Hm V. rewrite <- (Hs m Hm). unfold sem_or.
  apply existsb_exists. exists c. auto.
Qed.

Theorem sop_encode_complete n fs ac oc cubes sol :
  Forall (fun f => nv f = n) fs -> is_candidates n fs cubes ->
  sop_solution_ok n (map tbl fs) sol = true ->
  exists x, feasible (sop_prog fs ac oc cubes) x /\
            (eval2 x (pobj (sop_prog fs ac oc cubes)) == inject_Z (2 * sop_cost ac oc sol))%Q /\
            forall j, j < length fs -> Permutation (dec cubes (length fs) x j) (nth j sol []).
Proof.
  intros Hn Hcand Hok. destruct (valid_cubes_candidates n fs cubes sol Hn Hcand Hok) as [Hl Hsol].
  destruct Hcand as [Hnd Hcand].
  rewrite sop_solution_ok_gen in Hok. apply gen_solution_ok_iff in Hok. destruct Hok as [_ Hok].
  rewrite Forall_forall in Hn.
  set (nf := length fs) in *. set (rest := fun _ : nat => 0%Z).
  exists (xq cubes nf sol rest). split; [|split].
  - split; cbn [sop_prog pkinds pconstrs].
    + apply kinds_enc.
      * intros v Hv. apply (xq_binary cubes nf sol rest Hl). exact Hv.
      * intros v H1 H2. apply (xq_nonneg cubes nf sol rest Hl); assumption.
    + apply constraints_split. split; [|split; [|split]].
      * intros j Hj. apply k_num_enc; assumption.
      * intros j Hj. apply k_cover_enc; assumption.
      * intros j f Hf. pose proof (nth_error_lt _ _ _ Hf) as Hj.
        apply (c_off_enc fs cubes (xz cubes nf sol rest) (fun i j => existsb (cube_eqb (cb cubes i)) (nth j sol []))).
        -- intros i j' Hi Hj'. apply xz_cuf; assumption.
        -- exact Hj.
        -- intros i Hi U. apply mem_iff in U.
           assert (HC : nth_error sol j = Some (nth j sol [])) by (apply nth_error_nth'; fold nf in Hj; lia).
           destruct (Hok j f _ Hf HC) as [_ [_ Hs]].
           rewrite (Hn f (nth_error_In _ _ Hf)).
           apply CubeProofs.implies_lut_sem. intros m Hm V. rewrite <- (Hs m Hm). unfold sem_or.
           apply existsb_exists. exists (cb cubes i). auto.
      * intros j f Hf. pose proof (nth_error_lt _ _ _ Hf) as Hj.
        apply (c_on_enc fs cubes (xz cubes nf sol rest) (fun i j => existsb (cube_eqb (cb cubes i)) (nth j sol []))).
        -- intros i j' Hi Hj'. apply xz_cuf; assumption.
        -- exact Hj.
        -- intros b Hb Ht.
           assert (HC : nth_error sol j = Some (nth j sol [])) by (apply nth_error_nth'; fold nf in Hj; lia).
           destruct (Hok j f _ Hf HC) as [_ [_ Hs]].
           rewrite (Hn f (nth_error_In _ _ Hf)) in Hb. rewrite tget_val, <- (Hs _ Hb) in Ht.
           unfold sem_or in Ht. apply existsb_exists in Ht. destruct Ht as [c [Hin V]].
           destruct (In_cb cubes c (proj2 (Hsol j Hj) c Hin)) as [i [Hi E]]. exists i.
           split; [exact Hi|]. split; [rewrite E; exact V|]. apply mem_iff. rewrite E. exact Hin.
  - cbn [sop_prog pobj]. fold nf. rewrite (xq_eval cubes nf sol rest). rewrite (obj_enc cubes nf ac oc sol rest Hl Hsol Hnd).
    reflexivity.
  - intros j Hj. apply dec_xq_perm; assumption.
Qed.

(* ------------------------------------------------------------------ F. the run: what an Ok result is *)
Lemma mapM_inv_map {A B} (f : A -> res B) (g : A -> B) (P : A -> Prop) l :
  (forall a b, In a l -> f a = Ok b -> b = g a /\ P a) ->
  forall r, mapM f l = Ok r -> r = map g l /\ Forall P l.
Proof.
  induction l as [|a l IH]; intros H r Hr; cbn [mapM] in Hr.
  - inversion Hr. split; [reflexivity|constructor].
  - apply bind_ok in Hr. destruct Hr as [y [Hy Hr]]. apply bind_ok in Hr. destruct Hr as [r' [Hr' Hr]].
    inversion Hr; subst r. destruct (H a y (or_introl eq_refl) Hy) as [-> Pa].
    destruct (IH (fun a' b' Hin => H a' b' (or_intror Hin)) r' Hr') as [-> Pl].
    split; [reflexivity|constructor; assumption].
Qed.

Lemma map_fst_combine {A B} (l : list A) (r : list B) : length l = length r -> map fst (combine l r) = l.
Proof.
  revert r. induction l as [|a l IH]; intros [|b r] H; cbn in *; try discriminate; [reflexivity|].
  f_equal. apply IH. lia.
Qed.

Lemma nth_error_combine {A B} (l : list A) (r : list B) j a b :
  nth_error l j = Some a -> nth_error r j = Some b -> nth_error (combine l r) j = Some (a, b).
Proof.
  revert r j. induction l as [|x l IH]; intros [|y r] [|j] Ha Hb; cbn in *; try discriminate.
  - inversion Ha; inversion Hb; reflexivity.
  - apply IH; assumption.
Qed.

Lemma nth_error_indexed fs j f : nth_error fs j = Some f -> nth_error (indexed fs) j = Some (j, f).
Proof.
  intros H. unfold indexed. apply nth_error_combine; [|exact H].
  pose proof (nth_error_lt _ _ _ H) as L.
  rewrite (nth_error_nth' _ 0) by (rewrite seq_length; exact L). rewrite seq_nth by exact L. reflexivity.
Qed.

Lemma indexed_length fs : length (indexed fs) = length fs.
Proof. unfold indexed. rewrite combine_length, seq_length. lia. Qed.

Lemma map_fst_indexed fs : map fst (indexed fs) = seq 0 (length fs).
Proof. unfold indexed. apply map_fst_combine. apply seq_length. Qed.

Definition dpair (cubes : list cube) (nf : nat) (x : nat -> Q) (jf : nat * lut) : sop * soes :=
  (mkSop (nv (snd jf)) (dec cubes nf x (fst jf)), mkSoes (nv (snd jf)) []).

Definition sop_final_ok (so : sop * soes) (f : lut) : bool :=
  D_eq (mkLut (snv (fst so)) (lut_or_tables (sop_to_lut (fst so)) (soes_to_lut (snd so)))) f.

Lemma sop_run_inv solver fs ac oc r0 : sop_run solver fs ac (-1) oc = Ok r0 ->
  exists p cubes x, sop_program fs ac (-1) oc = Ok (p, cubes, []) /\ solver p = Some x /\
    r0 = map (dpair cubes (length fs) x) (indexed fs) /\
    forall j f, nth_error fs j = Some f -> sop_final_ok (dpair cubes (length fs) x (j, f)) f = true.
Proof.
  unfold sop_run. intros H. apply bind_ok in H. destruct H as [[[p cubes] ecs] [Hp H]].
  pose proof (sop_program_inv _ _ _ _ _ _ Hp) as Hinv. destruct Hinv as [-> _].
  destruct (solver p) as [x|] eqn:Hs; [|discriminate]. exists p, cubes, x. split; [exact Hp|]. split; [exact Hs|].
  apply bind_ok in H. destruct H as [ret [Hret H]].
  apply (mapM_inv_map _ (dpair cubes (length fs) x) (fun _ => True)) in Hret.
  2:{ intros [j f] b _ Hb. split; [|exact I].
      destruct (sop_decode_fn fs cubes [] x j) as [cs es] eqn:E.
      assert (Ecs : cs = dec cubes (length fs) x j) by (rewrite <- sop_decode_dec, E; reflexivity).
      assert (Ees : es = []) by (rewrite <- (sop_decode_snd fs cubes x j), E; reflexivity).
      subst cs es. unfold sop_from_cubes, soes_from_cubes in Hb.
      apply bind_ok in Hb. destruct Hb as [s [Hs' Hb]]. apply bind_ok in Hs'. destruct Hs' as [u [_ Hs']].
      inversion Hs'; subst s. apply bind_ok in Hb. destruct Hb as [o [Ho Hb]].
      apply bind_ok in Ho. destruct Ho as [u' [_ Ho]]. inversion Ho; subst o.
      apply bind_ok in Hb. destruct Hb as [u'' [_ Hb]]. inversion Hb. reflexivity. }
  destruct Hret as [-> _].
  apply (mapM_inv_map _ fst (fun rf : (sop * soes) * lut => sop_final_ok (fst rf) (snd rf) = true)) in H.
  2:{ intros [[s o] f] b _ Hb. apply bind_ok in Hb. destruct Hb as [u [Hd Hb]]. destruct u.
      apply always_ok in Hd. inversion Hb. split; [reflexivity|exact Hd]. }
  destruct H as [-> HF]. split.
  - apply map_fst_combine. rewrite map_length. apply indexed_length.
  - intros j f Hf. rewrite Forall_forall in HF.
    apply (HF (dpair cubes (length fs) x (j, f), f)).
    apply (combine_nth_In _ _ j); [|exact Hf]. rewrite nth_error_map, (nth_error_indexed fs j f Hf). reflexivity.
Qed.

Lemma optimize_sop_inv solver fs ac oc r : optimize_sop_mip solver fs ac oc = Ok r ->
  exists r0, sop_run solver fs ac (-1) oc = Ok r0 /\ r = map fst r0.
Proof.
  unfold optimize_sop_mip. intros H. apply bind_ok in H. destruct H as [r0 [H0 H]]. exists r0. split; [exact H0|].
  apply (mapM_inv_map _ fst (fun _ => True)) in H; [tauto|].
  intros so b _ Hb. apply bind_ok in Hb. destruct Hb as [u [_ Hb]]. inversion Hb. auto.
Qed.

(* tables: OR of the two tabulated forms *)
Lemma val_or_tables n (f g : N -> bool) m : (m < 2 ^ N.of_nat n)%N ->
  val (lut_or_tables (tabulate n f) (tabulate n g)) m = f m || g m.
Proof.
  intros Hm. destruct (tabulate_sem n f) as [W1 V1]. destruct (tabulate_sem n g) as [W2 V2].
  unfold lut_or_tables, val. rewrite nthN_map2; [|reflexivity|rewrite (wf_length n _ W1), (wf_length n _ W2); reflexivity].
  rewrite N.lor_spec. fold (val (tabulate n f) m). fold (val (tabulate n g) m). rewrite V1, V2 by exact Hm. reflexivity.
Qed.

Lemma wf_or_tables n (f g : N -> bool) : wf n (lut_or_tables (tabulate n f) (tabulate n g)).
Proof.
  destruct (tabulate_sem n f) as [W1 _]. destruct (tabulate_sem n g) as [W2 _].
  assert (Hl : length (tabulate n f) = length (tabulate n g)) by (rewrite (wf_length n _ W1), (wf_length n _ W2); reflexivity).
  split.
  - unfold lut_or_tables. rewrite map2_length by exact Hl. apply (wf_length n _ W1).
  - unfold lut_or_tables. apply Forall_map2; [exact Hl|]. intros a b Ha Hb.
    destruct W1 as [_ F1]. destruct W2 as [_ F2]. rewrite Forall_forall in F1, F2. apply lor_lt; auto.
Qed.

Lemma sop_value_sem_or n cs m : sop_value (mkSop n cs) m = sem_or cs m.
Proof. apply SopProofs.value_sem. Qed.

Lemma soes_value_nil n m : soes_value (mkSoes n []) m = false.
Proof. reflexivity. Qed.

Lemma final_ok_sem cubes nf x j f : sop_final_ok (dpair cubes nf x (j, f)) f = true ->
  forall m, (m < 2 ^ N.of_nat (nv f))%N -> sem_or (dec cubes nf x j) m = val (tbl f) m.
Proof.
  unfold sop_final_ok, dpair. cbn [fst snd snv]. intros H m Hm. apply D_eq_sem in H. cbn [nv tbl] in H.
  destruct H as [_ H]. rewrite <- H. unfold sop_to_lut, soes_to_lut. cbn [snv onv].
  rewrite val_or_tables by exact Hm. rewrite sop_value_sem_or, soes_value_nil, orb_false_r. reflexivity.
Qed.

Lemma final_ok_of_sem cubes nf x j f : wf (nv f) (tbl f) ->
  (forall m, (m < 2 ^ N.of_nat (nv f))%N -> sem_or (dec cubes nf x j) m = val (tbl f) m) ->
  sop_final_ok (dpair cubes nf x (j, f)) f = true.
Proof.
  intros W H. unfold sop_final_ok, dpair. cbn [fst snd snv]. apply D_eq_sem. cbn [nv tbl]. split; [reflexivity|].
  unfold sop_to_lut, soes_to_lut. cbn [snv onv].
  apply (proj2 (wf_ext (nv f) _ _ (wf_or_tables _ _ _) W)). intros m Hm.
  rewrite val_or_tables by exact Hm. rewrite sop_value_sem_or, soes_value_nil, orb_false_r. apply H. exact Hm.
Qed.

Lemma scubes_dpair cubes nf x fs :
  map scubes (map fst (map (dpair cubes nf x) (indexed fs))) = map (dec cubes nf x) (seq 0 (length fs)).
Proof.
  rewrite !map_map. rewrite <- map_fst_indexed, map_map. apply map_ext. intros [j f]. reflexivity.
Qed.

Theorem sop_valid solver fs ac oc r : optimize_sop_mip solver fs ac oc = Ok r ->
  forall n, Forall (fun f => nv f = n) fs ->
  sop_solution_ok n (map tbl fs) (map scubes r) = true /\ Forall2 (fun s f => snv s = nv f) r fs.
Proof.
  intros H n Hn. apply optimize_sop_inv in H. destruct H as [r0 [H ->]].
  apply sop_run_inv in H. destruct H as [p [cubes [x [Hp [_ [-> Hfin]]]]]].
  apply sop_program_inv in Hp. destruct Hp as [_ [Hc _]].
  destruct (candidates_char n fs cubes Hn Hc) as [Hnd Hcand]. rewrite Forall_forall in Hn. split.
  - rewrite scubes_dpair. rewrite sop_solution_ok_gen. apply gen_solution_ok_iff.
    split; [rewrite map_length, seq_length; reflexivity|].
    intros j f C Hf HC. pose proof (nth_error_lt _ _ _ Hf) as Hj.
    rewrite nth_error_map_seq in HC by exact Hj. inversion HC; subst C. clear HC.
    split; [|split].
    + intros c Hin. apply dec_incl in Hin. apply Hcand in Hin. tauto.
    + apply dec_NoDup. exact Hnd.
    + intros m Hm. apply (final_ok_sem _ _ _ _ _ (Hfin j f Hf)). rewrite (Hn f (nth_error_In _ _ Hf)). exact Hm.
  - rewrite map_map. unfold indexed.
    assert (G : forall s (l : list lut), Forall2 (fun s f => snv s = nv f)
                  (map (fun a => fst (dpair cubes (length fs) x a)) (combine (seq s (length l)) l)) l).
    { intros s l. revert s. induction l as [|f l IH]; intros s; cbn [length seq combine map]; constructor; [reflexivity|apply IH]. }
    apply G.
Qed.

(* ------------------------------------------------------------------ G. optimality *)
Lemma minterm_good n m : n <= 31 -> (m < 2 ^ N.of_nat n)%N ->
  cube_good n (cube_minterm (N.of_nat n) m) = true /\
  forall m', (m' < 2 ^ N.of_nat n)%N -> (cube_value (cube_minterm (N.of_nat n) m) m' = true <-> m' = m).
Proof.
  intros Hn Hm. destruct (CubeProofs.minterm_canon (N.of_nat n) m) as [_ [_ Hb]]. split.
  - apply cube_good_iff. split; [|split].
    + apply lt_pow2_of_bits. intros p Hp. apply (Hb p Hp).
    + apply lt_pow2_of_bits. intros p Hp. apply (Hb p Hp).
    + apply CubeProofs.land0_of_bits. intros v. rewrite CubeProofs.minterm_pos_spec, CubeProofs.minterm_neg_spec.
      destruct (N.testbit m v); [reflexivity|discriminate].
  - intros m' Hm'. rewrite (CubeProofs.minterm_sem (N.of_nat n) m m') by (lia || assumption).
    assert (P : (2 ^ N.of_nat n <= 2 ^ 32)%N) by (apply N.pow_le_mono_r; lia).
    rewrite (N.mod_small m (2 ^ 32)) by lia. rewrite N.mod_small by exact Hm. reflexivity.
Qed.

(* the cover by all implicants among the candidates is a valid solution: the feasible set is not empty *)
Definition all_implicants (n : nat) (fs : list lut) (cubes : list cube) : list (list cube) :=
  map (fun f => filter (fun c => cube_implies_lut c n (tbl f)) cubes) fs.

Lemma all_implicants_ok n fs cubes : n <= 31 -> is_candidates n fs cubes ->
  sop_solution_ok n (map tbl fs) (all_implicants n fs cubes) = true.
Proof.
  intros Hn [Hnd Hcand]. rewrite sop_solution_ok_gen. apply gen_solution_ok_iff. unfold all_implicants.
  split; [apply map_length|]. intros j f C Hf HC. rewrite nth_error_map, Hf in HC. cbn in HC. inversion HC; subst C.
  clear HC. split; [|split].
  - intros c Hin. apply filter_In in Hin. destruct Hin as [Hin _]. apply Hcand in Hin. tauto.
  - apply NoDup_filter. exact Hnd.
  - intros m Hm. apply CubeProofs.bool_eq_iff. unfold sem_or. rewrite existsb_exists. split.
    + intros [c [Hin V]]. apply filter_In in Hin. destruct Hin as [_ Hi].
      exact (proj1 (CubeProofs.implies_lut_sem _ _ _) Hi m Hm V).
    + intros Hv. destruct (minterm_good n m Hn Hm) as [Hg Hs]. exists (cube_minterm (N.of_nat n) m).
      assert (Hi : cube_implies_lut (cube_minterm (N.of_nat n) m) n (tbl f) = true).
      { apply CubeProofs.implies_lut_sem. intros m' Hm' V. apply (Hs m' Hm') in V. subst m'. exact Hv. }
      split; [|apply (Hs m Hm); reflexivity]. apply filter_In. split; [|exact Hi].
      apply Hcand. split; [exact Hg|]. exists f. split; [apply (nth_error_In _ _ Hf)|exact Hi].
Qed.

Lemma good_vars_below n c : cube_good n c = true -> cube_vars_below n c = true.
Proof.
  intros H. apply cube_good_iff in H. destruct H as [Hp [Hq _]]. unfold cube_vars_below, cube_pos_vars, cube_neg_vars.
  rewrite andb_true_iff, !forallb_forall. split; intros v Hv; apply CubeProofs.In_bits_of in Hv; destruct Hv as [_ Hv];
    apply N.ltb_lt; destruct (N.lt_ge_cases v (N.of_nat n)) as [L|L]; try exact L.
  - rewrite (testbit_lt_pow2 _ _ _ Hp L) in Hv. discriminate.
  - rewrite (testbit_lt_pow2 _ _ _ Hq L) in Hv. discriminate.
Qed.

Lemma sop_run_ok solver fs ac oc p cubes x :
  sop_program fs ac (-1) oc = Ok (p, cubes, []) -> solver p = Some x ->
  (forall j f, nth_error fs j = Some f ->
     forallb (cube_vars_below (nv f)) (dec cubes (length fs) x j) = true /\
     sop_final_ok (dpair cubes (length fs) x (j, f)) f = true) ->
  optimize_sop_mip solver fs ac oc = Ok (map fst (map (dpair cubes (length fs) x) (indexed fs))).
Proof.
  intros Hp Hs H. unfold optimize_sop_mip, sop_run. rewrite Hp. cbn [bind]. rewrite Hs.
  rewrite (mapM_ok_map _ (dpair cubes (length fs) x)).
  2:{ intros [j f] Hin. apply In_indexed in Hin. destruct (H j f Hin) as [Hv _].
      destruct (sop_decode_fn fs cubes [] x j) as [cs es] eqn:E.
      assert (Ecs : cs = dec cubes (length fs) x j) by (rewrite <- sop_decode_dec, E; reflexivity).
      assert (Ees : es = []) by (rewrite <- (sop_decode_snd fs cubes x j), E; reflexivity).
      subst cs es. unfold sop_from_cubes, soes_from_cubes. rewrite Hv. reflexivity. }
  cbn [bind].
  rewrite (mapM_ok_map _ fst).
  2:{ intros [[s o] f] Hin. apply In_combine_nth in Hin. destruct Hin as [j [H1 H2]].
      rewrite nth_error_map, (nth_error_indexed fs j f H2) in H1. cbn [option_map] in H1.
      assert (E : dpair cubes (length fs) x (j, f) = (s, o)) by congruence.
      destruct (H j f H2) as [_ Hd]. unfold sop_final_ok in Hd. rewrite E in Hd. cbn [fst snd] in Hd.
      rewrite Hd. reflexivity. }
  cbn [bind]. rewrite map_fst_combine by (rewrite map_length; apply indexed_length).
  rewrite (mapM_ok_map _ fst); [reflexivity|].
  intros so Hin. apply in_map_iff in Hin. destruct Hin as [[j f] [<- _]]. reflexivity.
Qed.

Theorem sop_optimal solver n fs ac oc :
  sop_instance n fs ac oc -> Forall (fun f => wf n (tbl f)) fs ->
  exists p cubes, sop_program fs ac (-1) oc = Ok (p, cubes, []) /\
  (solver_optimal_on solver p ->
   exists r, optimize_sop_mip solver fs ac oc = Ok r /\
            sop_solution_ok n (map tbl fs) (map scubes r) = true /\
            forall sol, sop_solution_ok n (map tbl fs) sol = true ->
                        (sop_cost ac oc (map scubes r) <= sop_cost ac oc sol)%Z).
Proof.
  intros Hinst Hwf. destruct (sop_program_ok n fs ac oc Hinst) as [cubes [Hp Hcand]].
  destruct Hinst as [Hn [Hf [Hac [Hoc Hb]]]].
  exists (sop_prog fs ac oc cubes), cubes. split; [exact Hp|].
  set (p := sop_prog fs ac oc cubes) in *.
  intros [Hsome Hnone].
  (* the feasible set is not empty *)
  destruct (sop_encode_complete n fs ac oc cubes _ Hf Hcand (all_implicants_ok n fs cubes Hn Hcand))
    as [x0 [Hx0 _]].
  destruct (solver p) as [x|] eqn:Hs; [|exfalso; exact (Hnone eq_refl x0 Hx0)].
  destruct (Hsome x eq_refl) as [Hx Hmin].
  destruct (sop_decode_sound n fs ac oc cubes x Hf Hcand ltac:(lia) ltac:(lia) Hx) as [Hok Hcost].
  rewrite sop_decoded_eq in Hok, Hcost.
  pose proof Hok as Hok'. rewrite sop_solution_ok_gen in Hok'. apply gen_solution_ok_iff in Hok'.
  destruct Hok' as [_ Hsem]. rewrite Forall_forall in Hf, Hwf.
  eexists. split; [|split].
  - apply (sop_run_ok solver fs ac oc p cubes x Hp Hs). intros j f Hfj.
    pose proof (nth_error_lt _ _ _ Hfj) as Hj. pose proof (Hf f (nth_error_In _ _ Hfj)) as Hnf.
    destruct (Hsem j f _ Hfj (nth_error_map_seq _ _ _ Hj)) as [Hg [_ Hs']]. split.
    + apply forallb_forall. intros c Hin. rewrite Hnf. apply good_vars_below. apply Hg. exact Hin.
    + apply final_ok_of_sem.
      * rewrite Hnf. apply Hwf. apply (nth_error_In _ _ Hfj).
      * rewrite Hnf. exact Hs'.
  - rewrite scubes_dpair. exact Hok.
  - intros sol Hsol. rewrite scubes_dpair.
    destruct (sop_encode_complete n fs ac oc cubes sol ltac:(apply Forall_forall; exact Hf) Hcand Hsol)
      as [y [Hy [Hobj _]]].
    pose proof (Hmin y Hy) as Hle. fold p in Hcost, Hobj. rewrite Hobj in Hle.
    pose proof (Qle_trans _ _ _ Hcost Hle) as Hfin. rewrite <- Zle_Qle in Hfin. lia.
Qed.

(* ------------------------------------------------------------------ H. final forms: for any instance on which the
   construction of the programme succeeds *)
Lemma mul_i32_inv a b c : mul_i32 a b = Ok c -> c = (a * b)%Z.
Proof. unfold mul_i32. intros H. apply bind_ok in H. destruct H as [u [_ H]]. inversion H. reflexivity. Qed.

Lemma cc_inv (cubes : list cube) ac cc :
  mapM (fun i => let* c := mul_i32 (Z.of_N (cube_num_gates (nth i cubes cube_zero))) ac in Ok (Z2 c, v_cu i))%res
       (seq 0 (length cubes)) = Ok cc ->
  cc = map (fun i => (Z2 (gz cubes i * ac), i)) (seq 0 (length cubes)).
Proof.
  intros H. apply (mapM_inv_map _ (fun i => (Z2 (gz cubes i * ac), i)) (fun _ => True)) in H; [tauto|].
  intros i b _ Hb. apply bind_ok in Hb. destruct Hb as [c [Hc Hb]]. apply mul_i32_inv in Hc. subst c.
  inversion Hb. split; [reflexivity|exact I].
Qed.

Lemma objective_inv fs ac oc cubes obj :
  sop_objective fs ac (-1) oc cubes [] = Ok obj -> obj = k_obj cubes (length fs) ac oc.
Proof.
  unfold sop_objective. intros H. apply bind_ok in H. destruct H as [cc [Hcc H]].
  apply cc_inv in Hcc. subst cc. cbn [length seq mapM bind app] in H. inversion H. unfold k_obj.
  f_equal. f_equal. apply map_ext. intros j. rewrite v_or_eq. reflexivity.
Qed.

Lemma sop_program_shape n fs ac oc p cubes : Forall (fun f => nv f = n) fs ->
  sop_program fs ac (-1) oc = Ok (p, cubes, []) ->
  p = sop_prog fs ac oc cubes /\ is_candidates n fs cubes /\ (1 <= ac)%Z /\ (1 <= oc)%Z.
Proof.
  intros Hn H. pose proof (sop_program_inv _ _ _ _ _ _ H) as [_ [Hc _]].
  unfold sop_program, sop_candidates in H. rewrite Hc in H. cbn [bind] in H.
  change (Z.leb 0 (-1)) with false in H. cbn [bind] in H.
  apply bind_ok in H. destruct H as [u [Hk H]]. apply bind_ok in H. destruct H as [obj [Ho H]].
  apply objective_inv in Ho. subst obj. inversion H. split; [reflexivity|].
  split; [apply candidates_char; assumption|].
  unfold sop_check in Hk. apply bind_ok in Hk. destruct Hk as [u1 [_ Hk]].
  apply bind_ok in Hk. destruct Hk as [u2 [Ha Hk]]. destruct u2. apply always_ok in Ha.
  apply bind_ok in Hk. destruct Hk as [u3 [Hb _]]. destruct u3. apply always_ok in Hb.
  apply Z.leb_le in Ha. apply Z.leb_le in Hb. auto.
Qed.

Theorem sop_program_ok_final n fs ac oc :
  n <= 31 -> Forall (fun f => nv f = n) fs -> (1 <= ac)%Z -> (1 <= oc)%Z -> (2 * Z.of_nat n * ac <= i32_max)%Z ->
  exists p cubes, sop_program fs ac (-1) oc = Ok (p, cubes, []) /\ NoDup cubes /\
    forall c, In c cubes <-> (cube_good n c = true /\ exists f, In f fs /\ cube_implies_lut c n (tbl f) = true).
Proof.
  intros H1 H2 H3 H4 H5. destruct (sop_program_ok n fs ac oc (conj H1 (conj H2 (conj H3 (conj H4 H5))))) as [cubes [Hp Hc]].
  exists (sop_prog fs ac oc cubes), cubes. split; [exact Hp|exact Hc].
Qed.

Theorem sop_decode_sound_final n fs ac oc p cubes x :
  Forall (fun f => nv f = n) fs -> sop_program fs ac (-1) oc = Ok (p, cubes, []) -> feasible p x ->
  let sol := map (fun j => fst (sop_decode_fn fs cubes [] x j)) (seq 0 (length fs)) in
  sop_solution_ok n (map tbl fs) sol = true /\
  (inject_Z (2 * sop_cost ac oc sol) <= eval2 x (pobj p))%Q.
Proof.
  intros Hn Hp Hx. destruct (sop_program_shape n fs ac oc p cubes Hn Hp) as [-> [Hc [Ha Hb]]].
  apply (sop_decode_sound n fs ac oc cubes x Hn Hc); [lia|lia|exact Hx].
Qed.

Theorem sop_encode_complete_final n fs ac oc p cubes sol :
  Forall (fun f => nv f = n) fs -> sop_program fs ac (-1) oc = Ok (p, cubes, []) ->
  sop_solution_ok n (map tbl fs) sol = true ->
  exists x, feasible p x /\ (eval2 x (pobj p) == inject_Z (2 * sop_cost ac oc sol))%Q.
Proof.
  intros Hn Hp Hs. destruct (sop_program_shape n fs ac oc p cubes Hn Hp) as [-> [Hc _]].
  destruct (sop_encode_complete n fs ac oc cubes sol Hn Hc Hs) as [x [H1 [H2 _]]]. exists x. auto.
Qed.

Theorem sop_optimal_final solver n fs ac oc :
  n <= 31 -> Forall (fun f => nv f = n /\ wf n (tbl f)) fs -> (1 <= ac)%Z -> (1 <= oc)%Z ->
  (2 * Z.of_nat n * ac <= i32_max)%Z ->
  exists p cubes, sop_program fs ac (-1) oc = Ok (p, cubes, []) /\
  (solver_optimal_on solver p ->
   exists r, optimize_sop_mip solver fs ac oc = Ok r /\
            sop_solution_ok n (map tbl fs) (map scubes r) = true /\
            forall sol, sop_solution_ok n (map tbl fs) sol = true ->
                        (sop_cost ac oc (map scubes r) <= sop_cost ac oc sol)%Z).
Proof.
  intros H1 H2 H3 H4 H5. apply sop_optimal.
  - split; [exact H1|]. split; [|auto]. apply Forall_forall. rewrite Forall_forall in H2. intros f Hf. apply (H2 f Hf).
  - apply Forall_forall. rewrite Forall_forall in H2. intros f Hf. apply (H2 f Hf).
Qed.

(* ------------------------------------------------------------------ I. the solver hypothesis is satisfiable (zero-cost instances) *)
Lemma sum_gates_nonneg l : (0 <= sum_gates l)%Z.
Proof. induction l as [|c l IH]; cbn [sum_gates fold_right]; [lia|]. fold (sum_gates l). lia. Qed.

Lemma sop_cost_nonneg ac oc sol : (0 <= ac)%Z -> (0 <= oc)%Z -> (0 <= sop_cost ac oc sol)%Z.
Proof.
  intros Ha Ho. unfold sop_cost.
  assert (E : (0 <= fold_right (fun c a => extra (length c) + a) 0 sol)%Z).
  { induction sol as [|c r IH]; cbn [fold_right]; [lia|].
    assert (0 <= extra (length c))%Z by (unfold extra; lia). lia. }
  pose proof (sum_gates_nonneg (dedupb cube_eqb (concat sol))) as G.
  nia.
Qed.

Lemma sop_solver_nonvacuous n fs ac oc p cubes sol :
  Forall (fun f => nv f = n) fs -> sop_program fs ac (-1) oc = Ok (p, cubes, []) ->
  sop_solution_ok n (map tbl fs) sol = true -> sop_cost ac oc sol = 0%Z ->
  exists solver, solver_optimal_on solver p.
Proof.
  intros Hn Hp Hs Hc. destruct (sop_encode_complete_final n fs ac oc p cubes sol Hn Hp Hs) as [x [Hx Hobj]].
  exists (fun _ => Some x). split; [|discriminate]. intros x' E. inversion E; subst x'. split; [exact Hx|].
  intros y Hy. destruct (sop_decode_sound_final n fs ac oc p cubes y Hn Hp Hy) as [_ Hle].
  destruct (sop_program_shape n fs ac oc p cubes Hn Hp) as [_ [_ [Ha Hb]]].
  rewrite Hobj, Hc. eapply Qle_trans; [|exact Hle]. rewrite <- Zle_Qle.
  pose proof (sop_cost_nonneg ac oc (map (fun j => fst (sop_decode_fn fs cubes [] y j)) (seq 0 (length fs)))
                ltac:(lia) ltac:(lia)). lia.
Qed.
