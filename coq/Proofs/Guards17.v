(* C17, part A - the guard structure of the Rust SOURCE.
   Gen/Guards.v is regenerated from /repo/src on every run: for every fn of lut.rs, static_lut.rs and of the kernel
   files it lists, in source order, the guard-relevant events of the body.  This file defines a decidable predicate
   "every index / assignment / table / slice parameter of every public method of Lut and StaticLut is protected by
   an always-on assertion that is evaluated before any profile-sensitive kernel call" and proves it by computation
   on the generated list.  Removing a `self.check_var(ind)`, turning an `assert!` of check_var / check_bit /
   check_lut / input_property_helper into a `debug_assert!`, moving a check behind the kernel call, or adding a new
   public method with an unclassified usize parameter changes Gen/Guards.v and breaks a Qed below (see the
   negative Examples at the end). *)
From Coq Require Import List String Ascii Bool Arith.
From V Require Import Gen.Guards.
Import ListNotations.
Open Scope string_scope.

(* ================================================================== strings *)
Fixpoint string_of_rev (l : list ascii) (acc : string) : string :=
  match l with [] => acc | c :: r => string_of_rev r (String c acc) end.

Definition opens (c : ascii) : bool := (c =? "<")%char || (c =? "(")%char || (c =? "[")%char.
Definition closes (c : ascii) : bool := (c =? ">")%char || (c =? ")")%char || (c =? "]")%char.

(* split on the commas that are not nested inside <..>, (..), [..]  (so "rhs: &StaticLut<N, T>" is one piece) *)
Fixpoint split_commas (s : string) (depth : nat) (cur : list ascii) : list string :=
  match s with
  | EmptyString => [string_of_rev cur ""]
  | String c r =>
      if (c =? ",")%char && Nat.eqb depth 0 then string_of_rev cur "" :: split_commas r 0 []
      else
        let depth' := if opens c then S depth else if closes c then Nat.pred depth else depth in
        split_commas r depth' (c :: cur)
  end.

Fixpoint trim_left (s : string) : string :=
  match s with
  | String c r => if (c =? " ")%char then trim_left r else s
  | EmptyString => EmptyString
  end.

(* "name: type" -> (name, type); a receiver ("&self", "&mut self", "self") -> (receiver, "") *)
Definition parse_param (s : string) : string * string :=
  match index 0 ": " s with
  | Some i => (substring 0 i s, substring (i + 2) (length s - (i + 2)) s)
  | None => (s, "")
  end.

Definition parse_params (s : string) : list (string * string) :=
  map parse_param (filter (fun x => negb (x =? "")) (map trim_left (split_commas s 0 []))).

Definition params_of (f : fn_info) : list (string * string) := parse_params (fi_params f).

Example parse_params_ex :
  parse_params "num_vars: usize, table: &mut [u64], t0: &[u64], rhs: &StaticLut<N, T>, ind: usize," =
  [("num_vars", "usize"); ("table", "&mut [u64]"); ("t0", "&[u64]"); ("rhs", "&StaticLut<N, T>"); ("ind", "usize")] /\
  parse_params "&mut self, ind1: usize, ind2: usize" = [("&mut self", ""); ("ind1", "usize"); ("ind2", "usize")] /\
  parse_params "" = [].
Proof. repeat split. Qed.

Definition mem (x : string) (l : list string) : bool := existsb (String.eqb x) l.

(* ================================================================== events *)
Definition event_eqb (a b : event) : bool :=
  match a, b with
  | CheckVar x, CheckVar y | CheckBit x, CheckBit y | CheckLut x, CheckLut y
  | AssertEq x, AssertEq y | Assert x, Assert y | DebugAssertEq x, DebugAssertEq y
  | DebugAssert x, DebugAssert y | CloneFromSlice x, CloneFromSlice y | Panic x, Panic y
  | Call x, Call y | Method x, Method y | OpAssign x, OpAssign y => x =? y
  | _, _ => false
  end.
Definition has (e : event) (l : list event) : bool := existsb (event_eqb e) l.

Definition is_debug (e : event) : bool :=
  match e with DebugAssert _ | DebugAssertEq _ => true | _ => false end.
Definition is_guard_event (e : event) : bool :=
  match e with
  | CheckVar _ | CheckBit _ | CheckLut _ | Assert _ | AssertEq _ | CloneFromSlice _ => true
  | _ => false
  end.
Definition guard_events (f : fn_info) : list event := filter is_guard_event (fi_events f).

(* ================================================================== classification of parameters *)
Inductive pclass :=
| PReceiver      (* &self, &mut self, self *)
| PVarIndex      (* must be < num_vars *)
| PAssignIndex   (* must be < 2^num_vars *)
| POtherTable    (* must have the same num_vars *)
| PTableList     (* all tables must have the same num_vars *)
| PBlockSlice    (* must have table_size(num_vars) words *)
| PFree          (* every value is valid: sizes, counts, flags, text *)
| PUnknown.

Definition pclass_eqb (a b : pclass) : bool :=
  match a, b with
  | PReceiver, PReceiver | PVarIndex, PVarIndex | PAssignIndex, PAssignIndex | POtherTable, POtherTable
  | PTableList, PTableList | PBlockSlice, PBlockSlice | PFree, PFree | PUnknown, PUnknown => true
  | _, _ => false
  end.

(* a function of (parameter name, type) only - not of the method *)
Definition classify_param (name ty : string) : pclass :=
  if (ty =? "") && mem name ["&self"; "&mut self"; "self"] then PReceiver
  else if ty =? "usize" then
    if mem name ["ind"; "ind1"; "ind2"; "var"] then PVarIndex
    else if name =? "mask" then PAssignIndex
    else if mem name ["num_vars"; "k"; "count_values"] then PFree
    else PUnknown
  else if mem ty ["&Self"; "&Lut"] then POtherTable
  else if ty =? "&[Self]" then PTableList
  else if ty =? "&[u64]" then PBlockSlice
  else if ((ty =? "bool") && (name =? "value")) || ((ty =? "&str") && (name =? "s")) then PFree
  else PUnknown.

Definition params_of_class (c : pclass) (f : fn_info) : list string :=
  map fst (filter (fun p => pclass_eqb (classify_param (fst p) (snd p)) c) (params_of f)).

(* ================================================================== lookup in the generated list *)
Section WithFunctions.
Variable fs : list fn_info.

Definition find_method (impl name : string) : option fn_info :=
  find (fun g => (fi_impl g =? impl) && (fi_trait g =? "") && (fi_name g =? name)) fs.
(* free functions of operations.rs / decomposition.rs / bdd.rs / canonization.rs *)
Definition find_free (name : string) : option fn_info :=
  find (fun g => (fi_impl g =? "") && (fi_name g =? name)) fs.

(* a call is profile-sensitive when the callee is a free crate function that contains a debug_assert!, or reaches
   one.  `Call f` events of an impl that do not resolve to a free function are associated constructors
   (Self::zero, Lut::new, Self::default) and std functions: they receive no index / table / slice argument. *)
Fixpoint debug_reach (fuel : nat) (name : string) : bool :=
  match fuel with
  | O => true
  | S k =>
      match find_free name with
      | None => false
      | Some g =>
          existsb is_debug (fi_events g) ||
          existsb (fun e => match e with Call c => debug_reach k c | _ => false end) (fi_events g)
      end
  end.
Definition fuel0 : nat := 8.

(* the events that are evaluated before the first profile-sensitive call *)
Fixpoint guard_prefix (evs : list event) : list event :=
  match evs with
  | [] => []
  | Call c :: r => if debug_reach fuel0 c then [] else Call c :: guard_prefix r
  | e :: r => e :: guard_prefix r
  end.

(* the three private helpers: exactly one always-on assertion, no debug assertion *)
Definition helper_expected (h : string) : list event :=
  if h =? "check_var" then [Assert "ind < self.num_vars()"]
  else if h =? "check_bit" then [Assert "ind < self.num_bits()"]
  else if h =? "check_lut" then [AssertEq "self.num_vars(), rhs.num_vars()"]
  else [].
Definition helper_params (h : string) : string :=
  if h =? "check_lut" then "&self, rhs: &Self" else "&self, ind: usize".
Definition helper_sound (impl h : string) : bool :=
  match find_method impl h with
  | None => false
  | Some g =>
      negb (existsb is_debug (fi_events g)) && (fi_params g =? helper_params h) &&
      (match guard_events g, helper_expected h with
       | [a], [b] => event_eqb a b
       | _, _ => false
       end)
  end.

(* ---- direct guards, searched in the prefix `pre` of the method's events *)
Definition var_exprs (fname p : string) : list string :=
  if prefix "swap_adjacent" fname then [p; p ++ " + 1"] else [p].
Definition var_expr_guarded (impl : string) (pre : list event) (x : string) : bool :=
  (helper_sound impl "check_var" && has (CheckVar x) pre) ||
  has (Assert (x ++ " < num_vars")) pre || has (Assert (x ++ " < N")) pre ||
  has (Assert (x ++ " < self.num_vars()")) pre.

Definition nv_texts (p : string) : list string := [p ++ ".num_vars"; p ++ ".num_vars()"].
Definition same_nv_asserted (pre : list event) (p q : string) : bool :=
  existsb (fun a => existsb (fun b =>
    has (AssertEq (a ++ ", " ++ b)) pre || has (AssertEq (b ++ ", " ++ a)) pre ||
    has (Assert (a ++ " == " ++ b)) pre || has (Assert (b ++ " == " ++ a)) pre) (nv_texts q)) (nv_texts p).

Definition direct_guard (f : fn_info) (p : string) (c : pclass) (pre : list event) : bool :=
  let impl := fi_impl f in
  match c with
  | PVarIndex => forallb (var_expr_guarded impl pre) (var_exprs (fi_name f) p)
  | PAssignIndex => helper_sound impl "check_bit" && has (CheckBit p) pre
  | POtherTable =>
      (helper_sound impl "check_lut" && has (CheckLut p) pre) ||
      existsb (same_nv_asserted pre p)
              (filter (fun q => negb (q =? p))
                      ((if negb (Nat.eqb (List.length (params_of_class PReceiver f)) 0) then ["self"] else [])
                       ++ params_of_class POtherTable f))
  | PTableList => has (AssertEq "lut.num_vars(), num_vars") pre
  | PBlockSlice => has (CloneFromSlice p) pre || has (Assert (p ++ ".len() == ret.num_blocks()")) pre
  | _ => false
  end.

(* ---- forwarding to methods of the same impl that take a parameter of the same name and class *)
Definition forwards (f : fn_info) (p : string) (c : pclass) (pre : list event) : list fn_info :=
  flat_map (fun e =>
    match e with
    | Method g =>
        match find_method (fi_impl f) g with
        | Some gi => if negb (fi_name gi =? fi_name f) && mem p (params_of_class c gi) then [gi] else []
        | None => []
        end
    | _ => []
    end) pre.

(* ---- the kernel route (top_decomposition, is_pos_unate, is_neg_unate: no guard in the wrapper):
        the called free function has one variable-index parameter q, no debug_assert!, and either contains the
        always-on `assert!(q < num_vars)` before any profile-sensitive call or passes q on to such functions only *)
Definition kernel_callees (pre : list event) : list string :=
  flat_map (fun e =>
    match e with
    | Call c => match find_free c with
                | Some g => if negb (Nat.eqb (List.length (params_of_class PVarIndex g)) 0) then [c] else []
                | None => []
                end
    | _ => []
    end) pre.

Fixpoint kernel_asserts (fuel : nat) (name : string) : bool :=
  match fuel with
  | O => false
  | S k =>
      match find_free name with
      | None => false
      | Some g =>
          negb (existsb is_debug (fi_events g)) &&
          match params_of_class PVarIndex g with
          | [q] =>
              let pre := guard_prefix (fi_events g) in
              has (Assert (q ++ " < num_vars")) pre ||
              (let C := filter (fun c => negb (c =? name)) (kernel_callees pre) in
               negb (Nat.eqb (List.length C) 0) && forallb (kernel_asserts k) C)
          | _ => false
          end
      end
  end.

Fixpoint param_guarded (fuel : nat) (f : fn_info) (p : string) (c : pclass) : bool :=
  match fuel with
  | O => false
  | S k =>
      let pre := guard_prefix (fi_events f) in
      direct_guard f p c pre ||
      (let G := forwards f p c pre in
       negb (Nat.eqb (List.length G) 0) && forallb (fun g => param_guarded k g p c) G) ||
      (match c with
       | PVarIndex =>
           let C := kernel_callees pre in
           negb (Nat.eqb (List.length C) 0) && forallb (kernel_asserts fuel0) C
       | _ => false
       end)
  end.

(* what each class requires.  StaticLut<N, T>: two operands of a method have the same N and T by typing, so a
   second table / a list of tables needs no run-time check. *)
Definition class_ok (f : fn_info) (p : string) (c : pclass) : bool :=
  match c with
  | PReceiver | PFree => true
  | PUnknown => false
  | POtherTable | PTableList => if fi_impl f =? "StaticLut" then true else param_guarded fuel0 f p c
  | PVarIndex | PAssignIndex | PBlockSlice => param_guarded fuel0 f p c
  end.

Definition method_guarded (f : fn_info) : bool :=
  forallb (fun p => class_ok f (fst p) (classify_param (fst p) (snd p))) (params_of f).

Definition is_api_method (f : fn_info) : bool :=
  fi_pub f && (fi_trait f =? "") && mem (fi_impl f) ["Lut"; "StaticLut"].

Definition api_methods : list fn_info := filter is_api_method fs.

Definition takes_checked_arg (f : fn_info) : bool :=
  existsb (fun p => match classify_param (fst p) (snd p) with
                    | PVarIndex | PAssignIndex | POtherTable | PTableList | PBlockSlice => true
                    | _ => false
                    end) (params_of f).

Definition all_guarded : bool := forallb method_guarded api_methods.
Definition failing : list (string * string) :=
  map (fun f => (fi_impl f, fi_name f)) (filter (fun f => negb (method_guarded f)) api_methods).

(* ---- operator trait impls of Lut / &Lut: `a & b`, `a &= b`, ... reach the BitXxxAssign<&Lut> impl, which asserts *)
Definition assign_trait_prefix (op : string) : string :=
  if op =? "&=" then "BitAndAssign" else if op =? "|=" then "BitOrAssign" else if op =? "^=" then "BitXorAssign" else "?".
Definition is_lut_operator (f : fn_info) : bool :=
  mem (fi_impl f) ["Lut"; "&Lut"] &&
  (prefix "BitAnd" (fi_trait f) || prefix "BitOr" (fi_trait f) || prefix "BitXor" (fi_trait f)).

Fixpoint operator_guarded (fuel : nat) (f : fn_info) : bool :=
  match fuel with
  | O => false
  | S k =>
      let pre := guard_prefix (fi_events f) in
      same_nv_asserted pre "self" "rhs" ||
      (let ops := flat_map (fun e => match e with OpAssign op => [op] | _ => [] end) pre in
       negb (Nat.eqb (List.length ops) 0) &&
       forallb (fun op =>
         let T := filter (fun g => (fi_impl g =? "Lut") && prefix (assign_trait_prefix op) (fi_trait g) &&
                                   negb ((fi_trait g =? fi_trait f) && (fi_impl g =? fi_impl f))) fs in
         negb (Nat.eqb (List.length T) 0) && forallb (operator_guarded k) T) ops)
  end.
Definition operators_guarded : bool := forallb (operator_guarded 4) (filter is_lut_operator fs).

(* no debug assertion anywhere in lut.rs / static_lut.rs: the wrappers use always-on assertions only *)
Definition no_debug_in_api_files : bool :=
  forallb (fun f => negb (existsb is_debug (fi_events f)))
          (filter (fun f => mem (fi_file f) ["src/lut.rs"; "src/static_lut.rs"]) fs).

Definition helpers_always_on : bool :=
  forallb (fun impl => forallb (helper_sound impl) ["check_var"; "check_bit"; "check_lut"]) ["Lut"; "StaticLut"].

End WithFunctions.

(* ================================================================== the theorems on the generated list *)

(* coverage: every parameter of every public method of the two impls is classified; in particular every usize
   parameter name is in the table, so a new index-taking method cannot slip through *)
Theorem g17_params_classified :
  forallb (fun f => forallb (fun p => negb (pclass_eqb (classify_param (fst p) (snd p)) PUnknown)) (params_of f))
          (api_methods functions) = true.
Proof. vm_compute. reflexivity. Qed.

(* the distinct (name, type) pairs that occur in the public methods of the two impls, with their class *)
Definition string_pair_dec (a b : string * string) : {a = b} + {a <> b}.
Proof. decide equality; apply string_dec. Defined.

Theorem g17_param_table :
  map (fun p => (fst p, snd p, classify_param (fst p) (snd p)))
      (nodup string_pair_dec (flat_map params_of (api_methods functions))) =
  [("rhs", "&Lut", POtherTable); ("num_vars", "usize", PFree); ("var", "usize", PVarIndex); ("k", "usize", PFree);
   ("count_values", "usize", PFree); ("value", "bool", PFree); ("mask", "usize", PAssignIndex);
   ("rhs", "&Self", POtherTable); ("ind1", "usize", PVarIndex); ("ind2", "usize", PVarIndex);
   ("&mut self", "", PReceiver); ("c0", "&Self", POtherTable); ("c1", "&Self", POtherTable);
   ("blocks", "&[u64]", PBlockSlice); ("ind", "usize", PVarIndex); ("luts", "&[Self]", PTableList);
   ("&self", "", PReceiver); ("s", "&str", PFree)].
Proof. vm_compute. reflexivity. Qed.

(* the usize parameter names of the public methods: all eight are in the classification table *)
Theorem g17_usize_names :
  nodup string_dec (map fst (filter (fun p => snd p =? "usize") (flat_map params_of (api_methods functions)))) =
  ["num_vars"; "var"; "k"; "count_values"; "mask"; "ind1"; "ind2"; "ind"].
Proof. vm_compute. reflexivity. Qed.

Theorem g17_helpers_always_on : helpers_always_on functions = true.
Proof. vm_compute. reflexivity. Qed.

Theorem g17_every_index_guarded : forallb (method_guarded functions) (filter is_api_method functions) = true.
Proof. vm_compute. reflexivity. Qed.

Theorem g17_no_debug_guard_in_api : no_debug_in_api_files functions = true.
Proof. vm_compute. reflexivity. Qed.

Theorem g17_operators_guarded : operators_guarded functions = true.
Proof. vm_compute. reflexivity. Qed.

(* the theorem is not vacuous: 92 public methods, 50 of them take an index / assignment / table / slice *)
Theorem g17_api_method_count :
  List.length (api_methods functions) = 92 /\ List.length (filter takes_checked_arg (api_methods functions)) = 50.
Proof. vm_compute. split; reflexivity. Qed.

(* ---- the pinned, human-readable table: for every public method that takes a checked argument, the part of its
        guard prefix that protects it: its own always-on guards, the same-impl methods it forwards the argument to,
        and the always-asserting kernels it calls *)
Definition guard_route (fs : list fn_info) (f : fn_info) : list event :=
  filter (fun e =>
    match e with
    | Method g =>
        match find_method fs (fi_impl f) g with
        | Some gi => negb (fi_name gi =? fi_name f) &&
                     existsb (fun p => match classify_param (fst p) (snd p) with
                                       | PVarIndex | PAssignIndex | POtherTable | PTableList | PBlockSlice =>
                                           mem (fst p) (params_of_class (classify_param (fst p) (snd p)) gi)
                                       | _ => false
                                       end) (params_of f)
        | None => false
        end
    | Call c => kernel_asserts fs fuel0 c
    | _ => is_guard_event e
    end) (guard_prefix fs (fi_events f)).

Theorem g17_guard_table :
  map (fun f => (fi_impl f, fi_name f, guard_route functions f)) (filter takes_checked_arg (api_methods functions)) =
  [ ("Lut", "nth_var", [Assert "var < num_vars"]);
    ("Lut", "value", [Method "get_bit"]);
    ("Lut", "get_bit", [CheckBit "mask"]);
    ("Lut", "set_value", [Method "set_bit"; Method "unset_bit"]);
    ("Lut", "set_bit", [CheckBit "mask"]);
    ("Lut", "unset_bit", [CheckBit "mask"]);
    ("Lut", "and_inplace", [CheckLut "rhs"]);
    ("Lut", "or_inplace", [CheckLut "rhs"]);
    ("Lut", "xor_inplace", [CheckLut "rhs"]);
    ("Lut", "flip_inplace", [CheckVar "ind"]);
    ("Lut", "swap_inplace", [CheckVar "ind1"; CheckVar "ind2"]);
    ("Lut", "swap_adjacent_inplace", [CheckVar "ind"; CheckVar "ind + 1"]);
    ("Lut", "and", [Method "and_inplace"]);
    ("Lut", "or", [Method "or_inplace"]);
    ("Lut", "xor", [Method "xor_inplace"]);
    ("Lut", "flip", [Method "flip_inplace"]);
    ("Lut", "swap", [Method "swap_inplace"]);
    ("Lut", "swap_adjacent", [Method "swap_adjacent_inplace"]);
    ("Lut", "cofactors", [CheckVar "ind"]);
    ("Lut", "from_cofactors", [AssertEq "c0.num_vars, c1.num_vars"; CheckVar "ind"]);
    ("Lut", "from_blocks", [Assert "blocks.len() == ret.num_blocks()"; CloneFromSlice "blocks"]);
    ("Lut", "top_decomposition", [Call "top_decomposition"]);
    ("Lut", "is_pos_unate", [Call "input_pos_unate"]);
    ("Lut", "is_neg_unate", [Call "input_neg_unate"]);
    ("Lut", "bdd_complexity", [AssertEq "lut.num_vars(), num_vars"]);
    ("StaticLut", "nth_var", [Assert "var < N"]);
    ("StaticLut", "value", [Method "get_bit"]);
    ("StaticLut", "get_bit", [CheckBit "mask"]);
    ("StaticLut", "set_value", [Method "set_bit"; Method "unset_bit"]);
    ("StaticLut", "set_bit", [CheckBit "mask"]);
    ("StaticLut", "unset_bit", [CheckBit "mask"]);
    ("StaticLut", "and_inplace", [CheckLut "rhs"]);
    ("StaticLut", "or_inplace", [CheckLut "rhs"]);
    ("StaticLut", "xor_inplace", [CheckLut "rhs"]);
    ("StaticLut", "flip_inplace", [CheckVar "ind"]);
    ("StaticLut", "swap_inplace", [CheckVar "ind1"; CheckVar "ind2"]);
    ("StaticLut", "swap_adjacent_inplace", [CheckVar "ind"; CheckVar "ind + 1"]);
    ("StaticLut", "and", [Method "and_inplace"]);
    ("StaticLut", "or", [Method "or_inplace"]);
    ("StaticLut", "xor", [Method "xor_inplace"]);
    ("StaticLut", "flip", [Method "flip_inplace"]);
    ("StaticLut", "swap", [Method "swap_inplace"]);
    ("StaticLut", "swap_adjacent", [Method "swap_adjacent_inplace"]);
    ("StaticLut", "cofactors", [CheckVar "ind"]);
    ("StaticLut", "from_cofactors", [CheckVar "ind"]);
    ("StaticLut", "from_blocks", [CloneFromSlice "blocks"]);
    ("StaticLut", "top_decomposition", [Call "top_decomposition"]);
    ("StaticLut", "is_pos_unate", [Call "input_pos_unate"]);
    ("StaticLut", "is_neg_unate", [Call "input_neg_unate"]);
    ("StaticLut", "bdd_complexity", []) ].
Proof. vm_compute. reflexivity. Qed.

(* the free functions that assert their variable index in every profile (directly: input_property_helper) *)
Theorem g17_kernels_always_on :
  map fi_name (filter (fun g => (fi_impl g =? "") && kernel_asserts functions fuel0 (fi_name g)) functions) =
  ["input_property_helper"; "input_independent"; "input_and"; "input_or"; "input_nand"; "input_nor"; "input_xor";
   "input_pos_unate"; "input_neg_unate"; "top_decomposition"] /\
  option_map guard_events (find_free functions "input_property_helper") =
  Some [Assert "table.len() == table_size(num_vars)"; Assert "ind < num_vars"].
Proof. vm_compute. split; reflexivity. Qed.

(* the free functions called by the wrappers whose own index / length checks are debug-only: these are the calls
   in front of which the wrapper's always-on guard has to stand *)
Theorem g17_profile_sensitive_kernels :
  nodup string_dec
    (flat_map (fun f => flat_map (fun e => match e with
                                           | Call c => if debug_reach functions fuel0 c then [c] else []
                                           | _ => [] end) (fi_events f))
              (filter takes_checked_arg (api_methods functions))) =
  ["fill_nth_var"; "get_bit"; "set_bit"; "unset_bit"; "and_inplace"; "or_inplace"; "xor_inplace"; "flip_inplace";
   "swap_inplace"; "swap_adjacent_inplace"; "cofactor0_inplace"; "cofactor1_inplace"; "from_cofactors_inplace"].
Proof. vm_compute. reflexivity. Qed.

(* ================================================================== the predicate is honest: negative examples
   Each example edits ONE entry of the generated list the way an edit of the Rust source would, and the predicate
   turns false; `failing` names the public methods that lose their protection. *)
Definition edit (impl trait name : string) (upd : fn_info -> fn_info) (fs : list fn_info) : list fn_info :=
  map (fun g => if (fi_impl g =? impl) && (fi_trait g =? trait) && (fi_name g =? name) then upd g else g) fs.
Definition with_events (evs : list event) (g : fn_info) : fn_info :=
  {| fi_file := fi_file g; fi_impl := fi_impl g; fi_trait := fi_trait g; fi_name := fi_name g; fi_pub := fi_pub g;
     fi_params := fi_params g; fi_events := evs |}.
Definition with_params (ps : string) (g : fn_info) : fn_info :=
  {| fi_file := fi_file g; fi_impl := fi_impl g; fi_trait := fi_trait g; fi_name := fi_name g; fi_pub := fi_pub g;
     fi_params := ps; fi_events := fi_events g |}.

(* sanity: editing an entry to itself changes nothing *)
Example edit_identity :
  all_guarded (edit "Lut" "" "flip_inplace"
                 (with_events [CheckVar "ind"; Call "flip_inplace"; Method "as_mut"]) functions) = true.
Proof. vm_compute. reflexivity. Qed.

(* 1. `self.check_var(ind)` deleted from Lut::flip_inplace *)
Example neg_flip_unchecked :
  let fs := edit "Lut" "" "flip_inplace" (with_events [Call "flip_inplace"; Method "as_mut"]) functions in
  all_guarded fs = false /\ failing fs = [("Lut", "flip_inplace"); ("Lut", "flip")].
Proof. vm_compute. split; reflexivity. Qed.

(* 2. the pinned-tree defect: cofactors without check_var (only the kernels' debug_assert!) *)
Example neg_cofactors_unchecked :
  let fs := edit "StaticLut" "" "cofactors"
              (with_events [Call "cofactor0_inplace"; Method "num_vars"; Method "as_mut";
                            Call "cofactor1_inplace"; Method "num_vars"; Method "as_mut"]) functions in
  all_guarded fs = false /\ failing fs = [("StaticLut", "cofactors")].
Proof. vm_compute. split; reflexivity. Qed.

(* 3. the check moved behind the kernel call *)
Example neg_check_after_kernel :
  let fs := edit "Lut" "" "flip_inplace"
              (with_events [Call "flip_inplace"; Method "as_mut"; CheckVar "ind"]) functions in
  all_guarded fs = false /\ failing fs = [("Lut", "flip_inplace"); ("Lut", "flip")].
Proof. vm_compute. split; reflexivity. Qed.

(* 4. `self.check_var(ind + 1)` deleted from swap_adjacent_inplace *)
Example neg_swap_adjacent_succ :
  let fs := edit "Lut" "" "swap_adjacent_inplace"
              (with_events [CheckVar "ind"; Call "swap_adjacent_inplace"; Method "as_mut"]) functions in
  all_guarded fs = false /\ failing fs = [("Lut", "swap_adjacent_inplace"); ("Lut", "swap_adjacent")].
Proof. vm_compute. split; reflexivity. Qed.

(* 5. only the second index of swap is checked *)
Example neg_swap_one_index :
  let fs := edit "StaticLut" "" "swap_inplace"
              (with_events [CheckVar "ind2"; Call "swap_inplace"; Method "as_mut"]) functions in
  all_guarded fs = false /\ failing fs = [("StaticLut", "swap_inplace"); ("StaticLut", "swap")].
Proof. vm_compute. split; reflexivity. Qed.

(* 6. assert! -> debug_assert! inside check_var itself: every method that relies on it fails *)
Example neg_check_var_debug :
  let fs := edit "Lut" "" "check_var" (with_events [DebugAssert "ind < self.num_vars()"; Method "num_vars"]) functions in
  all_guarded fs = false /\ helpers_always_on fs = false /\ no_debug_in_api_files fs = false /\
  failing fs = [("Lut", "flip_inplace"); ("Lut", "swap_inplace"); ("Lut", "swap_adjacent_inplace"); ("Lut", "flip");
                ("Lut", "swap"); ("Lut", "swap_adjacent"); ("Lut", "cofactors"); ("Lut", "from_cofactors")].
Proof. vm_compute. repeat split; reflexivity. Qed.

(* 7. the same for check_bit and check_lut *)
Example neg_check_bit_debug :
  let fs := edit "StaticLut" "" "check_bit" (with_events [DebugAssert "ind < self.num_bits()"; Method "num_bits"]) functions in
  all_guarded fs = false /\
  failing fs = [("StaticLut", "value"); ("StaticLut", "get_bit"); ("StaticLut", "set_value"); ("StaticLut", "set_bit");
                ("StaticLut", "unset_bit")].
Proof. vm_compute. split; reflexivity. Qed.

Example neg_check_lut_debug :
  let fs := edit "Lut" "" "check_lut"
              (with_events [DebugAssertEq "self.num_vars(), rhs.num_vars()"; Method "num_vars"; Method "num_vars"]) functions in
  all_guarded fs = false /\
  failing fs = [("Lut", "and_inplace"); ("Lut", "or_inplace"); ("Lut", "xor_inplace"); ("Lut", "and"); ("Lut", "or");
                ("Lut", "xor")].
Proof. vm_compute. split; reflexivity. Qed.

(* 8. check_var compares with something else *)
Example neg_check_var_wrong_bound :
  let fs := edit "Lut" "" "check_var" (with_events [Assert "ind <= self.num_vars()"; Method "num_vars"]) functions in
  all_guarded fs = false /\ helpers_always_on fs = false.
Proof. vm_compute. split; reflexivity. Qed.

(* 9. input_property_helper loses its always-on index assertion (becomes a debug_assert!) *)
Example neg_helper_debug :
  let fs := edit "" "" "input_property_helper"
              (with_events [Assert "table.len() == table_size(num_vars)"; Method "len"; Call "table_size";
                            DebugAssert "ind < num_vars"; Call "num_vars_mask"; OpAssign "&="; Method "len";
                            OpAssign "&="]) functions in
  all_guarded fs = false /\
  failing fs = [("Lut", "top_decomposition"); ("Lut", "is_pos_unate"); ("Lut", "is_neg_unate");
                ("StaticLut", "top_decomposition"); ("StaticLut", "is_pos_unate"); ("StaticLut", "is_neg_unate")].
Proof. vm_compute. split; reflexivity. Qed.

(* 10. ... or loses it altogether *)
Example neg_helper_unchecked :
  let fs := edit "" "" "input_property_helper"
              (with_events [Assert "table.len() == table_size(num_vars)"; Method "len"; Call "table_size";
                            Call "num_vars_mask"; OpAssign "&="; Method "len"; OpAssign "&="]) functions in
  all_guarded fs = false /\
  failing fs = [("Lut", "top_decomposition"); ("Lut", "is_pos_unate"); ("Lut", "is_neg_unate");
                ("StaticLut", "top_decomposition"); ("StaticLut", "is_pos_unate"); ("StaticLut", "is_neg_unate")].
Proof. vm_compute. split; reflexivity. Qed.

(* 11. set_value forwards to an unchecked unset_bit in one branch *)
Example neg_set_value_branch :
  let fs := edit "Lut" "" "unset_bit" (with_events [Call "unset_bit"; Method "as_mut"]) functions in
  all_guarded fs = false /\ failing fs = [("Lut", "set_value"); ("Lut", "unset_bit")].
Proof. vm_compute. split; reflexivity. Qed.

(* 12. Lut::and_inplace without check_lut; Lut::from_cofactors without the assert_eq!; bdd_complexity without it *)
Example neg_tables :
  failing (edit "Lut" "" "and_inplace" (with_events [Call "and_inplace"; Method "as_mut"; Method "as_ref"]) functions)
    = [("Lut", "and_inplace"); ("Lut", "and")] /\
  failing (edit "Lut" "" "from_cofactors"
             (with_events [CheckVar "ind"; Call "new"; Call "from_cofactors_inplace"; Method "as_mut"; Method "as_ref";
                           Method "as_ref"]) functions)
    = [("Lut", "from_cofactors")] /\
  failing (edit "Lut" "" "bdd_complexity"
             (with_events [Method "is_empty"; Method "num_vars"; Call "new"; Method "extend"; Method "blocks";
                           Method "iter"; Call "table_complexity"; Method "as_slice"]) functions)
    = [("Lut", "bdd_complexity")].
Proof. vm_compute. repeat split; reflexivity. Qed.

(* 13. from_blocks: StaticLut without clone_from_slice (e.g. a copy loop); Lut with neither guard *)
Example neg_from_blocks :
  failing (edit "StaticLut" "" "from_blocks" (with_events [Call "default"]) functions)
    = [("StaticLut", "from_blocks")] /\
  failing (edit "Lut" "" "from_blocks" (with_events [Call "zero"; Method "len"; Method "num_blocks"]) functions)
    = [("Lut", "from_blocks")] /\
  (* one of the two always-on guards is enough for Lut *)
  failing (edit "Lut" "" "from_blocks" (with_events [Call "zero"; CloneFromSlice "blocks"]) functions) = [].
Proof. vm_compute. repeat split; reflexivity. Qed.

(* 14. a new / renamed usize parameter is unclassified: coverage fails until it is added to `classify_param` *)
Example neg_unclassified_parameter :
  let fs := edit "Lut" "" "flip_inplace" (with_params "&mut self, index: usize") functions in
  all_guarded fs = false /\ failing fs = [("Lut", "flip_inplace"); ("Lut", "flip")].
Proof. vm_compute. split; reflexivity. Qed.

(* 15. a debug_assert! used as the guard of a wrapper *)
Example neg_debug_guard_in_wrapper :
  let fs := edit "Lut" "" "nth_var"
              (with_events [DebugAssert "var < num_vars"; Call "new"; Call "fill_nth_var"; Method "as_mut"]) functions in
  all_guarded fs = false /\ no_debug_in_api_files fs = false /\ failing fs = [("Lut", "nth_var")].
Proof. vm_compute. repeat split; reflexivity. Qed.

(* 16. operators: BitAndAssign<&Lut> loses its assert!: every `&` / `&=` form of Lut is unprotected *)
Example neg_operator :
  let fs := edit "Lut" "BitAndAssign<&Lut>" "bitand_assign"
              (with_events [Call "and_inplace"; Method "as_mut"; Method "as_ref"]) functions in
  operators_guarded fs = false /\
  map (fun f => (fi_impl f, fi_trait f))
      (filter (fun f => negb (operator_guarded fs 4 f)) (filter is_lut_operator fs)) =
  [("Lut", "BitAndAssign<&Lut>"); ("Lut", "BitAndAssign<Lut>"); ("Lut", "BitAnd<Lut>"); ("&Lut", "BitAnd<Lut>");
   ("&Lut", "BitAnd<&Lut>"); ("Lut", "BitAnd<&Lut>")].
Proof. vm_compute. split; reflexivity. Qed.
